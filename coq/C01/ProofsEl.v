(* C01 proofs, fourth part: the relations for an arbitrary element order / equality, the source range of the range
   members (models of ModelEl.v against SpecEl.v). *)
From Tetl Require Import Lib.Base Lib.Arr C06a.Model C01.Model C01.Spec C01.ModelExt C01.SpecExt C01.ModelIt C01.SpecIt
  C01.ModelEl C01.SpecEl.
From Tetl Require Import C01.ProofsBase C01.ProofsStep C01.ProofsExt C01.ProofsStack C01.ProofsIt.
From Coq Require Import Lia ZArith List Bool.
Import ListNotations.
Local Open Scope Z_scope.
Ltac Zify.zify_post_hook ::= Z.to_euclidean_division_equations.

(* the part of the output that shows the source range after the call *)
Definition src_after (E : elt) (o : zop) : list Z :=
  match o with
  | ZInsertRange _ _ _ xs | ZAssignRange _ _ xs | ZCtorRange _ _ xs => xs
  | ZMoveInsertRange _ _ _ xs | ZCtorArr _ xs => map (e_mv E) xs
  | _ => []
  end.
Definition zat_arg_ok (o : zop) : Prop := match o with ZY o => yat_arg_ok o | _ => True end.
Definition zsize_args_ok (o : zop) : Prop := match o with ZY o => ysize_args_ok o | _ => True end.

Section ElRel.
Variable E : elt.

(** * relations: NO assumption on e_lt / e_eq *)
Lemma equal3_ok : forall a b, length a = length b -> equal3 E a b = Ok (all2 E a b).
Proof.
  induction a as [|x s IH]; intros [|y t] Hl; cbn [equal3 all2 length] in *; try reflexivity; try discriminate Hl.
  destruct (e_eq E x y); cbn [negb andb]; [|reflexivity]. apply IH. lia.
Qed.

Lemma equal4_ok a b : equal4 E a b = Ok (spec_eq E a b).
Proof.
  unfold equal4, spec_eq, len. destruct (Z.of_nat (length a) =? Z.of_nat (length b)) eqn:El; cbn [negb andb]; [|reflexivity].
  apply equal3_ok. apply Z.eqb_eq in El. lia.
Qed.

Lemma len_cons_ltb (x y : Z) s t : (len (x :: s) <? len (y :: t)) = (len s <? len t).
Proof.
  unfold len. cbn [length]. destruct (Z.of_nat (length s) <? Z.of_nat (length t)) eqn:H.
  - apply Z.ltb_lt in H. apply Z.ltb_lt. lia.
  - apply Z.ltb_ge in H. apply Z.ltb_ge. lia.
Qed.

Lemma lex_lt_g_spec : forall a b, lex_lt_g E a b = spec_lt E a b.
Proof.
  induction a as [|x s IH]; intros [|y t]; unfold spec_lt; cbn [lex_lt_g mismatch]; try reflexivity.
  destruct (e_lt E x y) eqn:E1; cbn [orb]; [symmetry; exact E1|].
  destruct (e_lt E y x) eqn:E2; [symmetry; exact E1|].
  rewrite IH. unfold spec_lt. rewrite len_cons_ltb. reflexivity.
Qed.

Section Inv.
Variable c : nat.

Lemma sv_eq_ok a b : inv c a -> inv c b -> sv_eq E a b = Ok (spec_eq E (elems a) (elems b)).
Proof.
  intros Ha Hb. unfold sv_eq. rewrite <- (elems_len c a Ha), <- (elems_len c b Hb).
  destruct (len (elems a) =? len (elems b)) eqn:El.
  - apply equal4_ok.
  - unfold spec_eq. rewrite El. reflexivity.
Qed.

Lemma sv_relations_ok a b : inv c a -> inv c b ->
  sv_relations E a b = Ok (spec_relations_g E (elems a) (elems b)).
Proof.
  intros Ha Hb. unfold sv_relations, six, sv_ne, sv_le, sv_gt, sv_ge, sv_lt.
  rewrite (sv_eq_ok a b Ha Hb). cbn [rbind]. rewrite !lex_lt_g_spec. reflexivity.
Qed.

Lemma stk_relations_ok a b : inv c a -> inv c b ->
  stk_relations E a b = Ok (spec_relations_g E (elems a) (elems b)).
Proof. intros Ha Hb. exact (sv_relations_ok a b Ha Hb). Qed.
End Inv.

(** * the two readings of the standard agree for an asymmetric < *)
Lemma spec_lt_lex3 : forall a b, spec_lt E a b = match lex3 E a b with Lt => true | _ => false end.
Proof.
  induction a as [|x s IH]; intros [|y t]; unfold spec_lt; cbn [mismatch lex3]; try reflexivity.
  destruct (e_lt E x y) eqn:E1; cbn [orb]; [exact E1|].
  destruct (e_lt E y x) eqn:E2; [exact E1|].
  rewrite <- IH. unfold spec_lt. rewrite len_cons_ltb. reflexivity.
Qed.

Lemma spec_gt_lex3 : (forall x y, e_lt E x y = true -> e_lt E y x = false) ->
  forall a b, spec_lt E b a = match lex3 E a b with Gt => true | _ => false end.
Proof.
  intros Hasym. induction a as [|x s IH]; intros [|y t]; unfold spec_lt; cbn [mismatch lex3]; try reflexivity.
  destruct (e_lt E x y) eqn:E1.
  - rewrite (Hasym x y E1). cbn [orb]. exact (Hasym x y E1).
  - rewrite orb_false_r. destruct (e_lt E y x) eqn:E2; [exact E2|].
    rewrite <- IH. unfold spec_lt. rewrite len_cons_ltb. reflexivity.
Qed.

Lemma spec_relations_three_way : (forall x y, e_lt E x y = true -> e_lt E y x = false) ->
  forall a b, spec_relations_g E a b = spec_relations_3way E a b.
Proof.
  intros Hasym a b. unfold spec_relations_g, spec_relations_3way.
  rewrite (spec_gt_lex3 Hasym a b), (spec_lt_lex3 a b). destruct (lex3 E a b); reflexivity.
Qed.
End ElRel.

(** * the total order of the integers is an instance: the old specification and the old model *)
Lemma all2_total mv : forall a b, length a = length b -> all2 (elt_total mv) a b = list_eqb a b.
Proof.
  induction a as [|x s IH]; intros [|y t] Hl; cbn [all2 list_eqb length] in *; try reflexivity; try discriminate Hl.
  cbn [elt_total e_eq]. rewrite IH by lia. reflexivity.
Qed.

Lemma list_eqb_len : forall a b, list_eqb a b = true -> length a = length b.
Proof.
  induction a as [|x s IH]; intros [|y t] H; cbn [list_eqb length] in *; try reflexivity; try discriminate H.
  apply andb_true_iff in H as (_ & H). rewrite (IH t H). reflexivity.
Qed.

Lemma spec_eq_total mv a b : spec_eq (elt_total mv) a b = list_eqb a b.
Proof.
  unfold spec_eq, len. destruct (Z.of_nat (length a) =? Z.of_nat (length b)) eqn:El; cbn [andb].
  - apply all2_total. apply Z.eqb_eq in El. lia.
  - destruct (list_eqb a b) eqn:Eb; [|reflexivity]. apply list_eqb_len in Eb. apply Z.eqb_neq in El. lia.
Qed.

Lemma lex_lt_g_total mv : forall a b, lex_lt_g (elt_total mv) a b = lex_lt a b.
Proof. induction a as [|x s IH]; intros [|y t]; cbn [lex_lt_g lex_lt elt_total e_lt]; try reflexivity; try (rewrite IH; reflexivity). Qed.

Lemma spec_relations_total mv a b : spec_relations_g (elt_total mv) a b = spec_relations a b.
Proof.
  unfold spec_relations_g, spec_relations. rewrite spec_eq_total, <- !lex_lt_g_spec, !lex_lt_g_total.
  rewrite list_eqb_cmp, (lex_lt_cmp a b), (lex_lt_cmp b a), (lex_cmp_opp a b).
  destruct (lex_cmp a b); reflexivity.
Qed.

Lemma sv_relations_total mv c a b : inv c a -> inv c b -> sv_relations (elt_total mv) a b = Ok (relations a b).
Proof.
  intros Ha Hb. rewrite (sv_relations_ok _ c a b Ha Hb), spec_relations_total, (relations_ok c a b Ha Hb). reflexivity.
Qed.

(** * the source range *)
Lemma emplace_all_from_eq f : forall xs v,
  emplace_all_from f v xs = do v' <- emplace_all v xs; Ok (v', map f xs).
Proof.
  induction xs as [|x t IH]; intros v; cbn [emplace_all_from emplace_all map rbind]; [reflexivity|].
  destruct (emplace_back v x) as [v1| | |]; cbn [rbind]; try reflexivity.
  rewrite IH. destruct (emplace_all v1 t); reflexivity.
Qed.

Lemma map_keep xs : map mv_keep xs = xs.
Proof. induction xs as [|x t IH]; cbn [map]; [reflexivity|]. rewrite IH. reflexivity. Qed.

Lemma insert_range_src_eq k v pos xs :
  insert_range_src k v pos xs = do v' <- insert_range_it k v pos xs; Ok (v', xs).
Proof.
  unfold insert_range_src, insert_range_it.
  destruct (negb (pos_ok v pos)); [reflexivity|].
  destruct (is_random k && negb (wrapu 64 (sz v + Z.of_nat (length xs)) <=? cap v)); [reflexivity|].
  rewrite emplace_all_from_eq, map_keep. destruct (emplace_all v xs) as [v1| | |]; cbn [rbind fst snd]; try reflexivity.
Qed.

Lemma move_insert_src_eq E k v pos xs :
  move_insert_src E k v pos xs = do v' <- move_insert_it k v pos xs; Ok (v', map (e_mv E) xs).
Proof.
  unfold move_insert_src, move_insert_it.
  destruct (negb (pos_ok v pos)); [reflexivity|].
  destruct (is_random k && negb (wrapu 64 (sz v + Z.of_nat (length xs)) <=? cap v)); [reflexivity|].
  rewrite emplace_all_from_eq. destruct (emplace_all v xs) as [v1| | |]; cbn [rbind fst snd]; try reflexivity.
Qed.

Lemma assign_range_src_eq k v xs :
  assign_range_src k v xs = do v' <- assign_range_it k v xs; Ok (v', xs).
Proof.
  unfold assign_range_src, assign_range_it.
  destruct (is_random k && negb (Z.of_nat (length xs) <=? cap v)); [reflexivity|].
  destruct (clear v) as [v0| | |]; cbn [rbind]; try reflexivity. apply insert_range_src_eq.
Qed.

Lemma ctor_range_src_eq k like xs :
  ctor_range_src k like xs = do v' <- ctor_range_it k like xs; Ok (v', xs).
Proof.
  unfold ctor_range_src, ctor_range_it.
  destruct (is_random k && negb (Z.of_nat (length xs) <=? cap like)); [reflexivity|]. apply insert_range_src_eq.
Qed.

Lemma ctor_arr_src_eq E like xs :
  ctor_arr_src E like xs = do v' <- move_insert (fresh like) 0 xs; Ok (v', map (e_mv E) xs).
Proof. unfold ctor_arr_src. rewrite move_insert_src_eq. reflexivity. Qed.

Section Z.
Variable E : elt.
Variable pred : Z -> Z -> bool.

(* an operation that also shows its source is the plain operation followed by the source *)
Lemma zstep_plain s o y : plain o = Some y ->
  zstep E pred s o = do r <- ystep pred s y; Ok (fst r, snd r ++ src_after E o).
Proof.
  intros Hp. destruct o; cbn [plain] in Hp; try discriminate Hp; injection Hp as <-; cbn [zstep src_after].
  - destruct (ystep pred s o) as [[s' out]| | |]; cbn [rbind fst snd]; try reflexivity. rewrite app_nil_r. reflexivity.
  - cbn [ystep]. rewrite insert_range_src_eq. destruct (insert_range_it k (sel t s) pos xs); reflexivity.
  - cbn [ystep]. rewrite move_insert_src_eq. destruct (move_insert_it k (sel t s) pos xs); reflexivity.
  - cbn [ystep]. rewrite assign_range_src_eq. destruct (assign_range_it k (sel t s) xs); reflexivity.
  - cbn [ystep]. rewrite ctor_range_src_eq. destruct (ctor_range_it k (sel t s) xs) as [tmp| | |]; cbn [rbind fst snd]; try reflexivity.
    destruct (move_assign (sel t s) tmp); reflexivity.
  - cbn [ystep xstep]. rewrite ctor_arr_src_eq.
    destruct (move_insert (fresh (sel t s)) 0 xs) as [tmp| | |]; cbn [rbind fst snd]; try reflexivity.
    destruct (move_assign (sel t s) tmp); reflexivity.
Qed.

Lemma zspec_plain cz S o y : plain o = Some y ->
  zspec_step E pred cz S o = with_source (src_after E o) (yspec_step pred cz S y).
Proof.
  intros Hp. destruct o; cbn [plain] in Hp; try discriminate Hp; injection Hp as <-; cbn [zspec_step src_after]; try reflexivity.
  destruct (yspec_step pred cz S o) as [[s' out]|]; cbn [with_source]; [|reflexivity]. rewrite app_nil_r. reflexivity.
Qed.

Lemma plain_none o : plain o = None -> o = ZRelations.
Proof. destruct o; cbn [plain]; intros H; try discriminate H. reflexivity. Qed.

Lemma plain_at_arg_ok o y : plain o = Some y -> zat_arg_ok o -> yat_arg_ok y.
Proof. destruct o; cbn [plain]; intros H; try discriminate H; injection H as <-; cbn [zat_arg_ok yat_arg_ok xat_arg_ok]; auto. Qed.
Lemma plain_size_args_ok o y : plain o = Some y -> zsize_args_ok o -> ysize_args_ok y.
Proof. destruct o; cbn [plain]; intros H; try discriminate H; injection H as <-; cbn [zsize_args_ok ysize_args_ok xsize_args_ok]; auto. Qed.

Section Cap.
Variable c : nat.
Hypothesis Hc : cap_ok c.

Theorem zstep_refines : forall s o, inv c (fst s) -> inv c (snd s) -> forall s1 out,
  zspec_step E pred (Z.of_nat c) (abs s) o = Some (s1, out) ->
  exists s', zstep E pred s o = Ok (s', out) /\ abs s' = s1 /\ inv c (fst s') /\ inv c (snd s')
             /\ observe s' = spec_observe (Z.of_nat c) s1.
Proof.
  intros s o Ha Hb s1 out H. destruct (plain o) as [y|] eqn:Hp.
  - rewrite (zspec_plain _ _ o y Hp) in H.
    destruct (yspec_step pred (Z.of_nat c) (abs s) y) as [[s1' out']|] eqn:Ey; cbn [with_source] in H; [|discriminate H].
    injection H as <- <-.
    destruct (ystep_refines c Hc pred s y Ha Hb s1' out' Ey) as (s' & Hst & Hrest).
    exists s'. rewrite (zstep_plain s o y Hp), Hst. cbn [rbind fst snd]. split; [reflexivity|exact Hrest].
  - apply plain_none in Hp. subst o. cbn [zspec_step] in H. injection H as <- <-. cbn [zstep].
    rewrite (sv_relations_ok E c _ _ Ha Hb). cbn [rbind]. exists s. split; [reflexivity|]. apply (fin c); auto.
Qed.

Theorem zrun_refines : forall ops s outs, inv c (fst s) -> inv c (snd s) ->
  zspec_run E pred (Z.of_nat c) (abs s) ops = Some outs ->
  zrun E pred s ops = map Ok outs.
Proof.
  induction ops as [|o rest IH]; intros s outs Ha Hb H; cbn [zspec_run zrun] in *.
  - injection H as <-. reflexivity.
  - destruct (zspec_step E pred (Z.of_nat c) (abs s) o) as [[s1 out]|] eqn:Eo; [|discriminate].
    destruct (zspec_run E pred (Z.of_nat c) s1 rest) as [r|] eqn:Er; [|discriminate].
    injection H as <-.
    destruct (zstep_refines s o Ha Hb s1 out Eo) as (s' & -> & Habs & Ha' & Hb' & Hobs).
    cbn [map]. rewrite Hobs. f_equal. apply IH; auto. rewrite Habs. exact Er.
Qed.

Theorem zstep_safe : forall s o, inv c (fst s) -> inv c (snd s) -> zat_arg_ok o -> safe_step c (zstep E pred s o).
Proof.
  intros s o Ha Hb Harg. destruct (plain o) as [y|] eqn:Hp.
  - rewrite (zstep_plain s o y Hp).
    pose proof (ystep_safe c Hc pred s y Ha Hb (plain_at_arg_ok o y Hp Harg)) as S.
    destruct (ystep pred s y) as [[s' out]| | |]; cbn [rbind safe_step fst snd] in *; exact S.
  - apply plain_none in Hp. subst o. cbn [zstep]. rewrite (sv_relations_ok E c _ _ Ha Hb). cbn [rbind safe_step]. auto.
Qed.

Theorem zstep_no_ub : forall s o, inv c (fst s) -> inv c (snd s) -> zat_arg_ok o ->
  (forall k, zstep E pred s o <> UB k) /\ zstep E pred s o <> OutOfFuel.
Proof.
  intros s o Ha Hb Harg. pose proof (zstep_safe s o Ha Hb Harg) as H.
  destruct (zstep E pred s o); cbn [safe_step] in H; try contradiction; split; intros; discriminate.
Qed.

Theorem zstep_contract_fires : forall s o, inv c (fst s) -> inv c (snd s) -> zsize_args_ok o ->
  zspec_step E pred (Z.of_nat c) (abs s) o = None -> zstep E pred s o = Contract.
Proof.
  intros s o Ha Hb Harg H. destruct (plain o) as [y|] eqn:Hp.
  - rewrite (zspec_plain _ _ o y Hp) in H.
    destruct (yspec_step pred (Z.of_nat c) (abs s) y) as [[s1' out']|] eqn:Ey; cbn [with_source] in H; [discriminate H|].
    rewrite (zstep_plain s o y Hp), (ystep_contract_fires c Hc pred s y Ha Hb (plain_size_args_ok o y Hp Harg) Ey).
    reflexivity.
  - apply plain_none in Hp. subst o. discriminate H.
Qed.

Lemma zstep_keeps_inv s o s' out : inv c (fst s) -> inv c (snd s) -> zstep E pred s o = Ok (s', out) ->
  inv c (fst s') /\ inv c (snd s').
Proof.
  intros Ha Hb H. destruct (plain o) as [y|] eqn:Hp.
  - rewrite (zstep_plain s o y Hp) in H.
    destruct (ystep pred s y) as [[s0 out0]| | |] eqn:Ey; cbn [rbind fst snd] in H; try discriminate H.
    injection H as <- _. exact (ystep_keeps_inv c Hc pred s y s0 out0 Ha Hb Ey).
  - apply plain_none in Hp. subst o. cbn [zstep] in H. rewrite (sv_relations_ok E c _ _ Ha Hb) in H. cbn [rbind] in H.
    injection H as <- _. auto.
Qed.

Theorem zstep_fast_eq : forall s o, inv c (fst s) -> inv c (snd s) -> zstep_fast E pred s o = zstep E pred s o.
Proof. intros s o Ha Hb. destruct o; cbn [zstep_fast zstep]; try reflexivity. apply (ystep_fast_eq c Hc); auto. Qed.

Theorem zrun_fast_eq : forall ops s, inv c (fst s) -> inv c (snd s) -> zrun_fast E pred s ops = zrun E pred s ops.
Proof.
  induction ops as [|o rest IH]; intros s Ha Hb; cbn [zrun_fast zrun]; [reflexivity|].
  rewrite zstep_fast_eq by auto.
  destruct (zstep E pred s o) as [[s' out]| | |] eqn:Eo; try reflexivity.
  destruct (zstep_keeps_inv s o s' out Ha Hb Eo) as (Ha' & Hb'). rewrite IH by auto. reflexivity.
Qed.

(** * stack *)
Theorem st_zstep_refines : forall s o, inv c (fst s) -> inv c (snd s) -> forall s1 out,
  st_zspec_step E (Z.of_nat c) (st_abs s) o = Some (s1, out) ->
  exists s', st_zstep E s o = Ok (s', out) /\ st_abs s' = s1 /\ inv c (fst s') /\ inv c (snd s')
             /\ observe s' = st_spec_observe (Z.of_nat c) s1.
Proof.
  intros s o Ha Hb s1 out H. destruct o as [o|].
  - exact (st_ystep_refines c Hc s o Ha Hb s1 out H).
  - cbn [st_zspec_step] in H. injection H as <- <-. cbn [st_zstep].
    rewrite (stk_relations_ok E c _ _ Ha Hb). cbn [rbind]. unfold st_abs. cbn [fst snd]. rewrite !rev_involutive.
    exists s. split; [reflexivity|]. apply (st_fin c); auto.
Qed.

Theorem st_zrun_refines : forall ops s outs, inv c (fst s) -> inv c (snd s) ->
  st_zspec_run E (Z.of_nat c) (st_abs s) ops = Some outs ->
  st_zrun E s ops = map Ok outs.
Proof.
  induction ops as [|o rest IH]; intros s outs Ha Hb H; cbn [st_zspec_run st_zrun] in *.
  - injection H as <-. reflexivity.
  - destruct (st_zspec_step E (Z.of_nat c) (st_abs s) o) as [[s1 out]|] eqn:Eo; [|discriminate].
    destruct (st_zspec_run E (Z.of_nat c) s1 rest) as [r|] eqn:Er; [|discriminate].
    injection H as <-.
    destruct (st_zstep_refines s o Ha Hb s1 out Eo) as (s' & -> & Habs & Ha' & Hb' & Hobs).
    cbn [map]. rewrite Hobs. f_equal. apply IH; auto. rewrite Habs. exact Er.
Qed.

Theorem st_zstep_contract_fires : forall s o, inv c (fst s) -> inv c (snd s) ->
  st_zspec_step E (Z.of_nat c) (st_abs s) o = None -> st_zstep E s o = Contract.
Proof.
  intros s o Ha Hb H. destruct o as [o|].
  - exact (st_ystep_contract_fires c s o Ha Hb H).
  - discriminate H.
Qed.
End Cap.
End Z.
