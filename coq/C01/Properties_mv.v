(* C01 — Fixed-capacity vectors behave exactly like std::vector within capacity.  Sixth property file: the object a MOVE
   leaves behind — the second object of move construction, move assignment and the converting move stack(Container&&), seen
   exactly as the call leaves it (nothing is cleared or re-assigned afterwards) and then used on: the state of the history
   keeps the moved-from object, every later operation starts from it.
   Property theorems only: each is closed by [exact]/a short wrapper of a lemma of ProofsMv.v, then Print Assumptions.

   Vocabulary as in the other property files:  inv c v := length (buf v) = c /\ 0 <= sz v <= c;  abs s := the two vectors as
   lists;  c : nat is the capacity, side condition Z.of_nat c < 2^63 only.
   elt      = { e_lt; e_eq; e_mv }:  e_mv x is the value a moved-from element that held x is left with (ARBITRARY function).
   ivt      = { ivt_mc; ivt_ma }:  is the move constructor / move assignment of inplace_vector<T, N> the defaulted (trivial) one.
   vop      = every operation of ModelArg.wop (through VW) + `v_t = move(v_other)` + `Vec c(move(v_t))`, source left as it is.
   st_vop   = every operation of ModelArg.st_wop + the same two for stack + stack(Container&&) with the container observed after.
   iv_vop   = every operation of ModelArg.iv_wop + the same two for inplace_vector. *)
From Tetl Require Import Lib.Base Lib.Arr C06a.Model C06a.Instances C01.Model C01.Spec C01.ModelExt C01.SpecExt C01.ModelIt
  C01.SpecIt C01.ModelEl C01.SpecEl C01.ModelArg C01.SpecArg C01.ModelMv C01.SpecMv.
From Tetl Require Import C01.ProofsBase C01.ProofsStep C01.ProofsExt C01.ProofsStack C01.ProofsIvExt C01.ProofsIt C01.ProofsEl
  C01.ProofsArg C01.ProofsMv.
Local Open Scope Z_scope.

(** 1. One step over vop.  `v_t = move(v_other)`: the target holds what the source held, the source keeps its SIZE and every
    one of its elements is moved-from (e_mv);  `Vec c(move(v_t))`: c holds what v_t held, v_t likewise.  For every e_mv. *)
Theorem C01_vstep_refines : forall A E pred c s o s1 out, Z.of_nat c < 2 ^ 63 ->
  inv c (fst s) -> inv c (snd s) ->
  vspec_step A E pred (Z.of_nat c) (abs s) o = Some (s1, out) ->
  exists s', vstep A E pred s o = Ok (s', out) /\ abs s' = s1 /\ inv c (fst s') /\ inv c (snd s')
             /\ observe s' = spec_observe (Z.of_nat c) s1.
Proof. intros A E pred c s o s1 out Hc Ha Hb. exact (vstep_refines A E pred c Hc s o Ha Hb s1 out). Qed.
Print Assumptions C01_vstep_refines.

(** 2. Whole histories — in particular every continuation on a moved-from vector (push, size, reads, further moves). *)
Theorem C01_vhistory_refines : forall A E pred c ops s outs, Z.of_nat c < 2 ^ 63 ->
  inv c (fst s) -> inv c (snd s) ->
  vspec_run A E pred (Z.of_nat c) (abs s) ops = Some outs ->
  vrun A E pred s ops = map Ok outs.
Proof. intros A E pred c ops s outs Hc. exact (vrun_refines A E pred c Hc ops s outs). Qed.
Print Assumptions C01_vhistory_refines.

Theorem C01_vvector_refines_std : forall A E pred c ops outs, Z.of_nat c < 2 ^ 63 ->
  vspec_run A E pred (Z.of_nat c) ([], []) ops = Some outs ->
  vrun A E pred (empty_vec c, empty_vec c) ops = map Ok outs.
Proof.
  intros A E pred c ops outs Hc H. apply (vrun_refines A E pred c Hc); cbn [fst snd]; try apply empty_inv.
  unfold abs. cbn [fst snd]. rewrite empty_elems. exact H.
Qed.
Print Assumptions C01_vvector_refines_std.

(** 3. Safety and contract exactness over vop (a move has no precondition: it never stops, never has UB). *)
Theorem C01_vsafe_and_contract_exact : forall A E pred c s o, Z.of_nat c < 2 ^ 63 ->
  inv c (fst s) -> inv c (snd s) ->
  (vat_arg_ok o ->
     (forall k, vstep A E pred s o <> UB k) /\ vstep A E pred s o <> OutOfFuel /\
     (forall s' out, vstep A E pred s o = Ok (s', out) -> inv c (fst s') /\ inv c (snd s'))) /\
  (vsize_args_ok o -> vspec_step A E pred (Z.of_nat c) (abs s) o = None -> vstep A E pred s o = Contract).
Proof.
  intros A E pred c s o Hc Ha Hb. split.
  - intros Harg. destruct (vstep_no_ub A E pred c Hc s o Ha Hb Harg) as (H1 & H2). split; [exact H1|]. split; [exact H2|].
    intros s' out H. exact (vstep_keeps_inv A E pred c Hc s o s' out Ha Hb H).
  - exact (vstep_contract_fires A E pred c Hc s o Ha Hb).
Qed.
Print Assumptions C01_vsafe_and_contract_exact.

(** 4. The functions the correspondence run executes (vrun_fast, iv_vrun_fast) return exactly the results of vrun / iv_vrun. *)
Theorem C01_vfast_model_equal : forall A E pred I c, Z.of_nat c < 2 ^ 63 ->
  (forall ops s, inv c (fst s) -> inv c (snd s) -> vrun_fast A E pred s ops = vrun A E pred s ops) /\
  (forall ops s, inv c (fst s) -> inv c (snd s) -> iv_vrun_fast A I s ops = iv_vrun A I s ops).
Proof.
  intros A E pred I c Hc. split.
  - intros ops s. exact (vrun_fast_eq A E pred c Hc ops s).
  - intros ops s. exact (iv_vrun_fast_eq A c Hc I ops s).
Qed.
Print Assumptions C01_vfast_model_equal.

(** 5. etl::stack: the defaulted move members and stack(Container&&) move the container element by element: the source stack
    / the container argument keeps its size, its elements are moved-from; one step, whole histories, contract exactness. *)
Theorem C01_stack_moved_from_refine : forall A E c, Z.of_nat c < 2 ^ 63 ->
  (forall s o s1 out, inv c (fst s) -> inv c (snd s) ->
     st_vspec_step A E (Z.of_nat c) (st_abs s) o = Some (s1, out) ->
     exists s', st_vstep A E s o = Ok (s', out) /\ st_abs s' = s1 /\ inv c (fst s') /\ inv c (snd s')
                /\ observe s' = st_spec_observe (Z.of_nat c) s1) /\
  (forall ops outs, st_vspec_run A E (Z.of_nat c) ([], []) ops = Some outs ->
     st_vrun A E (empty_vec c, empty_vec c) ops = map Ok outs) /\
  (forall s o, inv c (fst s) -> inv c (snd s) ->
     st_vspec_step A E (Z.of_nat c) (st_abs s) o = None -> st_vstep A E s o = Contract).
Proof.
  intros A E c Hc. split; [|split].
  - intros s o s1 out Ha Hb. exact (st_vstep_refines A E c Hc s o Ha Hb s1 out).
  - intros ops outs H. apply (st_vrun_refines A E c Hc); cbn [fst snd]; try apply empty_inv.
    unfold st_abs. cbn [fst snd]. rewrite empty_elems. exact H.
  - exact (st_vstep_contract_fires A E c).
Qed.
Print Assumptions C01_stack_moved_from_refine.

(** 6. inplace_vector: for every ivt — the defaulted members leave the source unchanged, the user-provided ones leave it
    empty; one step, whole histories, safety, contract exactness (iv_vop). *)
Theorem C01_inplace_vector_moved_from_refine : forall A I c, Z.of_nat c < 2 ^ 63 ->
  (forall s o s1 out, inv c (fst s) -> inv c (snd s) ->
     iv_vspec_step A (Z.of_nat c) I (abs s) o = Some (s1, out) ->
     exists s', iv_vstep A I s o = Ok (s', out) /\ abs s' = s1 /\ inv c (fst s') /\ inv c (snd s')
                /\ observe s' = spec_observe (Z.of_nat c) s1) /\
  (forall ops outs, iv_vspec_run A (Z.of_nat c) I ([], []) ops = Some outs ->
     iv_vrun A I (empty_vec c, empty_vec c) ops = map Ok outs) /\
  (forall s o, inv c (fst s) -> inv c (snd s) -> iv_vat_arg_ok o ->
     (forall k, iv_vstep A I s o <> UB k) /\ iv_vstep A I s o <> OutOfFuel) /\
  (forall s o, inv c (fst s) -> inv c (snd s) -> iv_vsize_args_ok o ->
     iv_vspec_step A (Z.of_nat c) I (abs s) o = None -> iv_vstep A I s o = Contract).
Proof.
  intros A I c Hc. split; [|split; [|split]].
  - intros s o s1 out Ha Hb. exact (iv_vstep_refines A c Hc I s o Ha Hb s1 out).
  - intros ops outs H. apply (iv_vrun_refines A c Hc I); cbn [fst snd]; try apply empty_inv.
    unfold abs. cbn [fst snd]. rewrite empty_elems. exact H.
  - exact (iv_vstep_no_ub A c Hc I).
  - exact (iv_vstep_contract_fires A c Hc I).
Qed.
Print Assumptions C01_inplace_vector_moved_from_refine.

(** 7. The two user-provided move members of inplace_vector leave the SAME kind of source: empty.  After `v_t = move(v_other)`
    the target holds what the source held and the source has no elements (so the next try_push_back lands at index 0);
    after `Vec c(move(v_t))` likewise. *)
Theorem C01_inplace_vector_moved_from_empty : forall A I c s t, Z.of_nat c < 2 ^ 63 ->
  ivt_mc I = false -> ivt_ma I = false -> inv c (fst s) -> inv c (snd s) ->
  (exists s' out, iv_vstep A I s (IvVMoveAssign t) = Ok (s', out) /\ elems (sel (negb t) s') = []
                  /\ elems (sel t s') = elems (sel (negb t) s)) /\
  (exists s' out, iv_vstep A I s (IvVMoveConstruct t) = Ok (s', out) /\ elems (sel t s') = []
                  /\ out = sz (sel t s) :: elems (sel t s)).
Proof. intros A I c s t Hc Hmc Hma Ha Hb. exact (iv_moved_from_empty A c Hc I Hmc Hma s t Ha Hb). Qed.
Print Assumptions C01_inplace_vector_moved_from_empty.

(** 8. Non-vacuity and sharpness: capacity-3 histories accepted by the specification and reproduced by the model.
    (a) static_vector of elements whose moved-from value is -555: {1, 2} moved into the other vector: target {1, 2}, source
        {-555, -555} (size 2); a push_back on the source lands at index 2.
    (b) inplace_vector of a class type: after `v1 = move(v0)` the source is empty and the next try_push_back makes it {7}
        (size 1) - the history of the seeded change C01-i2, where the library answered size 3;  with the defaulted members
        (trivial T) the source still holds {1, 2}.
    (c) stack(Container&&): the container argument {1, 2} reads {-555, -555} afterwards, the stack holds 2 on top. *)
Example C01_mv_nonvacuous :
  let pred := pred_of in
  let E := elt_total (mv_const (-555)) in
  let ops := [VW (WZ (ZAssignRange false ItPtr [1; 2])); VMoveAssign true; VW (WZ (ZY (XBase (Base (PushBack false 7)))));
              VMoveConstruct true] in
  let iops := [IvV (IvW (IvBase (IvTryPush false 1))); IvV (IvW (IvBase (IvTryPush false 2))); IvVMoveAssign true;
               IvV (IvW (IvBase (IvTryPush false 7))); IvVMoveConstruct true] in
  let sops := [StVFromContainerRv false [1; 2]; StVMoveAssign true; StV (StW (StZ (StBase (StTop true))))] in
  Z.of_nat 3 < 2 ^ 63
  /\ (exists outs, vspec_run arg_int E pred 3 ([], []) ops = Some outs
                   /\ vrun arg_int E pred (empty_vec 3, empty_vec 3) ops = map Ok outs
                   /\ vrun_fast arg_int E pred (empty_vec 3, empty_vec 3) ops = map Ok outs
                   /\ nth 1 outs ([], []) = ([], [2; 0; 0; 2; -555; -555; 2; 0; 0; 2; 1; 2])
                   /\ nth 2 outs ([], []) = ([], [3; 0; 1; 3; -555; -555; 7; 2; 0; 0; 2; 1; 2])
                   /\ nth 3 outs ([], []) = ([2; 1; 2], [3; 0; 1; 3; -555; -555; 7; 2; 0; 0; 2; -555; -555]))
  /\ (exists outs, iv_vspec_run arg_int 3 ivt_class ([], []) iops = Some outs
                   /\ iv_vrun arg_int ivt_class (empty_vec 3, empty_vec 3) iops = map Ok outs
                   /\ iv_vrun_fast arg_int ivt_class (empty_vec 3, empty_vec 3) iops = map Ok outs
                   /\ nth 2 outs ([], []) = ([], [0; 1; 0; 0; 2; 0; 0; 2; 1; 2])
                   /\ nth 3 outs ([], []) = ([1], [1; 0; 0; 1; 7; 2; 0; 0; 2; 1; 2])
                   /\ nth 4 outs ([], []) = ([2; 1; 2], [1; 0; 0; 1; 7; 0; 1; 0; 0]))
  /\ (exists outs, iv_vspec_run arg_int 3 ivt_trivial ([], []) iops = Some outs
                   /\ iv_vrun arg_int ivt_trivial (empty_vec 3, empty_vec 3) iops = map Ok outs
                   /\ nth 2 outs ([], []) = ([], [2; 0; 0; 2; 1; 2; 2; 0; 0; 2; 1; 2])
                   /\ nth 4 outs ([], []) = ([2; 1; 2], [3; 0; 1; 3; 1; 2; 7; 2; 0; 0; 2; 1; 2]))
  /\ (exists outs, st_vspec_run arg_int E 3 ([], []) sops = Some outs
                   /\ st_vrun arg_int E (empty_vec 3, empty_vec 3) sops = map Ok outs
                   /\ nth 0 outs ([], []) = ([2; 2; -555; -555], [2; 0; 0; 2; 1; 2; 0; 1; 0; 0])
                   /\ nth 1 outs ([], []) = ([], [2; 0; 0; 2; -555; -555; 2; 0; 0; 2; 1; 2])
                   /\ fst (nth 2 outs ([], [])) = [2]).
Proof.
  cbv zeta. split; [reflexivity|].
  split; [eexists; split; [vm_compute; reflexivity|repeat split; vm_compute; reflexivity]|].
  split; [eexists; split; [vm_compute; reflexivity|repeat split; vm_compute; reflexivity]|].
  split; [eexists; split; [vm_compute; reflexivity|repeat split; vm_compute; reflexivity]|].
  eexists; split; [vm_compute; reflexivity|repeat split; vm_compute; reflexivity].
Qed.
