(* C01 proofs, part 2: the insert family.  insert = append at the end, then etl::rotate the
   appended block into place; the rotation is discharged by C06a's rotate_m_decomp. *)
From Tetl Require Import Lib.Base Lib.Arr C06a.Model C06a.P1_Common C06a.RotateProof.
From Tetl Require Import C01.Model C01.Spec C01.ProofsBase.
From Coq Require Import Arith Lia.
Ltac Zify.zify_post_hook ::= Z.to_euclidean_division_equations.
Local Open Scope Z_scope.

(** * rotate on the storage *)
Lemma rotate_buf_ok c v l1 l2 xs : repr c v (l1 ++ l2 ++ xs) ->
  okr c (rotate_buf v (len l1) (len l1 + len l2)) (l1 ++ xs ++ l2).
Proof.
  intros (rest & Hb & Hs & Hl). unfold rotate_buf, szn. rewrite Hs.
  replace (Z.to_nat (len l1)) with (length l1) by (unfold len; lia).
  replace (Z.to_nat (len l1 + len l2)) with (length l1 + length l2)%nat by (unfold len; lia).
  replace (Z.to_nat (len (l1 ++ l2 ++ xs))) with (length l1 + length l2 + length xs)%nat
    by (unfold len; rewrite !app_length; lia).
  rewrite Hb, <- !app_assoc. unfold rotate.
  rewrite rotate_m_decomp by lia. cbn [rbind fst].
  eexists; split; [reflexivity|]. exists rest. cbn [buf sz]. split; [|split].
  - rewrite <- !app_assoc. reflexivity.
  - unfold len. rewrite !app_length. lia.
  - rewrite <- Hl, Hb, !app_length. lia.
Qed.

(* the common tail of every insert: the new block xs sits behind the old elements l *)
Lemma insert_tail c v l pos xs : repr c v (l ++ xs) -> 0 <= pos <= len l ->
  okr c (rotate_buf v pos (len l)) (ins l pos xs).
Proof.
  intros Hr Hp. unfold ins. set (p := Z.to_nat pos).
  assert (Hp' : (p <= length l)%nat) by (unfold p, len in *; lia).
  assert (E1 : pos = len (firstn p l)) by (unfold len, p; rewrite firstn_length; lia).
  assert (E2 : len l = len (firstn p l) + len (skipn p l)).
  { rewrite <- len_app, firstn_skipn. reflexivity. }
  rewrite E2, E1 at 1. apply rotate_buf_ok.
  rewrite app_assoc, firstn_skipn. exact Hr.
Qed.

Lemma pos_ok_t v pos : 0 <= pos <= sz v -> pos_ok v pos = true.
Proof. intros H. unfold pos_ok. rewrite !leb_t by lia. reflexivity. Qed.
Lemma pos_ok_f v pos : pos < 0 \/ sz v < pos -> pos_ok v pos = false.
Proof.
  intros H. unfold pos_ok. destruct (Z.leb_spec 0 pos); [|reflexivity].
  rewrite leb_f by lia. reflexivity.
Qed.

(** * move_insert / insert(pos, first, last) *)
Lemma insert_range_ok c v l pos xs : cap_ok c -> repr c v l ->
  0 <= pos <= len l -> len l + len xs <= Z.of_nat c ->
  okr c (insert_range v pos xs) (ins l pos xs).
Proof.
  intros Hc Hr Hp Hfit. pose proof Hr as (rest & Hb & Hs & Hl). pose proof (len_nonneg l).
  pose proof (len_nonneg xs). assert (H64 := cap_ok_64 c Hc).
  unfold insert_range. rewrite pos_ok_t by lia. cbn [negb].
  unfold cap. rewrite Hl. fold (len xs). rewrite Hs. rewrite wrapu64_small by lia.
  rewrite leb_t by lia. cbn [negb].
  destruct (emplace_all_ok c Hc xs v l Hr Hfit) as (v' & -> & Hr'). cbn [rbind].
  apply insert_tail; auto.
Qed.

Lemma insert_range_contract c v l pos xs : cap_ok c -> repr c v l ->
  pos < 0 \/ len l < pos \/ Z.of_nat c < len l + len xs ->
  insert_range v pos xs = Contract.
Proof.
  intros Hc Hr Hbad. pose proof Hr as (rest & Hb & Hs & Hl).
  unfold insert_range. destruct (pos_ok v pos) eqn:Ep; [|reflexivity]. cbn [negb].
  destruct (wrapu 64 (sz v + Z.of_nat (length xs)) <=? cap v); [|reflexivity]. cbn [negb].
  unfold pos_ok in Ep. b2p Ep.
  rewrite (emplace_all_contract c Hc xs v l Hr) by lia. reflexivity.
Qed.

Lemma move_insert_eq v pos xs : move_insert v pos xs = insert_range v pos xs.
Proof. reflexivity. Qed.

(** * insert(pos, n, x), exhaustive in n *)
Lemma insert_n_ok c v l pos n x : cap_ok c -> repr c v l ->
  0 <= pos <= len l -> wrapu 64 n <= Z.of_nat c - len l -> n <= Z.of_nat c - len l ->
  okr c (insert_n v pos n x) (ins l pos (repeat x (Z.to_nat n))).
Proof.
  intros Hc Hr Hp Hw Hfit. pose proof Hr as (rest & Hb & Hs & Hl). pose proof (len_nonneg l).
  pose proof (repr_len _ _ _ Hr) as Hle. assert (H64 := cap_ok_64 c Hc).
  unfold insert_n. rewrite pos_ok_t by lia. cbn [negb].
  unfold cap. rewrite Hl, Hs. rewrite (wrapu64_small (Z.of_nat c - len l)) by lia.
  rewrite leb_t by lia. cbn [negb].
  replace (Z.min n (Z.of_nat c + 1)) with n by lia.
  destruct (push_n_ok c Hc (Z.to_nat n) v l x Hr) as (v' & -> & Hr'); [lia|]. cbn [rbind].
  apply insert_tail; auto.
Qed.

Lemma insert_n_contract c v l pos n x : cap_ok c -> repr c v l ->
  pos < 0 \/ len l < pos \/ Z.of_nat c - len l < wrapu 64 n \/ Z.of_nat c - len l < n ->
  insert_n v pos n x = Contract.
Proof.
  intros Hc Hr Hbad. pose proof Hr as (rest & Hb & Hs & Hl). pose proof (len_nonneg l).
  pose proof (repr_len _ _ _ Hr) as Hle. assert (H64 := cap_ok_64 c Hc).
  unfold insert_n. destruct (pos_ok v pos) eqn:Ep; [|reflexivity]. cbn [negb].
  unfold cap. rewrite Hl, Hs. rewrite (wrapu64_small (Z.of_nat c - len l)) by lia.
  destruct (Z.leb_spec (wrapu 64 n) (Z.of_nat c - len l)) as [Hw|Hw]; [|reflexivity]. cbn [negb].
  unfold pos_ok in Ep. b2p Ep.
  rewrite (push_n_contract c Hc _ v l x Hr) by lia. reflexivity.
Qed.

Lemma insert_n_safe c v pos n x : cap_ok c -> inv c v -> safe c (insert_n v pos n x).
Proof.
  intros Hc Hi. apply inv_repr in Hi. set (l := elems v) in *.
  assert (D : (0 <= pos <= len l /\ wrapu 64 n <= Z.of_nat c - len l /\ n <= Z.of_nat c - len l)
              \/ (pos < 0 \/ len l < pos \/ Z.of_nat c - len l < wrapu 64 n \/ Z.of_nat c - len l < n)) by lia.
  destruct D as [(H1 & H2 & H3)|D].
  - eapply okr_safe, insert_n_ok; eauto.
  - rewrite (insert_n_contract c v l); auto. exact I.
Qed.

Lemma insert_range_safe c v pos xs : cap_ok c -> inv c v -> safe c (insert_range v pos xs).
Proof.
  intros Hc Hi. apply inv_repr in Hi. set (l := elems v) in *.
  assert (D : (0 <= pos <= len l /\ len l + len xs <= Z.of_nat c)
              \/ (pos < 0 \/ len l < pos \/ Z.of_nat c < len l + len xs)) by lia.
  destruct D as [(H1 & H2)|D].
  - eapply okr_safe, insert_range_ok; eauto.
  - rewrite (insert_range_contract c v l); auto. exact I.
Qed.

(** * single-element inserts *)
Lemma full_t c v l : repr c v l -> len l = Z.of_nat c -> full v = true.
Proof. intros (rest & Hb & Hs & Hl) H. unfold full, cap. rewrite Hl, Hs. apply eqb_t. exact H. Qed.
Lemma full_f c v l : repr c v l -> len l < Z.of_nat c -> full v = false.
Proof. intros (rest & Hb & Hs & Hl) H. unfold full, cap. rewrite Hl, Hs. apply eqb_f. lia. Qed.

Lemma insert_rv_ok c v l pos x : cap_ok c -> repr c v l -> 0 <= pos <= len l -> len l < Z.of_nat c ->
  okr c (insert_rv v pos x) (ins l pos [x]).
Proof.
  intros Hc Hr Hp Hlt. pose proof Hr as (rest & Hb & Hs & Hl).
  unfold insert_rv. rewrite (full_f c v l) by auto. rewrite pos_ok_t by lia. cbn [negb].
  rewrite move_insert_eq. apply insert_range_ok; auto. unfold len in *. cbn [length]. lia.
Qed.

Lemma insert_rv_contract c v l pos x : repr c v l ->
  pos < 0 \/ len l < pos \/ len l = Z.of_nat c -> insert_rv v pos x = Contract.
Proof.
  intros Hr Hbad. pose proof Hr as (rest & Hb & Hs & Hl). pose proof (repr_len _ _ _ Hr) as Hle.
  unfold insert_rv. destruct (Z.eq_dec (len l) (Z.of_nat c)) as [E|E].
  - rewrite (full_t c v l) by auto. reflexivity.
  - rewrite (full_f c v l) by (auto; lia). rewrite pos_ok_f by lia. reflexivity.
Qed.

Lemma emplace_at_eq v pos x : emplace_at v pos x = insert_rv v pos x.
Proof. reflexivity. Qed.

Lemma insert_cr_ok c v l pos x : cap_ok c -> repr c v l -> 0 <= pos <= len l -> len l < Z.of_nat c ->
  okr c (insert_cr v pos x) (ins l pos [x]).
Proof.
  intros Hc Hr Hp Hlt. pose proof Hr as (rest & Hb & Hs & Hl).
  unfold insert_cr. rewrite (full_f c v l) by auto. rewrite pos_ok_t by lia. cbn [negb].
  change [x] with (repeat x (Z.to_nat 1)). apply insert_n_ok; auto; try lia.
  rewrite wrapu64_small by (rewrite pow64; lia). lia.
Qed.

Lemma insert_cr_contract c v l pos x : repr c v l ->
  pos < 0 \/ len l < pos \/ len l = Z.of_nat c -> insert_cr v pos x = Contract.
Proof.
  intros Hr Hbad. pose proof Hr as (rest & Hb & Hs & Hl). pose proof (repr_len _ _ _ Hr) as Hle.
  unfold insert_cr. destruct (Z.eq_dec (len l) (Z.of_nat c)) as [E|E].
  - rewrite (full_t c v l) by auto. reflexivity.
  - rewrite (full_f c v l) by (auto; lia). rewrite pos_ok_f by lia. reflexivity.
Qed.

Lemma insert_rv_safe c v pos x : cap_ok c -> inv c v -> safe c (insert_rv v pos x).
Proof.
  intros Hc Hi. apply inv_repr in Hi. set (l := elems v) in *. pose proof (repr_len _ _ _ Hi).
  assert (D : (0 <= pos <= len l /\ len l < Z.of_nat c)
              \/ (pos < 0 \/ len l < pos \/ len l = Z.of_nat c)) by lia.
  destruct D as [(H1 & H2)|D].
  - eapply okr_safe, insert_rv_ok; eauto.
  - rewrite (insert_rv_contract c v l); auto. exact I.
Qed.

Lemma insert_cr_safe c v pos x : cap_ok c -> inv c v -> safe c (insert_cr v pos x).
Proof.
  intros Hc Hi. apply inv_repr in Hi. set (l := elems v) in *. pose proof (repr_len _ _ _ Hi).
  assert (D : (0 <= pos <= len l /\ len l < Z.of_nat c)
              \/ (pos < 0 \/ len l < pos \/ len l = Z.of_nat c)) by lia.
  destruct D as [(H1 & H2)|D].
  - eapply okr_safe, insert_cr_ok; eauto.
  - rewrite (insert_cr_contract c v l); auto. exact I.
Qed.

(** * the insert(pos, n, x) capacity guard is exact: for every size_t value n it passes exactly when
    size() + n <= capacity(), so the push_back loop behind it never runs into its own precondition
    (a failing call is stopped before the vector is modified) *)
Lemma insert_n_guard_exact c v n : cap_ok c -> inv c v -> 0 <= n < 2 ^ 64 ->
  (wrapu 64 n <=? wrapu 64 (cap v - sz v)) = (sz v + n <=? Z.of_nat c).
Proof.
  intros Hc (Hl & Hs) Hn. assert (H64 := cap_ok_64 c Hc). unfold cap. rewrite Hl.
  rewrite !wrapu64_small by lia.
  destruct (Z.leb_spec n (Z.of_nat c - sz v)); destruct (Z.leb_spec (sz v + n) (Z.of_nat c)); auto; lia.
Qed.
