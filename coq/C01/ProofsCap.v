(* C01 proofs, part 7: the capacity (the length of the inline storage) is never changed by any
   operation — unconditionally: no invariant, no argument restriction; every store goes through the
   checked accessors, which preserve the length, and so do rotate / move / remove_if. *)
From Tetl Require Import Lib.Base Lib.Arr C06a.Model C01.Model.
From Coq Require Import Arith Lia.
Ltac Zify.zify_post_hook ::= Z.to_euclidean_division_equations.
Local Open Scope Z_scope.

Lemma bind_ok {A B} (r : res A) (f : A -> res B) b : rbind r f = Ok b -> exists a, r = Ok a /\ f a = Ok b.
Proof. destruct r; cbn [rbind]; intros H; try discriminate. eauto. Qed.

(* split a hypothesis  "<code> = Ok _"  along its ifs and binds *)
Ltac brk H :=
  repeat match type of H with
  | (if ?b then _ else _) = Ok _ => destruct b eqn:?; try discriminate H
  | rbind ?r _ = Ok _ =>
      let a := fresh "a" in let Ha := fresh "Ha" in apply bind_ok in H as (a & Ha & H)
  | Contract = Ok _ => discriminate H
  | UB _ = Ok _ => discriminate H
  | OutOfFuel = Ok _ => discriminate H
  end.

(** * the C06a building blocks preserve the length of the array *)
Section Algo.
Context {A : Type}.
Implicit Types l : list A.

Lemma oset_len l i v l' : oset l i v = Ok l' -> length l' = length l.
Proof.
  unfold oset. destruct (set l i v) eqn:E; intros H; [|discriminate]. injection H as <-.
  eapply set_length; eauto.
Qed.

Lemma oswap_len l i j l' : oswap l i j = Ok l' -> length l' = length l.
Proof.
  unfold oswap. destruct (swap l i j) eqn:E; intros H; [|discriminate]. injection H as <-.
  eapply swap_length; eauto.
Qed.

Lemma rotate_loop_len : forall fuel l w r nr last l' w' nr',
  rotate_loop fuel l w r nr last = Ok (l', w', nr') -> length l' = length l.
Proof.
  induction fuel as [|k IH]; intros l w r nr last l' w' nr' H; cbn [rotate_loop] in H; [discriminate|].
  destruct (r =? last)%nat.
  { injection H as <- _ _. reflexivity. }
  apply bind_ok in H as (l1 & H1 & H). apply IH in H. apply oswap_len in H1. congruence.
Qed.

Lemma rotate_m_len : forall fuel l f nf last l' r,
  rotate_m fuel l f nf last = Ok (l', r) -> length l' = length l.
Proof.
  induction fuel as [|k IH]; intros l f nf last l' r H; cbn [rotate_m] in H; [discriminate|].
  destruct (f =? nf)%nat. { injection H as <- _. reflexivity. }
  destruct (nf =? last)%nat. { injection H as <- _. reflexivity. }
  apply bind_ok in H as ([[l1 w1] nr1] & H1 & H). apply rotate_loop_len in H1.
  apply bind_ok in H as ([l2 r2] & H2 & H). apply IH in H2. cbn [fst] in H.
  injection H as <- _. congruence.
Qed.

Lemma rotate_len l f nf last l' r : rotate l f nf last = Ok (l', r) -> length l' = length l.
Proof. apply rotate_m_len. Qed.

Lemma move_fwd_len : forall fuel l f last d l' r,
  move_fwd fuel l f last d = Ok (l', r) -> length l' = length l.
Proof.
  induction fuel as [|k IH]; intros l f last d l' r H; cbn [move_fwd] in H; [discriminate|].
  destruct (f =? last)%nat. { injection H as <- _. reflexivity. }
  apply bind_ok in H as (x & _ & H). apply bind_ok in H as (l1 & H1 & H).
  apply IH in H. apply oset_len in H1. congruence.
Qed.

Lemma remove_if_loop_len (p : A -> bool) : forall fuel l w i last l' r,
  remove_if_loop fuel p l w i last = Ok (l', r) -> length l' = length l.
Proof.
  induction fuel as [|k IH]; intros l w i last l' r H; cbn [remove_if_loop] in H; [discriminate|].
  destruct (S i =? last)%nat. { injection H as <- _. reflexivity. }
  apply bind_ok in H as (x & _ & H). destruct (p x).
  - eapply IH; eauto.
  - apply bind_ok in H as (l1 & H1 & H). apply IH in H. apply oset_len in H1. congruence.
Qed.

Lemma remove_if_len (p : A -> bool) l l' r : remove_if p l = Ok (l', r) -> length l' = length l.
Proof.
  unfold remove_if. destruct (_ =? _)%nat.
  - intros H. injection H as <- _. reflexivity.
  - apply remove_if_loop_len.
Qed.
End Algo.

(** * every vector operation preserves the length of the storage *)
Notation L v := (length (buf v)).

Lemma set_size_len v n v' : set_size v n = Ok v' -> L v' = L v.
Proof. unfold set_size. intros H. brk H. injection H as <-. reflexivity. Qed.

Lemma emplace_back_len v x v' : emplace_back v x = Ok v' -> L v' = L v.
Proof.
  unfold emplace_back. intros H. brk H. apply set_size_len in H. cbn [buf] in H.
  apply oset_len in Ha. congruence.
Qed.

Lemma push_back_len v x v' : push_back v x = Ok v' -> L v' = L v.
Proof. unfold push_back. intros H. brk H. eapply emplace_back_len; eauto. Qed.

Lemma emplace_all_len : forall xs v v', emplace_all v xs = Ok v' -> L v' = L v.
Proof.
  induction xs as [|x t IH]; intros v v' H; cbn [emplace_all] in H.
  - injection H as <-. reflexivity.
  - brk H. apply IH in H. apply emplace_back_len in Ha. congruence.
Qed.

Lemma push_n_len : forall k v x v', push_n k v x = Ok v' -> L v' = L v.
Proof.
  induction k as [|k IH]; intros v x v' H; cbn [push_n] in H.
  - injection H as <-. reflexivity.
  - brk H. apply IH in H. apply push_back_len in Ha. congruence.
Qed.

Lemma rotate_buf_len v pos b v' : rotate_buf v pos b = Ok v' -> L v' = L v.
Proof.
  unfold rotate_buf. intros H. brk H. injection H as <-. cbn [buf]. destruct a as [l r].
  eapply rotate_len; eauto.
Qed.

Lemma insert_range_len v pos xs v' : insert_range v pos xs = Ok v' -> L v' = L v.
Proof.
  unfold insert_range. intros H. brk H. apply rotate_buf_len in H. apply emplace_all_len in Ha.
  congruence.
Qed.

Lemma move_insert_len v pos xs v' : move_insert v pos xs = Ok v' -> L v' = L v.
Proof. apply insert_range_len. Qed.

Lemma insert_n_len v pos n x v' : insert_n v pos n x = Ok v' -> L v' = L v.
Proof.
  unfold insert_n. intros H. brk H. apply rotate_buf_len in H. apply push_n_len in Ha. congruence.
Qed.

Lemma insert_rv_len v pos x v' : insert_rv v pos x = Ok v' -> L v' = L v.
Proof. unfold insert_rv. intros H. brk H. eapply move_insert_len; eauto. Qed.

Lemma insert_cr_len v pos x v' : insert_cr v pos x = Ok v' -> L v' = L v.
Proof. unfold insert_cr. intros H. brk H. eapply insert_n_len; eauto. Qed.

Lemma clear_len v v' : clear v = Ok v' -> L v' = L v.
Proof. apply set_size_len. Qed.

Lemma erase_range_len v f l v' : erase_range v f l = Ok v' -> L v' = L v.
Proof.
  unfold erase_range. intros H. brk H.
  - injection H as <-. reflexivity.
  - apply set_size_len in H. cbn [buf] in H. destruct a as [b r]. apply move_fwd_len in Ha.
    cbn [fst] in H. congruence.
Qed.

Lemma erase_at_len v pos v' : erase_at v pos = Ok v' -> L v' = L v.
Proof. unfold erase_at. intros H. brk H. eapply erase_range_len; eauto. Qed.

Lemma resize_len v n v' : resize v n = Ok v' -> L v' = L v.
Proof.
  unfold resize, emplace_n. intros H. brk H.
  - injection H as <-. reflexivity.
  - eapply emplace_all_len; eauto.
  - eapply erase_range_len; eauto.
Qed.

Lemma resize_val_len v n x v' : resize_val v n x = Ok v' -> L v' = L v.
Proof.
  unfold resize_val. intros H. brk H.
  - injection H as <-. reflexivity.
  - eapply insert_n_len; eauto.
  - eapply erase_range_len; eauto.
Qed.

Lemma assign_n_len v n x v' : assign_n v n x = Ok v' -> L v' = L v.
Proof.
  unfold assign_n. intros H. brk H. apply insert_n_len in H. apply clear_len in Ha. congruence.
Qed.

Lemma assign_range_len v xs v' : assign_range v xs = Ok v' -> L v' = L v.
Proof.
  unfold assign_range. intros H. brk H. apply insert_range_len in H. apply clear_len in Ha. congruence.
Qed.

Lemma copy_construct_len o v' : copy_construct o = Ok v' -> L v' = L o.
Proof.
  unfold copy_construct. intros H. apply insert_range_len in H. rewrite H.
  cbn [empty_vec buf]. apply repeat_length.
Qed.

Lemma move_construct_len o v' : move_construct o = Ok v' -> L v' = L o.
Proof. apply copy_construct_len. Qed.

Lemma copy_assign_len v o v' : copy_assign v o = Ok v' -> L v' = L v.
Proof.
  unfold copy_assign. intros H. brk H. apply insert_range_len in H. apply clear_len in Ha. congruence.
Qed.

Lemma move_assign_len v o v' : move_assign v o = Ok v' -> L v' = L v.
Proof. apply copy_assign_len. Qed.

Lemma swap_vec_len a b a' b' : swap_vec a b = Ok (a', b') -> L a' = L a /\ L b' = L b.
Proof.
  unfold swap_vec. intros H. brk H. injection H as <- <-.
  split; eapply move_assign_len; eauto.
Qed.

Lemma erase_if_len p v v' k : erase_if p v = Ok (v', k) -> L v' = L v.
Proof.
  unfold erase_if. intros H. brk H. injection H as <- _. apply erase_range_len in Ha0.
  cbn [buf] in Ha0. rewrite Ha0. destruct a as [l r]. apply remove_if_len in Ha. cbn [fst].
  rewrite app_length, Ha. unfold elems. rewrite <- app_length, firstn_skipn. reflexivity.
Qed.

(** * the step *)
Lemma upd_len t s v : L v = L (sel t s) ->
  L (fst (upd t s v)) = L (fst s) /\ L (snd (upd t s v)) = L (snd s).
Proof. destruct t; cbn [upd sel fst snd]; auto. Qed.

Theorem step_capacity : forall pred s o s' out, step pred s o = Ok (s', out) ->
  length (buf (fst s')) = length (buf (fst s)) /\ length (buf (snd s')) = length (buf (snd s)).
Proof.
  intros pred s o s' out H.
  destruct o; cbn [step] in H; brk H; injection H as <- _; auto; try apply upd_len.
  - eapply push_back_len; eauto.
  - eapply emplace_back_len; eauto.
  - unfold pop_back in Ha. brk Ha. eapply set_size_len; eauto.
  - eapply insert_cr_len; eauto.
  - eapply insert_rv_len; eauto.
  - eapply insert_n_len; eauto.
  - eapply insert_range_len; eauto.
  - eapply insert_rv_len; eauto.
  - eapply erase_at_len; eauto.
  - eapply erase_range_len; eauto.
  - eapply clear_len; eauto.
  - eapply resize_len; eauto.
  - eapply resize_val_len; eauto.
  - eapply assign_n_len; eauto.
  - eapply assign_range_len; eauto.
  - destruct a as [a' b']. apply swap_vec_len in Ha. exact Ha.
  - eapply copy_assign_len; eauto.
  - apply move_assign_len in Ha. apply clear_len in Ha0.
    destruct t, s as [x y]; cbn [upd sel negb fst snd] in *; auto.
  - eapply move_assign_len; eauto.
  - destruct a as [v k]. eapply erase_if_len; eauto.
  - destruct a as [v k]. eapply erase_if_len; eauto.
  - destruct a as [a' b']. apply swap_vec_len in Ha. apply Ha.
Qed.

Theorem iv_step_capacity : forall s o s' out, iv_step s o = Ok (s', out) ->
  length (buf (fst s')) = length (buf (fst s)) /\ length (buf (snd s')) = length (buf (snd s)).
Proof.
  intros s o s' out H.
  destruct o; cbn [iv_step] in H; brk H; injection H as <- _; auto; try apply upd_len.
  - unfold iv_try_push_back in Ha. brk Ha.
    + injection Ha as <-. reflexivity.
    + injection Ha as <-. cbn [fst]. apply set_size_len in Ha1. apply oset_len in Ha0.
      cbn [buf] in Ha1. congruence.
  - unfold iv_unchecked_push_back in Ha. brk Ha. apply set_size_len in Ha. apply oset_len in Ha0.
    cbn [buf] in Ha. congruence.
  - unfold iv_pop_back in Ha. brk Ha. eapply set_size_len; eauto.
  - eapply clear_len; eauto.
  - reflexivity.
Qed.
