(* C01 proofs for ModelExt.v, part 4: the inplace_vector operations added there — copy/move assignment (library fix
   87cca43), the try_/unchecked_ members as operations of their own, a run of try_push_back calls, writes through
   operator[] / front() / back(), data(), max_size(), independence of a copy. *)
From Tetl Require Import Lib.Base Lib.Arr C06a.Model C06a.P1_Common C01.Model C01.Spec C01.ModelExt C01.SpecExt.
From Tetl Require Import C01.ProofsBase C01.ProofsStep C01.ProofsIv C01.ProofsExt.
From Coq Require Import Arith Lia.
Ltac Zify.zify_post_hook ::= Z.to_euclidean_division_equations.
Local Open Scope Z_scope.

Definition iv_xat_arg_ok (o : iv_xop) : Prop :=
  match o with IvBase o => iv_at_arg_ok o | _ => True end.
Definition iv_xsize_args_ok (o : iv_xop) : Prop :=
  match o with
  | IvBase o => iv_size_args_ok o
  | IvSetAt _ i _ => - 2 ^ 63 <= i < 2 ^ 64
  | _ => True
  end.

Section IvX.
Variable c : nat.
Hypothesis Hc : cap_ok c.

(** * a run of try_push_back calls *)
Lemma iv_fill_ok : forall k v l x cnt, repr c v l ->
  let m := Z.min (Z.of_nat k) (Z.of_nat c - len l) in
  exists v', iv_fill k v x cnt = Ok (v', cnt + m) /\ repr c v' (l ++ repeat x (Z.to_nat m)).
Proof.
  induction k as [|k IH]; intros v l x cnt Hr; cbn zeta; pose proof (repr_len _ _ _ Hr) as Hle.
  - cbn [iv_fill]. replace (Z.min (Z.of_nat 0) (Z.of_nat c - len l)) with 0 by lia.
    cbn [Z.to_nat repeat]. rewrite app_nil_r, Z.add_0_r. exists v. auto.
  - cbn [iv_fill]. destruct (Z.eq_dec (len l) (Z.of_nat c)) as [E|E].
    + rewrite (iv_try_push_full c v l x Hr E). cbn [rbind fst snd].
      destruct (IH v l x cnt Hr) as (v' & Hv & Hr'). cbn zeta in Hv, Hr'.
      replace (Z.min (Z.of_nat (S k)) (Z.of_nat c - len l)) with (Z.min (Z.of_nat k) (Z.of_nat c - len l)) by lia.
      exists v'. auto.
    + destruct (iv_try_push_ok c Hc v l x Hr) as (v1 & -> & Hr1); [lia|]. cbn [rbind fst snd].
      destruct (IH v1 (l ++ [x]) x (cnt + 1) Hr1) as (v' & Hv & Hr'). cbn zeta in Hv, Hr'.
      rewrite len_app in Hv, Hr'. change (len [x]) with 1 in Hv, Hr'.
      set (m' := Z.min (Z.of_nat k) (Z.of_nat c - (len l + 1))) in *.
      replace (Z.min (Z.of_nat (S k)) (Z.of_nat c - len l)) with (m' + 1) by lia.
      exists v'. split; [rewrite Hv; f_equal; f_equal; lia|].
      replace (Z.to_nat (m' + 1)) with (S (Z.to_nat m')) by lia. cbn [repeat].
      rewrite <- app_assoc in Hr'. exact Hr'.
Qed.

(** * assignment *)
Lemma iv_assign_from_ok v L o Lo : repr c v L -> repr c o Lo -> okr c (iv_assign_from v o) Lo.
Proof.
  intros Hr Ho. pose proof (repr_len _ _ _ Ho) as Hle. unfold iv_assign_from.
  destruct (clear_ok c v L Hc Hr) as (v0 & -> & Hr0). cbn [rbind].
  pose proof Hr0 as (rest0 & Hb0 & Hs0 & Hl0). pose proof Ho as (resto & Hbo & Hso & Hlo).
  replace (elems o) with Lo by (symmetry; apply (repr_inv c), Ho).
  rewrite (szn_repr c o Lo Ho), Hso.
  apply (set_size_repr c _ _ Lo (skipn (length Lo) (buf v0))); auto.
  rewrite app_length, skipn_length, Hl0. unfold len in Hle. lia.
Qed.

(** * writes through references *)
Lemma iv_set_at_ok v l i x : repr c v l -> 0 <= i < len l -> okr c (iv_set_at v i x) (lset l (Z.to_nat i) x).
Proof.
  intros Hr Hi. pose proof (repr_len _ _ _ Hr) as Hle. assert (H64 := cap_ok_64 c Hc).
  unfold iv_set_at. rewrite (repr_cap _ _ _ Hr), eqb_f by lia. rewrite wrapu64_small by lia.
  pose proof Hr as (rest & Hb & Hs & Hl).
  replace (i <? sz v) with true by (symmetry; apply ltb_t; lia). cbn [negb].
  destruct (write_repr c v l (Z.to_nat i) x Hr) as (b & -> & Hr'); [unfold len in Hi; lia|].
  cbn [rbind]. eexists. split; [reflexivity|exact Hr'].
Qed.

Lemma iv_set_at_contract v l i x : repr c v l -> len l <= wrapu 64 i -> iv_set_at v i x = Contract.
Proof.
  intros (rest & Hb & Hs & Hl) Hw. unfold iv_set_at. destruct (cap v =? 0); [reflexivity|].
  rewrite Hs, ltb_f by lia. reflexivity.
Qed.

Lemma iv_set_front_ok v l x : repr c v l -> 0 < len l -> okr c (iv_set_front v x) (lset l 0 x).
Proof.
  intros Hr Hpos. pose proof (repr_len _ _ _ Hr) as Hle.
  unfold iv_set_front, is_empty. rewrite (repr_cap _ _ _ Hr), eqb_f by lia.
  pose proof Hr as (rest & Hb & Hs & Hl). replace (sz v =? 0) with false by (symmetry; apply eqb_f; lia).
  destruct (write_repr c v l 0%nat x Hr) as (b & -> & Hr'); [unfold len in Hpos; lia|].
  cbn [rbind]. eexists. split; [reflexivity|exact Hr'].
Qed.

Lemma iv_set_front_contract v l x : repr c v l -> len l = 0 -> iv_set_front v x = Contract.
Proof.
  intros (rest & Hb & Hs & Hl) He. unfold iv_set_front, is_empty. destruct (cap v =? 0); [reflexivity|].
  rewrite Hs, eqb_t by lia. reflexivity.
Qed.

Lemma iv_set_back_ok v l x : repr c v l -> 0 < len l -> okr c (iv_set_back v x) (lset l (Z.to_nat (len l - 1)) x).
Proof.
  intros Hr Hpos. pose proof (repr_len _ _ _ Hr) as Hle.
  unfold iv_set_back, is_empty. rewrite (repr_cap _ _ _ Hr), eqb_f by lia.
  pose proof Hr as (rest & Hb & Hs & Hl). replace (sz v =? 0) with false by (symmetry; apply eqb_f; lia).
  replace (Z.to_nat (sz v - 1)) with (Z.to_nat (len l - 1)) by (rewrite Hs; reflexivity).
  destruct (write_repr c v l (Z.to_nat (len l - 1)) x Hr) as (b & -> & Hr'); [unfold len in *; lia|].
  cbn [rbind]. eexists. split; [reflexivity|exact Hr'].
Qed.

Lemma iv_set_back_contract v l x : repr c v l -> len l = 0 -> iv_set_back v x = Contract.
Proof.
  intros (rest & Hb & Hs & Hl) He. unfold iv_set_back, is_empty. destruct (cap v =? 0); [reflexivity|].
  rewrite Hs, eqb_t by lia. reflexivity.
Qed.

Lemma iv_mutate_ok v l x : repr c v l -> okr c (iv_mutate v x) (lmutate (Z.of_nat c) l x).
Proof.
  intros Hr. pose proof Hr as (rest & Hb & Hs & Hl). pose proof (repr_len _ _ _ Hr) as Hle.
  unfold iv_mutate, is_empty. rewrite Hs.
  destruct l as [|y t].
  - change (len []) with 0. rewrite Z.eqb_refl. cbn [negb lmutate].
    destruct (Z.ltb_spec 0 (Z.of_nat c)) as [Hpos|Hz].
    + destruct (iv_try_push_ok c Hc v [] x Hr) as (v' & -> & Hv'); [unfold len; cbn [length]; lia|].
      cbn [rbind fst]. exists v'. auto.
    + rewrite (iv_try_push_full c v [] x Hr) by (unfold len; cbn [length]; lia). cbn [rbind fst]. exists v. auto.
  - assert (Hpos : 0 < len (y :: t)) by (unfold len; cbn [length]; lia).
    rewrite eqb_f by lia. cbn [negb lmutate].
    destruct (iv_set_at_ok v (y :: t) 0 x Hr) as (w & -> & Hw); [lia|]. cbn [rbind].
    change (Z.to_nat 0) with 0%nat in Hw. rewrite <- (removelast_lset0 y t x).
    apply (iv_pop_ok c Hc w _ Hw). rewrite len_lset by (cbn [length]; lia). exact Hpos.
Qed.

(** * one-step refinement *)
Definition iv_xrefines_at (s : vec * vec) (o : iv_xop) : Prop :=
  inv c (fst s) -> inv c (snd s) -> forall s1 out,
  iv_xspec_step (Z.of_nat c) (abs s) o = Some (s1, out) ->
  exists s', iv_xstep s o = Ok (s', out) /\ abs s' = s1 /\ inv c (fst s') /\ inv c (snd s')
             /\ observe s' = spec_observe (Z.of_nat c) s1.

Ltac facts t s Ha Hb :=
  pose proof (sel_repr c t s Ha Hb) as Hr; pose proof (repr_len _ _ _ Hr) as Hle;
  pose proof (len_nonneg (ssel t (abs s))) as Hnn.

Lemma try_like s t x : inv c (fst s) -> inv c (snd s) -> forall s1 out,
  (let l := ssel t (abs s) in
   if len l <? Z.of_nat c then Some (supd t (abs s) (l ++ [x]), [1]) else Some (abs s, [0])) = Some (s1, out) ->
  exists s', (do r <- iv_try_push_back (sel t s) x; Ok (upd t s (fst r), [b2z (snd r)])) = Ok (s', out)
             /\ abs s' = s1 /\ inv c (fst s') /\ inv c (snd s') /\ observe s' = spec_observe (Z.of_nat c) s1.
Proof.
  intros Ha Hb s1 out H. cbn zeta in H. facts t s Ha Hb.
  destruct (Z.ltb_spec (len (ssel t (abs s))) (Z.of_nat c)) as [Hlt|Hge]; injection H as <- <-.
  - destruct (iv_try_push_ok c Hc _ _ x Hr Hlt) as (v' & -> & Hv'). cbn [rbind fst snd b2z].
    eexists. split; [reflexivity|]. apply upd_step; auto.
  - rewrite (iv_try_push_full c _ _ x Hr) by lia. cbn [rbind fst snd b2z]. rewrite upd_sel.
    exists s. split; [reflexivity|]. apply (fin c); auto.
Qed.

Lemma unchecked_like s t x : inv c (fst s) -> inv c (snd s) -> forall s1 out,
  guard (len (ssel t (abs s)) <? Z.of_nat c) (supd t (abs s) (ssel t (abs s) ++ [x]), @nil Z) = Some (s1, out) ->
  exists s', (do v <- iv_unchecked_push_back (sel t s) x; Ok (upd t s v, [])) = Ok (s', out)
             /\ abs s' = s1 /\ inv c (fst s') /\ inv c (snd s') /\ observe s' = spec_observe (Z.of_nat c) s1.
Proof.
  intros Ha Hb s1 out H. apply guard_some in H as (Hpre & E). injection E as <- <-. b2p Hpre.
  apply (mut_step c); auto. apply (iv_unchecked_push_ok c Hc); auto using sel_repr.
Qed.

Theorem iv_xstep_refines : forall s o, iv_xrefines_at s o.
Proof.
  intros s o Ha Hb s1 out H.
  destruct o as [o|t n x|t x|t x|t x|t x|t|t|t|t|t i x|t x|t x|t|t|t d x]; cbn [iv_xspec_step] in H; cbn [iv_xstep].
  - exact (iv_step_refines c Hc s o Ha Hb s1 out H).
  - (* fill *)
    injection H as <- <-. facts t s Ha Hb.
    destruct (iv_fill_ok (Z.to_nat n) (sel t s) _ x 0 Hr) as (v' & Hv & Hr'). cbn zeta in Hv, Hr'.
    replace (Z.of_nat (Z.to_nat n)) with (Z.max n 0) in * by lia.
    rewrite Hv. cbn [rbind fst snd]. rewrite Z.add_0_l.
    eexists. split; [reflexivity|]. apply upd_step; auto.
  - apply try_like; auto.
  - apply try_like; auto.
  - apply unchecked_like; auto.
  - apply unchecked_like; auto.
  - (* copy assignment *)
    injection H as <- <-. apply (mut_step c); auto.
    apply (iv_assign_from_ok _ _ _ _ (sel_repr c t s Ha Hb) (sel_repr c (negb t) s Ha Hb)).
  - (* move assignment *)
    injection H as <- <-.
    destruct (iv_assign_from_ok _ _ _ _ (sel_repr c t s Ha Hb) (sel_repr c (negb t) s Ha Hb)) as (v & -> & Hv).
    cbn [rbind].
    destruct (clear_ok c (sel (negb t) s) _ Hc (sel_repr c (negb t) s Ha Hb)) as (src & -> & Hsrc). cbn [rbind].
    apply repr_inv in Hv as (Hiv & Hev). apply repr_inv in Hsrc as (Hisrc & Hesrc).
    eexists. split; [reflexivity|].
    destruct (upd_inv c t s v Ha Hb Hiv) as (H1 & H2).
    destruct (upd_inv c (negb t) _ src H1 H2 Hisrc) as (H3 & H4).
    apply (fin c); auto. rewrite !upd_abs, Hev, Hesrc. reflexivity.
  - injection H as <- <-. exists s. split; [reflexivity|]. apply (fin c); auto.
  - injection H as <- <-. exists s. split; [reflexivity|]. apply (fin c); auto.
  - (* v[i] = x *)
    apply guard_some in H as (Hpre & E). injection E as <- <-. b2p Hpre. facts t s Ha Hb.
    assert (H64 := cap_ok_64 c Hc). rewrite (wrapu64_small i) by lia.
    apply (mut_step c); auto. apply iv_set_at_ok; auto; lia.
  - apply guard_some in H as (Hpre & E). injection E as <- <-. b2p Hpre.
    apply (mut_step c); auto. apply iv_set_front_ok; auto using sel_repr.
  - apply guard_some in H as (Hpre & E). injection E as <- <-. b2p Hpre.
    rewrite (sel_sz c t s Ha Hb). apply (mut_step c); auto. apply iv_set_back_ok; auto using sel_repr.
  - injection H as <- <-. apply (obs_step c); auto. apply (data_read_ok c), sel_repr; auto.
  - injection H as <- <-. unfold cap. rewrite (sel_len c t s Ha Hb).
    exists s. split; [reflexivity|]. apply (fin c); auto.
  - (* independence *)
    facts t s Ha Hb. pose proof (iv_copy_construct_repr c _ _ Hr) as Hc0.
    destruct d; injection H as <- <-.
    + destruct (iv_mutate_ok _ _ x Hc0) as (c1 & -> & Hc1). cbn [rbind].
      pose proof (repr_inv _ _ _ Hc1) as (Hi1 & He1). rewrite He1, <- (elems_len c c1 Hi1), He1.
      exists s. split; [reflexivity|]. apply (fin c); auto.
    + destruct (iv_mutate_ok _ _ x Hr) as (v1 & -> & Hv1). cbn [rbind].
      pose proof (repr_inv _ _ _ Hc0) as (Hi0 & He0).
      rewrite He0, <- (elems_len c _ Hi0), He0.
      eexists. split; [reflexivity|]. apply upd_step; auto.
Qed.

Theorem iv_xrun_refines : forall ops s outs, inv c (fst s) -> inv c (snd s) ->
  iv_xspec_run (Z.of_nat c) (abs s) ops = Some outs ->
  iv_xrun s ops = map Ok outs.
Proof.
  induction ops as [|o rest IH]; intros s outs Ha Hb H; cbn [iv_xspec_run iv_xrun] in *.
  - injection H as <-. reflexivity.
  - destruct (iv_xspec_step (Z.of_nat c) (abs s) o) as [[s1 out]|] eqn:E; [|discriminate].
    destruct (iv_xspec_run (Z.of_nat c) s1 rest) as [r|] eqn:Er; [|discriminate].
    injection H as <-.
    destruct (iv_xstep_refines s o Ha Hb s1 out E) as (s' & -> & Habs & Ha' & Hb' & Hobs).
    cbn [map]. rewrite Hobs. f_equal. apply IH; auto. rewrite Habs. exact Er.
Qed.

(* a full inplace_vector: every try_ member answers null and nothing changes; a run of them answers 0 *)
Theorem iv_try_full_all : forall s t x n, inv c (fst s) -> inv c (snd s) -> sz (sel t s) = Z.of_nat c ->
  iv_xstep s (IvTryEmplace t x) = Ok (s, [0]) /\ iv_xstep s (IvTryPushRv t x) = Ok (s, [0]) /\
  iv_xstep s (IvFill t n x) = Ok (s, [0]).
Proof.
  intros s t x n Ha Hb Hfull. pose proof (sel_repr c t s Ha Hb) as Hr.
  assert (E : len (ssel t (abs s)) = Z.of_nat c) by (rewrite <- Hfull; symmetry; apply (sel_sz c t s Ha Hb)).
  cbn [iv_xstep]. rewrite (iv_try_push_full c _ _ x Hr E). cbn [rbind fst snd b2z]. rewrite upd_sel.
  split; [reflexivity|]. split; [reflexivity|].
  assert (K : forall k cnt, iv_fill k (sel t s) x cnt = Ok (sel t s, cnt)).
  { induction k as [|k IH]; intros cnt; cbn [iv_fill]; [reflexivity|].
    rewrite (iv_try_push_full c _ _ x Hr E). cbn [rbind fst snd]. apply IH. }
  rewrite K. cbn [rbind fst snd]. rewrite upd_sel. reflexivity.
Qed.

(** * safety and contract exactness *)
Lemma iv_set_at_safe v i x : inv c v -> safe c (iv_set_at v i x).
Proof.
  intros Hi. apply inv_repr in Hi. pose proof (wrapu64_range i) as Hw.
  destruct (Z_lt_le_dec (wrapu 64 i) (len (elems v))) as [E|E].
  - pose proof (repr_len _ _ _ Hi) as Hle. unfold iv_set_at. rewrite (repr_cap _ _ _ Hi), eqb_f by lia.
    pose proof Hi as (rest & Hb & Hs & Hl).
    replace (wrapu 64 i <? sz v) with true by (symmetry; apply ltb_t; lia). cbn [negb].
    destruct (write_repr c v _ (Z.to_nat (wrapu 64 i)) x Hi) as (b & -> & Hr'); [unfold len in E; lia|].
    cbn [rbind safe]. apply repr_inv in Hr'. apply Hr'.
  - rewrite (iv_set_at_contract v _ i x Hi E). exact I.
Qed.

Theorem iv_xstep_safe : forall s o, inv c (fst s) -> inv c (snd s) -> iv_xat_arg_ok o ->
  safe_step c (iv_xstep s o).
Proof.
  intros s o Ha Hb Harg.
  assert (Hs : forall t, inv c (sel t s)) by (intros t; apply sel_inv; auto).
  destruct o as [o|t n x|t x|t x|t x|t x|t|t|t|t|t i x|t x|t x|t|t|t d x]; cbn [iv_xstep].
  - apply iv_step_safe; auto.
  - pose proof (sel_repr c t s Ha Hb) as Hr.
    destruct (iv_fill_ok (Z.to_nat n) (sel t s) _ x 0 Hr) as (v' & -> & Hr'). cbn [rbind fst snd safe_step].
    apply upd_inv; auto. apply repr_inv in Hr'. apply Hr'.
  - exact (iv_step_safe c Hc s (IvTryPush t x) Ha Hb I).
  - exact (iv_step_safe c Hc s (IvTryPush t x) Ha Hb I).
  - exact (iv_step_safe c Hc s (IvUncheckedPush t x) Ha Hb I).
  - exact (iv_step_safe c Hc s (IvUncheckedPush t x) Ha Hb I).
  - apply mut_safe; auto. eapply okr_safe, iv_assign_from_ok; apply inv_repr; auto.
  - destruct (iv_assign_from_ok _ _ _ _ (sel_repr c t s Ha Hb) (sel_repr c (negb t) s Ha Hb)) as (v & -> & Hv).
    cbn [rbind].
    destruct (clear_ok c (sel (negb t) s) _ Hc (sel_repr c (negb t) s Ha Hb)) as (src & -> & Hsrc).
    cbn [rbind safe_step]. apply repr_inv in Hv as (Hiv & _). apply repr_inv in Hsrc as (Hisrc & _).
    destruct (upd_inv c t s v Ha Hb Hiv) as (H1 & H2). apply upd_inv; auto.
  - cbn [safe_step]. auto.
  - cbn [safe_step]. auto.
  - apply mut_safe; auto. apply iv_set_at_safe; auto.
  - apply mut_safe; auto. pose proof (inv_repr c _ (Hs t)) as Hr. pose proof (len_nonneg (elems (sel t s))).
    destruct (Z.eq_dec (len (elems (sel t s))) 0) as [E|E].
    + rewrite (iv_set_front_contract _ _ x Hr E). exact I.
    + eapply okr_safe, iv_set_front_ok; eauto. lia.
  - apply mut_safe; auto. pose proof (inv_repr c _ (Hs t)) as Hr. pose proof (len_nonneg (elems (sel t s))).
    destruct (Z.eq_dec (len (elems (sel t s))) 0) as [E|E].
    + rewrite (iv_set_back_contract _ _ x Hr E). exact I.
    + eapply okr_safe, iv_set_back_ok; eauto. lia.
  - rewrite (data_read_ok c _ _ (sel_repr c t s Ha Hb)). cbn [rbind safe_step]. auto.
  - cbn [safe_step]. auto.
  - pose proof (sel_repr c t s Ha Hb) as Hr. pose proof (iv_copy_construct_repr c _ _ Hr) as Hc0.
    destruct d.
    + destruct (iv_mutate_ok _ _ x Hc0) as (c1 & -> & Hc1). cbn [rbind safe_step]. auto.
    + destruct (iv_mutate_ok _ _ x Hr) as (v1 & -> & Hv1). cbn [rbind safe_step].
      apply upd_inv; auto. apply repr_inv in Hv1. apply Hv1.
Qed.

Theorem iv_xstep_no_ub : forall s o, inv c (fst s) -> inv c (snd s) -> iv_xat_arg_ok o ->
  (forall k, iv_xstep s o <> UB k) /\ iv_xstep s o <> OutOfFuel.
Proof.
  intros s o Ha Hb Harg. pose proof (iv_xstep_safe s o Ha Hb Harg) as H.
  destruct (iv_xstep s o); cbn [safe_step] in H; try contradiction; split; intros; discriminate.
Qed.

Theorem iv_xstep_contract_fires : forall s o, inv c (fst s) -> inv c (snd s) -> iv_xsize_args_ok o ->
  iv_xspec_step (Z.of_nat c) (abs s) o = None -> iv_xstep s o = Contract.
Proof.
  intros s o Ha Hb Harg H.
  assert (H64 := cap_ok_64 c Hc). pose proof Hc as Hc63. unfold cap_ok in Hc63. rewrite pow63 in *. rewrite pow64 in *.
  destruct o as [o|t n x|t x|t x|t x|t x|t|t|t|t|t i x|t x|t x|t|t|t d x]; cbn [iv_xspec_step] in H; cbn [iv_xstep];
    try discriminate H.
  - apply (iv_step_contract_fires c Hc); auto.
  - destruct (len (ssel t (abs s)) <? Z.of_nat c); discriminate H.
  - destruct (len (ssel t (abs s)) <? Z.of_nat c); discriminate H.
  - apply guard_none in H. b2p H. facts t s Ha Hb.
    rewrite (iv_unchecked_push_contract c _ _ x Hr) by lia. reflexivity.
  - apply guard_none in H. b2p H. facts t s Ha Hb.
    rewrite (iv_unchecked_push_contract c _ _ x Hr) by lia. reflexivity.
  - apply guard_none in H. b2p H. facts t s Ha Hb. cbn [iv_xsize_args_ok] in Harg.
    rewrite (iv_set_at_contract _ _ i x Hr); [reflexivity|].
    destruct (Z_lt_le_dec i 0) as [Hn|Hn].
    + rewrite wrapu64_neg by (rewrite pow64; lia). rewrite pow64. lia.
    + rewrite wrapu64_small by (rewrite pow64; lia). lia.
  - apply guard_none in H. b2p H. facts t s Ha Hb.
    rewrite (iv_set_front_contract _ _ x Hr) by lia. reflexivity.
  - apply guard_none in H. b2p H. facts t s Ha Hb.
    rewrite (iv_set_back_contract _ _ x Hr) by lia. reflexivity.
  - destruct d; discriminate H.
Qed.

End IvX.
