(* C01 model, fourth part (Model.v, ModelExt.v and ModelIt.v stay as they are).
   Until here an element was an integer with the integer order: the six relations were modelled for the total order
   `<?` / `=?` only (where  a >= b  and  a > b or a == b  cannot be told apart), and nothing said what a range member
   does to the SOURCE range it reads.  Both depend on the element type, which enters here as a parameter:

     elt = { e_lt, e_eq : Z -> Z -> bool;  e_mv : Z -> Z }
       e_lt x y   the element type's  operator<   (NO assumption: not total, not even a strict weak order; the harness
                  instantiates records ordered by their key only, whose  ==  also looks at a tag, so that two elements
                  can be equivalent under < without being equal)
       e_eq x y   the element type's  operator==
       e_mv x     what is left in an object with value x after it was moved from (x itself for int and the other
                  trivially movable types, "" for a std::string, a marker for the instrumented types)

   Brought inside the model:
     static_vector   operator== != < <= > >=  exactly as the header derives each of them from etl::equal /
                     etl::lexicographical_compare with the element type's own == and <;
     stack           its six operators, each forwarding to the SAME operator of the container;
     static_vector   insert(pos, first, last), assign(first, last), static_vector(first, last): emplace_back( *first ), the
                     source element is copied and keeps its value; move_insert(pos, first, last) and
                     static_vector(c_array&&): emplace_back(etl::move( *first )), the source element is left moved-from.
                     These operations return, after their old results, the source range as it is after the call.
   Conventions as in Model.v / ModelExt.v / ModelIt.v. *)
From Tetl Require Import Lib.Base Lib.Arr C06a.Model C06a.Instances C01.Model C01.ModelExt C01.ModelIt.
From Coq Require Import Arith.
Local Open Scope Z_scope.

Record elt := { e_lt : Z -> Z -> bool; e_eq : Z -> Z -> bool; e_mv : Z -> Z }.

(* integers and everything else that is totally ordered by its value; mv = the moved-from value of the type *)
Definition elt_total (mv : Z -> Z) : elt := {| e_lt := Z.ltb; e_eq := Z.eqb; e_mv := mv |}.
(* a record (key, tag) stored as 16 * key + tag:  <  compares the keys only,  ==  compares key and tag *)
Definition elt_keytag : elt := {| e_lt := fun a b => key a <? key b; e_eq := Z.eqb; e_mv := fun x => x |}.
Definition mv_keep (x : Z) : Z := x.
Definition mv_const (m x : Z) : Z := m.

Section El.
Variable E : elt.

(** * the relations *)
(* etl::equal(first1, last1, first2, p):  for (; first1 != last1; ++first1, ++first2) if (not p( *first1, *first2 )) return false;
   the second range is read without a bound of its own *)
Fixpoint equal3 (a b : list Z) : res bool :=
  match a with
  | [] => Ok true
  | x :: s =>
      match b with
      | [] => UB OutOfBounds
      | y :: t => if negb (e_eq E x y) then Ok false else equal3 s t
      end
  end.
(* etl::equal(first1, last1, first2, last2, p) for two random-access ranges: different distances -> false, else the loop *)
Definition equal4 (a b : list Z) : res bool :=
  if negb (Z.of_nat (length a) =? Z.of_nat (length b)) then Ok false else equal3 a b.
(* etl::lexicographical_compare(f1, l1, f2, l2) with etl::less: operator< of the elements *)
Fixpoint lex_lt_g (a b : list Z) : bool :=
  match a, b with
  | x :: s, y :: t => if e_lt E x y then true else if e_lt E y x then false else lex_lt_g s t
  | [], _ :: _ => true          (* return (f1 == l1) and (f2 != l2) *)
  | _, [] => false
  end.

(* static_vector: the six free operator templates of static_vector.hpp *)
Definition sv_eq (a b : vec) : res bool :=                 (* if (size(lhs) == size(rhs)) return equal(...); return false *)
  if sz a =? sz b then equal4 (elems a) (elems b) else Ok false.
Definition sv_ne (a b : vec) : res bool := do e <- sv_eq a b; Ok (negb e).          (* !(lhs == rhs) *)
Definition sv_lt (a b : vec) : res bool := Ok (lex_lt_g (elems a) (elems b)).
Definition sv_le (a b : vec) : res bool := do r <- sv_lt b a; Ok (negb r).          (* !(rhs < lhs) *)
Definition sv_gt (a b : vec) : res bool := sv_lt b a.                               (* rhs < lhs *)
Definition sv_ge (a b : vec) : res bool := do r <- sv_lt a b; Ok (negb r).          (* !(lhs < rhs) *)
Definition six (eq ne lt le gt ge : vec -> vec -> res bool) (a b : vec) : res (list bool) :=
  do r1 <- eq a b; do r2 <- ne a b; do r3 <- lt a b; do r4 <- le a b; do r5 <- gt a b; do r6 <- ge a b;
  Ok [r1; r2; r3; r4; r5; r6].
Definition sv_relations : vec -> vec -> res (list bool) := six sv_eq sv_ne sv_lt sv_le sv_gt sv_ge.

(* stack: friend operators, each  return lhs.c OP rhs.c  with the same OP *)
Definition st_eq (a b : vec) : res bool := sv_eq a b.
Definition st_ne (a b : vec) : res bool := sv_ne a b.
Definition st_lt (a b : vec) : res bool := sv_lt a b.
Definition st_le (a b : vec) : res bool := sv_le a b.
Definition st_gt (a b : vec) : res bool := sv_gt a b.
Definition st_ge (a b : vec) : res bool := sv_ge a b.
Definition stk_relations : vec -> vec -> res (list bool) := six st_eq st_ne st_lt st_le st_gt st_ge.

(** * the range members and their source *)
(* for (; first != last; ++first) emplace_back(ARG):  ARG = *first  copy-constructs the new element, the source element
   keeps its value (after = mv_keep);  ARG = etl::move( *first )  move-constructs it, the source element is left
   moved-from (after = e_mv E).  Returned: the vector and the source elements walked so far, as they are now. *)
Fixpoint emplace_all_from (after : Z -> Z) (v : vec) (xs : list Z) : res (vec * list Z) :=
  match xs with
  | [] => Ok (v, [])
  | x :: t => do v' <- emplace_back v x; do r <- emplace_all_from after v' t; Ok (fst r, after x :: snd r)
  end.

(* insert(position, first, last): emplace_back( *first ) *)
Definition insert_range_src (k : itcat) (v : vec) (pos : Z) (xs : list Z) : res (vec * list Z) :=
  if negb (pos_ok v pos) then Contract
  else if is_random k && negb (wrapu 64 (sz v + Z.of_nat (length xs)) <=? cap v) then Contract
  else
    let b := sz v in
    do r <- emplace_all_from mv_keep v xs;
    do v' <- rotate_buf (fst r) pos b;
    Ok (v', snd r).
(* move_insert(position, first, last): emplace_back(etl::move( *first )) *)
Definition move_insert_src (k : itcat) (v : vec) (pos : Z) (xs : list Z) : res (vec * list Z) :=
  if negb (pos_ok v pos) then Contract
  else if is_random k && negb (wrapu 64 (sz v + Z.of_nat (length xs)) <=? cap v) then Contract
  else
    let b := sz v in
    do r <- emplace_all_from (e_mv E) v xs;
    do v' <- rotate_buf (fst r) pos b;
    Ok (v', snd r).
(* assign(first, last): clear(); insert(begin(), first, last) *)
Definition assign_range_src (k : itcat) (v : vec) (xs : list Z) : res (vec * list Z) :=
  if is_random k && negb (Z.of_nat (length xs) <=? cap v) then Contract
  else do v' <- clear v; insert_range_src k v' 0 xs.
(* static_vector(first, last): insert(begin(), first, last) into the fresh object *)
Definition ctor_range_src (k : itcat) (like : vec) (xs : list Z) : res (vec * list Z) :=
  if is_random k && negb (Z.of_nat (length xs) <=? cap like) then Contract
  else insert_range_src k (fresh like) 0 xs.
(* static_vector(c_array<T, Size>&& source): move_insert(begin(), etl::begin(source), etl::end(source)) *)
Definition ctor_arr_src (like : vec) (xs : list Z) : res (vec * list Z) := move_insert_src ItPtr (fresh like) 0 xs.

Inductive zop :=
| ZY (o : yop)                                   (* every operation of ModelIt.yop, observed as there *)
| ZRelations                                     (* the six relations with the element type's < and == *)
| ZInsertRange (t : bool) (k : itcat) (pos : Z) (xs : list Z)
| ZMoveInsertRange (t : bool) (k : itcat) (pos : Z) (xs : list Z)
| ZAssignRange (t : bool) (k : itcat) (xs : list Z)
| ZCtorRange (t : bool) (k : itcat) (xs : list Z)
| ZCtorArr (t : bool) (xs : list Z).

Section ZStep.
Variable pred_of : Z -> Z -> bool.

Definition zstep (s : vec * vec) (o : zop) : res ((vec * vec) * list Z) :=
  let mut t r (out : list Z) := do p <- r; Ok (upd t s (fst p), out ++ snd p) in
  (* Vec tmp(...); observe tmp; v_t = move(tmp); then the source *)
  let ctor t r :=
    do p <- r; do v <- move_assign (sel t s) (fst p); Ok (upd t s v, (sz (fst p) :: elems (fst p)) ++ snd p) in
  match o with
  | ZY o => ystep pred_of s o
  | ZRelations => do r <- sv_relations (fst s) (snd s); Ok (s, map b2z r)
  | ZInsertRange t k pos xs => mut t (insert_range_src k (sel t s) pos xs) [pos]
  | ZMoveInsertRange t k pos xs => mut t (move_insert_src k (sel t s) pos xs) [pos]
  | ZAssignRange t k xs => mut t (assign_range_src k (sel t s) xs) []
  | ZCtorRange t k xs => ctor t (ctor_range_src k (sel t s) xs)
  | ZCtorArr t xs => ctor t (ctor_arr_src (sel t s) xs)
  end.

Fixpoint zrun (s : vec * vec) (ops : list zop) : list (res (list Z * list Z)) :=
  match ops with
  | [] => []
  | o :: rest =>
      match zstep s o with
      | Ok (s', out) => Ok (out, observe s') :: zrun s' rest
      | Contract => [Contract]
      | UB k => [UB k]
      | OutOfFuel => [OutOfFuel]
      end
  end.

(* what the driver runs: the closed form of ModelExt.xstep_fast for insert(end(), n, x) inside ZY, everything else as above *)
Definition zstep_fast (s : vec * vec) (o : zop) : res ((vec * vec) * list Z) :=
  match o with
  | ZY o => ystep_fast pred_of s o
  | _ => zstep s o
  end.

Fixpoint zrun_fast (s : vec * vec) (ops : list zop) : list (res (list Z * list Z)) :=
  match ops with
  | [] => []
  | o :: rest =>
      match zstep_fast s o with
      | Ok (s', out) => Ok (out, observe s') :: zrun_fast s' rest
      | Contract => [Contract]
      | UB k => [UB k]
      | OutOfFuel => [OutOfFuel]
      end
  end.
End ZStep.

(** * stack *)
Inductive st_zop :=
| StZ (o : st_yop)
| StZRelations.

Definition st_zstep (s : vec * vec) (o : st_zop) : res ((vec * vec) * list Z) :=
  match o with
  | StZ o => st_ystep s o
  | StZRelations => do r <- stk_relations (fst s) (snd s); Ok (s, map b2z r)
  end.

Fixpoint st_zrun (s : vec * vec) (ops : list st_zop) : list (res (list Z * list Z)) :=
  match ops with
  | [] => []
  | o :: rest =>
      match st_zstep s o with
      | Ok (s', out) => Ok (out, observe s') :: st_zrun s' rest
      | Contract => [Contract]
      | UB k => [UB k]
      | OutOfFuel => [OutOfFuel]
      end
  end.
End El.

(* the same operation without the look at the source: what ModelIt.v models *)
Definition plain (o : zop) : option yop :=
  match o with
  | ZY o => Some o
  | ZRelations => None
  | ZInsertRange t k pos xs => Some (InsertRangeIt t k pos xs)
  | ZMoveInsertRange t k pos xs => Some (MoveInsertRangeIt t k pos xs)
  | ZAssignRange t k xs => Some (AssignRangeIt t k xs)
  | ZCtorRange t k xs => Some (CtorRangeIt t k xs)
  | ZCtorArr t xs => Some (XBase (CtorArr t xs))
  end.
