From Tetl Require Import Lib.Base Lib.Arr C06a.Model C06a.Instances C01.Model C01.Spec C01.ModelExt C01.SpecExt C01.ModelIt C01.SpecIt C01.ModelEl C01.SpecEl C01.ModelArg C01.SpecArg C01.ModelMv C01.SpecMv.
Require Extraction.
Require Import ExtrOcamlBasic.
Extraction Language OCaml.
Extraction "C01_model.ml" wire_anchor run iv_run spec_run iv_spec_step spec_observe empty_vec pred_of observe
  xrun st_run iv_xrun xspec_run st_spec_run iv_xspec_run xrun_fast iv_xrun_fast
  yrun yrun_fast yspec_run st_yrun st_yspec_run
  zrun zrun_fast zspec_run st_zrun st_zspec_run elt_total elt_keytag mv_keep mv_const
  wrun wrun_fast wspec_run st_wrun st_wspec_run iv_wrun iv_wrun_fast iv_wspec_run arg_int arg_ll arg_dbl arg_vi arg_il
  vrun vrun_fast vspec_run st_vrun st_vspec_run iv_vrun iv_vrun_fast iv_vspec_run ivt_trivial ivt_class.
