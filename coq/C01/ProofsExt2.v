(* C01 proofs for ModelExt.v, part 2: safety (no UB, invariant kept) and contract exactness of the added
   static_vector operations, and independence: an operation that names one object leaves the other one
   untouched (storage and size), so after a copy no history on either object changes what the other one shows. *)
From Tetl Require Import Lib.Base Lib.Arr C06a.Model C06a.P1_Common C01.Model C01.Spec C01.ModelExt C01.SpecExt.
From Tetl Require Import C01.ProofsBase C01.ProofsInsert C01.ProofsErase C01.ProofsCompose C01.ProofsStep C01.ProofsCap
  C01.ProofsExt.
From Coq Require Import Arith Lia Bool.
Ltac Zify.zify_post_hook ::= Z.to_euclidean_division_equations.
Local Open Scope Z_scope.

Section XSafe.
Variable pred : Z -> Z -> bool.
Variable c : nat.
Hypothesis Hc : cap_ok c.

Lemma set_at_safe v i x : inv c v -> safe c (set_at v i x).
Proof.
  intros Hi. apply inv_repr in Hi. pose proof (wrapu64_range i) as Hw.
  destruct (Z_lt_le_dec (wrapu 64 i) (len (elems v))) as [E|E].
  - unfold set_at, index_ok. pose proof Hi as (rest & Hb & Hs & Hl).
    replace (wrapu 64 i <? sz v) with true by (symmetry; apply ltb_t; lia). cbn [negb].
    destruct (write_repr c v _ (Z.to_nat (wrapu 64 i)) x Hi) as (b & -> & Hr'); [unfold len in E; lia|].
    cbn [rbind safe]. apply repr_inv in Hr'. apply Hr'.
  - rewrite (set_at_contract c v _ i x Hi E). exact I.
Qed.

Lemma set_front_safe v x : inv c v -> safe c (set_front v x).
Proof. intros Hi. apply set_at_safe; auto. Qed.

Lemma set_back_safe v x : inv c v -> safe c (set_back v x).
Proof.
  intros Hi. unfold set_back. destruct (is_empty v); [exact I|]. apply set_at_safe; auto.
Qed.

Lemma ctor_n_safe like n : length (buf like) = c -> safe c (ctor_n like n).
Proof.
  intros Hl. pose proof (wrapu64_range n) as Hw. unfold ctor_n, cap. rewrite Hl.
  destruct (Z.leb_spec (wrapu 64 n) (Z.of_nat c)) as [E|E]; cbn [negb]; [|exact I].
  eapply okr_safe, emplace_n_fresh_ok; eauto. lia.
Qed.

Lemma ctor_n_val_safe like n x : length (buf like) = c -> safe c (ctor_n_val like n x).
Proof.
  intros Hl. pose proof (wrapu64_range n) as Hw. assert (H64 := cap_ok_64 c Hc).
  unfold ctor_n_val, cap. rewrite Hl.
  destruct (Z.leb_spec (wrapu 64 n) (Z.of_nat c)) as [E|E]; cbn [negb]; [|exact I].
  apply insert_n_safe; auto. apply (repr_inv c _ []), fresh_repr, Hl.
Qed.

Lemma ctor_range_safe like xs : length (buf like) = c -> safe c (ctor_range like xs).
Proof.
  intros Hl. destruct (Z_le_gt_dec (len xs) (Z.of_nat c)) as [E|E].
  - eapply okr_safe, ctor_range_ok; eauto.
  - rewrite (ctor_range_contract c) by (auto; lia). exact I.
Qed.

Lemma ctor_safe s t r : inv c (fst s) -> inv c (snd s) -> safe c r ->
  safe_step c (do tmp <- r; do v <- move_assign (sel t s) tmp; Ok (upd t s v, sz tmp :: elems tmp)).
Proof.
  intros Ha Hb Hr. destruct r as [tmp| | |]; cbn [rbind safe safe_step] in *; auto.
  destruct (move_assign_ok c (sel t s) _ tmp _ Hc (sel_repr c t s Ha Hb) (inv_repr c tmp Hr)) as (v & -> & Hv).
  cbn [rbind safe_step]. apply upd_inv; auto. apply repr_inv in Hv. apply Hv.
Qed.

Theorem xstep_safe : forall s o, inv c (fst s) -> inv c (snd s) -> xat_arg_ok o -> safe_step c (xstep pred s o).
Proof.
  intros s o Ha Hb Harg.
  assert (Hs : forall t, inv c (sel t s)) by (intros t; apply sel_inv; auto).
  assert (Hl : forall t, length (buf (sel t s)) = c) by (intros t; apply Hs).
  destruct o; cbn [xstep].
  - apply step_safe; auto.
  - rewrite (riter_ok c _ _ (sel_repr c t s Ha Hb)). cbn [rbind safe_step]. auto.
  - rewrite (citer_ok c _ _ (sel_repr c t s Ha Hb)). cbn [rbind safe_step]. auto.
  - apply mut_safe; auto. apply set_at_safe; auto.
  - apply mut_safe; auto. apply set_front_safe; auto.
  - apply mut_safe; auto. apply set_back_safe; auto.
  - rewrite (data_read_ok c _ _ (sel_repr c t s Ha Hb)). cbn [rbind safe_step]. auto.
  - cbn [safe_step]. auto.
  - exact (step_safe pred c Hc s Swap Ha Hb I).
  - cbn [safe_step]. auto.
  - apply mut_safe; auto. rewrite move_insert_eq. apply insert_range_safe; auto.
  - apply ctor_safe; auto. apply ctor_n_safe; auto.
  - apply ctor_safe; auto. apply ctor_n_val_safe; auto.
  - apply ctor_safe; auto. apply ctor_range_safe; auto.
  - apply ctor_safe; auto. rewrite move_insert_eq. apply insert_range_safe; auto.
    apply (repr_inv c _ []), fresh_repr, Hl.
  - destruct (copy_construct_ok c (sel t s) _ Hc (sel_repr c t s Ha Hb)) as (c0 & -> & Hc0). cbn [rbind].
    destruct d.
    + destruct (mutate_ok c c0 _ x Hc Hc0) as (c1 & -> & Hc1). cbn [rbind safe_step]. auto.
    + destruct (mutate_ok c (sel t s) _ x Hc (sel_repr c t s Ha Hb)) as (v1 & -> & Hv1). cbn [rbind safe_step].
      apply upd_inv; auto. apply repr_inv in Hv1. apply Hv1.
Qed.

Theorem xstep_no_ub : forall s o, inv c (fst s) -> inv c (snd s) -> xat_arg_ok o ->
  (forall k, xstep pred s o <> UB k) /\ xstep pred s o <> OutOfFuel.
Proof.
  intros s o Ha Hb Harg. pose proof (xstep_safe s o Ha Hb Harg) as H.
  destruct (xstep pred s o); cbn [safe_step] in H; try contradiction; split; intros; discriminate.
Qed.

(** contract exactness of the added operations *)
Theorem xstep_contract_fires : forall s o, inv c (fst s) -> inv c (snd s) -> xsize_args_ok o ->
  xspec_step pred (Z.of_nat c) (abs s) o = None -> xstep pred s o = Contract.
Proof.
  intros s o Ha Hb Harg H.
  assert (H64 := cap_ok_64 c Hc). pose proof Hc as Hc63. unfold cap_ok in Hc63. rewrite pow63 in *. rewrite pow64 in *.
  destruct o; try (cbn [xspec_step guard] in H; discriminate H).
  - apply (step_contract_fires pred c Hc); auto.
  - cbn [xspec_step] in H. apply guard_none in H. b2p H. cbn [xstep xsize_args_ok] in *.
    pose proof (sel_repr c t s Ha Hb) as Hr. pose proof (len_nonneg (ssel t (abs s))) as Hnn.
    pose proof (repr_len _ _ _ Hr) as Hle.
    rewrite (set_at_contract c _ _ i x Hr); [reflexivity|].
    destruct (Z_lt_le_dec i 0) as [Hn|Hn].
    + rewrite wrapu64_neg by (rewrite pow64; lia). rewrite pow64. lia.
    + rewrite wrapu64_small by (rewrite pow64; lia). lia.
  - cbn [xspec_step] in H. apply guard_none in H. b2p H. cbn [xstep].
    pose proof (len_nonneg (ssel t (abs s))) as Hnn.
    rewrite (set_front_contract c _ _ x (sel_repr c t s Ha Hb)) by lia. reflexivity.
  - cbn [xspec_step] in H. apply guard_none in H. b2p H. cbn [xstep].
    pose proof (len_nonneg (ssel t (abs s))) as Hnn.
    rewrite (set_back_contract c _ _ x (sel_repr c t s Ha Hb)) by lia. reflexivity.
  - cbn [xspec_step] in H. apply guard_none in H. b2p H. cbn [xstep].
    pose proof (sel_repr c t s Ha Hb) as Hr. pose proof (len_nonneg (ssel t (abs s))) as Hnn.
    rewrite move_insert_eq, (insert_range_contract c _ _ pos xs Hc Hr) by lia. reflexivity.
  - cbn [xspec_step] in H. apply guard_none in H. b2p H. cbn [xstep xsize_args_ok] in *.
    rewrite (ctor_n_contract c); [reflexivity|apply (sel_inv c t s Ha Hb)|].
    destruct (Z_lt_le_dec n 0) as [Hn|Hn].
    + rewrite wrapu64_neg by (rewrite pow64; lia). rewrite pow64. lia.
    + rewrite wrapu64_small by (rewrite pow64; lia). lia.
  - cbn [xspec_step] in H. apply guard_none in H. b2p H. cbn [xstep xsize_args_ok] in *.
    rewrite (ctor_n_val_contract c); [reflexivity|apply (sel_inv c t s Ha Hb)|].
    destruct (Z_lt_le_dec n 0) as [Hn|Hn].
    + rewrite wrapu64_neg by (rewrite pow64; lia). rewrite pow64. lia.
    + rewrite wrapu64_small by (rewrite pow64; lia). lia.
  - cbn [xspec_step] in H. apply guard_none in H. b2p H. cbn [xstep].
    rewrite (ctor_range_contract c); [reflexivity|apply (sel_inv c t s Ha Hb)|lia].
  - cbn [xspec_step] in H. apply guard_none in H. b2p H. cbn [xstep].
    rewrite move_insert_eq, (insert_range_contract c _ [] 0 xs Hc (fresh_repr c _ (sel_len c t s Ha Hb))); [reflexivity|].
    right. right. unfold len in *. cbn [length]. lia.
  - cbn [xspec_step] in H. destruct d; discriminate H.
Qed.
End XSafe.

(** * independence *)
Lemma sel_upd_other u s v : sel (negb u) (upd u s v) = sel (negb u) s.
Proof. destruct u, s; reflexivity. Qed.

Lemma eqb_eq' t u : Bool.eqb t u = true -> t = u.
Proof. apply eqb_prop. Qed.

(* an operation that names only object u leaves the other object exactly as it was — unconditionally *)
Theorem xstep_frame : forall pred u s o s' out, touches_only u o = true ->
  xstep pred s o = Ok (s', out) -> sel (negb u) s' = sel (negb u) s.
Proof.
  intros pred u s o s' out Ht H.
  destruct o as [o| | | | | | | | | | | | | | |]; [destruct o|..]; cbn [touches_only] in Ht; try discriminate Ht;
    apply eqb_eq' in Ht; subst u; cbn [xstep step] in H; brk H;
    try (injection H as <- _; try reflexivity; apply sel_upd_other).
Qed.

Theorem xexec_frame : forall pred u ops s s', Forall (fun o => touches_only u o = true) ops ->
  xexec pred s ops = Some s' -> sel (negb u) s' = sel (negb u) s.
Proof.
  induction ops as [|o rest IH]; intros s s' HF H; cbn [xexec] in H.
  - injection H as <-. reflexivity.
  - inversion HF as [|? ? Ho Hrest]; subst.
    destruct (xstep pred s o) as [[s1 out]| | |] eqn:E; try discriminate H.
    rewrite (IH s1 s' Hrest H). apply (xstep_frame pred u s o s1 out Ho E).
Qed.

(* a copy is independent of its source: right after v_t = v_other (or after constructing a copy) the two hold the
   same elements; from then on a history that names only one of them — whichever — leaves the other one with
   the same storage and the same size, hence with the same answers to every observer *)
Theorem copy_independent : forall pred c t s s1, cap_ok c -> inv c (fst s) -> inv c (snd s) ->
  xstep pred s (Base (CopyAssign t)) = Ok (s1, []) ->
  elems (sel t s1) = elems (sel (negb t) s1) /\ sel (negb t) s1 = sel (negb t) s /\
  forall u ops s2, Forall (fun o => touches_only u o = true) ops -> xexec pred s1 ops = Some s2 ->
    sel (negb u) s2 = sel (negb u) s1 /\
    observe (sel (negb u) s2, sel (negb u) s2) = observe (sel (negb u) s1, sel (negb u) s1).
Proof.
  intros pred c t s s1 Hc Ha Hb H. cbn [xstep step] in H.
  destruct (copy_assign_ok c (sel t s) _ (sel (negb t) s) _ Hc (sel_repr c t s Ha Hb) (sel_repr c (negb t) s Ha Hb))
    as (v & Hv & Hr).
  rewrite Hv in H. cbn [rbind] in H. injection H as <-. apply repr_inv in Hr as (_ & He).
  split; [|split].
  - rewrite sel_upd_other. rewrite sel_abs. destruct t, s; cbn [upd sel fst snd negb ssel abs] in *; exact He.
  - apply sel_upd_other.
  - intros u ops s2 HF Hx. rewrite (xexec_frame pred u ops _ s2 HF Hx). split; reflexivity.
Qed.

(** the same for stack and inplace_vector histories *)
Theorem st_step_frame : forall u s o s' out, st_touches_only u o = true ->
  st_step s o = Ok (s', out) -> sel (negb u) s' = sel (negb u) s.
Proof.
  intros u s o s' out Ht H.
  destruct o; cbn [st_touches_only] in Ht; try discriminate Ht;
    apply eqb_eq' in Ht; subst u; cbn [st_step] in H; brk H;
    try (injection H as <- _; try reflexivity; apply sel_upd_other).
Qed.

Theorem st_exec_frame : forall u ops s s', Forall (fun o => st_touches_only u o = true) ops ->
  st_exec s ops = Some s' -> sel (negb u) s' = sel (negb u) s.
Proof.
  induction ops as [|o rest IH]; intros s s' HF H; cbn [st_exec] in H.
  - injection H as <-. reflexivity.
  - inversion HF as [|? ? Ho Hrest]; subst.
    destruct (st_step s o) as [[s1 out]| | |] eqn:E; try discriminate H.
    rewrite (IH s1 s' Hrest H). apply (st_step_frame u s o s1 out Ho E).
Qed.

Theorem iv_xstep_frame : forall u s o s' out, iv_touches_only u o = true ->
  iv_xstep s o = Ok (s', out) -> sel (negb u) s' = sel (negb u) s.
Proof.
  intros u s o s' out Ht H.
  destruct o as [o| | | | | | | | | | | | | | |]; [destruct o|..]; cbn [iv_touches_only] in Ht; try discriminate Ht;
    apply eqb_eq' in Ht; subst u; cbn [iv_xstep iv_step] in H; brk H;
    try (injection H as <- _; try reflexivity; apply sel_upd_other).
Qed.

Theorem iv_xexec_frame : forall u ops s s', Forall (fun o => iv_touches_only u o = true) ops ->
  iv_xexec s ops = Some s' -> sel (negb u) s' = sel (negb u) s.
Proof.
  induction ops as [|o rest IH]; intros s s' HF H; cbn [iv_xexec] in H.
  - injection H as <-. reflexivity.
  - inversion HF as [|? ? Ho Hrest]; subst.
    destruct (iv_xstep s o) as [[s1 out]| | |] eqn:E; try discriminate H.
    rewrite (IH s1 s' Hrest H). apply (iv_xstep_frame u s o s1 out Ho E).
Qed.
