(* C01 — Fixed-capacity vectors behave exactly like std::vector within capacity.
   Property theorems only: each is closed by [exact] of a lemma proved in Proofs*.v, followed by
   Print Assumptions.

   Vocabulary (ProofsBase.v):
     inv c v   := length (buf v) = c /\ 0 <= sz v <= Z.of_nat c      (the storage has Capacity cells,
                                                                       the stored size is in range)
     abs s     := (elems (fst s), elems (snd s))                      (the two vectors as lists)
   c : nat is the capacity; the only side condition on it is  Z.of_nat c < 2^63  (an object cannot
   be larger than PTRDIFF_MAX), needed wherever size_t arithmetic or the stored size could wrap.
   Theorems hold for every such capacity (0, 1, 254, 255, 256, 65534, 65535, ... included), every
   predicate table pred, every reachable state and every history. *)
From Tetl Require Import Lib.Base Lib.Arr C06a.Model C01.Model C01.Spec.
From Tetl Require Import C01.ProofsBase C01.ProofsInsert C01.ProofsErase C01.ProofsCompose
  C01.ProofsStep C01.ProofsIv C01.ProofsCap.
Local Open Scope Z_scope.

(** 1. The stored size never wraps: smallest_size_t<Capacity> represents every size 0..Capacity,
    for every capacity (the 254/255, 65534/65535 and 2^32-2/2^32-1 type boundaries included). *)
Theorem C01_size_fits : forall c n, c < 2 ^ 64 -> 0 <= n <= c -> wrapu (size_bits c) n = n.
Proof. exact size_fits. Qed.
Print Assumptions C01_size_fits.

(* the freshly constructed vector satisfies the invariant and is the empty list *)
Theorem C01_empty_state : forall c, inv c (empty_vec c) /\ elems (empty_vec c) = [].
Proof. intros c. split; [apply empty_inv|apply empty_elems]. Qed.
Print Assumptions C01_empty_state.

(** 2. One-step refinement, all 28 operations of static_vector: whenever the std::vector
    specification defines the call (its documented precondition holds and the result fits the
    capacity), the model of the etl code returns normally with the same returned values, the
    abstraction of its new state is the specified list pair, the invariant is kept, and everything
    observable (size, empty, full, element count, elements in order — of both vectors) agrees. *)
Theorem C01_step_refines : forall pred c s o s1 out, Z.of_nat c < 2 ^ 63 ->
  inv c (fst s) -> inv c (snd s) ->
  spec_step pred (Z.of_nat c) (abs s) o = Some (s1, out) ->
  exists s', step pred s o = Ok (s', out) /\ abs s' = s1 /\ inv c (fst s') /\ inv c (snd s')
             /\ observe s' = spec_observe (Z.of_nat c) s1.
Proof. intros pred c s o s1 out Hc Ha Hb. exact (step_refines pred c Hc s o Ha Hb s1 out). Qed.
Print Assumptions C01_step_refines.

(** 3. History refinement from any state satisfying the invariant ... *)
Theorem C01_history_refines : forall pred c ops s outs, Z.of_nat c < 2 ^ 63 ->
  inv c (fst s) -> inv c (snd s) ->
  spec_run pred (Z.of_nat c) (abs s) ops = Some outs ->
  run pred s ops = map Ok outs.
Proof. intros pred c ops s outs Hc. exact (run_refines pred c Hc ops s outs). Qed.
Print Assumptions C01_history_refines.

(** ... and the main theorem: every history that std::vector accepts within the capacity, started on
    two freshly constructed static_vectors of ANY capacity, produces step by step exactly the outputs
    and observations of std::vector (no contract violation, no UB, no fuel exhaustion on the way). *)
Theorem C01_vector_refines_std : forall pred c ops outs, Z.of_nat c < 2 ^ 63 ->
  spec_run pred (Z.of_nat c) ([], []) ops = Some outs ->
  run pred (empty_vec c, empty_vec c) ops = map Ok outs.
Proof.
  intros pred c ops outs Hc H. apply (run_refines pred c Hc); cbn [fst snd]; try apply empty_inv.
  unfold abs. cbn [fst snd]. rewrite empty_elems. exact H.
Qed.
Print Assumptions C01_vector_refines_std.

(** 4. inplace_vector: the same for its interface (try_push_back, unchecked_push_back, pop_back,
    clear, operator[], front, back, copy construction, move construction) ... *)
Theorem C01_inplace_vector_step_refines : forall c s o s1 out, Z.of_nat c < 2 ^ 63 ->
  inv c (fst s) -> inv c (snd s) ->
  iv_spec_step (Z.of_nat c) (abs s) o = Some (s1, out) ->
  exists s', iv_step s o = Ok (s', out) /\ abs s' = s1 /\ inv c (fst s') /\ inv c (snd s')
             /\ observe s' = spec_observe (Z.of_nat c) s1.
Proof. intros c s o s1 out Hc Ha Hb. exact (iv_step_refines c Hc s o Ha Hb s1 out). Qed.
Print Assumptions C01_inplace_vector_step_refines.

Theorem C01_inplace_vector_refines : forall c ops outs, Z.of_nat c < 2 ^ 63 ->
  iv_spec_run (Z.of_nat c) ([], []) ops = Some outs ->
  iv_run (empty_vec c, empty_vec c) ops = map Ok outs.
Proof.
  intros c ops outs Hc H. apply (iv_run_refines c Hc); cbn [fst snd]; try apply empty_inv.
  unfold abs. cbn [fst snd]. rewrite empty_elems. exact H.
Qed.
Print Assumptions C01_inplace_vector_refines.

(* ... and try_push_back on a full inplace_vector returns null (0) and changes nothing *)
Theorem C01_try_push_back_full : forall c s t x,
  inv c (fst s) -> inv c (snd s) -> sz (sel t s) = Z.of_nat c ->
  iv_step s (IvTryPush t x) = Ok (s, [0]).
Proof. exact iv_try_push_back_full_step. Qed.
Print Assumptions C01_try_push_back_full.

(** 5. Capacity never changes — unconditionally (any state, any arguments). *)
Theorem C01_capacity_constant : forall pred s o s' out, step pred s o = Ok (s', out) ->
  length (buf (fst s')) = length (buf (fst s)) /\ length (buf (snd s')) = length (buf (snd s)).
Proof. exact step_capacity. Qed.
Print Assumptions C01_capacity_constant.

Theorem C01_inplace_vector_capacity_constant : forall s o s' out, iv_step s o = Ok (s', out) ->
  length (buf (fst s')) = length (buf (fst s)) /\ length (buf (snd s')) = length (buf (snd s)).
Proof. exact iv_step_capacity. Qed.
Print Assumptions C01_inplace_vector_capacity_constant.

(** 6. Contract exactness (serves C05): whenever the specification does not define the call, a
    TETL_PRECONDITION stops it.  Positions / iterators are arbitrary integers.  The size_t arguments
    (n of insert(pos,n,x) and assign(n,x), i of operator[]) are read as size_t values: a negative
    number denotes its two's complement and must be >= -2^63; i must be < 2^64.  No operation and no
    argument region is excluded. *)
Theorem C01_contract_fires : forall pred c s o, Z.of_nat c < 2 ^ 63 ->
  inv c (fst s) -> inv c (snd s) ->
  match o with
  | InsertN _ _ n _ | AssignN _ n _ => - 2 ^ 63 <= n
  | At _ i => - 2 ^ 63 <= i < 2 ^ 64
  | _ => True
  end ->
  spec_step pred (Z.of_nat c) (abs s) o = None -> step pred s o = Contract.
Proof. intros pred c s o Hc. exact (step_contract_fires pred c Hc s o). Qed.
Print Assumptions C01_contract_fires.

(* the capacity guard of insert(pos, n, x) is exact for every size_t value n, so a failing call is
   stopped by the guard itself, before the push_back loop modifies anything *)
Theorem C01_insert_n_guard_exact : forall c v n, Z.of_nat c < 2 ^ 63 -> inv c v -> 0 <= n < 2 ^ 64 ->
  (wrapu 64 n <=? wrapu 64 (cap v - sz v)) = (sz v + n <=? Z.of_nat c).
Proof. exact insert_n_guard_exact. Qed.
Print Assumptions C01_insert_n_guard_exact.

Theorem C01_inplace_vector_contract_fires : forall c s o, Z.of_nat c < 2 ^ 63 ->
  inv c (fst s) -> inv c (snd s) ->
  match o with IvAt _ i => - 2 ^ 63 <= i < 2 ^ 64 | _ => True end ->
  iv_spec_step (Z.of_nat c) (abs s) o = None -> iv_step s o = Contract.
Proof. intros c s o Hc. exact (iv_step_contract_fires c Hc s o). Qed.
Print Assumptions C01_inplace_vector_contract_fires.

(** 7. No undefined behaviour (serves C02): under the invariant every operation with any arguments
    (an index being a size_t value, i.e. < 2^64) either returns normally, keeping the invariant, or is
    stopped by a contract check; it never touches storage outside the array and never runs out of fuel. *)
Theorem C01_no_ub : forall pred c s o, Z.of_nat c < 2 ^ 63 ->
  inv c (fst s) -> inv c (snd s) ->
  match o with At _ i => i < 2 ^ 64 | _ => True end ->
  (forall k, step pred s o <> UB k) /\ step pred s o <> OutOfFuel.
Proof. intros pred c s o Hc. exact (step_no_ub pred c Hc s o). Qed.
Print Assumptions C01_no_ub.

Theorem C01_invariant_preserved : forall pred c s o s' out, Z.of_nat c < 2 ^ 63 ->
  inv c (fst s) -> inv c (snd s) ->
  match o with At _ i => i < 2 ^ 64 | _ => True end ->
  step pred s o = Ok (s', out) -> inv c (fst s') /\ inv c (snd s').
Proof.
  intros pred c s o s' out Hc Ha Hb Harg H.
  pose proof (step_safe pred c Hc s o Ha Hb Harg) as S. rewrite H in S. exact S.
Qed.
Print Assumptions C01_invariant_preserved.

Theorem C01_inplace_vector_no_ub : forall c s o, Z.of_nat c < 2 ^ 63 ->
  inv c (fst s) -> inv c (snd s) ->
  match o with IvAt _ i => i < 2 ^ 64 | _ => True end ->
  (forall k, iv_step s o <> UB k) /\ iv_step s o <> OutOfFuel.
Proof. intros c s o Hc. exact (iv_step_no_ub c Hc s o). Qed.
Print Assumptions C01_inplace_vector_no_ub.

(** Non-vacuity: the hypotheses are satisfiable — a capacity-3 history through insert / erase /
    copy / erase_if / relations is accepted by the specification and reproduced by the model; a
    push_back on a full vector is outside the specification and is stopped by a contract; a
    try_push_back on a full inplace_vector answers 0. *)
Example C01_nonvacuous :
  let pred := fun (_ x : Z) => Z.even x in
  let ops := [PushBack false 5; InsertN false 0 2 7; EraseAt false 1; CopyAssign true;
              InsertRange true 1 [4]; EraseIf true 0; Swap; Relations] in
  let fullv := {| buf := [1; 2; 3]; sz := 3 |} in
  Z.of_nat 3 < 2 ^ 63 /\ inv 3 (empty_vec 3) /\ inv 3 fullv
  /\ (exists outs, spec_run pred 3 ([], []) ops = Some outs /\ length outs = 8%nat
                   /\ run pred (empty_vec 3, empty_vec 3) ops = map Ok outs)
  /\ spec_step pred 3 (abs (fullv, empty_vec 3)) (PushBack false 4) = None
  /\ step pred (fullv, empty_vec 3) (PushBack false 4) = Contract
  /\ iv_step (fullv, empty_vec 3) (IvTryPush false 4) = Ok ((fullv, empty_vec 3), [0]).
Proof.
  cbv zeta. split; [reflexivity|]. split; [vm_compute; repeat split; discriminate|].
  split; [vm_compute; repeat split; discriminate|].
  split; [eexists; split; [vm_compute; reflexivity|split; vm_compute; reflexivity]|].
  repeat split; vm_compute; reflexivity.
Qed.
