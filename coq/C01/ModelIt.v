(* C01 model, third part (review round; Model.v and ModelExt.v stay as they are).
   Brought inside the model here:
     static_vector   the range members for EVERY iterator category.  insert(pos, first, last), move_insert(pos, first,
                     last), assign(first, last) and static_vector(first, last) are templates over the iterator type and
                     branch on its category (library fix e6416a9 made the non-pointer instantiations compile):
                       - the ordering precondition  first <= last  exists for raw pointers only;
                       - the capacity precondition  size() + size_type(last - first) <= capacity()  (and, for assign and
                         the constructor,  last - first >= 0,  size_type(last - first) <= capacity())  exists for
                         random-access iterators only (`if constexpr (detail::RandomAccessIterator<It>)`);
                       - bidirectional / forward / input iterators run straight into the element-by-element
                         emplace_back loop, whose own TETL_PRECONDITION(!full()) is then the only capacity check
                         (for assign, AFTER clear()).
                     emplace_back(args...) -> reference (library fix of this round; it returned void): the returned
                     reference is observed as the offset of the referenced slot and by reading through it.
     stack           emplace(args...) -> decltype(auto) = whatever c.emplace_back returns: the reference to the new top.
   Conventions as in Model.v / ModelExt.v.  A source range is the list of the values met when walking it from `first`
   to `last` (for a reverse_iterator that is the underlying array read backwards), so "first <= last" and
   "last - first >= 0" always hold here; `last - first` is the length of the list. *)
From Tetl Require Import Lib.Base Lib.Arr C06a.Model C01.Model C01.ModelExt.
From Coq Require Import Arith.
Local Open Scope Z_scope.

(* the iterator kinds the library distinguishes (the harness instantiates each of them):
   ItPtr      T*                                     (pointer: ordering check + capacity check)
   ItRandom   a random-access class type             (etl::reverse_iterator<T*>, a random-access wrapper: capacity check)
   ItBidi / ItForward / ItInput   bidirectional / forward / single-pass input wrappers   (no up-front check) *)
Inductive itcat := ItPtr | ItRandom | ItBidi | ItForward | ItInput.
Definition is_random (k : itcat) : bool := match k with ItPtr | ItRandom => true | _ => false end.

(* insert(position, first, last) *)
Definition insert_range_it (k : itcat) (v : vec) (pos : Z) (xs : list Z) : res vec :=
  if negb (pos_ok v pos) then Contract                                            (* assert_iterator_in_range *)
  else if is_random k && negb (wrapu 64 (sz v + Z.of_nat (length xs)) <=? cap v) then Contract
  else
    let b := sz v in
    do v' <- emplace_all v xs;                      (* for (; first != last; ++first) emplace_back( *first ) *)
    rotate_buf v' pos b.
(* move_insert(position, first, last): the same with emplace_back(move( *first )) *)
Definition move_insert_it (k : itcat) (v : vec) (pos : Z) (xs : list Z) : res vec :=
  if negb (pos_ok v pos) then Contract
  else if is_random k && negb (wrapu 64 (sz v + Z.of_nat (length xs)) <=? cap v) then Contract
  else
    let b := sz v in
    do v' <- emplace_all v xs;
    rotate_buf v' pos b.
(* assign(first, last): [random access: TETL_PRECONDITION(size_type(last - first) <= capacity())]; clear(); insert(begin(), first, last) *)
Definition assign_range_it (k : itcat) (v : vec) (xs : list Z) : res vec :=
  if is_random k && negb (Z.of_nat (length xs) <=? cap v) then Contract
  else do v' <- clear v; insert_range_it k v' 0 xs.
(* static_vector(first, last): the same preconditions, then insert(begin(), first, last) into the fresh object *)
Definition ctor_range_it (k : itcat) (like : vec) (xs : list Z) : res vec :=
  if is_random k && negb (Z.of_nat (length xs) <=? cap like) then Contract
  else insert_range_it k (fresh like) 0 xs.

(* emplace_back(args...) -> reference.  Returned: the offset of the referenced slot from data() and the value read
   through the reference *)
Definition emplace_back_ref (v : vec) (x : Z) : res (vec * list Z) :=
  do v' <- emplace_back v x;
  do y <- oget (buf v') (szn v);
  Ok (v', [sz v; y]).

(** * arguments that refer to an element of the vector itself
   std::vector must accept  v.push_back(v[k]),  v.emplace_back(v[k]),  v.insert(p, v[k]),  v.insert(p, n, v[k])  and
   v.resize(n, v[k])  ([sequence.reqmts] forbids a reference into the container only for assign).  In static_vector the
   argument is a  T const&  into the inline storage, read each time an element is constructed from it: *)
(* while (n != 0) { push_back(x); --n; }  with x bound to slot k *)
Fixpoint push_n_at (fuel : nat) (v : vec) (k : nat) : res vec :=
  match fuel with
  | O => Ok v
  | S f => do y <- oget (buf v) k; do v' <- push_back v y; push_n_at f v' k
  end.
(* insert(position, n, x) with x bound to slot k: Model.insert_n with the value read at every push_back *)
Definition insert_n_slot (v : vec) (pos : Z) (n : Z) (k : nat) : res vec :=
  if negb (pos_ok v pos) then Contract
  else if negb (wrapu 64 n <=? wrapu 64 (cap v - sz v)) then Contract
  else
    let b := sz v in
    do v' <- push_n_at (Z.to_nat (Z.min n (cap v + 1))) v k;
    rotate_buf v' pos b.
(* the call expressions: operator[](k) is evaluated first (detail::index: TETL_PRECONDITION(size_t(k) < size())) *)
Definition slot_of (k : Z) : nat := Z.to_nat (wrapu 64 k).
Definition push_back_at (v : vec) (k : Z) : res vec :=
  if negb (index_ok k (sz v)) then Contract
  else if full v then Contract                                      (* push_back: TETL_PRECONDITION(!full()) *)
  else do y <- oget (buf v) (slot_of k); emplace_back v y.
Definition emplace_back_at (v : vec) (k : Z) : res vec :=
  if negb (index_ok k (sz v)) then Contract
  else if full v then Contract                                      (* emplace_back: TETL_PRECONDITION(!full()) *)
  else do y <- oget (buf v) (slot_of k); emplace_back v y.
Definition insert_n_at (v : vec) (pos n k : Z) : res vec :=
  if negb (index_ok k (sz v)) then Contract else insert_n_slot v pos n (slot_of k).
Definition insert_cr_at (v : vec) (pos k : Z) : res vec :=
  if negb (index_ok k (sz v)) then Contract
  else if full v then Contract else if negb (pos_ok v pos) then Contract else insert_n_slot v pos 1 (slot_of k).
Definition resize_val_at (v : vec) (n k : Z) : res vec :=
  if negb (index_ok k (sz v)) then Contract
  else if n =? sz v then Ok v
  else if sz v <? n then (if negb (n <=? cap v) then Contract else insert_n_slot v (sz v) (n - sz v) (slot_of k))
  else erase_range v (sz v - (sz v - n)) (sz v).

Inductive yop :=
| XBase (o : xop)
| PushBackAt (t : bool) (k : Z) | EmplaceBackAt (t : bool) (k : Z)
| InsertCRAt (t : bool) (pos k : Z) | InsertNAt (t : bool) (pos n k : Z) | ResizeValAt (t : bool) (n k : Z)
| InsertRangeIt (t : bool) (k : itcat) (pos : Z) (xs : list Z)
| MoveInsertRangeIt (t : bool) (k : itcat) (pos : Z) (xs : list Z)
| AssignRangeIt (t : bool) (k : itcat) (xs : list Z)
| CtorRangeIt (t : bool) (k : itcat) (xs : list Z)
| EmplaceBackRef (t : bool) (x : Z).

Section YStep.
Variable pred_of : Z -> Z -> bool.

Definition ystep (s : vec * vec) (o : yop) : res ((vec * vec) * list Z) :=
  let mut t r out := do v <- r; Ok (upd t s v, out) in
  (* Vec tmp(first, last); observe tmp; v_t = move(tmp) *)
  let ctor t r := do tmp <- r; do v <- move_assign (sel t s) tmp; Ok (upd t s v, sz tmp :: elems tmp) in
  match o with
  | XBase o => xstep pred_of s o
  | InsertRangeIt t k pos xs => mut t (insert_range_it k (sel t s) pos xs) [pos]
  | MoveInsertRangeIt t k pos xs => mut t (move_insert_it k (sel t s) pos xs) [pos]
  | AssignRangeIt t k xs => mut t (assign_range_it k (sel t s) xs) []
  | CtorRangeIt t k xs => ctor t (ctor_range_it k (sel t s) xs)
  | EmplaceBackRef t x => do r <- emplace_back_ref (sel t s) x; Ok (upd t s (fst r), snd r)
  | PushBackAt t k => mut t (push_back_at (sel t s) k) []
  | EmplaceBackAt t k => mut t (emplace_back_at (sel t s) k) []
  | InsertCRAt t pos k => mut t (insert_cr_at (sel t s) pos k) [pos]
  | InsertNAt t pos n k => mut t (insert_n_at (sel t s) pos n k) [pos]
  | ResizeValAt t n k => mut t (resize_val_at (sel t s) n k) []
  end.

Fixpoint yrun (s : vec * vec) (ops : list yop) : list (res (list Z * list Z)) :=
  match ops with
  | [] => []
  | o :: rest =>
      match ystep s o with
      | Ok (s', out) => Ok (out, observe s') :: yrun s' rest
      | Contract => [Contract]
      | UB k => [UB k]
      | OutOfFuel => [OutOfFuel]
      end
  end.

(* what the driver runs: the closed form of ModelExt.xstep_fast for insert(end(), n, x), everything else as above *)
Definition ystep_fast (s : vec * vec) (o : yop) : res ((vec * vec) * list Z) :=
  match o with
  | XBase o => xstep_fast pred_of s o
  | _ => ystep s o
  end.

Fixpoint yrun_fast (s : vec * vec) (ops : list yop) : list (res (list Z * list Z)) :=
  match ops with
  | [] => []
  | o :: rest =>
      match ystep_fast s o with
      | Ok (s', out) => Ok (out, observe s') :: yrun_fast s' rest
      | Contract => [Contract]
      | UB k => [UB k]
      | OutOfFuel => [OutOfFuel]
      end
  end.
End YStep.

(* the same operation with a raw-pointer source: what Model.v / ModelExt.v model *)
Definition as_pointer (o : yop) : yop :=
  match o with
  | InsertRangeIt t _ pos xs => XBase (Base (InsertRange t pos xs))
  | MoveInsertRangeIt t _ pos xs => XBase (MoveInsertRange t pos xs)
  | AssignRangeIt t _ xs => XBase (Base (AssignRange t xs))
  | CtorRangeIt t _ xs => XBase (CtorRange t xs)
  | o => o
  end.

(** * stack: emplace returns what c.emplace_back returns *)
Inductive st_yop :=
| StBase (o : st_op)
| StEmplaceRef (t : bool) (x : Z).      (* auto& r = s.emplace(args...): offset of r in the container, value read through r *)

Definition st_ystep (s : vec * vec) (o : st_yop) : res ((vec * vec) * list Z) :=
  match o with
  | StBase o => st_step s o
  | StEmplaceRef t x => do r <- emplace_back_ref (sel t s) x; Ok (upd t s (fst r), snd r)
  end.

Fixpoint st_yrun (s : vec * vec) (ops : list st_yop) : list (res (list Z * list Z)) :=
  match ops with
  | [] => []
  | o :: rest =>
      match st_ystep s o with
      | Ok (s', out) => Ok (out, observe s') :: st_yrun s' rest
      | Contract => [Contract]
      | UB k => [UB k]
      | OutOfFuel => [OutOfFuel]
      end
  end.
