(* C01 specification, second part: the operations of ModelExt.v on plain lists (std::vector / std::stack /
   std::inplace_vector as the standard describes them), each with its documented precondition.
   Nothing here knows about storage, stored sizes or how a member is implemented. *)
From Tetl Require Import Lib.Base C01.Model C01.Spec C01.ModelExt.
Local Open Scope Z_scope.

(* replace element i of l (0 <= i < length l) *)
Definition lset (l : list Z) (i : nat) (x : Z) : list Z := firstn i l ++ x :: skipn (S i) l.

(* the change used by the independence operations, on a list *)
Definition lmutate (capacity : Z) (l : list Z) (x : Z) : list Z :=
  match l with
  | [] => if 0 <? capacity then [x] else []
  | _ :: t => removelast (x :: t)
  end.

Section XSpec.
Variable pred_of : Z -> Z -> bool.
Variable capacity : Z.

Definition xspec_step (s : list Z * list Z) (o : xop) : option ((list Z * list Z) * list Z) :=
  let mut t (pre : bool) (l : list Z) (out : list Z) := guard pre (supd t s l, out) in
  match o with
  | Base o => spec_step pred_of capacity s o
  | RIter t _ => let l := ssel t s in Some (s, len l :: 0 :: len l :: rev l)
  | CIter t => let l := ssel t s in Some (s, 0 :: len l :: l)
  | SetAt t i x =>
      let l := ssel t s in mut t ((0 <=? i) && (i <? len l)) (lset l (Z.to_nat i) x) [i]
  | SetFront t x => let l := ssel t s in mut t (0 <? len l) (lset l 0 x) [0]
  | SetBack t x => let l := ssel t s in mut t (0 <? len l) (lset l (Z.to_nat (len l - 1)) x) [len l - 1]
  | DataRead t => let l := ssel t s in Some (s, len l :: l)
  | MaxSize t => Some (s, [capacity; capacity])
  | SwapFree => Some ((snd s, fst s), [])
  | SelfMoveAssign t => Some (s, [])
  | MoveInsertRange t pos xs =>
      let l := ssel t s in
      mut t ((0 <=? pos) && (pos <=? len l) && (len l + len xs <=? capacity)) (ins l pos xs) [pos]
  | CtorN t n =>
      mut t ((0 <=? n) && (n <=? capacity)) (repeat 0 (Z.to_nat n)) (n :: repeat 0 (Z.to_nat n))
  | CtorNVal t n x =>
      mut t ((0 <=? n) && (n <=? capacity)) (repeat x (Z.to_nat n)) (n :: repeat x (Z.to_nat n))
  | CtorRange t xs | CtorArr t xs => mut t (len xs <=? capacity) xs (len xs :: xs)
  | CopyIndep t d x =>
      let l := ssel t s in
      let m := lmutate capacity l x in
      if d then Some (s, len m :: m)                  (* the copy changed, the source did not *)
      else Some (supd t s m, len l :: l)              (* the source changed, the copy did not *)
  end.

Fixpoint xspec_run (s : list Z * list Z) (ops : list xop) : option (list (list Z * list Z)) :=
  match ops with
  | [] => Some []
  | o :: rest =>
      match xspec_step s o with
      | None => None
      | Some (s', out) =>
          match xspec_run s' rest with
          | Some r => Some ((out, spec_observe capacity s') :: r)
          | None => None
          end
      end
  end.

(** std::stack<T, C>: a LIFO list, HEAD = top.  The relations compare the underlying sequences (bottom first). *)
Definition st_spec_step (s : list Z * list Z) (o : st_op) : option ((list Z * list Z) * list Z) :=
  let mut t (pre : bool) (l : list Z) (out : list Z) := guard pre (supd t s l, out) in
  match o with
  | StPush t x | StPushRv t x | StEmplace t x => let l := ssel t s in mut t (len l <? capacity) (x :: l) []
  | StPop t => let l := ssel t s in mut t (0 <? len l) (tl l) []
  | StTop t => let l := ssel t s in guard (0 <? len l) (s, [hd 0 l])
  | StSetTop t x => let l := ssel t s in mut t (0 <? len l) (x :: tl l) []
  | StSize t => let l := ssel t s in Some (s, [len l; b2z (len l =? 0)])
  | StSwap | StSwapFree => Some ((snd s, fst s), [])
  | StRelations => Some (s, map b2z (spec_relations (rev (fst s)) (rev (snd s))))
  | StCopyConstruct t => let l := ssel t s in Some (s, 1 :: len l :: rev l)
  | StMoveConstruct t => let l := ssel t s in Some (supd t s [], len l :: rev l)
  | StCopyAssign t => Some (supd t s (ssel (negb t) s), [])
  | StMoveAssign t => Some (supd (negb t) (supd t s (ssel (negb t) s)) [], [])
  | StSelfAssign t => Some (s, [])
  | StFromContainer t xs | StFromContainerRv t xs => mut t (len xs <=? capacity) (rev xs) [len xs]
  end.

(* what the harness sees of a stack: the protected container, bottom first *)
Definition st_spec_observe (s : list Z * list Z) : list Z := spec_observe capacity (rev (fst s), rev (snd s)).

Fixpoint st_spec_run (s : list Z * list Z) (ops : list st_op) : option (list (list Z * list Z)) :=
  match ops with
  | [] => Some []
  | o :: rest =>
      match st_spec_step s o with
      | None => None
      | Some (s', out) =>
          match st_spec_run s' rest with
          | Some r => Some ((out, st_spec_observe s') :: r)
          | None => None
          end
      end
  end.

(** inplace_vector, second part *)
Definition iv_xspec_step (s : list Z * list Z) (o : iv_xop) : option ((list Z * list Z) * list Z) :=
  let mut t (pre : bool) (l : list Z) (out : list Z) := guard pre (supd t s l, out) in
  match o with
  | IvBase o => iv_spec_step capacity s o
  | IvFill t n x =>
      let l := ssel t s in
      let k := Z.min (Z.max n 0) (capacity - len l) in
      Some (supd t s (l ++ repeat x (Z.to_nat k)), [k])
  | IvTryEmplace t x | IvTryPushRv t x =>
      let l := ssel t s in if len l <? capacity then Some (supd t s (l ++ [x]), [1]) else Some (s, [0])
  | IvUncheckedEmplace t x | IvUncheckedPushRv t x =>
      let l := ssel t s in mut t (len l <? capacity) (l ++ [x]) []
  | IvCopyAssign t => Some (supd t s (ssel (negb t) s), [])
  | IvMoveAssign t => Some (supd (negb t) (supd t s (ssel (negb t) s)) [], [])
  | IvSelfCopyAssign t | IvSelfMoveAssign t => Some (s, [])
  | IvSetAt t i x =>
      let l := ssel t s in mut t ((0 <=? i) && (i <? len l)) (lset l (Z.to_nat i) x) [i]
  | IvSetFront t x => let l := ssel t s in mut t (0 <? len l) (lset l 0 x) [0]
  | IvSetBack t x => let l := ssel t s in mut t (0 <? len l) (lset l (Z.to_nat (len l - 1)) x) [len l - 1]
  | IvDataRead t => let l := ssel t s in Some (s, len l :: l)
  | IvMaxSize t => Some (s, [capacity; capacity])
  | IvCopyIndep t d x =>
      let l := ssel t s in
      let m := lmutate capacity l x in
      if d then Some (s, len m :: m) else Some (supd t s m, len l :: l)
  end.

Fixpoint iv_xspec_run (s : list Z * list Z) (ops : list iv_xop) : option (list (list Z * list Z)) :=
  match ops with
  | [] => Some []
  | o :: rest =>
      match iv_xspec_step s o with
      | None => None
      | Some (s', out) =>
          match iv_xspec_run s' rest with
          | Some r => Some ((out, spec_observe capacity s') :: r)
          | None => None
          end
      end
  end.
End XSpec.
