(* C01 proofs for ModelExt.v, part 1: the static_vector operations added there.
   Reading through forward / reverse iterators and data(), writes through returned references, the constructors,
   move_insert, the non-member swap, the independence operation; then one-step and history refinement for xop
   (which contains every operation of Model.op through Base), safety and contract exactness. *)
From Tetl Require Import Lib.Base Lib.Arr C06a.Model C06a.P1_Common C01.Model C01.Spec C01.ModelExt C01.SpecExt.
From Tetl Require Import C01.ProofsBase C01.ProofsInsert C01.ProofsErase C01.ProofsCompose C01.ProofsStep.
From Coq Require Import Arith Lia.
Ltac Zify.zify_post_hook ::= Z.to_euclidean_division_equations.
Local Open Scope Z_scope.

(** * reading *)
Lemma read_fwd_app : forall (M P T : list Z), read_fwd (P ++ M ++ T) (length P) (length M) = Ok M.
Proof.
  induction M as [|x M IH]; intros P T; cbn [read_fwd length].
  - reflexivity.
  - cbn [app]. rewrite oget_mid. cbn [rbind].
    replace (P ++ x :: M ++ T) with ((P ++ [x]) ++ M ++ T) by (rewrite <- app_assoc; reflexivity).
    replace (S (length P)) with (length (P ++ [x])) by (rewrite app_length; cbn [length]; lia).
    rewrite IH. reflexivity.
Qed.

Lemma read_rev_app : forall (M T : list Z), read_rev (M ++ T) (length M) = Ok (rev M).
Proof.
  induction M as [|x M IH] using rev_ind; intros T.
  - reflexivity.
  - rewrite app_length. cbn [length]. rewrite Nat.add_1_r. cbn [read_rev].
    rewrite <- app_assoc. cbn [app]. rewrite oget_mid. cbn [rbind]. rewrite IH. cbn [rbind].
    rewrite rev_app_distr. reflexivity.
Qed.

Lemma szn_repr c v l : repr c v l -> szn v = length l.
Proof. intros (rest & Hb & Hs & Hl). unfold szn. rewrite Hs. apply to_nat_len. Qed.

Lemma read_fwd_repr c v l : repr c v l -> read_fwd (buf v) 0 (szn v) = Ok l.
Proof.
  intros Hr. rewrite (szn_repr c v l Hr). destruct Hr as (rest & Hb & Hs & Hl). rewrite Hb.
  apply (read_fwd_app l [] rest).
Qed.

Lemma read_rev_repr c v l : repr c v l -> read_rev (buf v) (szn v) = Ok (rev l).
Proof.
  intros Hr. rewrite (szn_repr c v l Hr). destruct Hr as (rest & Hb & Hs & Hl). rewrite Hb.
  apply read_rev_app.
Qed.

Lemma riter_ok c v l : repr c v l -> riter v = Ok (len l :: 0 :: len l :: rev l).
Proof.
  intros Hr. unfold riter. rewrite (read_rev_repr c v l Hr). cbn [rbind].
  destruct Hr as (rest & Hb & Hs & Hl). rewrite Hs, Z.sub_0_r. reflexivity.
Qed.
Lemma citer_ok c v l : repr c v l -> citer v = Ok (0 :: len l :: l).
Proof.
  intros Hr. unfold citer. rewrite (read_fwd_repr c v l Hr). cbn [rbind].
  destruct Hr as (rest & Hb & Hs & Hl). rewrite Hs. reflexivity.
Qed.
Lemma data_read_ok c v l : repr c v l -> data_read v = Ok (len l :: l).
Proof.
  intros Hr. unfold data_read. rewrite (read_fwd_repr c v l Hr). cbn [rbind].
  destruct Hr as (rest & Hb & Hs & Hl). rewrite Hs. reflexivity.
Qed.

(** * writing through a reference *)
Lemma lset_length (l : list Z) i x : (i < length l)%nat -> length (lset l i x) = length l.
Proof.
  intros H. unfold lset. rewrite app_length, firstn_length. cbn [length]. rewrite skipn_length. lia.
Qed.
Lemma len_lset (l : list Z) i x : (i < length l)%nat -> len (lset l i x) = len l.
Proof. intros H. unfold len. rewrite lset_length by exact H. reflexivity. Qed.

Lemma oset_app_l (l rest : list Z) i x : (i < length l)%nat -> oset (l ++ rest) i x = Ok (lset l i x ++ rest).
Proof.
  intros H. rewrite oset_upd by (rewrite app_length; lia). f_equal. unfold P1_Common.upd, lset.
  rewrite firstn_app. replace (i - length l)%nat with 0%nat by lia. cbn [firstn]. rewrite app_nil_r.
  rewrite skipn_app. replace (S i - length l)%nat with 0%nat by lia. cbn [skipn].
  rewrite <- app_assoc. reflexivity.
Qed.

(* a write at slot i (a nat below the length) keeps the representation with element i replaced *)
Lemma write_repr c v l i x : repr c v l -> (i < length l)%nat ->
  exists b, oset (buf v) i x = Ok b /\ repr c {| buf := b; sz := sz v |} (lset l i x).
Proof.
  intros (rest & Hb & Hs & Hl) Hi. exists (lset l i x ++ rest). split.
  - rewrite Hb. apply oset_app_l. exact Hi.
  - exists rest. cbn [buf sz]. split; [reflexivity|]. split.
    + rewrite len_lset by exact Hi. exact Hs.
    + rewrite <- Hl, Hb, !app_length, lset_length by exact Hi. reflexivity.
Qed.

Lemma set_at_ok c v l i x : cap_ok c -> repr c v l -> 0 <= i < len l ->
  okr c (set_at v i x) (lset l (Z.to_nat i) x).
Proof.
  intros Hc Hr Hi. pose proof (repr_len _ _ _ Hr) as Hle. assert (H64 := cap_ok_64 c Hc).
  unfold set_at, index_ok. rewrite wrapu64_small by lia.
  pose proof Hr as (rest & Hb & Hs & Hl). rewrite Hs, ltb_t by lia. cbn [negb].
  destruct (write_repr c v l (Z.to_nat i) x Hr) as (b & -> & Hr'); [unfold len in Hi; lia|].
  cbn [rbind]. rewrite Hs in Hr'. eexists. split; [reflexivity|exact Hr'].
Qed.

Lemma set_at_contract c v l i x : repr c v l -> len l <= wrapu 64 i -> set_at v i x = Contract.
Proof.
  intros (rest & Hb & Hs & Hl) Hw. unfold set_at, index_ok. rewrite Hs, ltb_f by lia. reflexivity.
Qed.

Lemma set_front_ok c v l x : cap_ok c -> repr c v l -> 0 < len l -> okr c (set_front v x) (lset l 0 x).
Proof. intros Hc Hr Hl. unfold set_front. apply (set_at_ok c v l 0 x Hc Hr). lia. Qed.

Lemma set_front_contract c v l x : repr c v l -> len l = 0 -> set_front v x = Contract.
Proof.
  intros Hr Hl. unfold set_front. apply (set_at_contract c v l 0 x Hr).
  rewrite wrapu64_small by (rewrite pow64; lia). lia.
Qed.

Lemma set_back_ok c v l x : cap_ok c -> repr c v l -> 0 < len l ->
  okr c (set_back v x) (lset l (Z.to_nat (len l - 1)) x).
Proof.
  intros Hc Hr Hl. pose proof (repr_len _ _ _ Hr) as Hle. assert (H64 := cap_ok_64 c Hc).
  unfold set_back, is_empty. pose proof Hr as (rest & Hb & Hs & Hlb). rewrite Hs, eqb_f by lia.
  rewrite wrapu64_small by lia. apply (set_at_ok c v l (len l - 1) x Hc Hr). lia.
Qed.

Lemma set_back_contract c v l x : repr c v l -> len l = 0 -> set_back v x = Contract.
Proof.
  intros (rest & Hb & Hs & Hlb) Hl. unfold set_back, is_empty. rewrite Hs, eqb_t by lia. reflexivity.
Qed.

(** * constructors *)
Lemma fresh_repr c like : length (buf like) = c -> repr c (fresh like) [].
Proof. intros <-. apply empty_repr. Qed.

Lemma emplace_n_fresh_ok c like n : cap_ok c -> length (buf like) = c -> 0 <= n <= Z.of_nat c ->
  okr c (emplace_n (fresh like) n) (repeat 0 (Z.to_nat n)).
Proof.
  intros Hc Hl Hn. pose proof (fresh_repr c like Hl) as Hr. unfold emplace_n.
  rewrite (repr_cap _ _ _ Hr), leb_t by lia. cbn [negb].
  replace (sz (fresh like)) with 0 by reflexivity. rewrite Z.sub_0_r.
  pose proof (emplace_all_ok c Hc (repeat 0 (Z.to_nat n)) _ [] Hr) as H. cbn [app] in H. apply H.
  rewrite len_repeat. unfold len. cbn [length]. lia.
Qed.

Lemma ctor_n_ok c like n : cap_ok c -> length (buf like) = c -> 0 <= n <= Z.of_nat c ->
  okr c (ctor_n like n) (repeat 0 (Z.to_nat n)).
Proof.
  intros Hc Hl Hn. assert (H64 := cap_ok_64 c Hc). unfold ctor_n, cap. rewrite Hl.
  rewrite wrapu64_small by lia. rewrite leb_t by lia. cbn [negb]. apply emplace_n_fresh_ok; auto.
Qed.

Lemma ctor_n_contract c like n : length (buf like) = c -> Z.of_nat c < wrapu 64 n -> ctor_n like n = Contract.
Proof. intros Hl Hn. unfold ctor_n, cap. rewrite Hl, leb_f by lia. reflexivity. Qed.

Lemma ctor_n_val_ok c like n x : cap_ok c -> length (buf like) = c -> 0 <= n <= Z.of_nat c ->
  okr c (ctor_n_val like n x) (repeat x (Z.to_nat n)).
Proof.
  intros Hc Hl Hn. assert (H64 := cap_ok_64 c Hc). unfold ctor_n_val, cap. rewrite Hl.
  rewrite wrapu64_small by lia. rewrite leb_t by lia. cbn [negb].
  rewrite <- (ins_nil (repeat x (Z.to_nat n))).
  apply insert_n_ok; auto using fresh_repr; unfold len; cbn [length]; try lia.
  rewrite wrapu64_small by lia. lia.
Qed.

Lemma ctor_n_val_contract c like n x : length (buf like) = c -> Z.of_nat c < wrapu 64 n ->
  ctor_n_val like n x = Contract.
Proof. intros Hl Hn. unfold ctor_n_val, cap. rewrite Hl, leb_f by lia. reflexivity. Qed.

Lemma ctor_range_ok c like xs : cap_ok c -> length (buf like) = c -> len xs <= Z.of_nat c ->
  okr c (ctor_range like xs) xs.
Proof.
  intros Hc Hl Hn. unfold ctor_range, cap. rewrite Hl. fold (len xs). rewrite leb_t by lia. cbn [negb].
  rewrite <- (ins_nil xs) at 2.
  apply insert_range_ok; auto using fresh_repr; unfold len in *; cbn [length]; lia.
Qed.

Lemma ctor_range_contract c like xs : length (buf like) = c -> Z.of_nat c < len xs ->
  ctor_range like xs = Contract.
Proof. intros Hl Hn. unfold ctor_range, cap. rewrite Hl. fold (len xs). rewrite leb_f by lia. reflexivity. Qed.

(** * the independence change *)
Lemma len_removelast_cons (x : Z) t : len (removelast (x :: t)) = len t.
Proof.
  rewrite removelast_len by discriminate. unfold len. cbn [length]. lia.
Qed.

Lemma removelast_lset0 (y : Z) t x : removelast (lset (y :: t) 0 x) = removelast (x :: t).
Proof. reflexivity. Qed.

Lemma mutate_ok c v l x : cap_ok c -> repr c v l -> okr c (mutate v x) (lmutate (Z.of_nat c) l x).
Proof.
  intros Hc Hr. pose proof Hr as (rest & Hb & Hs & Hl). pose proof (repr_len _ _ _ Hr) as Hle.
  unfold mutate, is_empty, full. rewrite Hs, (repr_cap _ _ _ Hr).
  destruct l as [|y t].
  - change (len []) with 0. rewrite Z.eqb_refl. cbn [negb lmutate].
    destruct (Z.ltb_spec 0 (Z.of_nat c)) as [Hpos|Hz].
    + rewrite eqb_f by lia. cbn [negb]. apply (push_back_ok c v [] x Hc Hr). unfold len. cbn [length]. lia.
    + rewrite eqb_t by lia. cbn [negb]. exists v. auto.
  - assert (Hpos : 0 < len (y :: t)) by (unfold len; cbn [length]; lia).
    rewrite eqb_f by lia. cbn [negb lmutate].
    destruct (set_at_ok c v (y :: t) 0 x Hc Hr) as (w & -> & Hw); [lia|]. cbn [rbind].
    change (Z.to_nat 0) with 0%nat in Hw. rewrite <- (removelast_lset0 y t x).
    apply (pop_back_ok c w _ Hc Hw). rewrite len_lset by (cbn [length]; lia). exact Hpos.
Qed.

(** * one-step refinement for xop *)
Definition xat_arg_ok (o : xop) : Prop :=
  match o with Base o => at_arg_ok o | _ => True end.
(* the size_t arguments of the new operations are read modulo 2^64: no side condition needed for them *)
Definition xsize_args_ok (o : xop) : Prop :=
  match o with
  | Base o => size_args_ok o
  | SetAt _ i _ => - 2 ^ 63 <= i < 2 ^ 64
  | CtorN _ n | CtorNVal _ n _ => - 2 ^ 63 <= n < 2 ^ 64
  | _ => True
  end.

Section XStep.
Variable pred : Z -> Z -> bool.
Variable c : nat.
Hypothesis Hc : cap_ok c.

Definition xrefines_at (s : vec * vec) (o : xop) : Prop :=
  inv c (fst s) -> inv c (snd s) -> forall s1 out,
  xspec_step pred (Z.of_nat c) (abs s) o = Some (s1, out) ->
  exists s', xstep pred s o = Ok (s', out) /\ abs s' = s1 /\ inv c (fst s') /\ inv c (snd s')
             /\ observe s' = spec_observe (Z.of_nat c) s1.

Ltac open_xmut H Hpre :=
  let E := fresh "E" in
  cbn [xspec_step] in H; apply guard_some in H as (Hpre & E); injection E as <- <-; b2p Hpre; cbn [xstep].

Lemma sel_len t s : inv c (fst s) -> inv c (snd s) -> length (buf (sel t s)) = c.
Proof. intros Ha Hb. apply (sel_inv c t s Ha Hb). Qed.

Lemma sel_sz t s : inv c (fst s) -> inv c (snd s) -> sz (sel t s) = len (ssel t (abs s)).
Proof. intros Ha Hb. rewrite <- sel_abs. symmetry. apply (elems_len c), sel_inv; auto. Qed.

(* observers that return a value list and leave the state alone *)
Lemma obs_step s (r : res (list Z)) out : inv c (fst s) -> inv c (snd s) -> r = Ok out ->
  exists s', (do x <- r; Ok (s, x)) = Ok (s', out) /\ abs s' = abs s /\ inv c (fst s') /\ inv c (snd s')
             /\ observe s' = spec_observe (Z.of_nat c) (abs s).
Proof. intros Ha Hb ->. exists s. cbn [rbind]. split; [reflexivity|]. apply (fin c); auto. Qed.

Lemma xstep_RIter s t k : xrefines_at s (RIter t k).
Proof.
  intros Ha Hb s1 out H. cbn [xspec_step] in H. injection H as <- <-. cbn [xstep].
  apply obs_step; auto. apply (riter_ok c), sel_repr; auto.
Qed.

Lemma xstep_CIter s t : xrefines_at s (CIter t).
Proof.
  intros Ha Hb s1 out H. cbn [xspec_step] in H. injection H as <- <-. cbn [xstep].
  apply obs_step; auto. apply (citer_ok c), sel_repr; auto.
Qed.

Lemma xstep_DataRead s t : xrefines_at s (DataRead t).
Proof.
  intros Ha Hb s1 out H. cbn [xspec_step] in H. injection H as <- <-. cbn [xstep].
  apply obs_step; auto. apply (data_read_ok c), sel_repr; auto.
Qed.

Lemma xstep_MaxSize s t : xrefines_at s (MaxSize t).
Proof.
  intros Ha Hb s1 out H. cbn [xspec_step] in H. injection H as <- <-. cbn [xstep].
  unfold cap. rewrite (sel_len t s Ha Hb). exists s. split; [reflexivity|]. apply (fin c); auto.
Qed.

Lemma xstep_SetAt s t i x : xrefines_at s (SetAt t i x).
Proof.
  intros Ha Hb s1 out H. open_xmut H Hpre. assert (H64 := cap_ok_64 c Hc).
  pose proof (repr_len _ _ _ (sel_repr c t s Ha Hb)).
  rewrite (wrapu64_small i) by lia. apply (mut_step c); auto.
  apply set_at_ok; auto using sel_repr; lia.
Qed.

Lemma xstep_SetFront s t x : xrefines_at s (SetFront t x).
Proof.
  intros Ha Hb s1 out H. open_xmut H Hpre. apply (mut_step c); auto.
  apply set_front_ok; auto using sel_repr.
Qed.

Lemma xstep_SetBack s t x : xrefines_at s (SetBack t x).
Proof.
  intros Ha Hb s1 out H. open_xmut H Hpre. rewrite (sel_sz t s Ha Hb). apply (mut_step c); auto.
  apply set_back_ok; auto using sel_repr.
Qed.

Lemma xstep_SwapFree s : xrefines_at s SwapFree.
Proof.
  intros Ha Hb s1 out H. exact (step_Swap pred c Hc s Ha Hb s1 out H).
Qed.

Lemma xstep_SelfMoveAssign s t : xrefines_at s (SelfMoveAssign t).
Proof.
  intros Ha Hb s1 out H. cbn [xspec_step] in H. injection H as <- <-. cbn [xstep].
  exists s. split; [reflexivity|]. apply (fin c); auto.
Qed.

Lemma xstep_MoveInsertRange s t pos xs : xrefines_at s (MoveInsertRange t pos xs).
Proof.
  intros Ha Hb s1 out H. open_xmut H Hpre. apply (mut_step c); auto.
  rewrite move_insert_eq. apply insert_range_ok; auto using sel_repr; lia.
Qed.

(* Vec tmp(args...); observe tmp; v_t = move(tmp) *)
Lemma ctor_step s t r l n : inv c (fst s) -> inv c (snd s) -> okr c r l -> n = len l ->
  exists s', (do tmp <- r; do v <- move_assign (sel t s) tmp; Ok (upd t s v, sz tmp :: elems tmp))
             = Ok (s', n :: l)
             /\ abs s' = supd t (abs s) l /\ inv c (fst s') /\ inv c (snd s')
             /\ observe s' = spec_observe (Z.of_nat c) (supd t (abs s) l).
Proof.
  intros Ha Hb (tmp & -> & Htmp) ->. cbn [rbind].
  destruct (move_assign_ok c (sel t s) _ tmp l Hc (sel_repr c t s Ha Hb) Htmp) as (v & -> & Hv). cbn [rbind].
  pose proof (repr_inv _ _ _ Htmp) as (Hit & Het). pose proof (repr_inv _ _ _ Hv) as (Hiv & Hev).
  rewrite Het. rewrite <- (elems_len c tmp Hit), Het.
  eexists. split; [reflexivity|]. destruct (upd_inv c t s v Ha Hb Hiv) as (H1 & H2).
  apply (fin c); auto. rewrite upd_abs, Hev. reflexivity.
Qed.

Lemma xstep_CtorN s t n : xrefines_at s (CtorN t n).
Proof.
  intros Ha Hb s1 out H. open_xmut H Hpre.
  apply ctor_step; auto; [|rewrite len_repeat; lia]. apply ctor_n_ok; auto using sel_len; lia.
Qed.

Lemma xstep_CtorNVal s t n x : xrefines_at s (CtorNVal t n x).
Proof.
  intros Ha Hb s1 out H. open_xmut H Hpre.
  apply ctor_step; auto; [|rewrite len_repeat; lia]. apply ctor_n_val_ok; auto using sel_len; lia.
Qed.

Lemma xstep_CtorRange s t xs : xrefines_at s (CtorRange t xs).
Proof.
  intros Ha Hb s1 out H. open_xmut H Hpre.
  apply ctor_step; auto. apply ctor_range_ok; auto using sel_len.
Qed.

Lemma xstep_CtorArr s t xs : xrefines_at s (CtorArr t xs).
Proof.
  intros Ha Hb s1 out H. open_xmut H Hpre.
  apply ctor_step; auto. rewrite move_insert_eq. rewrite <- (ins_nil xs) at 2.
  apply insert_range_ok; auto using fresh_repr, sel_len; unfold len in *; cbn [length]; lia.
Qed.

Lemma xstep_CopyIndep s t d x : xrefines_at s (CopyIndep t d x).
Proof.
  intros Ha Hb s1 out H. cbn [xspec_step] in H. cbn [xstep].
  destruct (copy_construct_ok c (sel t s) _ Hc (sel_repr c t s Ha Hb)) as (c0 & -> & Hc0). cbn [rbind].
  destruct d.
  - injection H as <- <-.
    destruct (mutate_ok c c0 _ x Hc Hc0) as (c1 & -> & Hc1). cbn [rbind].
    pose proof (repr_inv _ _ _ Hc1) as (Hi1 & He1). rewrite He1, <- (elems_len c c1 Hi1), He1.
    exists s. split; [reflexivity|]. apply (fin c); auto.
  - injection H as <- <-.
    destruct (mutate_ok c (sel t s) _ x Hc (sel_repr c t s Ha Hb)) as (v1 & -> & Hv1). cbn [rbind].
    pose proof (repr_inv _ _ _ Hc0) as (Hi0 & He0). pose proof (repr_inv _ _ _ Hv1) as (Hi1 & He1).
    rewrite He0, <- (elems_len c c0 Hi0), He0.
    eexists. split; [reflexivity|]. destruct (upd_inv c t s v1 Ha Hb Hi1) as (H1 & H2).
    apply (fin c); auto. rewrite upd_abs, He1. reflexivity.
Qed.

Theorem xstep_refines : forall s o, xrefines_at s o.
Proof.
  intros s o. destruct o.
  - intros Ha Hb s1 out H. exact (step_refines pred c Hc s o Ha Hb s1 out H).
  - apply xstep_RIter.
  - apply xstep_CIter.
  - apply xstep_SetAt.
  - apply xstep_SetFront.
  - apply xstep_SetBack.
  - apply xstep_DataRead.
  - apply xstep_MaxSize.
  - apply xstep_SwapFree.
  - apply xstep_SelfMoveAssign.
  - apply xstep_MoveInsertRange.
  - apply xstep_CtorN.
  - apply xstep_CtorNVal.
  - apply xstep_CtorRange.
  - apply xstep_CtorArr.
  - apply xstep_CopyIndep.
Qed.

Theorem xrun_refines : forall ops s outs, inv c (fst s) -> inv c (snd s) ->
  xspec_run pred (Z.of_nat c) (abs s) ops = Some outs ->
  xrun pred s ops = map Ok outs.
Proof.
  induction ops as [|o rest IH]; intros s outs Ha Hb H; cbn [xspec_run xrun] in *.
  - injection H as <-. reflexivity.
  - destruct (xspec_step pred (Z.of_nat c) (abs s) o) as [[s1 out]|] eqn:E; [|discriminate].
    destruct (xspec_run pred (Z.of_nat c) s1 rest) as [r|] eqn:Er; [|discriminate].
    injection H as <-.
    destruct (xstep_refines s o Ha Hb s1 out E) as (s' & -> & Habs & Ha' & Hb' & Hobs).
    cbn [map]. rewrite Hobs. f_equal. apply IH; auto. rewrite Habs. exact Er.
Qed.

End XStep.
