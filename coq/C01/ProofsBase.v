(* C01 proofs, part 1: invariant, abstraction, the stored size never wraps (size_fits), and the
   primitive operations (set_size, emplace_back, push_back, pop_back, emplace_all, push_n, clear,
   element access, relations, observation).

   Working representation:  repr c v l  <->  inv c v /\ elems v = l, written as an explicit split
   of the storage  buf v = l ++ rest  so that the C06a list-surgery lemmas apply directly.
   For every vector operation there are two exhaustive lemmas, stated for ALL integer arguments:
     *_ok        : guard conditions hold  -> Ok v' with repr c v' (the std::vector result)
     *_contract  : a guard condition fails -> Contract
   and their corollary  *_safe : the outcome is Ok (with the invariant) or Contract, never UB/OutOfFuel. *)
From Tetl Require Import Lib.Base Lib.Arr C06a.Model C06a.P1_Common C01.Model C01.Spec.
From Coq Require Import Arith Lia.
Ltac Zify.zify_post_hook ::= Z.to_euclidean_division_equations.
Local Open Scope Z_scope.

(** * Invariant, abstraction *)
Definition inv (c : nat) (v : vec) : Prop := length (buf v) = c /\ 0 <= sz v <= Z.of_nat c.
Definition abs (s : vec * vec) : list Z * list Z := (elems (fst s), elems (snd s)).
(* the capacity is an object size: it is below 2^63 (PTRDIFF_MAX) on every target *)
Definition cap_ok (c : nat) : Prop := Z.of_nat c < 2 ^ 63.

Definition repr (c : nat) (v : vec) (l : list Z) : Prop :=
  exists rest, buf v = l ++ rest /\ sz v = len l /\ length (buf v) = c.

(* outcome predicates *)
Definition okr (c : nat) (r : res vec) (l : list Z) : Prop := exists v', r = Ok v' /\ repr c v' l.
Definition safe (c : nat) (r : res vec) : Prop :=
  match r with Ok v' => inv c v' | Contract => True | _ => False end.

(** * Arithmetic helpers *)
Lemma pow64 : 2 ^ 64 = 18446744073709551616. Proof. reflexivity. Qed.
Lemma pow63 : 2 ^ 63 = 9223372036854775808. Proof. reflexivity. Qed.

Lemma wrapu64_small x : 0 <= x < 2 ^ 64 -> wrapu 64 x = x.
Proof. intros H. unfold wrapu. apply Z.mod_small. exact H. Qed.

Lemma wrapu64_neg x : - 2 ^ 64 <= x < 0 -> wrapu 64 x = x + 2 ^ 64.
Proof. intros H. unfold wrapu. rewrite pow64 in *. lia. Qed.

Lemma wrapu64_range x : 0 <= wrapu 64 x < 2 ^ 64.
Proof. unfold wrapu. apply Z.mod_pos_bound. rewrite pow64. lia. Qed.

Lemma eqb_t a b : a = b -> (a =? b) = true. Proof. apply Z.eqb_eq. Qed.
Lemma eqb_f a b : a <> b -> (a =? b) = false. Proof. apply Z.eqb_neq. Qed.
Lemma ltb_t a b : a < b -> (a <? b) = true. Proof. apply Z.ltb_lt. Qed.
Lemma ltb_f a b : b <= a -> (a <? b) = false. Proof. apply Z.ltb_ge. Qed.
Lemma leb_t a b : a <= b -> (a <=? b) = true. Proof. apply Z.leb_le. Qed.
Lemma leb_f a b : b < a -> (a <=? b) = false. Proof. apply Z.leb_gt. Qed.

(* turn a boolean guard hypothesis into arithmetic *)
Ltac b2p H :=
  repeat first [ rewrite andb_true_iff in H | rewrite andb_false_iff in H
               | rewrite negb_true_iff in H | rewrite negb_false_iff in H
               | rewrite Z.leb_le in H | rewrite Z.ltb_lt in H | rewrite Z.eqb_eq in H
               | rewrite Z.leb_gt in H | rewrite Z.ltb_ge in H | rewrite Z.eqb_neq in H ].

(** The stored size never wraps: smallest_size_t<Capacity> holds every value 0..Capacity, for every
    capacity (the 254/255 and 65534/65535 and 2^32-2/2^32-1 boundaries are the cases of the proof). *)
Lemma size_fits : forall c n, c < 2 ^ 64 -> 0 <= n <= c -> wrapu (size_bits c) n = n.
Proof.
  intros c n Hc Hn. rewrite pow64 in Hc. unfold wrapu, size_bits.
  destruct (Z.ltb_spec c 255) as [H1|H1].
  { apply Z.mod_small. change (2 ^ 8) with 256. lia. }
  destruct (Z.ltb_spec c 65535) as [H2|H2].
  { apply Z.mod_small. change (2 ^ 16) with 65536. lia. }
  destruct (Z.ltb_spec c 4294967295) as [H3|H3].
  { apply Z.mod_small. change (2 ^ 32) with 4294967296. lia. }
  apply Z.mod_small. rewrite pow64. lia.
Qed.

Lemma cap_ok_64 c : cap_ok c -> Z.of_nat c < 2 ^ 64.
Proof. unfold cap_ok. rewrite pow63, pow64. lia. Qed.

(** * repr <-> inv + elems *)
Lemma len_app a b : len (a ++ b) = len a + len b.
Proof. unfold len. rewrite app_length. lia. Qed.
Lemma len_nonneg l : 0 <= len l. Proof. unfold len. lia. Qed.
Lemma len_repeat (x : Z) n : len (repeat x n) = Z.of_nat n.
Proof. unfold len. rewrite repeat_length. reflexivity. Qed.
Lemma to_nat_len l : Z.to_nat (len l) = length l.
Proof. unfold len. apply Nat2Z.id. Qed.

Lemma firstn_app_exact {A} (P T : list A) n : n = length P -> firstn n (P ++ T) = P.
Proof. intros ->. rewrite firstn_app, Nat.sub_diag, firstn_all. cbn [firstn]. apply app_nil_r. Qed.
Lemma skipn_app_exact {A} (P T : list A) n : n = length P -> skipn n (P ++ T) = T.
Proof. intros ->. rewrite skipn_app, Nat.sub_diag, skipn_all. reflexivity. Qed.

Lemma repr_inv c v l : repr c v l -> inv c v /\ elems v = l.
Proof.
  intros (rest & Hb & Hs & Hc). unfold inv, elems, szn. rewrite Hs, to_nat_len. split; [split|].
  - exact Hc.
  - rewrite Hb, app_length in Hc. unfold len. lia.
  - rewrite Hb. apply firstn_app_exact. reflexivity.
Qed.

Lemma inv_repr c v : inv c v -> repr c v (elems v).
Proof.
  intros (Hl & Hs). exists (skipn (szn v) (buf v)). unfold elems. split; [|split].
  - symmetry. apply firstn_skipn.
  - unfold len, szn. rewrite firstn_length. lia.
  - exact Hl.
Qed.

Lemma repr_iff c v l : repr c v l <-> inv c v /\ elems v = l.
Proof.
  split; [apply repr_inv|]. intros (Hi & <-). apply inv_repr. exact Hi.
Qed.

Lemma elems_len c v : inv c v -> len (elems v) = sz v.
Proof. intros (Hl & Hs). unfold len, elems, szn. rewrite firstn_length. lia. Qed.

Lemma repr_len c v l : repr c v l -> len l <= Z.of_nat c.
Proof. intros (rest & Hb & Hs & Hc). rewrite Hb, app_length in Hc. unfold len. lia. Qed.

Lemma repr_cap c v l : repr c v l -> cap v = Z.of_nat c.
Proof. intros (rest & Hb & Hs & Hc). unfold cap. rewrite Hc. reflexivity. Qed.

Lemma okr_safe c r l : okr c r l -> safe c r.
Proof. intros (v' & -> & H). cbn [safe]. apply repr_inv in H. apply H. Qed.

Lemma empty_repr c : repr c (empty_vec c) [].
Proof.
  exists (repeat 0 c). cbn [empty_vec buf sz app]. repeat split. apply repeat_length.
Qed.

Lemma empty_inv c : inv c (empty_vec c).
Proof. apply (repr_inv c _ []), empty_repr. Qed.

Lemma empty_elems c : elems (empty_vec c) = [].
Proof. apply (repr_inv c _ []), empty_repr. Qed.

(** * set_size *)
Lemma set_size_ok c b s n : length b = c -> cap_ok c -> 0 <= n <= Z.of_nat c ->
  set_size {| buf := b; sz := s |} n = Ok {| buf := b; sz := n |}.
Proof.
  intros Hb Hc Hn. unfold set_size, cap. cbn [buf sz]. rewrite Hb.
  rewrite leb_t by lia. rewrite size_fits by (auto using cap_ok_64). reflexivity.
Qed.

Lemma set_size_contract v n : cap v < n -> set_size v n = Contract.
Proof. intros H. unfold set_size. rewrite leb_f by lia. reflexivity. Qed.

(* shrinking / growing inside the represented storage *)
Lemma set_size_repr c b s l rest : cap_ok c -> b = l ++ rest -> length b = c ->
  okr c (set_size {| buf := b; sz := s |} (len l)) l.
Proof.
  intros Hc Hb Hl. rewrite (set_size_ok c) by (auto; subst b; rewrite app_length in Hl; unfold len; lia).
  eexists; split; [reflexivity|]. exists rest. cbn [buf sz]. auto.
Qed.

(** * emplace_back / push_back *)
Lemma emplace_back_ok c v l x : cap_ok c -> repr c v l -> len l < Z.of_nat c ->
  okr c (emplace_back v x) (l ++ [x]).
Proof.
  intros Hc (rest & Hb & Hs & Hl) Hlt. destruct v as [b s]. cbn [buf sz] in *. subst s.
  unfold emplace_back, full, index_ok, cap, szn. cbn [buf sz]. rewrite Hl.
  assert (H64 := cap_ok_64 c Hc). pose proof (len_nonneg l) as Hn.
  rewrite eqb_f by lia. rewrite wrapu64_small by lia. rewrite ltb_t by lia. cbn [negb].
  destruct rest as [|r rest'].
  { rewrite app_nil_r in Hb. subst b. unfold len in Hlt. lia. }
  rewrite Hb. rewrite oset_mid' by apply to_nat_len. cbn [rbind].
  replace (len l + 1) with (len (l ++ [x])) by (rewrite len_app; reflexivity).
  apply (set_size_repr c _ _ _ rest'); auto.
  - rewrite <- app_assoc. reflexivity.
  - rewrite <- Hl, Hb, !app_length. reflexivity.
Qed.

Lemma emplace_back_contract c v l x : repr c v l -> len l = Z.of_nat c -> emplace_back v x = Contract.
Proof.
  intros (rest & Hb & Hs & Hl) He. unfold emplace_back, full, cap. rewrite Hl, Hs.
  rewrite eqb_t by lia. reflexivity.
Qed.

Lemma push_back_ok c v l x : cap_ok c -> repr c v l -> len l < Z.of_nat c ->
  okr c (push_back v x) (l ++ [x]).
Proof.
  intros Hc Hr Hlt. unfold push_back, full. pose proof Hr as (rest & Hb & Hs & Hl).
  unfold cap. rewrite Hl, Hs, eqb_f by lia. apply emplace_back_ok; auto.
Qed.

Lemma push_back_contract c v l x : repr c v l -> len l = Z.of_nat c -> push_back v x = Contract.
Proof.
  intros (rest & Hb & Hs & Hl) He. unfold push_back, full, cap. rewrite Hl, Hs.
  rewrite eqb_t by lia. reflexivity.
Qed.

(** * pop_back *)
Lemma removelast_len (l : list Z) : l <> [] -> len (removelast l) = len l - 1.
Proof.
  intros H. rewrite (app_removelast_last 0 H) at 2. rewrite len_app. unfold len. cbn [length]. lia.
Qed.

Lemma pop_back_ok c v l : cap_ok c -> repr c v l -> 0 < len l -> okr c (pop_back v) (removelast l).
Proof.
  intros Hc (rest & Hb & Hs & Hl) Hlt. destruct v as [b s]. cbn [buf sz] in *. subst s.
  unfold pop_back, is_empty. cbn [sz]. rewrite eqb_f by lia.
  assert (Hne : l <> []) by (intros ->; unfold len in Hlt; cbn in Hlt; lia).
  rewrite <- removelast_len by exact Hne.
  apply (set_size_repr c _ _ _ ([last l 0] ++ rest)); auto.
  rewrite app_assoc, <- app_removelast_last by exact Hne. exact Hb.
Qed.

Lemma pop_back_contract c v l : repr c v l -> len l = 0 -> pop_back v = Contract.
Proof.
  intros (rest & Hb & Hs & Hl) He. unfold pop_back, is_empty. rewrite Hs, eqb_t by lia. reflexivity.
Qed.

(** * clear *)
Lemma clear_ok c v l : cap_ok c -> repr c v l -> okr c (clear v) [].
Proof.
  intros Hc (rest & Hb & Hs & Hl). destruct v as [b s]. cbn [buf sz] in *. unfold clear.
  change 0 with (len []). apply (set_size_repr c _ _ _ b); auto.
Qed.

(** * emplace_all / push_n *)
Lemma emplace_all_ok c : cap_ok c -> forall xs v l, repr c v l -> len l + len xs <= Z.of_nat c ->
  okr c (emplace_all v xs) (l ++ xs).
Proof.
  intros Hc. induction xs as [|x t IH]; intros v l Hr Hfit; cbn [emplace_all].
  - rewrite app_nil_r. exists v. auto.
  - unfold len in Hfit. cbn [length] in Hfit.
    destruct (emplace_back_ok c v l x Hc Hr) as (v' & -> & Hr'); [unfold len; lia|].
    cbn [rbind]. replace (l ++ x :: t) with ((l ++ [x]) ++ t) by (rewrite <- app_assoc; reflexivity).
    apply IH; [exact Hr'|]. rewrite len_app. unfold len. cbn [length]. lia.
Qed.

Lemma emplace_all_contract c : cap_ok c -> forall xs v l, repr c v l -> Z.of_nat c < len l + len xs ->
  emplace_all v xs = Contract.
Proof.
  intros Hc. induction xs as [|x t IH]; intros v l Hr Hfit; cbn [emplace_all].
  - pose proof (repr_len _ _ _ Hr). unfold len in *. cbn [length] in Hfit. lia.
  - pose proof (repr_len _ _ _ Hr) as Hle.
    destruct (Z.eq_dec (len l) (Z.of_nat c)) as [E|E].
    + rewrite (emplace_back_contract c v l x Hr E). reflexivity.
    + destruct (emplace_back_ok c v l x Hc Hr) as (v' & -> & Hr'); [lia|]. cbn [rbind].
      apply (IH v' (l ++ [x]) Hr'). rewrite len_app. unfold len in *. cbn [length] in *. lia.
Qed.

Lemma push_n_ok c : cap_ok c -> forall k v l x, repr c v l -> len l + Z.of_nat k <= Z.of_nat c ->
  okr c (push_n k v x) (l ++ repeat x k).
Proof.
  intros Hc. induction k as [|k IH]; intros v l x Hr Hfit; cbn [push_n repeat].
  - rewrite app_nil_r. exists v. auto.
  - destruct (push_back_ok c v l x Hc Hr) as (v' & -> & Hr'); [lia|].
    cbn [rbind]. replace (l ++ x :: repeat x k) with ((l ++ [x]) ++ repeat x k)
      by (rewrite <- app_assoc; reflexivity).
    apply IH; [exact Hr'|]. rewrite len_app. unfold len in *. cbn [length]. lia.
Qed.

Lemma push_n_contract c : cap_ok c -> forall k v l x, repr c v l -> Z.of_nat c < len l + Z.of_nat k ->
  push_n k v x = Contract.
Proof.
  intros Hc. induction k as [|k IH]; intros v l x Hr Hfit; cbn [push_n].
  - pose proof (repr_len _ _ _ Hr). lia.
  - pose proof (repr_len _ _ _ Hr) as Hle.
    destruct (Z.eq_dec (len l) (Z.of_nat c)) as [E|E].
    + rewrite (push_back_contract c v l x Hr E). reflexivity.
    + destruct (push_back_ok c v l x Hc Hr) as (v' & -> & Hr'); [lia|]. cbn [rbind].
      apply (IH v' (l ++ [x]) x Hr'). rewrite len_app. unfold len in *. cbn [length] in *. lia.
Qed.

(** * element access *)
Lemma nth_error_nth_Z (l : list Z) i : (i < length l)%nat -> nth_error l i = Some (nth i l 0).
Proof. intros H. apply nth_error_nth'. exact H. Qed.

Lemma oget_repr c v l i : repr c v l -> (i < length l)%nat -> oget (buf v) i = Ok (nth i l 0).
Proof.
  intros (rest & Hb & Hs & Hl) Hi. unfold oget, get. rewrite Hb, nth_error_app1 by exact Hi.
  rewrite nth_error_nth_Z by exact Hi. reflexivity.
Qed.

(* all arguments: the guard is  size_t(i) < size(); below it the access is inside the live range
   provided i is (the two's-complement reading of) a size_t value, i.e. i < 2^64 *)
Lemma at_index_ok c v l i : repr c v l -> wrapu 64 i < len l -> i < 2 ^ 64 ->
  at_index v i = Ok (nth (Z.to_nat i) l 0).
Proof.
  intros Hr Hw Hi. unfold at_index, index_ok.
  pose proof Hr as (rest & Hb & Hs & Hl). rewrite Hs, ltb_t by lia. cbn [negb].
  apply (oget_repr c); [exact Hr|].
  destruct (Z.ltb_spec i 0) as [Hneg|Hpos].
  - pose proof (wrapu64_range i). unfold len in Hw. lia.
  - rewrite wrapu64_small in Hw by lia. unfold len in Hw. lia.
Qed.

Lemma at_index_contract c v l i : repr c v l -> len l <= wrapu 64 i -> at_index v i = Contract.
Proof.
  intros (rest & Hb & Hs & Hl) Hw. unfold at_index, index_ok. rewrite Hs, ltb_f by lia. reflexivity.
Qed.

Lemma front_ok c v l : repr c v l -> 0 < len l -> front v = Ok (nth 0 l 0).
Proof.
  intros Hr Hl. unfold front. rewrite (at_index_ok c v l 0 Hr); [reflexivity| |rewrite pow64; lia].
  rewrite wrapu64_small by (rewrite pow64; lia). exact Hl.
Qed.

Lemma front_contract c v l : repr c v l -> len l = 0 -> front v = Contract.
Proof.
  intros Hr Hl. unfold front. apply (at_index_contract c v l 0 Hr).
  rewrite wrapu64_small by (rewrite pow64; lia). lia.
Qed.

Lemma last_nth (l : list Z) : l <> [] -> nth (length l - 1) l 0 = last l 0.
Proof.
  intros H. rewrite (app_removelast_last 0 H) at 1 2. rewrite app_length. cbn [length].
  replace (length (removelast l) + 1 - 1)%nat with (length (removelast l)) by lia.
  apply nth_middle.
Qed.

Lemma back_ok c v l : cap_ok c -> repr c v l -> 0 < len l -> back v = Ok (last l 0).
Proof.
  intros Hc Hr Hl. unfold back, is_empty. pose proof (repr_len _ _ _ Hr) as Hle.
  assert (H64 := cap_ok_64 c Hc).
  pose proof Hr as (rest & Hb & Hs & Hlb). rewrite Hs, eqb_f by lia.
  assert (Hw : wrapu 64 (len l - 1) = len l - 1) by (apply wrapu64_small; lia).
  rewrite Hw. rewrite (at_index_ok c v l); [|exact Hr|rewrite Hw; lia|lia].
  f_equal. replace (Z.to_nat (len l - 1)) with (length l - 1)%nat by (unfold len; lia).
  apply last_nth. intros ->. unfold len in Hl. cbn in Hl. lia.
Qed.

Lemma back_contract c v l : repr c v l -> len l = 0 -> back v = Contract.
Proof.
  intros (rest & Hb & Hs & Hlb) Hl. unfold back, is_empty. rewrite Hs, eqb_t by lia. reflexivity.
Qed.

(** * relations *)
Lemma list_eqb_cmp : forall a b, list_eqb a b = match lex_cmp a b with Eq => true | _ => false end.
Proof.
  induction a as [|x s IH]; destruct b as [|y t]; cbn [list_eqb lex_cmp]; try reflexivity.
  destruct (Z.compare_spec x y) as [E|E|E].
  - rewrite eqb_t by lia. cbn [andb]. apply IH.
  - rewrite eqb_f by lia. reflexivity.
  - rewrite eqb_f by lia. reflexivity.
Qed.

Lemma lex_lt_cmp : forall a b, lex_lt a b = match lex_cmp a b with Lt => true | _ => false end.
Proof.
  induction a as [|x s IH]; destruct b as [|y t]; cbn [lex_lt lex_cmp]; try reflexivity.
  destruct (Z.compare_spec x y) as [E|E|E].
  - rewrite !ltb_f by lia. apply IH.
  - rewrite ltb_t by lia. reflexivity.
  - rewrite ltb_f by lia. rewrite ltb_t by lia. reflexivity.
Qed.

Lemma lex_cmp_opp : forall a b, lex_cmp b a = CompOpp (lex_cmp a b).
Proof.
  induction a as [|x s IH]; destruct b as [|y t]; cbn [lex_cmp CompOpp]; try reflexivity.
  rewrite (Z.compare_antisym x y). destruct (x ?= y); cbn [CompOpp]; auto.
Qed.

Lemma lex_cmp_eq_len : forall a b, lex_cmp a b = Eq -> length a = length b.
Proof.
  induction a as [|x s IH]; destruct b as [|y t]; cbn [lex_cmp length]; try discriminate; auto.
  destruct (x ?= y); try discriminate. intros H. f_equal. auto.
Qed.

Lemma relations_ok c a b : inv c a -> inv c b ->
  relations a b = spec_relations (elems a) (elems b).
Proof.
  intros Ha Hb. unfold relations, spec_relations, vec_eq, vec_lt.
  rewrite <- (elems_len c a Ha), <- (elems_len c b Hb).
  rewrite list_eqb_cmp, !lex_lt_cmp, (lex_cmp_opp (elems a) (elems b)).
  destruct (lex_cmp (elems a) (elems b)) eqn:E; cbn [CompOpp negb andb]; try rewrite andb_false_r; try reflexivity.
  apply lex_cmp_eq_len in E. unfold len. rewrite E, Z.eqb_refl. reflexivity.
Qed.

Lemma list_eqb_refl : forall a, list_eqb a a = true.
Proof. induction a as [|x s IH]; cbn [list_eqb]; [reflexivity|]. rewrite Z.eqb_refl. exact IH. Qed.

(** * observation *)
Lemma observe_ok c s : inv c (fst s) -> inv c (snd s) -> observe s = spec_observe (Z.of_nat c) (abs s).
Proof.
  intros Ha Hb. unfold observe, spec_observe, abs, is_empty, full, cap. cbn [fst snd].
  fold (len (elems (fst s))). fold (len (elems (snd s))).
  rewrite (elems_len c _ Ha), (elems_len c _ Hb).
  destruct Ha as (-> & _). destruct Hb as (Hb & _). rewrite Hb. reflexivity.
Qed.

(** * two-vector state plumbing *)
Lemma sel_abs t s : elems (sel t s) = ssel t (abs s).
Proof. destruct t; reflexivity. Qed.

Lemma sel_inv c t s : inv c (fst s) -> inv c (snd s) -> inv c (sel t s).
Proof. destruct t; auto. Qed.

Lemma upd_abs t s v : abs (upd t s v) = supd t (abs s) (elems v).
Proof. destruct t; reflexivity. Qed.

Lemma upd_inv c t s v : inv c (fst s) -> inv c (snd s) -> inv c v ->
  inv c (fst (upd t s v)) /\ inv c (snd (upd t s v)).
Proof. destruct t; cbn [upd fst snd]; auto. Qed.

Lemma sel_repr c t s : inv c (fst s) -> inv c (snd s) -> repr c (sel t s) (ssel t (abs s)).
Proof. intros Ha Hb. rewrite <- sel_abs. apply inv_repr, sel_inv; auto. Qed.
