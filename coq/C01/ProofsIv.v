(* C01 proofs, part 6: inplace_vector (try_push_back / unchecked_push_back / pop_back / clear /
   operator[] / front / back / copy and move construction) against the same list specification. *)
From Tetl Require Import Lib.Base Lib.Arr C06a.Model C06a.P1_Common.
From Tetl Require Import C01.Model C01.Spec C01.ProofsBase C01.ProofsStep.
From Coq Require Import Arith Lia.
Ltac Zify.zify_post_hook ::= Z.to_euclidean_division_equations.
Local Open Scope Z_scope.

(* iv_spec_step written with the selectors of Spec.v *)
Lemma iv_spec_step_eq capacity S o :
  iv_spec_step capacity S o =
  match o with
  | IvTryPush t x => if len (ssel t S) <? capacity then Some (supd t S (ssel t S ++ [x]), [1]) else Some (S, [0])
  | IvUncheckedPush t x => if len (ssel t S) <? capacity then Some (supd t S (ssel t S ++ [x]), []) else None
  | IvPop t => if 0 <? len (ssel t S) then Some (supd t S (removelast (ssel t S)), []) else None
  | IvClear t => Some (supd t S [], [])
  | IvAt t i => if (0 <=? i) && (i <? len (ssel t S)) then Some (S, [nth (Z.to_nat i) (ssel t S) 0]) else None
  | IvFront t => if 0 <? len (ssel t S) then Some (S, [nth 0 (ssel t S) 0]) else None
  | IvBack t => if 0 <? len (ssel t S) then Some (S, [last (ssel t S) 0]) else None
  | IvCopyConstruct t => Some (S, len (ssel t S) :: ssel t S)
  | IvMoveConstruct t => Some (supd t S [], len (ssel t S) :: ssel t S)
  end.
Proof. destruct o; reflexivity. Qed.

(* outputs of an inplace_vector history on the list specification (the twin of Spec.spec_run) *)
Fixpoint iv_spec_run (capacity : Z) (S : list Z * list Z) (ops : list iv_op)
  : option (list (list Z * list Z)) :=
  match ops with
  | [] => Some []
  | o :: rest =>
      match iv_spec_step capacity S o with
      | None => None
      | Some (S', out) =>
          match iv_spec_run capacity S' rest with
          | Some r => Some ((out, spec_observe capacity S') :: r)
          | None => None
          end
      end
  end.

Definition iv_at_arg_ok (o : iv_op) : Prop :=
  match o with IvAt _ i => i < 2 ^ 64 | _ => True end.
Definition iv_size_args_ok (o : iv_op) : Prop :=
  match o with IvAt _ i => - 2 ^ 63 <= i < 2 ^ 64 | _ => True end.

Section Iv.
Variable c : nat.
Hypothesis Hc : cap_ok c.

(** * the operations *)
Lemma append_ok b s l rest x : b = l ++ rest -> length b = c -> len l < Z.of_nat c ->
  exists b', oset b (Z.to_nat (len l)) x = Ok b' /\
             okr c (set_size {| buf := b'; sz := s |} (len l + 1)) (l ++ [x]).
Proof.
  intros Hb Hl Hlt. destruct rest as [|r rest'].
  { rewrite app_nil_r in Hb. subst b. unfold len in Hlt. lia. }
  exists (l ++ x :: rest'). split.
  - rewrite Hb. apply oset_mid'. apply to_nat_len.
  - replace (len l + 1) with (len (l ++ [x])) by (rewrite len_app; reflexivity).
    apply (set_size_repr c _ _ _ rest'); auto.
    + rewrite <- app_assoc. reflexivity.
    + rewrite <- Hl, Hb, !app_length. reflexivity.
Qed.

Lemma iv_try_push_ok v l x : repr c v l -> len l < Z.of_nat c ->
  exists v', iv_try_push_back v x = Ok (v', true) /\ repr c v' (l ++ [x]).
Proof.
  intros Hr Hlt. pose proof Hr as (rest & Hb & Hs & Hl).
  unfold iv_try_push_back, szn. rewrite (repr_cap _ _ _ Hr), Hs, eqb_f by lia.
  destruct (append_ok (buf v) (len l) l rest x Hb Hl Hlt) as (b' & Hb' & (v' & Hv1 & Hv')).
  rewrite Hb'. cbn [rbind]. rewrite Hv1. cbn [rbind]. exists v'. auto.
Qed.

Lemma iv_try_push_full v l x : repr c v l -> len l = Z.of_nat c ->
  iv_try_push_back v x = Ok (v, false).
Proof.
  intros Hr He. pose proof Hr as (rest & Hb & Hs & Hl).
  unfold iv_try_push_back. rewrite (repr_cap _ _ _ Hr), Hs, eqb_t by lia. reflexivity.
Qed.

Lemma iv_unchecked_push_ok v l x : repr c v l -> len l < Z.of_nat c ->
  okr c (iv_unchecked_push_back v x) (l ++ [x]).
Proof.
  intros Hr Hlt. pose proof Hr as (rest & Hb & Hs & Hl). pose proof (len_nonneg l).
  unfold iv_unchecked_push_back, szn. rewrite (repr_cap _ _ _ Hr), Hs, !eqb_f by lia.
  destruct (append_ok (buf v) (len l) l rest x Hb Hl Hlt) as (b' & -> & Hok).
  cbn [rbind]. exact Hok.
Qed.

Lemma iv_unchecked_push_contract v l x : repr c v l -> len l = Z.of_nat c ->
  iv_unchecked_push_back v x = Contract.
Proof.
  intros Hr He. pose proof Hr as (rest & Hb & Hs & Hl).
  unfold iv_unchecked_push_back. rewrite (repr_cap _ _ _ Hr), Hs.
  destruct (Z.of_nat c =? 0); [reflexivity|]. rewrite eqb_t by lia. reflexivity.
Qed.

Lemma iv_pop_ok v l : repr c v l -> 0 < len l -> okr c (iv_pop_back v) (removelast l).
Proof.
  intros Hr Hlt. pose proof (repr_len _ _ _ Hr).
  unfold iv_pop_back. rewrite (repr_cap _ _ _ Hr), eqb_f by lia.
  apply (pop_back_ok c v l Hc Hr Hlt).
Qed.

Lemma iv_pop_contract v l : repr c v l -> len l = 0 -> iv_pop_back v = Contract.
Proof.
  intros Hr He. unfold iv_pop_back. destruct (cap v =? 0); [reflexivity|].
  apply (pop_back_contract c v l Hr He).
Qed.

Lemma iv_at_ok v l i : repr c v l -> wrapu 64 i < len l -> i < 2 ^ 64 ->
  iv_at v i = Ok (nth (Z.to_nat i) l 0).
Proof.
  intros Hr Hw Hi. pose proof (repr_len _ _ _ Hr). pose proof (wrapu64_range i).
  pose proof (at_index_ok c v l i Hr Hw Hi) as Hat. unfold at_index, index_ok in Hat.
  unfold iv_at. rewrite (repr_cap _ _ _ Hr), eqb_f by lia. exact Hat.
Qed.

Lemma iv_at_contract v l i : repr c v l -> len l <= wrapu 64 i -> iv_at v i = Contract.
Proof.
  intros Hr Hw. pose proof Hr as (rest & Hb & Hs & Hl). unfold iv_at.
  destruct (cap v =? 0); [reflexivity|]. rewrite Hs, ltb_f by lia. reflexivity.
Qed.

Lemma iv_front_ok v l : repr c v l -> 0 < len l -> iv_front v = Ok (nth 0 l 0).
Proof.
  intros Hr Hlt. pose proof Hr as (rest & Hb & Hs & Hl). pose proof (repr_len _ _ _ Hr).
  unfold iv_front, is_empty. rewrite (repr_cap _ _ _ Hr), Hs, !eqb_f by lia.
  apply (oget_repr c v l 0 Hr). unfold len in Hlt. lia.
Qed.

Lemma iv_front_contract v l : repr c v l -> len l = 0 -> iv_front v = Contract.
Proof.
  intros Hr He. pose proof Hr as (rest & Hb & Hs & Hl). unfold iv_front, is_empty.
  destruct (cap v =? 0); [reflexivity|]. rewrite Hs, eqb_t by lia. reflexivity.
Qed.

Lemma iv_back_ok v l : repr c v l -> 0 < len l -> iv_back v = Ok (last l 0).
Proof.
  intros Hr Hlt. pose proof Hr as (rest & Hb & Hs & Hl). pose proof (repr_len _ _ _ Hr).
  unfold iv_back, is_empty. rewrite (repr_cap _ _ _ Hr), Hs, !eqb_f by lia.
  replace (Z.to_nat (len l - 1)) with (length l - 1)%nat by (unfold len; lia).
  rewrite (oget_repr c v l _ Hr) by (unfold len in Hlt; lia).
  f_equal. apply last_nth. intros ->. unfold len in Hlt. cbn in Hlt. lia.
Qed.

Lemma iv_back_contract v l : repr c v l -> len l = 0 -> iv_back v = Contract.
Proof.
  intros Hr He. pose proof Hr as (rest & Hb & Hs & Hl). unfold iv_back, is_empty.
  destruct (cap v =? 0); [reflexivity|]. rewrite Hs, eqb_t by lia. reflexivity.
Qed.

Lemma iv_copy_construct_repr o L : repr c o L -> repr c (iv_copy_construct o) L.
Proof.
  intros Hr. pose proof Hr as (rest & Hb & Hs & Hl). pose proof (repr_len _ _ _ Hr) as Hle.
  assert (He : elems o = L) by apply (repr_inv c), Hr.
  unfold iv_copy_construct. rewrite He. eexists. cbn [buf sz]. split; [reflexivity|]. split; [exact Hs|].
  rewrite app_length, repeat_length, Hl. unfold szn. rewrite Hs, to_nat_len. unfold len in Hle. lia.
Qed.

Lemma moved_from_repr o L : repr c o L -> repr c {| buf := buf o; sz := 0 |} [].
Proof. intros (rest & Hb & Hs & Hl). exists (buf o). cbn [buf sz app]. auto. Qed.

(** * one-step refinement *)
Definition iv_refines_at (s : vec * vec) (o : iv_op) : Prop :=
  inv c (fst s) -> inv c (snd s) -> forall s1 out,
  iv_spec_step (Z.of_nat c) (abs s) o = Some (s1, out) ->
  exists s', iv_step s o = Ok (s', out) /\ abs s' = s1 /\ inv c (fst s') /\ inv c (snd s')
             /\ observe s' = spec_observe (Z.of_nat c) s1.

Lemma upd_step s t v' l' : inv c (fst s) -> inv c (snd s) -> repr c v' l' ->
  abs (upd t s v') = supd t (abs s) l' /\ inv c (fst (upd t s v')) /\ inv c (snd (upd t s v'))
  /\ observe (upd t s v') = spec_observe (Z.of_nat c) (supd t (abs s) l').
Proof.
  intros Ha Hb Hr. apply repr_inv in Hr as (Hi & He).
  destruct (upd_inv c t s v' Ha Hb Hi). apply fin; auto. rewrite upd_abs, He. reflexivity.
Qed.

Theorem iv_step_refines : forall s o, iv_refines_at s o.
Proof.
  intros s o Ha Hb s1 out H. rewrite iv_spec_step_eq in H.
  destruct o as [t x|t x|t|t|t i|t|t|t|t]; cbv beta iota in H; cbn [iv_step];
    pose proof (sel_repr c t s Ha Hb) as Hr; pose proof (repr_len _ _ _ Hr) as Hle;
    pose proof (len_nonneg (ssel t (abs s))) as Hnn.
  - (* try_push_back *)
    destruct (Z.ltb_spec (len (ssel t (abs s))) (Z.of_nat c)) as [Hlt|Hge]; injection H as <- <-.
    + destruct (iv_try_push_ok _ _ x Hr Hlt) as (v' & -> & Hv'). cbn [rbind fst snd b2z].
      eexists. split; [reflexivity|]. apply upd_step; auto.
    + rewrite (iv_try_push_full _ _ x Hr) by lia. cbn [rbind fst snd b2z]. rewrite upd_sel.
      exists s. split; [reflexivity|]. apply fin; auto.
  - (* unchecked_push_back *)
    destruct (Z.ltb_spec (len (ssel t (abs s))) (Z.of_nat c)) as [Hlt|Hge]; [|discriminate].
    injection H as <- <-. destruct (iv_unchecked_push_ok _ _ x Hr Hlt) as (v' & -> & Hv').
    cbn [rbind]. eexists. split; [reflexivity|]. apply upd_step; auto.
  - (* pop_back *)
    destruct (Z.ltb_spec 0 (len (ssel t (abs s)))) as [Hlt|Hge]; [|discriminate].
    injection H as <- <-. destruct (iv_pop_ok _ _ Hr Hlt) as (v' & -> & Hv').
    cbn [rbind]. eexists. split; [reflexivity|]. apply upd_step; auto.
  - (* clear *)
    injection H as <- <-. destruct (clear_ok c _ _ Hc Hr) as (v' & -> & Hv').
    cbn [rbind]. eexists. split; [reflexivity|]. apply upd_step; auto.
  - (* operator[] *)
    destruct ((0 <=? i) && (i <? len (ssel t (abs s)))) eqn:Hpre; [|discriminate].
    injection H as <- <-. b2p Hpre. assert (H64 := cap_ok_64 c Hc).
    rewrite (iv_at_ok _ _ i Hr); [|rewrite wrapu64_small by lia; lia|lia].
    cbn [rbind]. exists s. split; [reflexivity|]. apply fin; auto.
  - (* front *)
    destruct (Z.ltb_spec 0 (len (ssel t (abs s)))) as [Hlt|Hge]; [|discriminate].
    injection H as <- <-. rewrite (iv_front_ok _ _ Hr Hlt).
    cbn [rbind]. exists s. split; [reflexivity|]. apply fin; auto.
  - (* back *)
    destruct (Z.ltb_spec 0 (len (ssel t (abs s)))) as [Hlt|Hge]; [|discriminate].
    injection H as <- <-. rewrite (iv_back_ok _ _ Hr Hlt).
    cbn [rbind]. exists s. split; [reflexivity|]. apply fin; auto.
  - (* copy construction *)
    injection H as <- <-. pose proof (iv_copy_construct_repr _ _ Hr) as Hcc.
    apply repr_inv in Hcc as (Hic & Hec).
    assert (Hsz : sz (iv_copy_construct (sel t s)) = len (ssel t (abs s))).
    { rewrite <- Hec. symmetry. apply (elems_len c), Hic. }
    rewrite Hsz, Hec. exists s. split; [reflexivity|]. apply fin; auto.
  - (* move construction *)
    injection H as <- <-. pose proof (iv_copy_construct_repr _ _ Hr) as Hcc.
    apply repr_inv in Hcc as (Hic & Hec). cbn [iv_move_construct fst snd].
    assert (Hsz : sz (iv_copy_construct (sel t s)) = len (ssel t (abs s))).
    { rewrite <- Hec. symmetry. apply (elems_len c), Hic. }
    rewrite Hsz, Hec. eexists. split; [reflexivity|]. apply upd_step; auto.
    apply (moved_from_repr _ _ Hr).
Qed.

Theorem iv_run_refines : forall ops s outs, inv c (fst s) -> inv c (snd s) ->
  iv_spec_run (Z.of_nat c) (abs s) ops = Some outs ->
  iv_run s ops = map Ok outs.
Proof.
  induction ops as [|o rest IH]; intros s outs Ha Hb H; cbn [iv_run iv_spec_run] in *.
  - injection H as <-. reflexivity.
  - destruct (iv_spec_step (Z.of_nat c) (abs s) o) as [[s1 out]|] eqn:E; [|discriminate].
    destruct (iv_step_refines s o Ha Hb s1 out E) as (s' & -> & Habs & Ha' & Hb' & Hobs).
    destruct (iv_spec_run (Z.of_nat c) s1 rest) as [r|] eqn:Er; [|discriminate].
    injection H as <-. cbn [map]. rewrite Hobs. f_equal. apply IH; auto. rewrite Habs. exact Er.
Qed.

(** * try_push_back on a full vector: null, nothing changes *)
Theorem iv_try_push_back_full_step : forall s t x, inv c (fst s) -> inv c (snd s) ->
  sz (sel t s) = Z.of_nat c -> iv_step s (IvTryPush t x) = Ok (s, [0]).
Proof.
  intros s t x Ha Hb Hfull. pose proof (sel_repr c t s Ha Hb) as Hr.
  cbn [iv_step]. rewrite (iv_try_push_full _ _ x Hr).
  - cbn [rbind fst snd b2z]. rewrite upd_sel. reflexivity.
  - rewrite <- Hfull. rewrite <- sel_abs. apply (elems_len c), sel_inv; auto.
Qed.

(** * safety and contract exactness *)
Theorem iv_step_safe : forall s o, inv c (fst s) -> inv c (snd s) -> iv_at_arg_ok o ->
  safe_step c (iv_step s o).
Proof.
  intros s o Ha Hb Harg.
  destruct o as [t x|t x|t|t|t i|t|t|t|t]; cbn [iv_step];
    pose proof (sel_repr c t s Ha Hb) as Hr; pose proof (repr_len _ _ _ Hr) as Hle;
    pose proof (len_nonneg (ssel t (abs s))) as Hnn.
  - destruct (Z.eq_dec (len (ssel t (abs s))) (Z.of_nat c)) as [E|E].
    + rewrite (iv_try_push_full _ _ x Hr E). cbn [rbind fst snd safe_step]. rewrite upd_sel. auto.
    + destruct (iv_try_push_ok _ _ x Hr) as (v' & -> & Hv'); [lia|]. cbn [rbind fst snd safe_step].
      apply upd_inv; auto. apply (repr_inv c _ _ Hv').
  - apply mut_safe; auto. destruct (Z.eq_dec (len (ssel t (abs s))) (Z.of_nat c)) as [E|E].
    + rewrite (iv_unchecked_push_contract _ _ x Hr E). exact I.
    + eapply okr_safe, iv_unchecked_push_ok; eauto. lia.
  - apply mut_safe; auto. destruct (Z.eq_dec (len (ssel t (abs s))) 0) as [E|E].
    + rewrite (iv_pop_contract _ _ Hr E). exact I.
    + eapply okr_safe, iv_pop_ok; eauto. lia.
  - apply mut_safe; auto. eapply okr_safe, clear_ok; eauto.
  - apply val_safe; auto. cbn [iv_at_arg_ok] in Harg.
    destruct (Z_lt_le_dec (wrapu 64 i) (len (ssel t (abs s)))) as [E|E].
    + rewrite (iv_at_ok _ _ i Hr E Harg). exact I.
    + rewrite (iv_at_contract _ _ i Hr E). exact I.
  - apply val_safe; auto. destruct (Z.eq_dec (len (ssel t (abs s))) 0) as [E|E].
    + rewrite (iv_front_contract _ _ Hr E). exact I.
    + rewrite (iv_front_ok _ _ Hr) by lia. exact I.
  - apply val_safe; auto. destruct (Z.eq_dec (len (ssel t (abs s))) 0) as [E|E].
    + rewrite (iv_back_contract _ _ Hr E). exact I.
    + rewrite (iv_back_ok _ _ Hr) by lia. exact I.
  - cbn [safe_step]. auto.
  - cbn [safe_step iv_move_construct snd]. apply upd_inv; auto.
    apply (repr_inv c _ []), (moved_from_repr _ _ Hr).
Qed.

Theorem iv_step_no_ub : forall s o, inv c (fst s) -> inv c (snd s) -> iv_at_arg_ok o ->
  (forall k, iv_step s o <> UB k) /\ iv_step s o <> OutOfFuel.
Proof.
  intros s o Ha Hb Harg. pose proof (iv_step_safe s o Ha Hb Harg) as H.
  destruct (iv_step s o); cbn [safe_step] in H; try contradiction; split; intros; discriminate.
Qed.

Theorem iv_step_contract_fires : forall s o, inv c (fst s) -> inv c (snd s) -> iv_size_args_ok o ->
  iv_spec_step (Z.of_nat c) (abs s) o = None -> iv_step s o = Contract.
Proof.
  intros s o Ha Hb Harg H. rewrite iv_spec_step_eq in H.
  assert (H64 := cap_ok_64 c Hc). pose proof Hc as Hc63. unfold cap_ok in Hc63. rewrite pow63 in *. rewrite pow64 in *.
  destruct o as [t x|t x|t|t|t i|t|t|t|t]; cbv beta iota in H; cbn [iv_step];
    pose proof (sel_repr c t s Ha Hb) as Hr; pose proof (repr_len _ _ _ Hr) as Hle;
    pose proof (len_nonneg (ssel t (abs s))) as Hnn; try discriminate H.
  - destruct (len (ssel t (abs s)) <? Z.of_nat c); discriminate H.
  - destruct (Z.ltb_spec (len (ssel t (abs s))) (Z.of_nat c)) as [Hlt|Hge]; [discriminate|].
    rewrite (iv_unchecked_push_contract _ _ x Hr) by lia. reflexivity.
  - destruct (Z.ltb_spec 0 (len (ssel t (abs s)))) as [Hlt|Hge]; [discriminate|].
    rewrite (iv_pop_contract _ _ Hr) by lia. reflexivity.
  - destruct ((0 <=? i) && (i <? len (ssel t (abs s)))) eqn:Hpre; [discriminate|]. b2p Hpre.
    cbn [iv_size_args_ok] in Harg. rewrite (iv_at_contract _ _ i Hr); [reflexivity|].
    destruct (Z_lt_le_dec i 0) as [Hn|Hn].
    + rewrite wrapu64_neg by (rewrite pow64; lia). rewrite pow64. lia.
    + rewrite wrapu64_small by (rewrite pow64; lia). lia.
  - destruct (Z.ltb_spec 0 (len (ssel t (abs s)))) as [Hlt|Hge]; [discriminate|].
    rewrite (iv_front_contract _ _ Hr) by lia. reflexivity.
  - destruct (Z.ltb_spec 0 (len (ssel t (abs s)))) as [Hlt|Hge]; [discriminate|].
    rewrite (iv_back_contract _ _ Hr) by lia. reflexivity.
Qed.

End Iv.
