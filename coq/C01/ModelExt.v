(* C01 model, second part (the first part, C01/Model.v, is required by C02/C03/C05/C09 and stays as it is).
   Brought inside the model here:
     static_vector   reverse iterators (rbegin/rend, their const forms, crbegin/crend), cbegin/cend, data(),
                     writes through the references returned by operator[] / front() / back(), max_size()/capacity(),
                     the non-member swap, self move-assignment, the public move_insert(pos, first, last), the three
                     counting/range constructors, and "copy, then change one of the two objects" (independence);
     stack           the whole adapter (push const&/&&, emplace, pop, top read/write, size/empty, member and
                     non-member swap, the six relations, copy/move construction and assignment, construction from a
                     container) as calls on the underlying static_vector model;
     inplace_vector  copy/move assignment (added to the library by the fix: commit 87cca43) incl. self-assignment,
                     try_emplace_back, try_push_back(T&&), unchecked_emplace_back, unchecked_push_back(T&&) as
                     operations of their own, writes through operator[] / front() / back(), data(), max_size().
   Conventions as in Model.v: positions/iterators are offsets from begin(), references are observed as the offset of
   the referenced element and by reading/writing through them, every TETL_PRECONDITION on the path is Contract,
   every storage access is checked (oget/oset give UB outside the array). *)
From Tetl Require Import Lib.Base Lib.Arr C06a.Model C01.Model.
From Coq Require Import Arith.
Local Open Scope Z_scope.

(** * reading through iterators / pointers *)
(* *it for it = first, first+1, ... (n elements) *)
Fixpoint read_fwd (b : list Z) (first n : nat) : res (list Z) :=
  match n with
  | O => Ok []
  | S k => do x <- oget b first; do r <- read_fwd b (S first) k; Ok (x :: r)
  end.
(* reverse_iterator: operator* is  tmp = current; return *--tmp;  the walk from rbegin() (current = begin()+i) to
   rend() (current = begin()) reads slots i-1, i-2, ..., 0 *)
Fixpoint read_rev (b : list Z) (i : nat) : res (list Z) :=
  match i with
  | O => Ok []
  | S k => do x <- oget b k; do r <- read_rev b k; Ok (x :: r)
  end.

(* rbegin().base() - begin(), rend().base() - begin(), rend() - rbegin(), then the elements read from rbegin() to rend() *)
Definition riter (v : vec) : res (list Z) :=
  do r <- read_rev (buf v) (szn v); Ok (sz v :: 0 :: sz v - 0 :: r).
(* cbegin() - begin(), cend() - begin(), then the elements read from cbegin() to cend() *)
Definition citer (v : vec) : res (list Z) :=
  do r <- read_fwd (buf v) 0 (szn v); Ok (0 :: sz v :: r).
(* end() - data(), then data()[0 .. size()) *)
Definition data_read (v : vec) : res (list Z) :=
  do r <- read_fwd (buf v) 0 (szn v); Ok (sz v :: r).

(** * writing through returned references *)
(* operator[](i) = detail::index(self, i): TETL_PRECONDITION(size_t(i) < size()); the reference is then assigned *)
Definition set_at (v : vec) (i x : Z) : res vec :=
  if negb (index_ok i (sz v)) then Contract
  else do b <- oset (buf v) (Z.to_nat (wrapu 64 i)) x; Ok {| buf := b; sz := sz v |}.
Definition set_front (v : vec) (x : Z) : res vec := set_at v 0 x.
Definition set_back (v : vec) (x : Z) : res vec :=
  if is_empty v then Contract else set_at v (wrapu 64 (sz v - 1)) x.

(** * constructors (a fresh object has value-initialised storage of the same capacity as `like`) *)
Definition fresh (like : vec) : vec := empty_vec (length (buf like)).
(* explicit static_vector(size_type n): TETL_PRECONDITION(n <= capacity()); emplace_n(n) *)
Definition ctor_n (like : vec) (n : Z) : res vec :=
  if negb (wrapu 64 n <=? cap like) then Contract else emplace_n (fresh like) (wrapu 64 n).
(* static_vector(size_type n, T const& value): TETL_PRECONDITION(n <= capacity()); insert(begin(), n, value) *)
Definition ctor_n_val (like : vec) (n x : Z) : res vec :=
  if negb (wrapu 64 n <=? cap like) then Contract else insert_n (fresh like) 0 (wrapu 64 n) x.
(* static_vector(first, last), random access: TETL_PRECONDITION(last - first >= 0), (size_t(last - first) <= capacity()) *)
Definition ctor_range (like : vec) (xs : list Z) : res vec :=
  if negb (Z.of_nat (length xs) <=? cap like) then Contract else insert_range (fresh like) 0 xs.

(* the change applied to one of two objects that were made equal by a copy: overwrite the first element and drop
   the last one; on an empty vector append instead (when there is room) *)
Definition mutate (v : vec) (x : Z) : res vec :=
  if negb (is_empty v) then do w <- set_at v 0 x; pop_back w
  else if negb (full v) then push_back v x
  else Ok v.

Inductive xop :=
| Base (o : op)
| RIter (t : bool) (k : Z) | CIter (t : bool)
| SetAt (t : bool) (i x : Z) | SetFront (t : bool) (x : Z) | SetBack (t : bool) (x : Z)
| DataRead (t : bool) | MaxSize (t : bool)
| SwapFree | SelfMoveAssign (t : bool)
| MoveInsertRange (t : bool) (pos : Z) (xs : list Z)
| CtorN (t : bool) (n : Z) | CtorNVal (t : bool) (n x : Z) | CtorRange (t : bool) (xs : list Z)
| CtorArr (t : bool) (xs : list Z)
| CopyIndep (t : bool) (d : bool) (x : Z).

Section XStep.
Variable pred_of : Z -> Z -> bool.

Definition xstep (s : vec * vec) (o : xop) : res ((vec * vec) * list Z) :=
  let mut t r out := do v <- r; Ok (upd t s v, out) in
  (* Vec tmp(args...); observe tmp; v_t = move(tmp) *)
  let ctor t r := do tmp <- r; do v <- move_assign (sel t s) tmp; Ok (upd t s v, sz tmp :: elems tmp) in
  match o with
  | Base o => step pred_of s o
  (* the three ways of obtaining reverse iterators are the same expression reverse_iterator(end()/begin()) *)
  | RIter t _ => do r <- riter (sel t s); Ok (s, r)
  | CIter t => do r <- citer (sel t s); Ok (s, r)
  | SetAt t i x => mut t (set_at (sel t s) i x) [wrapu 64 i]
  | SetFront t x => mut t (set_front (sel t s) x) [0]
  | SetBack t x => mut t (set_back (sel t s) x) [sz (sel t s) - 1]
  | DataRead t => do r <- data_read (sel t s); Ok (s, r)
  | MaxSize t => Ok (s, [cap (sel t s); cap (sel t s)])
  | SwapFree => do r <- swap_vec (fst s) (snd s); Ok (r, [])         (* swap(lhs, rhs) = lhs.swap(rhs) *)
  | SelfMoveAssign t => Ok (s, [])                                    (* operator=(self&&): returns early *)
  | MoveInsertRange t pos xs => mut t (move_insert (sel t s) pos xs) [pos]
  | CtorN t n => ctor t (ctor_n (sel t s) n)
  | CtorNVal t n x => ctor t (ctor_n_val (sel t s) n x)
  | CtorRange t xs => ctor t (ctor_range (sel t s) xs)
  (* static_vector(c_array<T, Size>&&): move_insert(begin(), begin(source), end(source)); Size <= Capacity is a
     requires-clause (a larger array does not compile; the model answers with move_insert's own precondition).
     static_vector(empty_c_array) is the case xs = [] (it does nothing) *)
  | CtorArr t xs => ctor t (move_insert (fresh (sel t s)) 0 xs)
  | CopyIndep t d x =>
      do c <- copy_construct (sel t s);
      if d then do c' <- mutate c x; Ok (s, sz c' :: elems c')
      else do v' <- mutate (sel t s) x; Ok (upd t s v', sz c :: elems c)
  end.

Fixpoint xrun (s : vec * vec) (ops : list xop) : list (res (list Z * list Z)) :=
  match ops with
  | [] => []
  | o :: rest =>
      match xstep s o with
      | Ok (s', out) => Ok (out, observe s') :: xrun s' rest
      | Contract => [Contract]
      | UB k => [UB k]
      | OutOfFuel => [OutOfFuel]
      end
  end.

(* the state a history ends in (None as soon as a step does not return normally) *)
Fixpoint xexec (s : vec * vec) (ops : list xop) : option (vec * vec) :=
  match ops with
  | [] => Some s
  | o :: rest => match xstep s o with Ok (s', _) => xexec s' rest | _ => None end
  end.
End XStep.

(* the operations that name exactly one object, u, and no other *)
Definition touches_only (u : bool) (o : xop) : bool :=
  match o with
  | Base o =>
      match o with
      | PushBack t _ | EmplaceBack t _ | PopBack t | InsertCR t _ _ | InsertRV t _ _ | InsertN t _ _ _
      | InsertRange t _ _ | EmplaceAt t _ _ | EraseAt t _ | EraseRange t _ _ | Clear t | Resize t _
      | ResizeVal t _ _ | AssignN t _ _ | AssignRange t _ | CopyConstruct t | MoveRoundTrip t | EraseIf t _
      | EraseVal t _ | At t _ | Front t | Back t | SelfCopyAssign t | SelfSwap t => Bool.eqb t u
      | Swap | CopyAssign _ | MoveAssign _ | Relations => false
      end
  | RIter t _ | CIter t | SetAt t _ _ | SetFront t _ | SetBack t _ | DataRead t | MaxSize t | SelfMoveAssign t
  | MoveInsertRange t _ _ | CtorN t _ | CtorNVal t _ _ | CtorRange t _ | CtorArr t _ | CopyIndep t _ _ => Bool.eqb t u
  | SwapFree => false
  end.

(** * stack<T, static_vector<T, N>>: every member forwards to the container c *)
Inductive st_op :=
| StPush (t : bool) (x : Z)            (* push(value_type const&) -> c.push_back(x) *)
| StPushRv (t : bool) (x : Z)          (* push(value_type&&)      -> c.push_back(move(x)) *)
| StEmplace (t : bool) (x : Z)         (* emplace(args...)        -> c.emplace_back(args...) *)
| StPop (t : bool)                     (* pop()                   -> c.pop_back() *)
| StTop (t : bool)                     (* top()                   -> c.back() *)
| StSetTop (t : bool) (x : Z)          (* top() = x *)
| StSize (t : bool)                    (* size(), empty() *)
| StSwap | StSwapFree                  (* using etl::swap; swap(c, s.c) -> c.swap(s.c) *)
| StRelations                          (* the six relations of the containers *)
| StCopyConstruct (t : bool)           (* defaulted: c copy-constructed *)
| StMoveConstruct (t : bool)           (* defaulted: c move-constructed; then the source is assigned a new stack *)
| StCopyAssign (t : bool)              (* defaulted: c = other.c *)
| StMoveAssign (t : bool)              (* defaulted: c = move(other.c); then the source is assigned a new stack *)
| StSelfAssign (t : bool)
| StFromContainer (t : bool) (xs : list Z)      (* explicit stack(Container const&) *)
| StFromContainerRv (t : bool) (xs : list Z).   (* explicit stack(Container&&) *)

(* stack() : stack{Container{}} — the container is move-constructed from an empty temporary *)
Definition st_new (like : vec) : res vec := move_construct (fresh like).

Definition st_step (s : vec * vec) (o : st_op) : res ((vec * vec) * list Z) :=
  let mut t r out := do v <- r; Ok (upd t s v, out) in
  match o with
  | StPush t x | StPushRv t x => mut t (push_back (sel t s) x) []
  | StEmplace t x => mut t (emplace_back (sel t s) x) []
  | StPop t => mut t (pop_back (sel t s)) []
  | StTop t => do x <- back (sel t s); Ok (s, [x])
  | StSetTop t x => mut t (set_back (sel t s) x) []
  | StSize t => Ok (s, [sz (sel t s); b2z (is_empty (sel t s))])
  | StSwap | StSwapFree => do r <- swap_vec (fst s) (snd s); Ok (r, [])
  | StRelations => Ok (s, map b2z (relations (fst s) (snd s)))
  | StCopyConstruct t =>
      do c <- copy_construct (sel t s);
      Ok (s, b2z (vec_eq c (sel t s)) :: sz c :: elems c)
  | StMoveConstruct t =>
      do c <- move_construct (sel t s);
      do e <- st_new (sel t s);
      do v <- move_assign (sel t s) e;
      Ok (upd t s v, sz c :: elems c)
  | StCopyAssign t => mut t (copy_assign (sel t s) (sel (negb t) s)) []
  | StMoveAssign t =>
      do v <- move_assign (sel t s) (sel (negb t) s);
      do e <- st_new (sel t s);
      do src <- move_assign (sel (negb t) s) e;
      Ok (upd (negb t) (upd t s v) src, [])
  | StSelfAssign t => Ok (s, [])
  | StFromContainer t xs =>
      do cont <- ctor_range (sel t s) xs;
      do tmp <- copy_construct cont;
      do v <- move_assign (sel t s) tmp;
      Ok (upd t s v, [sz tmp])
  | StFromContainerRv t xs =>
      do cont <- ctor_range (sel t s) xs;
      do tmp <- move_construct cont;
      do v <- move_assign (sel t s) tmp;
      Ok (upd t s v, [sz tmp])
  end.

Fixpoint st_run (s : vec * vec) (ops : list st_op) : list (res (list Z * list Z)) :=
  match ops with
  | [] => []
  | o :: rest =>
      match st_step s o with
      | Ok (s', out) => Ok (out, observe s') :: st_run s' rest
      | Contract => [Contract]
      | UB k => [UB k]
      | OutOfFuel => [OutOfFuel]
      end
  end.

(** * inplace_vector, second part *)
(* operator=(inplace_vector const&): trivially copyable T = memberwise (whole storage + size); otherwise
   if (this != &other) { clear(); uninitialized_copy(other -> begin()); _size = other._size; }.
   Slots at and above size() are not observable; the model keeps the target's own bytes there. *)
Definition iv_assign_from (v other : vec) : res vec :=
  do v0 <- clear v;
  set_size {| buf := elems other ++ skipn (szn other) (buf v0); sz := sz v0 |} (sz other).
(* writes through operator[] / front() / back() with the preconditions of iv_at / iv_front / iv_back *)
Definition iv_set_at (v : vec) (i x : Z) : res vec :=
  if cap v =? 0 then Contract else
  if negb (wrapu 64 i <? sz v) then Contract
  else do b <- oset (buf v) (Z.to_nat (wrapu 64 i)) x; Ok {| buf := b; sz := sz v |}.
Definition iv_set_front (v : vec) (x : Z) : res vec :=
  if cap v =? 0 then Contract else if is_empty v then Contract
  else do b <- oset (buf v) 0 x; Ok {| buf := b; sz := sz v |}.
Definition iv_set_back (v : vec) (x : Z) : res vec :=
  if cap v =? 0 then Contract else if is_empty v then Contract
  else do b <- oset (buf v) (Z.to_nat (sz v - 1)) x; Ok {| buf := b; sz := sz v |}.
Definition iv_mutate (v : vec) (x : Z) : res vec :=
  if negb (is_empty v) then do w <- iv_set_at v 0 x; iv_pop_back w
  else do r <- iv_try_push_back v x; Ok (fst r).

(* n calls of try_push_back / try_emplace_back in a row (the only way to fill an inplace_vector); returns how many
   of them answered non-null *)
Fixpoint iv_fill (k : nat) (v : vec) (x : Z) (cnt : Z) : res (vec * Z) :=
  match k with
  | O => Ok (v, cnt)
  | S k' => do r <- iv_try_push_back v x; iv_fill k' (fst r) x (if snd r then cnt + 1 else cnt)
  end.

Inductive iv_xop :=
| IvBase (o : iv_op)
| IvFill (t : bool) (n x : Z)
| IvTryEmplace (t : bool) (x : Z) | IvTryPushRv (t : bool) (x : Z)
| IvUncheckedEmplace (t : bool) (x : Z) | IvUncheckedPushRv (t : bool) (x : Z)
| IvCopyAssign (t : bool) | IvMoveAssign (t : bool) | IvSelfCopyAssign (t : bool) | IvSelfMoveAssign (t : bool)
| IvSetAt (t : bool) (i x : Z) | IvSetFront (t : bool) (x : Z) | IvSetBack (t : bool) (x : Z)
| IvDataRead (t : bool) | IvMaxSize (t : bool)
| IvCopyIndep (t : bool) (d : bool) (x : Z).

Definition iv_xstep (s : vec * vec) (o : iv_xop) : res ((vec * vec) * list Z) :=
  let mut t r out := do v <- r; Ok (upd t s v, out) in
  match o with
  | IvBase o => iv_step s o
  | IvFill t n x => do r <- iv_fill (Z.to_nat n) (sel t s) x 0; Ok (upd t s (fst r), [snd r])
  | IvTryEmplace t x | IvTryPushRv t x =>
      do r <- iv_try_push_back (sel t s) x; Ok (upd t s (fst r), [b2z (snd r)])
  | IvUncheckedEmplace t x | IvUncheckedPushRv t x => mut t (iv_unchecked_push_back (sel t s) x) []
  | IvCopyAssign t => mut t (iv_assign_from (sel t s) (sel (negb t) s)) []
  | IvMoveAssign t =>
      (* v_t = move(v_other); the source is then clear()ed (moved-from content is unspecified) *)
      do v <- iv_assign_from (sel t s) (sel (negb t) s);
      do src <- clear (sel (negb t) s);
      Ok (upd (negb t) (upd t s v) src, [])
  | IvSelfCopyAssign t | IvSelfMoveAssign t => Ok (s, [])
  | IvSetAt t i x => mut t (iv_set_at (sel t s) i x) [wrapu 64 i]
  | IvSetFront t x => mut t (iv_set_front (sel t s) x) [0]
  | IvSetBack t x => mut t (iv_set_back (sel t s) x) [sz (sel t s) - 1]
  | IvDataRead t => do r <- data_read (sel t s); Ok (s, r)
  | IvMaxSize t => Ok (s, [cap (sel t s); cap (sel t s)])
  | IvCopyIndep t d x =>
      let c := iv_copy_construct (sel t s) in
      if d then do c' <- iv_mutate c x; Ok (s, sz c' :: elems c')
      else do v' <- iv_mutate (sel t s) x; Ok (upd t s v', sz c :: elems c)
  end.

Fixpoint iv_xrun (s : vec * vec) (ops : list iv_xop) : list (res (list Z * list Z)) :=
  match ops with
  | [] => []
  | o :: rest =>
      match iv_xstep s o with
      | Ok (s', out) => Ok (out, observe s') :: iv_xrun s' rest
      | Contract => [Contract]
      | UB k => [UB k]
      | OutOfFuel => [OutOfFuel]
      end
  end.

(** * final states and "names only object u" for stack and inplace_vector histories (independence theorems) *)
Fixpoint st_exec (s : vec * vec) (ops : list st_op) : option (vec * vec) :=
  match ops with
  | [] => Some s
  | o :: rest => match st_step s o with Ok (s', _) => st_exec s' rest | _ => None end
  end.
Fixpoint iv_xexec (s : vec * vec) (ops : list iv_xop) : option (vec * vec) :=
  match ops with
  | [] => Some s
  | o :: rest => match iv_xstep s o with Ok (s', _) => iv_xexec s' rest | _ => None end
  end.
Definition st_touches_only (u : bool) (o : st_op) : bool :=
  match o with
  | StPush t _ | StPushRv t _ | StEmplace t _ | StPop t | StTop t | StSetTop t _ | StSize t | StCopyConstruct t
  | StMoveConstruct t | StSelfAssign t | StFromContainer t _ | StFromContainerRv t _ => Bool.eqb t u
  | StSwap | StSwapFree | StRelations | StCopyAssign _ | StMoveAssign _ => false
  end.
Definition iv_touches_only (u : bool) (o : iv_xop) : bool :=
  match o with
  | IvBase o =>
      match o with
      | IvTryPush t _ | IvUncheckedPush t _ | IvPop t | IvClear t | IvAt t _ | IvFront t | IvBack t
      | IvCopyConstruct t | IvMoveConstruct t => Bool.eqb t u
      end
  | IvFill t _ _ | IvTryEmplace t _ | IvTryPushRv t _ | IvUncheckedEmplace t _ | IvUncheckedPushRv t _
  | IvSelfCopyAssign t | IvSelfMoveAssign t | IvSetAt t _ _ | IvSetFront t _ | IvSetBack t _ | IvDataRead t
  | IvMaxSize t | IvCopyIndep t _ _ => Bool.eqb t u
  | IvCopyAssign _ | IvMoveAssign _ => false
  end.

(** * closed forms for long runs of appends (used by the extracted model in the correspondence run)
    The extracted model stores sizes and indices as unary numbers and recomputes the capacity as the length of the
    storage list at every call, so n appends cost about n * Capacity list steps: filling a vector of capacity 65536
    element by element takes the extracted code the better part of an hour.  `fill_fast k v x` is the state after k
    appends of x to a vector with room for them, written down directly; ProofsFast.v proves that the step functions
    below, which use it for  insert(end(), n, x)  and for a run of try_push_back calls, return EXACTLY what xstep and
    iv_xstep return on every state satisfying the invariant (C01_fast_model_equal), so that running them instead
    changes nothing but the running time. *)
Definition fill_fast (k : nat) (v : vec) (x : Z) : vec :=
  {| buf := firstn (szn v) (buf v) ++ repeat x k ++ skipn (szn v + k) (buf v); sz := sz v + Z.of_nat k |}.

Section Fast.
Variable pred_of : Z -> Z -> bool.

Definition xstep_fast (s : vec * vec) (o : xop) : res ((vec * vec) * list Z) :=
  match o with
  | Base (InsertN t pos n x) =>
      let v := sel t s in
      if (pos =? sz v) && (0 <=? n) && (n <=? cap v - sz v)
      then Ok (upd t s (fill_fast (Z.to_nat n) v x), [pos])
      else xstep pred_of s o
  | _ => xstep pred_of s o
  end.

Fixpoint xrun_fast (s : vec * vec) (ops : list xop) : list (res (list Z * list Z)) :=
  match ops with
  | [] => []
  | o :: rest =>
      match xstep_fast s o with
      | Ok (s', out) => Ok (out, observe s') :: xrun_fast s' rest
      | Contract => [Contract]
      | UB k => [UB k]
      | OutOfFuel => [OutOfFuel]
      end
  end.
End Fast.

Definition iv_xstep_fast (s : vec * vec) (o : iv_xop) : res ((vec * vec) * list Z) :=
  match o with
  | IvFill t n x =>
      let v := sel t s in
      let m := Z.min (Z.max n 0) (cap v - sz v) in
      Ok (upd t s (fill_fast (Z.to_nat m) v x), [m])
  | _ => iv_xstep s o
  end.

Fixpoint iv_xrun_fast (s : vec * vec) (ops : list iv_xop) : list (res (list Z * list Z)) :=
  match ops with
  | [] => []
  | o :: rest =>
      match iv_xstep_fast s o with
      | Ok (s', out) => Ok (out, observe s') :: iv_xrun_fast s' rest
      | Contract => [Contract]
      | UB k => [UB k]
      | OutOfFuel => [OutOfFuel]
      end
  end.
