(* C01 proofs for ModelExt.v, part 5: the closed forms used by the extracted model for long runs of appends
   (fill_fast, xstep_fast, iv_xstep_fast) return exactly what the element-by-element models return. *)
From Tetl Require Import Lib.Base Lib.Arr C06a.Model C06a.P1_Common C01.Model C01.Spec C01.ModelExt C01.SpecExt.
From Tetl Require Import C01.ProofsBase C01.ProofsInsert C01.ProofsStep C01.ProofsIv C01.ProofsExt C01.ProofsExt2
  C01.ProofsIvExt.
From Coq Require Import Arith Lia.
Ltac Zify.zify_post_hook ::= Z.to_euclidean_division_equations.
Local Open Scope Z_scope.

(* the state after one append *)
Definition push1 (v : vec) (x : Z) : vec :=
  {| buf := firstn (szn v) (buf v) ++ x :: skipn (S (szn v)) (buf v); sz := sz v + 1 |}.

Section Fast.
Variable c : nat.
Hypothesis Hc : cap_ok c.

Lemma szn_lt v : inv c v -> sz v < Z.of_nat c -> (szn v < length (buf v))%nat.
Proof. intros (Hl & Hs) Hlt. unfold szn. lia. Qed.

Lemma push1_len v x : inv c v -> sz v < Z.of_nat c -> length (buf (push1 v x)) = c.
Proof.
  intros Hi Hlt. pose proof (szn_lt v Hi Hlt) as Hn. destruct Hi as (Hl & Hs). cbn [push1 buf].
  rewrite app_length, firstn_length. cbn [length]. rewrite skipn_length. lia.
Qed.

Lemma push1_inv v x : inv c v -> sz v < Z.of_nat c -> inv c (push1 v x).
Proof. intros Hi Hlt. split; [apply push1_len; auto|]. destruct Hi as (Hl & Hs). cbn [push1 sz]. lia. Qed.

Lemma append_exact v x : inv c v -> sz v < Z.of_nat c ->
  oset (buf v) (szn v) x = Ok (buf (push1 v x)) /\
  set_size {| buf := buf (push1 v x); sz := sz v |} (sz v + 1) = Ok (push1 v x).
Proof.
  intros Hi Hlt. split.
  - rewrite oset_upd by (apply szn_lt; auto). reflexivity.
  - rewrite (set_size_ok c) by (auto using push1_len; destruct Hi; lia). reflexivity.
Qed.

Lemma try_push_exact v x : inv c v -> sz v < Z.of_nat c -> iv_try_push_back v x = Ok (push1 v x, true).
Proof.
  intros Hi Hlt. destruct (append_exact v x Hi Hlt) as (E1 & E2). unfold iv_try_push_back, cap.
  destruct Hi as (Hl & Hs). rewrite Hl, eqb_f by lia. rewrite E1. cbn [rbind]. rewrite E2. reflexivity.
Qed.

Lemma push_back_exact v x : inv c v -> sz v < Z.of_nat c -> push_back v x = Ok (push1 v x).
Proof.
  intros Hi Hlt. destruct (append_exact v x Hi Hlt) as (E1 & E2). assert (H64 := cap_ok_64 c Hc).
  unfold push_back, emplace_back, full, index_ok, cap. destruct Hi as (Hl & Hs).
  rewrite Hl, eqb_f by lia. rewrite wrapu64_small by lia. rewrite ltb_t by lia. cbn [negb].
  rewrite E1. cbn [rbind]. exact E2.
Qed.

Lemma fill_fast_0 v x : inv c v -> fill_fast 0 v x = v.
Proof.
  intros Hi. destruct v as [b s]. unfold fill_fast. cbn [buf sz repeat app]. rewrite Nat.add_0_r, firstn_skipn.
  f_equal. cbn. lia.
Qed.

Lemma szn_push1 v x : inv c v -> szn (push1 v x) = S (szn v).
Proof. intros (Hl & Hs). unfold szn. cbn [push1 sz]. lia. Qed.

Lemma fill_fast_S k v x : inv c v -> sz v + Z.of_nat (S k) <= Z.of_nat c ->
  fill_fast k (push1 v x) x = fill_fast (S k) v x.
Proof.
  intros Hi Hfit. assert (Hlt : sz v < Z.of_nat c) by lia. pose proof (szn_lt v Hi Hlt) as Hn.
  unfold fill_fast. rewrite (szn_push1 v x Hi). f_equal.
  - cbn [push1 buf repeat]. set (n := szn v) in *. set (b := buf v) in *.
    assert (Hfn : length (firstn n b ++ [x]) = S n).
    { rewrite app_length, firstn_length. cbn [length]. lia. }
    replace (firstn n b ++ x :: skipn (S n) b) with ((firstn n b ++ [x]) ++ skipn (S n) b)
      by (rewrite <- app_assoc; reflexivity).
    rewrite (firstn_app_exact (firstn n b ++ [x])) by (symmetry; exact Hfn).
    replace (S n + k)%nat with (k + S n)%nat by lia.
    rewrite <- (skipn_skipn k (S n)).
    rewrite (skipn_app_exact (firstn n b ++ [x])) by (symmetry; exact Hfn).
    rewrite skipn_skipn. replace (k + S n)%nat with (n + S k)%nat by lia.
    rewrite <- !app_assoc. reflexivity.
  - cbn [push1 sz]. lia.
Qed.

Lemma fill_fast_inv k v x : inv c v -> sz v + Z.of_nat k <= Z.of_nat c -> inv c (fill_fast k v x).
Proof.
  intros (Hl & Hs) Hfit. split.
  - cbn [fill_fast buf]. rewrite !app_length, firstn_length, repeat_length, skipn_length. unfold szn. lia.
  - cbn [fill_fast sz]. lia.
Qed.

Lemma push_n_exact : forall k v x, inv c v -> sz v + Z.of_nat k <= Z.of_nat c ->
  push_n k v x = Ok (fill_fast k v x).
Proof.
  induction k as [|k IH]; intros v x Hi Hfit; cbn [push_n].
  - rewrite fill_fast_0 by exact Hi. reflexivity.
  - rewrite push_back_exact by (auto; lia). cbn [rbind].
    rewrite IH; [|apply push1_inv; auto; lia|cbn [push1 sz]; lia].
    rewrite fill_fast_S by auto. reflexivity.
Qed.

Lemma iv_fill_exact : forall k v x cnt, inv c v -> sz v + Z.of_nat k <= Z.of_nat c ->
  iv_fill k v x cnt = Ok (fill_fast k v x, cnt + Z.of_nat k).
Proof.
  induction k as [|k IH]; intros v x cnt Hi Hfit; cbn [iv_fill].
  - rewrite fill_fast_0 by exact Hi. rewrite Z.add_0_r. reflexivity.
  - rewrite try_push_exact by (auto; lia). cbn [rbind fst snd].
    rewrite IH; [|apply push1_inv; auto; lia|cbn [push1 sz]; lia].
    rewrite fill_fast_S by auto. f_equal. f_equal. lia.
Qed.

Lemma iv_fill_full : forall k v x cnt, inv c v -> sz v = Z.of_nat c -> iv_fill k v x cnt = Ok (v, cnt).
Proof.
  induction k as [|k IH]; intros v x cnt Hi Hfull; cbn [iv_fill]; [reflexivity|].
  rewrite (iv_try_push_full c v (elems v) x (inv_repr c v Hi)) by (rewrite (elems_len c v Hi); exact Hfull).
  cbn [rbind fst snd]. apply IH; auto.
Qed.

Lemma iv_fill_split : forall a b v x cnt,
  iv_fill (a + b) v x cnt = (do r <- iv_fill a v x cnt; iv_fill b (fst r) x (snd r)).
Proof.
  induction a as [|a IH]; intros b v x cnt; cbn [iv_fill Nat.add].
  - reflexivity.
  - destruct (iv_try_push_back v x) as [[v1 ok]| | |]; cbn [rbind fst snd]; try reflexivity. apply IH.
Qed.

Lemma iv_fill_general k v x : inv c v ->
  let m := Z.min (Z.of_nat k) (Z.of_nat c - sz v) in
  iv_fill k v x 0 = Ok (fill_fast (Z.to_nat m) v x, m).
Proof.
  intros Hi m. pose proof Hi as (Hl & Hs).
  replace k with (Z.to_nat m + (k - Z.to_nat m))%nat by lia.
  rewrite iv_fill_split. rewrite iv_fill_exact by (auto; lia). cbn [rbind fst snd].
  replace (0 + Z.of_nat (Z.to_nat m)) with m by lia.
  destruct (k - Z.to_nat m)%nat as [|r] eqn:Er.
  - cbn [iv_fill]. reflexivity.
  - rewrite iv_fill_full; [| apply fill_fast_inv; auto; lia | cbn [fill_fast sz]; lia ].
    reflexivity.
Qed.

Lemma rotate_same (l : list Z) f last : rotate l f f last = Ok (l, last).
Proof. unfold rotate. cbn [rotate_m]. rewrite Nat.eqb_refl. reflexivity. Qed.

Lemma insert_n_end_exact v n x : inv c v -> 0 <= n <= cap v - sz v ->
  insert_n v (sz v) n x = Ok (fill_fast (Z.to_nat n) v x).
Proof.
  intros Hi Hn. pose proof Hi as (Hl & Hs). assert (H64 := cap_ok_64 c Hc).
  assert (Hcap : cap v = Z.of_nat c) by (unfold cap; rewrite Hl; reflexivity). rewrite Hcap in Hn.
  unfold insert_n. rewrite pos_ok_t by lia. cbn [negb]. rewrite Hcap.
  rewrite !wrapu64_small by lia. rewrite leb_t by lia. cbn [negb].
  replace (Z.min n (Z.of_nat c + 1)) with n by lia.
  rewrite push_n_exact by (auto; lia). cbn [rbind]. unfold rotate_buf.
  rewrite rotate_same. cbn [rbind fst]. reflexivity.
Qed.

Section X.
Variable pred : Z -> Z -> bool.

Theorem xstep_fast_eq : forall s o, inv c (fst s) -> inv c (snd s) -> xstep_fast pred s o = xstep pred s o.
Proof.
  intros s o Ha Hb. destruct o as [o| | | | | | | | | | | | | | |]; try reflexivity.
  destruct o; try reflexivity. cbn [xstep_fast].
  destruct ((pos =? sz (sel t s)) && (0 <=? n) && (n <=? cap (sel t s) - sz (sel t s))) eqn:E; [|reflexivity].
  b2p E. destruct E as ((E1 & E2) & E3). subst pos. cbn [xstep step].
  rewrite insert_n_end_exact by (auto using sel_inv; lia). reflexivity.
Qed.

Lemma xstep_keeps_inv s o s' out : inv c (fst s) -> inv c (snd s) -> xstep pred s o = Ok (s', out) ->
  inv c (fst s') /\ inv c (snd s').
Proof.
  intros Ha Hb H.
  assert (K : xat_arg_ok o \/ exists t i, o = Base (At t i)).
  { destruct o as [o| | | | | | | | | | | | | | |]; try (left; exact I). destruct o; try (left; exact I). right; eauto. }
  destruct K as [K|(t & i & ->)].
  - pose proof (xstep_safe pred c Hc s o Ha Hb K) as S. rewrite H in S. exact S.
  - cbn [xstep step] in H. destruct (at_index (sel t s) i); cbn [rbind] in H; try discriminate.
    injection H as <- _. auto.
Qed.

(* every state a history reaches from two fresh vectors (or from any invariant state) satisfies the invariant *)
Theorem xexec_inv : forall ops s s', inv c (fst s) -> inv c (snd s) -> xexec pred s ops = Some s' ->
  inv c (fst s') /\ inv c (snd s').
Proof.
  induction ops as [|o rest IH]; intros s s' Ha Hb H; cbn [xexec] in H.
  - injection H as <-. auto.
  - destruct (xstep pred s o) as [[s1 out]| | |] eqn:E; try discriminate H.
    destruct (xstep_keeps_inv s o s1 out Ha Hb E) as (Ha1 & Hb1). exact (IH s1 s' Ha1 Hb1 H).
Qed.

Theorem xrun_fast_eq : forall ops s, inv c (fst s) -> inv c (snd s) -> xrun_fast pred s ops = xrun pred s ops.
Proof.
  induction ops as [|o rest IH]; intros s Ha Hb; cbn [xrun_fast xrun]; [reflexivity|].
  rewrite xstep_fast_eq by auto.
  destruct (xstep pred s o) as [[s' out]| | |] eqn:E; try reflexivity.
  destruct (xstep_keeps_inv s o s' out Ha Hb E) as (Ha' & Hb'). rewrite IH by auto. reflexivity.
Qed.
End X.

Theorem iv_xstep_fast_eq : forall s o, inv c (fst s) -> inv c (snd s) -> iv_xstep_fast s o = iv_xstep s o.
Proof.
  intros s o Ha Hb. destruct o as [o|t n x|t x|t x|t x|t x|t|t|t|t|t i x|t x|t x|t|t|t d x]; try reflexivity.
  cbn [iv_xstep_fast iv_xstep]. pose proof (sel_inv c t s Ha Hb) as Hi. pose proof Hi as (Hl & Hs).
  assert (Hcap : cap (sel t s) = Z.of_nat c) by (unfold cap; rewrite Hl; reflexivity).
  pose proof (iv_fill_general (Z.to_nat n) (sel t s) x Hi) as G. cbn zeta in G. rewrite G. cbn [rbind fst snd].
  rewrite Hcap. replace (Z.of_nat (Z.to_nat n)) with (Z.max n 0) by lia. reflexivity.
Qed.

Lemma iv_xstep_keeps_inv s o s' out : inv c (fst s) -> inv c (snd s) -> iv_xstep s o = Ok (s', out) ->
  inv c (fst s') /\ inv c (snd s').
Proof.
  intros Ha Hb H.
  assert (K : iv_xat_arg_ok o \/ exists t i, o = IvBase (IvAt t i)).
  { destruct o as [o| | | | | | | | | | | | | | |]; try (left; exact I). destruct o; try (left; exact I). right; eauto. }
  destruct K as [K|(t & i & ->)].
  - pose proof (iv_xstep_safe c Hc s o Ha Hb K) as S. rewrite H in S. exact S.
  - cbn [iv_xstep iv_step] in H. destruct (iv_at (sel t s) i); cbn [rbind] in H; try discriminate.
    injection H as <- _. auto.
Qed.

Theorem iv_xrun_fast_eq : forall ops s, inv c (fst s) -> inv c (snd s) -> iv_xrun_fast s ops = iv_xrun s ops.
Proof.
  induction ops as [|o rest IH]; intros s Ha Hb; cbn [iv_xrun_fast iv_xrun]; [reflexivity|].
  rewrite iv_xstep_fast_eq by auto.
  destruct (iv_xstep s o) as [[s' out]| | |] eqn:E; try reflexivity.
  destruct (iv_xstep_keeps_inv s o s' out Ha Hb E) as (Ha' & Hb'). rewrite IH by auto. reflexivity.
Qed.

End Fast.
