(* C01 — Fixed-capacity vectors behave exactly like std::vector within capacity.  Fifth property file: what depends on the
   types of the ARGUMENTS — a value of another type than the elements handed to etl::erase, a predicate with a parameter of
   another type handed to etl::erase_if, several constructor arguments handed to emplace_back / emplace / stack::emplace /
   try_emplace_back / unchecked_emplace_back.
   Property theorems only: each is closed by [exact]/a short wrapper of a lemma of ProofsArg.v, then Print Assumptions.

   Vocabulary as in the other property files:  inv c v := length (buf v) = c /\ 0 <= sz v <= c;  abs s := the two vectors as
   lists;  c : nat is the capacity, side condition Z.of_nat c < 2^63 only.
   argt     = { a_heq; a_conv; a_ctor2 }:  a_heq k item x  is the language's  item == value  for an element and a value of
              type number k holding x (an ARBITRARY boolean function: nothing is assumed about it);  a_conv k item  the
              element converted to type k;  a_ctor2 a b  the element T(a, b).
   wop      = every operation of ModelEl.zop (through WZ) + erase(v, U(x)) + erase_if(v, predicate taking U) +
              emplace_back(a, b) observed through the returned reference + emplace(pos, a, b).
   st_wop   = every operation of ModelEl.st_zop + stack::emplace(a, b) observed through the returned reference.
   iv_wop   = every operation of ModelExt.iv_xop + try_emplace_back(a, b) + unchecked_emplace_back(a, b). *)
From Tetl Require Import Lib.Base Lib.Arr C06a.Model C06a.Instances C01.Model C01.Spec C01.ModelExt C01.SpecExt C01.ModelIt
  C01.SpecIt C01.ModelEl C01.SpecEl C01.ModelArg C01.SpecArg.
From Tetl Require Import C01.ProofsBase C01.ProofsStep C01.ProofsExt C01.ProofsStack C01.ProofsIvExt C01.ProofsIt C01.ProofsEl
  C01.ProofsArg.
Local Open Scope Z_scope.

(** 1. One step over wop.  Whenever std::vector defines the call, the model returns the same values, reaches the specified
    abstract state, keeps the invariant and agrees on every observable.  In particular (SpecArg.wspec_step):
    erase(v, value) removes exactly the elements with  a_heq k item x  — the element compared AS IT IS with the value, for
    every heterogeneous equality whatsoever, hence NOT the elements that merely become equal to the value once converted to
    its type (theorem 6 shows the two differ) — and returns their number;  emplace_back(a, b) / emplace(pos, a, b) put the
    element  a_ctor2 a b = T(a, b)  there, and the reference emplace_back returns denotes the new last element. *)
Theorem C01_wstep_refines : forall A E pred c s o s1 out, Z.of_nat c < 2 ^ 63 ->
  inv c (fst s) -> inv c (snd s) ->
  wspec_step A E pred (Z.of_nat c) (abs s) o = Some (s1, out) ->
  exists s', wstep A E pred s o = Ok (s', out) /\ abs s' = s1 /\ inv c (fst s') /\ inv c (snd s')
             /\ observe s' = spec_observe (Z.of_nat c) s1.
Proof. intros A E pred c s o s1 out Hc Ha Hb. exact (wstep_refines A E pred c Hc s o Ha Hb s1 out). Qed.
Print Assumptions C01_wstep_refines.

(** 2. Whole histories, from any invariant state and from two fresh vectors. *)
Theorem C01_whistory_refines : forall A E pred c ops s outs, Z.of_nat c < 2 ^ 63 ->
  inv c (fst s) -> inv c (snd s) ->
  wspec_run A E pred (Z.of_nat c) (abs s) ops = Some outs ->
  wrun A E pred s ops = map Ok outs.
Proof. intros A E pred c ops s outs Hc. exact (wrun_refines A E pred c Hc ops s outs). Qed.
Print Assumptions C01_whistory_refines.

Theorem C01_wvector_refines_std : forall A E pred c ops outs, Z.of_nat c < 2 ^ 63 ->
  wspec_run A E pred (Z.of_nat c) ([], []) ops = Some outs ->
  wrun A E pred (empty_vec c, empty_vec c) ops = map Ok outs.
Proof.
  intros A E pred c ops outs Hc H. apply (wrun_refines A E pred c Hc); cbn [fst snd]; try apply empty_inv.
  unfold abs. cbn [fst snd]. rewrite empty_elems. exact H.
Qed.
Print Assumptions C01_wvector_refines_std.

(** 3. Safety and contract exactness over wop. *)
Theorem C01_wsafe_and_contract_exact : forall A E pred c s o, Z.of_nat c < 2 ^ 63 ->
  inv c (fst s) -> inv c (snd s) ->
  (wat_arg_ok o ->
     (forall k, wstep A E pred s o <> UB k) /\ wstep A E pred s o <> OutOfFuel /\
     (forall s' out, wstep A E pred s o = Ok (s', out) -> inv c (fst s') /\ inv c (snd s'))) /\
  (wsize_args_ok o -> wspec_step A E pred (Z.of_nat c) (abs s) o = None -> wstep A E pred s o = Contract).
Proof.
  intros A E pred c s o Hc Ha Hb. split.
  - intros Harg. destruct (wstep_no_ub A E pred c Hc s o Ha Hb Harg) as (H1 & H2). split; [exact H1|]. split; [exact H2|].
    intros s' out H. exact (wstep_keeps_inv A E pred c Hc s o s' out Ha Hb H).
  - exact (wstep_contract_fires A E pred c Hc s o Ha Hb).
Qed.
Print Assumptions C01_wsafe_and_contract_exact.

(** 4. The functions the correspondence run executes (wrun_fast, iv_wrun_fast) return exactly the results of wrun / iv_wrun. *)
Theorem C01_wfast_model_equal : forall A E pred c, Z.of_nat c < 2 ^ 63 ->
  (forall ops s, inv c (fst s) -> inv c (snd s) -> wrun_fast A E pred s ops = wrun A E pred s ops) /\
  (forall ops s, inv c (fst s) -> inv c (snd s) -> iv_wrun_fast A s ops = iv_wrun A s ops).
Proof.
  intros A E pred c Hc. split.
  - intros ops s. exact (wrun_fast_eq A E pred c Hc ops s).
  - intros ops s. exact (iv_wrun_fast_eq A c Hc ops s).
Qed.
Print Assumptions C01_wfast_model_equal.

(** 5. etl::stack: emplace(a, b) puts T(a, b) on top and returns a reference to it; one step, whole histories from two
    default-constructed stacks, contract exactness (st_wop). *)
Theorem C01_stack_emplace_args_refine : forall A E c, Z.of_nat c < 2 ^ 63 ->
  (forall s o s1 out, inv c (fst s) -> inv c (snd s) ->
     st_wspec_step A E (Z.of_nat c) (st_abs s) o = Some (s1, out) ->
     exists s', st_wstep A E s o = Ok (s', out) /\ st_abs s' = s1 /\ inv c (fst s') /\ inv c (snd s')
                /\ observe s' = st_spec_observe (Z.of_nat c) s1) /\
  (forall ops outs, st_wspec_run A E (Z.of_nat c) ([], []) ops = Some outs ->
     st_wrun A E (empty_vec c, empty_vec c) ops = map Ok outs) /\
  (forall s o, inv c (fst s) -> inv c (snd s) ->
     st_wspec_step A E (Z.of_nat c) (st_abs s) o = None -> st_wstep A E s o = Contract).
Proof.
  intros A E c Hc. split; [|split].
  - intros s o s1 out Ha Hb. exact (st_wstep_refines A E c Hc s o Ha Hb s1 out).
  - intros ops outs H. apply (st_wrun_refines A E c Hc); cbn [fst snd]; try apply empty_inv.
    unfold st_abs. cbn [fst snd]. rewrite empty_elems. exact H.
  - exact (st_wstep_contract_fires A E c).
Qed.
Print Assumptions C01_stack_emplace_args_refine.

(** 6. inplace_vector: try_emplace_back(a, b) / unchecked_emplace_back(a, b) append T(a, b) (try_: null and no change when
    full); one step, whole histories, safety, contract exactness (iv_wop). *)
Theorem C01_inplace_vector_emplace_args_refine : forall A c, Z.of_nat c < 2 ^ 63 ->
  (forall s o s1 out, inv c (fst s) -> inv c (snd s) ->
     iv_wspec_step A (Z.of_nat c) (abs s) o = Some (s1, out) ->
     exists s', iv_wstep A s o = Ok (s', out) /\ abs s' = s1 /\ inv c (fst s') /\ inv c (snd s')
                /\ observe s' = spec_observe (Z.of_nat c) s1) /\
  (forall ops outs, iv_wspec_run A (Z.of_nat c) ([], []) ops = Some outs ->
     iv_wrun A (empty_vec c, empty_vec c) ops = map Ok outs) /\
  (forall s o, inv c (fst s) -> inv c (snd s) -> iv_wat_arg_ok o ->
     (forall k, iv_wstep A s o <> UB k) /\ iv_wstep A s o <> OutOfFuel) /\
  (forall s o, inv c (fst s) -> inv c (snd s) -> iv_wsize_args_ok o ->
     iv_wspec_step A (Z.of_nat c) (abs s) o = None -> iv_wstep A s o = Contract).
Proof.
  intros A c Hc. split; [|split; [|split]].
  - intros s o s1 out Ha Hb. exact (iv_wstep_refines A c Hc s o Ha Hb s1 out).
  - intros ops outs H. apply (iv_wrun_refines A c Hc); cbn [fst snd]; try apply empty_inv.
    unfold abs. cbn [fst snd]. rewrite empty_elems. exact H.
  - exact (iv_wstep_no_ub A c Hc).
  - exact (iv_wstep_contract_fires A c Hc).
Qed.
Print Assumptions C01_inplace_vector_emplace_args_refine.

(** 7. Non-vacuity and sharpness.
    (a) The comparison of erase is not "convert the element to the value's type, then compare" (conv_then_eq, what a lambda
        with a parameter  U const& item  computes): 1.25 (5 quarters) == 1 is false, int(1.25) == 1 is true; 300 == (unsigned
        char)44 is false, (unsigned char)300 == 44 is true; 2^32 + 1 == 1 is false, int(2^32 + 1) == 1 is true — while the
        language's own  -1 == 4294967295u  IS true.
    (b) T(a, b) is not T{a, b} for a type with an initializer_list constructor: std::vector<int>(2, 7) reads 2056 ({7, 7}),
        std::vector<int>{2, 7} reads 2051; the record types: 2007 against -4009.
    (c) Capacity-3 histories over doubles / vectors of int accepted by the specification and reproduced by the model (also
        by the fast form): erase(v, 1) on {1.0, 1.25, 2.0} removes one element; emplace_back(2, 7), emplace(begin(), 3, 7);
        a stack and an inplace_vector likewise; a full vector is outside the specification and stopped. *)
Example C01_arg_nonvacuous :
  let pred := pred_of in
  let E := elt_total mv_keep in
  let uchar := vty_of ty_int 1 in
  let uint := vty_of ty_int 4 in
  let ops := [WZ (ZAssignRange false ItPtr [4; 5; 8]); WEraseValHet false 7 1; WEraseIfHet false 7 1;
              WZ (ZAssignRange false ItPtr [4; 5; 8]); WEraseValHet false 6 5] in
  let vops := [WEmplaceBack2 false 2 7; WEmplaceAt2 false 0 3 7; WEmplaceBack2 true 1 5; WZ ZRelations] in
  Z.of_nat 3 < 2 ^ 63
  /\ cxx_eq ty_double ty_int 5 1 = false /\ conv_then_eq ty_double ty_int 5 1 = true
  /\ cxx_eq ty_int uchar 300 44 = false /\ conv_then_eq ty_int uchar 300 44 = true
  /\ cxx_eq ty_ll ty_int (2 ^ 32 + 1) 1 = false /\ conv_then_eq ty_ll ty_int (2 ^ 32 + 1) 1 = true
  /\ cxx_eq ty_int uint (-1) 4294967295 = true
  /\ vi_paren 2 7 = 2056 /\ vi_brace 2 7 = 2051 /\ il_paren 2 7 = 2007 /\ il_brace 2 7 = -4009
  /\ (exists outs, wspec_run arg_dbl E pred 3 ([], []) ops = Some outs /\ length outs = 5%nat
                   /\ wrun arg_dbl E pred (empty_vec 3, empty_vec 3) ops = map Ok outs
                   /\ wrun_fast arg_dbl E pred (empty_vec 3, empty_vec 3) ops = map Ok outs
                   /\ nth 1 outs ([], []) = ([1], [2; 0; 0; 2; 5; 8; 0; 1; 0; 0])
                   /\ fst (nth 4 outs ([], [])) = [1])
  /\ (exists outs, wspec_run arg_vi E pred 3 ([], []) vops = Some outs
                   /\ wrun arg_vi E pred (empty_vec 3, empty_vec 3) vops = map Ok outs
                   /\ nth 1 outs ([], []) = ([0], [2; 0; 0; 2; 3056; 2056; 0; 1; 0; 0]))
  /\ (exists outs, st_wspec_run arg_il E 3 ([], []) [StWEmplace2 false 2 7; StW (StZ (StBase (StTop false)))] = Some outs
                   /\ st_wrun arg_il E (empty_vec 3, empty_vec 3) [StWEmplace2 false 2 7; StW (StZ (StBase (StTop false)))] = map Ok outs
                   /\ fst (nth 0 outs ([], [])) = [0; 2007])
  /\ (exists outs, iv_wspec_run arg_il 1 ([], []) [IvWTryEmplace2 false 2 7; IvWTryEmplace2 false 3 7] = Some outs
                   /\ iv_wrun_fast arg_il (empty_vec 1, empty_vec 1) [IvWTryEmplace2 false 2 7; IvWTryEmplace2 false 3 7] = map Ok outs
                   /\ map fst outs = [[1]; [0]])
  /\ wspec_step arg_vi E pred 1 ([5], []) (WEmplaceBack2 false 2 7) = None
  /\ wstep arg_vi E pred ({| buf := [5]; sz := 1 |}, empty_vec 1) (WEmplaceBack2 false 2 7) = Contract.
Proof.
  cbv zeta. split; [reflexivity|].
  do 11 (split; [vm_compute; reflexivity|]).
  split; [eexists; split; [vm_compute; reflexivity|repeat split; vm_compute; reflexivity]|].
  split; [eexists; split; [vm_compute; reflexivity|repeat split; vm_compute; reflexivity]|].
  split; [eexists; split; [vm_compute; reflexivity|repeat split; vm_compute; reflexivity]|].
  split; [eexists; split; [vm_compute; reflexivity|repeat split; vm_compute; reflexivity]|].
  split; vm_compute; reflexivity.
Qed.
