(* C01 proofs for ModelExt.v, part 3: etl::stack over a static_vector refines std::stack (a LIFO list, head = top);
   abstraction: the stack is the reversed element sequence of its container. *)
From Tetl Require Import Lib.Base Lib.Arr C06a.Model C06a.P1_Common C01.Model C01.Spec C01.ModelExt C01.SpecExt.
From Tetl Require Import C01.ProofsBase C01.ProofsInsert C01.ProofsErase C01.ProofsCompose C01.ProofsStep C01.ProofsExt
  C01.ProofsExt2.
From Coq Require Import Arith Lia.
Ltac Zify.zify_post_hook ::= Z.to_euclidean_division_equations.
Local Open Scope Z_scope.

Definition st_abs (s : vec * vec) : list Z * list Z := (rev (elems (fst s)), rev (elems (snd s))).

Lemma len_rev (l : list Z) : len (rev l) = len l.
Proof. unfold len. rewrite rev_length. reflexivity. Qed.

Lemma rev_removelast (e : list Z) : rev (removelast e) = tl (rev e).
Proof.
  destruct e as [|y e'] using rev_ind; [reflexivity|].
  rewrite removelast_last, rev_app_distr. reflexivity.
Qed.

Lemma hd_rev_last (e : list Z) : hd 0 (rev e) = last e 0.
Proof.
  destruct e as [|y e'] using rev_ind; [reflexivity|].
  rewrite rev_app_distr, last_last. reflexivity.
Qed.

Lemma rev_lset_last (e : list Z) x : e <> [] -> rev (lset e (Z.to_nat (len e - 1)) x) = x :: tl (rev e).
Proof.
  intros Hne. destruct e as [|y e'] using rev_ind; [contradiction|].
  unfold len. rewrite app_length. cbn [length].
  replace (Z.to_nat (Z.of_nat (length e' + 1) - 1)) with (length e') by lia.
  unfold lset. rewrite firstn_app, firstn_all, Nat.sub_diag. cbn [firstn]. rewrite app_nil_r.
  rewrite skipn_app. replace (S (length e') - length e')%nat with 1%nat by lia.
  rewrite skipn_all2 by lia. cbn [skipn app].
  rewrite !rev_app_distr. reflexivity.
Qed.

Lemma st_ssel t s : ssel t (st_abs s) = rev (elems (sel t s)).
Proof. destruct t; reflexivity. Qed.

Lemma st_upd_abs t s v : st_abs (upd t s v) = supd t (st_abs s) (rev (elems v)).
Proof. destruct t; reflexivity. Qed.

Section Stack.
Variable c : nat.
Hypothesis Hc : cap_ok c.

Definition st_refines_at (s : vec * vec) (o : st_op) : Prop :=
  inv c (fst s) -> inv c (snd s) -> forall s1 out,
  st_spec_step (Z.of_nat c) (st_abs s) o = Some (s1, out) ->
  exists s', st_step s o = Ok (s', out) /\ st_abs s' = s1 /\ inv c (fst s') /\ inv c (snd s')
             /\ observe s' = st_spec_observe (Z.of_nat c) s1.

Lemma st_fin s' s1 : st_abs s' = s1 -> inv c (fst s') -> inv c (snd s') ->
  st_abs s' = s1 /\ inv c (fst s') /\ inv c (snd s') /\ observe s' = st_spec_observe (Z.of_nat c) s1.
Proof.
  intros <- H1 H2. split; [reflexivity|]. split; [exact H1|]. split; [exact H2|].
  unfold st_spec_observe, st_abs. cbn [fst snd]. rewrite !rev_involutive. apply observe_ok; auto.
Qed.

Lemma st_mut_step s t r e' l' (out : list Z) : inv c (fst s) -> inv c (snd s) -> okr c r e' -> rev e' = l' ->
  exists s', (do v <- r; Ok (upd t s v, out)) = Ok (s', out) /\ st_abs s' = supd t (st_abs s) l'
             /\ inv c (fst s') /\ inv c (snd s')
             /\ observe s' = st_spec_observe (Z.of_nat c) (supd t (st_abs s) l').
Proof.
  intros Ha Hb (v' & -> & Hr) <-. apply repr_inv in Hr as (Hi & He). exists (upd t s v').
  cbn [rbind]. split; [reflexivity|]. destruct (upd_inv c t s v' Ha Hb Hi). apply st_fin; auto.
  rewrite st_upd_abs, He. reflexivity.
Qed.

Ltac open_st H Hpre :=
  let E := fresh "E" in
  cbn [st_spec_step] in H; apply guard_some in H as (Hpre & E); injection E as <- <-; b2p Hpre;
  rewrite ?st_ssel, ?len_rev in *; cbn [st_step].

Lemma srepr t s : inv c (fst s) -> inv c (snd s) -> repr c (sel t s) (elems (sel t s)).
Proof. intros Ha Hb. apply inv_repr, sel_inv; auto. Qed.

Lemma st_push s t x : st_refines_at s (StPush t x) /\ st_refines_at s (StPushRv t x).
Proof.
  split; intros Ha Hb s1 out H; open_st H Hpre; eapply st_mut_step; auto.
  1,3: apply (push_back_ok c _ _ x Hc (srepr t s Ha Hb)); lia.
  all: rewrite rev_app_distr; reflexivity.
Qed.

Lemma st_emplace s t x : st_refines_at s (StEmplace t x).
Proof.
  intros Ha Hb s1 out H; open_st H Hpre; eapply st_mut_step; auto.
  - apply (emplace_back_ok c _ _ x Hc (srepr t s Ha Hb)); lia.
  - rewrite rev_app_distr; reflexivity.
Qed.

Lemma st_pop s t : st_refines_at s (StPop t).
Proof.
  intros Ha Hb s1 out H; open_st H Hpre; eapply st_mut_step; auto.
  - apply (pop_back_ok c _ _ Hc (srepr t s Ha Hb)); lia.
  - apply rev_removelast.
Qed.

Lemma st_top s t : st_refines_at s (StTop t).
Proof.
  intros Ha Hb s1 out H. cbn [st_spec_step] in H. apply guard_some in H as (Hpre & E).
  injection E as <- <-. b2p Hpre. rewrite st_ssel, len_rev in *. cbn [st_step].
  rewrite (back_ok c _ _ Hc (srepr t s Ha Hb)) by lia. cbn [rbind]. rewrite hd_rev_last.
  exists s. split; [reflexivity|]. apply st_fin; auto.
Qed.

Lemma st_settop s t x : st_refines_at s (StSetTop t x).
Proof.
  intros Ha Hb s1 out H; open_st H Hpre; eapply st_mut_step; auto.
  - apply (set_back_ok c _ _ x Hc (srepr t s Ha Hb)); lia.
  - apply rev_lset_last. intros E. rewrite E in Hpre. unfold len in Hpre. cbn in Hpre. lia.
Qed.

Lemma st_size s t : st_refines_at s (StSize t).
Proof.
  intros Ha Hb s1 out H. cbn [st_spec_step] in H. injection H as <- <-. cbn [st_step].
  rewrite st_ssel, len_rev. unfold is_empty. rewrite <- (elems_len c (sel t s)) by (apply sel_inv; auto).
  exists s. split; [reflexivity|]. apply st_fin; auto.
Qed.

Lemma st_swap s : st_refines_at s StSwap /\ st_refines_at s StSwapFree.
Proof.
  split; intros Ha Hb s1 out H; cbn [st_spec_step] in H; injection H as <- <-; cbn [st_step];
  destruct (swap_vec_ok c (fst s) _ (snd s) _ Hc (inv_repr _ _ Ha) (inv_repr _ _ Hb))
    as (a' & b' & -> & Ha' & Hb');
  cbn [rbind]; exists (a', b'); (split; [reflexivity|]);
  apply repr_inv in Ha' as (Hia & Hea); apply repr_inv in Hb' as (Hib & Heb);
  apply st_fin; auto; unfold st_abs; cbn [fst snd]; rewrite Hea, Heb; reflexivity.
Qed.

Lemma st_relations s : st_refines_at s StRelations.
Proof.
  intros Ha Hb s1 out H. cbn [st_spec_step] in H. injection H as <- <-. cbn [st_step].
  exists s. rewrite (relations_ok c) by auto. unfold st_abs. cbn [fst snd]. rewrite !rev_involutive.
  split; [reflexivity|]. apply st_fin; auto.
Qed.

Lemma st_copy_construct s t : st_refines_at s (StCopyConstruct t).
Proof.
  intros Ha Hb s1 out H. cbn [st_spec_step] in H. injection H as <- <-. cbn [st_step].
  destruct (copy_construct_ok c (sel t s) _ Hc (srepr t s Ha Hb)) as (c0 & -> & Hc0). cbn [rbind].
  apply repr_inv in Hc0 as (Hi0 & He0).
  assert (Hsz : sz c0 = len (elems (sel t s))) by (rewrite <- He0; symmetry; apply (elems_len c), Hi0).
  assert (Heq : vec_eq c0 (sel t s) = true).
  { unfold vec_eq. rewrite He0, list_eqb_refl, Hsz.
    rewrite (elems_len c (sel t s)) by (apply sel_inv; auto). rewrite Z.eqb_refl. reflexivity. }
  rewrite Heq, Hsz, He0, st_ssel, len_rev, rev_involutive. exists s. split; [reflexivity|]. apply st_fin; auto.
Qed.

Lemma st_new_ok v : length (buf v) = c -> okr c (st_new v) [].
Proof. intros Hl. unfold st_new. apply move_construct_ok; auto. apply fresh_repr, Hl. Qed.

Lemma st_move_construct s t : st_refines_at s (StMoveConstruct t).
Proof.
  intros Ha Hb s1 out H. cbn [st_spec_step] in H. injection H as <- <-. cbn [st_step].
  destruct (move_construct_ok c (sel t s) _ Hc (srepr t s Ha Hb)) as (c0 & -> & Hc0). cbn [rbind].
  destruct (st_new_ok (sel t s) (sel_len c t s Ha Hb)) as (e & -> & He). cbn [rbind].
  destruct (move_assign_ok c (sel t s) _ e _ Hc (srepr t s Ha Hb) He) as (v & -> & Hv). cbn [rbind].
  apply repr_inv in Hc0 as (Hi0 & He0). apply repr_inv in Hv as (Hiv & Hev).
  assert (Hsz : sz c0 = len (elems (sel t s))) by (rewrite <- He0; symmetry; apply (elems_len c), Hi0).
  rewrite Hsz, He0, st_ssel, len_rev, rev_involutive. eexists. split; [reflexivity|].
  destruct (upd_inv c t s v Ha Hb Hiv) as (H1 & H2). apply st_fin; auto.
  rewrite st_upd_abs, Hev. reflexivity.
Qed.

Lemma st_copy_assign s t : st_refines_at s (StCopyAssign t).
Proof.
  intros Ha Hb s1 out H. cbn [st_spec_step] in H. injection H as <- <-. cbn [st_step].
  eapply st_mut_step; auto.
  - apply (copy_assign_ok c _ _ _ _ Hc (srepr t s Ha Hb) (srepr (negb t) s Ha Hb)).
  - rewrite st_ssel. reflexivity.
Qed.

Lemma st_move_assign s t : st_refines_at s (StMoveAssign t).
Proof.
  intros Ha Hb s1 out H. cbn [st_spec_step] in H. injection H as <- <-. cbn [st_step].
  destruct (move_assign_ok c (sel t s) _ (sel (negb t) s) _ Hc (srepr t s Ha Hb) (srepr (negb t) s Ha Hb))
    as (v & -> & Hv). cbn [rbind].
  destruct (st_new_ok (sel t s) (sel_len c t s Ha Hb)) as (e & -> & He). cbn [rbind].
  destruct (move_assign_ok c (sel (negb t) s) _ e _ Hc (srepr (negb t) s Ha Hb) He) as (src & -> & Hsrc).
  cbn [rbind].
  apply repr_inv in Hv as (Hiv & Hev). apply repr_inv in Hsrc as (Hisrc & Hesrc).
  eexists. split; [reflexivity|].
  destruct (upd_inv c t s v Ha Hb Hiv) as (H1 & H2).
  destruct (upd_inv c (negb t) _ src H1 H2 Hisrc) as (H3 & H4).
  apply st_fin; auto. rewrite !st_upd_abs, Hev, Hesrc, st_ssel. reflexivity.
Qed.

Lemma st_self_assign s t : st_refines_at s (StSelfAssign t).
Proof.
  intros Ha Hb s1 out H. cbn [st_spec_step] in H. injection H as <- <-. cbn [st_step].
  exists s. split; [reflexivity|]. apply st_fin; auto.
Qed.

Lemma st_from_container s t xs : st_refines_at s (StFromContainer t xs) /\ st_refines_at s (StFromContainerRv t xs).
Proof.
  split; intros Ha Hb s1 out H; cbn [st_spec_step] in H; apply guard_some in H as (Hpre & E);
    injection E as <- <-; b2p Hpre; cbn [st_step];
    destruct (ctor_range_ok c (sel t s) xs Hc (sel_len c t s Ha Hb) Hpre) as (cont & -> & Hcont); cbn [rbind].
  - destruct (copy_construct_ok c cont _ Hc Hcont) as (tmp & -> & Htmp). cbn [rbind].
    destruct (move_assign_ok c (sel t s) _ tmp _ Hc (srepr t s Ha Hb) Htmp) as (v & -> & Hv). cbn [rbind].
    apply repr_inv in Htmp as (Hit & Het). apply repr_inv in Hv as (Hiv & Hev).
    rewrite <- (elems_len c tmp Hit), Het. eexists. split; [reflexivity|].
    destruct (upd_inv c t s v Ha Hb Hiv) as (H1 & H2). apply st_fin; auto.
    rewrite st_upd_abs, Hev. reflexivity.
  - destruct (move_construct_ok c cont _ Hc Hcont) as (tmp & -> & Htmp). cbn [rbind].
    destruct (move_assign_ok c (sel t s) _ tmp _ Hc (srepr t s Ha Hb) Htmp) as (v & -> & Hv). cbn [rbind].
    apply repr_inv in Htmp as (Hit & Het). apply repr_inv in Hv as (Hiv & Hev).
    rewrite <- (elems_len c tmp Hit), Het. eexists. split; [reflexivity|].
    destruct (upd_inv c t s v Ha Hb Hiv) as (H1 & H2). apply st_fin; auto.
    rewrite st_upd_abs, Hev. reflexivity.
Qed.

Theorem st_step_refines : forall s o, st_refines_at s o.
Proof.
  intros s o. destruct o.
  - apply st_push.
  - apply st_push.
  - apply st_emplace.
  - apply st_pop.
  - apply st_top.
  - apply st_settop.
  - apply st_size.
  - apply st_swap.
  - apply st_swap.
  - apply st_relations.
  - apply st_copy_construct.
  - apply st_move_construct.
  - apply st_copy_assign.
  - apply st_move_assign.
  - apply st_self_assign.
  - apply st_from_container.
  - apply st_from_container.
Qed.

Theorem st_run_refines : forall ops s outs, inv c (fst s) -> inv c (snd s) ->
  st_spec_run (Z.of_nat c) (st_abs s) ops = Some outs ->
  st_run s ops = map Ok outs.
Proof.
  induction ops as [|o rest IH]; intros s outs Ha Hb H; cbn [st_spec_run st_run] in *.
  - injection H as <-. reflexivity.
  - destruct (st_spec_step (Z.of_nat c) (st_abs s) o) as [[s1 out]|] eqn:E; [|discriminate].
    destruct (st_spec_run (Z.of_nat c) s1 rest) as [r|] eqn:Er; [|discriminate].
    injection H as <-.
    destruct (st_step_refines s o Ha Hb s1 out E) as (s' & -> & Habs & Ha' & Hb' & Hobs).
    cbn [map]. rewrite Hobs. f_equal. apply IH; auto. rewrite Habs. exact Er.
Qed.

(* outside the std::stack domain (push on a full stack, pop/top on an empty one, a container that does not fit)
   the call is stopped by a TETL_PRECONDITION of the container *)
Theorem st_step_contract_fires : forall s o, inv c (fst s) -> inv c (snd s) ->
  st_spec_step (Z.of_nat c) (st_abs s) o = None -> st_step s o = Contract.
Proof.
  intros s o Ha Hb H.
  destruct o; try (cbn [st_spec_step guard] in H; discriminate H);
    cbn [st_spec_step] in H; apply guard_none in H; b2p H; rewrite ?st_ssel, ?len_rev in *; cbn [st_step];
    pose proof (srepr t s Ha Hb) as Hr; pose proof (repr_len _ _ _ Hr) as Hle;
    pose proof (len_nonneg (elems (sel t s))) as Hnn.
  - rewrite (push_back_contract c _ _ x Hr) by lia. reflexivity.
  - rewrite (push_back_contract c _ _ x Hr) by lia. reflexivity.
  - rewrite (emplace_back_contract c _ _ x Hr) by lia. reflexivity.
  - rewrite (pop_back_contract c _ _ Hr) by lia. reflexivity.
  - rewrite (back_contract c _ _ Hr) by lia. reflexivity.
  - rewrite (set_back_contract c _ _ x Hr) by lia. reflexivity.
  - rewrite (ctor_range_contract c) by (auto using sel_len; lia). reflexivity.
  - rewrite (ctor_range_contract c) by (auto using sel_len; lia). reflexivity.
Qed.

End Stack.
