(* C01 — Fixed-capacity vectors behave exactly like std::vector within capacity.  Fourth property file: what depends on
   the ELEMENT TYPE — the six relations for an arbitrary pair (operator<, operator==) of the element type, and what the
   range members leave in the source range they read.
   Property theorems only: each is closed by [exact]/a short wrapper of a lemma of ProofsEl.v, then Print Assumptions.

   Vocabulary as in Properties.v / Properties_ext.v / Properties_it.v:  inv c v := length (buf v) = c /\ 0 <= sz v <= c;
   abs s := the two vectors as lists;  c : nat is the capacity, side condition Z.of_nat c < 2^63 only.
   elt      = { e_lt; e_eq; e_mv }: the element type's operator<, operator== (arbitrary boolean functions: no totality,
              no strict weak order, no link between them is assumed) and the value an object is left with after it was
              moved from.
   zop      = every operation of ModelIt.yop (through ZY) + the six relations computed with e_lt / e_eq + insert(pos, first,
              last) / move_insert / assign(first, last) / static_vector(first, last) / static_vector(c_array&&) returning,
              after their old results, the SOURCE range as it is after the call.
   st_zop   = every operation of ModelIt.st_yop + the six relations of stack computed with e_lt / e_eq. *)
From Tetl Require Import Lib.Base Lib.Arr C06a.Model C06a.Instances C01.Model C01.Spec C01.ModelExt C01.SpecExt C01.ModelIt
  C01.SpecIt C01.ModelEl C01.SpecEl.
From Tetl Require Import C01.ProofsBase C01.ProofsStep C01.ProofsExt C01.ProofsStack C01.ProofsIt C01.ProofsEl.
Local Open Scope Z_scope.

(** 1. The six relations of static_vector (each derived in the header from etl::equal / etl::lexicographical_compare in
    its own way) and the six of stack (each forwarding to the same operator of the container) return, for EVERY element
    order and equality, what [container.reqmts] prescribes:  ==  is  equal,  !=  its negation,  <  is
    lexicographical_compare,  >  is  b < a,  <=  is  !(b < a),  >=  is  !(a < b)  — in particular  a >= b  is NOT
    "a > b or a == b" (they differ as soon as two elements are equivalent under < without being equal). *)
Theorem C01_relations_any_order : forall E c a b, inv c a -> inv c b ->
  sv_relations E a b = Ok (spec_relations_g E (elems a) (elems b)) /\
  stk_relations E a b = Ok (spec_relations_g E (elems a) (elems b)).
Proof. intros E c a b Ha Hb. split; [exact (sv_relations_ok E c a b Ha Hb)|exact (stk_relations_ok E c a b Ha Hb)]. Qed.
Print Assumptions C01_relations_any_order.

(** 1b. The integers with their total order are one instance: there the general model and specification are the ones
    of Model.v / Spec.v (lex_cmp), so Properties.C01_step_refines etc. are statements about this instance. *)
Theorem C01_relations_total_order_instance : forall mv c a b, inv c a -> inv c b ->
  sv_relations (elt_total mv) a b = Ok (relations a b) /\
  spec_relations_g (elt_total mv) (elems a) (elems b) = spec_relations (elems a) (elems b).
Proof. intros mv c a b Ha Hb. split; [exact (sv_relations_total mv c a b Ha Hb)|apply spec_relations_total]. Qed.
Print Assumptions C01_relations_total_order_instance.

(** 1c. The C++20 wording (operator<=> with synth-three-way, the other four relations derived from it) is the same
    function as the C++17 table used above whenever the element's < is asymmetric. *)
Theorem C01_relations_three_way : forall E, (forall x y, e_lt E x y = true -> e_lt E y x = false) ->
  forall a b, spec_relations_g E a b = spec_relations_3way E a b.
Proof. intros E H a b. exact (spec_relations_three_way E H a b). Qed.
Print Assumptions C01_relations_three_way.

(** 2. The source range.  For every iterator category, every position and every source (fitting or not), and whatever
    a move does to an element (e_mv): insert(pos, first, last), assign(first, last) and static_vector(first, last) do to
    the vector what ModelIt.v says and leave the source range exactly as it was (they copy);  move_insert(pos, first,
    last) and static_vector(c_array&&) leave every source element moved-from. *)
Theorem C01_range_source : forall E k v pos xs,
  insert_range_src k v pos xs = (do v' <- insert_range_it k v pos xs; Ok (v', xs)) /\
  assign_range_src k v xs = (do v' <- assign_range_it k v xs; Ok (v', xs)) /\
  ctor_range_src k v xs = (do v' <- ctor_range_it k v xs; Ok (v', xs)) /\
  move_insert_src E k v pos xs = (do v' <- move_insert_it k v pos xs; Ok (v', map (e_mv E) xs)) /\
  ctor_arr_src E v xs = (do v' <- move_insert (fresh v) 0 xs; Ok (v', map (e_mv E) xs)).
Proof.
  intros E k v pos xs. repeat split.
  - apply insert_range_src_eq.
  - apply assign_range_src_eq.
  - apply ctor_range_src_eq.
  - apply move_insert_src_eq.
  - apply ctor_arr_src_eq.
Qed.
Print Assumptions C01_range_source.

(** 3. One-step and history refinement over zop: whenever std::vector defines the call, the model returns the same
    values — the six relations under e_lt / e_eq, the source range after a range member — reaches the specified abstract
    state, keeps the invariant and agrees on every observable. *)
Theorem C01_zstep_refines : forall E pred c s o s1 out, Z.of_nat c < 2 ^ 63 ->
  inv c (fst s) -> inv c (snd s) ->
  zspec_step E pred (Z.of_nat c) (abs s) o = Some (s1, out) ->
  exists s', zstep E pred s o = Ok (s', out) /\ abs s' = s1 /\ inv c (fst s') /\ inv c (snd s')
             /\ observe s' = spec_observe (Z.of_nat c) s1.
Proof. intros E pred c s o s1 out Hc Ha Hb. exact (zstep_refines E pred c Hc s o Ha Hb s1 out). Qed.
Print Assumptions C01_zstep_refines.

Theorem C01_zhistory_refines : forall E pred c ops s outs, Z.of_nat c < 2 ^ 63 ->
  inv c (fst s) -> inv c (snd s) ->
  zspec_run E pred (Z.of_nat c) (abs s) ops = Some outs ->
  zrun E pred s ops = map Ok outs.
Proof. intros E pred c ops s outs Hc. exact (zrun_refines E pred c Hc ops s outs). Qed.
Print Assumptions C01_zhistory_refines.

Theorem C01_zvector_refines_std : forall E pred c ops outs, Z.of_nat c < 2 ^ 63 ->
  zspec_run E pred (Z.of_nat c) ([], []) ops = Some outs ->
  zrun E pred (empty_vec c, empty_vec c) ops = map Ok outs.
Proof.
  intros E pred c ops outs Hc H. apply (zrun_refines E pred c Hc); cbn [fst snd]; try apply empty_inv.
  unfold abs. cbn [fst snd]. rewrite empty_elems. exact H.
Qed.
Print Assumptions C01_zvector_refines_std.

(** 4. Safety and contract exactness over zop. *)
Theorem C01_zsafe_and_contract_exact : forall E pred c s o, Z.of_nat c < 2 ^ 63 ->
  inv c (fst s) -> inv c (snd s) ->
  (zat_arg_ok o ->
     (forall k, zstep E pred s o <> UB k) /\ zstep E pred s o <> OutOfFuel /\
     (forall s' out, zstep E pred s o = Ok (s', out) -> inv c (fst s') /\ inv c (snd s'))) /\
  (zsize_args_ok o -> zspec_step E pred (Z.of_nat c) (abs s) o = None -> zstep E pred s o = Contract).
Proof.
  intros E pred c s o Hc Ha Hb. split.
  - intros Harg. destruct (zstep_no_ub E pred c Hc s o Ha Hb Harg) as (H1 & H2). split; [exact H1|]. split; [exact H2|].
    intros s' out H. exact (zstep_keeps_inv E pred c Hc s o s' out Ha Hb H).
  - exact (zstep_contract_fires E pred c Hc s o Ha Hb).
Qed.
Print Assumptions C01_zsafe_and_contract_exact.

(** 5. The function the correspondence run executes for static_vector histories (zrun_fast) returns exactly the
    results of zrun. *)
Theorem C01_zfast_model_equal : forall E pred c ops s, Z.of_nat c < 2 ^ 63 -> inv c (fst s) -> inv c (snd s) ->
  zrun_fast E pred s ops = zrun E pred s ops.
Proof. intros E pred c ops s Hc. exact (zrun_fast_eq E pred c Hc ops s). Qed.
Print Assumptions C01_zfast_model_equal.

(** 6. etl::stack with its relations under e_lt / e_eq: one step, whole histories from two default-constructed stacks,
    contract exactness. *)
Theorem C01_stack_relations_refine : forall E c, Z.of_nat c < 2 ^ 63 ->
  (forall s o s1 out, inv c (fst s) -> inv c (snd s) ->
     st_zspec_step E (Z.of_nat c) (st_abs s) o = Some (s1, out) ->
     exists s', st_zstep E s o = Ok (s', out) /\ st_abs s' = s1 /\ inv c (fst s') /\ inv c (snd s')
                /\ observe s' = st_spec_observe (Z.of_nat c) s1) /\
  (forall ops outs, st_zspec_run E (Z.of_nat c) ([], []) ops = Some outs ->
     st_zrun E (empty_vec c, empty_vec c) ops = map Ok outs) /\
  (forall s o, inv c (fst s) -> inv c (snd s) ->
     st_zspec_step E (Z.of_nat c) (st_abs s) o = None -> st_zstep E s o = Contract).
Proof.
  intros E c Hc. split; [|split].
  - intros s o s1 out Ha Hb. exact (st_zstep_refines E c Hc s o Ha Hb s1 out).
  - intros ops outs H. apply (st_zrun_refines E c Hc); cbn [fst snd]; try apply empty_inv.
    unfold st_abs. cbn [fst snd]. rewrite empty_elems. exact H.
  - exact (st_zstep_contract_fires E c).
Qed.
Print Assumptions C01_stack_relations_refine.

(** Non-vacuity and sharpness.  Records ordered by key only (elt_keytag: element 16 * key + tag):
    a = [(1,a); (2,a)] and b = [(1,a); (2,b)] are equivalent under < and not equal, so  a >= b  and  a <= b  hold while
    "a > b or a == b" and "a < b or a == b" do not: the statement of theorem 1 separates the two derivations.  A
    capacity-3 history with relations and every range member over an element type whose move leaves -555 behind is
    accepted by the specification and reproduced by the model, the sources shown: copied ranges unchanged, moved-from
    ranges -555; a stack history likewise; a range that does not fit is outside the specification and stopped. *)
Example C01_el_nonvacuous :
  let pred := fun (_ x : Z) => Z.even x in
  let a := [17; 33] in
  let b := [17; 34] in
  let Em := elt_total (mv_const (-555)) in
  let ops := [ZAssignRange false ItInput [17; 33]; ZCtorRange true ItForward [17; 34]; ZRelations;
              ZMoveInsertRange false ItBidi 1 [5]; ZInsertRange true ItPtr 0 [6]; ZCtorArr false [1; 2];
              ZY (XBase (Base (PopBack false))); ZRelations] in
  let sops := [StZ (StBase (StPush false 17)); StZ (StBase (StPush false 33)); StZ (StBase (StPush true 17));
               StZ (StBase (StPush true 34)); StZRelations] in
  Z.of_nat 3 < 2 ^ 63
  /\ spec_relations_g elt_keytag a b = [false; true; false; true; false; true]
  /\ (spec_lt elt_keytag b a || spec_eq elt_keytag a b) = false
  /\ (spec_lt elt_keytag a b || spec_eq elt_keytag a b) = false
  /\ spec_relations_g (elt_total mv_keep) a b = [false; true; true; true; false; false]
  /\ (exists outs, zspec_run elt_keytag pred 3 ([], []) ops = Some outs /\ length outs = 8%nat
                   /\ zrun elt_keytag pred (empty_vec 3, empty_vec 3) ops = map Ok outs
                   /\ nth 2 outs ([], []) = ([0; 1; 0; 1; 0; 1], [2; 0; 0; 2; 17; 33; 2; 0; 0; 2; 17; 34]))
  /\ (exists outs, zspec_run Em pred 3 ([], []) ops = Some outs
                   /\ zrun_fast Em pred (empty_vec 3, empty_vec 3) ops = map Ok outs
                   /\ fst (nth 0 outs ([], [])) = [17; 33]
                   /\ fst (nth 3 outs ([], [])) = [1; -555]
                   /\ fst (nth 5 outs ([], [])) = [2; 1; 2; -555; -555])
  /\ (exists outs, st_zspec_run elt_keytag 3 ([], []) sops = Some outs
                   /\ st_zrun elt_keytag (empty_vec 3, empty_vec 3) sops = map Ok outs
                   /\ fst (nth 4 outs ([], [])) = [0; 1; 0; 1; 0; 1])
  /\ zspec_step Em pred 3 ([1; 2], []) (ZAssignRange false ItInput [6; 7; 8; 9]) = None
  /\ zstep Em pred ({| buf := [1; 2; 0]; sz := 2 |}, empty_vec 3) (ZAssignRange false ItInput [6; 7; 8; 9]) = Contract.
Proof.
  cbv zeta. split; [reflexivity|].
  split; [vm_compute; reflexivity|]. split; [vm_compute; reflexivity|]. split; [vm_compute; reflexivity|].
  split; [vm_compute; reflexivity|].
  split; [eexists; split; [vm_compute; reflexivity|repeat split; vm_compute; reflexivity]|].
  split; [eexists; split; [vm_compute; reflexivity|repeat split; vm_compute; reflexivity]|].
  split; [eexists; split; [vm_compute; reflexivity|repeat split; vm_compute; reflexivity]|].
  split; vm_compute; reflexivity.
Qed.
