(* C01 proofs, third part: the range members for every iterator category, emplace_back -> reference,
   stack::emplace -> reference (models of ModelIt.v against SpecIt.v). *)
From Tetl Require Import Lib.Base Lib.Arr C06a.Model C01.Model C01.Spec C01.ModelExt C01.SpecExt C01.ModelIt C01.SpecIt.
From Tetl Require Import C01.ProofsBase C01.ProofsInsert C01.ProofsCompose C01.ProofsStep C01.ProofsExt C01.ProofsExt2
  C01.ProofsStack C01.ProofsFast.
From Coq Require Import Lia ZArith List.
Import ListNotations.
Local Open Scope Z_scope.
Ltac Zify.zify_post_hook ::= Z.to_euclidean_division_equations.

Definition yat_arg_ok (o : yop) : Prop :=
  match o with
  | XBase o => xat_arg_ok o
  | _ => True
  end.
(* size_t arguments are read modulo 2^64 (a negative number denotes its two's complement) *)
Definition ysize_args_ok (o : yop) : Prop :=
  match o with
  | XBase o => xsize_args_ok o
  | PushBackAt _ k | EmplaceBackAt _ k | InsertCRAt _ _ k | ResizeValAt _ _ k => - 2 ^ 63 <= k < 2 ^ 64
  | InsertNAt _ _ n k => - 2 ^ 63 <= k < 2 ^ 64 /\ - 2 ^ 63 <= n
  | _ => True
  end.
(* the operations whose argument is the element number k of the vector itself, and the same call with the value y *)
Definition at_arg (o : yop) : option (bool * Z) :=
  match o with
  | PushBackAt t k | EmplaceBackAt t k | InsertCRAt t _ k | InsertNAt t _ _ k | ResizeValAt t _ k => Some (t, k)
  | _ => None
  end.
(* operator[] reads its argument as a size_t: k and k mod 2^64 are the same call *)
Definition norm_k (o : yop) : yop :=
  match o with
  | PushBackAt t k => PushBackAt t (wrapu 64 k)
  | EmplaceBackAt t k => EmplaceBackAt t (wrapu 64 k)
  | InsertCRAt t pos k => InsertCRAt t pos (wrapu 64 k)
  | InsertNAt t pos n k => InsertNAt t pos n (wrapu 64 k)
  | ResizeValAt t n k => ResizeValAt t n (wrapu 64 k)
  | o => o
  end.
Definition at_value (o : yop) (y : Z) : yop :=
  match o with
  | PushBackAt t _ => XBase (Base (PushBack t y))
  | EmplaceBackAt t _ => XBase (Base (EmplaceBack t y))
  | InsertCRAt t pos _ => XBase (Base (InsertCR t pos y))
  | InsertNAt t pos n _ => XBase (Base (InsertN t pos n y))
  | ResizeValAt t n _ => XBase (Base (ResizeVal t n y))
  | o => o
  end.

Section It.
Variable c : nat.
Hypothesis Hc : cap_ok c.

Lemma wrapu64_le x : 0 <= x -> wrapu 64 x <= x.
Proof. intros H. unfold wrapu. rewrite pow64. lia. Qed.

(** * the iterator category does not matter: every instantiation behaves like the raw-pointer one *)
Lemma insert_range_it_eq k v pos xs : inv c v -> insert_range_it k v pos xs = insert_range v pos xs.
Proof.
  intros Hi. unfold insert_range_it, insert_range.
  destruct (pos_ok v pos) eqn:Ep; [|reflexivity]. cbn [negb].
  destruct (is_random k); [reflexivity|]. cbn [andb].
  destruct (wrapu 64 (sz v + Z.of_nat (length xs)) <=? cap v) eqn:Eg; [reflexivity|]. cbn [negb].
  b2p Eg. pose proof (inv_repr c v Hi) as Hr. pose proof Hr as (rest & Hb & Hs & Hl).
  assert (Hcap : cap v = Z.of_nat c) by (unfold cap; rewrite Hl; reflexivity).
  pose proof (len_nonneg (elems v)) as Hnn. pose proof (wrapu64_le (sz v + Z.of_nat (length xs))) as Hw.
  rewrite (emplace_all_contract c Hc xs v (elems v) Hr); [reflexivity|]. unfold len in *. lia.
Qed.

Lemma move_insert_it_eq k v pos xs : inv c v -> move_insert_it k v pos xs = move_insert v pos xs.
Proof. intros Hi. rewrite move_insert_eq, <- (insert_range_it_eq k v pos xs Hi). reflexivity. Qed.

Lemma assign_range_it_eq k v xs : inv c v -> assign_range_it k v xs = assign_range v xs.
Proof.
  intros Hi. unfold assign_range_it, assign_range.
  pose proof (inv_repr c v Hi) as Hr. pose proof Hr as (rest & Hb & Hs & Hl).
  assert (Hcap : cap v = Z.of_nat c) by (unfold cap; rewrite Hl; reflexivity).
  destruct (clear_ok c v _ Hc Hr) as (v0 & E0 & Hr0). pose proof (repr_inv _ _ _ Hr0) as (Hi0 & _).
  destruct (is_random k); cbn [andb].
  - destruct (Z.of_nat (length xs) <=? cap v); cbn [negb]; [|reflexivity].
    rewrite E0. cbn [rbind]. apply insert_range_it_eq; exact Hi0.
  - rewrite E0. cbn [rbind]. rewrite (insert_range_it_eq _ v0 0 xs Hi0).
    destruct (Z.of_nat (length xs) <=? cap v) eqn:Eg; cbn [negb]; [reflexivity|]. b2p Eg.
    apply (insert_range_contract c v0 [] 0 xs Hc Hr0). right. right. unfold len in *. cbn [length]. lia.
Qed.

Lemma ctor_range_it_eq k like xs : length (buf like) = c -> ctor_range_it k like xs = ctor_range like xs.
Proof.
  intros Hl. unfold ctor_range_it, ctor_range.
  pose proof (fresh_repr c like Hl) as Hr0. pose proof (repr_inv _ _ _ Hr0) as (Hi0 & _).
  assert (Hcap : cap like = Z.of_nat c) by (unfold cap; rewrite Hl; reflexivity).
  rewrite (insert_range_it_eq k (fresh like) 0 xs Hi0).
  destruct (is_random k); cbn [andb]; [reflexivity|].
  destruct (Z.of_nat (length xs) <=? cap like) eqn:Eg; cbn [negb]; [reflexivity|]. b2p Eg.
  apply (insert_range_contract c (fresh like) [] 0 xs Hc Hr0). right. right. unfold len in *. cbn [length]. lia.
Qed.

(** * emplace_back -> reference *)
Lemma emplace_back_ref_ok v l x : repr c v l -> len l < Z.of_nat c ->
  exists v', emplace_back_ref v x = Ok (v', [len l; x]) /\ repr c v' (l ++ [x]).
Proof.
  intros Hr Hlt. unfold emplace_back_ref.
  destruct (emplace_back_ok c v l x Hc Hr Hlt) as (v' & -> & Hr'). cbn [rbind].
  rewrite (szn_repr c v l Hr).
  rewrite (oget_repr c v' (l ++ [x]) (length l) Hr') by (rewrite app_length; cbn [length]; lia).
  cbn [rbind]. rewrite app_nth2 by lia. rewrite Nat.sub_diag. cbn [nth].
  destruct Hr as (rest & Hb & Hs & Hl). rewrite Hs. exists v'. auto.
Qed.

Lemma emplace_back_ref_contract v l x : repr c v l -> len l = Z.of_nat c -> emplace_back_ref v x = Contract.
Proof. intros Hr E. unfold emplace_back_ref. rewrite (emplace_back_contract c v l x Hr E). reflexivity. Qed.

(** * arguments referring to an element of the vector itself *)
Lemma index_ok_good v l k : repr c v l -> 0 <= k < len l ->
  index_ok k (sz v) = true /\ slot_of k = Z.to_nat k /\ (Z.to_nat k < length l)%nat.
Proof.
  intros Hr Hk. pose proof Hr as (rest & Hb & Hs & Hl). pose proof (repr_len _ _ _ Hr) as Hle.
  assert (H64 := cap_ok_64 c Hc). unfold index_ok, slot_of. rewrite wrapu64_small by lia.
  rewrite Hs. split; [apply ltb_t; lia|]. split; [reflexivity|]. unfold len in *. lia.
Qed.

Lemma index_ok_bad v l k : repr c v l -> - 2 ^ 63 <= k < 2 ^ 64 -> k < 0 \/ len l <= k -> index_ok k (sz v) = false.
Proof.
  intros Hr Hk Hbad. pose proof Hr as (rest & Hb & Hs & Hl). pose proof (repr_len _ _ _ Hr) as Hle.
  pose proof Hc as Hc63. unfold cap_ok in Hc63. rewrite pow63, pow64 in *.
  unfold index_ok. rewrite Hs. apply ltb_f.
  destruct (Z_lt_le_dec k 0) as [Hn|Hn].
  - rewrite wrapu64_neg by (rewrite pow64; lia). rewrite pow64. lia.
  - rewrite wrapu64_small by (rewrite pow64; lia). lia.
Qed.

Lemma push_n_at_eq : forall f v l k, repr c v l -> (k < length l)%nat -> push_n_at f v k = push_n f v (nth k l 0).
Proof.
  induction f as [|f IH]; intros v l k Hr Hk; cbn [push_n_at push_n]; [reflexivity|].
  rewrite (oget_repr c v l k Hr Hk). cbn [rbind]. pose proof (repr_len _ _ _ Hr) as Hle.
  destruct (Z.eq_dec (len l) (Z.of_nat c)) as [E|E].
  - rewrite (push_back_contract c v l _ Hr E). reflexivity.
  - destruct (push_back_ok c v l (nth k l 0) Hc Hr) as (v' & -> & Hr'); [lia|]. cbn [rbind].
    rewrite (IH v' (l ++ [nth k l 0]) k Hr') by (rewrite app_length; lia).
    rewrite app_nth1 by exact Hk. reflexivity.
Qed.

Lemma insert_n_slot_eq v l pos n k : repr c v l -> (k < length l)%nat ->
  insert_n_slot v pos n k = insert_n v pos n (nth k l 0).
Proof. intros Hr Hk. unfold insert_n_slot, insert_n. rewrite (push_n_at_eq _ v l k Hr Hk). reflexivity. Qed.

Section AtValue.
Variables (v : vec) (l : list Z) (k : Z).
Hypothesis Hr : repr c v l.
Hypothesis Hk : 0 <= k < len l.
Let y := nth (Z.to_nat k) l 0.

Lemma push_back_at_eq : push_back_at v k = push_back v y.
Proof.
  destruct (index_ok_good v l k Hr Hk) as (E1 & E2 & E3). unfold push_back_at, push_back. rewrite E1, E2. cbn [negb].
  destruct (full v); [reflexivity|]. rewrite (oget_repr c v l _ Hr E3). reflexivity.
Qed.
Lemma emplace_back_at_eq : emplace_back_at v k = emplace_back v y.
Proof.
  destruct (index_ok_good v l k Hr Hk) as (E1 & E2 & E3). unfold emplace_back_at. rewrite E1, E2. cbn [negb].
  rewrite (oget_repr c v l _ Hr E3). cbn [rbind]. unfold emplace_back. destruct (full v); reflexivity.
Qed.
Lemma insert_n_at_eq pos n : insert_n_at v pos n k = insert_n v pos n y.
Proof.
  destruct (index_ok_good v l k Hr Hk) as (E1 & E2 & E3). unfold insert_n_at. rewrite E1, E2. cbn [negb].
  apply insert_n_slot_eq; auto.
Qed.
Lemma insert_cr_at_eq pos : insert_cr_at v pos k = insert_cr v pos y.
Proof.
  destruct (index_ok_good v l k Hr Hk) as (E1 & E2 & E3). unfold insert_cr_at, insert_cr. rewrite E1, E2. cbn [negb].
  rewrite (insert_n_slot_eq v l pos 1 _ Hr E3). reflexivity.
Qed.
Lemma resize_val_at_eq n : resize_val_at v n k = resize_val v n y.
Proof.
  destruct (index_ok_good v l k Hr Hk) as (E1 & E2 & E3). unfold resize_val_at, resize_val. rewrite E1, E2. cbn [negb].
  rewrite (insert_n_slot_eq v l _ _ _ Hr E3). reflexivity.
Qed.
End AtValue.

Section Y.
Variable pred : Z -> Z -> bool.

(* an operation whose argument is element k of the vector is the same operation with that element's value ... *)
Lemma ystep_at_value s o t k : inv c (fst s) -> inv c (snd s) -> at_arg o = Some (t, k) ->
  0 <= k < len (ssel t (abs s)) ->
  ystep pred s o = ystep pred s (at_value o (nth (Z.to_nat k) (ssel t (abs s)) 0)).
Proof.
  intros Ha Hb Ho Hk. pose proof (sel_repr c t s Ha Hb) as Hr.
  destruct o; cbn [at_arg] in Ho; try discriminate Ho; injection Ho as -> ->; cbn [at_value ystep xstep step].
  - rewrite (push_back_at_eq _ _ _ Hr Hk). reflexivity.
  - rewrite (emplace_back_at_eq _ _ _ Hr Hk). reflexivity.
  - rewrite (insert_cr_at_eq _ _ _ Hr Hk). reflexivity.
  - rewrite (insert_n_at_eq _ _ _ Hr Hk). reflexivity.
  - rewrite (resize_val_at_eq _ _ _ Hr Hk). reflexivity.
Qed.
Lemma yspec_at_value S o t k : at_arg o = Some (t, k) -> 0 <= k < len (ssel t S) ->
  yspec_step pred (Z.of_nat c) S o = yspec_step pred (Z.of_nat c) S (at_value o (nth (Z.to_nat k) (ssel t S) 0)).
Proof.
  intros Ho Hk.
  destruct o; cbn [at_arg] in Ho; try discriminate Ho; injection Ho as -> ->;
    cbn [at_value yspec_step xspec_step spec_step]; rewrite (leb_t 0 k), (ltb_t k) by lia; reflexivity.
Qed.
(* ... and with an invalid k it is stopped by operator[]'s precondition and is outside the specification *)
Lemma ystep_at_bad s o t k : inv c (fst s) -> inv c (snd s) -> at_arg o = Some (t, k) ->
  - 2 ^ 63 <= k < 2 ^ 64 -> k < 0 \/ len (ssel t (abs s)) <= k -> ystep pred s o = Contract.
Proof.
  intros Ha Hb Ho Hk Hbad. pose proof (sel_repr c t s Ha Hb) as Hr.
  pose proof (index_ok_bad _ _ k Hr Hk Hbad) as E.
  destruct o; cbn [at_arg] in Ho; try discriminate Ho; injection Ho as -> ->; cbn [ystep];
    unfold push_back_at, emplace_back_at, insert_cr_at, insert_n_at, resize_val_at; rewrite E; reflexivity.
Qed.
Lemma yspec_at_bad S o t k : at_arg o = Some (t, k) -> k < 0 \/ len (ssel t S) <= k ->
  yspec_step pred (Z.of_nat c) S o = None.
Proof.
  intros Ho Hbad.
  destruct o; cbn [at_arg] in Ho; try discriminate Ho; injection Ho as -> ->; cbn [yspec_step];
    (destruct (Z_lt_le_dec k 0); [rewrite (leb_f 0 k) by lia|rewrite (leb_t 0 k), (ltb_f k) by lia]); reflexivity.
Qed.

(* the model and the specification of an operation with a non-pointer source are those of the pointer form *)
Lemma ystep_as_pointer s o : inv c (fst s) -> inv c (snd s) -> ystep pred s o = ystep pred s (as_pointer o).
Proof.
  intros Ha Hb. pose proof (fun t => sel_inv c t s Ha Hb) as Hs.
  destruct o; cbn [as_pointer ystep xstep step]; try reflexivity.
  - rewrite insert_range_it_eq by auto. reflexivity.
  - rewrite move_insert_it_eq by auto. reflexivity.
  - rewrite assign_range_it_eq by auto. reflexivity.
  - rewrite ctor_range_it_eq by apply Hs. reflexivity.
Qed.

Lemma yspec_as_pointer S o : yspec_step pred (Z.of_nat c) S o = yspec_step pred (Z.of_nat c) S (as_pointer o).
Proof. destruct o; reflexivity. Qed.

Definition yrefines_at (s : vec * vec) (o : yop) : Prop :=
  inv c (fst s) -> inv c (snd s) -> forall s1 out,
  yspec_step pred (Z.of_nat c) (abs s) o = Some (s1, out) ->
  exists s', ystep pred s o = Ok (s', out) /\ abs s' = s1 /\ inv c (fst s') /\ inv c (snd s')
             /\ observe s' = spec_observe (Z.of_nat c) s1.

Lemma ystep_EmplaceBackRef s t x : yrefines_at s (EmplaceBackRef t x).
Proof.
  intros Ha Hb s1 out H. cbn [yspec_step] in H. apply guard_some in H as (Hpre & E). injection E as <- <-.
  b2p Hpre. cbn [ystep].
  destruct (emplace_back_ref_ok (sel t s) _ x (sel_repr c t s Ha Hb) Hpre) as (v' & -> & Hr'). cbn [rbind fst snd].
  pose proof (repr_inv _ _ _ Hr') as (Hi' & He').
  eexists. split; [reflexivity|]. destruct (upd_inv c t s v' Ha Hb Hi') as (H1 & H2).
  apply (fin c); auto. rewrite upd_abs, He'. reflexivity.
Qed.

(* every yop that is not XBase / EmplaceBackRef is, on an invariant state, some xop: the pointer form of a range member,
   or the by-value form of a call whose argument is a valid element of the vector *)
Lemma at_split s t k : k < 0 \/ len (ssel t (abs s)) <= k \/ 0 <= k < len (ssel t (abs s)).
Proof. lia. Qed.

Theorem ystep_refines : forall s o, yrefines_at s o.
Proof.
  intros s o Ha Hb s1 out H.
  destruct (at_arg o) as [[t k]|] eqn:Eo.
  - destruct (at_split s t k) as [Hbad|[Hbad|Hk]];
      try (rewrite (yspec_at_bad (abs s) o t k Eo) in H by lia; discriminate H).
    rewrite (ystep_at_value s o t k Ha Hb Eo Hk). rewrite (yspec_at_value (abs s) o t k Eo Hk) in H.
    destruct o; cbn [at_arg] in Eo; try discriminate Eo; cbn [at_value ystep yspec_step] in *;
      exact (xstep_refines pred c Hc s _ Ha Hb s1 out H).
  - destruct o; cbn [at_arg] in Eo; try discriminate Eo.
    + exact (xstep_refines pred c Hc s o Ha Hb s1 out H).
    + rewrite ystep_as_pointer by auto. rewrite yspec_as_pointer in H. cbn [as_pointer ystep yspec_step] in *.
      exact (xstep_refines pred c Hc s _ Ha Hb s1 out H).
    + rewrite ystep_as_pointer by auto. rewrite yspec_as_pointer in H. cbn [as_pointer ystep yspec_step] in *.
      exact (xstep_refines pred c Hc s _ Ha Hb s1 out H).
    + rewrite ystep_as_pointer by auto. rewrite yspec_as_pointer in H. cbn [as_pointer ystep yspec_step] in *.
      exact (xstep_refines pred c Hc s _ Ha Hb s1 out H).
    + rewrite ystep_as_pointer by auto. rewrite yspec_as_pointer in H. cbn [as_pointer ystep yspec_step] in *.
      exact (xstep_refines pred c Hc s _ Ha Hb s1 out H).
    + exact (ystep_EmplaceBackRef s t x Ha Hb s1 out H).
Qed.

Theorem yrun_refines : forall ops s outs, inv c (fst s) -> inv c (snd s) ->
  yspec_run pred (Z.of_nat c) (abs s) ops = Some outs ->
  yrun pred s ops = map Ok outs.
Proof.
  induction ops as [|o rest IH]; intros s outs Ha Hb H; cbn [yspec_run yrun] in *.
  - injection H as <-. reflexivity.
  - destruct (yspec_step pred (Z.of_nat c) (abs s) o) as [[s1 out]|] eqn:E; [|discriminate].
    destruct (yspec_run pred (Z.of_nat c) s1 rest) as [r|] eqn:Er; [|discriminate].
    injection H as <-.
    destruct (ystep_refines s o Ha Hb s1 out E) as (s' & -> & Habs & Ha' & Hb' & Hobs).
    cbn [map]. rewrite Hobs. f_equal. apply IH; auto. rewrite Habs. exact Er.
Qed.

Lemma wrapu64_idem k : wrapu 64 (wrapu 64 k) = wrapu 64 k.
Proof. unfold wrapu. rewrite Z.mod_mod by (rewrite pow64; lia). reflexivity. Qed.

Lemma ystep_norm s o : ystep pred s o = ystep pred s (norm_k o).
Proof.
  destruct o; try reflexivity; cbn [norm_k ystep];
    unfold push_back_at, emplace_back_at, insert_cr_at, insert_n_at, resize_val_at, index_ok, slot_of;
    rewrite wrapu64_idem; reflexivity.
Qed.
Lemma at_arg_norm o t k : at_arg o = Some (t, k) -> at_arg (norm_k o) = Some (t, wrapu 64 k).
Proof. destruct o; cbn [at_arg norm_k]; intros E; try discriminate E; injection E as -> ->; reflexivity. Qed.

Lemma ystep_safe_at s o t k : inv c (fst s) -> inv c (snd s) -> at_arg o = Some (t, k) -> - 2 ^ 63 <= k < 2 ^ 64 ->
  safe_step c (ystep pred s o).
Proof.
  intros Ha Hb Eo Hk64.
  destruct (at_split s t k) as [Hbad|[Hbad|Hk]].
  - rewrite (ystep_at_bad s o t k Ha Hb Eo) by lia. exact I.
  - rewrite (ystep_at_bad s o t k Ha Hb Eo) by lia. exact I.
  - rewrite (ystep_at_value s o t k Ha Hb Eo Hk).
    destruct o; cbn [at_arg] in Eo; try discriminate Eo; cbn [at_value ystep];
      apply (xstep_safe pred c Hc); auto; exact I.
Qed.

Theorem ystep_safe : forall s o, inv c (fst s) -> inv c (snd s) -> yat_arg_ok o -> safe_step c (ystep pred s o).
Proof.
  intros s o Ha Hb Harg.
  destruct (at_arg o) as [[t k]|] eqn:Eo.
  - rewrite ystep_norm. apply (ystep_safe_at s (norm_k o) t (wrapu 64 k) Ha Hb (at_arg_norm o t k Eo)).
    pose proof (wrapu64_range k). rewrite pow63. lia.
  - destruct o; cbn [at_arg] in Eo; try discriminate Eo.
    + exact (xstep_safe pred c Hc s o Ha Hb Harg).
    + rewrite ystep_as_pointer by auto. cbn [as_pointer ystep]. apply (xstep_safe pred c Hc); auto; exact I.
    + rewrite ystep_as_pointer by auto. cbn [as_pointer ystep]. apply (xstep_safe pred c Hc); auto; exact I.
    + rewrite ystep_as_pointer by auto. cbn [as_pointer ystep]. apply (xstep_safe pred c Hc); auto; exact I.
    + rewrite ystep_as_pointer by auto. cbn [as_pointer ystep]. apply (xstep_safe pred c Hc); auto; exact I.
    + cbn [ystep]. pose proof (sel_repr c t s Ha Hb) as Hr. pose proof (repr_len _ _ _ Hr) as Hle.
      destruct (Z.eq_dec (len (ssel t (abs s))) (Z.of_nat c)) as [E|E].
      * rewrite (emplace_back_ref_contract _ _ x Hr E). exact I.
      * destruct (emplace_back_ref_ok _ _ x Hr) as (v' & -> & Hr'); [lia|]. cbn [rbind fst snd safe_step].
        apply upd_inv; auto. apply repr_inv in Hr'. apply Hr'.
Qed.

Theorem ystep_no_ub : forall s o, inv c (fst s) -> inv c (snd s) -> yat_arg_ok o ->
  (forall k, ystep pred s o <> UB k) /\ ystep pred s o <> OutOfFuel.
Proof.
  intros s o Ha Hb Harg. pose proof (ystep_safe s o Ha Hb Harg) as H.
  destruct (ystep pred s o); cbn [safe_step] in H; try contradiction; split; intros; discriminate.
Qed.

Theorem ystep_contract_fires : forall s o, inv c (fst s) -> inv c (snd s) -> ysize_args_ok o ->
  yspec_step pred (Z.of_nat c) (abs s) o = None -> ystep pred s o = Contract.
Proof.
  intros s o Ha Hb Harg H.
  destruct (at_arg o) as [[t k]|] eqn:Eo.
  - assert (Hk64 : - 2 ^ 63 <= k < 2 ^ 64).
    { destruct o; cbn [at_arg] in Eo; try discriminate Eo; injection Eo as _ <-; cbn [ysize_args_ok] in Harg; tauto. }
    destruct (at_split s t k) as [Hbad|[Hbad|Hk]]; try (apply (ystep_at_bad s o t k Ha Hb Eo Hk64); lia).
    rewrite (ystep_at_value s o t k Ha Hb Eo Hk). rewrite (yspec_at_value (abs s) o t k Eo Hk) in H.
    destruct o; cbn [at_arg] in Eo; try discriminate Eo; cbn [at_value ystep yspec_step ysize_args_ok] in *;
      apply (xstep_contract_fires pred c Hc); auto; cbn [xsize_args_ok size_args_ok]; tauto.
  - destruct o; cbn [at_arg] in Eo; try discriminate Eo.
    + exact (xstep_contract_fires pred c Hc s o Ha Hb Harg H).
    + rewrite ystep_as_pointer by auto. rewrite yspec_as_pointer in H. cbn [as_pointer ystep yspec_step] in *.
      apply (xstep_contract_fires pred c Hc); auto; exact I.
    + rewrite ystep_as_pointer by auto. rewrite yspec_as_pointer in H. cbn [as_pointer ystep yspec_step] in *.
      apply (xstep_contract_fires pred c Hc); auto; exact I.
    + rewrite ystep_as_pointer by auto. rewrite yspec_as_pointer in H. cbn [as_pointer ystep yspec_step] in *.
      apply (xstep_contract_fires pred c Hc); auto; exact I.
    + rewrite ystep_as_pointer by auto. rewrite yspec_as_pointer in H. cbn [as_pointer ystep yspec_step] in *.
      apply (xstep_contract_fires pred c Hc); auto; exact I.
    + cbn [yspec_step] in H. apply guard_none in H. b2p H. cbn [ystep].
      pose proof (sel_repr c t s Ha Hb) as Hr. pose proof (repr_len _ _ _ Hr) as Hle.
      rewrite (emplace_back_ref_contract _ _ x Hr) by lia. reflexivity.
Qed.

(** the functions the driver runs *)
Theorem ystep_fast_eq : forall s o, inv c (fst s) -> inv c (snd s) -> ystep_fast pred s o = ystep pred s o.
Proof. intros s o Ha Hb. destruct o; cbn [ystep_fast ystep]; try reflexivity. apply (xstep_fast_eq c Hc); auto. Qed.

(* a normal return keeps the invariant, for all arguments (an index beyond 2^64 included: operator[] reads it modulo 2^64) *)
Lemma ystep_keeps_inv s o s' out : inv c (fst s) -> inv c (snd s) -> ystep pred s o = Ok (s', out) ->
  inv c (fst s') /\ inv c (snd s').
Proof.
  intros Ha Hb H.
  destruct o as [xo| | | | | | | | | |];
    try (match type of H with ystep _ _ ?o = _ => pose proof (ystep_safe s o Ha Hb I) as S end; rewrite H in S; exact S).
  exact (xstep_keeps_inv c Hc pred s xo s' out Ha Hb H).
Qed.

Theorem yrun_fast_eq : forall ops s, inv c (fst s) -> inv c (snd s) -> yrun_fast pred s ops = yrun pred s ops.
Proof.
  induction ops as [|o rest IH]; intros s Ha Hb; cbn [yrun_fast yrun]; [reflexivity|].
  rewrite ystep_fast_eq by auto.
  destruct (ystep pred s o) as [[s' out]| | |] eqn:E; try reflexivity.
  destruct (ystep_keeps_inv s o s' out Ha Hb E) as (Ha' & Hb'). rewrite IH by auto. reflexivity.
Qed.
End Y.

(** * stack::emplace -> reference *)
Definition st_yrefines_at (s : vec * vec) (o : st_yop) : Prop :=
  inv c (fst s) -> inv c (snd s) -> forall s1 out,
  st_yspec_step (Z.of_nat c) (st_abs s) o = Some (s1, out) ->
  exists s', st_ystep s o = Ok (s', out) /\ st_abs s' = s1 /\ inv c (fst s') /\ inv c (snd s')
             /\ observe s' = st_spec_observe (Z.of_nat c) s1.

Theorem st_ystep_refines : forall s o, st_yrefines_at s o.
Proof.
  intros s o Ha Hb s1 out H. destruct o as [o|t x].
  - exact (st_step_refines c Hc s o Ha Hb s1 out H).
  - cbn [st_yspec_step] in H. apply guard_some in H as (Hpre & E). injection E as <- <-. b2p Hpre.
    rewrite st_ssel, len_rev in Hpre. cbn [st_ystep].
    pose proof (inv_repr c _ (sel_inv c t s Ha Hb)) as Hr.
    destruct (emplace_back_ref_ok (sel t s) _ x Hr Hpre) as (v' & -> & Hr'). cbn [rbind fst snd].
    pose proof (repr_inv _ _ _ Hr') as (Hi' & He').
    rewrite st_ssel, len_rev.
    eexists. split; [reflexivity|]. destruct (upd_inv c t s v' Ha Hb Hi') as (H1 & H2).
    apply (st_fin c); auto. rewrite st_upd_abs, He', rev_app_distr. reflexivity.
Qed.

Theorem st_yrun_refines : forall ops s outs, inv c (fst s) -> inv c (snd s) ->
  st_yspec_run (Z.of_nat c) (st_abs s) ops = Some outs ->
  st_yrun s ops = map Ok outs.
Proof.
  induction ops as [|o rest IH]; intros s outs Ha Hb H; cbn [st_yspec_run st_yrun] in *.
  - injection H as <-. reflexivity.
  - destruct (st_yspec_step (Z.of_nat c) (st_abs s) o) as [[s1 out]|] eqn:E; [|discriminate].
    destruct (st_yspec_run (Z.of_nat c) s1 rest) as [r|] eqn:Er; [|discriminate].
    injection H as <-.
    destruct (st_ystep_refines s o Ha Hb s1 out E) as (s' & -> & Habs & Ha' & Hb' & Hobs).
    cbn [map]. rewrite Hobs. f_equal. apply IH; auto. rewrite Habs. exact Er.
Qed.

Theorem st_ystep_contract_fires : forall s o, inv c (fst s) -> inv c (snd s) ->
  st_yspec_step (Z.of_nat c) (st_abs s) o = None -> st_ystep s o = Contract.
Proof.
  intros s o Ha Hb H. destruct o as [o|t x].
  - exact (st_step_contract_fires c s o Ha Hb H).
  - cbn [st_yspec_step] in H. apply guard_none in H. b2p H. rewrite st_ssel, len_rev in H. cbn [st_ystep].
    pose proof (inv_repr c _ (sel_inv c t s Ha Hb)) as Hr. pose proof (repr_len _ _ _ Hr) as Hle.
    rewrite (emplace_back_ref_contract _ _ x Hr) by lia. reflexivity.
Qed.
End It.
