(* C01 — Fixed-capacity vectors behave exactly like std::vector within capacity.  Second property file: the theorems
   about the operations of C01/ModelExt.v (the first file, Properties.v, is required by C02/C05/C09 and is unchanged).
   Property theorems only: each is closed by [exact]/a two-line wrapper of a lemma of Proofs*.v, then Print Assumptions.

   Vocabulary as in Properties.v:  inv c v := length (buf v) = c /\ 0 <= sz v <= c;  abs s := the two vectors as lists;
   c : nat is the capacity, side condition Z.of_nat c < 2^63 only.
   xop      = every operation of Model.op (through Base) + reverse/const iterators, data(), writes through the references
              returned by operator[] / front() / back(), max_size(), non-member swap, self move-assignment,
              move_insert, the three constructors, "copy, then change one of the two".
   st_op    = the whole interface of etl::stack over a static_vector.
   iv_xop   = every operation of Model.iv_op + copy/move assignment, the remaining try_/unchecked_ members, a run of
              try_push_back calls, writes through references, data(), max_size(), independence of a copy. *)
From Tetl Require Import Lib.Base Lib.Arr C06a.Model C01.Model C01.Spec C01.ModelExt C01.SpecExt.
From Tetl Require Import C01.ProofsBase C01.ProofsStep C01.ProofsIv C01.ProofsExt C01.ProofsExt2 C01.ProofsStack
  C01.ProofsIvExt C01.ProofsFast C01.ProofsIndep.
Local Open Scope Z_scope.

(** 1. One-step refinement for all 43 static_vector operations (the 28 of Properties.v and the 15 new ones):
    whenever the std::vector specification defines the call, the model of the etl code returns normally with the same
    returned values (iterator offsets, reference offsets, counts, elements read through reverse / const iterators and
    data()), reaches the specified abstract state, keeps the invariant, and agrees on everything observable. *)
Theorem C01_xstep_refines : forall pred c s o s1 out, Z.of_nat c < 2 ^ 63 ->
  inv c (fst s) -> inv c (snd s) ->
  xspec_step pred (Z.of_nat c) (abs s) o = Some (s1, out) ->
  exists s', xstep pred s o = Ok (s', out) /\ abs s' = s1 /\ inv c (fst s') /\ inv c (snd s')
             /\ observe s' = spec_observe (Z.of_nat c) s1.
Proof. intros pred c s o s1 out Hc Ha Hb. exact (xstep_refines pred c Hc s o Ha Hb s1 out). Qed.
Print Assumptions C01_xstep_refines.

(** 2. History refinement: every history over the 43 operations that std::vector accepts within the capacity, started
    on two freshly constructed static_vectors of ANY capacity, yields step by step the outputs and observations of
    std::vector. *)
Theorem C01_xvector_refines_std : forall pred c ops outs, Z.of_nat c < 2 ^ 63 ->
  xspec_run pred (Z.of_nat c) ([], []) ops = Some outs ->
  xrun pred (empty_vec c, empty_vec c) ops = map Ok outs.
Proof.
  intros pred c ops outs Hc H. apply (xrun_refines pred c Hc); cbn [fst snd]; try apply empty_inv.
  unfold abs. cbn [fst snd]. rewrite empty_elems. exact H.
Qed.
Print Assumptions C01_xvector_refines_std.

(* ... and from every state satisfying the invariant (every reachable content state) *)
Theorem C01_xhistory_refines : forall pred c ops s outs, Z.of_nat c < 2 ^ 63 ->
  inv c (fst s) -> inv c (snd s) ->
  xspec_run pred (Z.of_nat c) (abs s) ops = Some outs ->
  xrun pred s ops = map Ok outs.
Proof. intros pred c ops s outs Hc. exact (xrun_refines pred c Hc ops s outs). Qed.
Print Assumptions C01_xhistory_refines.

(** 3. Safety of the 43 operations for ALL arguments: never UB, never out of fuel, and a normal return keeps the
    invariant — in particular the storage still has exactly Capacity cells (capacity never changes). *)
Theorem C01_xno_ub_invariant : forall pred c s o, Z.of_nat c < 2 ^ 63 ->
  inv c (fst s) -> inv c (snd s) ->
  match o with Base (At _ i) => i < 2 ^ 64 | _ => True end ->
  (forall k, xstep pred s o <> UB k) /\ xstep pred s o <> OutOfFuel /\
  (forall s' out, xstep pred s o = Ok (s', out) -> inv c (fst s') /\ inv c (snd s')).
Proof.
  intros pred c s o Hc Ha Hb Harg.
  assert (Harg' : xat_arg_ok o) by (destruct o as [o| | | | | | | | | | | | | | |]; try exact I; destruct o; exact Harg || exact I).
  destruct (xstep_no_ub pred c Hc s o Ha Hb Harg') as (H1 & H2). split; [exact H1|]. split; [exact H2|].
  intros s' out H. pose proof (xstep_safe pred c Hc s o Ha Hb Harg') as S. rewrite H in S. exact S.
Qed.
Print Assumptions C01_xno_ub_invariant.

(* every state reachable from two freshly constructed vectors by ANY history (no restriction on the arguments)
   satisfies the invariant — so "inv c (fst s) /\ inv c (snd s)" in the theorems of this file and of Properties.v reads
   "s is a reachable content state" *)
Theorem C01_reachable_invariant : forall pred c ops s, Z.of_nat c < 2 ^ 63 ->
  xexec pred (empty_vec c, empty_vec c) ops = Some s -> inv c (fst s) /\ inv c (snd s).
Proof.
  intros pred c ops s Hc H. apply (xexec_inv c Hc pred ops (empty_vec c, empty_vec c) s); cbn [fst snd]; auto using empty_inv.
Qed.
Print Assumptions C01_reachable_invariant.

(** 4. Contract exactness of the new operations (with Properties.C01_contract_fires for the old ones): whenever the
    specification does not define the call, a TETL_PRECONDITION stops it.  size_t arguments are read as size_t values
    (a negative number denotes its two's complement, >= -2^63). *)
Theorem C01_xcontract_fires : forall pred c s o, Z.of_nat c < 2 ^ 63 ->
  inv c (fst s) -> inv c (snd s) -> xsize_args_ok o ->
  xspec_step pred (Z.of_nat c) (abs s) o = None -> xstep pred s o = Contract.
Proof. intros pred c s o Hc. exact (xstep_contract_fires pred c Hc s o). Qed.
Print Assumptions C01_xcontract_fires.

(** 5. Independence.  (a) An operation that names only object u leaves the OTHER object exactly as it was (same
    storage, same stored size) — unconditionally, for every state and argument.  (b) A copy is independent of its
    source: right after  v_t = v_other  both hold the same elements and the source is untouched; from then on ANY
    history that names only one of the two — the copy or the source — leaves the other one unchanged, so every
    observer (size, empty, full, elements, iterators, relations against itself) answers as before. *)
Theorem C01_other_object_untouched : forall pred u s o s' out, touches_only u o = true ->
  xstep pred s o = Ok (s', out) -> sel (negb u) s' = sel (negb u) s.
Proof. exact xstep_frame. Qed.
Print Assumptions C01_other_object_untouched.

Theorem C01_copy_independent : forall pred c t s s1, Z.of_nat c < 2 ^ 63 -> inv c (fst s) -> inv c (snd s) ->
  xstep pred s (Base (CopyAssign t)) = Ok (s1, []) ->
  elems (sel t s1) = elems (sel (negb t) s1) /\ sel (negb t) s1 = sel (negb t) s /\
  forall u ops s2, Forall (fun o => touches_only u o = true) ops -> xexec pred s1 ops = Some s2 ->
    sel (negb u) s2 = sel (negb u) s1 /\
    observe (sel (negb u) s2, sel (negb u) s2) = observe (sel (negb u) s1, sel (negb u) s1).
Proof. exact copy_independent. Qed.
Print Assumptions C01_copy_independent.

(* the same for a stack assigned from another stack and an inplace_vector assigned from another inplace_vector
   (operations naming exactly one object: st_touches_only / iv_touches_only) *)
Theorem C01_stack_copy_independent : forall c t s s1, Z.of_nat c < 2 ^ 63 -> inv c (fst s) -> inv c (snd s) ->
  st_step s (StCopyAssign t) = Ok (s1, []) ->
  elems (sel t s1) = elems (sel (negb t) s1) /\ sel (negb t) s1 = sel (negb t) s /\
  forall u ops s2, Forall (fun o => st_touches_only u o = true) ops -> st_exec s1 ops = Some s2 ->
    sel (negb u) s2 = sel (negb u) s1.
Proof. exact st_copy_independent. Qed.
Print Assumptions C01_stack_copy_independent.

Theorem C01_inplace_vector_copy_independent : forall c t s s1, Z.of_nat c < 2 ^ 63 -> inv c (fst s) -> inv c (snd s) ->
  iv_xstep s (IvCopyAssign t) = Ok (s1, []) ->
  elems (sel t s1) = elems (sel (negb t) s1) /\ sel (negb t) s1 = sel (negb t) s /\
  forall u ops s2, Forall (fun o => iv_touches_only u o = true) ops -> iv_xexec s1 ops = Some s2 ->
    sel (negb u) s2 = sel (negb u) s1.
Proof. exact iv_copy_independent. Qed.
Print Assumptions C01_inplace_vector_copy_independent.

(** 6. etl::stack<T, static_vector<T, N>> refines std::stack (a LIFO list, head = top; st_abs = reversed container):
    one step, whole histories from two default-constructed stacks, and contract exactness (push on a full stack,
    pop / top on an empty one, construction from a container that does not fit). *)
Theorem C01_stack_step_refines : forall c s o s1 out, Z.of_nat c < 2 ^ 63 ->
  inv c (fst s) -> inv c (snd s) ->
  st_spec_step (Z.of_nat c) (st_abs s) o = Some (s1, out) ->
  exists s', st_step s o = Ok (s', out) /\ st_abs s' = s1 /\ inv c (fst s') /\ inv c (snd s')
             /\ observe s' = st_spec_observe (Z.of_nat c) s1.
Proof. intros c s o s1 out Hc Ha Hb. exact (st_step_refines c Hc s o Ha Hb s1 out). Qed.
Print Assumptions C01_stack_step_refines.

Theorem C01_stack_refines_std : forall c ops outs, Z.of_nat c < 2 ^ 63 ->
  st_spec_run (Z.of_nat c) ([], []) ops = Some outs ->
  st_run (empty_vec c, empty_vec c) ops = map Ok outs.
Proof.
  intros c ops outs Hc H. apply (st_run_refines c Hc); cbn [fst snd]; try apply empty_inv.
  unfold st_abs. cbn [fst snd]. rewrite empty_elems. exact H.
Qed.
Print Assumptions C01_stack_refines_std.

Theorem C01_stack_contract_fires : forall c s o, Z.of_nat c < 2 ^ 63 ->
  inv c (fst s) -> inv c (snd s) ->
  st_spec_step (Z.of_nat c) (st_abs s) o = None -> st_step s o = Contract.
Proof. intros c s o _. exact (st_step_contract_fires c s o). Qed.
Print Assumptions C01_stack_contract_fires.

(** 7. inplace_vector, all 24 operations (the 9 of Properties.v and the 15 new ones, copy/move assignment included). *)
Theorem C01_inplace_vector_xstep_refines : forall c s o s1 out, Z.of_nat c < 2 ^ 63 ->
  inv c (fst s) -> inv c (snd s) ->
  iv_xspec_step (Z.of_nat c) (abs s) o = Some (s1, out) ->
  exists s', iv_xstep s o = Ok (s', out) /\ abs s' = s1 /\ inv c (fst s') /\ inv c (snd s')
             /\ observe s' = spec_observe (Z.of_nat c) s1.
Proof. intros c s o s1 out Hc Ha Hb. exact (iv_xstep_refines c Hc s o Ha Hb s1 out). Qed.
Print Assumptions C01_inplace_vector_xstep_refines.

Theorem C01_inplace_vector_xrefines : forall c ops outs, Z.of_nat c < 2 ^ 63 ->
  iv_xspec_run (Z.of_nat c) ([], []) ops = Some outs ->
  iv_xrun (empty_vec c, empty_vec c) ops = map Ok outs.
Proof.
  intros c ops outs Hc H. apply (iv_xrun_refines c Hc); cbn [fst snd]; try apply empty_inv.
  unfold abs. cbn [fst snd]. rewrite empty_elems. exact H.
Qed.
Print Assumptions C01_inplace_vector_xrefines.

(* try_emplace_back, try_push_back(T&&) and any run of try_ calls on a full inplace_vector return null / 0 and
   change nothing (try_push_back(T const&) is Properties.C01_try_push_back_full) *)
Theorem C01_inplace_vector_try_full : forall c s t x n, Z.of_nat c < 2 ^ 63 ->
  inv c (fst s) -> inv c (snd s) -> sz (sel t s) = Z.of_nat c ->
  iv_xstep s (IvTryEmplace t x) = Ok (s, [0]) /\ iv_xstep s (IvTryPushRv t x) = Ok (s, [0]) /\
  iv_xstep s (IvFill t n x) = Ok (s, [0]).
Proof. intros c s t x n _. exact (iv_try_full_all c s t x n). Qed.
Print Assumptions C01_inplace_vector_try_full.

Theorem C01_inplace_vector_xno_ub_invariant : forall c s o, Z.of_nat c < 2 ^ 63 ->
  inv c (fst s) -> inv c (snd s) ->
  match o with IvBase (IvAt _ i) => i < 2 ^ 64 | _ => True end ->
  (forall k, iv_xstep s o <> UB k) /\ iv_xstep s o <> OutOfFuel /\
  (forall s' out, iv_xstep s o = Ok (s', out) -> inv c (fst s') /\ inv c (snd s')).
Proof.
  intros c s o Hc Ha Hb Harg.
  assert (Harg' : iv_xat_arg_ok o) by (destruct o as [o| | | | | | | | | | | | | | |]; try exact I; destruct o; exact Harg || exact I).
  destruct (iv_xstep_no_ub c Hc s o Ha Hb Harg') as (H1 & H2). split; [exact H1|]. split; [exact H2|].
  intros s' out H. pose proof (iv_xstep_safe c Hc s o Ha Hb Harg') as S. rewrite H in S. exact S.
Qed.
Print Assumptions C01_inplace_vector_xno_ub_invariant.

Theorem C01_inplace_vector_xcontract_fires : forall c s o, Z.of_nat c < 2 ^ 63 ->
  inv c (fst s) -> inv c (snd s) -> iv_xsize_args_ok o ->
  iv_xspec_step (Z.of_nat c) (abs s) o = None -> iv_xstep s o = Contract.
Proof. intros c s o Hc. exact (iv_xstep_contract_fires c Hc s o). Qed.
Print Assumptions C01_inplace_vector_xcontract_fires.

(** 8. The functions the correspondence run executes.  The extracted model is slow on long runs of appends (sizes are
    unary numbers, the capacity is recomputed as the length of the storage list at every call), so the driver runs
    xrun_fast / iv_xrun_fast, which replace  insert(end(), n, x)  and a run of try_push_back calls by the closed form
    fill_fast and are otherwise xstep / iv_xstep.  They return EXACTLY the same results as xrun / iv_xrun from every
    state satisfying the invariant — in particular from the two fresh vectors every case starts with. *)
Theorem C01_fast_model_equal : forall pred c ops s, Z.of_nat c < 2 ^ 63 -> inv c (fst s) -> inv c (snd s) ->
  xrun_fast pred s ops = xrun pred s ops.
Proof. intros pred c ops s Hc. exact (xrun_fast_eq c Hc pred ops s). Qed.
Print Assumptions C01_fast_model_equal.

Theorem C01_inplace_vector_fast_model_equal : forall c ops s, Z.of_nat c < 2 ^ 63 -> inv c (fst s) -> inv c (snd s) ->
  iv_xrun_fast s ops = iv_xrun s ops.
Proof. intros c ops s Hc. exact (iv_xrun_fast_eq c Hc ops s). Qed.
Print Assumptions C01_inplace_vector_fast_model_equal.

(** Non-vacuity: capacity-3 histories through the new operations are accepted by the specifications and reproduced
    by the models (static_vector, stack, inplace_vector); the size type changes exactly at 254/255 and 65534/65535
    and still holds the capacity itself at 255, 256, 65535, 65536; a write through operator[] one past the end is
    outside the specification and is stopped by a contract; try_emplace_back on a full inplace_vector answers 0. *)
Example C01_ext_nonvacuous :
  let pred := fun (_ x : Z) => Z.even x in
  let ops := [CtorNVal false 2 7; Base (PushBack false 5); RIter false 0; SetAt false 1 9; SetBack false 4;
              Base (CopyAssign true); CopyIndep true true 8; Base (PopBack true); MoveInsertRange true 1 [6]; SwapFree; DataRead false;
              CIter true; MaxSize false; SelfMoveAssign true; CtorN true 1; CtorRange false [1; 2]; CtorArr true [3; 4]] in
  let sops := [StPush false 1; StPushRv false 2; StEmplace true 3; StTop false; StSetTop false 5; StSwap;
               StCopyAssign false; StMoveConstruct true; StFromContainer true [7; 8]; StRelations; StPop true] in
  let iops := [IvFill false 2 7; IvTryEmplace false 5; IvTryPushRv false 6; IvCopyAssign true; IvSetAt true 0 1;
               IvMoveAssign false; IvSetBack false 3; IvCopyIndep false false 9; IvDataRead false; IvMaxSize true] in
  let fullv := {| buf := [1; 2; 3]; sz := 3 |} in
  Z.of_nat 3 < 2 ^ 63 /\ inv 3 (empty_vec 3) /\ inv 3 fullv
  /\ (exists outs, xspec_run pred 3 ([], []) ops = Some outs /\ length outs = 17%nat
                   /\ xrun pred (empty_vec 3, empty_vec 3) ops = map Ok outs)
  /\ (exists outs, st_spec_run 3 ([], []) sops = Some outs /\ length outs = 11%nat
                   /\ st_run (empty_vec 3, empty_vec 3) sops = map Ok outs)
  /\ (exists outs, iv_xspec_run 3 ([], []) iops = Some outs /\ length outs = 10%nat
                   /\ iv_xrun (empty_vec 3, empty_vec 3) iops = map Ok outs)
  /\ map size_bits [254; 255; 256; 65534; 65535; 65536] = [8; 16; 16; 16; 32; 32]
  /\ map (fun n => wrapu (size_bits n) n) [255; 256; 65535; 65536] = [255; 256; 65535; 65536]
  /\ xspec_step pred 3 (abs (fullv, empty_vec 3)) (SetAt false 3 9) = None
  /\ xstep pred (fullv, empty_vec 3) (SetAt false 3 9) = Contract
  /\ iv_xstep (fullv, empty_vec 3) (IvTryEmplace false 4) = Ok ((fullv, empty_vec 3), [0]).
Proof.
  cbv zeta. split; [reflexivity|]. split; [vm_compute; repeat split; discriminate|].
  split; [vm_compute; repeat split; discriminate|].
  split; [eexists; split; [vm_compute; reflexivity|split; vm_compute; reflexivity]|].
  split; [eexists; split; [vm_compute; reflexivity|split; vm_compute; reflexivity]|].
  split; [eexists; split; [vm_compute; reflexivity|split; vm_compute; reflexivity]|].
  repeat split; vm_compute; reflexivity.
Qed.
