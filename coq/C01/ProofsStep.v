(* C01 proofs, part 5: one-step refinement of std::vector by static_vector, one lemma per
   operation, then history refinement by induction, safety (no UB / fuel exhaustion), contract
   exactness, capacity constancy. *)
From Tetl Require Import Lib.Base Lib.Arr C06a.Model C06a.P1_Common.
From Tetl Require Import C01.Model C01.Spec C01.ProofsBase C01.ProofsInsert C01.ProofsErase C01.ProofsCompose.
From Coq Require Import Arith Lia.
Ltac Zify.zify_post_hook ::= Z.to_euclidean_division_equations.
Local Open Scope Z_scope.

Lemma guard_some {A} b (x y : A) : guard b x = Some y -> b = true /\ x = y.
Proof. destruct b; cbn [guard]; intros H; [injection H as <-; auto|discriminate]. Qed.
Lemma guard_none {A} b (x : A) : guard b x = None -> b = false.
Proof. destruct b; cbn [guard]; intros H; [discriminate|reflexivity]. Qed.

Lemma supd_ssel t S : supd t S (ssel t S) = S.
Proof. destruct t, S; reflexivity. Qed.
Lemma upd_sel t s : upd t s (sel t s) = s.
Proof. destruct t, s; reflexivity. Qed.

(* which arguments are size_t values: a size_t argument is given as an integer below 2^64; a
   negative integer denotes its two's complement (down to -2^63) *)
Definition at_arg_ok (o : op) : Prop :=
  match o with At _ i => i < 2 ^ 64 | _ => True end.
Definition size_args_ok (o : op) : Prop :=
  match o with
  | InsertN _ _ n _ | AssignN _ n _ => - 2 ^ 63 <= n
  | At _ i => - 2 ^ 63 <= i < 2 ^ 64
  | _ => True
  end.

Section Step.
Variable pred : Z -> Z -> bool.
Variable c : nat.
Hypothesis Hc : cap_ok c.

Definition refines_at (s : vec * vec) (o : op) : Prop :=
  inv c (fst s) -> inv c (snd s) -> forall s1 out,
  spec_step pred (Z.of_nat c) (abs s) o = Some (s1, out) ->
  exists s', step pred s o = Ok (s', out) /\ abs s' = s1 /\ inv c (fst s') /\ inv c (snd s')
             /\ observe s' = spec_observe (Z.of_nat c) s1.

Lemma fin s' s1 : abs s' = s1 -> inv c (fst s') -> inv c (snd s') ->
  abs s' = s1 /\ inv c (fst s') /\ inv c (snd s') /\ observe s' = spec_observe (Z.of_nat c) s1.
Proof.
  intros <- H1 H2. split; [reflexivity|]. split; [exact H1|]. split; [exact H2|].
  apply observe_ok; auto.
Qed.

Lemma mut_step s t r l' (out : list Z) : inv c (fst s) -> inv c (snd s) -> okr c r l' ->
  exists s', (do v <- r; Ok (upd t s v, out)) = Ok (s', out) /\ abs s' = supd t (abs s) l'
             /\ inv c (fst s') /\ inv c (snd s')
             /\ observe s' = spec_observe (Z.of_nat c) (supd t (abs s) l').
Proof.
  intros Ha Hb (v' & -> & Hr). apply repr_inv in Hr as (Hi & He). exists (upd t s v').
  cbn [rbind]. split; [reflexivity|]. destruct (upd_inv c t s v' Ha Hb Hi). apply fin; auto.
  rewrite upd_abs, He. reflexivity.
Qed.

Ltac open_mut H Hpre :=
  let E := fresh "E" in
  cbn [spec_step] in H; apply guard_some in H as (Hpre & E); injection E as <- <-; b2p Hpre; cbn [step].

Ltac facts s t :=
  pose proof (len_nonneg (ssel t (abs s))); assert (H64 := cap_ok_64 c Hc).

(** ** one lemma per operation *)
Lemma step_PushBack s t x : refines_at s (PushBack t x).
Proof.
  intros Ha Hb s1 out H. open_mut H Hpre. apply mut_step; auto.
  apply push_back_ok; auto using sel_repr.
Qed.

Lemma step_EmplaceBack s t x : refines_at s (EmplaceBack t x).
Proof.
  intros Ha Hb s1 out H. open_mut H Hpre. apply mut_step; auto.
  apply emplace_back_ok; auto using sel_repr.
Qed.

Lemma step_PopBack s t : refines_at s (PopBack t).
Proof.
  intros Ha Hb s1 out H. open_mut H Hpre. apply mut_step; auto.
  apply pop_back_ok; auto using sel_repr.
Qed.

Lemma step_InsertCR s t pos x : refines_at s (InsertCR t pos x).
Proof.
  intros Ha Hb s1 out H. open_mut H Hpre. apply mut_step; auto.
  apply insert_cr_ok; auto using sel_repr; lia.
Qed.

Lemma step_InsertRV s t pos x : refines_at s (InsertRV t pos x).
Proof.
  intros Ha Hb s1 out H. open_mut H Hpre. apply mut_step; auto.
  apply insert_rv_ok; auto using sel_repr; lia.
Qed.

Lemma step_EmplaceAt s t pos x : refines_at s (EmplaceAt t pos x).
Proof.
  intros Ha Hb s1 out H. open_mut H Hpre. apply mut_step; auto. rewrite emplace_at_eq.
  apply insert_rv_ok; auto using sel_repr; lia.
Qed.

Lemma step_InsertN s t pos n x : refines_at s (InsertN t pos n x).
Proof.
  intros Ha Hb s1 out H. open_mut H Hpre. apply mut_step; auto. facts s t.
  apply insert_n_ok; auto using sel_repr; try lia.
  rewrite wrapu64_small by lia. lia.
Qed.

Lemma step_InsertRange s t pos xs : refines_at s (InsertRange t pos xs).
Proof.
  intros Ha Hb s1 out H. open_mut H Hpre. apply mut_step; auto.
  apply insert_range_ok; auto using sel_repr; lia.
Qed.

Lemma step_EraseAt s t pos : refines_at s (EraseAt t pos).
Proof.
  intros Ha Hb s1 out H. open_mut H Hpre. apply mut_step; auto.
  apply erase_at_ok; auto using sel_repr; lia.
Qed.

Lemma step_EraseRange s t f l : refines_at s (EraseRange t f l).
Proof.
  intros Ha Hb s1 out H. open_mut H Hpre. apply mut_step; auto.
  apply erase_range_ok; auto using sel_repr; lia.
Qed.

Lemma step_Clear s t : refines_at s (Clear t).
Proof.
  intros Ha Hb s1 out H. open_mut H Hpre. apply mut_step; auto.
  eapply clear_ok; auto using sel_repr.
Qed.

Lemma step_Resize s t n : refines_at s (Resize t n).
Proof.
  intros Ha Hb s1 out H. open_mut H Hpre. apply mut_step; auto.
  apply (resize_ok c _ _ n); auto using sel_repr; lia.
Qed.

Lemma step_ResizeVal s t n x : refines_at s (ResizeVal t n x).
Proof.
  intros Ha Hb s1 out H. open_mut H Hpre. apply mut_step; auto.
  apply (resize_val_ok c _ _ n x); auto using sel_repr; lia.
Qed.

Lemma step_AssignN s t n x : refines_at s (AssignN t n x).
Proof.
  intros Ha Hb s1 out H. open_mut H Hpre. apply mut_step; auto. facts s t.
  eapply assign_n_ok; auto using sel_repr; try lia.
  rewrite wrapu64_small by lia. lia.
Qed.

Lemma step_AssignRange s t xs : refines_at s (AssignRange t xs).
Proof.
  intros Ha Hb s1 out H. open_mut H Hpre. apply mut_step; auto.
  eapply assign_range_ok; auto using sel_repr.
Qed.

Lemma step_Swap s : refines_at s Swap.
Proof.
  intros Ha Hb s1 out H. cbn [spec_step] in H. injection H as <- <-. cbn [step].
  destruct (swap_vec_ok c (fst s) _ (snd s) _ Hc (inv_repr _ _ Ha) (inv_repr _ _ Hb))
    as (a' & b' & -> & Ha' & Hb').
  cbn [rbind]. exists (a', b'). split; [reflexivity|].
  apply repr_inv in Ha' as (Hia & Hea). apply repr_inv in Hb' as (Hib & Heb).
  apply fin; auto. unfold abs. cbn [fst snd]. rewrite Hea, Heb. reflexivity.
Qed.

Lemma step_CopyAssign s t : refines_at s (CopyAssign t).
Proof.
  intros Ha Hb s1 out H. open_mut H Hpre. apply mut_step; auto.
  eapply copy_assign_ok; auto using sel_repr.
Qed.

Lemma step_MoveAssign s t : refines_at s (MoveAssign t).
Proof.
  intros Ha Hb s1 out H. cbn [spec_step] in H. injection H as <- <-. cbn [step].
  destruct (move_assign_ok c (sel t s) _ (sel (negb t) s) _ Hc (sel_repr c t s Ha Hb) (sel_repr c (negb t) s Ha Hb))
    as (v & -> & Hv). cbn [rbind].
  destruct (clear_ok c (sel (negb t) s) _ Hc (sel_repr c (negb t) s Ha Hb)) as (src & -> & Hsrc). cbn [rbind].
  apply repr_inv in Hv as (Hiv & Hev). apply repr_inv in Hsrc as (Hisrc & Hesrc).
  eexists. split; [reflexivity|].
  destruct (upd_inv c t s v Ha Hb Hiv) as (H1 & H2).
  destruct (upd_inv c (negb t) _ src H1 H2 Hisrc) as (H3 & H4).
  apply fin; auto. rewrite !upd_abs, Hev, Hesrc. reflexivity.
Qed.

Lemma step_CopyConstruct s t : refines_at s (CopyConstruct t).
Proof.
  intros Ha Hb s1 out H. cbn [spec_step] in H. injection H as <- <-. cbn [step].
  destruct (copy_construct_ok c (sel t s) _ Hc (sel_repr c t s Ha Hb)) as (c0 & -> & Hc0). cbn [rbind].
  apply repr_inv in Hc0 as (Hi0 & He0).
  assert (Hsz : sz c0 = len (ssel t (abs s))) by (rewrite <- He0; symmetry; apply (elems_len c), Hi0).
  assert (Heq : vec_eq c0 (sel t s) = true).
  { unfold vec_eq. rewrite He0, sel_abs, list_eqb_refl, Hsz.
    rewrite <- (elems_len c (sel t s)) by (apply sel_inv; auto). rewrite sel_abs, Z.eqb_refl. reflexivity. }
  rewrite Heq, Hsz, He0. exists s. split; [reflexivity|]. apply fin; auto.
Qed.

Lemma step_MoveRoundTrip s t : refines_at s (MoveRoundTrip t).
Proof.
  intros Ha Hb s1 out H. cbn [spec_step] in H. injection H as <- <-. cbn [step].
  destruct (move_construct_ok c (sel t s) _ Hc (sel_repr c t s Ha Hb)) as (tmp & -> & Htmp). cbn [rbind].
  destruct (move_assign_ok c (sel t s) _ tmp _ Hc (sel_repr c t s Ha Hb) Htmp) as (v & -> & Hv). cbn [rbind].
  apply repr_inv in Htmp as (Hit & Het). apply repr_inv in Hv as (Hiv & Hev).
  assert (Hsz : sz tmp = len (ssel t (abs s))) by (rewrite <- Het; symmetry; apply (elems_len c), Hit).
  rewrite Hsz, Het. eexists. split; [reflexivity|].
  destruct (upd_inv c t s v Ha Hb Hiv) as (H1 & H2). apply fin; auto.
  rewrite upd_abs, Hev. apply supd_ssel.
Qed.

Lemma step_EraseIf s t pid : refines_at s (EraseIf t pid).
Proof.
  intros Ha Hb s1 out H. open_mut H Hpre.
  destruct (erase_if_ok c (sel t s) _ (pred pid) Hc (sel_repr c t s Ha Hb)) as (v' & -> & Hv').
  cbn [rbind fst snd].
  change (Ok (upd t s v', [len (ssel t (abs s)) - len (filter (fun x => negb (pred pid x)) (ssel t (abs s)))]))
    with (do v <- Ok v'; Ok (upd t s v, [len (ssel t (abs s)) - len (filter (fun x => negb (pred pid x)) (ssel t (abs s)))])).
  apply mut_step; auto. exists v'. auto.
Qed.

Lemma step_EraseVal s t x : refines_at s (EraseVal t x).
Proof.
  intros Ha Hb s1 out H. open_mut H Hpre.
  destruct (erase_if_ok c (sel t s) _ (fun y => y =? x) Hc (sel_repr c t s Ha Hb)) as (v' & -> & Hv').
  cbn [rbind fst snd].
  change (Ok (upd t s v', [len (ssel t (abs s)) - len (filter (fun y => negb (y =? x)) (ssel t (abs s)))]))
    with (do v <- Ok v'; Ok (upd t s v, [len (ssel t (abs s)) - len (filter (fun y => negb (y =? x)) (ssel t (abs s)))])).
  apply mut_step; auto. exists v'. auto.
Qed.

Lemma step_Relations s : refines_at s Relations.
Proof.
  intros Ha Hb s1 out H. cbn [spec_step] in H. injection H as <- <-. cbn [step].
  exists s. rewrite (relations_ok c) by auto. split; [reflexivity|]. apply fin; auto.
Qed.

Lemma step_At s t i : refines_at s (At t i).
Proof.
  intros Ha Hb s1 out H. cbn [spec_step] in H. apply guard_some in H as (Hpre & E).
  injection E as <- <-. b2p Hpre. cbn [step]. facts s t.
  pose proof (repr_len _ _ _ (sel_repr c t s Ha Hb)).
  rewrite (at_index_ok c _ _ i (sel_repr c t s Ha Hb)); [|rewrite wrapu64_small by lia; lia|lia].
  cbn [rbind]. exists s. split; [reflexivity|]. apply fin; auto.
Qed.

Lemma step_Front s t : refines_at s (Front t).
Proof.
  intros Ha Hb s1 out H. cbn [spec_step] in H. apply guard_some in H as (Hpre & E).
  injection E as <- <-. b2p Hpre. cbn [step].
  rewrite (front_ok c _ _ (sel_repr c t s Ha Hb)) by lia.
  cbn [rbind]. exists s. split; [reflexivity|]. apply fin; auto.
Qed.

Lemma step_Back s t : refines_at s (Back t).
Proof.
  intros Ha Hb s1 out H. cbn [spec_step] in H. apply guard_some in H as (Hpre & E).
  injection E as <- <-. b2p Hpre. cbn [step].
  rewrite (back_ok c _ _ Hc (sel_repr c t s Ha Hb)) by lia.
  cbn [rbind]. exists s. split; [reflexivity|]. apply fin; auto.
Qed.

Lemma step_SelfCopyAssign s t : refines_at s (SelfCopyAssign t).
Proof.
  intros Ha Hb s1 out H. cbn [spec_step] in H. injection H as <- <-. cbn [step].
  exists s. split; [reflexivity|]. apply fin; auto.
Qed.

Lemma step_SelfSwap s t : refines_at s (SelfSwap t).
Proof.
  intros Ha Hb s1 out H. cbn [spec_step] in H. injection H as <- <-. cbn [step].
  destruct (swap_vec_ok c (sel t s) _ (sel t s) _ Hc (sel_repr c t s Ha Hb) (sel_repr c t s Ha Hb))
    as (a' & b' & -> & Ha' & Hb').
  cbn [rbind fst]. eexists. split; [reflexivity|].
  apply repr_inv in Ha' as (Hia & Hea).
  destruct (upd_inv c t s a' Ha Hb Hia) as (H1 & H2). apply fin; auto.
  rewrite upd_abs, Hea. apply supd_ssel.
Qed.

(** ** one-step refinement, all 28 operations *)
Theorem step_refines : forall s o, refines_at s o.
Proof.
  intros s o. destruct o.
  - apply step_PushBack.
  - apply step_EmplaceBack.
  - apply step_PopBack.
  - apply step_InsertCR.
  - apply step_InsertRV.
  - apply step_InsertN.
  - apply step_InsertRange.
  - apply step_EmplaceAt.
  - apply step_EraseAt.
  - apply step_EraseRange.
  - apply step_Clear.
  - apply step_Resize.
  - apply step_ResizeVal.
  - apply step_AssignN.
  - apply step_AssignRange.
  - apply step_Swap.
  - apply step_CopyAssign.
  - apply step_MoveAssign.
  - apply step_CopyConstruct.
  - apply step_MoveRoundTrip.
  - apply step_EraseIf.
  - apply step_EraseVal.
  - apply step_Relations.
  - apply step_At.
  - apply step_Front.
  - apply step_Back.
  - apply step_SelfCopyAssign.
  - apply step_SelfSwap.
Qed.

(** ** history refinement *)
Theorem run_refines : forall ops s outs, inv c (fst s) -> inv c (snd s) ->
  spec_run pred (Z.of_nat c) (abs s) ops = Some outs ->
  run pred s ops = map Ok outs.
Proof.
  induction ops as [|o rest IH]; intros s outs Ha Hb H; cbn [spec_run run] in *.
  - injection H as <-. reflexivity.
  - destruct (spec_step pred (Z.of_nat c) (abs s) o) as [[s1 out]|] eqn:E; [|discriminate].
    destruct (spec_run pred (Z.of_nat c) s1 rest) as [r|] eqn:Er; [|discriminate].
    injection H as <-.
    destruct (step_refines s o Ha Hb s1 out E) as (s' & -> & Habs & Ha' & Hb' & Hobs).
    cbn [map]. rewrite Hobs. f_equal. apply IH; auto. rewrite Habs. exact Er.
Qed.

(** ** safety: Ok (with the invariant) or Contract, for every operation and all arguments *)
Definition safe_step (r : res ((vec * vec) * list Z)) : Prop :=
  match r with Ok (s', _) => inv c (fst s') /\ inv c (snd s') | Contract => True | _ => False end.
Definition safe_val (r : res Z) : Prop :=
  match r with Ok _ | Contract => True | _ => False end.

Lemma mut_safe s t r (out : list Z) : inv c (fst s) -> inv c (snd s) -> safe c r ->
  safe_step (do v <- r; Ok (upd t s v, out)).
Proof.
  intros Ha Hb Hr. destruct r; cbn [rbind safe safe_step] in *; auto. apply upd_inv; auto.
Qed.

Lemma val_safe s r : inv c (fst s) -> inv c (snd s) -> safe_val r ->
  safe_step (do x <- r; Ok (s, [x])).
Proof. intros Ha Hb Hr. destruct r; cbn [rbind safe_val safe_step] in *; auto. Qed.

Lemma refines_safe s o s1 out : inv c (fst s) -> inv c (snd s) ->
  spec_step pred (Z.of_nat c) (abs s) o = Some (s1, out) -> safe_step (step pred s o).
Proof.
  intros Ha Hb H. destruct (step_refines s o Ha Hb s1 out H) as (s' & -> & _ & H1 & H2 & _).
  cbn [safe_step]. auto.
Qed.

Lemma push_back_safe v x : inv c v -> safe c (push_back v x).
Proof.
  intros Hi. apply inv_repr in Hi. pose proof (repr_len _ _ _ Hi) as Hle.
  destruct (Z.eq_dec (len (elems v)) (Z.of_nat c)) as [E|E].
  - rewrite (push_back_contract c v _ x Hi E). exact I.
  - eapply okr_safe, push_back_ok; eauto. lia.
Qed.

Lemma emplace_back_safe v x : inv c v -> safe c (emplace_back v x).
Proof.
  intros Hi. apply inv_repr in Hi. pose proof (repr_len _ _ _ Hi) as Hle.
  destruct (Z.eq_dec (len (elems v)) (Z.of_nat c)) as [E|E].
  - rewrite (emplace_back_contract c v _ x Hi E). exact I.
  - eapply okr_safe, emplace_back_ok; eauto. lia.
Qed.

Lemma pop_back_safe v : inv c v -> safe c (pop_back v).
Proof.
  intros Hi. apply inv_repr in Hi. pose proof (len_nonneg (elems v)) as Hle.
  destruct (Z.eq_dec (len (elems v)) 0) as [E|E].
  - rewrite (pop_back_contract c v _ Hi E). exact I.
  - eapply okr_safe, pop_back_ok; eauto. lia.
Qed.

Lemma at_index_safe v i : inv c v -> i < 2 ^ 64 -> safe_val (at_index v i).
Proof.
  intros Hi Hr. apply inv_repr in Hi.
  destruct (Z_lt_le_dec (wrapu 64 i) (len (elems v))) as [E|E].
  - rewrite (at_index_ok c v _ i Hi E Hr). exact I.
  - rewrite (at_index_contract c v _ i Hi E). exact I.
Qed.

Lemma front_safe v : inv c v -> safe_val (front v).
Proof. intros Hi. apply at_index_safe; auto. rewrite pow64. lia. Qed.

Lemma back_safe v : inv c v -> safe_val (back v).
Proof.
  intros Hi. apply inv_repr in Hi. pose proof (len_nonneg (elems v)) as Hle.
  destruct (Z.eq_dec (len (elems v)) 0) as [E|E].
  - rewrite (back_contract c v _ Hi E). exact I.
  - rewrite (back_ok c v _ Hc Hi) by lia. exact I.
Qed.

Theorem step_safe : forall s o, inv c (fst s) -> inv c (snd s) -> at_arg_ok o -> safe_step (step pred s o).
Proof.
  intros s o Ha Hb Harg.
  assert (Hs : forall t, inv c (sel t s)) by (intros t; apply sel_inv; auto).
  destruct o;
    try (eapply refines_safe; auto; cbn [spec_step guard]; reflexivity);
    cbn [step]; try (apply mut_safe; auto).
  - apply push_back_safe; auto.
  - apply emplace_back_safe; auto.
  - apply pop_back_safe; auto.
  - apply insert_cr_safe; auto.
  - apply insert_rv_safe; auto.
  - apply insert_n_safe; auto.
  - apply insert_range_safe; auto.
  - rewrite emplace_at_eq. apply insert_rv_safe; auto.
  - apply erase_at_safe; auto.
  - apply erase_range_safe; auto.
  - apply resize_safe; auto.
  - apply resize_val_safe; auto.
  - apply assign_n_safe; auto.
  - apply assign_range_safe; auto.
  - apply val_safe; auto. apply at_index_safe; auto.
  - apply val_safe; auto. apply front_safe; auto.
  - apply val_safe; auto. apply back_safe; auto.
Qed.

Theorem step_no_ub : forall s o, inv c (fst s) -> inv c (snd s) -> at_arg_ok o ->
  (forall k, step pred s o <> UB k) /\ step pred s o <> OutOfFuel.
Proof.
  intros s o Ha Hb Harg. pose proof (step_safe s o Ha Hb Harg) as H.
  destruct (step pred s o); cbn [safe_step] in H; try contradiction; split; intros; discriminate.
Qed.

(** ** capacity never changes (under the invariant; the unconditional version is in ProofsCap) *)
Theorem step_capacity_inv : forall s o s' out, inv c (fst s) -> inv c (snd s) ->
  step pred s o = Ok (s', out) ->
  length (buf (fst s')) = length (buf (fst s)) /\ length (buf (snd s')) = length (buf (snd s)).
Proof.
  intros s o s' out Ha Hb H.
  assert (K : inv c (fst s') /\ inv c (snd s')).
  { destruct o; try (match type of H with step _ _ ?o' = _ => pose proof (step_safe s o' Ha Hb I) as S end; rewrite H in S; exact S).
    cbn [step] in H. match type of H with context [at_index ?v ?j] => destruct (at_index v j) end; cbn [rbind] in H; try discriminate.
    injection H as <- <-. auto. }
  destruct K as ((K1 & _) & (K2 & _)). destruct Ha as (A1 & _). destruct Hb as (B1 & _).
  rewrite K1, K2, A1, B1. auto.
Qed.

(** ** contract exactness: outside the documented domain the call is stopped by a TETL_PRECONDITION *)
Ltac open_none H Hpre :=
  cbn [spec_step] in H; apply guard_none in H; rename H into Hpre; b2p Hpre; cbn [step].

Theorem step_contract_fires : forall s o, inv c (fst s) -> inv c (snd s) -> size_args_ok o ->
  spec_step pred (Z.of_nat c) (abs s) o = None -> step pred s o = Contract.
Proof.
  intros s o Ha Hb Harg H.
  assert (H64 := cap_ok_64 c Hc). pose proof Hc as Hc63. unfold cap_ok in Hc63. rewrite pow63 in *. rewrite pow64 in *.
  destruct o; try (cbn [spec_step guard] in H; discriminate H);
    open_none H Hpre;
    pose proof (sel_repr c t s Ha Hb) as Hr; pose proof (repr_len _ _ _ Hr) as Hle;
    pose proof (len_nonneg (ssel t (abs s))) as Hnn.
  - rewrite (push_back_contract c _ _ x Hr) by lia. reflexivity.
  - rewrite (emplace_back_contract c _ _ x Hr) by lia. reflexivity.
  - rewrite (pop_back_contract c _ _ Hr) by lia. reflexivity.
  - rewrite (insert_cr_contract c _ _ pos x Hr) by lia. reflexivity.
  - rewrite (insert_rv_contract c _ _ pos x Hr) by lia. reflexivity.
  - cbn [size_args_ok] in Harg.
    rewrite (insert_n_contract c _ _ pos n x Hc Hr); [reflexivity|].
    destruct (Z_lt_le_dec n 0) as [Hn|Hn].
    + right. right. left. rewrite wrapu64_neg by (rewrite pow64; lia). rewrite pow64. lia.
    + lia.
  - rewrite (insert_range_contract c _ _ pos xs Hc Hr) by lia. reflexivity.
  - rewrite emplace_at_eq, (insert_rv_contract c _ _ pos x Hr) by lia. reflexivity.
  - rewrite (erase_at_contract c _ _ pos Hr) by lia. reflexivity.
  - rewrite (erase_range_contract c _ _ f l Hr) by lia. reflexivity.
  - rewrite (resize_contract c _ _ n Hr) by lia. reflexivity.
  - rewrite (resize_val_contract c _ _ n x Hr) by lia. reflexivity.
  - cbn [size_args_ok] in Harg.
    rewrite (assign_n_contract c _ _ n x Hc Hr); [reflexivity|].
    destruct (Z_lt_le_dec n 0) as [Hn|Hn].
    + right. rewrite wrapu64_neg by (rewrite pow64; lia). rewrite pow64. lia.
    + lia.
  - rewrite (assign_range_contract c _ _ xs Hr) by lia. reflexivity.
  - cbn [size_args_ok] in Harg. rewrite (at_index_contract c _ _ i Hr); [reflexivity|].
    destruct (Z_lt_le_dec i 0) as [Hn|Hn].
    + rewrite wrapu64_neg by (rewrite pow64; lia). rewrite pow64. lia.
    + rewrite wrapu64_small by (rewrite pow64; lia). lia.
  - rewrite (front_contract c _ _ Hr) by lia. reflexivity.
  - rewrite (back_contract c _ _ Hr) by lia. reflexivity.
Qed.

End Step.
