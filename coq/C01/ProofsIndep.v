(* C01 proofs for ModelExt.v, part 6: a copy is independent of its source, for stacks and inplace_vectors
   (the static_vector version is ProofsExt2.copy_independent). *)
From Tetl Require Import Lib.Base Lib.Arr C06a.Model C01.Model C01.Spec C01.ModelExt C01.SpecExt.
From Tetl Require Import C01.ProofsBase C01.ProofsCompose C01.ProofsStep C01.ProofsIv C01.ProofsExt C01.ProofsExt2
  C01.ProofsStack C01.ProofsIvExt.
From Coq Require Import Arith Lia.
Local Open Scope Z_scope.

Theorem st_copy_independent : forall c t s s1, cap_ok c -> inv c (fst s) -> inv c (snd s) ->
  st_step s (StCopyAssign t) = Ok (s1, []) ->
  elems (sel t s1) = elems (sel (negb t) s1) /\ sel (negb t) s1 = sel (negb t) s /\
  forall u ops s2, Forall (fun o => st_touches_only u o = true) ops -> st_exec s1 ops = Some s2 ->
    sel (negb u) s2 = sel (negb u) s1.
Proof.
  intros c t s s1 Hc Ha Hb H. cbn [st_step] in H.
  destruct (copy_assign_ok c (sel t s) _ (sel (negb t) s) _ Hc (sel_repr c t s Ha Hb) (sel_repr c (negb t) s Ha Hb))
    as (v & Hv & Hr).
  rewrite Hv in H. cbn [rbind] in H. injection H as <-. apply repr_inv in Hr as (_ & He).
  split; [|split].
  - rewrite sel_upd_other. rewrite sel_abs. destruct t, s; cbn [upd sel fst snd negb ssel abs] in *; exact He.
  - apply sel_upd_other.
  - intros u ops s2 HF Hx. exact (st_exec_frame u ops _ s2 HF Hx).
Qed.

Theorem iv_copy_independent : forall c t s s1, cap_ok c -> inv c (fst s) -> inv c (snd s) ->
  iv_xstep s (IvCopyAssign t) = Ok (s1, []) ->
  elems (sel t s1) = elems (sel (negb t) s1) /\ sel (negb t) s1 = sel (negb t) s /\
  forall u ops s2, Forall (fun o => iv_touches_only u o = true) ops -> iv_xexec s1 ops = Some s2 ->
    sel (negb u) s2 = sel (negb u) s1.
Proof.
  intros c t s s1 Hc Ha Hb H. cbn [iv_xstep] in H.
  destruct (iv_assign_from_ok c Hc (sel t s) _ (sel (negb t) s) _ (sel_repr c t s Ha Hb) (sel_repr c (negb t) s Ha Hb))
    as (v & Hv & Hr).
  rewrite Hv in H. cbn [rbind] in H. injection H as <-. apply repr_inv in Hr as (_ & He).
  split; [|split].
  - rewrite sel_upd_other. rewrite sel_abs. destruct t, s; cbn [upd sel fst snd negb ssel abs] in *; exact He.
  - apply sel_upd_other.
  - intros u ops s2 HF Hx. exact (iv_xexec_frame u ops _ s2 HF Hx).
Qed.
