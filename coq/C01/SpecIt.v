(* C01 specification, third part: the operations of ModelIt.v on plain lists.
   [vector.modifiers] / [sequence.reqmts]: a.insert(p, i, j), a.assign(i, j) and X(i, j) take ANY pair of input
   iterators and have the same effect whatever the iterator category is: the elements of [i, j) in iteration order.
   The specification therefore ignores the category argument altogether.
   [vector.modifiers] emplace_back returns a reference to the inserted element (C++17), [stack.mod] emplace returns
   what c.emplace_back returns. *)
From Tetl Require Import Lib.Base C01.Model C01.Spec C01.ModelExt C01.SpecExt C01.ModelIt.
Local Open Scope Z_scope.

Section YSpec.
Variable pred_of : Z -> Z -> bool.
Variable capacity : Z.

Definition yspec_step (s : list Z * list Z) (o : yop) : option ((list Z * list Z) * list Z) :=
  let mut t (pre : bool) (l : list Z) (out : list Z) := guard pre (supd t s l, out) in
  match o with
  | XBase o => xspec_step pred_of capacity s o
  | InsertRangeIt t _ pos xs | MoveInsertRangeIt t _ pos xs =>
      let l := ssel t s in
      mut t ((0 <=? pos) && (pos <=? len l) && (len l + len xs <=? capacity)) (ins l pos xs) [pos]
  | AssignRangeIt t _ xs => mut t (len xs <=? capacity) xs []
  | CtorRangeIt t _ xs => mut t (len xs <=? capacity) xs (len xs :: xs)
  (* the reference denotes the new last element: index = old size, value = x *)
  | EmplaceBackRef t x => let l := ssel t s in mut t (len l <? capacity) (l ++ [x]) [len l; x]
  (* the argument is the element l[k] itself: its value at the time of the call is what gets inserted *)
  | PushBackAt t k | EmplaceBackAt t k =>
      let l := ssel t s in
      mut t ((0 <=? k) && (k <? len l) && (len l <? capacity)) (l ++ [nth (Z.to_nat k) l 0]) []
  | InsertCRAt t pos k =>
      let l := ssel t s in
      mut t ((0 <=? k) && (k <? len l) && (0 <=? pos) && (pos <=? len l) && (len l <? capacity))
          (ins l pos [nth (Z.to_nat k) l 0]) [pos]
  | InsertNAt t pos n k =>
      let l := ssel t s in
      mut t ((0 <=? k) && (k <? len l) && (0 <=? pos) && (pos <=? len l) && (0 <=? n) && (len l + n <=? capacity))
          (ins l pos (repeat (nth (Z.to_nat k) l 0) (Z.to_nat n))) [pos]
  | ResizeValAt t n k =>
      let l := ssel t s in
      mut t ((0 <=? k) && (k <? len l) && (0 <=? n) && (n <=? capacity))
          (if n <=? len l then firstn (Z.to_nat n) l else l ++ repeat (nth (Z.to_nat k) l 0) (Z.to_nat (n - len l))) []
  end.

Fixpoint yspec_run (s : list Z * list Z) (ops : list yop) : option (list (list Z * list Z)) :=
  match ops with
  | [] => Some []
  | o :: rest =>
      match yspec_step s o with
      | None => None
      | Some (s', out) =>
          match yspec_run s' rest with
          | Some r => Some ((out, spec_observe capacity s') :: r)
          | None => None
          end
      end
  end.

(* std::stack (head = top): emplace pushes x and returns a reference to the new top; seen from the underlying
   sequence (bottom first) that is the element at index = old size *)
Definition st_yspec_step (s : list Z * list Z) (o : st_yop) : option ((list Z * list Z) * list Z) :=
  let mut t (pre : bool) (l : list Z) (out : list Z) := guard pre (supd t s l, out) in
  match o with
  | StBase o => st_spec_step capacity s o
  | StEmplaceRef t x => let l := ssel t s in mut t (len l <? capacity) (x :: l) [len l; x]
  end.

Fixpoint st_yspec_run (s : list Z * list Z) (ops : list st_yop) : option (list (list Z * list Z)) :=
  match ops with
  | [] => Some []
  | o :: rest =>
      match st_yspec_step s o with
      | None => None
      | Some (s', out) =>
          match st_yspec_run s' rest with
          | Some r => Some ((out, st_spec_observe capacity s') :: r)
          | None => None
          end
      end
  end.
End YSpec.
