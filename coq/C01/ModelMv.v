(* C01 model, sixth part (the older model files stay as they are).
   Until here the SECOND object of a two-object operation was never looked at as the call leaves it: after
   `x = move(y)` the older operations (MoveAssign, StMoveAssign, IvMoveAssign, MoveRoundTrip, StMoveConstruct, IvMoveConstruct)
   clear() / re-assign the source before anything is observed.  What the headers leave in a moved-from object was therefore
   outside the model.  Here the move operations are observed with NOTHING done to the source afterwards, and the history
   goes on with the moved-from object (the state keeps it as the call left it):

     static_vector(static_vector&& other)       move_insert(begin(), other.begin(), other.end()):  emplace_back(etl::move( *first ))
     operator=(static_vector&& other)           if (this == &other) return; clear(); move_insert(begin(), other.begin(), other.end())
                                                the source keeps its SIZE; each of its elements has been the argument of
                                                etl::move into a constructor: it holds its moved-from value (e_mv E)
     stack(stack&&) / operator=(stack&&)        defaulted: the container's move members, so the same
     stack(Container&& cont)                    c{etl::move(cont)}: the container's move constructor; cont as above
     inplace_vector(inplace_vector&& other)     T trivially move constructible: defaulted = bytewise copy, the source is unchanged;
                                                otherwise uninitialized_move + _size = other._size + other.clear(): source EMPTY
     operator=(inplace_vector&& other)          T trivially move assignable / constructible / destructible: defaulted = bytewise
                                                copy, the source is unchanged;  otherwise if (this != &other) { clear();
                                                uninitialized_move; _size = other._size; other.clear(); }: source EMPTY

   The element type enters as ModelEl.elt (e_mv: the value a moved-from element is left with) and, for inplace_vector, as the
   two facts the requires-clauses ask for (ivt_mc: the move constructor is the defaulted one;  ivt_ma: the move assignment is). *)
From Tetl Require Import Lib.Base Lib.Arr C06a.Model C06a.Instances C01.Model C01.ModelExt C01.ModelIt C01.ModelEl C01.ModelArg.
From Coq Require Import Arith.
Local Open Scope Z_scope.

Record ivt := { ivt_mc : bool; ivt_ma : bool }.

Section Mv.
Variable A : argt.
Variable E : elt.

(* the source object after  for (; first != last; ++first) emplace_back(etl::move( *first ))  over [other.begin(), other.end()):
   `after` are the walked elements as they are now, the slots at and above size() are untouched, the size is untouched *)
Definition left_behind (other : vec) (after : list Z) : vec :=
  {| buf := after ++ skipn (szn other) (buf other); sz := sz other |}.

(* static_vector(static_vector&& other) : move_insert(begin(), other.begin(), other.end()) into the fresh object.
   Returned: the new object and the source as it is left. *)
Definition move_construct_src (other : vec) : res (vec * vec) :=
  do r <- move_insert_src E ItPtr (fresh other) 0 (elems other);
  Ok (fst r, left_behind other (snd r)).
(* operator=(static_vector&& other), this != &other : clear(); move_insert(begin(), other.begin(), other.end()) *)
Definition move_assign_src (v other : vec) : res (vec * vec) :=
  do v0 <- clear v;
  do r <- move_insert_src E ItPtr v0 0 (elems other);
  Ok (fst r, left_behind other (snd r)).

(** * static_vector *)
Inductive vop :=
| VW (o : wop)                       (* every operation of ModelArg.wop, observed as there *)
| VMoveAssign (t : bool)             (* v_t = move(v_other);  nothing else: the state keeps v_other as it is left *)
| VMoveConstruct (t : bool).         (* { Vec c(move(v_t)); observe c; }  v_t stays as it is left *)

Section VStep.
Variable pred_of : Z -> Z -> bool.

Definition vstep (s : vec * vec) (o : vop) : res ((vec * vec) * list Z) :=
  match o with
  | VW o => wstep A E pred_of s o
  | VMoveAssign t =>
      do r <- move_assign_src (sel t s) (sel (negb t) s);
      Ok (upd (negb t) (upd t s (fst r)) (snd r), [])
  | VMoveConstruct t =>
      do r <- move_construct_src (sel t s);
      Ok (upd t s (snd r), sz (fst r) :: elems (fst r))
  end.

Fixpoint vrun (s : vec * vec) (ops : list vop) : list (res (list Z * list Z)) :=
  match ops with
  | [] => []
  | o :: rest =>
      match vstep s o with
      | Ok (s', out) => Ok (out, observe s') :: vrun s' rest
      | Contract => [Contract]
      | UB k => [UB k]
      | OutOfFuel => [OutOfFuel]
      end
  end.

(* what the driver runs: ModelArg.wstep_fast inside VW, everything else as above *)
Definition vstep_fast (s : vec * vec) (o : vop) : res ((vec * vec) * list Z) :=
  match o with
  | VW o => wstep_fast A E pred_of s o
  | _ => vstep s o
  end.

Fixpoint vrun_fast (s : vec * vec) (ops : list vop) : list (res (list Z * list Z)) :=
  match ops with
  | [] => []
  | o :: rest =>
      match vstep_fast s o with
      | Ok (s', out) => Ok (out, observe s') :: vrun_fast s' rest
      | Contract => [Contract]
      | UB k => [UB k]
      | OutOfFuel => [OutOfFuel]
      end
  end.
End VStep.

(** * stack: the defaulted move members move the container;  stack(Container&&) move-constructs c from the argument *)
Inductive st_vop :=
| StV (o : st_wop)
| StVMoveAssign (t : bool)                       (* s_t = move(s_other) *)
| StVMoveConstruct (t : bool)                    (* { St c(move(s_t)); observe c; } *)
| StVFromContainerRv (t : bool) (xs : list Z).   (* C cont(xs); St tmp(move(cont)); tmp.size(); observe cont; s_t = move(tmp) *)

Definition st_vstep (s : vec * vec) (o : st_vop) : res ((vec * vec) * list Z) :=
  match o with
  | StV o => st_wstep A E s o
  | StVMoveAssign t =>
      do r <- move_assign_src (sel t s) (sel (negb t) s);
      Ok (upd (negb t) (upd t s (fst r)) (snd r), [])
  | StVMoveConstruct t =>
      do r <- move_construct_src (sel t s);
      Ok (upd t s (snd r), sz (fst r) :: elems (fst r))
  | StVFromContainerRv t xs =>
      do cont <- ctor_range (sel t s) xs;
      do r <- move_construct_src cont;
      do v <- move_assign (sel t s) (fst r);
      Ok (upd t s v, sz (fst r) :: sz (snd r) :: elems (snd r))
  end.

Fixpoint st_vrun (s : vec * vec) (ops : list st_vop) : list (res (list Z * list Z)) :=
  match ops with
  | [] => []
  | o :: rest =>
      match st_vstep s o with
      | Ok (s', out) => Ok (out, observe s') :: st_vrun s' rest
      | Contract => [Contract]
      | UB k => [UB k]
      | OutOfFuel => [OutOfFuel]
      end
  end.

(** * inplace_vector *)
Variable I : ivt.

Inductive iv_vop :=
| IvV (o : iv_wop)
| IvVMoveAssign (t : bool)           (* v_t = move(v_other);  nothing else *)
| IvVMoveConstruct (t : bool).       (* { Vec c(move(v_t)); observe c; }  v_t stays as it is left *)

Definition iv_vstep (s : vec * vec) (o : iv_vop) : res ((vec * vec) * list Z) :=
  match o with
  | IvV o => iv_wstep A s o
  | IvVMoveAssign t =>
      do v <- iv_assign_from (sel t s) (sel (negb t) s);
      if ivt_ma I then Ok (upd t s v, [])                                    (* = default: the source is not written *)
      else do src <- clear (sel (negb t) s); Ok (upd (negb t) (upd t s v) src, [])   (* other.clear() *)
  | IvVMoveConstruct t =>
      if ivt_mc I then let c := iv_copy_construct (sel t s) in Ok (s, sz c :: elems c)
      else let r := iv_move_construct (sel t s) in Ok (upd t s (snd r), sz (fst r) :: elems (fst r))
  end.

Fixpoint iv_vrun (s : vec * vec) (ops : list iv_vop) : list (res (list Z * list Z)) :=
  match ops with
  | [] => []
  | o :: rest =>
      match iv_vstep s o with
      | Ok (s', out) => Ok (out, observe s') :: iv_vrun s' rest
      | Contract => [Contract]
      | UB k => [UB k]
      | OutOfFuel => [OutOfFuel]
      end
  end.

Definition iv_vstep_fast (s : vec * vec) (o : iv_vop) : res ((vec * vec) * list Z) :=
  match o with
  | IvV o => iv_wstep_fast A s o
  | _ => iv_vstep s o
  end.

Fixpoint iv_vrun_fast (s : vec * vec) (ops : list iv_vop) : list (res (list Z * list Z)) :=
  match ops with
  | [] => []
  | o :: rest =>
      match iv_vstep_fast s o with
      | Ok (s', out) => Ok (out, observe s') :: iv_vrun_fast s' rest
      | Contract => [Contract]
      | UB k => [UB k]
      | OutOfFuel => [OutOfFuel]
      end
  end.
End Mv.

Definition ivt_trivial : ivt := {| ivt_mc := true; ivt_ma := true |}.
Definition ivt_class : ivt := {| ivt_mc := false; ivt_ma := false |}.

(* the inplace_vector operations as operations of ModelExt.v (used by the proofs): the defaulted members are the copies,
   the user-provided ones are "move, then clear() the source" *)
Definition iv_vplain (I : ivt) (o : iv_vop) : iv_wop :=
  match o with
  | IvV o => o
  | IvVMoveAssign t => IvW (if ivt_ma I then IvCopyAssign t else IvMoveAssign t)
  | IvVMoveConstruct t => IvW (IvBase (if ivt_mc I then IvCopyConstruct t else IvMoveConstruct t))
  end.
