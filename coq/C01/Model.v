(* C01 model: static_vector (include/etl/_vector/static_vector.hpp), inplace_vector
   (include/etl/_inplace_vector/inplace_vector.hpp) and stack (include/etl/_stack/stack.hpp).
   A vector is its inline storage `buf` (a checked array of length Capacity) and the STORED size
   `sz` (which lives in smallest_size_t<Capacity>, so every update wraps to that width).
   Member functions are transcribed at the level the header is written: insert = append at the end
   then etl::rotate (the C06a model), erase = etl::move down + shrink, erase_if = etl::remove_if
   + erase, assignment = clear + insert, swap = three move-assignments through a temporary.
   Every TETL_PRECONDITION on the path is a `Contract` outcome, every storage access is checked. *)
From Tetl Require Import Lib.Base Lib.Arr C06a.Model.
From Coq Require Import Arith.
Local Open Scope Z_scope.

Record vec := { buf : list Z; sz : Z }.

Definition cap (v : vec) : Z := Z.of_nat (length (buf v)).
Definition szn (v : vec) : nat := Z.to_nat (sz v).

(* smallest_size_t<N>: the conditional_t ladder of _type_traits/smallest_size_t.hpp *)
Definition size_bits (capacity : Z) : Z :=
  if capacity <? 255 then 8
  else if capacity <? 65535 then 16
  else if capacity <? 4294967295 then 32
  else 64.

Definition elems (v : vec) : list Z := firstn (szn v) (buf v).
Definition empty_vec (capacity : nat) : vec := {| buf := repeat 0 capacity; sz := 0 |}.

(* unsafe_set_size: TETL_PRECONDITION(newSize <= Capacity); _size = size_type(newSize) *)
Definition set_size (v : vec) (n : Z) : res vec :=
  if n <=? cap v then Ok {| buf := buf v; sz := wrapu (size_bits (cap v)) n |} else Contract.

Definition full (v : vec) : bool := sz v =? cap v.
Definition is_empty (v : vec) : bool := sz v =? 0.

(* detail::index(rng, i): TETL_PRECONDITION(size_t(i) < size_t(end - begin)); then rng[i].
   i arrives as a size_t value (a negative case-file number denotes its two's complement) *)
Definition index_ok (i : Z) (n : Z) : bool := wrapu 64 i <? n.

Definition emplace_back (v : vec) (x : Z) : res vec :=
  if full v then Contract                                       (* TETL_PRECONDITION(!full()) *)
  else if negb (index_ok (sz v) (cap v)) then Contract          (* index(_data, size()) *)
  else do b <- oset (buf v) (szn v) x;
       set_size {| buf := b; sz := sz v |} (sz v + 1).

Definition push_back (v : vec) (x : Z) : res vec :=
  if full v then Contract else emplace_back v x.

Definition pop_back (v : vec) : res vec :=
  if is_empty v then Contract else set_size v (sz v - 1).

Fixpoint emplace_all (v : vec) (xs : list Z) : res vec :=
  match xs with
  | [] => Ok v
  | x :: t => do v' <- emplace_back v x; emplace_all v' t
  end.

Fixpoint push_n (fuel : nat) (v : vec) (x : Z) : res vec :=
  match fuel with
  | O => Ok v
  | S k => do v' <- push_back v x; push_n k v' x
  end.

(* assert_iterator_in_range(position): begin() <= it and it <= end(); positions are offsets *)
Definition pos_ok (v : vec) (pos : Z) : bool := (0 <=? pos) && (pos <=? sz v).

(* rotate<iterator>(writablePosition, b, end()) on the storage *)
Definition rotate_buf (v : vec) (pos b : Z) : res vec :=
  do r <- rotate (buf v) (Z.to_nat pos) (Z.to_nat b) (szn v);
  Ok {| buf := fst r; sz := sz v |}.

(* move_insert(position, first, last) with a random-access source range *)
Definition move_insert (v : vec) (pos : Z) (xs : list Z) : res vec :=
  if negb (pos_ok v pos) then Contract
  else if negb (wrapu 64 (sz v + Z.of_nat (length xs)) <=? cap v) then Contract
  else
    let b := sz v in
    do v' <- emplace_all v xs;
    rotate_buf v' pos b.

(* insert(position, n, x): n is a size_t (a negative case-file number denotes its two's complement);
   TETL_PRECONDITION(n <= capacity() - size()) *)
Definition insert_n (v : vec) (pos : Z) (n : Z) (x : Z) : res vec :=
  if negb (pos_ok v pos) then Contract
  else if negb (wrapu 64 n <=? wrapu 64 (cap v - sz v)) then Contract
  else
    let b := sz v in
    (* while (n != 0) push_back(x): at most capacity+1 iterations before a contract fires *)
    do v' <- push_n (Z.to_nat (Z.min n (cap v + 1))) v x;
    rotate_buf v' pos b.

Definition insert_rv (v : vec) (pos x : Z) : res vec :=      (* insert(pos, T&&) *)
  if full v then Contract else if negb (pos_ok v pos) then Contract else move_insert v pos [x].
Definition insert_cr (v : vec) (pos x : Z) : res vec :=      (* insert(pos, T const&) *)
  if full v then Contract else if negb (pos_ok v pos) then Contract else insert_n v pos 1 x.
Definition emplace_at (v : vec) (pos x : Z) : res vec :=     (* emplace(pos, args...) *)
  if full v then Contract else if negb (pos_ok v pos) then Contract else move_insert v pos [x].
Definition insert_range (v : vec) (pos : Z) (xs : list Z) : res vec :=   (* insert(pos, first, last) *)
  if negb (pos_ok v pos) then Contract
  else if negb (wrapu 64 (sz v + Z.of_nat (length xs)) <=? cap v) then Contract
  else
    let b := sz v in
    do v' <- emplace_all v xs;
    rotate_buf v' pos b.

Definition clear (v : vec) : res vec := set_size v 0.

(* erase(first, last) *)
Definition erase_range (v : vec) (f l : Z) : res vec :=
  if negb (pos_ok v f) then Contract
  else if negb (pos_ok v l) then Contract
  else if negb (f <=? l) then Contract
  else if f =? l then Ok v
  else
    do r <- move_fwd (S (szn v)) (buf v) (Z.to_nat l) (szn v) (Z.to_nat f);
    set_size {| buf := fst r; sz := sz v |} (wrapu 64 (sz v - wrapu 64 (l - f))).

Definition erase_at (v : vec) (pos : Z) : res vec :=
  if negb (pos_ok v pos) then Contract else erase_range v pos (pos + 1).

(* emplace_n(n): TETL_PRECONDITION(n <= capacity()); while (n != size()) emplace_back(T{}) *)
Definition emplace_n (v : vec) (n : Z) : res vec :=
  if negb (n <=? cap v) then Contract
  else emplace_all v (repeat 0 (Z.to_nat (n - sz v))).

Definition resize (v : vec) (n : Z) : res vec :=
  if n =? sz v then Ok v
  else if sz v <? n then emplace_n v n
  else erase_range v (sz v - (sz v - n)) (sz v).

Definition resize_val (v : vec) (n x : Z) : res vec :=
  if n =? sz v then Ok v
  else if sz v <? n then (if negb (n <=? cap v) then Contract else insert_n v (sz v) (n - sz v) x)
  else erase_range v (sz v - (sz v - n)) (sz v).

Definition assign_n (v : vec) (n x : Z) : res vec :=
  if negb (n <=? cap v) then Contract else do v' <- clear v; insert_n v' 0 n x.
Definition assign_range (v : vec) (xs : list Z) : res vec :=
  if negb (Z.of_nat (length xs) <=? cap v) then Contract else do v' <- clear v; insert_range v' 0 xs.

(* copy construction / assignment; a fresh object has value-initialised storage *)
Definition copy_construct (other : vec) : res vec :=
  insert_range (empty_vec (length (buf other))) 0 (elems other).
Definition move_construct (other : vec) : res vec :=
  move_insert (empty_vec (length (buf other))) 0 (elems other).
(* operator=(static_vector const&): self-assignment returns early *)
Definition copy_assign (v other : vec) : res vec := do v' <- clear v; insert_range v' 0 (elems other).
Definition move_assign (v other : vec) : res vec := do v' <- clear v; move_insert v' 0 (elems other).

(* swap: static_vector tmp = move(other); other = move(this object); this object = move(tmp) *)
Definition swap_vec (a b : vec) : res (vec * vec) :=
  do tmp <- move_construct b;
  do b' <- move_assign b a;
  do a' <- move_assign a tmp;
  Ok (a', b').

(* erase_if(c, pred) = remove_if over [begin,end) + erase(it, end) *)
Definition erase_if (p : Z -> bool) (v : vec) : res (vec * Z) :=
  do r <- remove_if p (elems v);
  let it := Z.of_nat (snd r) in
  let removed := sz v - it in
  do v' <- erase_range {| buf := fst r ++ skipn (szn v) (buf v); sz := sz v |} it (sz v);
  Ok (v', removed).

(* element access *)
Definition at_index (v : vec) (i : Z) : res Z :=
  if negb (index_ok i (sz v)) then Contract else oget (buf v) (Z.to_nat i).
Definition front (v : vec) : res Z := at_index v 0.
Definition back (v : vec) : res Z :=
  if is_empty v then Contract else at_index v (wrapu 64 (sz v - 1)).

(* operator== : sizes equal and etl::equal; operator< : etl::lexicographical_compare *)
Fixpoint list_eqb (a b : list Z) : bool :=
  match a, b with
  | [], [] => true
  | x :: s, y :: t => (x =? y) && list_eqb s t
  | _, _ => false
  end.
Fixpoint lex_lt (a b : list Z) : bool :=
  match a, b with
  | _, [] => false
  | [], _ :: _ => true
  | x :: s, y :: t => if x <? y then true else if y <? x then false else lex_lt s t
  end.
Definition vec_eq (a b : vec) : bool := (sz a =? sz b) && list_eqb (elems a) (elems b).
Definition vec_lt (a b : vec) : bool := lex_lt (elems a) (elems b).
(* the six relations as the header derives them: ==, !=, <, <=, >, >= *)
Definition relations (a b : vec) : list bool :=
  [vec_eq a b; negb (vec_eq a b); vec_lt a b; negb (vec_lt b a); vec_lt b a; negb (vec_lt a b)].

(** * inplace_vector: same storage picture, smaller interface *)
Definition iv_try_push_back (v : vec) (x : Z) : res (vec * bool) :=
  if sz v =? cap v then Ok (v, false)                    (* returns nullptr, nothing changes *)
  else
    (* unchecked_push_back: TETL_PRECONDITION(size() != max_size()); construct_at(end()); set size; back() *)
    do b <- oset (buf v) (szn v) x;
    do v' <- set_size {| buf := b; sz := sz v |} (sz v + 1);
    Ok (v', true).
(* the Capacity = 0 specialisation answers front/back/[]/unchecked_*/pop_back with TETL_PRECONDITION(false) *)
Definition iv_unchecked_push_back (v : vec) (x : Z) : res vec :=
  if cap v =? 0 then Contract else
  if sz v =? cap v then Contract
  else do b <- oset (buf v) (szn v) x; set_size {| buf := b; sz := sz v |} (sz v + 1).
Definition iv_pop_back (v : vec) : res vec :=
  if cap v =? 0 then Contract else if is_empty v then Contract else set_size v (sz v - 1).
Definition iv_at (v : vec) (i : Z) : res Z :=
  if cap v =? 0 then Contract else
  if negb (wrapu 64 i <? sz v) then Contract else oget (buf v) (Z.to_nat i).
Definition iv_front (v : vec) : res Z :=
  if cap v =? 0 then Contract else if is_empty v then Contract else oget (buf v) 0.
Definition iv_back (v : vec) : res Z :=
  if cap v =? 0 then Contract else if is_empty v then Contract else oget (buf v) (Z.to_nat (sz v - 1)).
(* copy constructor: uninitialized_copy + size.  Move constructor: trivially movable T = bitwise copy
   (source keeps its size), otherwise uninitialized_move + source.clear(); the moved-from state is
   unspecified, so the modelled operation is "move-construct, then clear() the source" *)
Definition iv_copy_construct (other : vec) : vec :=
  {| buf := elems other ++ repeat 0 (length (buf other) - szn other); sz := sz other |}.
Definition iv_move_construct (other : vec) : vec * vec :=
  (iv_copy_construct other, {| buf := buf other; sz := 0 |}).

(** * histories over two vectors *)
Inductive op :=
| PushBack (t : bool) (x : Z) | EmplaceBack (t : bool) (x : Z) | PopBack (t : bool)
| InsertCR (t : bool) (pos x : Z) | InsertRV (t : bool) (pos x : Z) | InsertN (t : bool) (pos n x : Z)
| InsertRange (t : bool) (pos : Z) (xs : list Z) | EmplaceAt (t : bool) (pos x : Z)
| EraseAt (t : bool) (pos : Z) | EraseRange (t : bool) (f l : Z)
| Clear (t : bool) | Resize (t : bool) (n : Z) | ResizeVal (t : bool) (n x : Z)
| AssignN (t : bool) (n x : Z) | AssignRange (t : bool) (xs : list Z)
| Swap | CopyAssign (t : bool) | MoveAssign (t : bool) | CopyConstruct (t : bool) | MoveRoundTrip (t : bool)
| EraseIf (t : bool) (pid : Z) | EraseVal (t : bool) (x : Z)
| Relations | At (t : bool) (i : Z) | Front (t : bool) | Back (t : bool)
| SelfCopyAssign (t : bool) | SelfSwap (t : bool).

Definition sel (t : bool) (s : vec * vec) : vec := if t then snd s else fst s.
Definition upd (t : bool) (s : vec * vec) (v : vec) : vec * vec := if t then (fst s, v) else (v, snd s).

Definition b2z (b : bool) : Z := if b then 1 else 0.

Section Step.
Variable pred_of : Z -> Z -> bool.

(* one step: new state and the values the call returns (iterators as offsets, counts, references as values) *)
Definition step (s : vec * vec) (o : op) : res ((vec * vec) * list Z) :=
  let mut t r out := do v <- r; Ok (upd t s v, out) in
  match o with
  | PushBack t x => mut t (push_back (sel t s) x) []
  | EmplaceBack t x => mut t (emplace_back (sel t s) x) []
  | PopBack t => mut t (pop_back (sel t s)) []
  | InsertCR t pos x => mut t (insert_cr (sel t s) pos x) [pos]
  | InsertRV t pos x => mut t (insert_rv (sel t s) pos x) [pos]
  | InsertN t pos n x => mut t (insert_n (sel t s) pos n x) [pos]
  | InsertRange t pos xs => mut t (insert_range (sel t s) pos xs) [pos]
  | EmplaceAt t pos x => mut t (emplace_at (sel t s) pos x) [pos]
  | EraseAt t pos => mut t (erase_at (sel t s) pos) [pos]
  | EraseRange t f l => mut t (erase_range (sel t s) f l) [f]
  | Clear t => mut t (clear (sel t s)) []
  | Resize t n => mut t (resize (sel t s) n) []
  | ResizeVal t n x => mut t (resize_val (sel t s) n x) []
  | AssignN t n x => mut t (assign_n (sel t s) n x) []
  | AssignRange t xs => mut t (assign_range (sel t s) xs) []
  | Swap => do r <- swap_vec (fst s) (snd s); Ok (r, [])
  | CopyAssign t => mut t (copy_assign (sel t s) (sel (negb t) s)) []
  | MoveAssign t =>
      (* v_t = move(v_other); then v_other.clear() — a moved-from vector must stay usable *)
      do v <- move_assign (sel t s) (sel (negb t) s);
      do src <- clear (sel (negb t) s);
      Ok (upd (negb t) (upd t s v) src, [])
  | CopyConstruct t =>
      do c <- copy_construct (sel t s);
      Ok (s, b2z (vec_eq c (sel t s)) :: sz c :: elems c)
  | MoveRoundTrip t =>
      do tmp <- move_construct (sel t s);
      do v <- move_assign (sel t s) tmp;
      Ok (upd t s v, sz tmp :: elems tmp)
  | EraseIf t pid => do r <- erase_if (pred_of pid) (sel t s); Ok (upd t s (fst r), [snd r])
  | EraseVal t x => do r <- erase_if (fun y => y =? x) (sel t s); Ok (upd t s (fst r), [snd r])
  | Relations => Ok (s, map b2z (relations (fst s) (snd s)))
  | At t i => do x <- at_index (sel t s) i; Ok (s, [x])
  | Front t => do x <- front (sel t s); Ok (s, [x])
  | Back t => do x <- back (sel t s); Ok (s, [x])
  | SelfCopyAssign t => Ok (s, [])        (* operator=(self): returns *this unchanged *)
  | SelfSwap t =>
      do r <- swap_vec (sel t s) (sel t s);
      (* both names denote the same object: the final assignment to *this is what remains *)
      Ok (upd t s (fst r), [])
  end.

(* the observation after a step: returned values, then size / empty / full / elements of both vectors *)
Definition observe (s : vec * vec) : list Z :=
  let o v := sz v :: b2z (is_empty v) :: b2z (full v) :: Z.of_nat (length (elems v)) :: elems v in
  o (fst s) ++ o (snd s).

Fixpoint run (s : vec * vec) (ops : list op) : list (res (list Z * list Z)) :=
  match ops with
  | [] => []
  | o :: rest =>
      match step s o with
      | Ok (s', out) => Ok (out, observe s') :: run s' rest
      | Contract => [Contract]
      | UB k => [UB k]
      | OutOfFuel => [OutOfFuel]
      end
  end.
End Step.

(** * inplace_vector histories (two objects; copy/move construction observed on a temporary) *)
Inductive iv_op :=
| IvTryPush (t : bool) (x : Z) | IvUncheckedPush (t : bool) (x : Z) | IvPop (t : bool) | IvClear (t : bool)
| IvAt (t : bool) (i : Z) | IvFront (t : bool) | IvBack (t : bool)
| IvCopyConstruct (t : bool) | IvMoveConstruct (t : bool).

Definition iv_step (s : vec * vec) (o : iv_op) : res ((vec * vec) * list Z) :=
  match o with
  | IvTryPush t x => do r <- iv_try_push_back (sel t s) x; Ok (upd t s (fst r), [b2z (snd r)])
  | IvUncheckedPush t x => do v <- iv_unchecked_push_back (sel t s) x; Ok (upd t s v, [])
  | IvPop t => do v <- iv_pop_back (sel t s); Ok (upd t s v, [])
  | IvClear t => do v <- clear (sel t s); Ok (upd t s v, [])
  | IvAt t i => do x <- iv_at (sel t s) i; Ok (s, [x])
  | IvFront t => do x <- iv_front (sel t s); Ok (s, [x])
  | IvBack t => do x <- iv_back (sel t s); Ok (s, [x])
  | IvCopyConstruct t => let c := iv_copy_construct (sel t s) in Ok (s, sz c :: elems c)
  | IvMoveConstruct t =>
      let r := iv_move_construct (sel t s) in Ok (upd t s (snd r), sz (fst r) :: elems (fst r))
  end.

Fixpoint iv_run (s : vec * vec) (ops : list iv_op) : list (res (list Z * list Z)) :=
  match ops with
  | [] => []
  | o :: rest =>
      match iv_step s o with
      | Ok (s', out) => Ok (out, observe s') :: iv_run s' rest
      | Contract => [Contract]
      | UB k => [UB k]
      | OutOfFuel => [OutOfFuel]
      end
  end.

(* spec: the same interface on a list *)
Definition iv_spec_step (capacity : Z) (s : list Z * list Z) (o : iv_op) : option ((list Z * list Z) * list Z) :=
  let g (t : bool) := if t then snd s else fst s in
  let u (t : bool) (l : list Z) := if t then (fst s, l) else (l, snd s) in
  let n (l : list Z) := Z.of_nat (length l) in
  match o with
  | IvTryPush t x => if n (g t) <? capacity then Some (u t (g t ++ [x]), [1]) else Some (s, [0])
  | IvUncheckedPush t x => if n (g t) <? capacity then Some (u t (g t ++ [x]), []) else None
  | IvPop t => if 0 <? n (g t) then Some (u t (removelast (g t)), []) else None
  | IvClear t => Some (u t [], [])
  | IvAt t i => if (0 <=? i) && (i <? n (g t)) then Some (s, [nth (Z.to_nat i) (g t) 0]) else None
  | IvFront t => if 0 <? n (g t) then Some (s, [nth 0 (g t) 0]) else None
  | IvBack t => if 0 <? n (g t) then Some (s, [last (g t) 0]) else None
  | IvCopyConstruct t => Some (s, n (g t) :: g t)
  | IvMoveConstruct t => Some (u t [], n (g t) :: g t)
  end.
