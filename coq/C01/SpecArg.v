(* C01 specification, fifth part: what the standard says about the operations of ModelArg.v.

   [vector.erasure]  erase(c, value):  "Effects: auto it = remove(c.begin(), c.end(), value); auto r = distance(it, c.end());
   c.erase(it, c.end()); return r;"  and  [alg.remove]  remove eliminates every element referred to by an iterator i for
   which  *i == value  holds - the comparison is the language's == between the ELEMENT and the value as they are
   (a_heq), whatever the type U of the value is; nothing is converted to U beforehand.
   erase_if(c, pred): every element for which pred( *i ) holds; a predicate with a parameter of type U receives the
   element converted to U (a_conv) - that conversion is part of the call the user wrote.
   [sequence.reqmts] a.emplace_back(args) / a.emplace(p, args): "appends / inserts an object of type T constructed with
   std::forward<Args>(args)...", through allocator_traits::construct, i.e.  ::new (p) T(std::forward<Args>(args)...)
   [allocator.traits.members], [specialized.construct]: parentheses.  The new element is therefore a_ctor2 a b = T(a, b).
   [stack.mod]: emplace returns c.emplace_back(args...).
   [inplace.vector.modifiers] try_emplace_back / unchecked_emplace_back: the same construction; try_ returns null on a full
   vector.
   Nothing here knows how a member is implemented. *)
From Tetl Require Import Lib.Base C01.Model C01.Spec C01.ModelExt C01.SpecExt C01.ModelIt C01.SpecIt C01.ModelEl C01.SpecEl
  C01.ModelArg.
Local Open Scope Z_scope.

Section ArgSpec.
Variable A : argt.
Variable E : elt.
Variable pred_of : Z -> Z -> bool.
Variable capacity : Z.

Definition wspec_step (s : list Z * list Z) (o : wop) : option ((list Z * list Z) * list Z) :=
  let mut t (pre : bool) (l : list Z) (out : list Z) := guard pre (supd t s l, out) in
  match o with
  | WZ o => zspec_step E pred_of capacity s o
  | WEraseValHet t k x =>
      let l := ssel t s in
      let r := filter (fun item => negb (a_heq A k item x)) l in
      mut t true r [len l - len r]
  | WEraseIfHet t k pid =>
      let l := ssel t s in
      let r := filter (fun item => negb (pred_of pid (a_conv A k item))) l in
      mut t true r [len l - len r]
  | WEmplaceBack2 t a b => let l := ssel t s in mut t (len l <? capacity) (l ++ [a_ctor2 A a b]) [len l; a_ctor2 A a b]
  | WEmplaceAt2 t pos a b =>
      let l := ssel t s in
      mut t ((0 <=? pos) && (pos <=? len l) && (len l <? capacity)) (ins l pos [a_ctor2 A a b]) [pos]
  end.

Fixpoint wspec_run (s : list Z * list Z) (ops : list wop) : option (list (list Z * list Z)) :=
  match ops with
  | [] => Some []
  | o :: rest =>
      match wspec_step s o with
      | None => None
      | Some (s', out) =>
          match wspec_run s' rest with
          | Some r => Some ((out, spec_observe capacity s') :: r)
          | None => None
          end
      end
  end.

(* std::stack (head = top) *)
Definition st_wspec_step (s : list Z * list Z) (o : st_wop) : option ((list Z * list Z) * list Z) :=
  let mut t (pre : bool) (l : list Z) (out : list Z) := guard pre (supd t s l, out) in
  match o with
  | StW o => st_zspec_step E capacity s o
  | StWEmplace2 t a b => let l := ssel t s in mut t (len l <? capacity) (a_ctor2 A a b :: l) [len l; a_ctor2 A a b]
  end.

Fixpoint st_wspec_run (s : list Z * list Z) (ops : list st_wop) : option (list (list Z * list Z)) :=
  match ops with
  | [] => Some []
  | o :: rest =>
      match st_wspec_step s o with
      | None => None
      | Some (s', out) =>
          match st_wspec_run s' rest with
          | Some r => Some ((out, st_spec_observe capacity s') :: r)
          | None => None
          end
      end
  end.

(* inplace_vector *)
Definition iv_wspec_step (s : list Z * list Z) (o : iv_wop) : option ((list Z * list Z) * list Z) :=
  let mut t (pre : bool) (l : list Z) (out : list Z) := guard pre (supd t s l, out) in
  match o with
  | IvW o => iv_xspec_step capacity s o
  | IvWTryEmplace2 t a b =>
      let l := ssel t s in if len l <? capacity then Some (supd t s (l ++ [a_ctor2 A a b]), [1]) else Some (s, [0])
  | IvWUncheckedEmplace2 t a b => let l := ssel t s in mut t (len l <? capacity) (l ++ [a_ctor2 A a b]) []
  end.

Fixpoint iv_wspec_run (s : list Z * list Z) (ops : list iv_wop) : option (list (list Z * list Z)) :=
  match ops with
  | [] => Some []
  | o :: rest =>
      match iv_wspec_step s o with
      | None => None
      | Some (s', out) =>
          match iv_wspec_run s' rest with
          | Some r => Some ((out, spec_observe capacity s') :: r)
          | None => None
          end
      end
  end.
End ArgSpec.
