(* C01 proofs, part 4: the operations the header composes from the primitives:
   resize (both forms), assign (both forms), copy/move construction and assignment, swap. *)
From Tetl Require Import Lib.Base Lib.Arr C06a.Model C06a.P1_Common.
From Tetl Require Import C01.Model C01.Spec C01.ProofsBase C01.ProofsInsert C01.ProofsErase.
From Coq Require Import Arith Lia.
Ltac Zify.zify_post_hook ::= Z.to_euclidean_division_equations.
Local Open Scope Z_scope.

Lemma ins_nil xs : ins [] 0 xs = xs.
Proof. unfold ins. cbn [Z.to_nat firstn skipn app]. apply app_nil_r. Qed.

Lemma ins_end L xs : ins L (len L) xs = L ++ xs.
Proof.
  unfold ins. rewrite to_nat_len, firstn_all, skipn_all, app_nil_r. reflexivity.
Qed.

Lemma del_tail L n : 0 <= n <= len L -> del L n (len L) = firstn (Z.to_nat n) L.
Proof. intros H. unfold del. rewrite to_nat_len, skipn_all, app_nil_r. reflexivity. Qed.

(** * resize(n) *)
Definition resized (L : list Z) (n x : Z) : list Z :=
  if n <=? len L then firstn (Z.to_nat n) L else L ++ repeat x (Z.to_nat (n - len L)).

Lemma resize_ok c v L n : cap_ok c -> repr c v L -> 0 <= n <= Z.of_nat c ->
  okr c (resize v n) (resized L n 0).
Proof.
  intros Hc Hr Hn. pose proof Hr as (rest & Hb & Hs & Hlen). pose proof (repr_len _ _ _ Hr) as Hle.
  unfold resize, resized. rewrite Hs.
  destruct (Z.eqb_spec n (len L)) as [E|E].
  { subst n. rewrite leb_t by lia. rewrite to_nat_len, firstn_all. exists v. auto. }
  destruct (Z.ltb_spec (len L) n) as [Hgt|Hlt].
  - rewrite leb_f by lia. unfold emplace_n. rewrite (repr_cap _ _ _ Hr), leb_t by lia. cbn [negb].
    rewrite Hs. apply emplace_all_ok; auto. rewrite len_repeat. lia.
  - rewrite leb_t by lia. replace (len L - (len L - n)) with n by lia.
    rewrite <- del_tail by lia. apply erase_range_ok; auto; lia.
Qed.

Lemma resize_contract c v L n : repr c v L -> n < 0 \/ Z.of_nat c < n -> resize v n = Contract.
Proof.
  intros Hr Hbad. pose proof Hr as (rest & Hb & Hs & Hlen). pose proof (repr_len _ _ _ Hr) as Hle.
  pose proof (len_nonneg L). unfold resize. rewrite Hs. rewrite eqb_f by lia.
  destruct (Z.ltb_spec (len L) n) as [Hgt|Hlt].
  - unfold emplace_n. rewrite (repr_cap _ _ _ Hr), leb_f by lia. reflexivity.
  - apply (erase_range_contract c v L); auto. lia.
Qed.

Lemma resize_safe c v n : cap_ok c -> inv c v -> safe c (resize v n).
Proof.
  intros Hc Hi. apply inv_repr in Hi. set (L := elems v) in *.
  assert (D : (0 <= n <= Z.of_nat c) \/ (n < 0 \/ Z.of_nat c < n)) by lia.
  destruct D as [H1|D].
  - eapply okr_safe, resize_ok; eauto.
  - rewrite (resize_contract c v L); auto. exact I.
Qed.

(** * resize(n, x) *)
Lemma resize_val_ok c v L n x : cap_ok c -> repr c v L -> 0 <= n <= Z.of_nat c ->
  okr c (resize_val v n x) (resized L n x).
Proof.
  intros Hc Hr Hn. pose proof Hr as (rest & Hb & Hs & Hlen). pose proof (repr_len _ _ _ Hr) as Hle.
  assert (H64 := cap_ok_64 c Hc).
  unfold resize_val, resized. rewrite Hs.
  destruct (Z.eqb_spec n (len L)) as [E|E].
  { subst n. rewrite leb_t by lia. rewrite to_nat_len, firstn_all. exists v. auto. }
  destruct (Z.ltb_spec (len L) n) as [Hgt|Hlt].
  - rewrite (leb_f n (len L)) by lia. rewrite (repr_cap _ _ _ Hr), leb_t by lia. cbn [negb].
    pose proof (len_nonneg L).
    rewrite <- ins_end. apply insert_n_ok; auto; try lia.
    rewrite wrapu64_small by lia. lia.
  - rewrite leb_t by lia. replace (len L - (len L - n)) with n by lia.
    rewrite <- del_tail by lia. apply erase_range_ok; auto; lia.
Qed.

Lemma resize_val_contract c v L n x : repr c v L -> n < 0 \/ Z.of_nat c < n ->
  resize_val v n x = Contract.
Proof.
  intros Hr Hbad. pose proof Hr as (rest & Hb & Hs & Hlen). pose proof (repr_len _ _ _ Hr) as Hle.
  pose proof (len_nonneg L). unfold resize_val. rewrite Hs. rewrite eqb_f by lia.
  destruct (Z.ltb_spec (len L) n) as [Hgt|Hlt].
  - rewrite (repr_cap _ _ _ Hr), leb_f by lia. reflexivity.
  - apply (erase_range_contract c v L); auto. lia.
Qed.

Lemma resize_val_safe c v n x : cap_ok c -> inv c v -> safe c (resize_val v n x).
Proof.
  intros Hc Hi. apply inv_repr in Hi. set (L := elems v) in *.
  assert (D : (0 <= n <= Z.of_nat c) \/ (n < 0 \/ Z.of_nat c < n)) by lia.
  destruct D as [H1|D].
  - eapply okr_safe, resize_val_ok; eauto.
  - rewrite (resize_val_contract c v L); auto. exact I.
Qed.

(** * assign(n, x): exhaustive in n (a negative n that reads as a huge size_t fails the insert guard) *)
Lemma assign_n_ok c v L n x : cap_ok c -> repr c v L -> wrapu 64 n <= Z.of_nat c -> n <= Z.of_nat c ->
  okr c (assign_n v n x) (repeat x (Z.to_nat n)).
Proof.
  intros Hc Hr Hw Hn. unfold assign_n. rewrite (repr_cap _ _ _ Hr), leb_t by lia. cbn [negb].
  destruct (clear_ok c v L Hc Hr) as (v' & -> & Hr'). cbn [rbind].
  rewrite <- (ins_nil (repeat x (Z.to_nat n))). apply insert_n_ok; auto; unfold len; cbn [length]; lia.
Qed.

Lemma assign_n_contract c v L n x : cap_ok c -> repr c v L -> Z.of_nat c < n \/ Z.of_nat c < wrapu 64 n ->
  assign_n v n x = Contract.
Proof.
  intros Hc Hr Hbad. unfold assign_n. rewrite (repr_cap _ _ _ Hr).
  destruct (Z.leb_spec n (Z.of_nat c)) as [Hle|Hgt]; [|reflexivity]. cbn [negb].
  destruct (clear_ok c v L Hc Hr) as (v' & -> & Hr'). cbn [rbind].
  apply (insert_n_contract c v' []); auto. unfold len; cbn [length]. lia.
Qed.

Lemma assign_n_safe c v n x : cap_ok c -> inv c v -> safe c (assign_n v n x).
Proof.
  intros Hc Hi. apply inv_repr in Hi. set (L := elems v) in *.
  assert (D : (wrapu 64 n <= Z.of_nat c /\ n <= Z.of_nat c) \/ (Z.of_nat c < n \/ Z.of_nat c < wrapu 64 n)) by lia.
  destruct D as [(H1 & H2)|D].
  - eapply okr_safe, assign_n_ok; eauto.
  - rewrite (assign_n_contract c v L); auto. exact I.
Qed.

(** * assign(first, last) *)
Lemma assign_range_ok c v L xs : cap_ok c -> repr c v L -> len xs <= Z.of_nat c ->
  okr c (assign_range v xs) xs.
Proof.
  intros Hc Hr Hn. unfold assign_range. rewrite (repr_cap _ _ _ Hr). fold (len xs).
  rewrite leb_t by lia. cbn [negb].
  destruct (clear_ok c v L Hc Hr) as (v' & -> & Hr'). cbn [rbind].
  rewrite <- (ins_nil xs) at 2. apply insert_range_ok; auto; unfold len in *; cbn [length]; lia.
Qed.

Lemma assign_range_contract c v L xs : repr c v L -> Z.of_nat c < len xs -> assign_range v xs = Contract.
Proof.
  intros Hr Hbad. unfold assign_range. rewrite (repr_cap _ _ _ Hr). fold (len xs).
  rewrite leb_f by lia. reflexivity.
Qed.

Lemma assign_range_safe c v xs : cap_ok c -> inv c v -> safe c (assign_range v xs).
Proof.
  intros Hc Hi. apply inv_repr in Hi. set (L := elems v) in *.
  assert (D : (len xs <= Z.of_nat c) \/ (Z.of_nat c < len xs)) by lia.
  destruct D as [H1|D].
  - eapply okr_safe, assign_range_ok; eauto.
  - rewrite (assign_range_contract c v L); auto. exact I.
Qed.

(** * copy / move construction and assignment, swap: total (no precondition) *)
Lemma copy_construct_ok c o Lo : cap_ok c -> repr c o Lo -> okr c (copy_construct o) Lo.
Proof.
  intros Hc Hr. pose proof Hr as (rest & Hb & Hs & Hlen). pose proof (repr_len _ _ _ Hr) as Hle.
  unfold copy_construct. rewrite Hlen. replace (elems o) with Lo by (symmetry; apply (repr_inv c), Hr).
  rewrite <- (ins_nil Lo) at 2. apply insert_range_ok; auto using empty_repr; unfold len in *; cbn [length]; lia.
Qed.

Lemma move_construct_ok c o Lo : cap_ok c -> repr c o Lo -> okr c (move_construct o) Lo.
Proof. apply copy_construct_ok. Qed.

Lemma copy_assign_ok c v L o Lo : cap_ok c -> repr c v L -> repr c o Lo -> okr c (copy_assign v o) Lo.
Proof.
  intros Hc Hr Ho. pose proof (repr_len _ _ _ Ho) as Hle. unfold copy_assign.
  destruct (clear_ok c v L Hc Hr) as (v' & -> & Hr'). cbn [rbind].
  replace (elems o) with Lo by (symmetry; apply (repr_inv c), Ho).
  rewrite <- (ins_nil Lo) at 2. apply insert_range_ok; auto; unfold len in *; cbn [length]; lia.
Qed.

Lemma move_assign_ok c v L o Lo : cap_ok c -> repr c v L -> repr c o Lo -> okr c (move_assign v o) Lo.
Proof. apply copy_assign_ok. Qed.

Lemma swap_vec_ok c a La b Lb : cap_ok c -> repr c a La -> repr c b Lb ->
  exists a' b', swap_vec a b = Ok (a', b') /\ repr c a' Lb /\ repr c b' La.
Proof.
  intros Hc Ha Hb. unfold swap_vec.
  destruct (move_construct_ok c b Lb Hc Hb) as (tmp & -> & Htmp). cbn [rbind].
  destruct (move_assign_ok c b Lb a La Hc Hb Ha) as (b' & -> & Hb'). cbn [rbind].
  destruct (move_assign_ok c a La tmp Lb Hc Ha Htmp) as (a' & -> & Ha'). cbn [rbind].
  exists a', b'. auto.
Qed.
