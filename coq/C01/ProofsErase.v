(* C01 proofs, part 3: erase(first,last) = etl::move of the tail down + shrink (C06a move_fwd_spec,
   the overlapping forward move), erase(pos), and erase_if = etl::remove_if + erase (C06a remove_if_correct). *)
From Tetl Require Import Lib.Base Lib.Arr C06a.Model C06a.P1_Common C06a.P1_Shift C06a.P1_RemoveIf.
From Tetl Require Import C01.Model C01.Spec C01.ProofsBase C01.ProofsInsert.
From Coq Require Import Arith Lia.
Ltac Zify.zify_post_hook ::= Z.to_euclidean_division_equations.
Local Open Scope Z_scope.

Lemma len_del L f l : 0 <= f <= l -> l <= len L -> len (del L f l) = len L - (l - f).
Proof.
  intros H1 H2. unfold del. rewrite len_app. unfold len in *.
  rewrite firstn_length, skipn_length. lia.
Qed.

Lemma del_same L f : del L f f = L.
Proof. unfold del. apply firstn_skipn. Qed.

(** * erase(first, last) *)
Lemma erase_range_ok c v L f l : cap_ok c -> repr c v L -> 0 <= f <= l -> l <= len L ->
  okr c (erase_range v f l) (del L f l).
Proof.
  intros Hc Hr Hfl Hl. pose proof Hr as (rest & Hb & Hs & Hlen).
  pose proof (repr_len _ _ _ Hr) as Hle. assert (H64 := cap_ok_64 c Hc).
  unfold erase_range. rewrite !pos_ok_t by lia. cbn [negb]. rewrite leb_t by lia. cbn [negb].
  destruct (Z.eqb_spec f l) as [E|E].
  { subst l. rewrite del_same. exists v. auto. }
  assert (Hszn : szn v = length L) by (unfold szn; rewrite Hs; apply to_nat_len).
  rewrite Hszn.
  assert (HLc : (length L <= c)%nat) by (unfold len in Hle; lia).
  rewrite move_fwd_spec by (unfold len in *; lia). cbn [rbind fst].
  rewrite (wrapu64_small (l - f)) by lia. rewrite Hs, wrapu64_small by lia.
  rewrite <- (len_del L f l) by lia.
  destruct v as [b s]. cbn [buf sz] in *.
  apply (set_size_repr c _ _ _ (skipn (Z.to_nat f + (length L - Z.to_nat l)) b)); [exact Hc| |].
  - unfold del. rewrite <- app_assoc. f_equal; [|f_equal].
    + rewrite Hb, firstn_app. replace (Z.to_nat f - length L)%nat with 0%nat by (unfold len in *; lia).
      cbn [firstn]. rewrite app_nil_r. reflexivity.
    + rewrite sub_alt. rewrite Hb at 1. rewrite (firstn_app_exact L rest) by reflexivity.
      reflexivity.
  - rewrite !app_length, firstn_length, sub_length, skipn_length by lia. unfold len in *. lia.
Qed.

Lemma erase_range_contract c v L f l : repr c v L -> f < 0 \/ l < f \/ len L < l ->
  erase_range v f l = Contract.
Proof.
  intros (rest & Hb & Hs & Hlen) Hbad. unfold erase_range, pos_ok. rewrite Hs.
  destruct ((0 <=? f) && (f <=? len L)) eqn:E1; [|reflexivity]. cbn [negb].
  destruct ((0 <=? l) && (l <=? len L)) eqn:E2; [|reflexivity]. cbn [negb].
  destruct (f <=? l) eqn:E3; [|reflexivity]. b2p E1. b2p E2. b2p E3. lia.
Qed.

Lemma erase_range_safe c v f l : cap_ok c -> inv c v -> safe c (erase_range v f l).
Proof.
  intros Hc Hi. apply inv_repr in Hi. set (L := elems v) in *.
  assert (D : (0 <= f <= l /\ l <= len L) \/ (f < 0 \/ l < f \/ len L < l)) by lia.
  destruct D as [(H1 & H2)|D].
  - eapply okr_safe, erase_range_ok; eauto.
  - rewrite (erase_range_contract c v L); auto. exact I.
Qed.

(** * erase(pos) *)
Lemma erase_at_ok c v L pos : cap_ok c -> repr c v L -> 0 <= pos < len L ->
  okr c (erase_at v pos) (del L pos (pos + 1)).
Proof.
  intros Hc Hr Hp. pose proof Hr as (rest & Hb & Hs & Hlen).
  unfold erase_at. rewrite pos_ok_t by lia. cbn [negb]. apply erase_range_ok; auto; lia.
Qed.

Lemma erase_at_contract c v L pos : repr c v L -> pos < 0 \/ len L <= pos -> erase_at v pos = Contract.
Proof.
  intros Hr Hbad. unfold erase_at. destruct (pos_ok v pos); [|reflexivity]. cbn [negb].
  apply (erase_range_contract c v L); auto. lia.
Qed.

Lemma erase_at_safe c v pos : cap_ok c -> inv c v -> safe c (erase_at v pos).
Proof.
  intros Hc Hi. apply inv_repr in Hi. set (L := elems v) in *.
  assert (D : (0 <= pos < len L) \/ (pos < 0 \/ len L <= pos)) by lia.
  destruct D as [H1|D].
  - eapply okr_safe, erase_at_ok; eauto.
  - rewrite (erase_at_contract c v L); auto. exact I.
Qed.

(** * erase_if / erase *)
Lemma erase_if_ok c v L (p : Z -> bool) : cap_ok c -> repr c v L ->
  let K := filter (fun x => negb (p x)) L in
  exists v', erase_if p v = Ok (v', len L - len K) /\ repr c v' K.
Proof.
  intros Hc Hr K. pose proof Hr as (rest & Hb & Hs & Hlen).
  pose proof (repr_len _ _ _ Hr) as Hle.
  assert (HL : elems v = L) by (apply (repr_inv c), Hr).
  unfold erase_if. rewrite HL.
  destruct (remove_if_correct p L) as (l' & Hrun & Hpre & Hl').
  unfold Tetl.C06a.Spec.remove_if_spec in *. fold K in Hrun, Hpre.
  rewrite Hrun. cbn [rbind fst snd].
  assert (HK : (length K <= length L)%nat) by apply filter_length_le.
  set (v1 := {| buf := l' ++ skipn (szn v) (buf v); sz := sz v |}).
  assert (Hr1 : repr c v1 l').
  { exists (skipn (szn v) (buf v)). unfold v1. cbn [buf sz]. split; [reflexivity|split].
    - rewrite Hs. unfold len. rewrite Hl'. reflexivity.
    - rewrite app_length, skipn_length, Hl', Hlen. unfold szn. rewrite Hs, to_nat_len.
      unfold len in Hle. lia. }
  destruct (erase_range_ok c v1 l' (Z.of_nat (length K)) (sz v) Hc Hr1) as (v' & Hv' & Hr').
  { rewrite Hs. unfold len. lia. }
  { rewrite Hs. unfold len. rewrite Hl'. lia. }
  rewrite Hv'. cbn [rbind]. exists v'. split.
  - rewrite Hs. reflexivity.
  - unfold del in Hr'. rewrite Nat2Z.id, Hpre in Hr'.
    rewrite skipn_all2 in Hr' by (rewrite Hs, to_nat_len, Hl'; lia).
    rewrite app_nil_r in Hr'. exact Hr'.
Qed.
