(* C01 proofs, fifth part: the operations whose ARGUMENTS have other types than the element (models of ModelArg.v against
   SpecArg.v).  Every new operation is an older operation with the constructed element / the comparison as its argument /
   predicate table (ModelArg.wplain, wpred); the theorems of ProofsEl.v / ProofsIt.v / ProofsIvExt.v hold for EVERY
   predicate table and every argument, so they carry over. *)
From Tetl Require Import Lib.Base Lib.Arr C06a.Model C01.Model C01.Spec C01.ModelExt C01.SpecExt C01.ModelIt C01.SpecIt
  C01.ModelEl C01.SpecEl C01.ModelArg C01.SpecArg.
From Tetl Require Import C01.ProofsBase C01.ProofsStep C01.ProofsExt C01.ProofsStack C01.ProofsIvExt C01.ProofsFast C01.ProofsIt
  C01.ProofsEl.
From Coq Require Import Lia ZArith List Bool.
Import ListNotations.
Local Open Scope Z_scope.
Ltac Zify.zify_post_hook ::= Z.to_euclidean_division_equations.

Definition wat_arg_ok (o : wop) : Prop := match o with WZ o => zat_arg_ok o | _ => True end.
Definition wsize_args_ok (o : wop) : Prop := match o with WZ o => zsize_args_ok o | _ => True end.
Definition iv_wat_arg_ok (o : iv_wop) : Prop := match o with IvW o => iv_xat_arg_ok o | _ => True end.
Definition iv_wsize_args_ok (o : iv_wop) : Prop := match o with IvW o => iv_xsize_args_ok o | _ => True end.

Section W.
Variable A : argt.
Variable E : elt.
Variable pred : Z -> Z -> bool.

(** * the new operations are old operations *)
Lemma wstep_plain s o : wstep A E pred s o = zstep E (wpred A pred o) s (wplain A o).
Proof. destruct o; reflexivity. Qed.
Lemma wspec_plain cz S o : wspec_step A E pred cz S o = zspec_step E (wpred A pred o) cz S (wplain A o).
Proof. destruct o; reflexivity. Qed.
Lemma st_wstep_plain s o : st_wstep A E s o = st_zstep E s (st_wplain A o).
Proof. destruct o; reflexivity. Qed.
Lemma st_wspec_plain cz S o : st_wspec_step A E cz S o = st_zspec_step E cz S (st_wplain A o).
Proof. destruct o; reflexivity. Qed.
Lemma iv_wstep_plain s o : iv_wstep A s o = iv_xstep s (iv_wplain A o).
Proof. destruct o; reflexivity. Qed.
Lemma iv_wspec_plain cz S o : iv_wspec_step A cz S o = iv_xspec_step cz S (iv_wplain A o).
Proof. destruct o; reflexivity. Qed.

Lemma wplain_at_arg_ok o : wat_arg_ok o -> zat_arg_ok (wplain A o).
Proof. destruct o; cbn [wat_arg_ok wplain zat_arg_ok yat_arg_ok xat_arg_ok at_arg_ok]; auto. Qed.
Lemma wplain_size_args_ok o : wsize_args_ok o -> zsize_args_ok (wplain A o).
Proof. destruct o; cbn [wsize_args_ok wplain zsize_args_ok ysize_args_ok xsize_args_ok size_args_ok]; auto. Qed.
Lemma iv_wplain_at_arg_ok o : iv_wat_arg_ok o -> iv_xat_arg_ok (iv_wplain A o).
Proof. destruct o; cbn [iv_wat_arg_ok iv_wplain iv_xat_arg_ok]; auto. Qed.
Lemma iv_wplain_size_args_ok o : iv_wsize_args_ok o -> iv_xsize_args_ok (iv_wplain A o).
Proof. destruct o; cbn [iv_wsize_args_ok iv_wplain iv_xsize_args_ok]; auto. Qed.

Section Cap.
Variable c : nat.
Hypothesis Hc : cap_ok c.

(** * static_vector *)
Theorem wstep_refines : forall s o, inv c (fst s) -> inv c (snd s) -> forall s1 out,
  wspec_step A E pred (Z.of_nat c) (abs s) o = Some (s1, out) ->
  exists s', wstep A E pred s o = Ok (s', out) /\ abs s' = s1 /\ inv c (fst s') /\ inv c (snd s')
             /\ observe s' = spec_observe (Z.of_nat c) s1.
Proof.
  intros s o Ha Hb s1 out H. rewrite wspec_plain in H. rewrite wstep_plain.
  exact (zstep_refines E (wpred A pred o) c Hc s (wplain A o) Ha Hb s1 out H).
Qed.

Theorem wrun_refines : forall ops s outs, inv c (fst s) -> inv c (snd s) ->
  wspec_run A E pred (Z.of_nat c) (abs s) ops = Some outs ->
  wrun A E pred s ops = map Ok outs.
Proof.
  induction ops as [|o rest IH]; intros s outs Ha Hb H; cbn [wspec_run wrun] in *.
  - injection H as <-. reflexivity.
  - destruct (wspec_step A E pred (Z.of_nat c) (abs s) o) as [[s1 out]|] eqn:Eo; [|discriminate].
    destruct (wspec_run A E pred (Z.of_nat c) s1 rest) as [r|] eqn:Er; [|discriminate].
    injection H as <-.
    destruct (wstep_refines s o Ha Hb s1 out Eo) as (s' & -> & Habs & Ha' & Hb' & Hobs).
    cbn [map]. rewrite Hobs. f_equal. apply IH; auto. rewrite Habs. exact Er.
Qed.

Theorem wstep_no_ub : forall s o, inv c (fst s) -> inv c (snd s) -> wat_arg_ok o ->
  (forall k, wstep A E pred s o <> UB k) /\ wstep A E pred s o <> OutOfFuel.
Proof.
  intros s o Ha Hb Harg. rewrite wstep_plain.
  exact (zstep_no_ub E (wpred A pred o) c Hc s (wplain A o) Ha Hb (wplain_at_arg_ok o Harg)).
Qed.

Lemma wstep_keeps_inv s o s' out : inv c (fst s) -> inv c (snd s) -> wstep A E pred s o = Ok (s', out) ->
  inv c (fst s') /\ inv c (snd s').
Proof.
  intros Ha Hb H. rewrite wstep_plain in H. exact (zstep_keeps_inv E (wpred A pred o) c Hc s (wplain A o) s' out Ha Hb H).
Qed.

Theorem wstep_contract_fires : forall s o, inv c (fst s) -> inv c (snd s) -> wsize_args_ok o ->
  wspec_step A E pred (Z.of_nat c) (abs s) o = None -> wstep A E pred s o = Contract.
Proof.
  intros s o Ha Hb Harg H. rewrite wspec_plain in H. rewrite wstep_plain.
  exact (zstep_contract_fires E (wpred A pred o) c Hc s (wplain A o) Ha Hb (wplain_size_args_ok o Harg) H).
Qed.

Theorem wstep_fast_eq : forall s o, inv c (fst s) -> inv c (snd s) -> wstep_fast A E pred s o = wstep A E pred s o.
Proof. intros s o Ha Hb. destruct o; cbn [wstep_fast wstep]; try reflexivity. apply (zstep_fast_eq E pred c Hc); auto. Qed.

Theorem wrun_fast_eq : forall ops s, inv c (fst s) -> inv c (snd s) -> wrun_fast A E pred s ops = wrun A E pred s ops.
Proof.
  induction ops as [|o rest IH]; intros s Ha Hb; cbn [wrun_fast wrun]; [reflexivity|].
  rewrite wstep_fast_eq by auto.
  destruct (wstep A E pred s o) as [[s' out]| | |] eqn:Eo; try reflexivity.
  destruct (wstep_keeps_inv s o s' out Ha Hb Eo) as (Ha' & Hb'). rewrite IH by auto. reflexivity.
Qed.

(** * stack *)
Theorem st_wstep_refines : forall s o, inv c (fst s) -> inv c (snd s) -> forall s1 out,
  st_wspec_step A E (Z.of_nat c) (st_abs s) o = Some (s1, out) ->
  exists s', st_wstep A E s o = Ok (s', out) /\ st_abs s' = s1 /\ inv c (fst s') /\ inv c (snd s')
             /\ observe s' = st_spec_observe (Z.of_nat c) s1.
Proof.
  intros s o Ha Hb s1 out H. rewrite st_wspec_plain in H. rewrite st_wstep_plain.
  exact (st_zstep_refines E c Hc s (st_wplain A o) Ha Hb s1 out H).
Qed.

Theorem st_wrun_refines : forall ops s outs, inv c (fst s) -> inv c (snd s) ->
  st_wspec_run A E (Z.of_nat c) (st_abs s) ops = Some outs ->
  st_wrun A E s ops = map Ok outs.
Proof.
  induction ops as [|o rest IH]; intros s outs Ha Hb H; cbn [st_wspec_run st_wrun] in *.
  - injection H as <-. reflexivity.
  - destruct (st_wspec_step A E (Z.of_nat c) (st_abs s) o) as [[s1 out]|] eqn:Eo; [|discriminate].
    destruct (st_wspec_run A E (Z.of_nat c) s1 rest) as [r|] eqn:Er; [|discriminate].
    injection H as <-.
    destruct (st_wstep_refines s o Ha Hb s1 out Eo) as (s' & -> & Habs & Ha' & Hb' & Hobs).
    cbn [map]. rewrite Hobs. f_equal. apply IH; auto. rewrite Habs. exact Er.
Qed.

Theorem st_wstep_contract_fires : forall s o, inv c (fst s) -> inv c (snd s) ->
  st_wspec_step A E (Z.of_nat c) (st_abs s) o = None -> st_wstep A E s o = Contract.
Proof.
  intros s o Ha Hb H. rewrite st_wspec_plain in H. rewrite st_wstep_plain.
  exact (st_zstep_contract_fires E c s (st_wplain A o) Ha Hb H).
Qed.

(** * inplace_vector *)
Theorem iv_wstep_refines : forall s o, inv c (fst s) -> inv c (snd s) -> forall s1 out,
  iv_wspec_step A (Z.of_nat c) (abs s) o = Some (s1, out) ->
  exists s', iv_wstep A s o = Ok (s', out) /\ abs s' = s1 /\ inv c (fst s') /\ inv c (snd s')
             /\ observe s' = spec_observe (Z.of_nat c) s1.
Proof.
  intros s o Ha Hb s1 out H. rewrite iv_wspec_plain in H. rewrite iv_wstep_plain.
  exact (iv_xstep_refines c Hc s (iv_wplain A o) Ha Hb s1 out H).
Qed.

Theorem iv_wrun_refines : forall ops s outs, inv c (fst s) -> inv c (snd s) ->
  iv_wspec_run A (Z.of_nat c) (abs s) ops = Some outs ->
  iv_wrun A s ops = map Ok outs.
Proof.
  induction ops as [|o rest IH]; intros s outs Ha Hb H; cbn [iv_wspec_run iv_wrun] in *.
  - injection H as <-. reflexivity.
  - destruct (iv_wspec_step A (Z.of_nat c) (abs s) o) as [[s1 out]|] eqn:Eo; [|discriminate].
    destruct (iv_wspec_run A (Z.of_nat c) s1 rest) as [r|] eqn:Er; [|discriminate].
    injection H as <-.
    destruct (iv_wstep_refines s o Ha Hb s1 out Eo) as (s' & -> & Habs & Ha' & Hb' & Hobs).
    cbn [map]. rewrite Hobs. f_equal. apply IH; auto. rewrite Habs. exact Er.
Qed.

Theorem iv_wstep_no_ub : forall s o, inv c (fst s) -> inv c (snd s) -> iv_wat_arg_ok o ->
  (forall k, iv_wstep A s o <> UB k) /\ iv_wstep A s o <> OutOfFuel.
Proof.
  intros s o Ha Hb Harg. rewrite iv_wstep_plain.
  exact (iv_xstep_no_ub c Hc s (iv_wplain A o) Ha Hb (iv_wplain_at_arg_ok o Harg)).
Qed.

Lemma iv_wstep_keeps_inv s o s' out : inv c (fst s) -> inv c (snd s) -> iv_wstep A s o = Ok (s', out) ->
  inv c (fst s') /\ inv c (snd s').
Proof.
  intros Ha Hb H. rewrite iv_wstep_plain in H. exact (iv_xstep_keeps_inv c Hc s (iv_wplain A o) s' out Ha Hb H).
Qed.

Theorem iv_wstep_contract_fires : forall s o, inv c (fst s) -> inv c (snd s) -> iv_wsize_args_ok o ->
  iv_wspec_step A (Z.of_nat c) (abs s) o = None -> iv_wstep A s o = Contract.
Proof.
  intros s o Ha Hb Harg H. rewrite iv_wspec_plain in H. rewrite iv_wstep_plain.
  exact (iv_xstep_contract_fires c Hc s (iv_wplain A o) Ha Hb (iv_wplain_size_args_ok o Harg) H).
Qed.

Theorem iv_wstep_fast_eq : forall s o, inv c (fst s) -> inv c (snd s) -> iv_wstep_fast A s o = iv_wstep A s o.
Proof. intros s o Ha Hb. destruct o; cbn [iv_wstep_fast iv_wstep]; try reflexivity. apply (iv_xstep_fast_eq c Hc); auto. Qed.

Theorem iv_wrun_fast_eq : forall ops s, inv c (fst s) -> inv c (snd s) -> iv_wrun_fast A s ops = iv_wrun A s ops.
Proof.
  induction ops as [|o rest IH]; intros s Ha Hb; cbn [iv_wrun_fast iv_wrun]; [reflexivity|].
  rewrite iv_wstep_fast_eq by auto.
  destruct (iv_wstep A s o) as [[s' out]| | |] eqn:Eo; try reflexivity.
  destruct (iv_wstep_keeps_inv s o s' out Ha Hb Eo) as (Ha' & Hb'). rewrite IH by auto. reflexivity.
Qed.
End Cap.
End W.

(** * the heterogeneous comparison is not "convert the element to the value's type, then compare" *)
(* what a lambda with parameter  U const& item  computes: the element is converted to U first *)
Definition conv_then_eq (T U : sty) (item value : Z) : bool :=
  cxx_eq U U (cxx_conv T U item) value.

