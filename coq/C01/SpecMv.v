(* C01 specification, sixth part: the object a move leaves behind (operations of ModelMv.v), on plain lists.

   The standard leaves a moved-from std::vector "valid but unspecified" because it may hand over its allocation.  A
   fixed-capacity vector has no allocation to hand over: its move members move the ELEMENTS, and what remains is said by the
   library (and, for inplace_vector, by [inplace.vector.cons] / P0843):

   static_vector / stack over it   the move constructor / move assignment move-construct every element of the source into the
                                   target ([sequence.reqmts] for an allocator that cannot propagate: "each element of rv is
                                   moved").  The target holds the values the source held; the source keeps its size and each
                                   of its elements is a moved-from T: e_mv E x.  (For a trivially copyable T that is x itself.)
                                   stack(Container&&): the container is moved the same way.
   inplace_vector                  T trivially move constructible / assignable: inplace_vector<T, N> is trivially so itself
                                   ([inplace.vector.overview] p4-p6), a move is a copy and the source is UNCHANGED;
                                   otherwise the elements are moved out and the source is left EMPTY - what the library's
                                   move constructor documents and its test suite pins (tests/inplace_vector: `CHECK(vec.empty())`
                                   after `auto move = etl::move(vec)`), what std::vector does, and what the move ASSIGNMENT
                                   must therefore do too: both members are "construct/assign from an rvalue of the same type"
                                   and leave the same kind of source.
   Nothing here knows how a member is implemented. *)
From Tetl Require Import Lib.Base C01.Model C01.Spec C01.ModelExt C01.SpecExt C01.ModelIt C01.SpecIt C01.ModelEl C01.SpecEl
  C01.ModelArg C01.SpecArg C01.ModelMv.
Local Open Scope Z_scope.

Section MvSpec.
Variable A : argt.
Variable E : elt.
Variable pred_of : Z -> Z -> bool.
Variable capacity : Z.

Definition moved_from (l : list Z) : list Z := map (e_mv E) l.

Definition vspec_step (s : list Z * list Z) (o : vop) : option ((list Z * list Z) * list Z) :=
  match o with
  | VW o => wspec_step A E pred_of capacity s o
  | VMoveAssign t => let l := ssel (negb t) s in Some (supd (negb t) (supd t s l) (moved_from l), [])
  | VMoveConstruct t => let l := ssel t s in Some (supd t s (moved_from l), len l :: l)
  end.

Fixpoint vspec_run (s : list Z * list Z) (ops : list vop) : option (list (list Z * list Z)) :=
  match ops with
  | [] => Some []
  | o :: rest =>
      match vspec_step s o with
      | None => None
      | Some (s', out) =>
          match vspec_run s' rest with
          | Some r => Some ((out, spec_observe capacity s') :: r)
          | None => None
          end
      end
  end.

(* std::stack (head = top); the observations show the container bottom first *)
Definition st_vspec_step (s : list Z * list Z) (o : st_vop) : option ((list Z * list Z) * list Z) :=
  match o with
  | StV o => st_wspec_step A E capacity s o
  | StVMoveAssign t => let l := ssel (negb t) s in Some (supd (negb t) (supd t s l) (moved_from l), [])
  | StVMoveConstruct t => let l := ssel t s in Some (supd t s (moved_from l), len l :: rev l)
  | StVFromContainerRv t xs =>
      guard (len xs <=? capacity) (supd t s (rev xs), len xs :: len xs :: moved_from xs)
  end.

Fixpoint st_vspec_run (s : list Z * list Z) (ops : list st_vop) : option (list (list Z * list Z)) :=
  match ops with
  | [] => Some []
  | o :: rest =>
      match st_vspec_step s o with
      | None => None
      | Some (s', out) =>
          match st_vspec_run s' rest with
          | Some r => Some ((out, st_spec_observe capacity s') :: r)
          | None => None
          end
      end
  end.

(* inplace_vector *)
Variable I : ivt.

Definition iv_vspec_step (s : list Z * list Z) (o : iv_vop) : option ((list Z * list Z) * list Z) :=
  match o with
  | IvV o => iv_wspec_step A capacity s o
  | IvVMoveAssign t =>
      let l := ssel (negb t) s in
      if ivt_ma I then Some (supd t s l, []) else Some (supd (negb t) (supd t s l) [], [])
  | IvVMoveConstruct t =>
      let l := ssel t s in
      if ivt_mc I then Some (s, len l :: l) else Some (supd t s [], len l :: l)
  end.

Fixpoint iv_vspec_run (s : list Z * list Z) (ops : list iv_vop) : option (list (list Z * list Z)) :=
  match ops with
  | [] => Some []
  | o :: rest =>
      match iv_vspec_step s o with
      | None => None
      | Some (s', out) =>
          match iv_vspec_run s' rest with
          | Some r => Some ((out, spec_observe capacity s') :: r)
          | None => None
          end
      end
  end.
End MvSpec.
