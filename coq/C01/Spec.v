(* C01 specification: std::vector<T> as a plain list, each operation with its documented
   precondition (None = the call is outside its domain: position invalid, or it would need more
   than `capacity` elements, which the fixed-capacity containers exclude by contract).
   Nothing here knows about storage, rotation or stored sizes. *)
From Tetl Require Import Lib.Base C01.Model.
Local Open Scope Z_scope.

Definition len (l : list Z) : Z := Z.of_nat (length l).

Definition ins (l : list Z) (pos : Z) (xs : list Z) : list Z :=
  firstn (Z.to_nat pos) l ++ xs ++ skipn (Z.to_nat pos) l.
Definition del (l : list Z) (f t : Z) : list Z := firstn (Z.to_nat f) l ++ skipn (Z.to_nat t) l.

Definition ssel (t : bool) (s : list Z * list Z) : list Z := if t then snd s else fst s.
Definition supd (t : bool) (s : list Z * list Z) (l : list Z) : list Z * list Z :=
  if t then (fst s, l) else (l, snd s).

(* lexicographic three-way comparison, [alg.lex.comparison] *)
Fixpoint lex_cmp (a b : list Z) : comparison :=
  match a, b with
  | [], [] => Eq
  | [], _ :: _ => Lt
  | _ :: _, [] => Gt
  | x :: s, y :: t => match x ?= y with Eq => lex_cmp s t | c => c end
  end.
Definition spec_relations (a b : list Z) : list bool :=
  let c := lex_cmp a b in
  let is x := match c, x with Eq, Eq => true | Lt, Lt => true | Gt, Gt => true | _, _ => false end in
  [is Eq; negb (is Eq); is Lt; negb (is Gt); is Gt; negb (is Lt)].

Section SpecStep.
Variable pred_of : Z -> Z -> bool.
Variable capacity : Z.

Definition guard {A} (b : bool) (x : A) : option A := if b then Some x else None.

Definition spec_step (s : list Z * list Z) (o : op) : option ((list Z * list Z) * list Z) :=
  let mut t (pre : bool) (l : list Z) (out : list Z) := guard pre (supd t s l, out) in
  match o with
  | PushBack t x | EmplaceBack t x =>
      let l := ssel t s in mut t (len l <? capacity) (l ++ [x]) []
  | PopBack t => let l := ssel t s in mut t (0 <? len l) (removelast l) []
  | InsertCR t pos x | InsertRV t pos x | EmplaceAt t pos x =>
      let l := ssel t s in
      mut t ((0 <=? pos) && (pos <=? len l) && (len l <? capacity)) (ins l pos [x]) [pos]
  | InsertN t pos n x =>
      let l := ssel t s in
      mut t ((0 <=? pos) && (pos <=? len l) && (0 <=? n) && (len l + n <=? capacity))
          (ins l pos (repeat x (Z.to_nat n))) [pos]
  | InsertRange t pos xs =>
      let l := ssel t s in
      mut t ((0 <=? pos) && (pos <=? len l) && (len l + len xs <=? capacity)) (ins l pos xs) [pos]
  | EraseAt t pos =>
      let l := ssel t s in mut t ((0 <=? pos) && (pos <? len l)) (del l pos (pos + 1)) [pos]
  | EraseRange t f e =>
      let l := ssel t s in mut t ((0 <=? f) && (f <=? e) && (e <=? len l)) (del l f e) [f]
  | Clear t => mut t true [] []
  | Resize t n =>
      let l := ssel t s in
      mut t ((0 <=? n) && (n <=? capacity))
          (if n <=? len l then firstn (Z.to_nat n) l else l ++ repeat 0 (Z.to_nat (n - len l))) []
  | ResizeVal t n x =>
      let l := ssel t s in
      mut t ((0 <=? n) && (n <=? capacity))
          (if n <=? len l then firstn (Z.to_nat n) l else l ++ repeat x (Z.to_nat (n - len l))) []
  | AssignN t n x => mut t ((0 <=? n) && (n <=? capacity)) (repeat x (Z.to_nat n)) []
  | AssignRange t xs => mut t (len xs <=? capacity) xs []
  | Swap => Some ((snd s, fst s), [])
  | CopyAssign t => mut t true (ssel (negb t) s) []
  | MoveAssign t => Some (supd (negb t) (supd t s (ssel (negb t) s)) [], [])
  | CopyConstruct t => let l := ssel t s in Some (s, 1 :: len l :: l)
  | MoveRoundTrip t => let l := ssel t s in Some (s, len l :: l)
  | EraseIf t pid =>
      let l := ssel t s in
      let k := filter (fun x => negb (pred_of pid x)) l in
      mut t true k [len l - len k]
  | EraseVal t x =>
      let l := ssel t s in
      let k := filter (fun y => negb (y =? x)) l in
      mut t true k [len l - len k]
  | Relations => Some (s, map b2z (spec_relations (fst s) (snd s)))
  | At t i => let l := ssel t s in guard ((0 <=? i) && (i <? len l)) (s, [nth (Z.to_nat i) l 0])
  | Front t => let l := ssel t s in guard (0 <? len l) (s, [nth 0 l 0])
  | Back t => let l := ssel t s in guard (0 <? len l) (s, [last l 0])
  | SelfCopyAssign t | SelfSwap t => Some (s, [])
  end.

Definition spec_observe (s : list Z * list Z) : list Z :=
  let o l := len l :: b2z (len l =? 0) :: b2z (len l =? capacity) :: len l :: l in
  o (fst s) ++ o (snd s).

(* outputs of a history; None as soon as a step is outside its domain *)
Fixpoint spec_run (s : list Z * list Z) (ops : list op) : option (list (list Z * list Z)) :=
  match ops with
  | [] => Some []
  | o :: rest =>
      match spec_step s o with
      | None => None
      | Some (s', out) =>
          match spec_run s' rest with
          | Some r => Some ((out, spec_observe s') :: r)
          | None => None
          end
      end
  end.
End SpecStep.
