(* C01 — Fixed-capacity vectors behave exactly like std::vector within capacity.  Third property file (review round):
   the range members of static_vector for EVERY iterator category, emplace_back -> reference, stack::emplace -> reference.
   Property theorems only: each is closed by [exact]/a short wrapper of a lemma of ProofsIt.v, then Print Assumptions.

   Vocabulary as in Properties.v / Properties_ext.v:  inv c v := length (buf v) = c /\ 0 <= sz v <= c;  abs s := the two
   vectors as lists;  c : nat is the capacity, side condition Z.of_nat c < 2^63 only.
   itcat    = ItPtr | ItRandom | ItBidi | ItForward | ItInput: what kind of iterator the source range [first, last) is
              given by.  The header checks  first <= last  for pointers only and the capacity precondition up front for
              random-access iterators only; forward / input ranges rely on emplace_back's own precondition.
   yop      = every operation of ModelExt.xop (through XBase) + insert / move_insert / assign / range construction with a
              source of any category + emplace_back observed through the reference it returns + push_back /
              emplace_back / insert(p, x) / insert(p, n, x) / resize(n, x) whose argument x is the element v[k] of the
              vector itself (the model reads slot k at every construction from x).
   st_yop   = every operation of ModelExt.st_op + stack::emplace observed through the reference it returns. *)
From Tetl Require Import Lib.Base Lib.Arr C06a.Model C01.Model C01.Spec C01.ModelExt C01.SpecExt C01.ModelIt C01.SpecIt.
From Tetl Require Import C01.ProofsBase C01.ProofsStep C01.ProofsExt C01.ProofsStack C01.ProofsIt.
Local Open Scope Z_scope.

(** 1. The iterator category is irrelevant — also OUTSIDE the documented domain: for every category k, every position
    (valid or not) and every source range (fitting or not) the four range members return exactly what their raw-pointer
    instantiation returns: the same new state, or a contract violation in exactly the same cases.  (For forward / input
    ranges the violation is raised by the emplace_back that finds the vector full, after some elements were appended;
    the state after a violated contract is not observable.) *)
Theorem C01_iterator_category_irrelevant : forall c k v pos xs, Z.of_nat c < 2 ^ 63 -> inv c v ->
  insert_range_it k v pos xs = insert_range v pos xs /\
  move_insert_it k v pos xs = move_insert v pos xs /\
  assign_range_it k v xs = assign_range v xs /\
  ctor_range_it k v xs = ctor_range v xs.
Proof.
  intros c k v pos xs Hc Hi. repeat split.
  - exact (insert_range_it_eq c Hc k v pos xs Hi).
  - exact (move_insert_it_eq c Hc k v pos xs Hi).
  - exact (assign_range_it_eq c Hc k v xs Hi).
  - exact (ctor_range_it_eq c Hc k v xs (proj1 Hi)).
Qed.
Print Assumptions C01_iterator_category_irrelevant.

(** 1b. An argument that refers to an element of the vector itself — v.push_back(v[k]), v.emplace_back(v[k]),
    v.insert(p, v[k]), v.insert(p, n, v[k]), v.resize(n, v[k]), which std::vector must accept — is read from the inline
    storage each time an element is constructed from it; for a valid k the call is exactly the call with the VALUE of
    element k (at_value), and for any other k (a size_t, read modulo 2^64) operator[] stops it. *)
Theorem C01_own_element_argument : forall pred c s o t k, Z.of_nat c < 2 ^ 63 ->
  inv c (fst s) -> inv c (snd s) -> at_arg o = Some (t, k) ->
  (0 <= k < len (ssel t (abs s)) ->
     ystep pred s o = ystep pred s (at_value o (nth (Z.to_nat k) (ssel t (abs s)) 0))) /\
  (- 2 ^ 63 <= k < 2 ^ 64 -> k < 0 \/ len (ssel t (abs s)) <= k -> ystep pred s o = Contract).
Proof.
  intros pred c s o t k Hc Ha Hb Eo. split.
  - exact (ystep_at_value c Hc pred s o t k Ha Hb Eo).
  - exact (ystep_at_bad c Hc pred s o t k Ha Hb Eo).
Qed.
Print Assumptions C01_own_element_argument.

(** 2. One-step refinement and history refinement over yop: whenever std::vector defines the call — for a range member
    that is: valid position and the result fits the capacity, whatever the iterator category — the model returns the
    same values (for emplace_back: the index of the referenced element and the value read through the reference),
    reaches the specified abstract state, keeps the invariant and agrees on every observable. *)
Theorem C01_ystep_refines : forall pred c s o s1 out, Z.of_nat c < 2 ^ 63 ->
  inv c (fst s) -> inv c (snd s) ->
  yspec_step pred (Z.of_nat c) (abs s) o = Some (s1, out) ->
  exists s', ystep pred s o = Ok (s', out) /\ abs s' = s1 /\ inv c (fst s') /\ inv c (snd s')
             /\ observe s' = spec_observe (Z.of_nat c) s1.
Proof. intros pred c s o s1 out Hc Ha Hb. exact (ystep_refines c Hc pred s o Ha Hb s1 out). Qed.
Print Assumptions C01_ystep_refines.

Theorem C01_yhistory_refines : forall pred c ops s outs, Z.of_nat c < 2 ^ 63 ->
  inv c (fst s) -> inv c (snd s) ->
  yspec_run pred (Z.of_nat c) (abs s) ops = Some outs ->
  yrun pred s ops = map Ok outs.
Proof. intros pred c ops s outs Hc. exact (yrun_refines c Hc pred ops s outs). Qed.
Print Assumptions C01_yhistory_refines.

Theorem C01_yvector_refines_std : forall pred c ops outs, Z.of_nat c < 2 ^ 63 ->
  yspec_run pred (Z.of_nat c) ([], []) ops = Some outs ->
  yrun pred (empty_vec c, empty_vec c) ops = map Ok outs.
Proof.
  intros pred c ops outs Hc H. apply (yrun_refines c Hc); cbn [fst snd]; try apply empty_inv.
  unfold abs. cbn [fst snd]. rewrite empty_elems. exact H.
Qed.
Print Assumptions C01_yvector_refines_std.

(** 3. Safety and contract exactness over yop: for ALL arguments never UB, never out of fuel, a normal return keeps the
    invariant; whenever the specification does not define the call a TETL_PRECONDITION stops it — for a forward / input
    source too, although the header has no up-front capacity check for those. *)
Theorem C01_ysafe_and_contract_exact : forall pred c s o, Z.of_nat c < 2 ^ 63 ->
  inv c (fst s) -> inv c (snd s) ->
  (yat_arg_ok o ->
     (forall k, ystep pred s o <> UB k) /\ ystep pred s o <> OutOfFuel /\
     (forall s' out, ystep pred s o = Ok (s', out) -> inv c (fst s') /\ inv c (snd s'))) /\
  (ysize_args_ok o -> yspec_step pred (Z.of_nat c) (abs s) o = None -> ystep pred s o = Contract).
Proof.
  intros pred c s o Hc Ha Hb. split.
  - intros Harg. destruct (ystep_no_ub c Hc pred s o Ha Hb Harg) as (H1 & H2). split; [exact H1|]. split; [exact H2|].
    intros s' out H. pose proof (ystep_safe c Hc pred s o Ha Hb Harg) as S. rewrite H in S. exact S.
  - exact (ystep_contract_fires c Hc pred s o Ha Hb).
Qed.
Print Assumptions C01_ysafe_and_contract_exact.

(** 4. The function the correspondence run executes for static_vector histories (yrun_fast: the closed form of
    Properties_ext.C01_fast_model_equal for insert(end(), n, x), otherwise ystep) returns exactly the results of yrun. *)
Theorem C01_yfast_model_equal : forall pred c ops s, Z.of_nat c < 2 ^ 63 -> inv c (fst s) -> inv c (snd s) ->
  yrun_fast pred s ops = yrun pred s ops.
Proof. intros pred c ops s Hc. exact (yrun_fast_eq c Hc pred ops s). Qed.
Print Assumptions C01_yfast_model_equal.

(** 5. etl::stack over a static_vector with emplace observed through its result (std::stack::emplace returns what
    c.emplace_back returns, a reference to the new top): one step, whole histories from two default-constructed stacks,
    contract exactness (emplace on a full stack). *)
Theorem C01_stack_emplace_refines : forall c, Z.of_nat c < 2 ^ 63 ->
  (forall s o s1 out, inv c (fst s) -> inv c (snd s) ->
     st_yspec_step (Z.of_nat c) (st_abs s) o = Some (s1, out) ->
     exists s', st_ystep s o = Ok (s', out) /\ st_abs s' = s1 /\ inv c (fst s') /\ inv c (snd s')
                /\ observe s' = st_spec_observe (Z.of_nat c) s1) /\
  (forall ops outs, st_yspec_run (Z.of_nat c) ([], []) ops = Some outs ->
     st_yrun (empty_vec c, empty_vec c) ops = map Ok outs) /\
  (forall s o, inv c (fst s) -> inv c (snd s) ->
     st_yspec_step (Z.of_nat c) (st_abs s) o = None -> st_ystep s o = Contract).
Proof.
  intros c Hc. split; [|split].
  - intros s o s1 out Ha Hb. exact (st_ystep_refines c Hc s o Ha Hb s1 out).
  - intros ops outs H. apply (st_yrun_refines c Hc); cbn [fst snd]; try apply empty_inv.
    unfold st_abs. cbn [fst snd]. rewrite empty_elems. exact H.
  - exact (st_ystep_contract_fires c).
Qed.
Print Assumptions C01_stack_emplace_refines.

(** Non-vacuity: a capacity-3 history that uses every category is accepted by the specification and reproduced by the
    model; an input range that does not fit is outside the specification and is stopped by a contract although the
    header has no up-front check for it (and its random-access twin by the up-front check); emplace_back on a full
    vector likewise; a stack history through emplace. *)
Example C01_it_nonvacuous :
  let pred := fun (_ x : Z) => Z.even x in
  let ops := [AssignRangeIt false ItInput [5]; InsertRangeIt false ItForward 0 [7]; EmplaceBackRef false 9;
              CtorRangeIt true ItRandom [1; 2]; MoveInsertRangeIt true ItBidi 1 [4]; XBase (Base Relations);
              AssignRangeIt true ItRandom []; InsertRangeIt true ItPtr 0 [6; 8]; XBase (Base (Clear false));
              XBase (Base (PushBack false 3)); InsertNAt false 0 2 0; XBase (Base (PopBack false)); PushBackAt false 1;
              XBase (Base (EraseAt false 0)); InsertCRAt false 1 0; XBase (Base (Clear true)); EmplaceBackRef true 5;
              EmplaceBackAt true 0; ResizeValAt true 3 1] in
  let sops := [StEmplaceRef false 1; StEmplaceRef false 2; StBase (StTop false); StEmplaceRef true 3; StBase StSwap] in
  let fullv := {| buf := [1; 2; 3]; sz := 3 |} in
  let two := {| buf := [1; 2; 0]; sz := 2 |} in
  Z.of_nat 3 < 2 ^ 63 /\ inv 3 fullv /\ inv 3 two
  /\ (exists outs, yspec_run pred 3 ([], []) ops = Some outs /\ length outs = 19%nat
                   /\ yrun pred (empty_vec 3, empty_vec 3) ops = map Ok outs
                   /\ nth 2 outs ([], []) = ([2; 9], [3; 0; 1; 3; 7; 5; 9; 0; 1; 0; 0]))
  /\ (exists outs, st_yspec_run 3 ([], []) sops = Some outs /\ length outs = 5%nat
                   /\ st_yrun (empty_vec 3, empty_vec 3) sops = map Ok outs)
  /\ yspec_step pred 3 (abs (two, empty_vec 3)) (InsertRangeIt false ItInput 0 [8; 9]) = None
  /\ ystep pred (two, empty_vec 3) (InsertRangeIt false ItInput 0 [8; 9]) = Contract
  /\ ystep pred (two, empty_vec 3) (InsertRangeIt false ItRandom 0 [8; 9]) = Contract
  /\ ystep pred (two, empty_vec 3) (AssignRangeIt false ItForward [6; 7; 8; 9]) = Contract
  /\ ystep pred (fullv, empty_vec 3) (EmplaceBackRef false 4) = Contract
  /\ st_ystep (fullv, empty_vec 3) (StEmplaceRef false 4) = Contract.
Proof.
  cbv zeta. split; [reflexivity|]. split; [vm_compute; repeat split; discriminate|].
  split; [vm_compute; repeat split; discriminate|].
  split; [eexists; split; [vm_compute; reflexivity|repeat split; vm_compute; reflexivity]|].
  split; [eexists; split; [vm_compute; reflexivity|split; vm_compute; reflexivity]|].
  repeat split; vm_compute; reflexivity.
Qed.
