(* C01 specification, fourth part: what the standard says about the operations of ModelEl.v, for an ARBITRARY element
   type given by its  <  and  ==  (no order axioms) and its moved-from value.

   [container.reqmts] / [container.opt.reqmts] (C++17 wording; C++20 derives the last four from <=> with
   synth-three-way, which is the same function whenever < is asymmetric: lemma spec_relations_three_way)
       a == b    equal(a.begin(), a.end(), b.begin(), b.end()):  same length and  a[i] == b[i]  for all i
       a != b    !(a == b)
       a <  b    lexicographical_compare(a.begin(), a.end(), b.begin(), b.end())  [alg.lex.comparison]: at the first
                 position where the sequences differ under <  (a[i] < b[i] or b[i] < a[i])  the answer is  a[i] < b[i];
                 if there is none within the shorter one, the shorter sequence is the smaller one
       a >  b    b < a
       a <= b    !(a > b)
       a >= b    !(a < b)
   [stack.ops]: each operator of stack applies the same operator to the underlying containers.

   [sequence.reqmts] a.insert(p, i, j), a.assign(i, j), X(i, j): "inserts COPIES of the elements in [i, j)": each new
   element is constructed from *i, which for an iterator to non-const T is an lvalue: the source range keeps its values.
   move_insert(p, i, j) and static_vector(c_array&&) have no standard counterpart of that name; they are specified as
   a.insert(p, make_move_iterator(i), make_move_iterator(j)): each new element is constructed from an rvalue of *i, so
   every source element is left moved-from (e_mv).
   Nothing here knows how a member is implemented. *)
From Tetl Require Import Lib.Base C01.Model C01.Spec C01.ModelExt C01.SpecExt C01.ModelIt C01.SpecIt C01.ModelEl.
Local Open Scope Z_scope.

Section ElSpec.
Variable E : elt.

Fixpoint all2 (a b : list Z) : bool :=
  match a, b with
  | x :: s, y :: t => e_eq E x y && all2 s t
  | _, _ => true
  end.
Definition spec_eq (a b : list Z) : bool := (len a =? len b) && all2 a b.

(* the first pair of corresponding elements that differ under < *)
Fixpoint mismatch (a b : list Z) : option (Z * Z) :=
  match a, b with
  | x :: s, y :: t => if e_lt E x y || e_lt E y x then Some (x, y) else mismatch s t
  | _, _ => None
  end.
Definition spec_lt (a b : list Z) : bool :=
  match mismatch a b with
  | Some (x, y) => e_lt E x y
  | None => len a <? len b
  end.

Definition spec_relations_g (a b : list Z) : list bool :=
  let gt := spec_lt b a in
  [spec_eq a b; negb (spec_eq a b); spec_lt a b; negb gt; gt; negb (spec_lt a b)].

(* C++20: synth-three-way  (x < y ? less : y < x ? greater : equivalent)  compared lexicographically *)
Fixpoint lex3 (a b : list Z) : comparison :=
  match a, b with
  | [], [] => Eq
  | [], _ :: _ => Lt
  | _ :: _, [] => Gt
  | x :: s, y :: t => if e_lt E x y then Lt else if e_lt E y x then Gt else lex3 s t
  end.
Definition spec_relations_3way (a b : list Z) : list bool :=
  let c := lex3 a b in
  let is x := match c, x with Eq, Eq => true | Lt, Lt => true | Gt, Gt => true | _, _ => false end in
  [spec_eq a b; negb (spec_eq a b); is Lt; negb (is Gt); is Gt; negb (is Lt)].

Section ZSpec.
Variable pred_of : Z -> Z -> bool.
Variable capacity : Z.

(* the source range after the call, appended to what the operation returns *)
Definition with_source (src : list Z) (r : option ((list Z * list Z) * list Z)) : option ((list Z * list Z) * list Z) :=
  match r with
  | Some (s', out) => Some (s', out ++ src)
  | None => None
  end.

Definition zspec_step (s : list Z * list Z) (o : zop) : option ((list Z * list Z) * list Z) :=
  match o with
  | ZY o => yspec_step pred_of capacity s o
  | ZRelations => Some (s, map b2z (spec_relations_g (fst s) (snd s)))
  (* copies: the source is untouched *)
  | ZInsertRange t k pos xs => with_source xs (yspec_step pred_of capacity s (InsertRangeIt t k pos xs))
  | ZAssignRange t k xs => with_source xs (yspec_step pred_of capacity s (AssignRangeIt t k xs))
  | ZCtorRange t k xs => with_source xs (yspec_step pred_of capacity s (CtorRangeIt t k xs))
  (* moves: every source element is moved-from *)
  | ZMoveInsertRange t k pos xs =>
      with_source (map (e_mv E) xs) (yspec_step pred_of capacity s (MoveInsertRangeIt t k pos xs))
  | ZCtorArr t xs => with_source (map (e_mv E) xs) (yspec_step pred_of capacity s (XBase (CtorArr t xs)))
  end.

Fixpoint zspec_run (s : list Z * list Z) (ops : list zop) : option (list (list Z * list Z)) :=
  match ops with
  | [] => Some []
  | o :: rest =>
      match zspec_step s o with
      | None => None
      | Some (s', out) =>
          match zspec_run s' rest with
          | Some r => Some ((out, spec_observe capacity s') :: r)
          | None => None
          end
      end
  end.

(* std::stack (head = top); the relations compare the underlying sequences, bottom first *)
Definition st_zspec_step (s : list Z * list Z) (o : st_zop) : option ((list Z * list Z) * list Z) :=
  match o with
  | StZ o => st_yspec_step capacity s o
  | StZRelations => Some (s, map b2z (spec_relations_g (rev (fst s)) (rev (snd s))))
  end.

Fixpoint st_zspec_run (s : list Z * list Z) (ops : list st_zop) : option (list (list Z * list Z)) :=
  match ops with
  | [] => Some []
  | o :: rest =>
      match st_zspec_step s o with
      | None => None
      | Some (s', out) =>
          match st_zspec_run s' rest with
          | Some r => Some ((out, st_spec_observe capacity s') :: r)
          | None => None
          end
      end
  end.
End ZSpec.
End ElSpec.
