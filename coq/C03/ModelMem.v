(* C03 model, part 4: the uninitialized-memory algorithms the containers build on
   (include/etl/_memory/uninitialized_copy.hpp, uninitialized_move.hpp, uninitialized_fill.hpp) INCLUDING
   their exception path:
       current = dest;
       try { for (; first != last; ++first, ++current) construct_at(addressof( *current), *first); return current; }
       catch (...) { destroy(dest, current); throw; }
   [hs] = the initialisers of the destination slots 0, 1, ... of container c in order (Copy s / Move s / Value x);
   [throw_at = Some k]: the element constructor throws during its (k+1)-th call (k constructions succeeded, the
   throwing constructor itself created no object).  Result: the events, and whether the exception leaves the
   function.  etl::destroy(first, last) destroys in increasing order. *)
From Tetl Require Import Lib.Base C03.Trace C03.Model.
From Coq Require Import Arith.
Local Open Scope nat_scope.

Definition uninit (c : nat) (hs : list how) (throw_at : option nat) : list event * bool :=
  match throw_at with
  | Some k =>
      if k <? length hs then (constructs c 0 (firstn k hs) ++ destroys c 0 k, true)
      else (constructs c 0 hs, false)
  | None => (constructs c 0 hs, false)
  end.
