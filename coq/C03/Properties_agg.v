(* C03 — each element is constructed once and destroyed once.  Property theorems for etl::pair and
   etl::tuple (C03.ModelAgg): for EVERY number k of members, both element flavours and EVERY history
   of copy/move assignment, self assignment, copy/move construction of a scoped third object, swap
   and self swap on two objects, construction of a scoped object from k caller-side objects by copy /
   by move (pair(T1 const&, T2 const&), pair(U1&&, U2&&), tuple(Ts const&...), tuple(Args&&...), the
   converting constructors pair(pair<U1, U2> const&) / (pair<U1, U2>&&)) and the converting assignments
   from a pair<U1, U2>, from their construction to their destruction.  No operation has a
   precondition, so there is no hypothesis. *)
From Tetl Require Import Lib.Base C03.Trace C03.Model C03.ModelAgg C03.ProofsAgg C03.ProofsAggSelf.

Theorem C03_agg_lifecycle : forall (fl : bool) (k : nat) (ops : list aop),
  wf_trace (agg_trace fl k ops) = true /\ all_dead (agg_trace fl k ops) = true.
Proof. exact agg_lifecycle. Qed.
Print Assumptions C03_agg_lifecycle.

Theorem C03_agg_each_location_once : forall (fl : bool) (k : nat) (ops : list aop),
  forall l, once_each l (agg_trace fl k ops) /\
            constructions l (agg_trace fl k ops) = destructions l (agg_trace fl k ops).
Proof. exact agg_each_location_once. Qed.
Print Assumptions C03_agg_each_location_once.

Theorem C03_agg_verdict : forall (fl : bool) (k : nat) (ops : list aop),
  snd (agg_run_case fl k ops) = (true, 0).
Proof. exact agg_verdict. Qed.
Print Assumptions C03_agg_verdict.

(* self assignment and self swap leave every member value unchanged *)
Theorem C03_agg_self_identity : forall (fl : bool) (k : nat) (ops : list aop),
  agg_self_checks fl k ops = repeat true (agg_count_self ops).
Proof. exact agg_self_identity. Qed.
Print Assumptions C03_agg_self_identity.
