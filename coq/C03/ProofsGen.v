(* C03: Hoare-style rules for event generators over the two-state abstraction, and the index
   facts about etl::rotate / etl::remove_if that the container proofs need. *)
From Tetl Require Import Lib.Base C03.Trace C03.Model C03.ProofsTrace.
From Coq Require Import Arith ZifyBool.
Local Open Scope nat_scope.

(** * triples *)
(* from aliveness [a], the generator's events are all legal; if it completes with [x], the final
   aliveness satisfies [Q x]; it never runs out of fuel *)
Definition triple {A} (a : aliveness) (g : G A) (Q : A -> aliveness -> Prop) : Prop :=
  fst (brun a (fst g)) = true /\
  match snd g with
  | Done x => Q x (snd (brun a (fst g)))
  | Stop => True
  | Fuel => False
  end.

Lemma triple_ret {A} a (x : A) (Q : A -> aliveness -> Prop) : Q x a -> triple a (ret x) Q.
Proof. intros H. split; [reflexivity|exact H]. Qed.

Lemma triple_stop {A} a (Q : A -> aliveness -> Prop) : triple a stop Q.
Proof. split; [reflexivity|exact I]. Qed.

Lemma triple_emit a evs (Q : unit -> aliveness -> Prop) :
  fst (brun a evs) = true -> Q tt (snd (brun a evs)) -> triple a (emit evs) Q.
Proof. intros H1 H2. split; [exact H1|exact H2]. Qed.

Lemma triple_require a b (Q : unit -> aliveness -> Prop) : (b = true -> Q tt a) -> triple a (require b) Q.
Proof. intros H. destruct b; [apply triple_ret; auto|apply triple_stop]. Qed.

Lemma triple_bind {A B} a (g : G A) (f : A -> G B) (Q : A -> aliveness -> Prop) (R : B -> aliveness -> Prop) :
  triple a g Q -> (forall x a1, Q x a1 -> triple a1 (f x) R) -> triple a (bind g f) R.
Proof.
  intros [H1 H2] Hf. unfold bind. destruct (snd g) as [x| |] eqn:E.
  - specialize (Hf x _ H2). destruct Hf as [H3 H4]. unfold triple. cbn [fst snd].
    rewrite brun_app. cbn [fst snd]. rewrite H1, H3. split; [reflexivity|exact H4].
  - split; [exact H1|exact I].
  - destruct H2.
Qed.

Lemma triple_conseq {A} a (g : G A) (Q Q' : A -> aliveness -> Prop) :
  triple a g Q -> (forall x a', Q x a' -> Q' x a') -> triple a g Q'.
Proof.
  intros [H1 H2] H. split; [exact H1|]. destruct (snd g); [apply H; exact H2|exact I|exact H2].
Qed.

(* postconditions are stated up to pointwise equality, preconditions can be replaced likewise *)
Lemma triple_same {A} a b (g : G A) (Q : A -> aliveness -> Prop) :
  same b a -> (forall x a1 a2, same a1 a2 -> Q x a1 -> Q x a2) -> triple a g Q -> triple b g Q.
Proof.
  intros Hs HQ [H1 H2]. destruct (brun_same (fst g) b a Hs) as [E1 E2]. split; [rewrite E1; exact H1|].
  destruct (snd g); [|exact I|exact H2]. eapply HQ; [apply same_sym; exact E2|exact H2].
Qed.

(** * single events and simple loops on the abstraction *)
Definition legal (a : aliveness) (evs : list event) (a' : aliveness) : Prop :=
  fst (brun a evs) = true /\ same (snd (brun a evs)) a'.

Lemma legal_nil a : legal a [] a.
Proof. split; [reflexivity|apply same_refl]. Qed.

Lemma legal_app a e1 a1 e2 a2 : legal a e1 a1 -> legal a1 e2 a2 -> legal a (e1 ++ e2) a2.
Proof.
  intros [H1 H2] [H3 H4]. unfold legal. rewrite brun_app. cbn [fst snd].
  destruct (brun_same e2 _ _ H2) as [E1 E2]. rewrite H1, E1, H3. split; [reflexivity|].
  eapply same_trans; [exact E2|exact H4].
Qed.

Lemma legal_cons a e a1 t a2 : legal a [e] a1 -> legal a1 t a2 -> legal a (e :: t) a2.
Proof. intros H1 H2. change (e :: t) with ([e] ++ t). eapply legal_app; eassumption. Qed.

Lemma legal_post a evs a1 a2 : legal a evs a1 -> same a1 a2 -> legal a evs a2.
Proof. intros [H1 H2] H. split; [exact H1|eapply same_trans; eassumption]. Qed.

Lemma legal_pre a b evs a1 : same b a -> legal a evs a1 -> legal b evs a1.
Proof.
  intros H [H1 H2]. destruct (brun_same evs b a H) as [E1 E2]. split; [rewrite E1; exact H1|].
  eapply same_trans; eassumption.
Qed.

Lemma legal_construct a l h : a l = false -> bsrc_ok a h = true -> legal a [Construct l h] (fupd a l true).
Proof. intros H1 H2. unfold legal. cbn [brun bstep fst snd]. rewrite H1, H2. split; [reflexivity|apply same_refl]. Qed.

Lemma legal_assign a l h : a l = true -> bsrc_ok a h = true -> legal a [Assign l h] a.
Proof. intros H1 H2. unfold legal. cbn [brun bstep fst snd]. rewrite H1, H2. split; [reflexivity|apply same_refl]. Qed.

Lemma legal_destroy a l : a l = true -> legal a [Destroy l] (fupd a l false).
Proof. intros H1. unfold legal. cbn [brun bstep fst snd]. rewrite H1. split; [reflexivity|apply same_refl]. Qed.

Lemma triple_emit_legal a evs a1 (Q : unit -> aliveness -> Prop) :
  legal a evs a1 -> (forall a2, same a2 a1 -> Q tt a2) -> triple a (emit evs) Q.
Proof. intros [H1 H2] HQ. apply triple_emit; [exact H1|apply HQ; exact H2]. Qed.

(* moving is copying as far as legality is concerned *)
Lemma bsrc_ok_mv a fl s : bsrc_ok a (mv fl s) = a s.
Proof. unfold mv. destruct fl; reflexivity. Qed.

(* etl::swap of two live objects through a dead Temp 0 leaves aliveness as it was *)
Lemma legal_swap a fl x y : a x = true -> a y = true -> a (Temp 0) = false -> legal a (swap_ev fl x y) a.
Proof.
  intros Hx Hy Ht. unfold swap_ev.
  assert (Hxt : loc_eqb (Temp 0) x = false).
  { destruct (loc_eqb_spec (Temp 0) x) as [<-|]; [congruence|reflexivity]. }
  assert (Hyt : loc_eqb (Temp 0) y = false).
  { destruct (loc_eqb_spec (Temp 0) y) as [<-|]; [congruence|reflexivity]. }
  eapply legal_cons; [apply legal_construct; [exact Ht|rewrite bsrc_ok_mv; exact Hx]|].
  eapply legal_cons; [apply legal_assign; [unfold fupd; rewrite Hxt; exact Hx|rewrite bsrc_ok_mv; unfold fupd; rewrite Hyt; exact Hy]|].
  eapply legal_cons; [apply legal_assign; [unfold fupd; rewrite Hyt; exact Hy|rewrite bsrc_ok_mv; unfold fupd; rewrite loc_eqb_refl; reflexivity]|].
  eapply legal_post; [apply legal_destroy; unfold fupd; rewrite loc_eqb_refl; reflexivity|].
  intros z. unfold fupd. destruct (loc_eqb_spec (Temp 0) z) as [<-|]; [symmetry; exact Ht|reflexivity].
Qed.

Lemma legal_swaps a fl c (ps : list (nat * nat)) :
  (forall p, In p ps -> a (Slot c (fst p)) = true /\ a (Slot c (snd p)) = true) -> a (Temp 0) = false ->
  legal a (flat_map (fun p => swap_ev fl (Slot c (fst p)) (Slot c (snd p))) ps) a.
Proof.
  intros H Ht. induction ps as [|p0 t IH]; cbn [flat_map]; [apply legal_nil|].
  eapply legal_app.
  - destruct (H p0 (or_introl eq_refl)) as [H1 H2]. apply legal_swap; assumption.
  - apply IH. intros q Hq. apply H. right. exact Hq.
Qed.

Lemma legal_assigns a fl c (ps : list (nat * nat)) :
  (forall p, In p ps -> a (Slot c (fst p)) = true /\ a (Slot c (snd p)) = true) ->
  legal a (map (fun d => Assign (Slot c (fst d)) (mv fl (Slot c (snd d)))) ps) a.
Proof.
  intros H. induction ps as [|p0 t IH]; cbn [map]; [apply legal_nil|].
  eapply legal_cons.
  - destruct (H p0 (or_introl eq_refl)) as [H1 H2]. apply legal_assign; [exact H1|rewrite bsrc_ok_mv; exact H2].
  - apply IH. intros q Hq. apply H. right. exact Hq.
Qed.

(** * rotate: every iter_swap touches positions inside [first, last) *)
Lemma rot_loop_spec iters : forall write read nr,
  write < read -> write <= nr <= read ->
  let r := rot_loop iters write read nr in
  snd (fst r) = write + iters /\ write + iters <= snd r <= read + iters /\
  (forall p, In p (fst (fst r)) -> write <= fst p /\ fst p < read + iters /\ snd p < read + iters).
Proof.
  induction iters as [|k IH]; intros write read nr Hwr Hnr; cbn [rot_loop fst snd].
  - split; [lia|]. split; [lia|]. intros p [].
  - set (nr' := if write =? nr then read else nr).
    assert (Hnr' : S write <= nr' <= S read).
    { unfold nr'. destruct (Nat.eqb_spec write nr); lia. }
    specialize (IH (S write) (S read) nr' ltac:(lia) Hnr'). cbn zeta in IH.
    destruct IH as [H1 [H2 H3]]. rewrite H1. split; [lia|]. split; [lia|].
    intros p [<-|Hp]; cbn [fst snd]; [lia|]. specialize (H3 p Hp). lia.
Qed.

Lemma rot_m_spec fuel : forall first nfirst last,
  first <= nfirst <= last -> last - first < fuel ->
  exists ps, rot_m fuel first nfirst last = Some ps /\ forall p, In p ps -> fst p < last /\ snd p < last.
Proof.
  induction fuel as [|k IH]; intros first nfirst last Hr Hf; [lia|]. cbn [rot_m].
  destruct (Nat.eqb_spec first nfirst) as [E1|N1]; [exists []; split; [reflexivity|intros p []]|].
  destruct (Nat.eqb_spec nfirst last) as [E2|N2]; [exists []; split; [reflexivity|intros p []]|].
  pose proof (rot_loop_spec (last - nfirst) first nfirst first ltac:(lia) ltac:(lia)) as H. cbn zeta in H.
  destruct H as [H1 [H2 H3]].
  set (r := rot_loop (last - nfirst) first nfirst first) in *.
  destruct (IH (snd (fst r)) (snd r) last ltac:(lia) ltac:(lia)) as [ps [E Hps]].
  rewrite E. exists (fst (fst r) ++ ps). split; [reflexivity|].
  intros p Hp. apply in_app_or in Hp. destruct Hp as [Hp|Hp]; [specialize (H3 p Hp); lia|apply Hps; exact Hp].
Qed.

(** * remove_if: every move-assignment stays inside the range *)
Lemma find_if_idx_le p vals : forall i, i <= find_if_idx p vals i <= i + length vals.
Proof.
  induction vals as [|x t IH]; intros i; cbn [find_if_idx length]; [lia|].
  destruct (p x); [lia|]. specialize (IH (S i)). lia.
Qed.

Lemma remove_loop_spec p rest : forall first i, first <= i ->
  let r := remove_loop p rest first i in
  first <= snd r <= i + length rest /\ forall d, In d (fst r) -> fst d < i + length rest /\ snd d < i + length rest.
Proof.
  induction rest as [|x t IH]; intros first i Hfi; cbn [remove_loop length fst snd].
  - split; [lia|intros d []].
  - destruct (p x).
    + specialize (IH first (S i) ltac:(lia)). cbn zeta in IH. destruct IH as [H1 H2]. split; [lia|].
      intros d Hd. specialize (H2 d Hd). lia.
    + specialize (IH (S first) (S i) ltac:(lia)). cbn zeta in IH. destruct IH as [H1 H2]. cbn [fst snd]. split; [lia|].
      intros d [<-|Hd]; cbn [fst snd]; [lia|]. specialize (H2 d Hd). lia.
Qed.

Lemma remove_if_idx_spec p vals :
  let r := remove_if_idx p vals in
  snd r <= length vals /\ forall d, In d (fst r) -> fst d < length vals /\ snd d < length vals.
Proof.
  unfold remove_if_idx. pose proof (find_if_idx_le p vals 0) as Hf. set (first := find_if_idx p vals 0) in *.
  destruct (Nat.eqb_spec first (length vals)) as [E|N]; cbn [fst snd].
  - split; [lia|intros d []].
  - pose proof (remove_loop_spec p (skipn (S first) vals) first (S first) ltac:(lia)) as H. cbn zeta in H.
    rewrite skipn_length in H. destruct H as [H1 H2]. split; [lia|].
    intros d Hd. specialize (H2 d Hd). lia.
Qed.

(** * lower_bound / upper_bound: the returned position is inside [0, length] *)
Lemma bsearch_loop_le fuel p vals : forall first count,
  first + count <= length vals -> bsearch_loop fuel p vals first count <= length vals.
Proof.
  induction fuel as [|k IH]; intros first count H; cbn [bsearch_loop]; [lia|].
  destruct (Nat.eqb_spec count 0) as [E|N]; [lia|].
  assert (Hs : count / 2 < count) by (apply Nat.div_lt; lia).
  set (step := count / 2) in *.
  destruct (p (nth (first + step) vals 0%Z)); apply IH; lia.
Qed.

Lemma bsearch_le p vals : bsearch p vals <= length vals.
Proof. unfold bsearch. apply bsearch_loop_le. lia. Qed.
