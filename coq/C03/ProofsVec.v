(* C03: specifications (over the two-state abstraction) of every static_vector / inplace_vector
   member of C03.Model: from an aliveness in which container c holds exactly its first n slots,
   all emitted events are legal, and afterwards container c holds exactly its first n' slots and
   nothing else changed ([cpost]).  No fuel exhaustion. *)
From Tetl Require Import Lib.Base C03.Trace C03.Model C03.ProofsTrace C03.ProofsGen.
From Coq Require Import Arith ZifyBool.
Local Open Scope nat_scope.

Definition cshape (a : aliveness) (c n : nat) : Prop := forall i, a (Slot c i) = (i <? n).

(* aliveness a with container c replaced by "exactly the first n slots" *)
Definition reshape (a : aliveness) (c n : nat) : aliveness :=
  fun l => match l with
           | Slot c' i => ((c' =? c) && (i <? n)) || (negb (c' =? c) && a l)
           | _ => a l
           end.
Definition cpost (c : nat) (a : aliveness) (P : nat -> Prop) (n' : nat) (a' : aliveness) : Prop :=
  P n' /\ same a' (reshape a c n').

Definition in_range (c lo hi : nat) (l : loc) : bool :=
  match l with Slot c' i => (c' =? c) && (lo <=? i) && (i <? hi) | _ => false end.

Lemma fupd_true a l x : fupd a l true x = loc_eqb l x || a x.
Proof. unfold fupd. destruct (loc_eqb l x); reflexivity. Qed.
Lemma fupd_false a l x : fupd a l false x = negb (loc_eqb l x) && a x.
Proof. unfold fupd. destruct (loc_eqb l x); reflexivity. Qed.

Lemma triple_require' a b : triple a (require b) (fun _ a1 => b = true /\ a1 = a).
Proof. apply triple_require. intros H. split; [exact H|reflexivity]. Qed.

(* pointwise goals: push every known characterisation through, then boolean arithmetic *)
Ltac pw_unfold := idtac.   (* hook: later files add their own pointwise definitions *)
Ltac pw_rewrite1 :=
  pw_unfold;
  repeat match goal with
         | H : same ?a _ |- context [?a _] => rewrite !H
         end;
  rewrite ?fupd_true, ?fupd_false;
  unfold reshape, in_range;
  repeat match goal with
         | H : cshape ?a _ _ |- context [?a (Slot _ _)] => rewrite !H
         end.
Ltac pw_rewrite := repeat progress pw_rewrite1.
Ltac pw_split :=
  repeat (match goal with
          | |- context [Nat.eqb ?x ?y] => destruct (Nat.eqb_spec x y); [try first [subst x|subst y]|]
          end; pw_rewrite).
Ltac pw := intros; pw_rewrite; cbn [loc_eqb]; first [lia | pw_split; cbn [andb orb negb]; lia].
Ltac pwl l := intros l; destruct l as [?c ?i|?k|?k]; pw.

Lemma cshape_of_cpost c a P n' a' : cpost c a P n' a' -> cshape a' c n'.
Proof. intros [_ H] i. pw. Qed.

Lemma reshape_id a c n : cshape a c n -> same (reshape a c n) a.
Proof. intros H l. destruct l as [c0 i|k|k]; [destruct (Nat.eqb_spec c0 c) as [->|]|..]; pw. Qed.

Lemma reshape_reshape a c n1 n2 : same (reshape (reshape a c n1) c n2) (reshape a c n2).
Proof. pwl l. Qed.

Lemma cpost_chain c a a1 P n1 n2 a2 (Q : nat -> Prop) :
  same a1 (reshape a c n1) -> cpost c a1 P n2 a2 -> (P n2 -> Q n2) -> cpost c a Q n2 a2.
Proof.
  intros H1 [HP H2] HQ. split; [auto|]. intros l. rewrite H2. destruct l as [c' i| |]; unfold reshape; rewrite ?H1; cbn; try reflexivity.
  unfold reshape. lia.
Qed.

Lemma bsrc_ok_mono a a1 h : (forall l, a l = true -> a1 l = true) -> bsrc_ok a h = true -> bsrc_ok a1 h = true.
Proof. unfold bsrc_ok. destruct (src_of h); auto. Qed.

Lemma reshape_grows a c n n' : cshape a c n -> n <= n' -> forall l, a l = true -> reshape a c n' l = true.
Proof.
  intros Hc Hle l. destruct l as [c' i|k|k]; cbn [reshape]; auto.
  destruct (Nat.eqb_spec c' c) as [->|]; [rewrite Hc|]; lia.
Qed.

(** * loops of single events *)
Lemma legal_destroys c k : forall lo a,
  (forall i, lo <= i < lo + k -> a (Slot c i) = true) ->
  legal a (destroys c lo k) (fun l => a l && negb (in_range c lo (lo + k) l)).
Proof.
  induction k as [|k IH]; intros lo a H; cbn [destroys].
  - eapply legal_post; [apply legal_nil|]. pwl l.
  - eapply legal_cons; [apply legal_destroy; apply H; lia|].
    eapply legal_post; [apply IH|].
    + intros i Hi. rewrite fupd_false. cbn [loc_eqb]. rewrite H by lia. lia.
    + pwl l.
Qed.

Lemma legal_constructs c hs : forall lo a,
  (forall i, lo <= i < lo + length hs -> a (Slot c i) = false) ->
  (forall h, In h hs -> bsrc_ok a h = true) ->
  legal a (constructs c lo hs) (fun l => a l || in_range c lo (lo + length hs) l).
Proof.
  induction hs as [|h t IH]; intros lo a H Hs; cbn [constructs length] in *.
  - eapply legal_post; [apply legal_nil|]. pwl l.
  - eapply legal_cons; [apply legal_construct; [apply H; lia|apply Hs; left; reflexivity]|].
    eapply legal_post; [apply IH|].
    + intros i Hi. rewrite fupd_true. cbn [loc_eqb]. rewrite H by lia. lia.
    + intros h' Hh'. eapply bsrc_ok_mono; [|apply Hs; right; exact Hh'].
      intros l Hl. rewrite fupd_true, Hl. lia.
    + pwl l.
Qed.

Lemma legal_move_down fl c k : forall dst src a,
  (forall j, j < k -> a (Slot c (dst + j)) = true /\ a (Slot c (src + j)) = true) ->
  legal a (move_down fl c dst src k) a.
Proof.
  induction k as [|k IH]; intros dst src a H; cbn [move_down]; [apply legal_nil|].
  eapply legal_cons.
  - destruct (H 0 ltac:(lia)) as [H1 H2]. rewrite !Nat.add_0_r in *. apply legal_assign; [exact H1|rewrite bsrc_ok_mv; exact H2].
  - apply IH. intros j Hj. specialize (H (S j) ltac:(lia)). rewrite !Nat.add_succ_r in H. exact H.
Qed.

Section Specs.
Variable fl : bool.
Variable cap : nat.

(** * static_vector members *)
Lemma spec_emplace_back a c n h :
  cshape a c n -> n <= cap -> bsrc_ok a h = true ->
  triple a (emplace_back cap c n h) (cpost c a (fun n' => n' = S n /\ n' <= cap)).
Proof.
  intros Hc Hle Hs. unfold emplace_back.
  eapply triple_bind; [apply triple_require'|]. intros [] a1 [Hb ->].
  eapply triple_bind.
  { eapply triple_emit_legal with (Q := fun _ a2 => same a2 (fupd a (Slot c n) true)).
    - apply legal_construct; [rewrite Hc; apply Nat.ltb_irrefl|exact Hs].
    - intros a2 H2. exact H2. }
  intros [] a2 H2. apply triple_ret. split; [lia|]. pwl l.
Qed.

Lemma spec_push_back a c n h :
  cshape a c n -> n <= cap -> bsrc_ok a h = true ->
  triple a (push_back cap c n h) (cpost c a (fun n' => n' = S n /\ n' <= cap)).
Proof.
  intros Hc Hle Hs. unfold push_back.
  eapply triple_bind; [apply triple_require'|]. intros [] a1 [Hb ->].
  apply spec_emplace_back; assumption.
Qed.

Lemma spec_pop_back a c n :
  cshape a c n ->
  triple a (pop_back c n) (cpost c a (fun n' => n' = n - 1 /\ 0 < n)).
Proof.
  intros Hc. unfold pop_back.
  eapply triple_bind; [apply triple_require'|]. intros [] a1 [Hb ->].
  eapply triple_bind.
  { eapply triple_emit_legal with (Q := fun _ a2 => same a2 (fupd a (Slot c (n - 1)) false)).
    - apply legal_destroy. rewrite Hc. lia.
    - intros a2 H2. exact H2. }
  intros [] a2 H2. apply triple_ret. split; [lia|]. pwl l.
Qed.

Lemma spec_emplace_all c hs : forall a n,
  cshape a c n -> n <= cap -> (forall h, In h hs -> bsrc_ok a h = true) ->
  triple a (emplace_all cap c n hs) (cpost c a (fun n' => n' = n + length hs /\ n' <= cap)).
Proof.
  induction hs as [|h t IH]; intros a n Hc Hle Hs; cbn [emplace_all length].
  - apply triple_ret. split; [lia|]. apply same_sym. rewrite ?Nat.add_0_r. apply reshape_id. exact Hc.
  - eapply triple_bind; [apply spec_emplace_back; [exact Hc|exact Hle|apply Hs; left; reflexivity]|].
    intros n1 a1 [[-> Hn1] H1].
    eapply triple_conseq.
    + apply IH; [intros i; pw|exact Hn1|].
      intros h' Hh'. eapply bsrc_ok_mono; [|apply Hs; right; exact Hh'].
      intros l Hl. rewrite H1. eapply reshape_grows; [exact Hc|lia|exact Hl].
    + intros n2 a2 Hp. eapply cpost_chain; [exact H1|exact Hp|]. cbn beta. lia.
Qed.

Lemma spec_push_all c hs : forall a n,
  cshape a c n -> n <= cap -> (forall h, In h hs -> bsrc_ok a h = true) ->
  triple a (push_all cap c n hs) (cpost c a (fun n' => n' = n + length hs /\ n' <= cap)).
Proof.
  induction hs as [|h t IH]; intros a n Hc Hle Hs; cbn [push_all length].
  - apply triple_ret. split; [lia|]. apply same_sym. rewrite ?Nat.add_0_r. apply reshape_id. exact Hc.
  - eapply triple_bind; [apply spec_push_back; [exact Hc|exact Hle|apply Hs; left; reflexivity]|].
    intros n1 a1 [[-> Hn1] H1].
    eapply triple_conseq.
    + apply IH; [intros i; pw|exact Hn1|].
      intros h' Hh'. eapply bsrc_ok_mono; [|apply Hs; right; exact Hh'].
      intros l Hl. rewrite H1. eapply reshape_grows; [exact Hc|lia|exact Hl].
    + intros n2 a2 Hp. eapply cpost_chain; [exact H1|exact Hp|]. cbn beta. lia.
Qed.

Lemma spec_rotate a c n first nfirst last :
  cshape a c n -> first <= nfirst <= last -> last <= n -> a (Temp 0) = false ->
  triple a (rotate_g fl c first nfirst last) (fun _ a' => same a' a).
Proof.
  intros Hc Hr Hl Ht. unfold rotate_g.
  destruct (rot_m_spec (S (last - first)) first nfirst last Hr ltac:(lia)) as [ps [E Hps]]. rewrite E.
  eapply triple_emit_legal; [apply legal_swaps; [|exact Ht]|intros a2 H2; exact H2].
  intros p Hp. specialize (Hps p Hp). rewrite !Hc. lia.
Qed.

(* the common tail of the insert family: elements appended at the end, then rotated into place *)
Lemma spec_append_rotate a c n pos (app : G nat) k :
  cshape a c n -> pos <= n -> a (Temp 0) = false ->
  triple a app (cpost c a (fun n' => n' = n + k /\ n' <= cap)) ->
  triple a (do n' <- app ; exe rotate_g fl c pos n n' ; ret n') (cpost c a (fun n' => n' = n + k /\ n' <= cap)).
Proof.
  intros Hc Hpos Ht Happ.
  eapply triple_bind; [exact Happ|]. intros n1 a1 [[-> Hn1] H1].
  eapply triple_bind.
  { apply spec_rotate with (n := n + k); [intros i; pw|lia|lia|rewrite H1; exact Ht]. }
  intros [] a2 H2. apply triple_ret. split; [lia|]. eapply same_trans; eassumption.
Qed.

Lemma spec_move_insert a c n pos srcs :
  cshape a c n -> n <= cap -> (forall s, In s srcs -> a s = true) -> a (Temp 0) = false ->
  triple a (move_insert fl cap c n pos srcs) (cpost c a (fun n' => n' = n + length srcs /\ n' <= cap)).
Proof.
  intros Hc Hle Hs Ht. unfold move_insert.
  eapply triple_bind; [apply triple_require'|]. intros [] ? [Hb1 ->].
  eapply triple_bind; [apply triple_require'|]. intros [] ? [Hb2 ->].
  apply spec_append_rotate; [exact Hc|lia|exact Ht|].
  eapply triple_conseq; [apply spec_emplace_all; [exact Hc|exact Hle|]|].
  - intros h Hh. apply in_map_iff in Hh. destruct Hh as [s [<- Hs']]. rewrite bsrc_ok_mv. apply Hs. exact Hs'.
  - intros n' a' [HP HS]. rewrite map_length in HP. split; assumption.
Qed.

Lemma spec_insert_range a c n pos srcs :
  cshape a c n -> n <= cap -> (forall s, In s srcs -> a s = true) -> a (Temp 0) = false ->
  triple a (insert_range fl cap c n pos srcs) (cpost c a (fun n' => n' = n + length srcs /\ n' <= cap)).
Proof.
  intros Hc Hle Hs Ht. unfold insert_range.
  eapply triple_bind; [apply triple_require'|]. intros [] ? [Hb1 ->].
  eapply triple_bind; [apply triple_require'|]. intros [] ? [Hb2 ->].
  apply spec_append_rotate; [exact Hc|lia|exact Ht|].
  eapply triple_conseq; [apply spec_emplace_all; [exact Hc|exact Hle|]|].
  - intros h Hh. apply in_map_iff in Hh. destruct Hh as [s [<- Hs']]. cbn. apply Hs. exact Hs'.
  - intros n' a' [HP HS]. rewrite map_length in HP. split; assumption.
Qed.

(* sources that are not random-access iterators: the capacity bound comes from emplace_back alone *)
Lemma spec_move_insert_fwd a c n pos srcs :
  cshape a c n -> n <= cap -> (forall s, In s srcs -> a s = true) -> a (Temp 0) = false ->
  triple a (move_insert_fwd fl cap c n pos srcs) (cpost c a (fun n' => n' = n + length srcs /\ n' <= cap)).
Proof.
  intros Hc Hle Hs Ht. unfold move_insert_fwd.
  eapply triple_bind; [apply triple_require'|]. intros [] ? [Hb1 ->].
  apply spec_append_rotate; [exact Hc|lia|exact Ht|].
  eapply triple_conseq; [apply spec_emplace_all; [exact Hc|exact Hle|]|].
  - intros h Hh. apply in_map_iff in Hh. destruct Hh as [s [<- Hs']]. rewrite bsrc_ok_mv. apply Hs. exact Hs'.
  - intros n' a' [HP HS]. rewrite map_length in HP. split; assumption.
Qed.

Lemma spec_insert_range_fwd a c n pos srcs :
  cshape a c n -> n <= cap -> (forall s, In s srcs -> a s = true) -> a (Temp 0) = false ->
  triple a (insert_range_fwd fl cap c n pos srcs) (cpost c a (fun n' => n' = n + length srcs /\ n' <= cap)).
Proof.
  intros Hc Hle Hs Ht. unfold insert_range_fwd.
  eapply triple_bind; [apply triple_require'|]. intros [] ? [Hb1 ->].
  apply spec_append_rotate; [exact Hc|lia|exact Ht|].
  eapply triple_conseq; [apply spec_emplace_all; [exact Hc|exact Hle|]|].
  - intros h Hh. apply in_map_iff in Hh. destruct Hh as [s [<- Hs']]. cbn. apply Hs. exact Hs'.
  - intros n' a' [HP HS]. rewrite map_length in HP. split; assumption.
Qed.

Lemma spec_insert_n a c n pos k src :
  cshape a c n -> n <= cap -> a src = true -> a (Temp 0) = false ->
  triple a (insert_n fl cap c n pos k src) (cpost c a (fun n' => n' = n + k /\ n' <= cap)).
Proof.
  intros Hc Hle Hs Ht. unfold insert_n.
  eapply triple_bind; [apply triple_require'|]. intros [] ? [Hb1 ->].
  eapply triple_bind; [apply triple_require'|]. intros [] ? [Hb2 ->].
  apply spec_append_rotate; [exact Hc|lia|exact Ht|].
  eapply triple_conseq; [apply spec_push_all; [exact Hc|exact Hle|]|].
  - intros h Hh. apply repeat_spec in Hh. subst h. exact Hs.
  - intros n' a' [HP HS]. rewrite repeat_length in HP. split; assumption.
Qed.

Lemma spec_insert_rv a c n pos src :
  cshape a c n -> n <= cap -> a src = true -> a (Temp 0) = false ->
  triple a (insert_rv fl cap c n pos src) (cpost c a (fun n' => n' = S n /\ n' <= cap)).
Proof.
  intros Hc Hle Hs Ht. unfold insert_rv.
  eapply triple_bind; [apply triple_require'|]. intros [] ? [Hb1 ->].
  eapply triple_bind; [apply triple_require'|]. intros [] ? [Hb2 ->].
  eapply triple_conseq; [apply spec_move_insert; [exact Hc|exact Hle| |exact Ht]|].
  - intros s [<-|[]]. exact Hs.
  - intros n' a' [HP HS]. cbn [length] in HP. split; [lia|exact HS].
Qed.

Lemma spec_insert_cr a c n pos src :
  cshape a c n -> n <= cap -> a src = true -> a (Temp 0) = false ->
  triple a (insert_cr fl cap c n pos src) (cpost c a (fun n' => n' = S n /\ n' <= cap)).
Proof.
  intros Hc Hle Hs Ht. unfold insert_cr.
  eapply triple_bind; [apply triple_require'|]. intros [] ? [Hb1 ->].
  eapply triple_bind; [apply triple_require'|]. intros [] ? [Hb2 ->].
  eapply triple_conseq; [apply spec_insert_n; [exact Hc|exact Hle|exact Hs|exact Ht]|].
  intros n' a' [HP HS]. split; [lia|exact HS].
Qed.

Lemma spec_emplace_at_h a c n pos h :
  cshape a c n -> n <= cap -> a (Temp 0) = false -> a (Temp 1) = false -> bsrc_ok a h = true ->
  triple a (emplace_at_h fl cap c n pos h) (cpost c a (fun n' => n' = S n /\ n' <= cap)).
Proof.
  intros Hc Hle Ht0 Ht1 Hh. unfold emplace_at_h.
  eapply triple_bind; [apply triple_require'|]. intros [] ? [Hb1 ->].
  eapply triple_bind; [apply triple_require'|]. intros [] ? [Hb2 ->].
  eapply triple_bind.
  { eapply triple_emit_legal with (Q := fun _ a2 => same a2 (fupd a (Temp 1) true)).
    - apply legal_construct; [exact Ht1|exact Hh].
    - intros a2 H2. exact H2. }
  intros [] a1 H1.
  eapply triple_bind.
  { apply spec_move_insert with (srcs := [Temp 1]); [intros i; pw|exact Hle| |pw].
    intros s [<-|[]]. pw. }
  intros n1 a2 [[-> Hn1] H2].
  eapply triple_bind.
  { eapply triple_emit_legal with (Q := fun _ a3 => same a3 (fupd a2 (Temp 1) false)).
    - apply legal_destroy. pw.
    - intros a3 H3. exact H3. }
  intros [] a3 H3. apply triple_ret. cbn [length] in *. split; [lia|].
  intros l. destruct l as [c' i|k|k]; pw_rewrite; cbn [loc_eqb]; try lia.
  destruct (Nat.eqb_spec 1 k) as [<-|]; [rewrite Ht1|]; lia.
Qed.

Lemma spec_emplace_at a c n pos x :
  cshape a c n -> n <= cap -> a (Temp 0) = false -> a (Temp 1) = false ->
  triple a (emplace_at fl cap c n pos x) (cpost c a (fun n' => n' = S n /\ n' <= cap)).
Proof. intros Hc Hle Ht0 Ht1. unfold emplace_at. apply spec_emplace_at_h; auto. Qed.

Lemma spec_clear a c n :
  cshape a c n -> triple a (clear c n) (cpost c a (fun n' => n' = 0)).
Proof.
  intros Hc. unfold clear.
  eapply triple_bind.
  { eapply triple_emit_legal with (Q := fun _ a2 => same a2 (fun l => a l && negb (in_range c 0 (0 + n) l))).
    - apply legal_destroys. intros i Hi. rewrite Hc. lia.
    - intros a2 H2. exact H2. }
  intros [] a2 H2. apply triple_ret. split; [reflexivity|]. pwl l.
Qed.

Lemma spec_erase_range a c n f l :
  cshape a c n ->
  triple a (erase_range fl c n f l) (cpost c a (fun n' => n' = n - (l - f) /\ f <= l <= n)).
Proof.
  intros Hc. unfold erase_range.
  eapply triple_bind; [apply triple_require'|]. intros [] ? [Hb1 ->].
  eapply triple_bind; [apply triple_require'|]. intros [] ? [Hb2 ->].
  eapply triple_bind; [apply triple_require'|]. intros [] ? [Hb3 ->].
  destruct (Nat.eqb_spec f l) as [->|Hne].
  - apply triple_ret. split; [lia|]. apply same_sym. replace (n - (l - l)) with n by lia. apply reshape_id. exact Hc.
  - eapply triple_bind.
    { eapply triple_emit_legal with (Q := fun _ a2 => same a2 a).
      - apply legal_move_down. intros j Hj. rewrite !Hc. lia.
      - intros a2 H2. exact H2. }
    intros [] a1 H1.
    eapply triple_bind.
    { eapply triple_emit_legal with (Q := fun _ a2 => same a2 (fun x => a1 x && negb (in_range c (f + (n - l)) (f + (n - l) + (l - f)) x))).
      - apply legal_destroys. intros i Hi. pw.
      - intros a2 H2. exact H2. }
    intros [] a2 H2. apply triple_ret. split; [lia|]. pwl x.
Qed.

Lemma spec_erase_at a c n pos :
  cshape a c n ->
  triple a (erase_at fl c n pos) (cpost c a (fun n' => n' = n - 1 /\ pos < n)).
Proof.
  intros Hc. unfold erase_at.
  eapply triple_bind; [apply triple_require'|]. intros [] ? [Hb1 ->].
  eapply triple_conseq; [apply spec_erase_range; exact Hc|].
  intros n' a' [HP HS]. split; [lia|exact HS].
Qed.

Lemma spec_emplace_defaults c iters : forall a n,
  cshape a c n -> n <= cap -> a (Temp 1) = false ->
  triple a (emplace_defaults fl cap c n iters) (cpost c a (fun n' => n' = n + iters /\ n' <= cap)).
Proof.
  induction iters as [|k IH]; intros a n Hc Hle Ht1; cbn [emplace_defaults].
  - apply triple_ret. split; [lia|]. apply same_sym. rewrite ?Nat.add_0_r. apply reshape_id. exact Hc.
  - eapply triple_bind.
    { eapply triple_emit_legal with (Q := fun _ a2 => same a2 (fupd a (Temp 1) true)).
      - apply legal_construct; [exact Ht1|reflexivity].
      - intros a2 H2. exact H2. }
    intros [] a1 H1.
    eapply triple_bind.
    { apply spec_emplace_back; [intros i; pw|exact Hle|rewrite bsrc_ok_mv; pw]. }
    intros n1 a2 [[-> Hn1] H2].
    eapply triple_bind.
    { eapply triple_emit_legal with (Q := fun _ a3 => same a3 (fupd a2 (Temp 1) false)).
      - apply legal_destroy. pw.
      - intros a3 H3. exact H3. }
    intros [] a3 H3.
    assert (H3' : same a3 (reshape a c (S n))).
    { intros l. destruct l as [c' i|k'|k']; pw_rewrite; cbn [loc_eqb]; try lia.
      destruct (Nat.eqb_spec 1 k') as [<-|]; [rewrite Ht1|]; lia. }
    eapply triple_conseq.
    + apply IH; [intros i; rewrite H3'; pw|exact Hn1|rewrite H3'; exact Ht1].
    + intros n2 a4 Hp. eapply cpost_chain; [exact H3'|exact Hp|]. cbn beta. lia.
Qed.

Lemma spec_emplace_n a c n k :
  cshape a c n -> n <= cap -> a (Temp 1) = false -> n <= k ->
  triple a (emplace_n fl cap c n k) (cpost c a (fun n' => n' = k /\ n' <= cap)).
Proof.
  intros Hc Hle Ht1 Hk. unfold emplace_n.
  eapply triple_bind; [apply triple_require'|]. intros [] ? [Hb1 ->].
  eapply triple_conseq; [apply spec_emplace_defaults; assumption|].
  intros n' a' [HP HS]. split; [lia|exact HS].
Qed.

Lemma spec_resize a c n k :
  cshape a c n -> n <= cap -> a (Temp 1) = false ->
  triple a (resize fl cap c n k) (cpost c a (fun n' => n' = k /\ n' <= cap)).
Proof.
  intros Hc Hle Ht1. unfold resize.
  destruct (Nat.eqb_spec k n) as [->|Hne].
  - apply triple_ret. split; [lia|]. apply same_sym. apply reshape_id. exact Hc.
  - destruct (Nat.ltb_spec n k) as [Hlt|Hge].
    + apply spec_emplace_n; [assumption..|lia].
    + eapply triple_conseq; [apply spec_erase_range; exact Hc|].
      intros n' a' [HP HS]. replace n' with k in * by lia. split; [lia|exact HS].
Qed.

Lemma spec_resize_val a c n k src :
  cshape a c n -> n <= cap -> a src = true -> a (Temp 0) = false ->
  triple a (resize_val fl cap c n k src) (cpost c a (fun n' => n' = k /\ n' <= cap)).
Proof.
  intros Hc Hle Hs Ht0. unfold resize_val.
  destruct (Nat.eqb_spec k n) as [->|Hne].
  - apply triple_ret. split; [lia|]. apply same_sym. apply reshape_id. exact Hc.
  - destruct (Nat.ltb_spec n k) as [Hlt|Hge].
    + eapply triple_bind; [apply triple_require'|]. intros [] ? [Hb1 ->].
      eapply triple_conseq; [apply spec_insert_n; assumption|].
      intros n' a' [HP HS]. split; [lia|]. replace k with n' by lia. exact HS.
    + eapply triple_conseq; [apply spec_erase_range; exact Hc|].
      intros n' a' [HP HS]. replace n' with k in * by lia. split; [lia|exact HS].
Qed.

(* clear(), then something that fills the empty object *)
Lemma spec_clear_then a c n (f : nat -> G nat) (P : nat -> Prop) :
  cshape a c n ->
  (forall a1, same a1 (reshape a c 0) -> triple a1 (f 0) (cpost c a1 P)) ->
  triple a (do n0 <- clear c n ; f n0) (cpost c a P).
Proof.
  intros Hc Hf.
  eapply triple_bind; [apply spec_clear; exact Hc|]. intros n0 a1 [-> H1].
  eapply triple_conseq; [apply Hf; exact H1|].
  intros n2 a2 Hp. eapply cpost_chain; [exact H1|exact Hp|auto].
Qed.

Lemma spec_assign_n a c n k src :
  cshape a c n -> a src = true -> (forall i, src <> Slot c i) -> a (Temp 0) = false ->
  triple a (assign_n fl cap c n k src) (cpost c a (fun n' => n' = k /\ n' <= cap)).
Proof.
  intros Hc Hs Hout Ht0. unfold assign_n.
  eapply triple_bind; [apply triple_require'|]. intros [] ? [Hb1 ->].
  apply spec_clear_then; [exact Hc|]. intros a1 H1.
  eapply triple_conseq; [apply spec_insert_n; [intros i; pw|lia| |pw]|].
  - rewrite H1. destruct src as [c' i|k'|k']; cbn [reshape]; try exact Hs.
    destruct (Nat.eqb_spec c' c) as [->|]; [exfalso; eapply Hout; reflexivity|]. rewrite Hs. lia.
  - intros n' a' [HP HS]. split; [lia|exact HS].
Qed.

Lemma spec_assign_range a c n srcs :
  cshape a c n -> (forall s, In s srcs -> a s = true /\ forall i, s <> Slot c i) -> a (Temp 0) = false ->
  triple a (assign_range fl cap c n srcs) (cpost c a (fun n' => n' = length srcs /\ n' <= cap)).
Proof.
  intros Hc Hs Ht0. unfold assign_range.
  eapply triple_bind; [apply triple_require'|]. intros [] ? [Hb1 ->].
  apply spec_clear_then; [exact Hc|]. intros a1 H1.
  eapply triple_conseq; [apply spec_insert_range; [intros i; pw|lia| |pw]|].
  - intros s Hin. destruct (Hs s Hin) as [Hal Hout]. rewrite H1. destruct s as [c' i|k'|k']; cbn [reshape]; try exact Hal.
    destruct (Nat.eqb_spec c' c) as [->|]; [exfalso; eapply Hout; reflexivity|]. rewrite Hal. lia.
  - intros n' a' [HP HS]. split; [lia|exact HS].
Qed.

Lemma spec_assign_range_fwd a c n srcs :
  cshape a c n -> (forall s, In s srcs -> a s = true /\ forall i, s <> Slot c i) -> a (Temp 0) = false ->
  triple a (assign_range_fwd fl cap c n srcs) (cpost c a (fun n' => n' = length srcs /\ n' <= cap)).
Proof.
  intros Hc Hs Ht0. unfold assign_range_fwd.
  apply spec_clear_then; [exact Hc|]. intros a1 H1.
  eapply triple_conseq; [apply spec_insert_range_fwd; [intros i; pw|lia| |pw]|].
  - intros s Hin. destruct (Hs s Hin) as [Hal Hout]. rewrite H1. destruct s as [c' i|k'|k']; cbn [reshape]; try exact Hal.
    destruct (Nat.eqb_spec c' c) as [->|]; [exfalso; eapply Hout; reflexivity|]. rewrite Hal. lia.
  - intros n' a' [HP HS]. split; [lia|exact HS].
Qed.

(** * static_set / flat_set members *)
Lemma spec_set_insert a c n vals x src :
  cshape a c n -> n <= cap -> length vals = n -> a src = true -> a (Temp 0) = false ->
  triple a (set_insert fl cap c n vals x src) (cpost c a (fun n' => n' <= cap)).
Proof.
  intros Hc Hle Hlen Hs Ht0. unfold set_insert.
  pose proof (bsearch_le (fun v => (v <? x)%Z) vals) as Hp. fold (lower_idx vals x) in Hp. rewrite Hlen in Hp.
  set (p := lower_idx vals x) in *.
  destruct ((p <? n) && negb (x <? nth p vals 0%Z)%Z).
  { apply triple_ret. split; [exact Hle|]. apply same_sym. apply reshape_id. exact Hc. }
  destruct (Nat.eqb_spec n cap) as [E|N].
  { apply triple_ret. split; [exact Hle|]. apply same_sym. apply reshape_id. exact Hc. }
  eapply triple_conseq.
  - apply spec_append_rotate with (k := 1); [exact Hc|exact Hp|exact Ht0|].
    eapply triple_conseq; [apply spec_push_back; [exact Hc|exact Hle|rewrite bsrc_ok_mv; exact Hs]|].
    intros n' a' [HP HS]. split; [lia|exact HS].
  - intros n' a' [HP HS]. split; [lia|exact HS].
Qed.

(* { T tmp(...); insert(move(tmp)); } *)
Lemma spec_set_insert_tmp a c n vals x h :
  cshape a c n -> n <= cap -> length vals = n -> bsrc_ok a h = true -> a (Temp 0) = false -> a (Temp 1) = false ->
  triple a (exe emit [Construct (Temp 1) h] ;
            do n' <- set_insert fl cap c n vals x (Temp 1) ;
            exe emit [Destroy (Temp 1)] ; ret n') (cpost c a (fun n' => n' <= cap)).
Proof.
  intros Hc Hle Hlen Hh Ht0 Ht1.
  eapply triple_bind.
  { eapply triple_emit_legal with (Q := fun _ a2 => same a2 (fupd a (Temp 1) true)).
    - apply legal_construct; [exact Ht1|exact Hh].
    - intros a2 H2. exact H2. }
  intros [] a1 H1.
  eapply triple_bind.
  { apply spec_set_insert; [intros i; pw|exact Hle|exact Hlen|pw|pw]. }
  intros n1 a2 [Hn1 H2].
  eapply triple_bind.
  { eapply triple_emit_legal with (Q := fun _ a3 => same a3 (fupd a2 (Temp 1) false)).
    - apply legal_destroy. pw.
    - intros a3 H3. exact H3. }
  intros [] a3 H3. apply triple_ret. split; [exact Hn1|].
  intros l. destruct l as [c' i|k|k]; pw_rewrite; cbn [loc_eqb]; try lia.
  destruct (Nat.eqb_spec 1 k) as [<-|]; [rewrite Ht1|]; lia.
Qed.

Lemma spec_set_erase_key a c n vals x :
  cshape a c n -> n <= cap ->
  triple a (set_erase_key fl c n vals x) (cpost c a (fun n' => n' <= cap)).
Proof.
  intros Hc Hle. unfold set_erase_key.
  destruct ((lower_idx vals x <? n) && negb (x <? nth (lower_idx vals x) vals 0%Z)%Z).
  - eapply triple_conseq; [apply spec_erase_at; exact Hc|]. intros n' a' [HP HS]. split; [lia|exact HS].
  - apply triple_ret. split; [exact Hle|]. apply same_sym. apply reshape_id. exact Hc.
Qed.

Lemma spec_flat_emplace a c n vals x h :
  cshape a c n -> n <= cap -> bsrc_ok a h = true ->
  a (Temp 0) = false -> a (Temp 1) = false -> a (Temp 2) = false ->
  triple a (flat_emplace fl cap c n vals x h) (cpost c a (fun n' => n' <= cap)).
Proof.
  intros Hc Hle Hh Ht0 Ht1 Ht2. unfold flat_emplace.
  eapply triple_bind.
  { eapply triple_emit_legal with (Q := fun _ a2 => same a2 (fupd a (Temp 2) true)).
    - apply legal_construct; [exact Ht2|exact Hh].
    - intros a2 H2. exact H2. }
  intros [] a1 H1.
  eapply triple_bind with (Q := fun n1 a2 => n1 <= cap /\ same a2 (reshape a1 c n1)).
  { destruct ((lower_idx vals x =? n) || (x <? nth (lower_idx vals x) vals 0%Z)%Z).
    - eapply triple_conseq; [apply spec_emplace_at_h; [intros i; pw|exact Hle|pw|pw|rewrite bsrc_ok_mv; pw]|].
      intros n' a' [HP HS]. split; [lia|exact HS].
    - apply triple_ret. split; [exact Hle|]. apply same_sym. apply reshape_id. intros i; pw. }
  intros n1 a2 [Hn1 H2].
  eapply triple_bind.
  { eapply triple_emit_legal with (Q := fun _ a3 => same a3 (fupd a2 (Temp 2) false)).
    - apply legal_destroy. pw.
    - intros a3 H3. exact H3. }
  intros [] a3 H3. apply triple_ret. split; [exact Hn1|].
  intros l. destruct l as [c' i|k|k]; pw_rewrite; cbn [loc_eqb]; try lia.
  destruct (Nat.eqb_spec 2 k) as [<-|]; [rewrite Ht2|]; lia.
Qed.

Lemma spec_flat_erase_key a c n vals x :
  cshape a c n -> n <= cap ->
  triple a (flat_erase_key fl c n vals x) (cpost c a (fun n' => n' <= cap)).
Proof.
  intros Hc Hle. unfold flat_erase_key.
  eapply triple_conseq; [apply spec_erase_range; exact Hc|]. intros n' a' [HP HS]. split; [lia|exact HS].
Qed.

(* the slots of another container as a source range *)
Lemma slots_alive a o m s : cshape a o m -> In s (slots o m) -> a s = true.
Proof.
  intros Ho Hin. unfold slots in Hin. apply in_map_iff in Hin. destruct Hin as [i [<- Hi]].
  apply in_seq in Hi. rewrite Ho. lia.
Qed.
Lemma slots_outside o m c s : o <> c -> In s (slots o m) -> forall i, s <> Slot c i.
Proof.
  intros Hne Hin i E. unfold slots in Hin. apply in_map_iff in Hin. destruct Hin as [j [<- _]]. congruence.
Qed.
Lemma slots_length o m : length (slots o m) = m.
Proof. unfold slots. rewrite map_length, seq_length. reflexivity. Qed.

Lemma spec_copy_construct a c o m :
  cshape a c 0 -> cshape a o m -> m <= cap -> a (Temp 0) = false ->
  triple a (copy_construct fl cap c o m) (cpost c a (fun n' => n' = m)).
Proof.
  intros Hc Ho Hm Ht0. unfold copy_construct.
  eapply triple_conseq; [apply spec_insert_range; [exact Hc|lia|intros s; apply slots_alive; exact Ho|exact Ht0]|].
  intros n' a' [HP HS]. rewrite slots_length in HP. split; [lia|exact HS].
Qed.

Lemma spec_move_construct a c o m :
  cshape a c 0 -> cshape a o m -> m <= cap -> a (Temp 0) = false ->
  triple a (move_construct fl cap c o m) (cpost c a (fun n' => n' = m)).
Proof.
  intros Hc Ho Hm Ht0. unfold move_construct.
  eapply triple_conseq; [apply spec_move_insert; [exact Hc|lia|intros s; apply slots_alive; exact Ho|exact Ht0]|].
  intros n' a' [HP HS]. rewrite slots_length in HP. split; [lia|exact HS].
Qed.

Lemma spec_copy_assign a c n o m :
  cshape a c n -> cshape a o m -> o <> c -> m <= cap -> a (Temp 0) = false ->
  triple a (copy_assign fl cap c n o m) (cpost c a (fun n' => n' = m)).
Proof.
  intros Hc Ho Hne Hm Ht0. unfold copy_assign.
  apply spec_clear_then; [exact Hc|]. intros a1 H1.
  eapply triple_conseq; [apply spec_insert_range; [intros i; pw|lia| |pw]|].
  - intros s Hin. pose proof (slots_alive a o m s Ho Hin) as Hal. pose proof (slots_outside o m c s Hne Hin) as Hout.
    rewrite H1. destruct s as [c' i|k'|k']; cbn [reshape]; try exact Hal.
    destruct (Nat.eqb_spec c' c) as [->|]; [exfalso; eapply Hout; reflexivity|]. rewrite Hal. lia.
  - intros n' a' [HP HS]. rewrite slots_length in HP. split; [lia|exact HS].
Qed.

Lemma spec_move_assign a c n o m :
  cshape a c n -> cshape a o m -> o <> c -> m <= cap -> a (Temp 0) = false ->
  triple a (move_assign fl cap c n o m) (cpost c a (fun n' => n' = m)).
Proof.
  intros Hc Ho Hne Hm Ht0. unfold move_assign.
  apply spec_clear_then; [exact Hc|]. intros a1 H1.
  eapply triple_conseq; [apply spec_move_insert; [intros i; pw|lia| |pw]|].
  - intros s Hin. pose proof (slots_alive a o m s Ho Hin) as Hal. pose proof (slots_outside o m c s Hne Hin) as Hout.
    rewrite H1. destruct s as [c' i|k'|k']; cbn [reshape]; try exact Hal.
    destruct (Nat.eqb_spec c' c) as [->|]; [exfalso; eapply Hout; reflexivity|]. rewrite Hal. lia.
  - intros n' a' [HP HS]. rewrite slots_length in HP. split; [lia|exact HS].
Qed.

Lemma spec_erase_if a c n p vals :
  cshape a c n -> length vals = n ->
  triple a (erase_if fl c n p vals) (cpost c a (fun n' => n' <= n)).
Proof.
  intros Hc Hlen. unfold erase_if.
  pose proof (remove_if_idx_spec p vals) as H. cbn zeta in H. destruct H as [Hit Hps]. rewrite Hlen in *.
  eapply triple_bind.
  { eapply triple_emit_legal with (Q := fun _ a2 => same a2 a).
    - apply legal_assigns. intros d Hd. specialize (Hps d Hd). rewrite !Hc. lia.
    - intros a2 H2. exact H2. }
  intros [] a1 H1.
  eapply triple_conseq; [apply spec_erase_range; intros i; pw|].
  intros n' a' [HP HS]. split; [lia|]. intros l. rewrite HS. destruct l as [c' i|k|k]; cbn [reshape]; rewrite ?H1; reflexivity.
Qed.

(** * inplace_vector members *)
Lemma spec_iv_unchecked_push a c n h :
  cshape a c n -> n <= cap -> bsrc_ok a h = true ->
  triple a (iv_unchecked_push cap c n h) (cpost c a (fun n' => n' = S n /\ n' <= cap)).
Proof. exact (spec_emplace_back a c n h). Qed.

Lemma spec_iv_try_push a c n h :
  cshape a c n -> n <= cap -> bsrc_ok a h = true ->
  triple a (iv_try_push cap c n h) (cpost c a (fun n' => n' <= cap)).
Proof.
  intros Hc Hle Hs. unfold iv_try_push. destruct (Nat.eqb_spec n cap) as [->|Hne].
  - apply triple_ret. split; [lia|]. apply same_sym. apply reshape_id. exact Hc.
  - eapply triple_conseq; [apply spec_iv_unchecked_push; assumption|].
    intros n' a' [HP HS]. split; [lia|exact HS].
Qed.

Lemma spec_iv_pop_back a c n :
  cshape a c n -> triple a (iv_pop_back c n) (cpost c a (fun n' => n' = n - 1 /\ 0 < n)).
Proof. exact (spec_pop_back a c n). Qed.

Lemma spec_iv_clear a c n :
  cshape a c n -> triple a (iv_clear c n) (cpost c a (fun n' => n' = 0)).
Proof. exact (spec_clear a c n). Qed.

Lemma spec_iv_copy_construct a c o m :
  cshape a c 0 -> cshape a o m ->
  triple a (iv_copy_construct c o m) (cpost c a (fun n' => n' = m)).
Proof.
  intros Hc Ho. unfold iv_copy_construct.
  eapply triple_bind.
  { eapply triple_emit_legal with (Q := fun _ a2 => same a2 (fun l => a l || in_range c 0 (0 + length (map Copy (slots o m))) l)).
    - apply legal_constructs.
      + intros i Hi. rewrite Hc. lia.
      + intros h Hh. apply in_map_iff in Hh. destruct Hh as [s [<- Hs']]. cbn. eapply slots_alive; eassumption.
    - intros a2 H2. exact H2. }
  intros [] a2 H2. rewrite map_length, slots_length in H2. apply triple_ret. split; [reflexivity|]. pwl l.
Qed.

Lemma spec_iv_copy_assign a c n o m :
  cshape a c n -> cshape a o m -> o <> c ->
  triple a (iv_copy_assign c n o m) (cpost c a (fun n' => n' = m)).
Proof.
  intros Hc Ho Hne. unfold iv_copy_assign.
  eapply triple_bind; [apply spec_iv_clear; exact Hc|]. intros n0 a1 [-> H1].
  eapply triple_bind.
  { eapply triple_emit_legal with (Q := fun _ a2 => same a2 (fun l => a1 l || in_range c 0 (0 + length (map Copy (slots o m))) l)).
    - apply legal_constructs.
      + intros i Hi. pw.
      + intros h Hh. apply in_map_iff in Hh. destruct Hh as [s [<- Hs']]. cbn.
        pose proof (slots_alive a o m s Ho Hs') as Hal. pose proof (slots_outside o m c s Hne Hs') as Hout.
        rewrite H1. destruct s as [c' i|k'|k']; cbn [reshape]; try exact Hal.
        destruct (Nat.eqb_spec c' c) as [->|]; [exfalso; eapply Hout; reflexivity|]. rewrite Hal. lia.
    - intros a2 H2. exact H2. }
  intros [] a2 H2. rewrite map_length, slots_length in H2. apply triple_ret. split; [reflexivity|]. pwl l.
Qed.

Lemma spec_iv_move_assign a c n o m :
  cshape a c n -> cshape a o m -> o <> c ->
  triple a (iv_move_assign fl c n o m) (fun r a' => r = (m, 0) /\ same a' (reshape (reshape a c m) o 0)).
Proof.
  intros Hc Ho Hne. unfold iv_move_assign.
  eapply triple_bind; [apply spec_iv_clear; exact Hc|]. intros n0 a1 [-> H1].
  eapply triple_bind.
  { eapply triple_emit_legal with (Q := fun _ a2 => same a2 (fun l => a1 l || in_range c 0 (0 + length (map (mv fl) (slots o m))) l)).
    - apply legal_constructs.
      + intros i Hi. pw.
      + intros h Hh. apply in_map_iff in Hh. destruct Hh as [s [<- Hs']]. rewrite bsrc_ok_mv.
        pose proof (slots_alive a o m s Ho Hs') as Hal. pose proof (slots_outside o m c s Hne Hs') as Hout.
        rewrite H1. destruct s as [c' i|k'|k']; cbn [reshape]; try exact Hal.
        destruct (Nat.eqb_spec c' c) as [->|]; [exfalso; eapply Hout; reflexivity|]. rewrite Hal. lia.
    - intros a2 H2. exact H2. }
  intros [] a2 H2. rewrite map_length, slots_length in H2.
  eapply triple_bind.
  { apply spec_iv_clear with (c := o) (n := m). intros i. rewrite H2, H1. unfold reshape, in_range.
    assert (E : (o =? c) = false) by (apply Nat.eqb_neq; exact Hne). rewrite E, Ho. cbn [andb orb negb]. lia. }
  intros m' a3 [-> H3]. apply triple_ret. split; [reflexivity|].
  pwl l.
Qed.

Lemma spec_iv_move_construct_ctor a c o m :
  cshape a c 0 -> cshape a o m ->
  triple a (exe emit (constructs c 0 (map (mv fl) (slots o m))) ; ret m) (cpost c a (fun n' => n' = m)).
Proof.
  intros Hc Ho.
  eapply triple_bind.
  { eapply triple_emit_legal with (Q := fun _ a2 => same a2 (fun l => a l || in_range c 0 (0 + length (map (mv fl) (slots o m))) l)).
    - apply legal_constructs.
      + intros i Hi. rewrite Hc. lia.
      + intros h Hh. apply in_map_iff in Hh. destruct Hh as [s [<- Hs']]. rewrite bsrc_ok_mv. eapply slots_alive; eassumption.
    - intros a2 H2. exact H2. }
  intros [] a2 H2. rewrite map_length, slots_length in H2. apply triple_ret. split; [reflexivity|]. pwl l.
Qed.

End Specs.
