(* C03 — each element is constructed once and destroyed once.  Property theorems for the members of etl::variant that
   name the alternative BY TYPE (emplace<T>, variant(in_place_type<T>, ...)) and for the converting assignment
   operator=(T&&) that is built on emplace<T> — C03.ModelOwnT.  For EVERY number of alternatives, EVERY choice [trk] of
   which alternatives are class types with observable special members (the others — int, a trivially destructible
   class — run nothing), both element flavours: so every (held, new) pair of mixed triviality is an instance. *)
From Tetl Require Import Lib.Base C03.Trace C03.Model C03.ModelOwn C03.Spec C03.ModelOwnT C03.SpecOwnT C03.ProofsRun C03.ProofsOwnT.
From Coq Require Import Arith.
Local Open Scope nat_scope.

(* from every state the by-type members emit exactly the events of their by-index counterparts and leave the same
   state: emplace<Tj> = emplace<j>, variant(in_place_type<Tj>, x) = variant(in_place_index<j>, x) *)
Theorem C03_own_by_type_is_by_index : forall (fl : bool) (trk : nat -> bool) (fn : bool) (s : nat * nat) (m : vmem) (o : xoop),
  step_own_x fl trk fn s m o = step_own fl trk fn s m (lower o).
Proof. exact step_own_x_lower. Qed.
Print Assumptions C03_own_by_type_is_by_index.

(* what destroy() runs is decided by the HELD alternative alone, what replace() runs by the NEW one alone:
   v.emplace<Tj>(x) from any state, and the converting assignments v = Tj(x) / v = c across alternatives (which go
   through emplace<Tj>): the destructor of the held alternative i iff i has one, around it the caller-side object,
   the constructor of j iff j is instrumented; in particular a held class alternative is destroyed when the new
   alternative is trivially destructible (trk j = false), and nothing is destroyed when the held one is *)
Theorem C03_own_replace_destroys_held : forall (fl : bool) (trk : nat -> bool) (s : nat * nat) (m : vmem) (t : bool) (j : nat) (x : Z),
  step_own_x fl trk false s m (XEmplaceType t j x) =
    ((if trk (sel t s) then [Destroy (Slot (cid t) (sel t s))] else []) ++
     (if trk j then [Construct (Slot (cid t) j) (Value x)] else []), Done (upd t s j)) /\
  (sel t s <> j -> forall rv : bool,
   step_own fl trk false s m (if rv then VAssignRv t j x else VAssignCr t j x) =
    ((if trk j then [Construct (Ext 0) (Value x)] else []) ++
     ((if trk (sel t s) then [Destroy (Slot (cid t) (sel t s))] else []) ++
      (if trk j then [Construct (Slot (cid t) j) (if rv then mv fl (Ext 0) else Copy (Ext 0))] else [])) ++
     (if trk j then [Destroy (Ext 0)] else []), Done (upd t s j))) /\
  (trk (sel t s) = true -> trk j = false ->
   fst (step_own_x fl trk false s m (XEmplaceType t j x)) = [Destroy (Slot (cid t) (sel t s))] /\
   forall rv : bool, fst (step_own fl trk false s m (if rv then VAssignRv t j x else VAssignCr t j x)) = [Destroy (Slot (cid t) (sel t s))]).
Proof.
  intros fl trk s m t j x. split; [apply emplace_type_events|]. split; [intros Hne rv; apply conv_assign_cross_events; exact Hne|].
  intros Hi Hj. split.
  - rewrite emplace_type_events, Hi, Hj. reflexivity.
  - intros rv. assert (Hne : sel t s <> j) by (intros E; rewrite E in Hi; congruence).
    rewrite (conv_assign_cross_events fl trk s m t j x rv Hne), Hi, Hj. reflexivity.
Qed.
Print Assumptions C03_own_replace_destroys_held.

(* EVERY history over the by-index and by-type members in which no precondition is violated (fn = false: every
   history, see C03_ownx_prefix_wf_domain), from the default construction of the two objects to their destructors:
   well formed, nothing alive, every location constructed and destroyed alternately and equally often, the shared
   storage never holds two objects, the printed verdict is (true, 0), every self-operation is an identity *)
Theorem C03_ownx_lifecycle : forall (fl : bool) (trk : nat -> bool) (fn : bool) (ops : list xoop),
  own_completed_x fl trk fn ops = true ->
  wf_trace (own_trace_x fl trk fn ops) = true /\ all_dead (own_trace_x fl trk fn ops) = true /\
  (forall l, once_each l (own_trace_x fl trk fn ops) /\
             constructions l (own_trace_x fl trk fn ops) = destructions l (own_trace_x fl trk fn ops)) /\
  storage_wf (own_trace_x fl trk fn ops) = true /\
  snd (own_run_case_x fl trk fn ops) = (true, 0) /\
  own_self_checks_x fl trk fn ops = repeat true (own_count_self_x ops).
Proof.
  intros fl trk fn ops Hc.
  destruct (ownx_lifecycle fl trk fn ops Hc) as [Hw Hd].
  split; [exact Hw|]. split; [exact Hd|]. split; [exact (ownx_each_location_once fl trk fn ops Hc)|].
  split; [exact (ownx_storage_wf fl trk fn ops Hc)|]. split; [exact (ownx_verdict fl trk fn ops Hc)|exact (ownx_self_identity fl trk fn ops Hc)].
Qed.
Print Assumptions C03_ownx_lifecycle.

(* ANY history: every event up to the end (or the stopping contract check) is legal; a variant history never stops *)
Theorem C03_ownx_prefix_wf_domain : forall (fl : bool) (trk : nat -> bool) (fn : bool) (ops : list xoop),
  wf_trace (own_init trk fn ++ events_of (fst (fst (grun (step_own_x fl trk fn) (0, 0) (exec_all [] (own_init trk fn)) ops)))) = true /\
  no_fuel (fst (fst (grun (step_own_x fl trk fn) (0, 0) (exec_all [] (own_init trk fn)) ops))) = true /\
  own_completed_x fl trk false ops = true.
Proof.
  intros fl trk fn ops. destruct (ownx_prefix_wf fl trk fn ops) as [Hw Hf].
  split; [exact Hw|]. split; [exact Hf|apply varx_completed].
Qed.
Print Assumptions C03_ownx_prefix_wf_domain.

(* model = specification: verdict, self-operation identities, storage exclusivity *)
Theorem C03_ownx_meets_spec : forall (fl : bool) (trk : nat -> bool) (ops : list xoop) v,
  own_spec_verdict_x ops = Some v ->
  (snd (own_run_case_x fl trk false ops), own_self_checks_x fl trk false ops, storage_wf (own_trace_x fl trk false ops)) = v.
Proof. exact varx_meets_spec. Qed.
Print Assumptions C03_ownx_meets_spec.

(* variant<T0, int, T2, Pod> (alternatives 0 and 2 instrumented): a history through both emplace overloads and the
   converting assignment to the trivially destructible class alternative 3, with the events of its first steps *)
Example C03_ownt_nonvacuous :
  own_completed_x true (trk_of [0; 2]) false
    [XEmplaceType false 2 7; XEmplaceType false 3 5; XBase (VAssignRv true 2 4); XBase (VAssignRv true 3 6);
     XAssignTmpType false 0 9; XScopedType 2 1; XBase (VEmplace false 1 8); XBase VSwap] = true /\
  own_trace_x true (trk_of [0; 2]) false [XEmplaceType false 2 7; XEmplaceType false 3 5; XBase (VAssignRv true 3 6)] =
    [Construct (Slot 0 0) (Value 0%Z); Construct (Slot 1 0) (Value 0%Z);
     Destroy (Slot 0 0); Construct (Slot 0 2) (Value 7%Z);
     Destroy (Slot 0 2);
     Destroy (Slot 1 0)].
Proof. split; vm_compute; reflexivity. Qed.
