(* C03 model, part 3: aggregates whose members live exactly as long as the object — etl::pair
   (include/etl/_utility/pair.hpp) and etl::tuple (include/etl/_tuple/tuple.hpp).
   Member j of object c is the location [Slot c j]; k = number of members (pair: 2).
   Construction and assignment are member-wise in declaration order, destruction in reverse
   order, swap is etl::swap member by member (a temporary and two move-assignments each). *)
From Tetl Require Import Lib.Base C03.Trace C03.Model.
From Coq Require Import Arith.
Local Open Scope nat_scope.

Inductive aop :=
| ACopyAssign (t : bool)                 (* pt = pother *)
| AMoveAssign (t : bool)                 (* pt = move(pother) *)
| ASelfCopyAssign (t : bool) | ASelfMoveAssign (t : bool)
| ACopyConstruct (t : bool)              (* { P c(pt); } *)
| AMoveConstruct (t : bool)              (* { P c(move(pt)); } *)
| ASwap                                  (* p0.swap(p1) *)
| ASelfSwap (t : bool)
(* construction / assignment from caller-side objects e0 .. e(k-1) (built in index order, destroyed in
   reverse order: local variables, or the members of a pair<U0, U1> whose members convert to T0, T1) *)
| ACtorCopyEach                          (* { P c(e0, e1, ...); }               pair(T1 const&, T2 const&), tuple(Ts const&...), pair(pair<U1,U2> const&) *)
| ACtorMoveEach                          (* { P c(move(e0), move(e1), ...); }   pair(U1&&, U2&&), tuple(Args&&...), pair(pair<U1,U2>&&) *)
| AConvCopyAssign (t : bool)             (* pair<U0,U1> q(...); pt = q; *)
| AConvMoveAssign (t : bool).            (* pair<U0,U1> q(...); pt = move(q); *)

Section Agg.
Variable fl : bool.
Variable k : nat.

Definition agg_assign (c o : nat) (hk : loc -> how) : list event :=
  map (fun j => Assign (Slot c j) (hk (Slot o j))) (seq 0 k).
Definition agg_construct (c o : nat) (hk : loc -> how) : list event := constructs c 0 (map hk (slots o k)).
Definition agg_destroy (c : nat) : list event := map (fun j => Destroy (Slot c j)) (rev (seq 0 k)).
Definition agg_swap (a b : nat) : list event := flat_map (fun j => swap_ev fl (Slot a j) (Slot b j)) (seq 0 k).

(* the two objects are built from values: member j of object c gets 10 (c + 1) + j *)
Definition agg_values (c : nat) : list how := map (fun j => Value (Z.of_nat (10 * S c + j))) (seq 0 k).
Definition agg_init : list event := constructs 0 0 (agg_values 0) ++ constructs 1 0 (agg_values 1).
Definition agg_final (s : nat * nat) : list event := agg_destroy 0 ++ agg_destroy 1.

(* the caller-side objects: member j is built from the value 50 + j *)
Definition agg_ext_values : list Z := map (fun j => Z.of_nat (50 + j)) (seq 0 k).
Definition agg_ext_destroys : list event := map (fun j => Destroy (Ext j)) (rev (seq 0 k)).
Definition agg_with_ext (body : list event) : list event :=
  ext_constructs 0 agg_ext_values ++ body ++ agg_ext_destroys.
Definition agg_assign_ext (c : nat) (hk : loc -> how) : list event :=
  map (fun j => Assign (Slot c j) (hk (Ext j))) (seq 0 k).

Definition step_agg (s : nat * nat) (m : vmem) (o : aop) : G (nat * nat) :=
  let done (evs : list event) : G (nat * nat) := exe emit evs ; ret s in
  match o with
  | ACopyAssign t => done (agg_assign (cid t) (cid (negb t)) Copy)
  | AMoveAssign t => done (agg_assign (cid t) (cid (negb t)) (mv fl))
  | ASelfCopyAssign t => done (agg_assign (cid t) (cid t) Copy)
  | ASelfMoveAssign t => done (agg_assign (cid t) (cid t) (mv fl))
  | ACopyConstruct t => done (agg_construct 2 (cid t) Copy ++ agg_destroy 2)
  | AMoveConstruct t => done (agg_construct 2 (cid t) (mv fl) ++ agg_destroy 2)
  | ASwap => done (agg_swap 0 1)
  | ASelfSwap t => done (agg_swap (cid t) (cid t))
  | ACtorCopyEach => done (agg_with_ext (constructs 2 0 (map Copy (exts k)) ++ agg_destroy 2))
  | ACtorMoveEach => done (agg_with_ext (constructs 2 0 (map (mv fl) (exts k)) ++ agg_destroy 2))
  | AConvCopyAssign t => done (agg_with_ext (agg_assign_ext (cid t) Copy))
  | AConvMoveAssign t => done (agg_with_ext (agg_assign_ext (cid t) (mv fl)))
  end.

Definition agg_self (o : aop) : option bool :=
  match o with ASelfCopyAssign t | ASelfMoveAssign t | ASelfSwap t => Some t | _ => None end.

Definition agg_trace (ops : list aop) : list event := gtrace step_agg agg_final (k, k) agg_init ops.

End Agg.

(* observation: the member values of both objects (obs_vec with both "sizes" = k) *)
Definition agg_run_case (fl : bool) (k : nat) (ops : list aop) : list report * report * (bool * nat) :=
  grun_case (step_agg fl k) (agg_final k) obs_vec (k, k) (agg_init k) ops.
Definition agg_self_checks (fl : bool) (k : nat) (ops : list aop) : list bool :=
  gself_checks (step_agg fl k) obs_vec agg_self (k, k) (exec_all [] (agg_init k)) ops.
Definition agg_count_self (ops : list aop) : nat :=
  length (filter (fun o => match agg_self o with Some _ => true | None => false end) ops).
