(* C03, ModelSize.v: the stored element count never leaves the range of size_type.
   For every conversion [cast] that is the identity on 0..cap (in particular static_cast<smallest_size_t<cap>>),
   every history keeps, for both objects,  size() = number of element objects in the storage <= Capacity,
   every special member call is legal, and the two destructors leave nothing alive. *)
From Tetl Require Import Lib.Base C03.ModelSize.
From Coq Require Import ZifyBool.
Local Open Scope Z_scope.
Ltac Zify.zify_post_hook ::= Z.to_euclidean_division_equations.

(** * smallest_size_t *)
Lemma size_cast_wrapu cap n : size_cast cap n = wrapu (size_bits cap) n.
Proof.
  unfold size_cast, wrapu. destruct ((0 <=? n) && (n <? 2 ^ size_bits cap)) eqn:E; [|reflexivity].
  symmetry. apply Z.mod_small. lia.
Qed.

Lemma size_bits_fits cap : 0 <= cap < 2 ^ 64 -> cap < 2 ^ size_bits cap.
Proof.
  intros H. unfold size_bits.
  destruct (cap <? 255) eqn:E1; [change (2 ^ 8) with 256; lia|].
  destruct (cap <? 65535) eqn:E2; [change (2 ^ 16) with 65536; lia|].
  destruct (cap <? 4294967295) eqn:E3; [change (2 ^ 32) with 4294967296; lia|].
  lia.
Qed.

Lemma size_cast_id cap n : 0 <= cap < 2 ^ 64 -> 0 <= n <= cap -> size_cast cap n = n.
Proof.
  intros Hc Hn. pose proof (size_bits_fits cap Hc) as F. unfold size_cast.
  destruct ((0 <=? n) && (n <? 2 ^ size_bits cap)) eqn:E; [reflexivity|]. lia.
Qed.

(* the narrower types lose counts: the choice of smallest_size_t is also the smallest that works at the two limits *)
Lemma uint8_loses_256 : wrapu 8 256 = 0.
Proof. reflexivity. Qed.
Lemma uint16_loses_65536 : wrapu 16 65536 = 0.
Proof. reflexivity. Qed.

(** * the invariant *)
Section Inv.
Variable cast : Z -> Z.
Variable cap : Z.
Variable fl : bool.
Variable kd : kind.
Variable triv : bool.
Hypothesis Hcap : 0 <= cap.
Hypothesis Hcast : forall n, 0 <= n <= cap -> cast n = n.

Definition good (o : cobj) : Prop :=
  c_size o = c_live o /\ c_live o = Z.of_nat (length (c_mem o)) /\ 0 <= c_live o <= cap.
Definition okw (w : world) : Prop := w_ok w = true.

Lemma good0 : good cobj0.
Proof. unfold good, cobj0. cbn. lia. Qed.

Lemma ok_tick e k w : okw (tick e k w) <-> okw w.
Proof. unfold okw, tick. cbn. tauto. Qed.
Lemma ok_outside w : okw (outside w) <-> okw w.
Proof. unfold okw, outside. cbn. tauto. Qed.
Lemma ok_chk b w : okw (chk b w) <-> okw w /\ b = true.
Proof. unfold okw, chk. cbn. rewrite andb_true_iff. tauto. Qed.

Lemma capacity_id : capacity cast cap = cap.
Proof. unfold capacity. apply Hcast. lia. Qed.

Ltac des :=
  repeat match goal with
         | H : Some _ = Some _ |- _ => inversion H; subst; clear H
         | H : None = Some _ |- _ => discriminate H
         | H : context [if ?b then _ else _] |- _ => destruct b eqn:?
         | H : context [match ?x with Some _ => _ | None => _ end] |- _ => destruct x eqn:?
         end.

Lemma set_size_good o n o' :
  set_size cast cap o n = Some o' -> 0 <= n ->
  c_size o' = n /\ c_live o' = c_live o /\ c_mem o' = c_mem o.
Proof.
  unfold set_size. intros H Hn. des. cbn. split; [apply Hcast; lia|tauto].
Qed.

Lemma emplace_back_good o x e w o' w' :
  good o -> okw w -> emplace_back cast cap kd o x e w = Some (o', w') ->
  good o' /\ okw w' /\ c_size o' = c_size o + 1 /\ c_mem o' = x :: c_mem o.
Proof.
  unfold good, emplace_back, construct_end. intros (G1 & G2 & G3) Hw H. cbn [fst snd] in H.
  destruct (c_size o =? cap) eqn:E; [discriminate|].
  destruct (set_size _ _ _ _) eqn:S; [|discriminate]. inversion H; subst; clear H.
  assert (Hlt : c_size o + 1 <= cap) by lia.
  assert (Harg : (if is_iv kd then c_size o + 1 else cast (c_size o + 1)) = c_size o + 1).
  { destruct (is_iv kd); [reflexivity|apply Hcast; lia]. }
  rewrite Harg in S. apply set_size_good in S; [|lia]. cbn in S. destruct S as (S1 & S2 & S3).
  rewrite S1, S2, S3. cbn [length]. rewrite Nat2Z.inj_succ.
  repeat split; try lia.
  apply ok_tick. apply ok_chk. split; [exact Hw|]. unfold len. lia.
Qed.

Lemma pop_back_good o w o' w' :
  good o -> okw w -> pop_back cast cap kd o w = Some (o', w') ->
  good o' /\ okw w' /\ c_size o' = c_size o - 1 /\ c_mem o' = tl (c_mem o).
Proof.
  unfold good, pop_back. intros (G1 & G2 & G3) Hw H.
  destruct (c_size o =? 0) eqn:E; [discriminate|].
  destruct (set_size _ _ _ _) eqn:S; [|discriminate]. inversion H; subst; clear H.
  assert (Harg : (if is_iv kd then c_size o - 1 else cast (c_size o - 1)) = c_size o - 1).
  { destruct (is_iv kd); [reflexivity|apply Hcast; lia]. }
  rewrite Harg in S. apply set_size_good in S; [|lia]. cbn in S. destruct S as (S1 & S2 & S3).
  rewrite S1, S2, S3.
  assert (HL : Z.of_nat (length (tl (c_mem o))) = c_live o - 1).
  { destruct (c_mem o); cbn [length tl] in *; lia. }
  repeat split; try lia.
  apply ok_tick. apply ok_chk. split; [exact Hw|]. unfold len. lia.
Qed.

Lemma destroy_all_good o w :
  good o -> okw w ->
  let r := destroy_all o w in
  c_size (fst r) = c_size o /\ c_live (fst r) = 0 /\ c_mem (fst r) = [] /\ okw (snd r).
Proof.
  unfold good, destroy_all, len. intros (G1 & G2 & G3) Hw. cbn [fst snd c_size c_live c_mem].
  assert (E : (c_size o =? c_live o) = true) by (apply Z.eqb_eq; exact G1). rewrite E.
  repeat split. apply ok_tick. apply ok_chk. split; [exact Hw|reflexivity].
Qed.

Lemma clear_good o w o' w' :
  good o -> okw w -> clear cast cap o w = Some (o', w') ->
  good o' /\ okw w' /\ c_size o' = 0 /\ c_mem o' = [].
Proof.
  intros G Hw H. unfold clear in H. pose proof (destroy_all_good o w G Hw) as D. cbv zeta in D.
  destruct (set_size _ _ _ _) eqn:S; [|discriminate]. inversion H; subst; clear H.
  apply set_size_good in S; [|lia]. destruct S as (S1 & S2 & S3). destruct D as (D1 & D2 & D3 & D4).
  unfold good. rewrite S1, S2, S3, D2, D3. cbn. repeat split; try lia. exact D4.
Qed.

Lemma emplace_all_good xs : forall o e w o' w',
  good o -> okw w -> emplace_all cast cap kd o xs e w = Some (o', w') ->
  good o' /\ okw w' /\ c_size o' = c_size o + Z.of_nat (length xs) /\ c_mem o' = rev xs ++ c_mem o.
Proof.
  induction xs as [|x t IH]; intros o e w o' w' G Hw H; cbn [emplace_all] in H.
  - inversion H; subst. split; [exact G|split; [exact Hw|split; [cbn; lia|reflexivity]]].
  - destruct (emplace_back _ _ _ _ _ _ _) as [[o1 w1]|] eqn:E; [|discriminate]. cbn [fst snd] in H.
    apply emplace_back_good in E; [|assumption|assumption]. destruct E as (G1 & W1 & S1 & M1).
    apply IH in H; [|assumption|assumption]. destruct H as (G2 & W2 & S2 & M2).
    split; [exact G2|split; [exact W2|split]].
    + rewrite S2, S1. cbn [length]. lia.
    + rewrite M2, M1. cbn [rev]. rewrite <- app_assoc. reflexivity.
Qed.

Lemma frev_rev l : frev l = rev l.
Proof. unfold frev. symmetry. apply rev_alt. Qed.

Lemma sv_append_range_good o src e w o' w' :
  good o -> good src -> c_size o = 0 -> okw w -> sv_append_range cast cap kd o src e w = Some (o', w') ->
  good o' /\ okw w' /\ c_size o' = c_size src /\ c_mem o' = c_mem src.
Proof.
  intros G Gs Z0 Hw H. unfold sv_append_range in H. rewrite capacity_id in H.
  destruct (c_size o + c_size src <=? cap) eqn:E; [|discriminate].
  apply emplace_all_good in H; [|assumption|].
  - destruct H as (G1 & W1 & S1 & M1). split; [exact G1|split; [exact W1|split]].
    + rewrite S1. unfold elems_of. rewrite frev_rev, rev_length. destruct Gs as (A & B & C). lia.
    + rewrite M1. unfold elems_of. rewrite frev_rev, rev_involutive.
      destruct G as (A & B & C). assert (L : length (c_mem o) = 0%nat) by lia.
      destruct (c_mem o); [apply app_nil_r|discriminate].
  - apply ok_chk. split.
    + assert (E0 : (c_size o =? 0) = true) by lia. rewrite E0. exact Hw.
    + destruct Gs as (A & B & C). unfold len. lia.
Qed.

Lemma iv_fill_from_good o src e w :
  good o -> good src -> c_size o = 0 -> okw w ->
  let r := iv_fill_from o src e w in
  good (fst r) /\ okw (snd r) /\ c_size (fst r) = c_size src /\ c_mem (fst r) = c_mem src.
Proof.
  intros (A & B & C) (A' & B' & C') Z0 Hw. unfold iv_fill_from, good, len. cbn [fst snd c_size c_live c_mem].
  assert (L : length (c_mem o) = 0%nat) by lia.
  destruct (c_mem o) eqn:M; [|discriminate]. rewrite app_nil_r.
  repeat split; try lia.
  apply ok_tick. apply ok_chk. split; [exact Hw|]. lia.
Qed.

Lemma mark_moved_good o : good o -> good (mark_moved fl o).
Proof. unfold good, mark_moved. cbn. rewrite map_length. tauto. Qed.

Lemma after_move_src_good src w o' w' :
  good src -> okw w -> after_move_src cast cap fl kd triv src w = Some (o', w') -> good o' /\ okw w'.
Proof.
  intros G Hw H. unfold after_move_src in H. destruct (is_iv kd && negb triv).
  - apply clear_good in H; [tauto|apply mark_moved_good; exact G|exact Hw].
  - inversion H; subst. split; [apply mark_moved_good; exact G|exact Hw].
Qed.

Lemma construct_from_good src mv w o' w' :
  good src -> okw w -> construct_from cast cap fl kd src mv w = Some (o', w') ->
  good o' /\ okw w' /\ c_size o' = c_size src /\ c_mem o' = c_mem src.
Proof.
  intros G Hw H. unfold construct_from in H. destruct (is_iv kd).
  - pose proof (iv_fill_from_good cobj0 src (if mv then e_mvc fl else ECc) w good0 G eq_refl Hw) as I. cbv zeta in I.
    assert (E : iv_fill_from cobj0 src (if mv then e_mvc fl else ECc) w = (o', w')) by congruence.
    rewrite E in I. exact I.
  - apply sv_append_range_good in H; [exact H|apply good0|exact G|reflexivity|exact Hw].
Qed.

Lemma scoped_from_good src mv w o' w' :
  good src -> okw w -> scoped_from cast cap fl kd triv src mv w = Some (o', w') -> good o' /\ okw w'.
Proof.
  intros G Hw H. unfold scoped_from in H.
  destruct (construct_from _ _ _ _ _ _ _) as [[c w1]|] eqn:C; [|discriminate].
  apply construct_from_good in C; [|exact G|exact Hw]. destruct C as (Gc & W1 & _ & _). cbn [fst snd] in H.
  destruct mv.
  - destruct (after_move_src _ _ _ _ _ _ _) as [[s2 w2]|] eqn:A; [|discriminate]. cbn [fst snd] in H.
    apply after_move_src_good in A; [|exact G|exact W1]. destruct A as (G2 & W2).
    inversion H; subst. split; [exact G2|]. apply (destroy_all_good c w2 Gc W2).
  - cbn [fst snd] in H. inversion H; subst. split; [exact G|]. apply (destroy_all_good c w1 Gc W1).
Qed.

Lemma assign_from_good tgt src mv w t' s' w' :
  good tgt -> good src -> okw w -> assign_from cast cap fl kd triv tgt src mv w = Some (t', s', w') ->
  good t' /\ good s' /\ okw w' /\ c_size t' = c_size src.
Proof.
  intros Gt Gs Hw H. unfold assign_from in H.
  destruct (clear _ _ _ _) as [[t0 w0]|] eqn:C; [|discriminate]. cbn [fst snd] in H.
  apply clear_good in C; [|exact Gt|exact Hw]. destruct C as (G0 & W0 & Z0 & _).
  assert (F : exists t1 w1, (if is_iv kd then Some (iv_fill_from t0 src (if mv then e_mvc fl else ECc) w0)
                             else sv_append_range cast cap kd t0 src (if mv then e_mvc fl else ECc) w0) = Some (t1, w1)
                            /\ good t1 /\ okw w1 /\ c_size t1 = c_size src).
  { destruct (is_iv kd).
    - exists (fst (iv_fill_from t0 src (if mv then e_mvc fl else ECc) w0)), (snd (iv_fill_from t0 src (if mv then e_mvc fl else ECc) w0)).
      split; [rewrite <- surjective_pairing; reflexivity|].
      pose proof (iv_fill_from_good t0 src (if mv then e_mvc fl else ECc) w0 G0 Gs Z0 W0) as I. cbv zeta in I. tauto.
    - destruct (sv_append_range _ _ _ _ _ _ _) as [[t1 w1]|] eqn:S; [|discriminate].
      eexists; eexists. split; [reflexivity|].
      apply sv_append_range_good in S; [tauto|exact G0|exact Gs|exact Z0|exact W0]. }
  destruct F as (t1 & w1 & E & G1 & W1 & S1). rewrite E in H. cbn [fst snd] in H.
  destruct mv.
  - destruct (after_move_src _ _ _ _ _ _ _) as [[s2 w2]|] eqn:A; [|discriminate]. cbn [fst snd] in H.
    apply after_move_src_good in A; [|exact Gs|exact W1]. inversion H; subst. tauto.
  - cbn [fst snd] in H. inversion H; subst. tauto.
Qed.

Lemma remove_range_length m f l :
  0 <= f -> f <= l -> l <= Z.of_nat (length m) ->
  Z.of_nat (length (remove_range m f l)) = Z.of_nat (length m) - (l - f).
Proof.
  intros H1 H2 H3. unfold remove_range. rewrite !frev_rev, rev_length, app_length, firstn_length, skipn_length, rev_length.
  lia.
Qed.

Lemma erase_range_good o f l w o' w' :
  good o -> okw w -> erase_range cast cap fl o f l w = Some (o', w') ->
  good o' /\ okw w' /\ c_size o' = c_size o - (l - f).
Proof.
  intros (A & B & C) Hw H. unfold erase_range in H.
  destruct ((0 <=? f) && (f <=? l) && (l <=? c_size o)) eqn:E; [|discriminate].
  destruct (f =? l) eqn:E2.
  - inversion H; subst. unfold good. repeat split; try lia. exact Hw.
  - destruct (set_size _ _ _ _) eqn:S; [|discriminate]. inversion H; subst; clear H.
    apply set_size_good in S; [|lia]. cbn in S. destruct S as (S1 & S2 & S3).
    unfold good. rewrite S1, S2, S3. rewrite remove_range_length by lia.
    repeat split; try lia.
    apply ok_tick. apply ok_tick. apply ok_chk. split; [exact Hw|]. unfold len. lia.
Qed.

Lemma emplace_defaults_good fuel : forall o w o' w',
  good o -> okw w -> emplace_defaults cast cap fl kd fuel o w = Some (o', w') ->
  good o' /\ okw w' /\ c_size o' = c_size o + Z.of_nat fuel.
Proof.
  induction fuel as [|k IH]; intros o w o' w' G Hw H; cbn [emplace_defaults] in H.
  - inversion H; subst. split; [exact G|split; [exact Hw|cbn; lia]].
  - destruct (emplace_back _ _ _ _ _ _ _) as [[o1 w1]|] eqn:E; [|discriminate]. cbn [fst snd] in H.
    apply emplace_back_good in E; [|exact G|apply ok_tick; exact Hw]. destruct E as (G1 & W1 & S1 & _).
    apply IH in H; [|exact G1|apply ok_tick; exact W1]. destruct H as (G2 & W2 & S2).
    split; [exact G2|split; [exact W2|]]. rewrite S2, S1. lia.
Qed.

Lemma resize_good o n w o' w' :
  good o -> okw w -> resize cast cap fl kd o n w = Some (o', w') -> good o' /\ okw w'.
Proof.
  intros G Hw H. unfold resize in H.
  destruct (n =? c_size o); [inversion H; subst; tauto|].
  destruct (c_size o <? n).
  - destruct (n <=? capacity cast cap); [|discriminate].
    destruct (emplace_defaults _ _ _ _ _ _ _) as [[o1 w1]|] eqn:E; [|discriminate].
    apply emplace_defaults_good in E; [|exact G|exact Hw]. destruct E as (G1 & W1 & _).
    cbn [fst snd] in H. inversion H; subst. split; [exact G1|].
    destruct (n =? c_size o'); [exact W1|apply ok_outside; exact W1].
  - apply erase_range_good in H; [tauto|exact G|exact Hw].
Qed.

Lemma append_one_good o x w o' w' :
  good o -> okw w -> append_one cast cap fl kd o x w = Some (o', w') -> good o' /\ okw w'.
Proof.
  intros G Hw H. unfold append_one in H.
  assert (W1 : forall b : bool, okw (tick EVc 1 (if b then w else outside w))).
  { intros b. apply ok_tick. destruct b; [exact Hw|apply ok_outside; exact Hw]. }
  set (k := kd) in H at 1. destruct k.
  - apply emplace_back_good in H; [tauto|exact G|exact Hw].
  - apply emplace_back_good in H; [tauto|exact G|exact Hw].
  - apply emplace_back_good in H; [tauto|exact G|exact Hw].
  - destruct (c_size o =? cap).
    + inversion H; subst. split; [exact G|]. apply ok_tick. apply W1.
    + destruct (emplace_back _ _ _ _ _ _ _) as [[o1 w1]|] eqn:E; [|discriminate].
      apply emplace_back_good in E; [|exact G|apply W1]. cbn [fst snd] in H. inversion H; subst.
      split; [tauto|]. apply ok_tick. tauto.
  - destruct (c_size o =? cap); [discriminate|].
    destruct (c_size o + 1 <=? capacity cast cap); [|discriminate].
    destruct (emplace_back _ _ _ _ _ _ _) as [[o1 w1]|] eqn:E; [|discriminate].
    apply emplace_back_good in E; [|exact G|apply ok_tick; apply W1]. cbn [fst snd] in H. inversion H; subst.
    split; [tauto|]. apply ok_tick. tauto.
Qed.

Lemma fill_good fuel : forall o x w o' w',
  good o -> okw w -> fill cast cap fl kd fuel o x w = Some (o', w') -> good o' /\ okw w'.
Proof.
  induction fuel as [|k IH]; intros o x w o' w' G Hw H; cbn [fill] in H.
  - inversion H; subst. tauto.
  - destruct (append_one _ _ _ _ _ _ _) as [[o1 w1]|] eqn:E; [|discriminate]. cbn [fst snd] in H.
    apply append_one_good in E; [|exact G|exact Hw]. eapply IH; [| |exact H]; tauto.
Qed.

Lemma pops_good fuel : forall o w o' w',
  good o -> okw w -> pops cast cap kd fuel o w = Some (o', w') -> good o' /\ okw w'.
Proof.
  induction fuel as [|k IH]; intros o w o' w' G Hw H; cbn [pops] in H.
  - inversion H; subst. tauto.
  - destruct (pop_back _ _ _ _ _) as [[o1 w1]|] eqn:E; [|discriminate]. cbn [fst snd] in H.
    apply pop_back_good in E; [|exact G|exact Hw]. eapply IH; [| |exact H]; tauto.
Qed.

Lemma swap_vec_good a b w a' b' w' :
  good a -> good b -> okw w -> swap_vec cast cap fl kd triv a b w = Some (a', b', w') ->
  good a' /\ good b' /\ okw w'.
Proof.
  intros Ga Gb Hw H. unfold swap_vec in H.
  destruct (construct_from _ _ _ _ _ _ _) as [[t wt]|] eqn:C; [|discriminate]. cbn [fst snd] in H.
  apply construct_from_good in C; [|exact Gb|exact Hw]. destruct C as (Gt & Wt & _ & _).
  destruct (assign_from _ _ _ _ _ (mark_moved fl b) _ _ _) as [[[b1 a1] w1]|] eqn:A1; [|discriminate]. cbn [fst snd] in H.
  apply assign_from_good in A1; [|apply mark_moved_good; exact Gb|exact Ga|exact Wt]. destruct A1 as (Gb1 & Ga1 & W1 & _).
  destruct (assign_from _ _ _ _ _ a1 _ _ _) as [[[a2 t2] w2]|] eqn:A2; [|discriminate]. cbn [fst snd] in H.
  apply assign_from_good in A2; [|exact Ga1|exact Gt|exact W1]. destruct A2 as (Ga2 & Gt2 & W2 & _).
  inversion H; subst. split; [exact Ga2|split; [exact Gb1|]].
  apply (destroy_all_good t2 w2 Gt2 W2).
Qed.

Definition goods (s : cst) : Prop := good (s_a s) /\ good (s_b s) /\ okw (s_w s).

Lemma goods0 : goods cst0.
Proof. unfold goods, cst0. cbn [s_a s_b s_w]. split; [apply good0|split; [apply good0|reflexivity]]. Qed.

Lemma upd_goods t s o w :
  goods s -> good o -> okw w -> goods (upd t s (o, w)).
Proof. intros (A & B & C) G W. unfold upd, goods. destruct t; cbn; tauto. Qed.

Lemma sel_good t s : goods s -> good (sel t s).
Proof. intros (A & B & C). destruct t; assumption. Qed.

Lemma cstep_good s o s' : goods s -> cstep cast cap fl kd triv s o = Some s' -> goods s'.
Proof.
  intros G H. pose proof G as (Ga & Gb & Gw).
  assert (NH : forall s1, not_here s = Some s1 -> goods s1).
  { intros s1 E. unfold not_here in E. inversion E; subst. unfold goods. cbn [s_a s_b s_w].
    split; [exact Ga|split; [exact Gb|apply ok_outside; exact Gw]]. }
  assert (U : forall t r f, (forall o1 w, f = Some (o1, w) -> good o1 /\ okw w) ->
                            option_map (upd t s) f = Some r -> goods r).
  { intros t r f Hf E. destruct f as [[o1 w]|]; [|discriminate]. cbn in E. inversion E; subst.
    destruct (Hf o1 w eq_refl). apply upd_goods; assumption. }
  assert (U2 : forall t r f, (forall x y w, f = Some (x, y, w) -> good x /\ good y /\ okw w) ->
                             option_map (upd2 t s) f = Some r -> goods r).
  { intros t r f Hf E. destruct f as [[[x y] w]|]; [|discriminate]. cbn in E. inversion E; subst.
    destruct (Hf x y w eq_refl) as (X & Y & W). unfold upd2, goods. destruct t; cbn; tauto. }
  destruct o as [t k x|t k|t|t f l|t n|t|t|t|t|]; cbn [cstep] in H.
  - eapply U; [|exact H]. intros o1 w E. eapply fill_good; [apply sel_good; exact G|exact Gw|exact E].
  - destruct (has_pop kd); [|apply NH; exact H].
    eapply U; [|exact H]. intros o1 w E. eapply pops_good; [apply sel_good; exact G|exact Gw|exact E].
  - destruct (has_clear kd); [|apply NH; exact H].
    eapply U; [|exact H]. intros o1 w E. apply clear_good in E; [tauto|apply sel_good; exact G|exact Gw].
  - destruct (has_erase kd); [|apply NH; exact H].
    eapply U; [|exact H]. intros o1 w E. apply erase_range_good in E; [tauto|apply sel_good; exact G|exact Gw].
  - destruct (is_sv kd); [|apply NH; exact H].
    eapply U; [|exact H]. intros o1 w E. eapply resize_good; [apply sel_good; exact G|exact Gw|exact E].
  - eapply U; [|exact H]. intros o1 w E. eapply scoped_from_good; [apply sel_good; exact G|exact Gw|exact E].
  - eapply U; [|exact H]. intros o1 w E. eapply scoped_from_good; [apply sel_good; exact G|exact Gw|exact E].
  - eapply U2; [|exact H]. intros x y w E.
    apply assign_from_good in E; [tauto|apply sel_good; exact G|apply sel_good; exact G|exact Gw].
  - eapply U2; [|exact H]. intros x y w E.
    apply assign_from_good in E; [tauto|apply sel_good; exact G|apply sel_good; exact G|exact Gw].
  - destruct (is_sv kd); [|apply NH; exact H].
    eapply U2; [|exact H]. intros x y w E. eapply swap_vec_good; [exact Ga|exact Gb|exact Gw|exact E].
Qed.

(* every state a history reaches *)
Lemma crun_good ops : forall s, goods s ->
  Forall (fun r => match r with Some s' => goods s' | None => True end) (crun cast cap fl kd triv s ops).
Proof.
  induction ops as [|o rest IH]; intros s G; cbn [crun]; [constructor|].
  destruct (cstep _ _ _ _ _ s o) as [s'|] eqn:E.
  - pose proof (cstep_good s o s' G E) as G'. constructor; [exact G'|apply IH; exact G'].
  - constructor; [exact I|constructor].
Qed.

Lemma clast_good ops : forall s s', goods s -> clast cast cap fl kd triv s ops = Some s' -> goods s'.
Proof.
  induction ops as [|o rest IH]; intros s s' G H; cbn [clast] in H.
  - inversion H; subst. exact G.
  - destruct (cstep _ _ _ _ _ s o) as [s1|] eqn:E; [|discriminate].
    eapply IH; [eapply cstep_good; eassumption|exact H].
Qed.

(* the two destructors: every call legal, nothing left alive *)
Lemma cfinal_good s : goods s -> okw (s_w (cfinal s)) /\ alive_of (cfinal s) = 0.
Proof.
  intros (Ga & Gb & Gw). unfold cfinal, alive_of, len. cbn [s_a s_b s_w].
  pose proof (destroy_all_good (s_a s) (s_w s) Ga Gw) as Da. cbv zeta in Da. destruct Da as (_ & La & _ & Wa).
  pose proof (destroy_all_good (s_b s) (snd (destroy_all (s_a s) (s_w s))) Gb Wa) as Db. cbv zeta in Db.
  destruct Db as (_ & Lb & _ & Wb). split; [exact Wb|]. rewrite La, Lb. reflexivity.
Qed.
End Inv.
