(* C03 — each element is constructed once and destroyed once.  Property theorems only. *)
From Tetl Require Import Lib.Base C03.Trace C03.Model C03.Spec C03.ProofsTrace.

(* automaton: the source of a move is left MovedFrom (never Dead) ... *)
Theorem C03_moved_from_source_state : forall m l s h,
  (h = Construct l (Move s) \/ h = Assign l (Move s)) -> alive m s = true -> s <> l ->
  lookup (snd (astep m h)) s = MovedFrom.
Proof. exact moved_from_source_state. Qed.
Print Assumptions C03_moved_from_source_state.
