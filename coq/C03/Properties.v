(* C03 — each element is constructed once and destroyed once.  Property theorems only.
   Owning types modelled: static_vector (non-trivial storage) and inplace_vector, for element types
   with (fl = true) and without (fl = false) move operations, every capacity (0 included: every
   insertion stops at its precondition), every history of the operations of C03.Model.op on two objects. *)
From Tetl Require Import Lib.Base C03.Trace C03.Model C03.Spec C03.ProofsTrace C03.ProofsRun C03.ProofsHist C03.ProofsVecSelf C03.ProofsVecDomain C03.ProofsVecDomain2 C03.ProofsMeetsSpec C03.ProofsFwd.

(** * the automaton *)
(* a well-formed trace that leaves nothing alive: the history of EVERY location is
   (construct (assign | use | read)* destroy)*  -- each object constructed at l is destroyed exactly
   once before the next one is constructed there, nothing touches l while it holds no object --
   and constructor and destructor calls on l are equally many *)
Theorem C03_wf_all_dead_once_each : forall evs, wf_trace evs = true -> all_dead evs = true ->
  forall l, once_each l evs /\ constructions l evs = destructions l evs.
Proof. exact wf_all_dead_once_each. Qed.
Print Assumptions C03_wf_all_dead_once_each.

(* the source of a move is left MovedFrom (never Dead) ... *)
Theorem C03_moved_from_source_state : forall m l s h,
  (h = Construct l (Move s) \/ h = Assign l (Move s)) -> alive m s = true -> s <> l ->
  lookup (snd (astep m h)) s = MovedFrom.
Proof. exact moved_from_source_state. Qed.
Print Assumptions C03_moved_from_source_state.

(* ... and a moved-from object is destructible and assignable *)
Theorem C03_moved_from_then_legal : forall m s, lookup m s = MovedFrom ->
  fst (astep m (Destroy s)) = true /\ (forall h, src_ok m h = true -> fst (astep m (Assign s h)) = true).
Proof. exact moved_from_then_legal. Qed.
Print Assumptions C03_moved_from_then_legal.

(** * static_vector / inplace_vector: all flavours, all capacities, all histories *)
(* a history in which no precondition is violated, followed by the destructors of the two objects:
   no constructor over a live object, no assignment / destructor / read on dead storage, nothing alive
   at the end *)
Theorem C03_vec_lifecycle : forall (fl : bool) (cap : nat) (iv : bool) (ops : list op),
  history_completed fl cap iv ops = true ->
  wf_trace (trace fl cap iv ops) = true /\ all_dead (trace fl cap iv ops) = true.
Proof. exact completed_lifecycle. Qed.
Print Assumptions C03_vec_lifecycle.

(* per location (element slot of either object or of a step-local container, library temporary,
   caller-side object): constructed once and destroyed once, alternately *)
Theorem C03_vec_each_location_once : forall (fl : bool) (cap : nat) (iv : bool) (ops : list op),
  history_completed fl cap iv ops = true ->
  forall l, once_each l (trace fl cap iv ops) /\
            constructions l (trace fl cap iv ops) = destructions l (trace fl cap iv ops).
Proof. exact completed_each_location_once. Qed.
Print Assumptions C03_vec_each_location_once.

(* ANY history (no hypothesis): every event up to its end, or up to the contract check that stops
   it, is legal, and the fuelled loop of the rotate model never runs out of fuel *)
Theorem C03_vec_prefix_wf : forall (fl : bool) (cap : nat) (iv : bool) (ops : list op),
  wf_trace (events_of (fst (fst (run fl cap iv (0, 0) [] ops)))) = true /\
  no_fuel (fst (fst (run fl cap iv (0, 0) [] ops))) = true.
Proof. intros fl cap iv ops. split; [apply prefix_wf|apply never_out_of_fuel]. Qed.
Print Assumptions C03_vec_prefix_wf.

(* the verdict printed by the correspondence (Model.run_case) is the one the specification expects *)
Theorem C03_vec_verdict : forall (fl : bool) (cap : nat) (iv : bool) (ops : list op),
  history_completed fl cap iv ops = true ->
  snd (run_case fl cap iv ops) = (true, 0).
Proof. exact completed_verdict. Qed.
Print Assumptions C03_vec_verdict.

(* self copy/move assignment and self swap leave the elements of the vector unchanged (every
   self-operation of the history; the list the correspondence prints) *)
Theorem C03_vec_self_identity : forall (fl : bool) (cap : nat) (iv : bool) (ops : list op),
  history_completed fl cap iv ops = true ->
  self_checks fl cap iv (0, 0) [] ops = repeat true (count_self ops).
Proof. exact vec_self_identity. Qed.
Print Assumptions C03_vec_self_identity.

(* the hypothesis, from the specification: for histories of the operations whose outcome is determined
   by the sizes of the two objects (everything except erase_if / erase by value and the static_set /
   flat_set operations) the model completes whenever the documented preconditions, decided on lists
   as for std::vector with the capacity bound, hold at every call *)
Theorem C03_vec_domain : forall (fl : bool) (cap : nat) (iv : bool) (ops : list op),
  forallb (size_op iv) ops = true -> spec_verdict fl cap ops <> None ->
  history_completed fl cap iv ops = true.
Proof. exact vec_domain. Qed.
Print Assumptions C03_vec_domain.

(* the operations whose resulting size depends on the element VALUES (outside C03_vec_domain), per step, from any
   state within the capacity and for any element values: erase_if, erase by value and the static_set insert (both
   forms) / emplace / erase by key never stop - the specification gives them no precondition; flat_set insert (both
   forms) / emplace stop only when the set is full - the vector's capacity precondition *)
Theorem C03_vec_value_dependent_ops : forall (fl : bool) (cap : nat) (s : nat * nat) (m : vmem) (o : op),
  within2 cap s ->
  (never_stops_op o = true -> exists s', snd (step_sv fl cap s m o) = Done s' /\ within2 cap s') /\
  (forall t, flat_insert_target o = Some t ->
     (exists s', snd (step_sv fl cap s m o) = Done s' /\ within2 cap s') \/
     (snd (step_sv fl cap s m o) = Stop /\ sel t s = cap)).
Proof.
  intros fl cap s m o Hw. split; [apply value_ops_never_stop; exact Hw|].
  intros t Ht. apply flat_insert_stops_only_when_full; assumption.
Qed.
Print Assumptions C03_vec_value_dependent_ops.

(* model = specification: inside the specification's domain the verdict and the self-operation
   identities the model prints are the ones Spec.spec_verdict expects (size-determined operations) *)
Theorem C03_vec_meets_spec : forall (fl : bool) (cap : nat) (iv : bool) (ops : list op),
  forallb (size_op iv) ops = true ->
  forall v, spec_verdict fl cap ops = Some v ->
  (snd (run_case fl cap iv ops), self_checks fl cap iv (0, 0) [] ops) = (fst v, snd v).
Proof. exact vec_meets_spec. Qed.
Print Assumptions C03_vec_meets_spec.

(* sources that are not random-access iterators (no capacity precondition up front; the library accepts
   them since e6416a9): when the elements fit, the events are exactly those of the random-access form;
   when they do not, the random-access form stops before the first event, the other form constructs the
   elements that fit - slots size() .. capacity() - 1 from the first sources - and is then stopped by
   emplace_back's precondition (those elements stay: legal prefix, C03_vec_prefix_wf) *)
Theorem C03_vec_forward_iterator_forms : forall (fl : bool) (cap c n pos : nat) (srcs : list loc),
  (n + length srcs <= cap ->
     insert_range_fwd fl cap c n pos srcs = insert_range fl cap c n pos srcs /\
     move_insert_fwd fl cap c n pos srcs = move_insert fl cap c n pos srcs) /\
  (length srcs <= cap -> assign_range_fwd fl cap c n srcs = assign_range fl cap c n srcs) /\
  (pos <= n -> n <= cap -> cap < n + length srcs ->
     insert_range_fwd fl cap c n pos srcs = (constructs c n (firstn (cap - n) (map Copy srcs)), Stop) /\
     insert_range fl cap c n pos srcs = ([], Stop) /\
     move_insert_fwd fl cap c n pos srcs = (constructs c n (firstn (cap - n) (map (mv fl) srcs)), Stop) /\
     move_insert fl cap c n pos srcs = ([], Stop)).
Proof. exact forward_iterator_forms. Qed.
Print Assumptions C03_vec_forward_iterator_forms.

(* the hypothesis is satisfiable by a history that copies, moves, swaps, inserts and erases *)
Example C03_nonvacuous :
  history_completed true 3 false
    [EmplaceBack false 1; PushBackRv false 2; InsertCr false 0 3; MoveAssign true; Swap; SelfSwap false;
     EraseAt false 1; CopyConstruct false; MoveRoundTrip false; Resize true 2;
     SetInsertRv true 5; SetEmplace true 4; SetEraseKey true 5; FlatInsertCr false 9; FlatEraseKey false 9;
     InsertRangeFwd true 0 [6]%Z; MoveInsertRangeFwd false 1 [8]%Z; AssignRangeFwd true [1; 2; 3]%Z; CtorRangeFwd [4; 5]%Z;
     CtorMoveArr [6; 7; 8]%Z] = true /\
  history_completed false 2 true [IvTryPushCr false 1; IvUncheckedPushRv false 2; IvMoveConstruct false; IvCopyConstruct true] = true.
Proof. split; vm_compute; reflexivity. Qed.
