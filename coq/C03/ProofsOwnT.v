(* C03: the by-type members of a variant (C03.ModelOwnT) emit, from every state, exactly the events of their by-index
   counterparts; hence a history over [xoop] is, step by step, the history of its by-index image ([map lower]) and
   every theorem about C03.ModelOwn histories carries over.  Plus the statement the overloads exist for: what
   destroy() runs is decided by the HELD alternative alone. *)
From Tetl Require Import Lib.Base C03.Trace C03.Model C03.ModelOwn C03.Spec C03.ModelOwnT C03.SpecOwnT C03.ProofsRun
  C03.ProofsOwn C03.ProofsOwnStorage C03.ProofsOwnDomain C03.ProofsOwnSelf C03.ProofsMeetsSpec.
From Coq Require Import Arith.
Local Open Scope nat_scope.

(** * histories under a renaming of the operations *)
Section Transfer.
Context {O1 O2 : Type}.
Variable f : O1 -> O2.
Variable stp1 : nat * nat -> vmem -> O1 -> G (nat * nat).
Variable stp2 : nat * nat -> vmem -> O2 -> G (nat * nat).
Variable fin : nat * nat -> list event.
Variable obs : vmem -> nat * nat -> list Z * list Z.
Variable self1 : O1 -> option bool.
Variable self2 : O2 -> option bool.
Hypothesis Hstp : forall s m o, stp1 s m o = stp2 s m (f o).
Hypothesis Hself : forall o, self1 o = self2 (f o).

Lemma grun_map ops : forall s m, grun stp1 s m ops = grun stp2 s m (map f ops).
Proof.
  induction ops as [|o rest IH]; intros s m; cbn [grun map]; [reflexivity|].
  rewrite Hstp. destruct (snd (stp2 s m (f o))) as [s'| |]; [rewrite IH|..]; reflexivity.
Qed.

Lemma greports_map ops : forall s m a, greports stp1 obs s m a ops = greports stp2 obs s m a (map f ops).
Proof.
  induction ops as [|o rest IH]; intros s m a; cbn [greports map]; [reflexivity|].
  rewrite Hstp. destruct (snd (stp2 s m (f o))) as [s'| |]; [rewrite IH|..]; reflexivity.
Qed.

Lemma gself_checks_map ops : forall s m, gself_checks stp1 obs self1 s m ops = gself_checks stp2 obs self2 s m (map f ops).
Proof.
  induction ops as [|o rest IH]; intros s m; cbn [gself_checks map]; [reflexivity|].
  rewrite Hstp, Hself. destruct (snd (stp2 s m (f o))) as [s'| |]; [rewrite IH|..]; reflexivity.
Qed.

Lemma gtrace_map s0 ini ops : gtrace stp1 fin s0 ini ops = gtrace stp2 fin s0 ini (map f ops).
Proof. unfold gtrace. rewrite grun_map. reflexivity. Qed.

Lemma ghistory_completed_map s0 ini ops : ghistory_completed stp1 s0 ini ops = ghistory_completed stp2 s0 ini (map f ops).
Proof. unfold ghistory_completed. rewrite grun_map. reflexivity. Qed.

Lemma grun_case_map s0 ini ops : grun_case stp1 fin obs s0 ini ops = grun_case stp2 fin obs s0 ini (map f ops).
Proof. unfold grun_case. rewrite greports_map. reflexivity. Qed.
End Transfer.

(** * by type = by index *)
Section OwnT.
Variable fl : bool.
Variable trk : nat -> bool.
Variable fn : bool.

Lemma step_own_x_lower s m o : step_own_x fl trk fn s m o = step_own fl trk fn s m (lower o).
Proof. unfold step_own_x, step_own. destruct fn; destruct o; reflexivity. Qed.

Lemma own_self_x_lower o : own_self_x o = own_self (lower o).
Proof. destruct o; reflexivity. Qed.

Lemma own_trace_x_lower ops : own_trace_x fl trk fn ops = own_trace fl trk fn (map lower ops).
Proof. apply gtrace_map. exact step_own_x_lower. Qed.

Lemma own_completed_x_lower ops : own_completed_x fl trk fn ops = own_completed fl trk fn (map lower ops).
Proof. apply ghistory_completed_map. exact step_own_x_lower. Qed.

Lemma own_run_case_x_lower ops : own_run_case_x fl trk fn ops = own_run_case fl trk fn (map lower ops).
Proof. apply grun_case_map. exact step_own_x_lower. Qed.

Lemma own_self_checks_x_lower ops : own_self_checks_x fl trk fn ops = own_self_checks fl trk fn (map lower ops).
Proof. apply gself_checks_map; [exact step_own_x_lower|exact own_self_x_lower]. Qed.

Lemma own_spec_step_x_lower s o : own_spec_step_x s o = own_spec_step s (lower o).
Proof. destruct o; reflexivity. Qed.

Lemma own_spec_run_x_lower ops : forall s, own_spec_run_x s ops = own_spec_run s (map lower ops).
Proof.
  induction ops as [|o rest IH]; intros s; cbn [own_spec_run_x own_spec_run map]; [reflexivity|].
  rewrite own_spec_step_x_lower. destruct (own_spec_step s (lower o)); [apply IH|reflexivity].
Qed.

Lemma own_count_self_x_lower ops : own_count_self_x ops = own_count_self (map lower ops).
Proof.
  unfold own_count_self_x, own_count_self. induction ops as [|o rest IH]; [reflexivity|].
  cbn [filter map]. rewrite own_self_x_lower. destruct (own_self (lower o)); cbn [length]; rewrite IH; reflexivity.
Qed.

Lemma own_spec_verdict_x_lower ops : own_spec_verdict_x ops = own_spec_verdict (map lower ops).
Proof. unfold own_spec_verdict_x, own_spec_verdict. rewrite own_spec_run_x_lower, own_count_self_x_lower. reflexivity. Qed.

(* the lifted theorems *)
Lemma ownx_lifecycle ops : own_completed_x fl trk fn ops = true ->
  wf_trace (own_trace_x fl trk fn ops) = true /\ all_dead (own_trace_x fl trk fn ops) = true.
Proof. rewrite own_completed_x_lower, own_trace_x_lower. apply own_completed_lifecycle. Qed.

Lemma ownx_each_location_once ops : own_completed_x fl trk fn ops = true ->
  forall l, once_each l (own_trace_x fl trk fn ops) /\
            constructions l (own_trace_x fl trk fn ops) = destructions l (own_trace_x fl trk fn ops).
Proof. rewrite own_completed_x_lower, own_trace_x_lower. apply own_completed_each_location_once. Qed.

Lemma ownx_storage_wf ops : own_completed_x fl trk fn ops = true -> storage_wf (own_trace_x fl trk fn ops) = true.
Proof. rewrite own_completed_x_lower, own_trace_x_lower. apply own_completed_storage_wf. Qed.

Lemma ownx_prefix_wf ops :
  wf_trace (own_init trk fn ++ events_of (fst (fst (grun (step_own_x fl trk fn) (0, 0) (exec_all [] (own_init trk fn)) ops)))) = true /\
  no_fuel (fst (fst (grun (step_own_x fl trk fn) (0, 0) (exec_all [] (own_init trk fn)) ops))) = true.
Proof. rewrite (grun_map lower _ _ step_own_x_lower). apply own_prefix_wf. Qed.

Lemma ownx_verdict ops : own_completed_x fl trk fn ops = true -> snd (own_run_case_x fl trk fn ops) = (true, 0).
Proof. rewrite own_completed_x_lower, own_run_case_x_lower. apply own_completed_verdict. Qed.

Lemma ownx_self_identity ops : own_completed_x fl trk fn ops = true ->
  own_self_checks_x fl trk fn ops = repeat true (own_count_self_x ops).
Proof. rewrite own_completed_x_lower, own_self_checks_x_lower, own_count_self_x_lower. apply own_self_identity. Qed.
End OwnT.

(* a variant history has no precondition, whichever overloads it uses *)
Lemma varx_completed fl trk ops : own_completed_x fl trk false ops = true.
Proof. rewrite own_completed_x_lower. apply var_completed. Qed.

Lemma varx_meets_spec fl trk ops v : own_spec_verdict_x ops = Some v ->
  (snd (own_run_case_x fl trk false ops), own_self_checks_x fl trk false ops, storage_wf (own_trace_x fl trk false ops)) = v.
Proof.
  rewrite own_spec_verdict_x_lower, own_run_case_x_lower, own_self_checks_x_lower, own_trace_x_lower.
  apply own_meets_spec. discriminate.
Qed.

(** * what is destroyed is decided by the held alternative, what is constructed by the new one *)
Section Replace.
Variable fl : bool.
Variable trk : nat -> bool.

(* v.emplace<Tj>(x) from ANY state: the destructor of the held alternative iff it is a class type with one, then the
   constructor of alternative j iff that is an instrumented class type; the object holds j afterwards *)
Lemma emplace_type_events s m t j x :
  step_own_x fl trk false s m (XEmplaceType t j x) =
  ((if trk (sel t s) then [Destroy (Slot (cid t) (sel t s))] else []) ++
   (if trk j then [Construct (Slot (cid t) j) (Value x)] else []), Done (upd t s j)).
Proof.
  unfold step_own_x, step_var_x, dst, con, when, eff, bind, emit, ret. cbn [fst snd].
  rewrite app_nil_r. reflexivity.
Qed.

(* v = Tj(x) / Tj c(x); v = c  for a held alternative i <> j: emplace<Tj> by type *)
Lemma conv_assign_cross_events s m t j x (rv : bool) : sel t s <> j ->
  step_own fl trk false s m (if rv then VAssignRv t j x else VAssignCr t j x) =
  ((if trk j then [Construct (Ext 0) (Value x)] else []) ++
   ((if trk (sel t s) then [Destroy (Slot (cid t) (sel t s))] else []) ++
    (if trk j then [Construct (Slot (cid t) j) (if rv then mv fl (Ext 0) else Copy (Ext 0))] else [])) ++
   (if trk j then [Destroy (Ext 0)] else []), Done (upd t s j)).
Proof.
  intros Hne. apply Nat.eqb_neq in Hne.
  destruct rv; unfold step_own, step_var, ext_for, v_assign, dst, con, when, eff, bind, emit, ret; cbn [fst snd];
    rewrite Hne, app_nil_r; reflexivity.
Qed.
End Replace.
