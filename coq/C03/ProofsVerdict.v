(* C03: the verdict that the correspondence prints ([Model.run_case]: step-wise monitor over the
   chunks of a history) is the verdict of the automaton on the whole trace, and for a completed
   history it is the constant the specification expects. *)
From Tetl Require Import Lib.Base C06a.Instances C03.Trace C03.Model C03.Spec C03.ProofsTrace C03.ProofsGen C03.ProofsHist.
From Coq Require Import Arith.
Local Open Scope nat_scope.

Lemma monitor_fst m evs : fst (fst (monitor m evs)) = fst (arun m evs).
Proof. apply monitor_arun. Qed.
Lemma monitor_snd m evs : snd (fst (monitor m evs)) = snd (arun m evs).
Proof. apply monitor_arun. Qed.

Lemma reports_run fl cap iv ops : forall s m a,
  let r := reports fl cap iv s m a ops in
  let q := run fl cap iv s m ops in
  snd (fst r) = snd (fst q) /\
  forallb r_ok (fst (fst r)) = fst (arun a (events_of (fst (fst q)))) /\
  snd r = snd (arun a (events_of (fst (fst q)))) /\
  forallb r_done (fst (fst r)) = completed (fst (fst q)).
Proof.
  induction ops as [|o rest IH]; intros s m a; cbn [reports run].
  - cbn. repeat split; reflexivity.
  - destruct (step fl cap iv s m o) as [evs [s'| |]] eqn:E; cbn [fst snd].
    + specialize (IH s' (exec_all m evs) (snd (fst (monitor a evs)))). cbn zeta in IH.
      destruct IH as [I1 [I2 [I3 I4]]]. unfold events_of, completed in *. cbn [map concat forallb fst snd r_ok r_done].
      rewrite arun_app. cbn [fst snd]. rewrite I1, I2, I3, I4, monitor_fst, monitor_snd. repeat split; reflexivity.
    + unfold events_of, completed. cbn [map concat forallb fst snd r_ok r_done]. rewrite app_nil_r, monitor_fst, monitor_snd, !andb_true_r.
      repeat split; reflexivity.
    + unfold events_of, completed. cbn [map concat forallb fst snd r_ok r_done]. rewrite app_nil_r, monitor_fst, monitor_snd, !andb_true_r.
      repeat split; reflexivity.
Qed.

(* the verdict of run_case is (wf_trace, number of live locations) of the whole trace *)
Lemma run_case_verdict fl cap iv ops :
  snd (run_case fl cap iv ops) =
  (wf_trace (trace fl cap iv ops), alive_count (final_state (trace fl cap iv ops))).
Proof.
  unfold run_case, trace, wf_trace, final_state. cbn [snd].
  destruct (reports_run fl cap iv ops (0, 0) [] []) as [H1 [H2 [H3 _]]]. cbn zeta in *.
  rewrite H1, H2, H3, monitor_fst, monitor_snd.
  fold (events_of (fst (fst (run fl cap iv (0, 0) [] ops)))).
  rewrite arun_app. reflexivity.
Qed.

Lemma completed_verdict fl cap iv ops : history_completed fl cap iv ops = true ->
  snd (run_case fl cap iv ops) = (true, 0).
Proof.
  intros Hc. rewrite run_case_verdict.
  destruct (completed_lifecycle fl cap iv ops Hc) as [H1 H2]. rewrite H1.
  unfold all_dead in H2. rewrite (alive_count_zero _ H2). reflexivity.
Qed.
