(* C03 model, part 6: the STORED ELEMENT COUNT of static_vector / inplace_vector (and of the adapters stack,
   static_set, flat_set over a static_vector) as a value of its size_type.

   The event models (Model.v) count elements with unbounded naturals.  The code does not: the storages keep
   the count in `size_type _size` with

       using size_type = etl::smallest_size_t<Capacity>;      (_type_traits/smallest_size_t.hpp)

   (static_vector_trivial_storage, static_vector_non_trivial_storage, inplace_vector::internal_size_t) and
   every update goes through a conversion to that type:

       storage::emplace_back   unsafe_set_size(static_cast<size_type>(size() + 1));
       storage::pop_back       unsafe_set_size(static_cast<size_type>(size() - 1));
       unsafe_set_size(size_t newSize) { TETL_PRECONDITION(newSize <= Capacity); _size = size_type(newSize); }
       storage::capacity()     -> size_type { return Capacity; }
       inplace_vector          unsafe_set_size(size() + 1U) ... _size = static_cast<internal_size_t>(newSize);

   This file is the COUNT-LEVEL model of the members (how many special member calls of which kind, which
   slots they touch relative to the stored count, the element values), generic in the conversion [cast] to
   size_type, so that the width of size_type is part of the model: [size_cast cap] = reduction modulo
   2 ^ [size_bits cap].  Numbers are binary (Z): the histories reach 65537 elements.

   State of an object: the stored count [c_size] (what size() returns) and, as ghost state, the element
   objects that really exist in its storage ([c_mem], last element first; [c_live] their number): slot i
   holds an object iff i < c_live.  A constructor call at end() is legal iff slot size() holds no object,
   i.e. iff c_size = c_live; the flag [w_ok] records that every call so far was legal (the run-time monitor's
   `wf`).  With a conversion that loses counts (a too narrow size_type) c_size and length c_mem drift apart:
   objects are never destroyed, constructors run over live objects ([width_matters] in Properties_size.v). *)
From Tetl Require Import Lib.Base.
Local Open Scope Z_scope.

(** * etl::smallest_size_t<N>: N < 255 -> unsigned char, N < 65535 -> unsigned short, N < 2^32 - 1 -> unsigned
   int, else unsigned long / unsigned long long (both 64 bit) *)
Definition size_bits (cap : Z) : Z :=
  if cap <? 255 then 8 else if cap <? 65535 then 16 else if cap <? 4294967295 then 32 else 64.
(* static_cast<size_type>(n) *)
(* (the modulus is computed once per capacity: [size_cast cap] is handed to the model as a function) *)
Definition size_cast (cap : Z) : Z -> Z :=
  let m := 2 ^ size_bits cap in fun n => if (0 <=? n) && (n <? m) then n else n mod m.   (* = wrapu (size_bits cap) n: ProofsSize.size_cast_wrapu *)

(** * counters of the special member calls of the element type *)
Inductive ev := EVc | ECc | EMc | ECa | EMa | EDt.   (* T(x), T(T const&), T(T&&), = T const&, = T&&, ~T *)
Record cnt := { n_vc : Z; n_cc : Z; n_mc : Z; n_ca : Z; n_ma : Z; n_dt : Z }.
Definition cnt0 : cnt := {| n_vc := 0; n_cc := 0; n_mc := 0; n_ca := 0; n_ma := 0; n_dt := 0 |}.
Definition cnt_add (e : ev) (k : Z) (c : cnt) : cnt :=
  match e with
  | EVc => {| n_vc := n_vc c + k; n_cc := n_cc c; n_mc := n_mc c; n_ca := n_ca c; n_ma := n_ma c; n_dt := n_dt c |}
  | ECc => {| n_vc := n_vc c; n_cc := n_cc c + k; n_mc := n_mc c; n_ca := n_ca c; n_ma := n_ma c; n_dt := n_dt c |}
  | EMc => {| n_vc := n_vc c; n_cc := n_cc c; n_mc := n_mc c + k; n_ca := n_ca c; n_ma := n_ma c; n_dt := n_dt c |}
  | ECa => {| n_vc := n_vc c; n_cc := n_cc c; n_mc := n_mc c; n_ca := n_ca c + k; n_ma := n_ma c; n_dt := n_dt c |}
  | EMa => {| n_vc := n_vc c; n_cc := n_cc c; n_mc := n_mc c; n_ca := n_ca c; n_ma := n_ma c + k; n_dt := n_dt c |}
  | EDt => {| n_vc := n_vc c; n_cc := n_cc c; n_mc := n_mc c; n_ca := n_ca c; n_ma := n_ma c; n_dt := n_dt c + k |}
  end.

(* the world outside the two objects: the counters, `every call so far was legal`, `the history stayed inside
   what this model describes` (keys handed to a set in ascending order, operations of the family) *)
Record world := { w_cnt : cnt; w_ok : bool; w_dom : bool }.
Definition world0 : world := {| w_cnt := cnt0; w_ok := true; w_dom := true |}.
Definition tick (e : ev) (k : Z) (w : world) : world :=
  {| w_cnt := cnt_add e k (w_cnt w); w_ok := w_ok w; w_dom := w_dom w |}.
Definition chk (b : bool) (w : world) : world :=
  {| w_cnt := w_cnt w; w_ok := w_ok w && b; w_dom := w_dom w |}.
Definition outside (w : world) : world := {| w_cnt := w_cnt w; w_ok := w_ok w; w_dom := false |}.

(* c_live = number of element objects that exist in the storage = length c_mem (kept as a binary number: histories reach 65537 elements) *)
Record cobj := { c_size : Z; c_live : Z; c_mem : list Z }.
Definition cobj0 : cobj := {| c_size := 0; c_live := 0; c_mem := [] |}.
Definition len (o : cobj) : Z := c_live o.

Inductive kind := KSv | KIv | KStack | KSet | KFlat.

Inductive cop :=
| CFill (t : bool) (k x : Z)      (* k times: append x, x + 1, ...  (emplace_back / unchecked_emplace_back / emplace) *)
| CPop (t : bool) (k : Z)         (* k times pop_back() / pop() *)
| CClear (t : bool)
| CErase (t : bool) (f l : Z)     (* erase(begin() + f, begin() + l) *)
| CResize (t : bool) (n : Z)      (* static_vector::resize(n) *)
| CCopyCtor (t : bool)            (* { Vec c(vt); } *)
| CMoveCtor (t : bool)            (* { Vec c(move(vt)); } *)
| CCopyAssign (t : bool)          (* vt = vother *)
| CMoveAssign (t : bool)          (* vt = move(vother) *)
| CSwap.                          (* v0.swap(v1)   (static_vector) *)

Section M.
Variable cast : Z -> Z.     (* static_cast<size_type>(.) *)
Variable cap : Z.           (* Capacity *)
Variable fl : bool.         (* the element type has move operations (else: a move request is served by the copy operations) *)
Variable kd : kind.
Variable triv : bool.       (* the element type is trivially copyable (int): inplace_vector's special members are the defaulted ones *)

Definition is_iv : bool := match kd with KIv => true | _ => false end.
Definition e_mvc : ev := if fl then EMc else ECc.
Definition e_mva : ev := if fl then EMa else ECa.
Definition moved_val (x : Z) : Z := if fl then (-1) else x.

(* storage::capacity() returns a size_type *)
Definition capacity : Z := cast cap.

(* unsafe_set_size(size_t newSize): TETL_PRECONDITION(newSize <= Capacity); _size = size_type(newSize) *)
Definition set_size (o : cobj) (n : Z) : option cobj :=
  if n <=? cap then Some {| c_size := cast n; c_live := c_live o; c_mem := c_mem o |} else None.

(* new (end()) T(...) : a constructor call on slot size() *)
Definition construct_end (o : cobj) (x : Z) (e : ev) (w : world) : cobj * world :=
  ({| c_size := c_size o; c_live := c_live o + 1; c_mem := x :: c_mem o |}, tick e 1 (chk (c_size o =? len o) w)).

(* static_vector storage: TETL_PRECONDITION(!full()); new (end()) T(args...); unsafe_set_size(static_cast<size_type>(size() + 1))
   inplace_vector:        TETL_PRECONDITION(size() != max_size()); construct_at(end(), args...); unsafe_set_size(size() + 1U) *)
Definition emplace_back (o : cobj) (x : Z) (e : ev) (w : world) : option (cobj * world) :=
  if c_size o =? cap then None
  else
    let r := construct_end o x e w in
    match set_size (fst r) (if is_iv then c_size o + 1 else cast (c_size o + 1)) with
    | Some o' => Some (o', snd r)
    | None => None
    end.

(* TETL_PRECONDITION(!empty()); (end() - 1)->~T(); unsafe_set_size(static_cast<size_type>(size() - 1)) *)
Definition pop_back (o : cobj) (w : world) : option (cobj * world) :=
  if c_size o =? 0 then None
  else
    let w1 := tick EDt 1 (chk (c_size o =? len o) w) in
    match set_size {| c_size := c_size o; c_live := c_live o - 1; c_mem := tl (c_mem o) |} (if is_iv then c_size o - 1 else cast (c_size o - 1)) with
    | Some o' => Some (o', w1)
    | None => None
    end.

(* unsafe_destroy_all() / ranges::destroy( *this): the destructor runs on slots [0, size()) *)
Definition destroy_all (o : cobj) (w : world) : cobj * world :=
  ({| c_size := c_size o; c_live := (if c_size o =? len o then 0 else c_live o);
      c_mem := if c_size o =? len o then [] else c_mem o |},
   tick EDt (c_size o) (chk (c_size o =? len o) w)).
(* clear(): unsafe_destroy_all(); unsafe_set_size(0) *)
Definition clear (o : cobj) (w : world) : option (cobj * world) :=
  let r := destroy_all o w in
  match set_size (fst r) 0 with Some o' => Some (o', snd r) | None => None end.

Fixpoint emplace_all (o : cobj) (xs : list Z) (e : ev) (w : world) : option (cobj * world) :=
  match xs with
  | [] => Some (o, w)
  | x :: t => match emplace_back o x e w with
              | Some r => emplace_all (fst r) t e (snd r)
              | None => None
              end
  end.

(* the elements of an object in index order *)
(* List.rev is quadratic *)
Definition frev (l : list Z) : list Z := rev_append l [].
Definition elems_of (o : cobj) : list Z := frev (c_mem o).

(* static_vector: insert(begin(), first, last) / move_insert(begin(), first, last) into an EMPTY vector, pointer source:
   TETL_PRECONDITION(size() + (last - first) <= capacity()); emplace_back each; rotate(begin(), begin(), end()) does nothing *)
Definition sv_append_range (o : cobj) (src : cobj) (e : ev) (w : world) : option (cobj * world) :=
  let w0 := chk (c_size src =? len src) (if c_size o =? 0 then w else outside w) in
  if c_size o + c_size src <=? capacity then emplace_all o (elems_of src) e w0 else None.

(* inplace_vector: uninitialized_copy / uninitialized_move(other.begin(), other.end(), begin()); _size = other._size *)
Definition iv_fill_from (o : cobj) (src : cobj) (e : ev) (w : world) : cobj * world :=
  ({| c_size := c_size src; c_live := c_live src + c_live o; c_mem := c_mem src ++ c_mem o |},
   tick e (c_size src) (chk ((len o =? 0) && (c_size src =? len src)) w)).

Definition mark_moved (o : cobj) : cobj := {| c_size := c_size o; c_live := c_live o; c_mem := map moved_val (c_mem o) |}.

(* the source of a move: static_vector keeps its (moved-from) elements; inplace_vector: other.clear(), unless the move
   constructor / assignment is the defaulted (trivial) one, which copies the bytes and leaves the source alone *)
Definition after_move_src (src : cobj) (w : world) : option (cobj * world) :=
  if is_iv && negb triv then clear (mark_moved src) w else Some (mark_moved src, w).

(* construction of a fresh object from src by copy / by move *)
Definition construct_from (src : cobj) (mv : bool) (w : world) : option (cobj * world) :=
  let e := if mv then e_mvc else ECc in
  if is_iv then Some (iv_fill_from cobj0 src e w) else sv_append_range cobj0 src e w.

(* { Vec c(src) } / { Vec c(move(src)) }: the result is the source afterwards *)
Definition scoped_from (src : cobj) (mv : bool) (w : world) : option (cobj * world) :=
  match construct_from src mv w with
  | None => None
  | Some r =>
      match (if mv then after_move_src src (snd r) else Some (src, snd r)) with
      | None => None
      | Some r2 => Some (fst r2, snd (destroy_all (fst r) (snd r2)))      (* ~Vec of c *)
      end
  end.

(* tgt = src / tgt = move(src) (different objects): clear(); insert / uninitialized_copy ...; returns (tgt, src) *)
Definition assign_from (tgt src : cobj) (mv : bool) (w : world) : option (cobj * cobj * world) :=
  let e := if mv then e_mvc else ECc in
  match clear tgt w with
  | None => None
  | Some r =>
      match (if is_iv then Some (iv_fill_from (fst r) src e (snd r)) else sv_append_range (fst r) src e (snd r)) with
      | None => None
      | Some r1 =>
          match (if mv then after_move_src src (snd r1) else Some (src, snd r1)) with
          | None => None
          | Some r2 => Some (fst r1, fst r2, snd r2)
          end
      end
  end.

(* erase(first, last): the iterator preconditions; first != last: etl::move(last, end(), first) (size() - l move
   assignments), the destructor on the last l - f slots, unsafe_set_size(size() - (last - first)) *)
Definition remove_range (m : list Z) (f l : Z) : list Z :=
  let xs := frev m in
  frev (firstn (Z.to_nat f) xs ++ skipn (Z.to_nat l) xs).
Definition erase_range (o : cobj) (f l : Z) (w : world) : option (cobj * world) :=
  if (0 <=? f) && (f <=? l) && (l <=? c_size o) then
    if f =? l then Some (o, w)
    else
      let w1 := tick EDt (l - f) (tick e_mva (c_size o - l) (chk (c_size o =? len o) w)) in
      match set_size {| c_size := c_size o; c_live := c_live o - (l - f); c_mem := remove_range (c_mem o) f l |} (c_size o - (l - f)) with
      | Some o' => Some (o', w1)
      | None => None
      end
  else None.

(* static_vector::emplace_n(n): TETL_PRECONDITION(n <= capacity()); while (n != size()) emplace_back(T{}):
   a temporary T{}, the element move-constructed from it, the temporary's destructor *)
Fixpoint emplace_defaults (fuel : nat) (o : cobj) (w : world) : option (cobj * world) :=
  match fuel with
  | O => Some (o, w)
  | S k => match emplace_back o 0 e_mvc (tick EVc 1 w) with
           | Some r => emplace_defaults k (fst r) (tick EDt 1 (snd r))
           | None => None
           end
  end.
Definition resize (o : cobj) (n : Z) (w : world) : option (cobj * world) :=
  if n =? c_size o then Some (o, w)
  else if c_size o <? n then
    if n <=? capacity then
      match emplace_defaults (Z.to_nat (n - c_size o)) o w with
      | Some r => Some (fst r, if n =? c_size (fst r) then snd r else outside (snd r))   (* the loop ends when size() == n *)
      | None => None
      end
    else None
  else erase_range o (c_size o - (c_size o - n)) (c_size o) w.

(* one element more, by the member of the family *)
Definition last_val (o : cobj) : option Z := match c_mem o with [] => None | x :: _ => Some x end.
Definition ascending (o : cobj) (x : Z) : bool := match last_val o with None => true | Some y => y <? x end.
Definition append_one (o : cobj) (x : Z) (w : world) : option (cobj * world) :=
  match kd with
  | KSv | KStack | KIv => emplace_back o x EVc w
  | KSet =>
      (* emplace(x) = insert(value_type(x)): the temporary; lower_bound = end() for a key above all present ones;
         full(): nothing; else _storage.push_back(move(value)) (its own !full() precondition), rotate(p, end() - 1, end())
         with p == end() - 1 does nothing; the temporary's destructor *)
      let w1 := tick EVc 1 (if ascending o x then w else outside w) in
      if c_size o =? cap then Some (o, tick EDt 1 w1)
      else match emplace_back o x e_mvc w1 with
           | Some r => Some (fst r, tick EDt 1 (snd r))
           | None => None
           end
  | KFlat =>
      (* emplace(x): auto key = Key{x}; lower_bound = end(); _container.emplace(end(), move(key)):
         TETL_PRECONDITION(!full()); value_type a(move(key)); move_insert(end(), &a, &a + 1): size() + 1 <= capacity();
         emplace_back(move(a)); rotate does nothing; ~a; ~key *)
      let w1 := tick EVc 1 (if ascending o x then w else outside w) in
      if c_size o =? cap then None
      else
        let w2 := tick e_mvc 1 w1 in
        if c_size o + 1 <=? capacity then
          match emplace_back o x e_mvc w2 with
          | Some r => Some (fst r, tick EDt 2 (snd r))
          | None => None
          end
        else None
  end.

Fixpoint fill (fuel : nat) (o : cobj) (x : Z) (w : world) : option (cobj * world) :=
  match fuel with
  | O => Some (o, w)
  | S k => match append_one o x w with
           | Some r => fill k (fst r) (x + 1) (snd r)
           | None => None
           end
  end.
Fixpoint pops (fuel : nat) (o : cobj) (w : world) : option (cobj * world) :=
  match fuel with
  | O => Some (o, w)
  | S k => match pop_back o w with
           | Some r => pops k (fst r) (snd r)
           | None => None
           end
  end.

(* a.swap(b): static_vector tmp = move(b); b = move(a); a = move(tmp); ~tmp *)
Definition swap_vec (a b : cobj) (w : world) : option (cobj * cobj * world) :=
  match construct_from b true w with
  | None => None
  | Some rt =>
      match assign_from (mark_moved b) a true (snd rt) with
      | None => None
      | Some rb =>         (* (b', a moved-from, w) *)
          match assign_from (snd (fst rb)) (fst rt) true (snd rb) with
          | None => None
          | Some ra =>     (* (a', tmp moved-from, w) *)
              Some (fst (fst ra), fst (fst rb), snd (destroy_all (snd (fst ra)) (snd ra)))
          end
      end
  end.

Record cst := { s_a : cobj; s_b : cobj; s_w : world }.
Definition cst0 : cst := {| s_a := cobj0; s_b := cobj0; s_w := world0 |}.
Definition sel (t : bool) (s : cst) : cobj := if t then s_b s else s_a s.
Definition upd (t : bool) (s : cst) (r : cobj * world) : cst :=
  if t then {| s_a := s_a s; s_b := fst r; s_w := snd r |} else {| s_a := fst r; s_b := s_b s; s_w := snd r |}.
Definition upd2 (t : bool) (s : cst) (r : cobj * cobj * world) : cst :=     (* (target, other, world) *)
  if t then {| s_a := snd (fst r); s_b := fst (fst r); s_w := snd r |}
  else {| s_a := fst (fst r); s_b := snd (fst r); s_w := snd r |}.
Definition not_here (s : cst) : option cst :=
  Some {| s_a := s_a s; s_b := s_b s; s_w := outside (s_w s) |}.

Definition has_erase : bool := match kd with KSv | KSet | KFlat => true | _ => false end.
Definition has_clear : bool := match kd with KStack => false | _ => true end.
Definition has_pop : bool := match kd with KSv | KIv | KStack => true | _ => false end.
Definition is_sv : bool := match kd with KSv => true | _ => false end.

(* None = a TETL_PRECONDITION fired *)
Definition cstep (s : cst) (o : cop) : option cst :=
  let w := s_w s in
  match o with
  | CFill t k x => option_map (upd t s) (fill (Z.to_nat k) (sel t s) x w)
  | CPop t k => if has_pop then option_map (upd t s) (pops (Z.to_nat k) (sel t s) w) else not_here s
  | CClear t => if has_clear then option_map (upd t s) (clear (sel t s) w) else not_here s
  | CErase t f l => if has_erase then option_map (upd t s) (erase_range (sel t s) f l w) else not_here s
  | CResize t n => if is_sv then option_map (upd t s) (resize (sel t s) n w) else not_here s
  | CCopyCtor t => option_map (upd t s) (scoped_from (sel t s) false w)
  | CMoveCtor t => option_map (upd t s) (scoped_from (sel t s) true w)
  | CCopyAssign t => option_map (upd2 t s) (assign_from (sel t s) (sel (negb t) s) false w)
  | CMoveAssign t => option_map (upd2 t s) (assign_from (sel t s) (sel (negb t) s) true w)
  | CSwap => if is_sv then option_map (upd2 false s) (swap_vec (s_a s) (s_b s) w) else not_here s
  end.

(* the states after each step; the history stops at a fired precondition *)
Fixpoint crun (s : cst) (ops : list cop) : list (option cst) :=
  match ops with
  | [] => []
  | o :: rest => match cstep s o with
                 | Some s' => Some s' :: crun s' rest
                 | None => [None]
                 end
  end.
Fixpoint clast (s : cst) (ops : list cop) : option cst :=
  match ops with
  | [] => Some s
  | o :: rest => match cstep s o with Some s' => clast s' rest | None => None end
  end.

(* the two destructors at the end of a history; what is left alive *)
Definition cfinal (s : cst) : cst :=
  let ra := destroy_all (s_a s) (s_w s) in
  let rb := destroy_all (s_b s) (snd ra) in
  {| s_a := fst ra; s_b := fst rb; s_w := snd rb |}.
Definition alive_of (s : cst) : Z := len (s_a s) + len (s_b s).
End M.

(** * what the correspondence prints: per object size(), the elements at the probe indices, their sum *)
Definition probes : list Z := [0; 1; 254; 255; 256; 257; 65534; 65535; 65536; 65537].
Definition zsum (l : list Z) : Z := fold_left Z.add l 0.
Definition probe_vals (xs : list Z) : list Z :=
  map (fun i => nth (Z.to_nat i) xs (-7)) (filter (fun i => i <? Z.of_nat (length xs)) probes).
(* what the harness reads are the slots [0, size()) *)
Definition cobs (o : cobj) : Z * list Z * Z :=
  let xs := firstn (Z.to_nat (c_size o)) (elems_of o) in
  (c_size o, probe_vals xs, zsum xs).

(* the model of the code: size_type = smallest_size_t<Capacity> *)
Definition crun_code (cap : Z) (fl : bool) (kd : kind) (triv : bool) (ops : list cop) : list (option cst) :=
  crun (size_cast cap) cap fl kd triv cst0 ops.
Definition clast_code (cap : Z) (fl : bool) (kd : kind) (triv : bool) (ops : list cop) : option cst :=
  clast (size_cast cap) cap fl kd triv cst0 ops.
(* the reference point: a count that is never converted (an ideal, unbounded size_type) *)
Definition crun_ideal (cap : Z) (fl : bool) (kd : kind) (triv : bool) (ops : list cop) : list (option cst) :=
  crun (fun n => n) cap fl kd triv cst0 ops.
