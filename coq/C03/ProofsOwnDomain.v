(* C03: the hypothesis "no contract fires in the model" of the variant / inplace_function theorems,
   discharged from the specification's domain: a variant history never stops; an inplace_function
   history completes when the specification (Spec.own_spec_run: never invoke an empty function)
   accepts it. *)
From Tetl Require Import Lib.Base C03.Trace C03.Model C03.ModelOwn C03.Spec.
From Coq Require Import Arith.
Local Open Scope nat_scope.

Definition is_fun_op (o : oop) : bool :=
  match o with
  | FAssign _ _ _ | FAssignCr _ _ _ | FAssignNull _ | FCopyAssign _ | FMoveAssign _ | FSelfCopyAssign _ | FSelfMoveAssign _
  | FCopyConstruct _ | FMoveConstruct _ | FSwap | FSelfSwap _ | FInvoke _ => true
  | _ => false
  end.

Section Domain.
Variable fl : bool.
Variable trk : nat -> bool.

(* variant / optional / expected: no operation has a precondition *)
Lemma step_var_done s m o : exists evs s', step_var fl trk false s m o = (evs, Done s').
Proof. destruct o; unfold step_var; cbv zeta; unfold bind, emit, ret; cbn [fst snd]; eexists; eexists; reflexivity. Qed.

Lemma var_run_completed ops : forall s m, completed (fst (fst (grun (step_own fl trk false) s m ops))) = true.
Proof.
  induction ops as [|o rest IH]; intros s m; cbn [grun]; [reflexivity|].
  unfold step_own at 1 2 3. destruct (step_var_done s m o) as [evs [s' E]]. rewrite E. cbn [fst snd].
  unfold completed in *. cbn [forallb fst snd]. apply IH.
Qed.

Lemma var_completed ops : own_completed fl trk false ops = true.
Proof. unfold own_completed, ghistory_completed. apply var_run_completed. Qed.

(* inplace_function: the model's state is the specification's state *)
Lemma step_fun_spec s m o : is_fun_op o = true ->
  match own_spec_step s o with
  | Some s' => exists evs, step_fun fl trk true s m o = (evs, Done s')
  | None => True
  end.
Proof.
  destruct o; cbn [is_fun_op]; try discriminate; intros _; cbn [own_spec_step]; unfold step_fun; cbv zeta;
    unfold bind, emit, ret, stop; cbn [fst snd]; try (eexists; reflexivity).
  destruct (sel t s =? 0); [exact I|eexists; reflexivity].
Qed.

Lemma fun_run_completed ops : forall s m s', forallb is_fun_op ops = true -> own_spec_run s ops = Some s' ->
  completed (fst (fst (grun (step_own fl trk true) s m ops))) = true.
Proof.
  induction ops as [|o rest IH]; intros s m s' Hf Hs; cbn [grun]; [reflexivity|].
  cbn [forallb] in Hf. apply andb_prop in Hf. destruct Hf as [Ho Hr].
  cbn [own_spec_run] in Hs. pose proof (step_fun_spec s m o Ho) as H.
  destruct (own_spec_step s o) as [s1|]; [|discriminate]. destruct H as [evs E].
  unfold step_own at 1 2 3. rewrite E. cbn [fst snd]. unfold completed in *. cbn [forallb fst snd].
  eapply IH; eassumption.
Qed.

Lemma fun_completed ops : forallb is_fun_op ops = true -> own_spec_verdict ops <> None ->
  own_completed fl trk true ops = true.
Proof.
  intros Hf Hv. unfold own_spec_verdict in Hv. destruct (own_spec_run (0, 0) ops) as [s'|] eqn:E; [|congruence].
  unfold own_completed, ghistory_completed. eapply fun_run_completed; eassumption.
Qed.

End Domain.
