(* C03 — each element is constructed once and destroyed once.  Property theorems for the owners of
   ONE contained object: etl::variant (and etl::optional = variant<nullopt_t, T>, etl::expected =
   variant<T, E> built on it) and etl::inplace_function — C03.ModelOwn.  For EVERY number of
   alternatives / callable types, EVERY choice [trk] of which alternatives are instrumented class
   types (the others have no special members to run), both element flavours, EVERY history of the
   operations of ModelOwn.oop on two objects, in all from/to index combinations. *)
From Tetl Require Import Lib.Base C03.Trace C03.Model C03.ModelOwn C03.Spec C03.ProofsRun C03.ProofsOwn C03.ProofsOwnStorage C03.ProofsOwnDomain C03.ProofsOwnSelf C03.ProofsMeetsSpec.

(* a history in which no precondition is violated (fn = true: no empty function is invoked),
   from the default construction of the two objects to their destructors: well formed, nothing alive *)
Theorem C03_own_lifecycle : forall (fl : bool) (trk : nat -> bool) (fn : bool) (ops : list oop),
  own_completed fl trk fn ops = true ->
  wf_trace (own_trace fl trk fn ops) = true /\ all_dead (own_trace fl trk fn ops) = true.
Proof. exact own_completed_lifecycle. Qed.
Print Assumptions C03_own_lifecycle.

(* every alternative of every object, every temporary, every caller-side object: constructed and
   destroyed alternately and equally often, touched only while it holds an object *)
Theorem C03_own_each_location_once : forall (fl : bool) (trk : nat -> bool) (fn : bool) (ops : list oop),
  own_completed fl trk fn ops = true ->
  forall l, once_each l (own_trace fl trk fn ops) /\
            constructions l (own_trace fl trk fn ops) = destructions l (own_trace fl trk fn ops).
Proof. exact own_completed_each_location_once. Qed.
Print Assumptions C03_own_each_location_once.

(* the shared storage: no alternative is constructed while another alternative of the same object
   is alive (cross-alternative emplace / assignment destroy first), nothing is assigned, destroyed
   or read while the storage holds no object *)
Theorem C03_own_storage_exclusive : forall (fl : bool) (trk : nat -> bool) (fn : bool) (ops : list oop),
  own_completed fl trk fn ops = true ->
  storage_wf (own_trace fl trk fn ops) = true.
Proof. exact own_completed_storage_wf. Qed.
Print Assumptions C03_own_storage_exclusive.

(* ANY history: every event up to the end or up to the contract check that stops it is legal *)
Theorem C03_own_prefix_wf : forall (fl : bool) (trk : nat -> bool) (fn : bool) (ops : list oop),
  wf_trace (own_init trk fn ++ events_of (fst (fst (grun (step_own fl trk fn) (0, 0) (exec_all [] (own_init trk fn)) ops)))) = true /\
  no_fuel (fst (fst (grun (step_own fl trk fn) (0, 0) (exec_all [] (own_init trk fn)) ops))) = true.
Proof. exact own_prefix_wf. Qed.
Print Assumptions C03_own_prefix_wf.

(* the hypothesis, from the specification: variant / optional / expected operations have no
   precondition; an inplace_function history is complete when the specification accepts it *)
Theorem C03_own_domain : forall (fl : bool) (trk : nat -> bool) (ops : list oop),
  own_completed fl trk false ops = true /\
  (forallb is_fun_op ops = true -> own_spec_verdict ops <> None -> own_completed fl trk true ops = true).
Proof. intros fl trk ops. split; [apply var_completed|apply fun_completed]. Qed.
Print Assumptions C03_own_domain.

(* the verdict printed by the correspondence is the one the specification expects *)
Theorem C03_own_verdict : forall (fl : bool) (trk : nat -> bool) (fn : bool) (ops : list oop),
  own_completed fl trk fn ops = true ->
  snd (own_run_case fl trk fn ops) = (true, 0).
Proof. exact own_completed_verdict. Qed.
Print Assumptions C03_own_verdict.

(* self copy/move assignment and self swap leave the live index and the value of the object
   unchanged (every self-operation of the history; the list the correspondence prints) *)
Theorem C03_own_self_identity : forall (fl : bool) (trk : nat -> bool) (fn : bool) (ops : list oop),
  own_completed fl trk fn ops = true ->
  own_self_checks fl trk fn ops = repeat true (own_count_self ops).
Proof. exact own_self_identity. Qed.
Print Assumptions C03_own_self_identity.

(* model = specification (verdict, self-operation identities, storage exclusivity); for
   inplace_function objects the history consists of inplace_function operations *)
Theorem C03_own_meets_spec : forall (fl : bool) (trk : nat -> bool) (fn : bool) (ops : list oop),
  (fn = true -> forallb is_fun_op ops = true) ->
  forall v, own_spec_verdict ops = Some v ->
  (snd (own_run_case fl trk fn ops), own_self_checks fl trk fn ops, storage_wf (own_trace fl trk fn ops)) = v.
Proof. exact own_meets_spec. Qed.
Print Assumptions C03_own_meets_spec.

Example C03_own_nonvacuous :
  own_completed true (trk_of [0; 2]) false
    [VEmplace false 2 7; VAssignRv true 0 3; VMoveAssign false; VSwap; VSelfSwap true; VCopyAssign true; VAssignTmp false 1 4;
     VScopedValue 2 9; VCopyIf true 0; VMoveIf false 2] = true /\
  own_completed true (trk_of [1; 2]) true
    [FAssign false 1 5; FAssign true 2 6; FCopyAssign false; FMoveAssign true; FSwap; FSelfMoveAssign true; FInvoke false;
     FAssignCr true 1 8; FInvoke true] = true.
Proof. split; vm_compute; reflexivity. Qed.
