(* C03: pair / tuple (C03.ModelAgg).  Invariant: every member of both objects is alive, nothing else. *)
From Tetl Require Import Lib.Base C03.Trace C03.Model C03.ModelAgg C03.ProofsTrace C03.ProofsGen C03.ProofsVec C03.ProofsRun C03.ProofsHist.
From Coq Require Import Arith ZifyBool.
Local Open Scope nat_scope.

Lemma legal_map_assign a c o (hk : loc -> how) js :
  (forall j, In j js -> a (Slot c j) = true /\ bsrc_ok a (hk (Slot o j)) = true) ->
  legal a (map (fun j => Assign (Slot c j) (hk (Slot o j))) js) a.
Proof.
  induction js as [|j t IH]; intros H; cbn [map]; [apply legal_nil|].
  eapply legal_cons.
  - destruct (H j (or_introl eq_refl)) as [H1 H2]. apply legal_assign; assumption.
  - apply IH. intros j' Hj'. apply H. right. exact Hj'.
Qed.

Lemma legal_map_destroy c js : NoDup js -> forall a,
  (forall j, In j js -> a (Slot c j) = true) ->
  legal a (map (fun j => Destroy (Slot c j)) js)
        (fun l => a l && negb (match l with Slot c' j => (c' =? c) && existsb (Nat.eqb j) js | _ => false end)).
Proof.
  induction 1 as [|j t Hnin Hnd IH]; intros a H; cbn [map].
  - eapply legal_post; [apply legal_nil|]. intros l. destruct l; cbn [existsb]; rewrite ?andb_false_r, ?andb_true_r; reflexivity.
  - eapply legal_cons; [apply legal_destroy; apply H; left; reflexivity|].
    eapply legal_post; [apply IH|].
    + intros j' Hj'. rewrite fupd_false. cbn [loc_eqb]. rewrite H by (right; exact Hj').
      destruct (Nat.eqb_spec j j') as [->|]; [contradiction|]. rewrite Nat.eqb_refl. reflexivity.
    + intros l. rewrite fupd_false. destruct l as [c' j'| |]; cbn [loc_eqb existsb]; try (rewrite ?andb_true_r; reflexivity).
      rewrite (Nat.eqb_sym j' j). destruct (c =? c') eqn:E1, (c' =? c) eqn:E2, (j =? j'), (existsb (Nat.eqb j') t), (a (Slot c' j'));
        cbn; try reflexivity; apply Nat.eqb_eq in E1 || apply Nat.eqb_eq in E2; subst; rewrite Nat.eqb_refl in *; discriminate.
Qed.

Lemma existsb_rev_seq j k : existsb (Nat.eqb j) (rev (seq 0 k)) = (j <? k).
Proof.
  destruct (Nat.ltb_spec j k) as [H|H].
  - apply existsb_exists. exists j. split; [apply in_rev; rewrite rev_involutive; apply in_seq; lia|apply Nat.eqb_refl].
  - destruct (existsb (Nat.eqb j) (rev (seq 0 k))) eqn:E; [|reflexivity].
    apply existsb_exists in E. destruct E as [x [Hx Hx2]]. apply Nat.eqb_eq in Hx2. subst x.
    apply in_rev in Hx. apply in_seq in Hx. lia.
Qed.

Lemma legal_cross_swaps a fl x y js :
  (forall j, In j js -> a (Slot x j) = true /\ a (Slot y j) = true) -> a (Temp 0) = false ->
  legal a (flat_map (fun j => swap_ev fl (Slot x j) (Slot y j)) js) a.
Proof.
  intros H Ht. induction js as [|j t IH]; cbn [flat_map]; [apply legal_nil|].
  eapply legal_app.
  - destruct (H j (or_introl eq_refl)) as [H1 H2]. apply legal_swap; assumption.
  - apply IH. intros j' Hj'. apply H. right. exact Hj'.
Qed.

(* caller-side objects destroyed in reverse order of construction *)
Lemma legal_ext_destroys_rev n : forall a,
  (forall j, j < n -> a (Ext j) = true) ->
  legal a (map (fun j => Destroy (Ext j)) (rev (seq 0 n)))
        (fun l => match l with Ext j => negb (j <? n) && a l | _ => a l end).
Proof.
  induction n as [|n IH]; intros a H.
  - cbn [seq rev map]. eapply legal_post; [apply legal_nil|]. intros l. destruct l; reflexivity.
  - rewrite seq_S, rev_app_distr. cbn [Nat.add rev app map].
    eapply legal_cons; [apply legal_destroy; apply H; lia|].
    eapply legal_post; [apply IH|].
    + intros j Hj. rewrite fupd_false. cbn [loc_eqb]. rewrite H by lia.
      destruct (Nat.eqb_spec n j); [lia|reflexivity].
    + intros l. rewrite fupd_false. destruct l as [c i|j|j]; cbn [loc_eqb]; try reflexivity.
      destruct (Nat.eqb_spec n j), (Nat.ltb_spec j n), (Nat.ltb_spec j (S n)); cbn [negb andb]; try reflexivity; lia.
Qed.

Lemma legal_map_assign_from a c (h : nat -> how) js :
  (forall j, In j js -> a (Slot c j) = true /\ bsrc_ok a (h j) = true) ->
  legal a (map (fun j => Assign (Slot c j) (h j)) js) a.
Proof.
  induction js as [|j t IH]; intros H; cbn [map]; [apply legal_nil|].
  eapply legal_cons.
  - destruct (H j (or_introl eq_refl)) as [H1 H2]. apply legal_assign; assumption.
  - apply IH. intros j' Hj'. apply H. right. exact Hj'.
Qed.

Section Agg.
Variable fl : bool.
Variable k : nat.

Definition shapeA : aliveness :=
  fun l => match l with Slot c j => (c <? 2) && (j <? k) | _ => false end.
Definition invA (s : nat * nat) (a : aliveness) : Prop := same a shapeA.
(* ... plus the caller-side objects e0 .. e(k-1) *)
Definition shapeAE : aliveness :=
  fun l => match l with Slot c j => (c <? 2) && (j <? k) | Ext j => j <? k | _ => false end.

Ltac pw_unfold ::= unfold shapeA, shapeAE, nothing; cbn [cid negb].

Lemma legal_agg_destroy a c : (forall j, j < k -> a (Slot c j) = true) ->
  legal a (agg_destroy k c) (fun l => a l && negb (in_range c 0 k l)).
Proof.
  intros H. unfold agg_destroy. eapply legal_post.
  - apply legal_map_destroy; [apply NoDup_rev, seq_NoDup|]. intros j Hj. apply H. apply in_rev in Hj. apply in_seq in Hj. lia.
  - intros l. destruct l as [c' j| |]; cbn [in_range Nat.leb]; try reflexivity. rewrite existsb_rev_seq, andb_true_r. reflexivity.
Qed.

Lemma agg_values_length c : length (agg_values k c) = k.
Proof. unfold agg_values. rewrite map_length, seq_length. reflexivity. Qed.

Lemma agg_init_legal : legal nothing (agg_init k) shapeA.
Proof.
  unfold agg_init. eapply legal_post.
  - eapply legal_app.
    + apply legal_constructs; [intros; reflexivity|]. intros h Hh. unfold agg_values in Hh. apply in_map_iff in Hh. destruct Hh as [j [<- _]]. reflexivity.
    + apply legal_constructs; [intros; reflexivity|]. intros h Hh. unfold agg_values in Hh. apply in_map_iff in Hh. destruct Hh as [j [<- _]]. reflexivity.
  - rewrite !agg_values_length. pwl l.
Qed.

Lemma agg_final_legal s a : invA s a -> legal a (agg_final k s) nothing.
Proof.
  unfold invA. intros Ha. unfold agg_final. eapply legal_post.
  - eapply legal_app; [apply legal_agg_destroy; intros j Hj; pw|].
    apply legal_agg_destroy. intros j Hj. pw.
  - pwl l.
Qed.

Lemma triple_done_a a evs a1 s :
  legal a evs a1 -> same a1 shapeA -> triple a (exe emit evs ; ret s) invA.
Proof.
  intros HL HS. eapply triple_bind.
  - eapply triple_emit_legal with (Q := fun _ a2 => same a2 a1); [exact HL|intros a2 H2; exact H2].
  - intros [] a2 H2. apply triple_ret. unfold invA. eapply same_trans; eassumption.
Qed.

(* e0 .. e(k-1) around a body that keeps the aliveness: legal, and nothing but the members is alive afterwards *)
Lemma legal_with_ext_agg a body :
  same a shapeA ->
  (forall a1, same a1 shapeAE -> legal a1 body a1) ->
  legal a (agg_with_ext k body) shapeA.
Proof.
  intros Ha Hb. unfold agg_with_ext.
  eapply legal_app.
  { eapply legal_post; [apply legal_ext_constructs; intros j _; pw|].
    instantiate (1 := shapeAE). unfold agg_ext_values. rewrite map_length, seq_length.
    intros l. destruct l as [c i|j|j]; unfold shapeAE; pw. }
  eapply legal_app; [apply Hb; apply same_refl|].
  eapply legal_post; [apply legal_ext_destroys_rev; intros j Hj; unfold shapeAE; pw|].
  intros l. destruct l as [c i|j|j]; unfold shapeAE; pw.
Qed.

Lemma step_agg_inv s m o a : invA s a -> triple a (step_agg fl k s m o) invA.
Proof.
  unfold invA. intros Ha. destruct o as [t|t|t|t|t|t| |t| | |t|t]; unfold step_agg; cbv zeta.
  - (* copy assignment *)
    eapply triple_done_a; [|exact Ha]. unfold agg_assign. apply legal_map_assign.
    intros j Hj. apply in_seq in Hj. split; [destruct t; pw|cbn; destruct t; pw].
  - eapply triple_done_a; [|exact Ha]. unfold agg_assign. apply legal_map_assign.
    intros j Hj. apply in_seq in Hj. split; [destruct t; pw|rewrite bsrc_ok_mv; destruct t; pw].
  - eapply triple_done_a; [|exact Ha]. unfold agg_assign. apply legal_map_assign.
    intros j Hj. apply in_seq in Hj. split; [destruct t; pw|cbn; destruct t; pw].
  - eapply triple_done_a; [|exact Ha]. unfold agg_assign. apply legal_map_assign.
    intros j Hj. apply in_seq in Hj. split; [destruct t; pw|rewrite bsrc_ok_mv; destruct t; pw].
  - (* scoped copy *)
    eapply triple_done_a.
    + eapply legal_app.
      * unfold agg_construct. apply legal_constructs; [intros i Hi; pw|].
        intros h Hh. apply in_map_iff in Hh. destruct Hh as [src [<- Hs]]. unfold slots in Hs. apply in_map_iff in Hs.
        destruct Hs as [j [<- Hj]]. apply in_seq in Hj. cbn. destruct t; pw.
      * apply legal_agg_destroy. intros j Hj. rewrite map_length, slots_length. pw.
    + rewrite map_length, slots_length. pwl l.
  - eapply triple_done_a.
    + eapply legal_app.
      * unfold agg_construct. apply legal_constructs; [intros i Hi; pw|].
        intros h Hh. apply in_map_iff in Hh. destruct Hh as [src [<- Hs]]. unfold slots in Hs. apply in_map_iff in Hs.
        destruct Hs as [j [<- Hj]]. apply in_seq in Hj. rewrite bsrc_ok_mv. destruct t; pw.
      * apply legal_agg_destroy. intros j Hj. rewrite map_length, slots_length. pw.
    + rewrite map_length, slots_length. pwl l.
  - (* swap *)
    eapply triple_done_a; [|exact Ha]. unfold agg_swap. apply legal_cross_swaps; [|pw].
    intros j Hj. apply in_seq in Hj. split; pw.
  - eapply triple_done_a; [|exact Ha]. unfold agg_swap. apply legal_cross_swaps; [|pw].
    intros j Hj. apply in_seq in Hj. split; destruct t; pw.
  - (* construction from k caller-side objects, by copy *)
    eapply triple_done_a; [apply legal_with_ext_agg; [exact Ha|]|apply same_refl].
    intros a1 H1. eapply legal_post.
    + eapply legal_app.
      * apply legal_constructs; [intros i Hi; rewrite H1; pw|].
        intros h Hh. apply in_map_iff in Hh. destruct Hh as [src [<- Hs]]. unfold exts in Hs. apply in_map_iff in Hs.
        destruct Hs as [j [<- Hj]]. apply in_seq in Hj. cbn. rewrite H1. pw.
      * apply legal_agg_destroy. intros j Hj. rewrite map_length. unfold exts. rewrite map_length, seq_length. pw.
    + rewrite map_length. unfold exts. rewrite map_length, seq_length. intros l. rewrite H1. destruct l as [c i|j|j]; pw.
  - (* ... by move *)
    eapply triple_done_a; [apply legal_with_ext_agg; [exact Ha|]|apply same_refl].
    intros a1 H1. eapply legal_post.
    + eapply legal_app.
      * apply legal_constructs; [intros i Hi; rewrite H1; pw|].
        intros h Hh. apply in_map_iff in Hh. destruct Hh as [src [<- Hs]]. unfold exts in Hs. apply in_map_iff in Hs.
        destruct Hs as [j [<- Hj]]. apply in_seq in Hj. rewrite bsrc_ok_mv. rewrite H1. pw.
      * apply legal_agg_destroy. intros j Hj. rewrite map_length. unfold exts. rewrite map_length, seq_length. pw.
    + rewrite map_length. unfold exts. rewrite map_length, seq_length. intros l. rewrite H1. destruct l as [c i|j|j]; pw.
  - (* assignment from k caller-side objects, by copy *)
    eapply triple_done_a; [apply legal_with_ext_agg; [exact Ha|]|apply same_refl].
    intros a1 H1. unfold agg_assign_ext. apply legal_map_assign_from.
    intros j Hj. apply in_seq in Hj. split; [rewrite H1; destruct t; pw|cbn; rewrite H1; pw].
  - eapply triple_done_a; [apply legal_with_ext_agg; [exact Ha|]|apply same_refl].
    intros a1 H1. unfold agg_assign_ext. apply legal_map_assign_from.
    intros j Hj. apply in_seq in Hj. split; [rewrite H1; destruct t; pw|rewrite bsrc_ok_mv; rewrite H1; pw].
Qed.

Lemma agg_ini_ok : fst (brun nothing (agg_init k)) = true.
Proof. apply agg_init_legal. Qed.
Lemma agg_inv_init : invA (k, k) (snd (brun nothing (agg_init k))).
Proof. apply agg_init_legal. Qed.

(* no operation has a precondition: every history completes *)
Lemma agg_run_completed ops : forall s m, completed (fst (fst (grun (step_agg fl k) s m ops))) = true.
Proof.
  induction ops as [|o rest IH]; intros s m; cbn [grun]; [reflexivity|].
  assert (E : exists evs, step_agg fl k s m o = (evs, Done s)).
  { destruct o; unfold step_agg; cbv zeta; unfold bind, emit, ret; cbn [fst snd]; eexists; reflexivity. }
  destruct E as [evs E]. rewrite E. cbn [fst snd]. unfold completed in *. cbn [forallb fst snd]. apply IH.
Qed.

Lemma agg_lifecycle ops :
  wf_trace (agg_trace fl k ops) = true /\ all_dead (agg_trace fl k ops) = true.
Proof.
  apply (gcompleted_lifecycle (step_agg fl k) (agg_final k) invA (k, k) (agg_init k)
           agg_ini_ok agg_inv_init step_agg_inv agg_final_legal ops).
  unfold ghistory_completed. apply agg_run_completed.
Qed.

Lemma agg_each_location_once ops :
  forall l, once_each l (agg_trace fl k ops) /\
            constructions l (agg_trace fl k ops) = destructions l (agg_trace fl k ops).
Proof. destruct (agg_lifecycle ops) as [H1 H2]. exact (wf_all_dead_once_each _ H1 H2). Qed.

Lemma agg_verdict ops : snd (agg_run_case fl k ops) = (true, 0).
Proof.
  apply (gcompleted_verdict (step_agg fl k) (agg_final k) obs_vec invA (k, k) (agg_init k)
           agg_ini_ok agg_inv_init step_agg_inv agg_final_legal ops).
  unfold ghistory_completed. apply agg_run_completed.
Qed.

End Agg.
