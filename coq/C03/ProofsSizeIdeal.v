(* C03, ModelSize.v: with a conversion that is the identity on 0..cap the model IS the model over an unconverted count
   (the spec leg of `bmon`): same states, same counters, same outcome, for every history from a good state. *)
From Tetl Require Import Lib.Base C03.ModelSize C03.ProofsSize.
From Coq Require Import ZifyBool.
Local Open Scope Z_scope.
Ltac Zify.zify_post_hook ::= Z.to_euclidean_division_equations.

Section Eq.
Variable cast : Z -> Z.
Variable cap : Z.
Variable fl : bool.
Variable kd : kind.
Variable triv : bool.
Hypothesis Hcap : 0 <= cap.
Hypothesis Hcast : forall n, 0 <= n <= cap -> cast n = n.

Notation id := (fun n : Z => n).
Notation good := (good cap).

Lemma Hid : forall n : Z, 0 <= n <= cap -> id n = n.
Proof. reflexivity. Qed.

Ltac gd E L := eapply L in E; [ | first [eassumption | exact Hcast | exact Hcap | exact Hid | (apply ok_tick; eassumption) | (apply mark_moved_good; eassumption) ] .. ].

Lemma set_size_eq o n : 0 <= n -> set_size cast cap o n = set_size id cap o n.
Proof. intros Hn. unfold set_size. destruct (n <=? cap) eqn:E; [|reflexivity]. rewrite Hcast by lia. reflexivity. Qed.

Lemma emplace_back_eq o x e w : good o -> emplace_back cast cap kd o x e w = emplace_back id cap kd o x e w.
Proof.
  intros (A & B & C). unfold emplace_back. destruct (c_size o =? cap) eqn:E; [reflexivity|].
  assert (Harg : (if is_iv kd then c_size o + 1 else cast (c_size o + 1)) = (if is_iv kd then c_size o + 1 else c_size o + 1)).
  { destruct (is_iv kd); [reflexivity|apply Hcast; lia]. }
  rewrite Harg. rewrite set_size_eq; [reflexivity|destruct (is_iv kd); lia].
Qed.

Lemma pop_back_eq o w : good o -> pop_back cast cap kd o w = pop_back id cap kd o w.
Proof.
  intros (A & B & C). unfold pop_back. destruct (c_size o =? 0) eqn:E; [reflexivity|].
  assert (Harg : (if is_iv kd then c_size o - 1 else cast (c_size o - 1)) = (if is_iv kd then c_size o - 1 else c_size o - 1)).
  { destruct (is_iv kd); [reflexivity|apply Hcast; lia]. }
  rewrite Harg. rewrite set_size_eq; [reflexivity|destruct (is_iv kd); lia].
Qed.

Lemma clear_eq o w : clear cast cap o w = clear id cap o w.
Proof. unfold clear. rewrite set_size_eq; [reflexivity|lia]. Qed.

Lemma emplace_all_eq xs : forall o e w, good o -> okw w ->
  emplace_all cast cap kd o xs e w = emplace_all id cap kd o xs e w.
Proof.
  induction xs as [|x t IH]; intros o e w G Hw; cbn [emplace_all]; [reflexivity|].
  rewrite <- emplace_back_eq by exact G.
  destruct (emplace_back cast cap kd o x e w) as [[o1 w1]|] eqn:E; [|reflexivity]. cbn [fst snd].
  gd E emplace_back_good. apply IH; tauto.
Qed.

Lemma capacity_eq : capacity cast cap = capacity id cap.
Proof. unfold capacity. apply Hcast. lia. Qed.

Lemma sv_append_range_eq o src e w : good o -> good src -> c_size o = 0 -> okw w ->
  sv_append_range cast cap kd o src e w = sv_append_range id cap kd o src e w.
Proof.
  intros G Gs Z0 Hw. unfold sv_append_range. rewrite capacity_eq.
  destruct (c_size o + c_size src <=? capacity id cap); [|reflexivity].
  apply emplace_all_eq; [exact G|].
  apply ok_chk. split.
  - assert (E0 : (c_size o =? 0) = true) by lia. rewrite E0. exact Hw.
  - destruct Gs as (A & B & C). unfold len. lia.
Qed.

Lemma after_move_src_eq src w : after_move_src cast cap fl kd triv src w = after_move_src id cap fl kd triv src w.
Proof. unfold after_move_src. destruct (is_iv kd && negb triv); [apply clear_eq|reflexivity]. Qed.

Lemma construct_from_eq src mv w : good src -> okw w ->
  construct_from cast cap fl kd src mv w = construct_from id cap fl kd src mv w.
Proof.
  intros G Hw. unfold construct_from. destruct (is_iv kd); [reflexivity|].
  apply sv_append_range_eq; [eapply good0; eassumption|exact G|reflexivity|exact Hw].
Qed.

Lemma scoped_from_eq src mv w : good src -> okw w ->
  scoped_from cast cap fl kd triv src mv w = scoped_from id cap fl kd triv src mv w.
Proof.
  intros G Hw. unfold scoped_from. rewrite construct_from_eq by assumption.
  destruct (construct_from id cap fl kd src mv w) as [[c w1]|]; [|reflexivity]. cbn [fst snd].
  destruct mv; [rewrite after_move_src_eq|]; reflexivity.
Qed.

Lemma assign_from_eq tgt src mv w : good tgt -> good src -> okw w ->
  assign_from cast cap fl kd triv tgt src mv w = assign_from id cap fl kd triv tgt src mv w.
Proof.
  intros Gt Gs Hw. unfold assign_from. rewrite clear_eq.
  destruct (clear id cap tgt w) as [[t0 w0]|] eqn:C; [|reflexivity]. cbn [fst snd].
  gd C clear_good. destruct C as (G0 & W0 & Z0 & _).
  destruct (is_iv kd).
  - destruct mv; [rewrite after_move_src_eq|]; reflexivity.
  - rewrite sv_append_range_eq by assumption.
    destruct (sv_append_range id cap kd t0 src _ w0) as [[t1 w1]|]; [|reflexivity]. cbn [fst snd].
    destruct mv; [rewrite after_move_src_eq|]; reflexivity.
Qed.

Lemma erase_range_eq o f l w : good o -> erase_range cast cap fl o f l w = erase_range id cap fl o f l w.
Proof.
  intros (A & B & C). unfold erase_range.
  destruct ((0 <=? f) && (f <=? l) && (l <=? c_size o)) eqn:E; [|reflexivity].
  destruct (f =? l); [reflexivity|]. rewrite set_size_eq; [reflexivity|lia].
Qed.

Lemma emplace_defaults_eq fuel : forall o w, good o -> okw w ->
  emplace_defaults cast cap fl kd fuel o w = emplace_defaults id cap fl kd fuel o w.
Proof.
  induction fuel as [|k IH]; intros o w G Hw; cbn [emplace_defaults]; [reflexivity|].
  rewrite <- emplace_back_eq by exact G.
  destruct (emplace_back cast cap kd o 0 (e_mvc fl) (tick EVc 1 w)) as [[o1 w1]|] eqn:E; [|reflexivity]. cbn [fst snd].
  gd E emplace_back_good.
  apply IH; [tauto|apply ok_tick; tauto].
Qed.

Lemma resize_eq o n w : good o -> okw w -> resize cast cap fl kd o n w = resize id cap fl kd o n w.
Proof.
  intros G Hw. unfold resize. rewrite capacity_eq, emplace_defaults_eq, erase_range_eq by assumption. reflexivity.
Qed.

Lemma append_one_eq o x w : good o -> append_one cast cap fl kd o x w = append_one id cap fl kd o x w.
Proof.
  intros G. unfold append_one. cbv zeta. rewrite capacity_eq. rewrite !emplace_back_eq by exact G. reflexivity.
Qed.

Lemma fill_eq fuel : forall o x w, good o -> okw w -> fill cast cap fl kd fuel o x w = fill id cap fl kd fuel o x w.
Proof.
  induction fuel as [|k IH]; intros o x w G Hw; cbn [fill]; [reflexivity|].
  rewrite <- append_one_eq by exact G.
  destruct (append_one cast cap fl kd o x w) as [[o1 w1]|] eqn:E; [|reflexivity]. cbn [fst snd].
  gd E append_one_good. apply IH; tauto.
Qed.

Lemma pops_eq fuel : forall o w, good o -> okw w -> pops cast cap kd fuel o w = pops id cap kd fuel o w.
Proof.
  induction fuel as [|k IH]; intros o w G Hw; cbn [pops]; [reflexivity|].
  rewrite <- pop_back_eq by exact G.
  destruct (pop_back cast cap kd o w) as [[o1 w1]|] eqn:E; [|reflexivity]. cbn [fst snd].
  gd E pop_back_good. apply IH; tauto.
Qed.

Lemma swap_vec_eq a b w : good a -> good b -> okw w ->
  swap_vec cast cap fl kd triv a b w = swap_vec id cap fl kd triv a b w.
Proof.
  intros Ga Gb Hw. unfold swap_vec. rewrite construct_from_eq by assumption.
  destruct (construct_from id cap fl kd b true w) as [[t wt]|] eqn:C; [|reflexivity]. cbn [fst snd].
  gd C construct_from_good. destruct C as (Gt & Wt & _ & _).
  rewrite assign_from_eq; [|apply mark_moved_good; exact Gb|exact Ga|exact Wt].
  destruct (assign_from id cap fl kd triv (mark_moved fl b) a true wt) as [[[b1 a1] w1]|] eqn:A1; [|reflexivity]. cbn [fst snd].
  gd A1 assign_from_good.
  destruct A1 as (Gb1 & Ga1 & W1 & _).
  rewrite assign_from_eq by assumption. reflexivity.
Qed.

Lemma cstep_eq s o : goods cap s -> cstep cast cap fl kd triv s o = cstep id cap fl kd triv s o.
Proof.
  intros G. pose proof G as (Ga & Gb & Gw).
  assert (S : forall t, good (sel t s)) by (intros t; apply sel_good; exact G).
  destruct o as [t k x|t k|t|t f l|t n|t|t|t|t|]; cbn [cstep].
  - rewrite fill_eq by (try apply S; exact Gw). reflexivity.
  - rewrite pops_eq by (try apply S; exact Gw). reflexivity.
  - rewrite clear_eq. reflexivity.
  - rewrite erase_range_eq by apply S. reflexivity.
  - rewrite resize_eq by (try apply S; exact Gw). reflexivity.
  - rewrite scoped_from_eq by (try apply S; exact Gw). reflexivity.
  - rewrite scoped_from_eq by (try apply S; exact Gw). reflexivity.
  - rewrite assign_from_eq by (try apply S; exact Gw). reflexivity.
  - rewrite assign_from_eq by (try apply S; exact Gw). reflexivity.
  - rewrite swap_vec_eq by assumption. reflexivity.
Qed.

Lemma crun_eq ops : forall s, goods cap s -> crun cast cap fl kd triv s ops = crun id cap fl kd triv s ops.
Proof.
  induction ops as [|o rest IH]; intros s G; cbn [crun]; [reflexivity|].
  rewrite <- cstep_eq by exact G.
  destruct (cstep cast cap fl kd triv s o) as [s'|] eqn:E; [|reflexivity].
  rewrite IH; [reflexivity|]. gd E cstep_good. exact E.
Qed.
End Eq.
