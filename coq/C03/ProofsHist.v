(* C03: whole histories of static_vector / inplace_vector.
   Invariant between two calls ([inv]): object 0 holds exactly its first [fst s] slots, object 1
   its first [snd s] slots, both sizes are within the capacity, and NOTHING else is alive (no
   temporary, no caller-side object, no slot of a step-local container).  Every operation of
   C03.Model.step keeps it and emits only legal events ([step_inv]); so every history is legal
   up to its end or up to the first contract violation, never runs out of fuel, and a completed
   history followed by the two destructors leaves nothing alive. *)
From Tetl Require Import Lib.Base C06a.Instances C03.Trace C03.Model C03.ProofsTrace C03.ProofsGen C03.ProofsVec C03.ProofsRun.
From Coq Require Import Arith ZifyBool.
Local Open Scope nat_scope.

Definition shape2 (s : nat * nat) : aliveness :=
  fun l => match l with
           | Slot c i => ((c =? 0) && (i <? fst s)) || ((c =? 1) && (i <? snd s))
           | _ => false
           end.

(* aliveness a plus the caller-side objects Ext 0 .. Ext (k-1) *)
Definition ext_on (a : aliveness) (k : nat) : aliveness :=
  fun l => match l with Ext j => (j <? k) || a l | _ => a l end.

Ltac pw_unfold ::= unfold shape2, ext_on, nothing; cbn [cid sel upd fst snd negb length].

Lemma legal_ext_constructs xs : forall k a,
  (forall j, k <= j -> a (Ext j) = false) ->
  legal a (ext_constructs k xs)
        (fun l => match l with Ext j => ((k <=? j) && (j <? k + length xs)) || a l | _ => a l end).
Proof.
  induction xs as [|x t IH]; intros k a H; cbn [ext_constructs length].
  - eapply legal_post; [apply legal_nil|]. pwl l.
  - eapply legal_cons; [apply legal_construct; [apply H; lia|reflexivity]|].
    eapply legal_post; [apply IH|].
    + intros j Hj. rewrite fupd_true. cbn [loc_eqb]. rewrite H by lia. lia.
    + pwl l.
Qed.

Lemma legal_ext_destroys n : forall k a,
  (forall j, k <= j < k + n -> a (Ext j) = true) ->
  legal a (map (fun l => Destroy l) (map Ext (seq k n)))
        (fun l => match l with Ext j => negb ((k <=? j) && (j <? k + n)) && a l | _ => a l end).
Proof.
  induction n as [|n IH]; intros k a H; cbn [seq map].
  - eapply legal_post; [apply legal_nil|]. pwl l.
  - eapply legal_cons; [apply legal_destroy; apply H; lia|].
    eapply legal_post; [apply IH|].
    + intros j Hj. rewrite fupd_false. cbn [loc_eqb]. rewrite H by lia. lia.
    + pwl l.
Qed.

(* T c(x)...; body; ~c : the body runs with the caller-side objects alive, they are gone afterwards *)
Lemma spec_with_ext c a xs (body : G nat) (P : nat -> Prop) :
  (forall j, a (Ext j) = false) ->
  (forall a1, same a1 (ext_on a (length xs)) -> triple a1 body (cpost c a1 P)) ->
  triple a (with_ext xs body) (cpost c a P).
Proof.
  intros Hx Hbody. unfold with_ext.
  eapply triple_bind.
  { eapply triple_emit_legal with (Q := fun _ a1 => same a1 (ext_on a (length xs))).
    - apply legal_ext_constructs. intros j _. apply Hx.
    - intros a2 H2. intros l. rewrite H2. destruct l as [c' i|k|k]; cbn [ext_on]; try reflexivity;
      rewrite Hx; cbn; lia. }
  intros [] a1 H1.
  eapply triple_bind; [apply Hbody; exact H1|]. intros r a2 [HP H2].
  eapply triple_bind.
  { eapply triple_emit_legal with
      (Q := fun _ a3 => same a3 (fun l => match l with Ext j => negb ((0 <=? j) && (j <? 0 + length xs)) && a2 l | _ => a2 l end)).
    - unfold ext_destroys, exts. apply legal_ext_destroys. intros j Hj. pw.
    - intros a3 H3. exact H3. }
  intros [] a3 H3. apply triple_ret. split; [exact HP|].
  intros l. destruct l as [c' i|k|k]; pw_rewrite; cbn [loc_eqb]; rewrite ?Hx; lia.
Qed.

Section Hist.
Variable fl : bool.
Variable cap : nat.
Variable iv : bool.

Definition inv (s : nat * nat) (a : aliveness) : Prop :=
  same a (shape2 s) /\ fst s <= cap /\ snd s <= cap.

Lemma inv_init : inv (0, 0) nothing.
Proof. split; [|cbn; lia]. intros l. destruct l as [c i|k|k]; unfold nothing, shape2; cbn [fst snd]; try reflexivity. lia. Qed.

(* a member of object t *)
Lemma spec_on (t : bool) s a (g : G nat) (P : nat -> Prop) :
  inv s a -> triple a g (cpost (cid t) a P) -> (forall n, P n -> n <= cap) ->
  triple a (do n <- g ; ret (upd t s n)) inv.
Proof.
  intros [Ha [H0 H1]] Hg HP.
  eapply triple_bind; [exact Hg|]. intros n a1 [Hn Hs]. apply triple_ret.
  specialize (HP n Hn). split.
  - intros l. destruct t, l as [c i|k|k]; pw_rewrite; cbn [cid upd fst snd loc_eqb]; lia.
  - destruct t; cbn [upd fst snd]; lia.
Qed.

(* a step-local container 2 built by [mk] and destroyed at the end of the step, object t untouched in size *)
Lemma legal_destructor2 a k : (forall i, a (Slot 2 i) = (i <? k)) ->
  legal a (destructor 2 k) (fun l => a l && negb (in_range 2 0 k l)).
Proof.
  intros H. unfold destructor. eapply legal_post; [apply legal_destroys; intros i Hi; rewrite H; lia|].
  intros l. reflexivity.
Qed.

Ltac inv_facts Hinv :=
  let Ha := fresh "Ha" in let H0 := fresh "Hsz0" in let H1 := fresh "Hsz1" in
  pose proof Hinv as [Ha [H0 H1]].

Ltac ptw := let l := fresh "l" in intros l; destruct l as [?c ?i|?k|?k]; pw_rewrite; cbn [cid sel upd fst snd negb loc_eqb]; lia.

Lemma spec_swap01 s a : inv s a -> triple a (swap_vec fl cap 0 (fst s) 1 (snd s)) inv.
Proof.
  intros Hinv. inv_facts Hinv. unfold swap_vec. cbn [Nat.eqb].
  eapply triple_bind.
  { apply spec_move_construct; [intros i; pw|intros i; pw|lia|pw]. }
  intros nt a1 [-> H1].
  eapply triple_bind.
  { apply spec_move_assign; [intros i; pw|intros i; pw|lia|lia|pw]. }
  intros nb a2 [-> H2].
  eapply triple_bind.
  { apply spec_move_assign; [intros i; pw|intros i; pw|lia|lia|pw]. }
  intros na a3 [-> H3].
  eapply triple_bind.
  { eapply triple_emit_legal with (Q := fun _ a4 => same a4 (fun l => a3 l && negb (in_range 2 0 (snd s) l))).
    - apply legal_destructor2. intros i. pw.
    - intros a4 H4. exact H4. }
  intros [] a4 H4. apply triple_ret. split; [|cbn [fst snd]; lia]. ptw.
Qed.

Lemma spec_self_swap (t : bool) s a : inv s a ->
  triple a (do r <- swap_vec fl cap (cid t) (sel t s) (cid t) (sel t s) ; ret (upd t s (fst r))) inv.
Proof.
  intros Hinv. inv_facts Hinv. unfold swap_vec. rewrite Nat.eqb_refl.
  eapply triple_bind.
  { eapply triple_bind.
    { apply spec_move_construct with (o := cid t) (m := sel t s); [intros i; pw|intros i; destruct t; pw|destruct t; cbn [sel]; lia|pw]. }
    intros nt a1 [-> H1].
    eapply triple_bind; [apply triple_ret with (Q := fun x a' => x = sel t s /\ a' = a1); split; reflexivity|].
    intros nb a1' [-> ->].
    eapply triple_bind.
    { apply spec_move_assign with (o := 2); [intros i; destruct t; pw|intros i; destruct t; pw|destruct t; cbn; lia|destruct t; cbn [sel]; lia|pw]. }
    intros na a3 [-> H3].
    eapply triple_bind.
    { eapply triple_emit_legal with (Q := fun _ a4 => same a4 (fun l => a3 l && negb (in_range 2 0 (sel t s) l))).
      - apply legal_destructor2. intros i. destruct t; pw.
      - intros a4 H4. exact H4. }
    intros [] a4 H4. apply triple_ret with (Q := fun r a' => fst r = sel t s /\ same a' a).
    split; [reflexivity|]. destruct t; ptw. }
  intros r a5 [Hr H5]. apply triple_ret. rewrite Hr. split.
  - destruct t; ptw.
  - destruct t; cbn [upd sel fst snd]; lia.
Qed.

(* { Vec c(...); }  : container 2 built from object t and destroyed *)
Lemma spec_scoped_copy (t : bool) s a (mk : G nat) :
  inv s a ->
  triple a mk (cpost 2 a (fun n' => n' = sel t s)) ->
  triple a (do k <- mk ; exe emit (destructor 2 k) ; ret s) inv.
Proof.
  intros Hinv Hmk. inv_facts Hinv.
  eapply triple_bind; [exact Hmk|]. intros k a1 [-> H1].
  eapply triple_bind.
  { eapply triple_emit_legal with (Q := fun _ a4 => same a4 (fun l => a1 l && negb (in_range 2 0 (sel t s) l))).
    - apply legal_destructor2. intros i. pw.
    - intros a4 H4. exact H4. }
  intros [] a4 H4. apply triple_ret. split; [|lia]. destruct t; ptw.
Qed.

(* a scoped third object built by [mk] and destroyed: nothing of it is left *)
Lemma spec_scoped_build a (mk : G nat) (P : nat -> Prop) :
  cshape a 2 0 -> triple a mk (cpost 2 a P) ->
  triple a (do n <- mk ; exe emit (destructor 2 n) ; ret 0) (cpost 2 a (fun n' => n' = 0)).
Proof.
  intros Hc Hmk.
  eapply triple_bind; [exact Hmk|]. intros k a1 [_ H1].
  eapply triple_bind.
  { eapply triple_emit_legal with (Q := fun _ a4 => same a4 (fun l => a1 l && negb (in_range 2 0 k l))).
    - apply legal_destructor2. intros i. pw.
    - intros a4 H4. exact H4. }
  intros [] a4 H4. apply triple_ret. split; [reflexivity|]. pwl l.
Qed.

Lemma spec_discard s a (g : G nat) : inv s a ->
  triple a g (cpost 2 a (fun n' => n' = 0)) -> triple a (do _ <- g ; ret s) inv.
Proof.
  intros Hinv Hg. inv_facts Hinv.
  eapply triple_bind; [exact Hg|]. intros n a1 [-> H1]. apply triple_ret. split; [|lia]. ptw.
Qed.

Lemma elems_length m c n : length (elems m c n) = n.
Proof. unfold elems. rewrite map_length, seq_length. reflexivity. Qed.

Lemma step_sv_inv s m o a : inv s a -> triple a (step_sv fl cap s m o) inv.
Proof.
  intros Hinv. inv_facts Hinv.
  assert (Hext : forall j, a (Ext j) = false) by (intros j; pw).
  unfold step_sv. cbv zeta.
  destruct o as [t x|t x|t x|t|t pos x|t pos x|t pos k x|t pos xs|t pos xs|t pos x|t pos|t f l|t|t k|t k x|t k x|t xs
                 | |t|t|t|t|t|t pid|t x|t|t|t|t x|t x|t x|t x|t x|t x|t|t|t|t|t|t|t x|t x|t x|t x|t x|t x|t x|t x|t|t xs|k|k x|xs|t pos xs|t pos xs|t xs|xs|xs];
    try (apply triple_ret; exact Hinv).
  - (* PushBackRv *)
    eapply spec_on with (P := fun n' => n' = S (sel t s) /\ n' <= cap); [exact Hinv| |lia].
    apply spec_with_ext; [exact Hext|]. intros a1 H1.
    apply spec_push_back; [intros i; destruct t; pw|destruct t; cbn [sel]; lia|rewrite bsrc_ok_mv; pw].
  - (* PushBackCr *)
    eapply spec_on with (P := fun n' => n' = S (sel t s) /\ n' <= cap); [exact Hinv| |lia].
    apply spec_with_ext; [exact Hext|]. intros a1 H1.
    apply spec_push_back; [intros i; destruct t; pw|destruct t; cbn [sel]; lia|cbn; pw].
  - (* EmplaceBack *)
    eapply spec_on with (P := fun n' => n' = S (sel t s) /\ n' <= cap); [exact Hinv| |lia].
    apply spec_emplace_back; [intros i; destruct t; pw|destruct t; cbn [sel]; lia|reflexivity].
  - (* PopBack *)
    eapply spec_on with (P := fun n' => n' = sel t s - 1 /\ 0 < sel t s); [exact Hinv| |destruct t; cbn [sel]; lia].
    apply spec_pop_back. intros i; destruct t; pw.
  - (* InsertCr *)
    eapply spec_on with (P := fun n' => n' = S (sel t s) /\ n' <= cap); [exact Hinv| |lia].
    apply spec_with_ext; [exact Hext|]. intros a1 H1.
    apply spec_insert_cr; [intros i; destruct t; pw|destruct t; cbn [sel]; lia|pw|pw].
  - (* InsertRv *)
    eapply spec_on with (P := fun n' => n' = S (sel t s) /\ n' <= cap); [exact Hinv| |lia].
    apply spec_with_ext; [exact Hext|]. intros a1 H1.
    apply spec_insert_rv; [intros i; destruct t; pw|destruct t; cbn [sel]; lia|pw|pw].
  - (* InsertN *)
    eapply spec_on with (P := fun n' => n' = sel t s + k /\ n' <= cap); [exact Hinv| |lia].
    apply spec_with_ext; [exact Hext|]. intros a1 H1.
    apply spec_insert_n; [intros i; destruct t; pw|destruct t; cbn [sel]; lia|pw|pw].
  - (* InsertRange *)
    eapply spec_on with (P := fun n' => n' = sel t s + length (exts (length xs)) /\ n' <= cap); [exact Hinv| |lia].
    apply spec_with_ext; [exact Hext|]. intros a1 H1.
    apply spec_insert_range; [intros i; destruct t; pw|destruct t; cbn [sel]; lia| |pw].
    intros src Hsrc. unfold exts in Hsrc. apply in_map_iff in Hsrc. destruct Hsrc as [j [<- Hj]]. apply in_seq in Hj. pw.
  - (* MoveInsertRange *)
    eapply spec_on with (P := fun n' => n' = sel t s + length (exts (length xs)) /\ n' <= cap); [exact Hinv| |lia].
    apply spec_with_ext; [exact Hext|]. intros a1 H1.
    apply spec_move_insert; [intros i; destruct t; pw|destruct t; cbn [sel]; lia| |pw].
    intros src Hsrc. unfold exts in Hsrc. apply in_map_iff in Hsrc. destruct Hsrc as [j [<- Hj]]. apply in_seq in Hj. pw.
  - (* EmplaceAt *)
    eapply spec_on with (P := fun n' => n' = S (sel t s) /\ n' <= cap); [exact Hinv| |lia].
    apply spec_emplace_at; [intros i; destruct t; pw|destruct t; cbn [sel]; lia|pw|pw].
  - (* EraseAt *)
    eapply spec_on with (P := fun n' => n' = sel t s - 1 /\ pos < sel t s); [exact Hinv| |destruct t; cbn [sel]; lia].
    apply spec_erase_at. intros i; destruct t; pw.
  - (* EraseRange *)
    eapply spec_on with (P := fun n' => n' = sel t s - (l - f) /\ f <= l <= sel t s); [exact Hinv| |destruct t; cbn [sel]; lia].
    apply spec_erase_range. intros i; destruct t; pw.
  - (* Clear *)
    eapply spec_on with (P := fun n' => n' = 0); [exact Hinv| |lia].
    apply spec_clear. intros i; destruct t; pw.
  - (* Resize *)
    eapply spec_on with (P := fun n' => n' = k /\ n' <= cap); [exact Hinv| |lia].
    apply spec_resize; [intros i; destruct t; pw|destruct t; cbn [sel]; lia|pw].
  - (* ResizeVal *)
    eapply spec_on with (P := fun n' => n' = k /\ n' <= cap); [exact Hinv| |lia].
    apply spec_with_ext; [exact Hext|]. intros a1 H1.
    apply spec_resize_val; [intros i; destruct t; pw|destruct t; cbn [sel]; lia|pw|pw].
  - (* AssignN *)
    eapply spec_on with (P := fun n' => n' = k /\ n' <= cap); [exact Hinv| |lia].
    apply spec_with_ext; [exact Hext|]. intros a1 H1.
    apply spec_assign_n; [intros i; destruct t; pw|pw|intros i; discriminate|pw].
  - (* AssignRange *)
    eapply spec_on with (P := fun n' => n' = length (exts (length xs)) /\ n' <= cap); [exact Hinv| |lia].
    apply spec_with_ext; [exact Hext|]. intros a1 H1.
    apply spec_assign_range; [intros i; destruct t; pw| |pw].
    intros src Hsrc. unfold exts in Hsrc. apply in_map_iff in Hsrc. destruct Hsrc as [j [<- Hj]]. apply in_seq in Hj.
    split; [pw|intros i; discriminate].
  - (* Swap *) apply spec_swap01. exact Hinv.
  - (* CopyAssign *)
    eapply spec_on with (P := fun n' => n' = sel (negb t) s); [exact Hinv| |destruct t; cbn [sel negb]; lia].
    apply spec_copy_assign; [intros i; destruct t; pw|intros i; destruct t; pw|destruct t; cbn; lia|destruct t; cbn [sel negb]; lia|pw].
  - (* MoveAssign *)
    eapply spec_on with (P := fun n' => n' = sel (negb t) s); [exact Hinv| |destruct t; cbn [sel negb]; lia].
    apply spec_move_assign; [intros i; destruct t; pw|intros i; destruct t; pw|destruct t; cbn; lia|destruct t; cbn [sel negb]; lia|pw].
  - (* CopyConstruct *)
    apply spec_scoped_copy with (t := t); [exact Hinv|].
    apply spec_copy_construct; [intros i; pw|intros i; destruct t; pw|destruct t; cbn [sel]; lia|pw].
  - (* MoveConstruct *)
    apply spec_scoped_copy with (t := t); [exact Hinv|].
    apply spec_move_construct; [intros i; pw|intros i; destruct t; pw|destruct t; cbn [sel]; lia|pw].
  - (* MoveRoundTrip *)
    eapply triple_bind.
    { apply spec_move_construct with (o := cid t) (m := sel t s); [intros i; pw|intros i; destruct t; pw|destruct t; cbn [sel]; lia|pw]. }
    intros k a1 [-> H1].
    eapply triple_bind.
    { apply spec_move_assign with (o := 2); [intros i; destruct t; pw|intros i; destruct t; pw|destruct t; cbn; lia|destruct t; cbn [sel]; lia|pw]. }
    intros n a2 [-> H2].
    eapply triple_bind.
    { eapply triple_emit_legal with (Q := fun _ a4 => same a4 (fun l => a2 l && negb (in_range 2 0 (sel t s) l))).
      - apply legal_destructor2. intros i. destruct t; pw.
      - intros a4 H4. exact H4. }
    intros [] a4 H4. apply triple_ret. split.
    + destruct t; ptw.
    + destruct t; cbn [upd sel fst snd]; lia.
  - (* EraseIf *)
    eapply spec_on with (P := fun n' => n' <= sel t s); [exact Hinv| |destruct t; cbn [sel]; lia].
    apply spec_erase_if; [intros i; destruct t; pw|apply elems_length].
  - (* EraseVal *)
    eapply spec_on with (P := fun n' => n' <= sel t s); [exact Hinv| |destruct t; cbn [sel]; lia].
    apply spec_with_ext; [exact Hext|]. intros a1 H1.
    apply spec_erase_if; [intros i; destruct t; pw|apply elems_length].
  - (* SelfSwap *) apply spec_self_swap. exact Hinv.
  - (* SetInsertRv *)
    eapply spec_on with (P := fun n' => n' <= cap); [exact Hinv| |lia].
    apply spec_with_ext; [exact Hext|]. intros a1 H1.
    apply spec_set_insert; [intros i; destruct t; pw|destruct t; cbn [sel]; lia|apply elems_length|pw|pw].
  - (* SetInsertCr *)
    eapply spec_on with (P := fun n' => n' <= cap); [exact Hinv| |lia].
    apply spec_with_ext; [exact Hext|]. intros a1 H1.
    apply spec_set_insert_tmp; [intros i; destruct t; pw|destruct t; cbn [sel]; lia|apply elems_length|cbn; pw|pw|pw].
  - (* SetEmplace *)
    eapply spec_on with (P := fun n' => n' <= cap); [exact Hinv| |lia].
    apply spec_set_insert_tmp; [intros i; destruct t; pw|destruct t; cbn [sel]; lia|apply elems_length|reflexivity|pw|pw].
  - (* SetEraseKey *)
    eapply spec_on with (P := fun n' => n' <= cap); [exact Hinv| |lia].
    apply spec_with_ext; [exact Hext|]. intros a1 H1.
    apply spec_set_erase_key; [intros i; destruct t; pw|destruct t; cbn [sel]; lia].
  - (* FlatInsertRv *)
    eapply spec_on with (P := fun n' => n' <= cap); [exact Hinv| |lia].
    apply spec_with_ext; [exact Hext|]. intros a1 H1.
    apply spec_flat_emplace; [intros i; destruct t; pw|destruct t; cbn [sel]; lia|rewrite bsrc_ok_mv; pw|pw|pw|pw].
  - (* FlatInsertCr *)
    eapply spec_on with (P := fun n' => n' <= cap); [exact Hinv| |lia].
    apply spec_with_ext; [exact Hext|]. intros a1 H1.
    apply spec_flat_emplace; [intros i; destruct t; pw|destruct t; cbn [sel]; lia|cbn; pw|pw|pw|pw].
  - (* FlatEmplace *)
    eapply spec_on with (P := fun n' => n' <= cap); [exact Hinv| |lia].
    apply spec_flat_emplace; [intros i; destruct t; pw|destruct t; cbn [sel]; lia|reflexivity|pw|pw|pw].
  - (* FlatEraseKey *)
    eapply spec_on with (P := fun n' => n' <= cap); [exact Hinv| |lia].
    apply spec_with_ext; [exact Hext|]. intros a1 H1.
    apply spec_flat_erase_key; [intros i; destruct t; pw|destruct t; cbn [sel]; lia].
  - (* FlatExtract *)
    eapply triple_bind.
    { apply spec_move_construct with (o := cid t) (m := sel t s); [intros i; pw|intros i; destruct t; pw|destruct t; cbn [sel]; lia|pw]. }
    intros k a1 [-> H1].
    eapply triple_bind.
    { apply spec_clear with (c := cid t) (n := sel t s). intros i; destruct t; pw. }
    intros n a2 [-> H2].
    eapply triple_bind.
    { eapply triple_emit_legal with (Q := fun _ a4 => same a4 (fun l => a2 l && negb (in_range 2 0 (sel t s) l))).
      - apply legal_destructor2. intros i. destruct t; pw.
      - intros a4 H4. exact H4. }
    intros [] a4 H4. apply triple_ret. split.
    + destruct t; ptw.
    + destruct t; cbn [upd sel fst snd]; lia.
  - (* FlatReplace *)
    eapply triple_bind.
    { apply spec_emplace_all with (c := 2) (n := 0); [intros i; pw|lia|].
      intros h Hh. apply in_map_iff in Hh. destruct Hh as [v [<- _]]. reflexivity. }
    intros k a1 [[-> Hk] H1]. rewrite map_length in *. cbn [Nat.add] in *.
    eapply triple_bind.
    { apply spec_move_assign with (o := 2) (m := length xs); [intros i; destruct t; pw|intros i; destruct t; pw|destruct t; cbn; lia|exact Hk|pw]. }
    intros n a2 [-> H2].
    eapply triple_bind.
    { eapply triple_emit_legal with (Q := fun _ a4 => same a4 (fun l => a2 l && negb (in_range 2 0 (length xs) l))).
      - apply legal_destructor2. intros i. destruct t; pw.
      - intros a4 H4. exact H4. }
    intros [] a4 H4. apply triple_ret. split.
    + destruct t; ptw.
    + destruct t; cbn [upd sel fst snd]; lia.
  - (* CtorN *)
    apply spec_discard; [exact Hinv|].
    eapply triple_bind; [apply triple_require'|]. intros [] ? [Hb ->].
    apply spec_scoped_build with (P := fun n' => n' = k /\ n' <= cap); [intros i; pw|].
    apply spec_emplace_n; [intros i; pw|lia|pw|lia].
  - (* CtorNVal *)
    apply spec_discard; [exact Hinv|].
    apply spec_with_ext; [exact Hext|]. intros a1 H1.
    eapply triple_bind; [apply triple_require'|]. intros [] ? [Hb ->].
    apply spec_scoped_build with (P := fun n' => n' = 0 + k /\ n' <= cap); [intros i; pw|].
    apply spec_insert_n; [intros i; pw|lia|pw|pw].
  - (* CtorRange *)
    apply spec_discard; [exact Hinv|].
    apply spec_with_ext; [exact Hext|]. intros a1 H1.
    eapply triple_bind; [apply triple_require'|]. intros [] ? [Hb ->].
    apply spec_scoped_build with (P := fun n' => n' = 0 + length (exts (length xs)) /\ n' <= cap); [intros i; pw|].
    apply spec_insert_range; [intros i; pw|lia| |pw].
    intros src Hsrc. unfold exts in Hsrc. apply in_map_iff in Hsrc. destruct Hsrc as [j [<- Hj]]. apply in_seq in Hj. pw.
  - (* InsertRangeFwd *)
    eapply spec_on with (P := fun n' => n' = sel t s + length (exts (length xs)) /\ n' <= cap); [exact Hinv| |lia].
    apply spec_with_ext; [exact Hext|]. intros a1 H1.
    apply spec_insert_range_fwd; [intros i; destruct t; pw|destruct t; cbn [sel]; lia| |pw].
    intros src Hsrc. unfold exts in Hsrc. apply in_map_iff in Hsrc. destruct Hsrc as [j [<- Hj]]. apply in_seq in Hj. pw.
  - (* MoveInsertRangeFwd *)
    eapply spec_on with (P := fun n' => n' = sel t s + length (exts (length xs)) /\ n' <= cap); [exact Hinv| |lia].
    apply spec_with_ext; [exact Hext|]. intros a1 H1.
    apply spec_move_insert_fwd; [intros i; destruct t; pw|destruct t; cbn [sel]; lia| |pw].
    intros src Hsrc. unfold exts in Hsrc. apply in_map_iff in Hsrc. destruct Hsrc as [j [<- Hj]]. apply in_seq in Hj. pw.
  - (* AssignRangeFwd *)
    eapply spec_on with (P := fun n' => n' = length (exts (length xs)) /\ n' <= cap); [exact Hinv| |lia].
    apply spec_with_ext; [exact Hext|]. intros a1 H1.
    apply spec_assign_range_fwd; [intros i; destruct t; pw| |pw].
    intros src Hsrc. unfold exts in Hsrc. apply in_map_iff in Hsrc. destruct Hsrc as [j [<- Hj]]. apply in_seq in Hj.
    split; [pw|intros i; discriminate].
  - (* CtorRangeFwd *)
    apply spec_discard; [exact Hinv|].
    apply spec_with_ext; [exact Hext|]. intros a1 H1.
    apply spec_scoped_build with (P := fun n' => n' = 0 + length (exts (length xs)) /\ n' <= cap); [intros i; pw|].
    apply spec_insert_range_fwd; [intros i; pw|lia| |pw].
    intros src Hsrc. unfold exts in Hsrc. apply in_map_iff in Hsrc. destruct Hsrc as [j [<- Hj]]. apply in_seq in Hj. pw.
  - (* CtorMoveArr *)
    apply spec_discard; [exact Hinv|].
    apply spec_with_ext; [exact Hext|]. intros a1 H1.
    apply spec_scoped_build with (P := fun n' => n' = 0 + length (exts (length xs)) /\ n' <= cap); [intros i; pw|].
    apply spec_move_insert; [intros i; pw|lia| |pw].
    intros src Hsrc. unfold exts in Hsrc. apply in_map_iff in Hsrc. destruct Hsrc as [j [<- Hj]]. apply in_seq in Hj. pw.
Qed.

Lemma step_iv_inv s m o a : inv s a -> triple a (step_iv fl cap s m o) inv.
Proof.
  intros Hinv. inv_facts Hinv.
  assert (Hext : forall j, a (Ext j) = false) by (intros j; pw).
  unfold step_iv. cbv zeta.
  destruct o as [t x|t x|t x|t|t pos x|t pos x|t pos k x|t pos xs|t pos xs|t pos x|t pos|t f l|t|t k|t k x|t k x|t xs
                 | |t|t|t|t|t|t pid|t x|t|t|t|t x|t x|t x|t x|t x|t x|t|t|t|t|t|t|t x|t x|t x|t x|t x|t x|t x|t x|t|t xs|k|k x|xs|t pos xs|t pos xs|t xs|xs|xs];
    try (apply triple_ret; exact Hinv).
  - (* PopBack *)
    eapply spec_on with (P := fun n' => n' = sel t s - 1 /\ 0 < sel t s); [exact Hinv| |destruct t; cbn [sel]; lia].
    apply spec_iv_pop_back. intros i; destruct t; pw.
  - (* Clear *)
    eapply spec_on with (P := fun n' => n' = 0); [exact Hinv| |lia].
    apply spec_iv_clear. intros i; destruct t; pw.
  - (* IvTryPushCr *)
    eapply spec_on with (P := fun n' => n' <= cap); [exact Hinv| |lia].
    apply spec_with_ext; [exact Hext|]. intros a1 H1.
    apply spec_iv_try_push; [intros i; destruct t; pw|destruct t; cbn [sel]; lia|cbn; pw].
  - (* IvTryPushRv *)
    eapply spec_on with (P := fun n' => n' <= cap); [exact Hinv| |lia].
    apply spec_with_ext; [exact Hext|]. intros a1 H1.
    apply spec_iv_try_push; [intros i; destruct t; pw|destruct t; cbn [sel]; lia|rewrite bsrc_ok_mv; pw].
  - (* IvTryEmplace *)
    eapply spec_on with (P := fun n' => n' <= cap); [exact Hinv| |lia].
    apply spec_iv_try_push; [intros i; destruct t; pw|destruct t; cbn [sel]; lia|reflexivity].
  - (* IvUncheckedPushCr *)
    eapply spec_on with (P := fun n' => n' = S (sel t s) /\ n' <= cap); [exact Hinv| |lia].
    apply spec_with_ext; [exact Hext|]. intros a1 H1.
    apply spec_iv_unchecked_push; [intros i; destruct t; pw|destruct t; cbn [sel]; lia|cbn; pw].
  - (* IvUncheckedPushRv *)
    eapply spec_on with (P := fun n' => n' = S (sel t s) /\ n' <= cap); [exact Hinv| |lia].
    apply spec_with_ext; [exact Hext|]. intros a1 H1.
    apply spec_iv_unchecked_push; [intros i; destruct t; pw|destruct t; cbn [sel]; lia|rewrite bsrc_ok_mv; pw].
  - (* IvUncheckedEmplace *)
    eapply spec_on with (P := fun n' => n' = S (sel t s) /\ n' <= cap); [exact Hinv| |lia].
    apply spec_iv_unchecked_push; [intros i; destruct t; pw|destruct t; cbn [sel]; lia|reflexivity].
  - (* IvCopyConstruct *)
    apply spec_scoped_copy with (t := t); [exact Hinv|].
    apply spec_iv_copy_construct; [intros i; pw|intros i; destruct t; pw].
  - (* IvMoveConstruct *)
    unfold iv_move_construct.
    eapply triple_bind.
    { eapply triple_bind.
      { eapply triple_emit_legal with
          (Q := fun _ a2 => same a2 (fun l => a l || in_range 2 0 (0 + length (map (mv fl) (slots (cid t) (sel t s)))) l)).
        - apply legal_constructs.
          + intros i Hi. pw.
          + intros h Hh. apply in_map_iff in Hh. destruct Hh as [src [<- Hs']]. rewrite bsrc_ok_mv.
            apply (slots_alive a (cid t) (sel t s)); [intros i; destruct t; pw|exact Hs'].
        - intros a2 H2. exact H2. }
      intros [] a1 H1. rewrite map_length, slots_length in H1.
      eapply triple_bind.
      { apply spec_iv_clear with (c := cid t) (n := sel t s). intros i; destruct t; pw. }
      intros m' a2 [-> H2].
      apply triple_ret with (Q := fun r a' => r = (sel t s, 0) /\ same a' (reshape (reshape a 2 (sel t s)) (cid t) 0)).
      split; [reflexivity|]. destruct t; ptw. }
    intros r a3 [-> H3]. cbn [fst snd].
    eapply triple_bind.
    { eapply triple_emit_legal with (Q := fun _ a4 => same a4 (fun l => a3 l && negb (in_range 2 0 (sel t s) l))).
      - apply legal_destructor2. intros i. destruct t; pw.
      - intros a4 H4. exact H4. }
    intros [] a4 H4. apply triple_ret. split.
    + destruct t; ptw.
    + destruct t; cbn [upd sel fst snd]; lia.
  - (* IvCopyAssign *)
    eapply spec_on with (P := fun n' => n' = sel (negb t) s); [exact Hinv| |destruct t; cbn [sel negb]; lia].
    apply spec_iv_copy_assign; [intros i; destruct t; pw|intros i; destruct t; pw|destruct t; cbn; lia].
  - (* IvMoveAssign *)
    eapply triple_bind.
    { apply spec_iv_move_assign with (c := cid t) (n := sel t s) (o := cid (negb t)) (m := sel (negb t) s);
        [intros i; destruct t; pw|intros i; destruct t; pw|destruct t; cbn; lia]. }
    intros r a3 [-> H3]. cbn [fst snd]. apply triple_ret. split.
    + destruct t; ptw.
    + destruct t; cbn [upd sel negb fst snd]; lia.
Qed.

Lemma step_inv s m o a : inv s a -> triple a (step fl cap iv s m o) inv.
Proof. intros H. unfold step. destruct iv; [apply step_iv_inv|apply step_sv_inv]; exact H. Qed.

(** * histories *)
Lemma legal_final s a : inv s a -> legal a (final_events s) nothing.
Proof.
  intros [Ha _]. unfold final_events, destructor.
  eapply legal_app.
  - apply legal_destroys. intros i Hi. pw.
  - eapply legal_post; [apply legal_destroys; intros i Hi; pw|]. ptw.
Qed.

(* every event up to the end of the history, or up to the contract violation that stops it, is legal *)
Lemma prefix_wf ops : wf_trace (events_of (fst (fst (run fl cap iv (0, 0) [] ops)))) = true.
Proof. exact (gprefix_wf (step fl cap iv) inv (0, 0) [] eq_refl inv_init step_inv ops). Qed.

Lemma never_out_of_fuel ops : no_fuel (fst (fst (run fl cap iv (0, 0) [] ops))) = true.
Proof. exact (gnever_out_of_fuel (step fl cap iv) inv (0, 0) [] inv_init step_inv ops). Qed.

Lemma completed_lifecycle ops : history_completed fl cap iv ops = true ->
  wf_trace (trace fl cap iv ops) = true /\ all_dead (trace fl cap iv ops) = true.
Proof. exact (gcompleted_lifecycle (step fl cap iv) final_events inv (0, 0) [] eq_refl inv_init step_inv legal_final ops). Qed.

Lemma completed_each_location_once ops : history_completed fl cap iv ops = true ->
  forall l, once_each l (trace fl cap iv ops) /\
            constructions l (trace fl cap iv ops) = destructions l (trace fl cap iv ops).
Proof. exact (gcompleted_each_location_once (step fl cap iv) final_events inv (0, 0) [] eq_refl inv_init step_inv legal_final ops). Qed.

Lemma completed_verdict ops : history_completed fl cap iv ops = true ->
  snd (run_case fl cap iv ops) = (true, 0).
Proof. exact (gcompleted_verdict (step fl cap iv) final_events obs_vec inv (0, 0) [] eq_refl inv_init step_inv legal_final ops). Qed.

End Hist.
