(* C03: histories, generically.  Given an invariant [inv] on (state, aliveness) that every step
   preserves while emitting only legal events, that holds initially and that makes the final
   destructor events legal and leaves nothing alive: every history is legal up to its end or the
   first contract violation, never runs out of fuel, and a completed history followed by the
   destructors is well formed and leaves nothing alive.  Also: the chunk-wise monitor of
   [Model.grun_case] computes the verdict of the automaton on the whole trace. *)
From Tetl Require Import Lib.Base C03.Trace C03.Model C03.ProofsTrace C03.ProofsGen.
From Coq Require Import Arith.
Local Open Scope nat_scope.

Definition no_fuel (steps : list (list event * oc (nat * nat))) : bool :=
  forallb (fun st => match snd st with Fuel => false | _ => true end) steps.

Definition events_of (steps : list (list event * oc (nat * nat))) : list event := concat (map fst steps).

Section Run.
Context {O : Type}.
Variable stp : nat * nat -> vmem -> O -> G (nat * nat).
Variable fin : nat * nat -> list event.
Variable obs : vmem -> nat * nat -> list Z * list Z.
Variable inv : nat * nat -> aliveness -> Prop.
Variable s0 : nat * nat.
Variable ini : list event.
Hypothesis ini_legal : fst (brun nothing ini) = true.
Hypothesis inv_init : inv s0 (snd (brun nothing ini)).
Hypothesis step_inv : forall s m o a, inv s a -> triple a (stp s m o) inv.
Hypothesis fin_legal : forall s a, inv s a -> legal a (fin s) nothing.

Lemma grun_legal ops : forall s m a, inv s a ->
  let r := grun stp s m ops in
  fst (brun a (events_of (fst (fst r)))) = true /\
  no_fuel (fst (fst r)) = true /\
  (completed (fst (fst r)) = true -> inv (snd (fst r)) (snd (brun a (events_of (fst (fst r)))))).
Proof.
  induction ops as [|o rest IH]; intros s m a Hinv; cbn [grun].
  - cbn. split; [reflexivity|]. split; [reflexivity|]. intros _. exact Hinv.
  - pose proof (step_inv s m o a Hinv) as [H1 H2].
    destruct (stp s m o) as [evs [s'| |]] eqn:E; cbn [fst snd] in *.
    + specialize (IH s' (exec_all m evs) _ H2). cbn zeta in IH. destruct IH as [I1 [I2 I3]].
      unfold events_of, no_fuel, completed in *. cbn [map concat forallb fst snd].
      rewrite brun_app. cbn [fst snd]. rewrite H1, I1, I2. split; [reflexivity|]. split; [reflexivity|].
      exact I3.
    + unfold events_of, no_fuel, completed. cbn [map concat forallb fst snd]. rewrite app_nil_r, H1.
      split; [reflexivity|]. split; [reflexivity|]. discriminate.
    + destruct H2.
Qed.

Lemma gprefix_wf ops : wf_trace (ini ++ events_of (fst (fst (grun stp s0 (exec_all [] ini) ops)))) = true.
Proof.
  apply wf_of_brun. rewrite brun_app. cbn [fst]. rewrite ini_legal.
  apply (grun_legal ops s0 (exec_all [] ini) _ inv_init).
Qed.

Lemma gnever_out_of_fuel ops : no_fuel (fst (fst (grun stp s0 (exec_all [] ini) ops))) = true.
Proof. apply (grun_legal ops s0 (exec_all [] ini) _ inv_init). Qed.

Lemma gcompleted_lifecycle ops : ghistory_completed stp s0 ini ops = true ->
  wf_trace (gtrace stp fin s0 ini ops) = true /\ all_dead (gtrace stp fin s0 ini ops) = true.
Proof.
  intros Hc. unfold ghistory_completed in Hc. unfold gtrace.
  destruct (grun_legal ops s0 (exec_all [] ini) _ inv_init) as [H1 [_ H3]]. specialize (H3 Hc).
  fold (events_of (fst (fst (grun stp s0 (exec_all [] ini) ops)))).
  set (r := grun stp s0 (exec_all [] ini) ops) in *.
  assert (HL : legal nothing (ini ++ events_of (fst (fst r)) ++ fin (snd (fst r))) nothing).
  { eapply legal_app; [split; [exact ini_legal|apply same_refl]|].
    eapply legal_app; [split; [exact H1|apply same_refl]|apply fin_legal; exact H3]. }
  destruct HL as [L1 L2]. split; [apply wf_of_brun; exact L1|apply all_dead_of_brun; assumption].
Qed.

Lemma gcompleted_each_location_once ops : ghistory_completed stp s0 ini ops = true ->
  forall l, once_each l (gtrace stp fin s0 ini ops) /\
            constructions l (gtrace stp fin s0 ini ops) = destructions l (gtrace stp fin s0 ini ops).
Proof.
  intros Hc. destruct (gcompleted_lifecycle ops Hc) as [H1 H2]. exact (wf_all_dead_once_each _ H1 H2).
Qed.

(** * the printed verdict *)
Lemma monitor_fst m evs : fst (fst (monitor m evs)) = fst (arun m evs).
Proof. apply monitor_arun. Qed.
Lemma monitor_snd m evs : snd (fst (monitor m evs)) = snd (arun m evs).
Proof. apply monitor_arun. Qed.

Lemma greports_run ops : forall s m a,
  let r := greports stp obs s m a ops in
  let q := grun stp s m ops in
  snd (fst r) = snd (fst q) /\
  forallb r_ok (fst (fst r)) = fst (arun a (events_of (fst (fst q)))) /\
  snd r = snd (arun a (events_of (fst (fst q)))) /\
  forallb r_done (fst (fst r)) = completed (fst (fst q)).
Proof.
  induction ops as [|o rest IH]; intros s m a; cbn [greports grun].
  - cbn. repeat split; reflexivity.
  - destruct (stp s m o) as [evs [s'| |]] eqn:E; cbn [fst snd].
    + specialize (IH s' (exec_all m evs) (snd (fst (monitor a evs)))). cbn zeta in IH.
      destruct IH as [I1 [I2 [I3 I4]]]. unfold events_of, completed in *. cbn [map concat forallb fst snd r_ok r_done].
      rewrite arun_app. cbn [fst snd]. rewrite I1, I2, I3, I4, monitor_fst, monitor_snd. repeat split; reflexivity.
    + unfold events_of, completed. cbn [map concat forallb fst snd r_ok r_done]. rewrite app_nil_r, monitor_fst, monitor_snd, !andb_true_r.
      repeat split; reflexivity.
    + unfold events_of, completed. cbn [map concat forallb fst snd r_ok r_done]. rewrite app_nil_r, monitor_fst, monitor_snd, !andb_true_r.
      repeat split; reflexivity.
Qed.

(* the verdict of grun_case is (wf_trace, number of live locations) of the whole trace *)
Lemma grun_case_verdict ops :
  snd (grun_case stp fin obs s0 ini ops) =
  (wf_trace (gtrace stp fin s0 ini ops), alive_count (final_state (gtrace stp fin s0 ini ops))).
Proof.
  unfold grun_case, gtrace, wf_trace, final_state. cbn [snd].
  destruct (greports_run ops s0 (exec_all [] ini) (snd (fst (monitor [] ini)))) as [H1 [H2 [H3 _]]]. cbn zeta in *.
  rewrite H1, H2, H3, !monitor_fst, !monitor_snd.
  fold (events_of (fst (fst (grun stp s0 (exec_all [] ini) ops)))).
  rewrite !arun_app. cbn [fst snd]. rewrite andb_assoc. reflexivity.
Qed.

Lemma gcompleted_verdict ops : ghistory_completed stp s0 ini ops = true ->
  snd (grun_case stp fin obs s0 ini ops) = (true, 0).
Proof.
  intros Hc. rewrite grun_case_verdict.
  destruct (gcompleted_lifecycle ops Hc) as [H1 H2]. rewrite H1.
  unfold all_dead in H2. rewrite (alive_count_zero _ H2). reflexivity.
Qed.

End Run.
