(* C03: what the model prints in the property leg of the correspondence is what the specification
   expects (model = spec), from the lifecycle, self-identity, storage and domain theorems. *)
From Tetl Require Import Lib.Base C03.Trace C03.Model C03.ModelOwn C03.ModelAgg C03.Spec C03.ProofsRun C03.ProofsHist C03.ProofsVecSelf C03.ProofsVecDomain
  C03.ProofsOwn C03.ProofsOwnStorage C03.ProofsOwnDomain C03.ProofsOwnSelf.

(* vectors: what the model prints in the `mon` leg is what the specification expects *)
Lemma vec_meets_spec fl cap iv ops : forallb (size_op iv) ops = true ->
  forall v, spec_verdict fl cap ops = Some v ->
  (snd (run_case fl cap iv ops), self_checks fl cap iv (0, 0) [] ops) = (fst v, snd v).
Proof.
  intros Hf v Hv.
  assert (Hc : history_completed fl cap iv ops = true) by (apply vec_domain; [exact Hf|congruence]).
  unfold spec_verdict in Hv. destruct (spec_run fl cap ([], []) ops); [|discriminate]. injection Hv as <-. cbn [fst snd].
  rewrite (completed_verdict fl cap iv ops Hc), (vec_self_identity fl cap iv ops Hc). reflexivity.
Qed.

Lemma own_meets_spec fl trk fn ops : (fn = true -> forallb is_fun_op ops = true) ->
  forall v, own_spec_verdict ops = Some v ->
  (snd (own_run_case fl trk fn ops), own_self_checks fl trk fn ops, storage_wf (own_trace fl trk fn ops)) = v.
Proof.
  intros Hf v Hv.
  assert (Hc : own_completed fl trk fn ops = true).
  { destruct fn; [apply fun_completed; [apply Hf; reflexivity|congruence]|apply var_completed]. }
  unfold own_spec_verdict in Hv. destruct (own_spec_run (0, 0) ops); [|discriminate]. injection Hv as <-.
  rewrite (own_completed_verdict fl trk fn ops Hc), (own_self_identity fl trk fn ops Hc), (own_completed_storage_wf fl trk fn ops Hc).
  reflexivity.
Qed.
