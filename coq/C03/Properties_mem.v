(* C03 — the uninitialized-memory algorithms under the containers (uninitialized_copy / _move / _fill),
   INCLUDING the path on which an element constructor throws (C03.ModelMem): property theorem. *)
From Tetl Require Import Lib.Base C03.Trace C03.Model C03.ModelMem C03.ProofsMem.

(* from ANY automaton state in which the destination slots hold no object and the sources are alive, for EVERY
   number of elements, EVERY kind of initialiser (copy / move / value) and EVERY position of the throwing
   constructor call (or none): every event is legal (no constructor over a live object, no destructor on dead
   storage); if the exception leaves the function NO destination slot holds an object - what had been built was
   destroyed exactly once - otherwise exactly the [length hs] destination slots hold one; nothing else changes
   its aliveness (a moved-from source stays a valid object) *)
Theorem C03_uninitialized_exception_safe : forall (m : amap) (c : nat) (hs : list how) (throw_at : option nat),
  (forall i, alive m (Slot c i) = false) ->
  (forall h, In h hs -> src_ok m h = true) ->
  let r := uninit c hs throw_at in
  fst (arun m (fst r)) = true /\
  (forall i, alive (snd (arun m (fst r))) (Slot c i) = negb (snd r) && (i <? length hs)) /\
  (forall l, (forall i, l <> Slot c i) -> alive (snd (arun m (fst r))) l = alive m l).
Proof. exact uninit_exception_safe. Qed.
Print Assumptions C03_uninitialized_exception_safe.

(* the hypotheses are satisfiable and the exception path is taken *)
Example C03_mem_nonvacuous :
  let m := snd (arun [] [Construct (Ext 0) (Value 1); Construct (Ext 1) (Value 2); Construct (Ext 2) (Value 3)]) in
  (forall i, alive m (Slot 2 i) = false) /\
  (forall h, In h [Move (Ext 0); Move (Ext 1); Move (Ext 2)] -> src_ok m h = true) /\
  uninit 2 [Move (Ext 0); Move (Ext 1); Move (Ext 2)] (Some 2) =
    ([Construct (Slot 2 0) (Move (Ext 0)); Construct (Slot 2 1) (Move (Ext 1)); Destroy (Slot 2 0); Destroy (Slot 2 1)], true).
Proof.
  split; [intros i; reflexivity|]. split; [|reflexivity].
  intros h [<-|[<-|[<-|[]]]]; reflexivity.
Qed.
