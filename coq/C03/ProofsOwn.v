(* C03: variant / optional / expected / inplace_function (C03.ModelOwn).
   Invariant between two calls: of object 0 exactly the alternative [fst s] is alive (when it is an
   instrumented type), of object 1 exactly [snd s], nothing else.  Every operation keeps it and
   emits only legal events. *)
From Tetl Require Import Lib.Base C03.Trace C03.Model C03.ModelOwn C03.ProofsTrace C03.ProofsGen C03.ProofsVec C03.ProofsRun.
From Coq Require Import Arith ZifyBool.
Local Open Scope nat_scope.

Lemma bool_cases (b : bool) : b = true \/ b = false.
Proof. destruct b; auto. Qed.

Section Own.
Variable fl : bool.
Variable trk : nat -> bool.
Variable fn : bool.

Notation eff := (eff trk fn).

Definition shapeO (s : nat * nat) : aliveness :=
  fun l => match l with
           | Slot c i => ((c =? 0) && (i =? fst s) && eff i) || ((c =? 1) && (i =? snd s) && eff i)
           | _ => false
           end.
Definition invO (s : nat * nat) (a : aliveness) : Prop := same a (shapeO s).

(* aliveness after a conditional event on alternative i of object c *)
Definition setl (a : aliveness) (l : loc) (b : bool) : aliveness :=
  fun x => (loc_eqb l x && b) || (negb (loc_eqb l x) && a x).

Lemma legal_dst a c i : a (Slot c i) = eff i -> legal a (dst trk fn c i) (setl a (Slot c i) false).
Proof.
  intros H. unfold dst, when. destruct (eff i) eqn:E.
  - eapply legal_post; [apply legal_destroy; exact H|]. intros x. unfold fupd, setl. destruct (loc_eqb (Slot c i) x); reflexivity.
  - eapply legal_post; [apply legal_nil|]. intros x. unfold setl. destruct (loc_eqb_spec (Slot c i) x) as [<-|]; cbn; [exact H|reflexivity].
Qed.

Lemma legal_con a c i h : a (Slot c i) = false -> (eff i = true -> bsrc_ok a h = true) ->
  legal a (con trk fn c i h) (setl a (Slot c i) (eff i)).
Proof.
  intros H Hs. unfold con, when. destruct (eff i) eqn:E.
  - eapply legal_post; [apply legal_construct; [exact H|apply Hs; reflexivity]|]. intros x. unfold fupd, setl. destruct (loc_eqb (Slot c i) x); reflexivity.
  - eapply legal_post; [apply legal_nil|]. intros x. unfold setl. destruct (loc_eqb_spec (Slot c i) x) as [<-|]; cbn; [exact H|reflexivity].
Qed.

Lemma legal_asg a c i h : a (Slot c i) = eff i -> (eff i = true -> bsrc_ok a h = true) ->
  legal a (asg trk fn c i h) a.
Proof.
  intros H Hs. unfold asg, when. destruct (eff i) eqn:E; [|apply legal_nil].
  apply legal_assign; [exact H|apply Hs; reflexivity].
Qed.

Lemma legal_use a c i : a (Slot c i) = eff i -> legal a (when trk fn i [Use (Slot c i)]) a.
Proof.
  intros H. unfold when. destruct (eff i) eqn:E; [|apply legal_nil].
  unfold legal. cbn [brun bstep fst snd]. rewrite H. split; [reflexivity|apply same_refl].
Qed.

(* the caller-side object Tj(x) *)
Lemma legal_ext_con a j x : a (Ext 0) = false ->
  legal a (when trk fn j [Construct (Ext 0) (Value x)]) (setl a (Ext 0) (eff j)).
Proof.
  intros H. unfold when. destruct (eff j) eqn:E.
  - eapply legal_post; [apply legal_construct; [exact H|reflexivity]|]. intros y. unfold fupd, setl. destruct (loc_eqb (Ext 0) y); reflexivity.
  - eapply legal_post; [apply legal_nil|]. intros y. unfold setl. destruct (loc_eqb_spec (Ext 0) y) as [<-|]; cbn; [exact H|reflexivity].
Qed.
Lemma legal_ext_dst a j : a (Ext 0) = eff j ->
  legal a (when trk fn j [Destroy (Ext 0)]) (setl a (Ext 0) false).
Proof.
  intros H. unfold when. destruct (eff j) eqn:E.
  - eapply legal_post; [apply legal_destroy; exact H|]. intros y. unfold fupd, setl. destruct (loc_eqb (Ext 0) y); reflexivity.
  - eapply legal_post; [apply legal_nil|]. intros y. unfold setl. destruct (loc_eqb_spec (Ext 0) y) as [<-|]; cbn; [exact H|reflexivity].
Qed.

Lemma triple_done a evs a1 s' :
  legal a evs a1 -> same a1 (shapeO s') -> triple a (exe emit evs ; ret s') invO.
Proof.
  intros HL HS. eapply triple_bind.
  - eapply triple_emit_legal with (Q := fun _ a2 => same a2 a1); [exact HL|intros a2 H2; exact H2].
  - intros [] a2 H2. apply triple_ret. unfold invO. eapply same_trans; eassumption.
Qed.

(* pointwise boolean goals: decide every index comparison, then every [eff] atom (no arithmetic) *)
Ltac norm_eqb :=
  repeat match goal with
         | |- context [Nat.eqb ?x ?x] => rewrite (Nat.eqb_refl x)
         | |- context [Nat.eqb ?x ?y] =>
             destruct (Nat.eqb_spec x y); [try first [subst x|subst y]|]; try congruence
         end.
Ltac bs :=
  cbn [loc_eqb bsrc_ok src_of fst snd];
  norm_eqb; cbn [andb orb negb];
  repeat match goal with H : eff _ = _ |- _ => rewrite H end;
  cbn [andb orb negb];
  repeat match goal with |- context [eff ?i] => destruct (eff i) end;
  cbn [andb orb negb]; first [reflexivity | congruence].
Ltac un :=
  unfold setl, shapeO; cbn [fst snd];
  repeat match goal with H : same ?a _ |- context [?a _] => rewrite !H end;
  unfold shapeO; cbn [fst snd].
Ltac side := intros; rewrite ?bsrc_ok_mv; cbn [bsrc_ok src_of]; first [reflexivity | un; bs].
Ltac leg :=
  first [ apply legal_nil
        | apply legal_dst; side
        | apply legal_con; side
        | apply legal_asg; side
        | apply legal_use; side
        | apply legal_ext_con; side
        | apply legal_ext_dst; side ].
Ltac legs := repeat (first [leg | eapply legal_app; [leg|]]).
Ltac fin := let l := fresh "l" in intros l; destruct l as [?c ?i|?k|?k]; un; bs.

Lemma eff0 : fn = true -> eff 0 = false.
Proof. intros H. unfold ModelOwn.eff. rewrite H. reflexivity. Qed.

Ltac prep :=
  cbn [cid sel upd negb fst snd]; unfold v_assign, ext_for, relocate;
  repeat match goal with
         | |- context [if Nat.eqb ?x ?y then _ else _] => destruct (Nat.eqb_spec x y); [try first [subst x|subst y]|]
         end;
  rewrite <- ?app_assoc.
Ltac solve_op :=
  first [ apply triple_ret; assumption
        | apply triple_stop
        | eapply triple_done; [legs|fin] ].

Lemma step_var_inv s m o a : invO s a -> triple a (step_var fl trk fn s m o) invO.
Proof.
  unfold invO. intros Ha. destruct s as [i0 i1].
  destruct o as [t j x|t j x|t j x|t j x|t j x|t|t|t|t|t|t| |t|t k x|t|t|t|t|t|t|t| |t|t|t j x|t j x|j x|t j|t j|t k x|t j x];
    unfold step_var; cbv zeta; try (apply triple_ret; exact Ha);
    try destruct t; prep; timeout 60 solve_op.
Qed.

Lemma step_fun_inv s m o a : fn = true -> invO s a -> triple a (step_fun fl trk fn s m o) invO.
Proof.
  unfold invO. intros Hfn Ha. pose proof (eff0 Hfn) as E0. destruct s as [i0 i1].
  destruct o as [t j x|t j x|t j x|t j x|t j x|t|t|t|t|t|t| |t|t k x|t|t|t|t|t|t|t| |t|t|t j x|t j x|j x|t j|t j|t k x|t j x];
    unfold step_fun; cbv zeta; try (apply triple_ret; exact Ha);
    try destruct t; prep; timeout 60 solve_op.
Qed.

Lemma own_init_legal : legal nothing (own_init trk fn) (shapeO (0, 0)).
Proof.
  assert (Ha : same nothing nothing) by apply same_refl.
  unfold own_init. eapply legal_post; [eapply legal_app; [apply legal_con; side|apply legal_con; side]|].
  fin.
Qed.

Lemma own_final_legal s a : invO s a -> legal a (own_final trk fn s) nothing.
Proof.
  unfold invO. intros Ha. destruct s as [i0 i1]. unfold own_final. cbn [fst snd].
  eapply legal_post; [eapply legal_app; [apply legal_dst; side|apply legal_dst; side]|].
  fin.
Qed.

Lemma step_own_inv s m o a : invO s a -> triple a (step_own fl trk fn s m o) invO.
Proof.
  intros Ha. unfold step_own.
  pose proof (step_fun_inv s m o a) as HF. pose proof (step_var_inv s m o a Ha) as HV.
  set (F := step_fun fl trk fn s m o) in *. set (V := step_var fl trk fn s m o) in *.
  destruct (bool_cases fn) as [Hfn|Hfn]; rewrite Hfn; [apply HF; assumption|exact HV].
Qed.

Lemma own_ini_ok : fst (brun nothing (own_init trk fn)) = true.
Proof. apply own_init_legal. Qed.
Lemma own_inv_init : invO (0, 0) (snd (brun nothing (own_init trk fn))).
Proof. apply own_init_legal. Qed.

Lemma own_prefix_wf ops :
  wf_trace (own_init trk fn ++ events_of (fst (fst (grun (step_own fl trk fn) (0, 0) (exec_all [] (own_init trk fn)) ops)))) = true /\
  no_fuel (fst (fst (grun (step_own fl trk fn) (0, 0) (exec_all [] (own_init trk fn)) ops))) = true.
Proof.
  split.
  - exact (gprefix_wf (step_own fl trk fn) invO (0, 0) (own_init trk fn) own_ini_ok own_inv_init step_own_inv ops).
  - exact (gnever_out_of_fuel (step_own fl trk fn) invO (0, 0) (own_init trk fn) own_inv_init step_own_inv ops).
Qed.

Lemma own_completed_lifecycle ops : own_completed fl trk fn ops = true ->
  wf_trace (own_trace fl trk fn ops) = true /\ all_dead (own_trace fl trk fn ops) = true.
Proof.
  exact (gcompleted_lifecycle (step_own fl trk fn) (own_final trk fn) invO (0, 0) (own_init trk fn)
           own_ini_ok own_inv_init step_own_inv own_final_legal ops).
Qed.

Lemma own_completed_each_location_once ops : own_completed fl trk fn ops = true ->
  forall l, once_each l (own_trace fl trk fn ops) /\
            constructions l (own_trace fl trk fn ops) = destructions l (own_trace fl trk fn ops).
Proof.
  exact (gcompleted_each_location_once (step_own fl trk fn) (own_final trk fn) invO (0, 0) (own_init trk fn)
           own_ini_ok own_inv_init step_own_inv own_final_legal ops).
Qed.

Lemma own_completed_verdict ops : own_completed fl trk fn ops = true ->
  snd (own_run_case fl trk fn ops) = (true, 0).
Proof.
  exact (gcompleted_verdict (step_own fl trk fn) (own_final trk fn) (obs_own trk fn) invO (0, 0) (own_init trk fn)
           own_ini_ok own_inv_init step_own_inv own_final_legal ops).
Qed.

End Own.
