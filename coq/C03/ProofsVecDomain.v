(* C03: the hypothesis "no contract check fires in the model" of the vector theorems, discharged
   from the specification's domain (Spec.spec_run: the documented preconditions decided on lists)
   for the operations whose outcome is determined by the SIZES of the two objects.  Excluded:
   erase_if / erase by value and the static_set / flat_set operations, whose resulting size depends
   on the element values (for them the link is tested by the correspondence run).
   Method: the outcome (Done n' / Stop) of every generator, without its events. *)
From Tetl Require Import Lib.Base C06a.Instances C03.Trace C03.Model C03.Spec C03.ProofsTrace C03.ProofsGen.
From Coq Require Import Arith Lia.
Local Open Scope nat_scope.

Lemma snd_bind {A B} (g : G A) (f : A -> G B) :
  snd (bind g f) = match snd g with Done a => snd (f a) | Stop => Stop | Fuel => Fuel end.
Proof. unfold bind. destruct (snd g); reflexivity. Qed.

Lemma snd_require b : snd (require b) = if b then Done tt else Stop.
Proof. destruct b; reflexivity. Qed.

Lemma snd_with_ext {A} xs (body : G A) : snd (with_ext xs body) = snd body.
Proof. unfold with_ext. rewrite !snd_bind. cbn [emit snd]. destruct (snd body); reflexivity. Qed.

Ltac sb := repeat (progress (rewrite ?snd_bind, ?snd_require, ?snd_with_ext; cbn [emit ret stop snd])).

(* decide every comparison of the goal, then arithmetic *)
Ltac cmp :=
  repeat match goal with
         | |- context [Nat.eqb ?a ?b] => destruct (Nat.eqb_spec a b)
         | |- context [Nat.leb ?a ?b] => destruct (Nat.leb_spec a b)
         | |- context [Nat.ltb ?a ?b] => destruct (Nat.ltb_spec a b)
         end; cbn [andb orb negb]; try reflexivity; try lia; try (f_equal; lia).

(** * list lengths on the specification side *)
Lemma length_ins l pos xs : pos <= length l -> length (ins l pos xs) = length l + length xs.
Proof. intros H. unfold ins. rewrite !app_length, firstn_length, skipn_length. lia. Qed.
Lemma length_del l f n : f + n <= length l -> length (del l f n) = length l - n.
Proof. intros H. unfold del. rewrite app_length, firstn_length, skipn_length. lia. Qed.
Lemma length_resized l k x : length (resized l k x) = k.
Proof. unfold resized. rewrite app_length, firstn_length, repeat_length. lia. Qed.
Lemma length_marked b l : length (marked b l) = length l.
Proof. unfold marked. destruct b; [apply map_length|reflexivity]. Qed.
Lemma length_removelast {A} (l : list A) : length (removelast l) = length l - 1.
Proof. destruct l as [|a t] using rev_ind; [reflexivity|]. rewrite removelast_last, app_length. cbn. lia. Qed.

Section Domain.
Variable fl : bool.
Variable cap : nat.

(** * outcomes of the static_vector members *)
Lemma o_emplace_back c n h : snd (emplace_back cap c n h) = if n =? cap then Stop else Done (S n).
Proof. unfold emplace_back. sb. destruct (n =? cap); cbn [negb]; sb; reflexivity. Qed.

Lemma o_push_back c n h : snd (push_back cap c n h) = if n =? cap then Stop else Done (S n).
Proof. unfold push_back. sb. destruct (n =? cap) eqn:E; cbn [negb]; [reflexivity|]. rewrite o_emplace_back, E. reflexivity. Qed.

Lemma o_pop_back c n : snd (pop_back c n) = if n =? 0 then Stop else Done (n - 1).
Proof. unfold pop_back. sb. destruct (n =? 0); cbn [negb]; sb; reflexivity. Qed.

Lemma o_emplace_all c hs : forall n, n <= cap ->
  snd (emplace_all cap c n hs) = if n + length hs <=? cap then Done (n + length hs) else Stop.
Proof.
  induction hs as [|h t IH]; intros n Hn; cbn [emplace_all length].
  - cbn [ret snd]. rewrite Nat.add_0_r. cmp.
  - sb. rewrite o_emplace_back. destruct (Nat.eqb_spec n cap) as [->|N]; [cmp|].
    rewrite IH by lia. replace (S n + length t) with (n + S (length t)) by lia. reflexivity.
Qed.

Lemma o_push_all c hs : forall n, n <= cap ->
  snd (push_all cap c n hs) = if n + length hs <=? cap then Done (n + length hs) else Stop.
Proof.
  induction hs as [|h t IH]; intros n Hn; cbn [push_all length].
  - cbn [ret snd]. rewrite Nat.add_0_r. cmp.
  - sb. rewrite o_push_back. destruct (Nat.eqb_spec n cap) as [->|N]; [cmp|].
    rewrite IH by lia. replace (S n + length t) with (n + S (length t)) by lia. reflexivity.
Qed.

Lemma o_rotate c f nf l : f <= nf <= l -> snd (rotate_g fl c f nf l) = Done tt.
Proof.
  intros H. unfold rotate_g. destruct (rot_m_spec (S (l - f)) f nf l H ltac:(lia)) as [ps [E _]]. rewrite E. reflexivity.
Qed.

Lemma o_move_insert c n pos srcs : n <= cap ->
  snd (move_insert fl cap c n pos srcs) =
  if (pos <=? n) && (n + length srcs <=? cap) then Done (n + length srcs) else Stop.
Proof.
  intros Hn. unfold move_insert. sb.
  destruct (Nat.leb_spec pos n); cbn [andb]; [|reflexivity]. sb.
  destruct (Nat.leb_spec (n + length srcs) cap); [|reflexivity]. sb.
  rewrite o_emplace_all, map_length by exact Hn.
  destruct (Nat.leb_spec (n + length srcs) cap); [|lia]. sb. rewrite o_rotate by lia. reflexivity.
Qed.

Lemma o_insert_range c n pos srcs : n <= cap ->
  snd (insert_range fl cap c n pos srcs) =
  if (pos <=? n) && (n + length srcs <=? cap) then Done (n + length srcs) else Stop.
Proof.
  intros Hn. unfold insert_range. sb.
  destruct (Nat.leb_spec pos n); cbn [andb]; [|reflexivity]. sb.
  destruct (Nat.leb_spec (n + length srcs) cap); [|reflexivity]. sb.
  rewrite o_emplace_all, map_length by exact Hn.
  destruct (Nat.leb_spec (n + length srcs) cap); [|lia]. sb. rewrite o_rotate by lia. reflexivity.
Qed.

Lemma o_move_insert_fwd c n pos srcs : n <= cap ->
  snd (move_insert_fwd fl cap c n pos srcs) =
  if (pos <=? n) && (n + length srcs <=? cap) then Done (n + length srcs) else Stop.
Proof.
  intros Hn. unfold move_insert_fwd. sb.
  destruct (Nat.leb_spec pos n); cbn [andb]; [|reflexivity]. sb.
  rewrite o_emplace_all, map_length by exact Hn.
  destruct (Nat.leb_spec (n + length srcs) cap); [|reflexivity]. sb. rewrite o_rotate by lia. reflexivity.
Qed.

Lemma o_insert_range_fwd c n pos srcs : n <= cap ->
  snd (insert_range_fwd fl cap c n pos srcs) =
  if (pos <=? n) && (n + length srcs <=? cap) then Done (n + length srcs) else Stop.
Proof.
  intros Hn. unfold insert_range_fwd. sb.
  destruct (Nat.leb_spec pos n); cbn [andb]; [|reflexivity]. sb.
  rewrite o_emplace_all, map_length by exact Hn.
  destruct (Nat.leb_spec (n + length srcs) cap); [|reflexivity]. sb. rewrite o_rotate by lia. reflexivity.
Qed.

Lemma o_insert_n c n pos k src : n <= cap ->
  snd (insert_n fl cap c n pos k src) = if (pos <=? n) && (n + k <=? cap) then Done (n + k) else Stop.
Proof.
  intros Hn. unfold insert_n. sb.
  destruct (Nat.leb_spec pos n); cbn [andb]; [|reflexivity]. sb.
  destruct (Nat.leb_spec (n + k) cap); [|reflexivity]. sb.
  rewrite o_push_all, repeat_length by exact Hn.
  destruct (Nat.leb_spec (n + k) cap); [|lia]. sb. rewrite o_rotate by lia. reflexivity.
Qed.

Lemma o_insert_rv c n pos src : n <= cap ->
  snd (insert_rv fl cap c n pos src) = if negb (n =? cap) && (pos <=? n) then Done (S n) else Stop.
Proof.
  intros Hn. unfold insert_rv. sb. destruct (Nat.eqb_spec n cap); cbn [negb andb]; [reflexivity|]. sb.
  destruct (Nat.leb_spec pos n); [|reflexivity]. sb. rewrite o_move_insert by exact Hn. cbn [length]. cmp.
Qed.

Lemma o_insert_cr c n pos src : n <= cap ->
  snd (insert_cr fl cap c n pos src) = if negb (n =? cap) && (pos <=? n) then Done (S n) else Stop.
Proof.
  intros Hn. unfold insert_cr. sb. destruct (Nat.eqb_spec n cap); cbn [negb andb]; [reflexivity|]. sb.
  destruct (Nat.leb_spec pos n); [|reflexivity]. sb. rewrite o_insert_n by exact Hn. cmp.
Qed.

Lemma o_emplace_at c n pos x : n <= cap ->
  snd (emplace_at fl cap c n pos x) = if negb (n =? cap) && (pos <=? n) then Done (S n) else Stop.
Proof.
  intros Hn. unfold emplace_at, emplace_at_h. sb. destruct (Nat.eqb_spec n cap); cbn [negb andb]; [reflexivity|]. sb.
  destruct (Nat.leb_spec pos n); [|reflexivity]. sb. rewrite o_move_insert by exact Hn. cbn [length].
  destruct (Nat.leb_spec pos n); [|lia]. destruct (Nat.leb_spec (n + 1) cap); [|lia]. cbn [andb]. sb. f_equal. lia.
Qed.

Lemma o_clear c n : snd (clear c n) = Done 0.
Proof. unfold clear. sb. reflexivity. Qed.

Lemma o_erase_range c n f l :
  snd (erase_range fl c n f l) = if (f <=? l) && (l <=? n) then Done (n - (l - f)) else Stop.
Proof.
  unfold erase_range. sb.
  destruct (Nat.leb_spec f n), (Nat.leb_spec l n), (Nat.leb_spec f l); cbn [andb]; sb; try reflexivity; try lia.
  destruct (Nat.eqb_spec f l); sb; f_equal; lia.
Qed.

Lemma o_erase_at c n pos : snd (erase_at fl c n pos) = if pos <? n then Done (n - 1) else Stop.
Proof.
  unfold erase_at. sb. destruct (Nat.leb_spec pos n); sb; [rewrite o_erase_range|]; cmp.
Qed.

Lemma o_emplace_defaults c iters : forall n, n + iters <= cap ->
  snd (emplace_defaults fl cap c n iters) = Done (n + iters).
Proof.
  induction iters as [|k IH]; intros n H; cbn [emplace_defaults].
  - cbn [ret snd]. f_equal. lia.
  - sb. rewrite o_emplace_back. destruct (Nat.eqb_spec n cap); [lia|]. sb. rewrite IH by lia. f_equal. lia.
Qed.

Lemma o_emplace_n c n k : n <= k -> snd (emplace_n fl cap c n k) = if k <=? cap then Done k else Stop.
Proof.
  intros H. unfold emplace_n. sb. destruct (Nat.leb_spec k cap); [|reflexivity]. sb.
  rewrite o_emplace_defaults by lia. f_equal. lia.
Qed.

Lemma o_resize c n k : n <= cap -> snd (resize fl cap c n k) = if k <=? cap then Done k else Stop.
Proof.
  intros Hn. unfold resize. destruct (Nat.eqb_spec k n) as [->|N]; [cbn [ret snd]; cmp|].
  destruct (Nat.ltb_spec n k).
  - unfold emplace_n. sb. destruct (Nat.leb_spec k cap); [|reflexivity]. sb.
    rewrite o_emplace_defaults by lia. f_equal. lia.
  - rewrite o_erase_range. cmp.
Qed.

Lemma o_resize_val c n k src : n <= cap -> snd (resize_val fl cap c n k src) = if k <=? cap then Done k else Stop.
Proof.
  intros Hn. unfold resize_val. destruct (Nat.eqb_spec k n) as [->|N]; [cbn [ret snd]; cmp|].
  destruct (Nat.ltb_spec n k).
  - sb. destruct (Nat.leb_spec k cap); [|reflexivity]. sb. rewrite o_insert_n by exact Hn. cmp.
  - rewrite o_erase_range. cmp.
Qed.

Lemma o_assign_n c n k src : snd (assign_n fl cap c n k src) = if k <=? cap then Done k else Stop.
Proof.
  unfold assign_n. sb. destruct (Nat.leb_spec k cap); [|reflexivity]. sb. rewrite o_clear. sb.
  rewrite o_insert_n by lia. cmp.
Qed.

Lemma o_assign_range c n srcs :
  snd (assign_range fl cap c n srcs) = if length srcs <=? cap then Done (length srcs) else Stop.
Proof.
  unfold assign_range. sb. destruct (Nat.leb_spec (length srcs) cap); [|reflexivity]. sb. rewrite o_clear. sb.
  rewrite o_insert_range by lia. cmp.
Qed.

Lemma o_assign_range_fwd c n srcs :
  snd (assign_range_fwd fl cap c n srcs) = if length srcs <=? cap then Done (length srcs) else Stop.
Proof.
  unfold assign_range_fwd. sb. rewrite o_clear. sb. rewrite o_insert_range_fwd by lia. cmp.
Qed.

Lemma slots_len o m : length (slots o m) = m.
Proof. unfold slots. rewrite map_length, seq_length. reflexivity. Qed.

Lemma o_copy_construct c o m : m <= cap -> snd (copy_construct fl cap c o m) = Done m.
Proof. intros H. unfold copy_construct. rewrite o_insert_range, slots_len by lia. cmp. Qed.
Lemma o_move_construct c o m : m <= cap -> snd (move_construct fl cap c o m) = Done m.
Proof. intros H. unfold move_construct. rewrite o_move_insert, slots_len by lia. cmp. Qed.
Lemma o_copy_assign c n o m : m <= cap -> snd (copy_assign fl cap c n o m) = Done m.
Proof. intros H. unfold copy_assign. sb. rewrite o_clear. sb. rewrite o_insert_range, slots_len by lia. cmp. Qed.
Lemma o_move_assign c n o m : m <= cap -> snd (move_assign fl cap c n o m) = Done m.
Proof. intros H. unfold move_assign. sb. rewrite o_clear. sb. rewrite o_move_insert, slots_len by lia. cmp. Qed.

Lemma o_swap_distinct a na b nb : (a =? b) = false -> na <= cap -> nb <= cap ->
  snd (swap_vec fl cap a na b nb) = Done (nb, na).
Proof.
  intros E Ha Hb. unfold swap_vec. rewrite E. sb. rewrite o_move_construct by exact Hb. sb.
  rewrite o_move_assign by exact Ha. sb. rewrite o_move_assign by exact Hb. sb. reflexivity.
Qed.

Lemma o_swap_self c n : n <= cap -> snd (swap_vec fl cap c n c n) = Done (n, n).
Proof.
  intros H. unfold swap_vec. rewrite Nat.eqb_refl. sb. rewrite o_move_construct by exact H. sb.
  rewrite o_move_assign by exact H. sb. reflexivity.
Qed.

(** * outcomes of the inplace_vector members *)
Lemma o_iv_unchecked_push c n h : snd (iv_unchecked_push cap c n h) = if n =? cap then Stop else Done (S n).
Proof. unfold iv_unchecked_push. sb. destruct (n =? cap); cbn [negb]; sb; reflexivity. Qed.
Lemma o_iv_try_push c n h : snd (iv_try_push cap c n h) = Done (if n =? cap then n else S n).
Proof. unfold iv_try_push. destruct (n =? cap) eqn:E; [reflexivity|]. rewrite o_iv_unchecked_push, E. reflexivity. Qed.
Lemma o_iv_pop_back c n : snd (iv_pop_back c n) = if n =? 0 then Stop else Done (n - 1).
Proof. unfold iv_pop_back. sb. destruct (n =? 0); cbn [negb]; sb; reflexivity. Qed.
Lemma o_iv_clear c n : snd (iv_clear c n) = Done 0.
Proof. unfold iv_clear. sb. reflexivity. Qed.
Lemma o_iv_copy_construct c o m : snd (iv_copy_construct c o m) = Done m.
Proof. unfold iv_copy_construct. sb. reflexivity. Qed.
Lemma o_iv_move_construct c o m : snd (iv_move_construct fl c o m) = Done (m, 0).
Proof. unfold iv_move_construct. sb. rewrite o_iv_clear. sb. reflexivity. Qed.
Lemma o_iv_copy_assign c n o m : snd (iv_copy_assign c n o m) = Done m.
Proof. unfold iv_copy_assign. sb. rewrite o_iv_clear. sb. reflexivity. Qed.
Lemma o_iv_move_assign c n o m : snd (iv_move_assign fl c n o m) = Done (m, 0).
Proof. unfold iv_move_assign. sb. rewrite o_iv_clear. sb. rewrite o_iv_clear. sb. reflexivity. Qed.

(** * one step: the model stops exactly where the specification leaves its domain *)
Definition sizes_of (st : sstate) : nat * nat := (length (fst st), length (snd st)).

(* the operations of each family whose outcome is determined by the sizes *)
Definition sv_size_op (o : op) : bool :=
  match o with
  | PushBackRv _ _ | PushBackCr _ _ | EmplaceBack _ _ | PopBack _ | InsertCr _ _ _ | InsertRv _ _ _ | InsertN _ _ _ _
  | InsertRange _ _ _ | MoveInsertRange _ _ _ | EmplaceAt _ _ _ | EraseAt _ _ | EraseRange _ _ _ | Clear _ | Resize _ _
  | ResizeVal _ _ _ | AssignN _ _ _ | AssignRange _ _ | Swap | CopyAssign _ | MoveAssign _ | CopyConstruct _
  | MoveConstruct _ | MoveRoundTrip _ | SelfCopyAssign _ | SelfMoveAssign _ | SelfSwap _
  | FlatExtract _ | FlatReplace _ _ | CtorN _ | CtorNVal _ _ | CtorRange _
  | InsertRangeFwd _ _ _ | MoveInsertRangeFwd _ _ _ | AssignRangeFwd _ _ | CtorRangeFwd _ | CtorMoveArr _ => true
  | _ => false
  end.
Definition iv_size_op (o : op) : bool :=
  match o with
  | IvTryPushCr _ _ | IvTryPushRv _ _ | IvTryEmplace _ _ | IvUncheckedPushCr _ _ | IvUncheckedPushRv _ _
  | IvUncheckedEmplace _ _ | PopBack _ | Clear _ | IvCopyConstruct _ | IvMoveConstruct _ | IvCopyAssign _ | IvMoveAssign _
  | IvSelfCopyAssign _ | IvSelfMoveAssign _ => true
  | _ => false
  end.
Definition size_op (iv : bool) (o : op) : bool := if iv then iv_size_op o else sv_size_op o.

Definition expected_outcome (st : sstate) (o : op) : oc (nat * nat) :=
  match spec_step fl cap st o with Some st' => Done (sizes_of st') | None => Stop end.

Definition within (st : sstate) : Prop := length (fst st) <= cap /\ length (snd st) <= cap.

Ltac spec_side :=
  unfold expected_outcome, spec_step, sizes_of, within, sget, sput; cbn [fst snd negb];
  rewrite ?app_length, ?length_resized, ?length_marked, ?length_removelast, ?repeat_length; cbn [length fst snd].

Ltac lens :=
  cbn [fst snd length];
  rewrite ?app_length, ?length_resized, ?length_marked, ?length_removelast, ?repeat_length; cbn [length];
  rewrite ?length_ins by (cbn [length]; lia); rewrite ?length_del by (cbn [length]; lia); rewrite ?repeat_length; cbn [length].
Ltac dcmp :=
  repeat match goal with
         | |- context [Nat.eqb ?a ?b] => destruct (Nat.eqb_spec a b)
         | |- context [Nat.leb ?a ?b] => destruct (Nat.leb_spec a b)
         | |- context [Nat.ltb ?a ?b] => destruct (Nat.ltb_spec a b)
         end; cbn [andb orb negb].
Ltac fin_op :=
  split;
  [ dcmp; lens; first [reflexivity | lia | (apply f_equal; apply f_equal2; lia)]
  | let st' := fresh "st'" in let E := fresh "E" in
    intros st'; dcmp; intros E; first [discriminate | lia | (injection E as <-; lens; lia)] ].

Lemma step_sv_outcome (st : sstate) m o : within st -> sv_size_op o = true ->
  snd (step_sv fl cap (sizes_of st) m o) = expected_outcome st o /\
  (forall st', spec_step fl cap st o = Some st' -> within st').
Proof.
  destruct st as [l0 l1]. intros [H0 H1] Ho. cbn [fst snd] in H0, H1.
  destruct o; cbn [sv_size_op] in Ho; try discriminate; clear Ho;
    unfold step_sv; cbv zeta; try destruct t; unfold sizes_of; cbn [cid sel upd negb fst snd]; sb.
  all: rewrite ?o_push_back, ?o_emplace_back, ?o_pop_back, ?o_insert_cr, ?o_insert_rv, ?o_insert_n, ?o_insert_range,
         ?o_move_insert, ?o_emplace_at, ?o_erase_at, ?o_erase_range, ?o_clear, ?o_resize, ?o_resize_val, ?o_assign_n,
         ?o_assign_range, ?o_insert_range_fwd, ?o_move_insert_fwd, ?o_assign_range_fwd, ?o_copy_assign, ?o_move_assign, ?o_copy_construct, ?o_move_construct by assumption.
  all: rewrite ?o_emplace_all by lia; rewrite ?map_length; cbn [Nat.add].
  all: rewrite ?(o_swap_distinct 0 _ 1 _ eq_refl H0 H1), ?o_swap_self by assumption.
  all: sb; rewrite ?o_move_assign by assumption; sb.
  all: rewrite ?o_clear; sb.
  all: unfold exts; rewrite ?map_length, ?seq_length.
  all: spec_side.
  all: repeat (progress (dcmp; sb;
                         rewrite ?o_emplace_n, ?o_insert_n, ?o_insert_range, ?o_insert_range_fwd, ?o_move_insert, ?o_move_assign, ?o_clear by lia;
                         rewrite ?map_length, ?seq_length)).
  all: timeout 20 fin_op.
Qed.

Lemma step_iv_outcome (st : sstate) m o : within st -> iv_size_op o = true ->
  snd (step_iv fl cap (sizes_of st) m o) = expected_outcome st o /\
  (forall st', spec_step fl cap st o = Some st' -> within st').
Proof.
  destruct st as [l0 l1]. intros [H0 H1] Ho. cbn [fst snd] in H0, H1.
  destruct o; cbn [iv_size_op] in Ho; try discriminate; clear Ho;
    unfold step_iv; cbv zeta; try destruct t; unfold sizes_of; cbn [cid sel upd negb fst snd]; sb.
  all: rewrite ?o_iv_try_push, ?o_iv_unchecked_push, ?o_iv_pop_back, ?o_iv_clear, ?o_iv_copy_construct, ?o_iv_move_construct,
         ?o_iv_copy_assign, ?o_iv_move_assign.
  all: sb.
  all: spec_side.
  all: timeout 20 fin_op.
Qed.

Lemma step_outcome iv (st : sstate) m o : within st -> size_op iv o = true ->
  snd (step fl cap iv (sizes_of st) m o) = expected_outcome st o /\
  (forall st', spec_step fl cap st o = Some st' -> within st').
Proof. unfold step, size_op. destruct iv; [apply step_iv_outcome|apply step_sv_outcome]. Qed.

Lemma run_completed_of_spec iv ops : forall st m st', within st -> forallb (size_op iv) ops = true ->
  spec_run fl cap st ops = Some st' ->
  completed (fst (fst (grun (step fl cap iv) (sizes_of st) m ops))) = true.
Proof.
  induction ops as [|o rest IH]; intros st m st' Hw Hf Hs; cbn [grun]; [reflexivity|].
  cbn [forallb] in Hf. apply andb_prop in Hf. destruct Hf as [Ho Hr].
  cbn [spec_run] in Hs. destruct (step_outcome iv st m o Hw Ho) as [H1 H2]. unfold expected_outcome in H1.
  destruct (spec_step fl cap st o) as [st1|] eqn:E; [|discriminate].
  destruct (step fl cap iv (sizes_of st) m o) as [evs oc]. cbn [snd] in H1. subst oc. cbn [fst snd].
  unfold completed in *. cbn [forallb fst snd]. eapply IH; [apply H2; reflexivity|exact Hr|exact Hs].
Qed.

Lemma vec_domain iv ops : forallb (size_op iv) ops = true -> spec_verdict fl cap ops <> None ->
  history_completed fl cap iv ops = true.
Proof.
  intros Hf Hv. unfold spec_verdict in Hv. destruct (spec_run fl cap ([], []) ops) as [st'|] eqn:E; [|congruence].
  unfold history_completed, ghistory_completed.
  apply (run_completed_of_spec iv ops ([], []) (exec_all [] []) st'); [split; cbn; lia|exact Hf|exact E].
Qed.

End Domain.
