(* C03: facts about the lifetime automaton itself (no model involved). *)
From Tetl Require Import Lib.Base C03.Trace.

(* a move leaves its source in the moved-from state: not Dead, so a later assignment into it and
   its destruction are legal *)
Lemma moved_from_source_state m l s h :
  (h = Construct l (Move s) \/ h = Assign l (Move s)) -> alive m s = true -> s <> l ->
  lookup (snd (astep m h)) s = MovedFrom.
Proof.
  intros [-> | ->] Ha Hne; cbn [astep snd after_src]; rewrite Ha;
    rewrite !lookup_update;
    (destruct (loc_eqb_spec l s) as [E|_]; [congruence|]); rewrite loc_eqb_refl; reflexivity.
Qed.

Lemma moved_from_then_legal m s :
  lookup m s = MovedFrom ->
  fst (astep m (Destroy s)) = true /\ (forall h, src_ok m h = true -> fst (astep m (Assign s h)) = true).
Proof.
  intros H. unfold astep, alive. cbn [fst]. rewrite H. cbn [is_dead negb andb]. split; [reflexivity|].
  intros h Hh. exact Hh.
Qed.

(** * the two-state abstraction: legality only depends on which locations are alive *)
Definition aliveness := loc -> bool.
Definition fupd (a : aliveness) (l : loc) (b : bool) : aliveness := fun x => if loc_eqb l x then b else a x.
Definition bsrc_ok (a : aliveness) (h : how) : bool := match src_of h with None => true | Some s => a s end.
Definition bstep (a : aliveness) (e : event) : bool * aliveness :=
  match e with
  | Construct l h => (negb (a l) && bsrc_ok a h, fupd a l true)
  | Assign l h => (a l && bsrc_ok a h, a)
  | Destroy l => (a l, fupd a l false)
  | Use l => (a l, a)
  end.
Fixpoint brun (a : aliveness) (evs : list event) : bool * aliveness :=
  match evs with
  | [] => (true, a)
  | e :: t => let r := bstep a e in let r2 := brun (snd r) t in (fst r && fst r2, snd r2)
  end.

Definition same (a b : aliveness) : Prop := forall x, a x = b x.

Lemma same_refl a : same a a. Proof. intros x; reflexivity. Qed.
Lemma same_sym a b : same a b -> same b a. Proof. intros H x; symmetry; apply H. Qed.
Lemma same_trans a b c : same a b -> same b c -> same a c. Proof. intros H1 H2 x; rewrite H1; apply H2. Qed.

Lemma fupd_same a b l v : same a b -> same (fupd a l v) (fupd b l v).
Proof. intros H x. unfold fupd. destruct (loc_eqb l x); [reflexivity|apply H]. Qed.

Lemma bsrc_ok_same a b h : same a b -> bsrc_ok a h = bsrc_ok b h.
Proof. intros H. unfold bsrc_ok. destruct (src_of h); [apply H|reflexivity]. Qed.

Lemma bstep_same a b e : same a b -> fst (bstep a e) = fst (bstep b e) /\ same (snd (bstep a e)) (snd (bstep b e)).
Proof.
  intros H. destruct e as [l h|l h|l|l]; cbn [bstep fst snd].
  - rewrite (H l), (bsrc_ok_same a b h H). split; [reflexivity|apply fupd_same; exact H].
  - rewrite (H l), (bsrc_ok_same a b h H). split; [reflexivity|exact H].
  - rewrite (H l). split; [reflexivity|apply fupd_same; exact H].
  - rewrite (H l). split; [reflexivity|exact H].
Qed.

Lemma brun_same evs : forall a b, same a b -> fst (brun a evs) = fst (brun b evs) /\ same (snd (brun a evs)) (snd (brun b evs)).
Proof.
  induction evs as [|e t IH]; intros a b H; cbn [brun fst snd].
  - split; [reflexivity|exact H].
  - destruct (bstep_same a b e H) as [H1 H2]. destruct (IH _ _ H2) as [H3 H4].
    rewrite H1, H3. split; [reflexivity|exact H4].
Qed.

Lemma brun_app a e1 e2 :
  brun a (e1 ++ e2) = (fst (brun a e1) && fst (brun (snd (brun a e1)) e2), snd (brun (snd (brun a e1)) e2)).
Proof.
  revert a. induction e1 as [|e t IH]; intros a; cbn [app brun fst snd].
  - destruct (brun a e2); reflexivity.
  - rewrite IH. cbn [fst snd]. rewrite andb_assoc. reflexivity.
Qed.

(* the real automaton follows the abstraction as long as the run is legal *)
Lemma astep_bstep m a e : same (alive m) a ->
  fst (astep m e) = fst (bstep a e) /\ (fst (bstep a e) = true -> same (alive (snd (astep m e))) (snd (bstep a e))).
Proof.
  intros H.
  assert (Hsrc : forall h, src_ok m h = bsrc_ok a h).
  { intros h. unfold src_ok, bsrc_ok. destruct (src_of h); [apply H|reflexivity]. }
  assert (Hafter : forall h, bsrc_ok a h = true -> same (alive (after_src m h)) a).
  { intros h Hh x. destruct h as [v|s|s]; cbn [after_src]; try apply H.
    unfold bsrc_ok in Hh. cbn [src_of] in Hh. rewrite (H s), Hh.
    unfold alive at 1. rewrite lookup_update. destruct (loc_eqb_spec s x) as [->|_]; [cbn; symmetry; exact Hh|apply H]. }
  destruct e as [l h|l h|l|l]; cbn [astep bstep fst snd].
  - rewrite (H l), Hsrc. split; [reflexivity|]. intros Hl. apply andb_prop in Hl. destruct Hl as [_ Hh].
    intros x. unfold alive at 1. rewrite lookup_update. unfold fupd.
    destruct (loc_eqb l x); [reflexivity|]. apply (Hafter h Hh).
  - rewrite (H l), Hsrc. split; [reflexivity|]. intros Hl. apply andb_prop in Hl. destruct Hl as [Hl Hh].
    intros x. unfold alive at 1. rewrite lookup_update.
    destruct (loc_eqb_spec l x) as [->|_]; [cbn; symmetry; exact Hl|]. apply (Hafter h Hh).
  - rewrite (H l). split; [reflexivity|]. intros _ x. unfold alive at 1. rewrite lookup_update. unfold fupd.
    destruct (loc_eqb l x); [reflexivity|apply H].
  - rewrite (H l). split; [reflexivity|]. intros _. exact H.
Qed.

Lemma arun_brun evs : forall m a, same (alive m) a -> fst (brun a evs) = true ->
  fst (arun m evs) = true /\ same (alive (snd (arun m evs))) (snd (brun a evs)).
Proof.
  induction evs as [|e t IH]; intros m a H Hb; cbn [arun brun fst snd] in *.
  - split; [reflexivity|exact H].
  - apply andb_prop in Hb. destruct Hb as [Hb1 Hb2].
    destruct (astep_bstep m a e H) as [H1 H2]. specialize (H2 Hb1).
    destruct (IH _ _ H2 Hb2) as [H3 H4]. rewrite H1, Hb1, H3. split; [reflexivity|exact H4].
Qed.

Definition nothing : aliveness := fun _ => false.

Lemma alive_nil : same (alive []) nothing.
Proof. intros x. reflexivity. Qed.

(* what the model-level theorems need: a legal abstract run from "nothing alive" gives wf_trace, and
   if it ends with nothing alive, all_dead *)
Lemma wf_of_brun evs : fst (brun nothing evs) = true -> wf_trace evs = true.
Proof. intros H. unfold wf_trace. apply (arun_brun evs [] nothing alive_nil H). Qed.

Lemma all_dead_of_brun evs : fst (brun nothing evs) = true -> same (snd (brun nothing evs)) nothing -> all_dead evs = true.
Proof.
  intros H Hn. unfold all_dead, final_state. apply all_dead_map_spec. intros l.
  destruct (arun_brun evs [] nothing alive_nil H) as [_ Hs]. rewrite Hs. apply Hn.
Qed.

(** * the history of one location *)
(* the real automaton and the abstraction agree on legality, in both directions *)
Lemma arun_brun_fst evs : forall m a, same (alive m) a ->
  fst (arun m evs) = fst (brun a evs) /\ (fst (brun a evs) = true -> same (alive (snd (arun m evs))) (snd (brun a evs))).
Proof.
  induction evs as [|e t IH]; intros m a H; cbn [arun brun fst snd].
  - split; [reflexivity|intros _; exact H].
  - destruct (astep_bstep m a e H) as [H1 H2]. rewrite H1.
    destruct (fst (bstep a e)) eqn:E; cbn [andb].
    + destruct (IH _ _ (H2 eq_refl)) as [H3 H4]. split; [exact H3|exact H4].
    + split; [reflexivity|discriminate].
Qed.

Lemma lrun_app ts1 : forall b ts2,
  lrun b (ts1 ++ ts2) = match lrun b ts1 with Some b1 => lrun b1 ts2 | None => None end.
Proof.
  induction ts1 as [|t r IH]; intros b ts2; cbn [app lrun]; [reflexivity|].
  destruct t, b; try reflexivity; apply IH.
Qed.

Lemma bstep_lrun l a e : fst (bstep a e) = true -> lrun (a l) (ltoks_of l e) = Some (snd (bstep a e) l).
Proof.
  assert (Hsrc : forall h, bsrc_ok a h = true -> src_tok l h = [] \/ (src_tok l h = [LR] /\ a l = true)).
  { intros h Hh. unfold src_tok, bsrc_ok in *. destruct (src_of h) as [s|]; [|left; reflexivity].
    destruct (loc_eqb_spec s l) as [->|]; [right; split; [reflexivity|exact Hh]|left; reflexivity]. }
  destruct e as [t h|t h|t|t]; cbn [bstep fst snd ltoks_of]; intros H.
  - apply andb_prop in H. destruct H as [Ht Hh]. unfold fupd.
    destruct (loc_eqb_spec t l) as [->|Hne].
    + destruct (Hsrc h Hh) as [->|[-> Hal]]; cbn [app lrun].
      * destruct (a l); [discriminate|reflexivity].
      * rewrite Hal in Ht. discriminate.
    + rewrite app_nil_r. destruct (Hsrc h Hh) as [->|[-> Hal]]; cbn [lrun]; [reflexivity|rewrite Hal; reflexivity].
  - apply andb_prop in H. destruct H as [Ht Hh].
    destruct (loc_eqb_spec t l) as [->|Hne].
    + destruct (Hsrc h Hh) as [->|[-> Hal]]; cbn [app lrun]; rewrite Ht; reflexivity.
    + rewrite app_nil_r. destruct (Hsrc h Hh) as [->|[-> Hal]]; cbn [lrun]; [reflexivity|rewrite Hal; reflexivity].
  - unfold fupd. destruct (loc_eqb_spec t l) as [->|Hne]; cbn [lrun]; [rewrite H|]; reflexivity.
  - destruct (loc_eqb_spec t l) as [->|Hne]; cbn [lrun]; [rewrite H|]; reflexivity.
Qed.

Lemma brun_lrun l evs : forall a, fst (brun a evs) = true -> lrun (a l) (lproj l evs) = Some (snd (brun a evs) l).
Proof.
  induction evs as [|e t IH]; intros a H; cbn [brun fst snd lproj flat_map] in *; [reflexivity|].
  apply andb_prop in H. destruct H as [H1 H2].
  rewrite lrun_app, (bstep_lrun l a e H1). apply IH. exact H2.
Qed.

Definition nb (b : bool) : nat := if b then 1 else 0.

Lemma lrun_balance ts : forall b b', lrun b ts = Some b' ->
  nb b + length (filter is_LC ts) = length (filter is_LD ts) + nb b'.
Proof.
  induction ts as [|t r IH]; intros b b' H; cbn [lrun filter length] in *.
  - injection H as <-. lia.
  - destruct t, b; try discriminate; cbn [is_LC is_LD length]; specialize (IH _ _ H); cbn [nb] in *; lia.
Qed.

(* a well-formed trace that leaves nothing alive: every location is constructed-into and
   destroyed alternately, equally often, and only touched while it holds an object *)
Lemma wf_all_dead_once_each evs : wf_trace evs = true -> all_dead evs = true ->
  forall l, once_each l evs /\ constructions l evs = destructions l evs.
Proof.
  intros Hwf Hdead l. unfold wf_trace in Hwf. unfold all_dead, final_state in Hdead.
  destruct (arun_brun_fst evs [] nothing alive_nil) as [H1 H2]. rewrite Hwf in H1. symmetry in H1.
  specialize (H2 H1). pose proof (brun_lrun l evs nothing H1) as HL.
  rewrite all_dead_map_spec in Hdead. rewrite <- (H2 l), (Hdead l) in HL. change (nothing l) with false in HL.
  split; [exact HL|]. unfold constructions, destructions. pose proof (lrun_balance _ _ _ HL) as Hb. cbn [nb] in Hb. lia.
Qed.
