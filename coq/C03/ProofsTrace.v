(* C03: facts about the lifetime automaton itself (no model involved). *)
From Tetl Require Import Lib.Base C03.Trace.

(* a move leaves its source in the moved-from state: not Dead, so a later assignment into it and
   its destruction are legal *)
Lemma moved_from_source_state m l s h :
  (h = Construct l (Move s) \/ h = Assign l (Move s)) -> alive m s = true -> s <> l ->
  lookup (snd (astep m h)) s = MovedFrom.
Proof.
  intros [-> | ->] Ha Hne; cbn [astep snd after_src]; rewrite Ha;
    rewrite !lookup_update;
    (destruct (loc_eqb_spec l s) as [E|_]; [congruence|]); rewrite loc_eqb_refl; reflexivity.
Qed.

Lemma moved_from_then_legal m s :
  lookup m s = MovedFrom ->
  fst (astep m (Destroy s)) = true /\ (forall h, src_ok m h = true -> fst (astep m (Assign s h)) = true).
Proof.
  intros H. unfold astep, alive. cbn [fst]. rewrite H. cbn [is_dead negb andb]. split; [reflexivity|].
  intros h Hh. exact Hh.
Qed.
