(* C03: facts about the lifetime automaton itself (no model involved). *)
From Tetl Require Import Lib.Base C03.Trace.

(* a move leaves its source in the moved-from state: not Dead, so a later assignment into it and
   its destruction are legal *)
Lemma moved_from_source_state m l s h :
  (h = Construct l (Move s) \/ h = Assign l (Move s)) -> alive m s = true -> s <> l ->
  lookup (snd (astep m h)) s = MovedFrom.
Proof.
  intros [-> | ->] Ha Hne; cbn [astep snd after_src]; rewrite Ha;
    rewrite !lookup_update;
    (destruct (loc_eqb_spec l s) as [E|_]; [congruence|]); rewrite loc_eqb_refl; reflexivity.
Qed.

Lemma moved_from_then_legal m s :
  lookup m s = MovedFrom ->
  fst (astep m (Destroy s)) = true /\ (forall h, src_ok m h = true -> fst (astep m (Assign s h)) = true).
Proof.
  intros H. unfold astep, alive. cbn [fst]. rewrite H. cbn [is_dead negb andb]. split; [reflexivity|].
  intros h Hh. exact Hh.
Qed.

(** * the two-state abstraction: legality only depends on which locations are alive *)
Definition aliveness := loc -> bool.
Definition fupd (a : aliveness) (l : loc) (b : bool) : aliveness := fun x => if loc_eqb l x then b else a x.
Definition bsrc_ok (a : aliveness) (h : how) : bool := match src_of h with None => true | Some s => a s end.
Definition bstep (a : aliveness) (e : event) : bool * aliveness :=
  match e with
  | Construct l h => (negb (a l) && bsrc_ok a h, fupd a l true)
  | Assign l h => (a l && bsrc_ok a h, a)
  | Destroy l => (a l, fupd a l false)
  | Use l => (a l, a)
  end.
Fixpoint brun (a : aliveness) (evs : list event) : bool * aliveness :=
  match evs with
  | [] => (true, a)
  | e :: t => let r := bstep a e in let r2 := brun (snd r) t in (fst r && fst r2, snd r2)
  end.

Definition same (a b : aliveness) : Prop := forall x, a x = b x.

Lemma same_refl a : same a a. Proof. intros x; reflexivity. Qed.
Lemma same_sym a b : same a b -> same b a. Proof. intros H x; symmetry; apply H. Qed.
Lemma same_trans a b c : same a b -> same b c -> same a c. Proof. intros H1 H2 x; rewrite H1; apply H2. Qed.

Lemma fupd_same a b l v : same a b -> same (fupd a l v) (fupd b l v).
Proof. intros H x. unfold fupd. destruct (loc_eqb l x); [reflexivity|apply H]. Qed.

Lemma bsrc_ok_same a b h : same a b -> bsrc_ok a h = bsrc_ok b h.
Proof. intros H. unfold bsrc_ok. destruct (src_of h); [apply H|reflexivity]. Qed.

Lemma bstep_same a b e : same a b -> fst (bstep a e) = fst (bstep b e) /\ same (snd (bstep a e)) (snd (bstep b e)).
Proof.
  intros H. destruct e as [l h|l h|l|l]; cbn [bstep fst snd].
  - rewrite (H l), (bsrc_ok_same a b h H). split; [reflexivity|apply fupd_same; exact H].
  - rewrite (H l), (bsrc_ok_same a b h H). split; [reflexivity|exact H].
  - rewrite (H l). split; [reflexivity|apply fupd_same; exact H].
  - rewrite (H l). split; [reflexivity|exact H].
Qed.

Lemma brun_same evs : forall a b, same a b -> fst (brun a evs) = fst (brun b evs) /\ same (snd (brun a evs)) (snd (brun b evs)).
Proof.
  induction evs as [|e t IH]; intros a b H; cbn [brun fst snd].
  - split; [reflexivity|exact H].
  - destruct (bstep_same a b e H) as [H1 H2]. destruct (IH _ _ H2) as [H3 H4].
    rewrite H1, H3. split; [reflexivity|exact H4].
Qed.

Lemma brun_app a e1 e2 :
  brun a (e1 ++ e2) = (fst (brun a e1) && fst (brun (snd (brun a e1)) e2), snd (brun (snd (brun a e1)) e2)).
Proof.
  revert a. induction e1 as [|e t IH]; intros a; cbn [app brun fst snd].
  - destruct (brun a e2); reflexivity.
  - rewrite IH. cbn [fst snd]. rewrite andb_assoc. reflexivity.
Qed.

(* the real automaton follows the abstraction as long as the run is legal *)
Lemma astep_bstep m a e : same (alive m) a ->
  fst (astep m e) = fst (bstep a e) /\ (fst (bstep a e) = true -> same (alive (snd (astep m e))) (snd (bstep a e))).
Proof.
  intros H.
  assert (Hsrc : forall h, src_ok m h = bsrc_ok a h).
  { intros h. unfold src_ok, bsrc_ok. destruct (src_of h); [apply H|reflexivity]. }
  assert (Hafter : forall h, bsrc_ok a h = true -> same (alive (after_src m h)) a).
  { intros h Hh x. destruct h as [v|s|s]; cbn [after_src]; try apply H.
    unfold bsrc_ok in Hh. cbn [src_of] in Hh. rewrite (H s), Hh.
    unfold alive at 1. rewrite lookup_update. destruct (loc_eqb_spec s x) as [->|_]; [cbn; symmetry; exact Hh|apply H]. }
  destruct e as [l h|l h|l|l]; cbn [astep bstep fst snd].
  - rewrite (H l), Hsrc. split; [reflexivity|]. intros Hl. apply andb_prop in Hl. destruct Hl as [_ Hh].
    intros x. unfold alive at 1. rewrite lookup_update. unfold fupd.
    destruct (loc_eqb l x); [reflexivity|]. apply (Hafter h Hh).
  - rewrite (H l), Hsrc. split; [reflexivity|]. intros Hl. apply andb_prop in Hl. destruct Hl as [Hl Hh].
    intros x. unfold alive at 1. rewrite lookup_update.
    destruct (loc_eqb_spec l x) as [->|_]; [cbn; symmetry; exact Hl|]. apply (Hafter h Hh).
  - rewrite (H l). split; [reflexivity|]. intros _ x. unfold alive at 1. rewrite lookup_update. unfold fupd.
    destruct (loc_eqb l x); [reflexivity|apply H].
  - rewrite (H l). split; [reflexivity|]. intros _. exact H.
Qed.

Lemma arun_brun evs : forall m a, same (alive m) a -> fst (brun a evs) = true ->
  fst (arun m evs) = true /\ same (alive (snd (arun m evs))) (snd (brun a evs)).
Proof.
  induction evs as [|e t IH]; intros m a H Hb; cbn [arun brun fst snd] in *.
  - split; [reflexivity|exact H].
  - apply andb_prop in Hb. destruct Hb as [Hb1 Hb2].
    destruct (astep_bstep m a e H) as [H1 H2]. specialize (H2 Hb1).
    destruct (IH _ _ H2 Hb2) as [H3 H4]. rewrite H1, Hb1, H3. split; [reflexivity|exact H4].
Qed.

Definition nothing : aliveness := fun _ => false.

Lemma alive_nil : same (alive []) nothing.
Proof. intros x. reflexivity. Qed.

(* what the model-level theorems need: a legal abstract run from "nothing alive" gives wf_trace, and
   if it ends with nothing alive, all_dead *)
Lemma wf_of_brun evs : fst (brun nothing evs) = true -> wf_trace evs = true.
Proof. intros H. unfold wf_trace. apply (arun_brun evs [] nothing alive_nil H). Qed.

Lemma all_dead_of_brun evs : fst (brun nothing evs) = true -> same (snd (brun nothing evs)) nothing -> all_dead evs = true.
Proof.
  intros H Hn. unfold all_dead, final_state. apply all_dead_map_spec. intros l.
  destruct (arun_brun evs [] nothing alive_nil H) as [_ Hs]. rewrite Hs. apply Hn.
Qed.
