(* C03 specification.
   The property itself is the lifetime automaton of C03.Trace: over any history inside the
   documented domain, the trace of special-member calls is well formed ([wf_trace]), nothing is
   alive once the owners are destroyed ([all_dead]), and a self-assignment / self-swap leaves
   the value unchanged.  So the expected verdict of a valid history is constant:
        wf = true, alive = 0, every self-operation is the identity.
   What remains to be specified is the DOMAIN: a history is valid when every call satisfies
   the precondition the standard (plus the fixed capacity) gives it.  That is decided on the
   abstract value of the two objects (lists, as for std::vector); a moved-from element of a
   type with move operations holds the marker value. *)
From Tetl Require Import Lib.Base C06a.Instances C03.Trace C03.Model C03.ModelOwn.
Local Open Scope nat_scope.

Definition sstate : Type := (list Z * list Z)%type.
Definition sget (t : bool) (s : sstate) : list Z := if t then snd s else fst s.
Definition sput (t : bool) (s : sstate) (l : list Z) : sstate := if t then (fst s, l) else (l, snd s).

Definition ins (l : list Z) (pos : nat) (xs : list Z) : list Z := firstn pos l ++ xs ++ skipn pos l.
Definition del (l : list Z) (f n : nat) : list Z := firstn f l ++ skipn (f + n) l.
Definition marked (fl : bool) (l : list Z) : list Z := if fl then map (fun _ => moved_marker) l else l.
Definition resized (l : list Z) (k : nat) (x : Z) : list Z := firstn k l ++ repeat x (k - length l).

Definition set_mem (x : Z) (l : list Z) : bool := existsb (Z.eqb x) l.
Definition set_ins (l : list Z) (x : Z) : list Z :=
  filter (fun v => (v <? x)%Z) l ++ [x] ++ filter (fun v => negb (v <? x)%Z) l.

(* None: the call is outside its documented precondition *)
Definition spec_step (fl : bool) (cap : nat) (s : sstate) (o : op) : option sstate :=
  let room (t : bool) := cap - length (sget t s) in
  let chk (b : bool) (r : sstate) := if b then Some r else None in
  match o with
  | PushBackRv t x | PushBackCr t x | EmplaceBack t x
  | IvUncheckedPushCr t x | IvUncheckedPushRv t x | IvUncheckedEmplace t x =>
      chk (1 <=? room t) (sput t s (sget t s ++ [x]))
  | IvTryPushCr t x | IvTryPushRv t x | IvTryEmplace t x =>
      Some (if 1 <=? room t then sput t s (sget t s ++ [x]) else s)
  | PopBack t => chk (1 <=? length (sget t s)) (sput t s (removelast (sget t s)))
  | InsertCr t pos x | InsertRv t pos x | EmplaceAt t pos x =>
      chk ((pos <=? length (sget t s)) && (1 <=? room t)) (sput t s (ins (sget t s) pos [x]))
  | InsertN t pos k x =>
      chk ((pos <=? length (sget t s)) && (k <=? room t)) (sput t s (ins (sget t s) pos (repeat x k)))
  | InsertRange t pos xs | MoveInsertRange t pos xs | InsertRangeFwd t pos xs | MoveInsertRangeFwd t pos xs =>
      chk ((pos <=? length (sget t s)) && (length xs <=? room t)) (sput t s (ins (sget t s) pos xs))
  | EraseAt t pos => chk (pos <? length (sget t s)) (sput t s (del (sget t s) pos 1))
  | EraseRange t f l => chk ((f <=? l) && (l <=? length (sget t s))) (sput t s (del (sget t s) f (l - f)))
  | Clear t => Some (sput t s [])
  | Resize t k => chk (k <=? cap) (sput t s (resized (sget t s) k 0%Z))
  | ResizeVal t k x => chk (k <=? cap) (sput t s (resized (sget t s) k x))
  | AssignN t k x => chk (k <=? cap) (sput t s (repeat x k))
  | AssignRange t xs | AssignRangeFwd t xs => chk (length xs <=? cap) (sput t s xs)
  | Swap => Some (snd s, fst s)
  | CopyAssign t => Some (sput t s (sget (negb t) s))
  | MoveAssign t => Some (sput (negb t) (sput t s (sget (negb t) s)) (marked fl (sget (negb t) s)))
  | CopyConstruct t | IvCopyConstruct t => Some s
  | MoveConstruct t => Some (sput t s (marked fl (sget t s)))
  | IvMoveConstruct t => Some (sput t s [])
  | MoveRoundTrip t => Some s
  | EraseIf t pid => Some (sput t s (filter (fun v => negb (pred_of pid v)) (sget t s)))
  | EraseVal t x => Some (sput t s (filter (fun v => negb (Z.eqb v x)) (sget t s)))
  | SelfCopyAssign t | SelfMoveAssign t | SelfSwap t | IvSelfCopyAssign t | IvSelfMoveAssign t => Some s
  | IvCopyAssign t => Some (sput t s (sget (negb t) s))
  | IvMoveAssign t => Some (sput (negb t) (sput t s (sget (negb t) s)) [])
  (* std::set / std::flat_set on the sorted list: insert is a no-op when the key is present; the
     fixed capacity: static_set::insert silently does nothing when full, flat_set over a
     static_vector has the vector's precondition *)
  | SetInsertRv t x | SetInsertCr t x | SetEmplace t x =>
      Some (if set_mem x (sget t s) || (room t =? 0) then s else sput t s (set_ins (sget t s) x))
  | FlatInsertRv t x | FlatInsertCr t x | FlatEmplace t x =>
      if set_mem x (sget t s) then Some s else chk (1 <=? room t) (sput t s (set_ins (sget t s) x))
  | SetEraseKey t x | FlatEraseKey t x => Some (sput t s (filter (fun v => negb (Z.eqb v x)) (sget t s)))
  | FlatExtract t => Some (sput t s [])
  | FlatReplace t xs => chk (length xs <=? cap) (sput t s xs)
  | CtorN k | CtorNVal k _ => chk (k <=? cap) s
  | CtorRange xs | CtorRangeFwd xs | CtorMoveArr xs => chk (length xs <=? cap) s
  end.

Fixpoint spec_run (fl : bool) (cap : nat) (s : sstate) (ops : list op) : option sstate :=
  match ops with
  | [] => Some s
  | o :: rest => match spec_step fl cap s o with Some s' => spec_run fl cap s' rest | None => None end
  end.

Definition count_self (ops : list op) : nat :=
  length (filter (fun o => match is_self_op o with Some _ => true | None => false end) ops).

(* the expected verdict: (wf, alive, self-operation identities); None outside the domain *)
Definition spec_verdict (fl : bool) (cap : nat) (ops : list op) : option (bool * nat * list bool) :=
  match spec_run fl cap ([], []) ops with
  | Some _ => Some (true, 0, repeat true (count_self ops))
  | None => None
  end.

(** * variant / optional / expected / inplace_function
   The abstract state is which alternative each object holds (std::variant::index(), has_value(),
   std::function being empty or not).  The only precondition is that an empty function is not
   invoked.  The expected verdict is again constant, plus [storage_wf]. *)
Definition own_spec_step (s : nat * nat) (o : oop) : option (nat * nat) :=
  match o with
  | VEmplace t j _ | VAssignRv t j _ | VAssignCr t j _ | VAssignConv t j _ | VAssignTmp t j _ | VAssignFromU t j _ => Some (upd t s j)
  | VCopyAssign t | VMoveAssign t => Some (upd t s (sel (negb t) s))
  | VSwap | FSwap => Some (snd s, fst s)
  | FAssign t k _ | FAssignCr t k _ => Some (upd t s k)
  | FAssignNull t | FMoveConstruct t => Some (upd t s 0)
  | FCopyAssign t => Some (upd t s (sel (negb t) s))
  | FMoveAssign t => Some (upd t (upd (negb t) s 0) (sel (negb t) s))
  | FInvoke t => if sel t s =? 0 then None else Some s
  | _ => Some s
  end.

Fixpoint own_spec_run (s : nat * nat) (ops : list oop) : option (nat * nat) :=
  match ops with
  | [] => Some s
  | o :: rest => match own_spec_step s o with Some s' => own_spec_run s' rest | None => None end
  end.

Definition own_count_self (ops : list oop) : nat :=
  length (filter (fun o => match own_self o with Some _ => true | None => false end) ops).

(* (wf, alive, self-operation identities, storage_wf); None outside the domain *)
Definition own_spec_verdict (ops : list oop) : option (bool * nat * list bool * bool) :=
  match own_spec_run (0, 0) ops with
  | Some _ => Some (true, 0, repeat true (own_count_self ops), true)
  | None => None
  end.
