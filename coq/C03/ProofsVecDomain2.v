(* C03: the hypothesis "no contract check fires in the model" for the operations whose resulting SIZE depends on
   the element values (not covered by ProofsVecDomain.vec_domain).  For them the specification has no precondition
   (erase_if, erase by value, the static_set operations: Spec.spec_step never answers None) resp. the vector's
   capacity precondition (flat_set insert / emplace of a new key).  Per step, from ANY state within the capacity
   and with ANY element values:
     erase_if, erase by value, static_set insert (both forms) / emplace / erase by key  never stop;
     flat_set insert (both forms) / emplace  stop only when the set is full.
   (flat_set::erase(key) = erase(lower_bound, upper_bound) is excluded: on a vector that is not sorted - reachable in
   the model by mixing the vector's operations into the history - the two binary searches can cross and the range
   precondition fires; for the sorted histories that are generated this is tested.) *)
From Tetl Require Import Lib.Base C06a.Instances C03.Trace C03.Model C03.Spec C03.ProofsTrace C03.ProofsGen C03.ProofsVecDomain.
From Coq Require Import Arith Lia.
Local Open Scope nat_scope.

Section Domain2.
Variable fl : bool.
Variable cap : nat.

Ltac sb := repeat (progress (rewrite ?snd_bind, ?snd_require, ?snd_with_ext; cbn [emit ret stop snd])).

Lemma elems_len m c n : length (elems m c n) = n.
Proof. unfold elems. rewrite map_length, seq_length. reflexivity. Qed.

Lemma o_erase_if c n p vals : length vals = n -> exists n', snd (erase_if fl c n p vals) = Done n' /\ n' <= n.
Proof.
  intros Hl. unfold erase_if. sb. rewrite o_erase_range.
  pose proof (remove_if_idx_spec p vals) as H. cbn zeta in H. destruct H as [H _]. rewrite Hl in H.
  destruct (Nat.leb_spec (snd (remove_if_idx p vals)) n); [|lia]. rewrite Nat.leb_refl. cbn [andb].
  eexists. split; [reflexivity|lia].
Qed.

Lemma lower_idx_le vals x : lower_idx vals x <= length vals.
Proof. unfold lower_idx. apply bsearch_le. Qed.

Lemma o_set_insert c n vals x src : length vals = n -> n <= cap ->
  exists n', snd (set_insert fl cap c n vals x src) = Done n' /\ n' <= cap.
Proof.
  intros Hl Hn. unfold set_insert.
  destruct ((lower_idx vals x <? n) && negb (x <? nth (lower_idx vals x) vals 0)%Z); [exists n; split; [reflexivity|exact Hn]|].
  destruct (Nat.eqb_spec n cap) as [E|Ne]; [exists n; split; [reflexivity|exact Hn]|].
  sb. rewrite o_push_back. destruct (Nat.eqb_spec n cap); [contradiction|]. sb.
  rewrite o_rotate by (pose proof (lower_idx_le vals x); lia). sb.
  exists (S n). split; [reflexivity|lia].
Qed.

Lemma o_set_erase_key c n vals x : exists n', snd (set_erase_key fl c n vals x) = Done n' /\ n' <= n.
Proof.
  unfold set_erase_key.
  destruct (Nat.ltb_spec (lower_idx vals x) n) as [Hp|Hp]; cbn [andb]; [|exists n; split; [reflexivity|lia]].
  destruct (negb (x <? nth (lower_idx vals x) vals 0)%Z); [|exists n; split; [reflexivity|lia]].
  rewrite o_erase_at. destruct (Nat.ltb_spec (lower_idx vals x) n); [|lia]. exists (n - 1). split; [reflexivity|lia].
Qed.

Lemma o_emplace_at_h c n pos h : n <= cap ->
  snd (emplace_at_h fl cap c n pos h) = if negb (n =? cap) && (pos <=? n) then Done (S n) else Stop.
Proof.
  intros Hn. unfold emplace_at_h. sb. destruct (Nat.eqb_spec n cap); cbn [negb andb]; [reflexivity|]. sb.
  destruct (Nat.leb_spec pos n); [|reflexivity]. sb. rewrite o_move_insert by exact Hn. cbn [length].
  destruct (Nat.leb_spec pos n); [|lia]. destruct (Nat.leb_spec (n + 1) cap); [|lia]. cbn [andb]. sb. f_equal. lia.
Qed.

Lemma o_flat_emplace c n vals x h : length vals = n -> n <= cap ->
  (exists n', snd (flat_emplace fl cap c n vals x h) = Done n' /\ n' <= cap) \/
  (snd (flat_emplace fl cap c n vals x h) = Stop /\ n = cap).
Proof.
  intros Hl Hn. unfold flat_emplace. sb.
  destruct ((lower_idx vals x =? n) || (x <? nth (lower_idx vals x) vals 0)%Z).
  - rewrite o_emplace_at_h by exact Hn.
    pose proof (lower_idx_le vals x) as Hp. rewrite Hl in Hp.
    destruct (Nat.eqb_spec n cap) as [E|Ne]; cbn [negb andb].
    + right. split; [reflexivity|exact E].
    + destruct (Nat.leb_spec (lower_idx vals x) n); [|lia]. sb. left. exists (S n). split; [reflexivity|lia].
  - sb. left. exists n. split; [reflexivity|exact Hn].
Qed.

Definition never_stops_op (o : op) : bool :=
  match o with
  | EraseIf _ _ | EraseVal _ _ | SetInsertRv _ _ | SetInsertCr _ _ | SetEmplace _ _ | SetEraseKey _ _ => true
  | _ => false
  end.
Definition flat_insert_target (o : op) : option bool :=
  match o with
  | FlatInsertRv t _ | FlatInsertCr t _ | FlatEmplace t _ => Some t
  | _ => None
  end.

Definition within2 (s : nat * nat) : Prop := fst s <= cap /\ snd s <= cap.

Lemma upd_within t s n : within2 s -> n <= cap -> within2 (upd t s n).
Proof. intros [H0 H1] Hn. destruct t; split; cbn [upd fst snd]; assumption. Qed.

Lemma sel_within t s : within2 s -> sel t s <= cap.
Proof. intros [H0 H1]. destruct t; assumption. Qed.

Lemma value_ops_never_stop s m o : within2 s -> never_stops_op o = true ->
  exists s', snd (step_sv fl cap s m o) = Done s' /\ within2 s'.
Proof.
  intros Hw Ho. pose proof (fun t => sel_within t s Hw) as Hsel.
  destruct o; cbn [never_stops_op] in Ho; try discriminate; clear Ho; unfold step_sv; cbv zeta; sb.
  - (* EraseIf *)
    destruct (o_erase_if (cid t) (sel t s) (pred_of pid) (elems m (cid t) (sel t s)) (elems_len _ _ _)) as [n' [E Hn']].
    rewrite E. sb. eexists. split; [reflexivity|]. apply upd_within; [exact Hw|specialize (Hsel t); lia].
  - (* EraseVal *)
    destruct (o_erase_if (cid t) (sel t s) (fun y => Z.eqb y x) (elems m (cid t) (sel t s)) (elems_len _ _ _)) as [n' [E Hn']].
    rewrite E. sb. eexists. split; [reflexivity|]. apply upd_within; [exact Hw|specialize (Hsel t); lia].
  - (* SetInsertRv *)
    destruct (o_set_insert (cid t) (sel t s) (elems m (cid t) (sel t s)) x (Ext 0) (elems_len _ _ _) (Hsel t)) as [n' [E Hn']].
    rewrite E. sb. eexists. split; [reflexivity|]. apply upd_within; assumption.
  - (* SetInsertCr *)
    destruct (o_set_insert (cid t) (sel t s) (elems m (cid t) (sel t s)) x (Temp 1) (elems_len _ _ _) (Hsel t)) as [n' [E Hn']].
    rewrite E. sb. eexists. split; [reflexivity|]. apply upd_within; assumption.
  - (* SetEmplace *)
    destruct (o_set_insert (cid t) (sel t s) (elems m (cid t) (sel t s)) x (Temp 1) (elems_len _ _ _) (Hsel t)) as [n' [E Hn']].
    rewrite E. sb. eexists. split; [reflexivity|]. apply upd_within; assumption.
  - (* SetEraseKey *)
    destruct (o_set_erase_key (cid t) (sel t s) (elems m (cid t) (sel t s)) x) as [n' [E Hn']].
    rewrite E. sb. eexists. split; [reflexivity|]. apply upd_within; [exact Hw|specialize (Hsel t); lia].
Qed.

Lemma flat_insert_stops_only_when_full s m o t : within2 s -> flat_insert_target o = Some t ->
  (exists s', snd (step_sv fl cap s m o) = Done s' /\ within2 s') \/
  (snd (step_sv fl cap s m o) = Stop /\ sel t s = cap).
Proof.
  intros Hw Ho. pose proof (sel_within t s Hw) as Hsel.
  destruct o; cbn [flat_insert_target] in Ho; try discriminate; injection Ho as ->; unfold step_sv; cbv zeta; sb.
  - destruct (o_flat_emplace (cid t) (sel t s) (elems m (cid t) (sel t s)) x (mv fl (Ext 0)) (elems_len _ _ _) Hsel) as [[n' [E Hn']]|[E Hf]];
      rewrite E; sb; [left; eexists; split; [reflexivity|apply upd_within; assumption]|right; split; [reflexivity|exact Hf]].
  - destruct (o_flat_emplace (cid t) (sel t s) (elems m (cid t) (sel t s)) x (Copy (Ext 0)) (elems_len _ _ _) Hsel) as [[n' [E Hn']]|[E Hf]];
      rewrite E; sb; [left; eexists; split; [reflexivity|apply upd_within; assumption]|right; split; [reflexivity|exact Hf]].
  - destruct (o_flat_emplace (cid t) (sel t s) (elems m (cid t) (sel t s)) x (Value x) (elems_len _ _ _) Hsel) as [[n' [E Hn']]|[E Hf]];
      rewrite E; sb; [left; eexists; split; [reflexivity|apply upd_within; assumption]|right; split; [reflexivity|exact Hf]].
Qed.

End Domain2.
