(* C03 model, part 1: the element-lifetime events of static_vector with NON-TRIVIAL storage
   (include/etl/_vector/static_vector.hpp), inplace_vector
   (include/etl/_inplace_vector/inplace_vector.hpp) and the adapters over a static_vector:
   stack (_stack/stack.hpp: its members are the vector's push_back / emplace_back / pop_back / swap),
   static_set (_set/static_set.hpp) and flat_set (_flat_set/flat_set.hpp).

   The model is the control flow of the header, written as a generator of lifetime events
   (C03.Trace): each constructor / assignment / destructor call of the element type that the
   C++ code performs is one event, in program order.  The VALUES are not modelled separately:
   they are obtained by executing the events on a value memory ([exec]): a copy copies, a move
   copies and leaves the marker [moved_marker] in its source (exactly what the harness' Tracked
   element type does), so a wrong source location or a copy in place of a move shows up in the
   observed element values as well.

   Element flavours: [fl = true] the element type has move operations (copy+move, move-only),
   [fl = false] it is copy-only, so every request to move is served by the copy operations
   ([mv]).  Operations that need copies do not compile for a move-only type and are simply not
   part of its histories.

   Same control flow as the value-level model coq/C01/Model.v (insert = append at the end then
   etl::rotate, erase = etl::move down then destroy the tail, assignment = clear + insert,
   swap = three move-assignments through a temporary vector); rotate is the swap sequence of
   coq/C06a/Model.v (rotate_loop / rotate_m), here as index pairs. *)
From Tetl Require Import Lib.Base C06a.Instances C03.Trace.
From Coq Require Import Arith.
Local Open Scope nat_scope.

(** * value memory: executing events *)
Definition vmem := list (loc * Z).
Fixpoint vget (m : vmem) (l : loc) : Z :=
  match m with
  | [] => 0%Z
  | (k, v) :: t => if loc_eqb k l then v else vget t l
  end.
Fixpoint vset (m : vmem) (l : loc) (v : Z) : vmem :=
  match m with
  | [] => [(l, v)]
  | (k, v0) :: t => if loc_eqb k l then (k, v) :: t else (k, v0) :: vset t l v
  end.

Definition moved_marker : Z := (-1)%Z.

Definition exec_how (m : vmem) (h : how) : Z * vmem :=
  match h with
  | Value x => (x, m)
  | Copy s => (vget m s, m)
  | Move s => (vget m s, vset m s moved_marker)
  end.
Definition exec (m : vmem) (e : event) : vmem :=
  match e with
  | Construct l h => let r := exec_how m h in vset (snd r) l (fst r)
  | Assign l h => let r := exec_how m h in vset (snd r) l (fst r)
  | Destroy _ => m
  | Use _ => m
  end.
Definition exec_all (m : vmem) (evs : list event) : vmem := fold_left exec evs m.

(** * generators: the events a call emits and how it ends *)
Inductive oc (A : Type) : Type :=
| Done (a : A)
| Stop       (* a TETL_PRECONDITION fired; the events emitted before it stay *)
| Fuel.      (* fuel of a fuelled loop ran out (excluded by the theorems) *)
Arguments Done {A} a.
Arguments Stop {A}.
Arguments Fuel {A}.

Definition G (A : Type) : Type := (list event * oc A)%type.
Definition ret {A} (a : A) : G A := ([], Done a).
Definition emit (evs : list event) : G unit := (evs, Done tt).
Definition stop {A} : G A := ([], Stop).
Definition require (b : bool) : G unit := if b then ret tt else stop.
Definition bind {A B} (g : G A) (f : A -> G B) : G B :=
  match snd g with
  | Done a => let r := f a in (fst g ++ fst r, snd r)
  | Stop => (fst g, Stop)
  | Fuel => (fst g, Fuel)
  end.
Notation "'do' x <- a ; b" := (bind a (fun x => b)) (at level 200, x name, a at level 100, b at level 200).
Notation "'exe' a ; b" := (bind a (fun _ => b)) (at level 200, a at level 100, b at level 200).

(** * histories, generically: two objects whose state is a pair of numbers (sizes / active indices),
   a step function that emits the events of one operation, the events of the two destructors *)
Record report := {
  r_done : bool;                      (* false: the step ended in a contract violation / fuel *)
  r_fuel : bool;
  r_obs : list Z * list Z;            (* observation of the two objects after the step *)
  r_ok : bool;                        (* every event of the step legal *)
  r_toks : list (loc * ptok);         (* the projection of the step *)
  r_tmp : nat;                        (* objects outside the two persistent storages alive after the step *)
  r_raw : list event                  (* the raw events (diagnostics only) *)
}.

Definition persistent (l : loc) : bool := match l with Slot c _ => c <? 2 | _ => false end.
Definition tmp_alive (a : amap) : nat := length (filter (fun l => negb (persistent l)) (alive_locs a)).

Definition completed (steps : list (list event * oc (nat * nat))) : bool :=
  forallb (fun st => match snd st with Done _ => true | _ => false end) steps.

Section Generic.
Context {O : Type}.
Variable stp : nat * nat -> vmem -> O -> G (nat * nat).
Variable fin : nat * nat -> list event.
Variable obs : vmem -> nat * nat -> list Z * list Z.
Variable self_of : O -> option bool.
Variable s0 : nat * nat.        (* the state of the two objects when the history starts ... *)
Variable ini : list event.      (* ... and the events of their construction *)

Fixpoint grun (s : nat * nat) (m : vmem) (ops : list O) : list (list event * oc (nat * nat)) * (nat * nat) * vmem :=
  match ops with
  | [] => ([], s, m)
  | o :: rest =>
      let g := stp s m o in
      let m' := exec_all m (fst g) in
      match snd g with
      | Done s' => let r := grun s' m' rest in ((fst g, Done s') :: fst (fst r), snd (fst r), snd r)
      | Stop => ([(fst g, Stop)], s, m')
      | Fuel => ([(fst g, Fuel)], s, m')
      end
  end.

Definition gtrace (ops : list O) : list event :=
  let r := grun s0 (exec_all [] ini) ops in
  ini ++ concat (map fst (fst (fst r))) ++ fin (snd (fst r)).

Definition ghistory_completed (ops : list O) : bool := completed (fst (fst (grun s0 (exec_all [] ini) ops))).

(* what the correspondence prints: per step the observation and the lifecycle projection *)
Fixpoint greports (s : nat * nat) (m : vmem) (a : amap) (ops : list O) : list report * (nat * nat) * amap :=
  match ops with
  | [] => ([], s, a)
  | o :: rest =>
      let g := stp s m o in
      let m' := exec_all m (fst g) in
      let mon := monitor a (fst g) in
      let a' := snd (fst mon) in
      let mk (d f : bool) (s' : nat * nat) :=
        {| r_done := d; r_fuel := f; r_obs := obs m' s';
           r_ok := fst (fst mon); r_toks := snd mon; r_tmp := tmp_alive a'; r_raw := fst g |} in
      match snd g with
      | Done s' => let r := greports s' m' a' rest in (mk true false s' :: fst (fst r), snd (fst r), snd r)
      | Stop => ([mk false false s], s, a')
      | Fuel => ([mk false true s], s, a')
      end
  end.

(* the whole case: the step reports, the report of the final destructors, the verdict (wf, alive) *)
Definition grun_case (ops : list O) : list report * report * (bool * nat) :=
  let mon0 := monitor [] ini in
  let r := greports s0 (exec_all [] ini) (snd (fst mon0)) ops in
  let s := snd (fst r) in
  let fin_evs := fin s in
  let mon := monitor (snd r) fin_evs in
  let frep := {| r_done := true; r_fuel := false; r_obs := ([], []); r_ok := fst (fst mon); r_toks := snd mon;
                 r_tmp := tmp_alive (snd (fst mon)); r_raw := fin_evs |} in
  (fst (fst r), frep,
   (fst (fst mon0) && forallb r_ok (fst (fst r)) && fst (fst mon), alive_count (snd (fst mon)))).

(* self-operations: is the observation of the object after the step the one before it *)
Fixpoint gself_checks (s : nat * nat) (m : vmem) (ops : list O) : list bool :=
  match ops with
  | [] => []
  | o :: rest =>
      let g := stp s m o in
      let m' := exec_all m (fst g) in
      match snd g with
      | Done s' =>
          let tl := gself_checks s' m' rest in
          match self_of o with
          | Some t =>
              let pick (p : list Z * list Z) := if t then snd p else fst p in
              let before := pick (obs m s) in
              let after := pick (obs m' s') in
              (if list_eq_dec Z.eq_dec before after then true else false) :: tl
          | None => tl
          end
      | _ => []
      end
  end.
End Generic.

(** * etl::rotate as the sequence of iter_swap index pairs (rotate.hpp) *)
(* the while loop: exactly last - read iterations *)
Fixpoint rot_loop (iters write read nextRead : nat) : list (nat * nat) * nat * nat :=
  match iters with
  | O => ([], write, nextRead)
  | S k =>
      let nr := if write =? nextRead then read else nextRead in
      let r := rot_loop k (S write) (S read) nr in
      ((write, read) :: fst (fst r), snd (fst r), snd r)
  end.
(* the recursion on the remainder; None = out of fuel *)
Fixpoint rot_m (fuel first nfirst last : nat) : option (list (nat * nat)) :=
  match fuel with
  | O => None
  | S k =>
      if first =? nfirst then Some []
      else if nfirst =? last then Some []
      else
        let r := rot_loop (last - nfirst) first nfirst first in
        match rot_m k (snd (fst r)) (snd r) last with
        | Some ps => Some (fst (fst r) ++ ps)
        | None => None
        end
  end.

(** * remove_if.hpp: the move-assignments (dst, src) it performs and the returned position *)
Fixpoint find_if_idx (p : Z -> bool) (vals : list Z) (i : nat) : nat :=
  match vals with
  | [] => i
  | x :: t => if p x then i else find_if_idx p t (S i)
  end.
(* i walks over the values after the first match; first is the write cursor *)
Fixpoint remove_loop (p : Z -> bool) (rest : list Z) (first i : nat) : list (nat * nat) * nat :=
  match rest with
  | [] => ([], first)
  | x :: t =>
      if p x then remove_loop p t first (S i)
      else let r := remove_loop p t (S first) (S i) in ((first, i) :: fst r, snd r)
  end.
Definition remove_if_idx (p : Z -> bool) (vals : list Z) : list (nat * nat) * nat :=
  let first := find_if_idx p vals 0 in
  if first =? length vals then ([], first)
  else remove_loop p (skipn (S first) vals) first (S first).

(** * lower_bound.hpp / upper_bound.hpp: the binary search, as the index it returns.
   [go_right v]: comp( *it, value) for lower_bound, !comp(value, *it) for upper_bound *)
Fixpoint bsearch_loop (fuel : nat) (go_right : Z -> bool) (vals : list Z) (first count : nat) : nat :=
  match fuel with
  | O => first
  | S k =>
      if count =? 0 then first
      else
        let step := count / 2 in
        if go_right (nth (first + step) vals 0%Z)
        then bsearch_loop k go_right vals (first + step + 1) (count - (step + 1))
        else bsearch_loop k go_right vals first step
  end.
Definition bsearch (go_right : Z -> bool) (vals : list Z) : nat :=
  bsearch_loop (S (length vals)) go_right vals 0 (length vals).
Definition lower_idx (vals : list Z) (x : Z) : nat := bsearch (fun v => (v <? x)%Z) vals.
Definition upper_idx (vals : list Z) (x : Z) : nat := bsearch (fun v => negb (x <? v)%Z) vals.

(** * histories on two objects (container ids 0 and 1) *)
Inductive op :=
| PushBackRv (t : bool) (x : Z)          (* v.push_back(T(x)) *)
| PushBackCr (t : bool) (x : Z)          (* T c(x); v.push_back(c) *)
| EmplaceBack (t : bool) (x : Z)         (* v.emplace_back(x) *)
| PopBack (t : bool)
| InsertCr (t : bool) (pos : nat) (x : Z)               (* T c(x); v.insert(p, c) *)
| InsertRv (t : bool) (pos : nat) (x : Z)               (* v.insert(p, T(x)) *)
| InsertN (t : bool) (pos k : nat) (x : Z)              (* T c(x); v.insert(p, k, c) *)
| InsertRange (t : bool) (pos : nat) (xs : list Z)      (* T src[] = xs; v.insert(p, src, src + n) *)
| MoveInsertRange (t : bool) (pos : nat) (xs : list Z)  (* T src[] = xs; v.move_insert(p, src, src + n) *)
| EmplaceAt (t : bool) (pos : nat) (x : Z)              (* v.emplace(p, x) *)
| EraseAt (t : bool) (pos : nat)
| EraseRange (t : bool) (f l : nat)
| Clear (t : bool)
| Resize (t : bool) (k : nat)
| ResizeVal (t : bool) (k : nat) (x : Z)
| AssignN (t : bool) (k : nat) (x : Z)
| AssignRange (t : bool) (xs : list Z)
| Swap                                    (* v0.swap(v1) *)
| CopyAssign (t : bool)                   (* vt = vother *)
| MoveAssign (t : bool)                   (* vt = move(vother); vother keeps its moved-from elements *)
| CopyConstruct (t : bool)                (* { Vec c(vt); } *)
| MoveConstruct (t : bool)                (* { Vec c(move(vt)); } *)
| MoveRoundTrip (t : bool)                (* { Vec tmp(move(vt)); vt = move(tmp); } *)
| EraseIf (t : bool) (pid : Z)
| EraseVal (t : bool) (x : Z)             (* T c(x); etl::erase(vt, c) *)
| SelfCopyAssign (t : bool) | SelfMoveAssign (t : bool) | SelfSwap (t : bool)
(* inplace_vector only *)
| IvTryPushCr (t : bool) (x : Z) | IvTryPushRv (t : bool) (x : Z) | IvTryEmplace (t : bool) (x : Z)
| IvUncheckedPushCr (t : bool) (x : Z) | IvUncheckedPushRv (t : bool) (x : Z) | IvUncheckedEmplace (t : bool) (x : Z)
| IvCopyConstruct (t : bool) | IvMoveConstruct (t : bool)
| IvCopyAssign (t : bool) | IvMoveAssign (t : bool)          (* vt = vother; vt = move(vother) *)
| IvSelfCopyAssign (t : bool) | IvSelfMoveAssign (t : bool)
(* static_set<T, N> (a sorted static_vector _storage; the other members are the vector's) *)
| SetInsertRv (t : bool) (x : Z)          (* T c(x); s.insert(move(c)) *)
| SetInsertCr (t : bool) (x : Z)          (* T c(x); s.insert(c) *)
| SetEmplace (t : bool) (x : Z)           (* s.emplace(x) *)
| SetEraseKey (t : bool) (x : Z)          (* T c(x); s.erase(c) *)
(* flat_set<T, static_vector<T, N>> *)
| FlatInsertRv (t : bool) (x : Z) | FlatInsertCr (t : bool) (x : Z)
| FlatEmplace (t : bool) (x : Z)
| FlatEraseKey (t : bool) (x : Z)
| FlatExtract (t : bool)                  (* { auto c = move(s).extract(); } *)
| FlatReplace (t : bool) (xs : list Z)    (* Vec c; c.emplace_back(x)...; s.replace(move(c)); *)
(* static_vector constructors of a scoped third object *)
| CtorN (k : nat)                         (* { Vec c(k); } *)
| CtorNVal (k : nat) (x : Z)              (* T v(x); { Vec c(k, v); } *)
| CtorRange (xs : list Z)                 (* T src[] = xs; { Vec c(src, src + n); } *)
(* sources that are not random-access iterators (forward iterators over T src[] = xs): the
   `if constexpr (RandomAccessIterator)` capacity precondition is absent, the elements are appended
   one by one and emplace_back's own precondition stops the loop when the vector is full *)
| InsertRangeFwd (t : bool) (pos : nat) (xs : list Z)       (* v.insert(p, fwd(src), fwd(src + n)) *)
| MoveInsertRangeFwd (t : bool) (pos : nat) (xs : list Z)   (* v.move_insert(p, fwd(src), fwd(src + n)) *)
| AssignRangeFwd (t : bool) (xs : list Z)                   (* v.assign(fwd(src), fwd(src + n)) *)
| CtorRangeFwd (xs : list Z)                                (* { Vec c(fwd(src), fwd(src + n)); } *)
| CtorMoveArr (xs : list Z).              (* T src[n] = xs; { Vec c(move(src)); }   static_vector(c_array<T, n>&&) *)

Definition cid (t : bool) : nat := if t then 1 else 0.
Definition sel (t : bool) (s : nat * nat) : nat := if t then snd s else fst s.
Definition upd (t : bool) (s : nat * nat) (n : nat) : nat * nat := if t then (fst s, n) else (n, snd s).

(* caller-side objects: T c(x) ... ~c, and T src[k] = {xs...} (constructed and destroyed in index order) *)
Fixpoint ext_constructs (k : nat) (xs : list Z) : list event :=
  match xs with
  | [] => []
  | x :: t => Construct (Ext k) (Value x) :: ext_constructs (S k) t
  end.
Definition exts (k : nat) : list loc := map Ext (seq 0 k).
Definition ext_destroys (k : nat) : list event := map (fun l => Destroy l) (exts k).

Definition with_ext {A} (xs : list Z) (body : G A) : G A :=
  exe emit (ext_constructs 0 xs) ; do r <- body ; exe emit (ext_destroys (length xs)) ; ret r.

Definition elems (m : vmem) (c n : nat) : list Z := map (fun i => vget m (Slot c i)) (seq 0 n).

Section Vec.
Variable fl : bool.    (* the element type has move operations *)
Variable cap : nat.    (* Capacity *)

(* T(etl::move(x)) / a = etl::move(x): a move when the type has one, else the copy operation *)
Definition mv (s : loc) : how := if fl then Move s else Copy s.

(* etl::swap(a, b): T temp(move(a)); a = move(b); b = move(temp); *)
Definition swap_ev (a b : loc) : list event :=
  [Construct (Temp 0) (mv a); Assign a (mv b); Assign b (mv (Temp 0)); Destroy (Temp 0)].

Definition rotate_g (c first nfirst last : nat) : G unit :=
  match rot_m (S (last - first)) first nfirst last with
  | Some ps => emit (flat_map (fun p => swap_ev (Slot c (fst p)) (Slot c (snd p))) ps)
  | None => ([], Fuel)
  end.

(* slots n, n+1, ... constructed from the given initialisers *)
Fixpoint constructs (c n : nat) (hs : list how) : list event :=
  match hs with
  | [] => []
  | h :: t => Construct (Slot c n) h :: constructs c (S n) t
  end.
(* for (; first != last; ++first) first->~T();   k slots starting at n *)
Fixpoint destroys (c n k : nat) : list event :=
  match k with
  | O => []
  | S k' => Destroy (Slot c n) :: destroys c (S n) k'
  end.
(* etl::move(first, last, dest) inside one container: k move-assignments *)
Fixpoint move_down (c dst src k : nat) : list event :=
  match k with
  | O => []
  | S k' => Assign (Slot c dst) (mv (Slot c src)) :: move_down c (S dst) (S src) k'
  end.
Definition slots (c n : nat) : list loc := map (Slot c) (seq 0 n).

(** ** static_vector members; c = the object's container id, n = its size() *)
(* storage::emplace_back(args...): TETL_PRECONDITION(!full()); new (end()) T(args...); ++size *)
Definition emplace_back (c n : nat) (h : how) : G nat :=
  exe require (negb (n =? cap)) ; exe emit [Construct (Slot c n) h] ; ret (S n).
(* push_back(U&&): TETL_PRECONDITION(!full()); emplace_back(forward<U>(value)) *)
Definition push_back (c n : nat) (h : how) : G nat :=
  exe require (negb (n =? cap)) ; emplace_back c n h.
Definition pop_back (c n : nat) : G nat :=
  exe require (negb (n =? 0)) ; exe emit [Destroy (Slot c (n - 1))] ; ret (n - 1).

Fixpoint emplace_all (c n : nat) (hs : list how) : G nat :=
  match hs with
  | [] => ret n
  | h :: t => do n' <- emplace_back c n h ; emplace_all c n' t
  end.
Fixpoint push_all (c n : nat) (hs : list how) : G nat :=
  match hs with
  | [] => ret n
  | h :: t => do n' <- push_back c n h ; push_all c n' t
  end.

(* move_insert(position, first, last), random-access source *)
Definition move_insert (c n pos : nat) (srcs : list loc) : G nat :=
  exe require (pos <=? n) ;
  exe require (n + length srcs <=? cap) ;
  do n' <- emplace_all c n (map mv srcs) ;
  exe rotate_g c pos n n' ;
  ret n'.
(* insert(position, n, x) *)
Definition insert_n (c n pos k : nat) (src : loc) : G nat :=
  exe require (pos <=? n) ;
  exe require (n + k <=? cap) ;
  do n' <- push_all c n (repeat (Copy src) k) ;
  exe rotate_g c pos n n' ;
  ret n'.
(* insert(position, first, last) *)
Definition insert_range (c n pos : nat) (srcs : list loc) : G nat :=
  exe require (pos <=? n) ;
  exe require (n + length srcs <=? cap) ;
  do n' <- emplace_all c n (map Copy srcs) ;
  exe rotate_g c pos n n' ;
  ret n'.
(* the same two members for a source that is not a random-access iterator *)
Definition move_insert_fwd (c n pos : nat) (srcs : list loc) : G nat :=
  exe require (pos <=? n) ;
  do n' <- emplace_all c n (map mv srcs) ;
  exe rotate_g c pos n n' ;
  ret n'.
Definition insert_range_fwd (c n pos : nat) (srcs : list loc) : G nat :=
  exe require (pos <=? n) ;
  do n' <- emplace_all c n (map Copy srcs) ;
  exe rotate_g c pos n n' ;
  ret n'.
(* insert(position, T&&) / insert(position, T const&) / emplace(position, args...) *)
Definition insert_rv (c n pos : nat) (src : loc) : G nat :=
  exe require (negb (n =? cap)) ; exe require (pos <=? n) ; move_insert c n pos [src].
Definition insert_cr (c n pos : nat) (src : loc) : G nat :=
  exe require (negb (n =? cap)) ; exe require (pos <=? n) ; insert_n c n pos 1 src.
Definition emplace_at_h (c n pos : nat) (h : how) : G nat :=
  exe require (negb (n =? cap)) ;
  exe require (pos <=? n) ;
  exe emit [Construct (Temp 1) h] ; (* value_type a(args...) *)
  do n' <- move_insert c n pos [Temp 1] ;
  exe emit [Destroy (Temp 1)] ;
  ret n'.
Definition emplace_at (c n pos : nat) (x : Z) : G nat := emplace_at_h c n pos (Value x).

(* clear(): unsafe_destroy_all(); unsafe_set_size(0) *)
Definition clear (c n : nat) : G nat := exe emit (destroys c 0 n) ; ret 0.
(* ~static_vector_non_trivial_storage(): unsafe_destroy_all() *)
Definition destructor (c n : nat) : list event := destroys c 0 n.

(* erase(first, last): unsafe_destroy(etl::move(p + (last - first), end(), p), end()); shrink *)
Definition erase_range (c n f l : nat) : G nat :=
  exe require (f <=? n) ; exe require (l <=? n) ; exe require (f <=? l) ;
  if f =? l then ret n
  else exe emit (move_down c f l (n - l)) ;
       exe emit (destroys c (f + (n - l)) (l - f)) ;
       ret (n - (l - f)).
Definition erase_at (c n pos : nat) : G nat :=
  exe require (pos <=? n) ; erase_range c n pos (S pos).

(* emplace_n(k): TETL_PRECONDITION(k <= capacity()); while (k != size()) emplace_back(T{}) *)
Fixpoint emplace_defaults (c n iters : nat) : G nat :=
  match iters with
  | O => ret n
  | S k =>
      exe emit [Construct (Temp 1) (Value 0%Z)] ;
      do n' <- emplace_back c n (mv (Temp 1)) ;
      exe emit [Destroy (Temp 1)] ;
      emplace_defaults c n' k
  end.
Definition emplace_n (c n k : nat) : G nat :=
  exe require (k <=? cap) ; emplace_defaults c n (k - n).

Definition resize (c n k : nat) : G nat :=
  if k =? n then ret n
  else if n <? k then emplace_n c n k
  else erase_range c n (n - (n - k)) n.
Definition resize_val (c n k : nat) (src : loc) : G nat :=
  if k =? n then ret n
  else if n <? k then exe require (k <=? cap) ; insert_n c n n (k - n) src
  else erase_range c n (n - (n - k)) n.

Definition assign_n (c n k : nat) (src : loc) : G nat :=
  exe require (k <=? cap) ; do n0 <- clear c n ; insert_n c n0 0 k src.
Definition assign_range (c n : nat) (srcs : list loc) : G nat :=
  exe require (length srcs <=? cap) ; do n0 <- clear c n ; insert_range c n0 0 srcs.
(* assign(first, last), not random access: clear(); insert(begin(), first, last) *)
Definition assign_range_fwd (c n : nat) (srcs : list loc) : G nat :=
  do n0 <- clear c n ; insert_range_fwd c n0 0 srcs.

(** ** static_set members; vals = the current element values (the comparisons read them) *)
(* insert(value_type&&): lower_bound; equivalent key present -> nothing; full -> nothing;
   else _storage.push_back(move(value)); rotate(p, end() - 1, end()) *)
Definition set_insert (c n : nat) (vals : list Z) (x : Z) (src : loc) : G nat :=
  let p := lower_idx vals x in
  if (p <? n) && negb (x <? nth p vals 0%Z)%Z then ret n
  else if n =? cap then ret n
  else do n' <- push_back c n (mv src) ; exe rotate_g c p n n' ; ret n'.
(* erase(key): lower_bound; found -> _storage.erase(pos) *)
Definition set_erase_key (c n : nat) (vals : list Z) (x : Z) : G nat :=
  let p := lower_idx vals x in
  if (p <? n) && negb (x <? nth p vals 0%Z)%Z then erase_at c n p else ret n.

(** ** flat_set members *)
(* emplace(args...): auto key = Key{args...}; lower_bound; new -> _container.emplace(it, move(key)) *)
Definition flat_emplace (c n : nat) (vals : list Z) (x : Z) (h : how) : G nat :=
  exe emit [Construct (Temp 2) h] ;
  let p := lower_idx vals x in
  do n' <- (if (p =? n) || (x <? nth p vals 0%Z)%Z then emplace_at_h c n p (mv (Temp 2)) else ret n) ;
  exe emit [Destroy (Temp 2)] ;
  ret n'.
(* erase(key): equal_range; erase(first, second) *)
Definition flat_erase_key (c n : nat) (vals : list Z) (x : Z) : G nat :=
  erase_range c n (lower_idx vals x) (upper_idx vals x).

(* constructors build into a fresh object (size 0); assignment from ANOTHER object (the
   self-assignment early return is the caller's case split) *)
Definition copy_construct (c o m : nat) : G nat := insert_range c 0 0 (slots o m).
Definition move_construct (c o m : nat) : G nat := move_insert c 0 0 (slots o m).
Definition copy_assign (c n o m : nat) : G nat := do n0 <- clear c n ; insert_range c n0 0 (slots o m).
Definition move_assign (c n o m : nat) : G nat := do n0 <- clear c n ; move_insert c n0 0 (slots o m).

(* a.swap(b): static_vector tmp = move(b); b = move(a); a = move(tmp); ~tmp.  tmp is container 2.
   b = move(a) returns early when a and b are the same object. *)
Definition swap_vec (a na b nb : nat) : G (nat * nat) :=
  do nt <- move_construct 2 b nb ;
  do nb' <- (if a =? b then ret nb else move_assign b nb a na) ;
  do na' <- move_assign a (if a =? b then nb' else na) 2 nt ;
  exe emit (destructor 2 nt) ;
  ret (na', if a =? b then na' else nb').

(* erase_if(c, pred) = remove_if + erase(it, end()); vals = the current element values *)
Definition erase_if (c n : nat) (p : Z -> bool) (vals : list Z) : G nat :=
  let r := remove_if_idx p vals in
  exe emit (map (fun d => Assign (Slot c (fst d)) (mv (Slot c (snd d)))) (fst r)) ;
  erase_range c n (snd r) n.

(** ** inplace_vector members *)
(* unchecked_emplace_back / unchecked_push_back: TETL_PRECONDITION(size() != max_size());
   construct_at(end(), ...); unsafe_set_size(size() + 1) *)
Definition iv_unchecked_push (c n : nat) (h : how) : G nat :=
  exe require (negb (n =? cap)) ; exe emit [Construct (Slot c n) h] ; ret (S n).
(* try_*: size() == capacity() -> nullptr, nothing happens *)
Definition iv_try_push (c n : nat) (h : how) : G nat :=
  if n =? cap then ret n else iv_unchecked_push c n h.
Definition iv_pop_back (c n : nat) : G nat :=
  exe require (negb (n =? 0)) ; exe emit [Destroy (Slot c (n - 1))] ; ret (n - 1).
Definition iv_clear (c n : nat) : G nat := exe emit (destroys c 0 n) ; ret 0.
Definition iv_destructor (c n : nat) : list event := destroys c 0 n.
(* copy constructor: uninitialized_copy; move constructor: uninitialized_move, then other.clear() *)
Definition iv_copy_construct (c o m : nat) : G nat := exe emit (constructs c 0 (map Copy (slots o m))) ; ret m.
Definition iv_move_construct (c o m : nat) : G (nat * nat) :=
  exe emit (constructs c 0 (map mv (slots o m))) ; do m' <- iv_clear o m ; ret (m, m').

(* copy assignment: if (this != &other) { clear(); uninitialized_copy; size = other.size }
   move assignment: ... uninitialized_move; size = other.size; other.clear() *)
Definition iv_copy_assign (c n o m : nat) : G nat :=
  do n0 <- iv_clear c n ; exe emit (constructs c n0 (map Copy (slots o m))) ; ret m.
Definition iv_move_assign (c n o m : nat) : G (nat * nat) :=
  do n0 <- iv_clear c n ; exe emit (constructs c n0 (map mv (slots o m))) ; do m' <- iv_clear o m ; ret (m, m').

Variable iv : bool.   (* the objects are inplace_vectors *)

Definition step_sv (s : nat * nat) (m : vmem) (o : op) : G (nat * nat) :=
  let on (t : bool) (g : G nat) : G (nat * nat) := do n <- g ; ret (upd t s n) in
  match o with
  | PushBackRv t x => on t (with_ext [x] (push_back (cid t) (sel t s) (mv (Ext 0))))
  | PushBackCr t x => on t (with_ext [x] (push_back (cid t) (sel t s) (Copy (Ext 0))))
  | EmplaceBack t x => on t (emplace_back (cid t) (sel t s) (Value x))
  | PopBack t => on t (pop_back (cid t) (sel t s))
  | InsertCr t pos x => on t (with_ext [x] (insert_cr (cid t) (sel t s) pos (Ext 0)))
  | InsertRv t pos x => on t (with_ext [x] (insert_rv (cid t) (sel t s) pos (Ext 0)))
  | InsertN t pos k x => on t (with_ext [x] (insert_n (cid t) (sel t s) pos k (Ext 0)))
  | InsertRange t pos xs => on t (with_ext xs (insert_range (cid t) (sel t s) pos (exts (length xs))))
  | MoveInsertRange t pos xs => on t (with_ext xs (move_insert (cid t) (sel t s) pos (exts (length xs))))
  | EmplaceAt t pos x => on t (emplace_at (cid t) (sel t s) pos x)
  | EraseAt t pos => on t (erase_at (cid t) (sel t s) pos)
  | EraseRange t f l => on t (erase_range (cid t) (sel t s) f l)
  | Clear t => on t (clear (cid t) (sel t s))
  | Resize t k => on t (resize (cid t) (sel t s) k)
  | ResizeVal t k x => on t (with_ext [x] (resize_val (cid t) (sel t s) k (Ext 0)))
  | AssignN t k x => on t (with_ext [x] (assign_n (cid t) (sel t s) k (Ext 0)))
  | AssignRange t xs => on t (with_ext xs (assign_range (cid t) (sel t s) (exts (length xs))))
  | Swap => swap_vec 0 (fst s) 1 (snd s)
  | CopyAssign t => on t (copy_assign (cid t) (sel t s) (cid (negb t)) (sel (negb t) s))
  | MoveAssign t => on t (move_assign (cid t) (sel t s) (cid (negb t)) (sel (negb t) s))
  | CopyConstruct t => do k <- copy_construct 2 (cid t) (sel t s) ; exe emit (destructor 2 k) ; ret s
  | MoveConstruct t => do k <- move_construct 2 (cid t) (sel t s) ; exe emit (destructor 2 k) ; ret s
  | MoveRoundTrip t =>
      do k <- move_construct 2 (cid t) (sel t s) ;
      do n <- move_assign (cid t) (sel t s) 2 k ;
      exe emit (destructor 2 k) ;
      ret (upd t s n)
  | EraseIf t pid => on t (erase_if (cid t) (sel t s) (pred_of pid) (elems m (cid t) (sel t s)))
  | EraseVal t x =>
      on t (with_ext [x] (erase_if (cid t) (sel t s) (fun y => Z.eqb y x) (elems m (cid t) (sel t s))))
  | SelfCopyAssign t => ret s            (* if (this == &other) return *this; *)
  | SelfMoveAssign t => ret s
  | SelfSwap t => do r <- swap_vec (cid t) (sel t s) (cid t) (sel t s) ; ret (upd t s (fst r))
  | SetInsertRv t x => on t (with_ext [x] (set_insert (cid t) (sel t s) (elems m (cid t) (sel t s)) x (Ext 0)))
  | SetInsertCr t x =>
      (* value_type tmp = value; return insert(move(tmp)); *)
      on t (with_ext [x] (exe emit [Construct (Temp 1) (Copy (Ext 0))] ;
                          do n' <- set_insert (cid t) (sel t s) (elems m (cid t) (sel t s)) x (Temp 1) ;
                          exe emit [Destroy (Temp 1)] ; ret n'))
  | SetEmplace t x =>
      (* insert(value_type(args...)) *)
      on t (exe emit [Construct (Temp 1) (Value x)] ;
            do n' <- set_insert (cid t) (sel t s) (elems m (cid t) (sel t s)) x (Temp 1) ;
            exe emit [Destroy (Temp 1)] ; ret n')
  | SetEraseKey t x => on t (with_ext [x] (set_erase_key (cid t) (sel t s) (elems m (cid t) (sel t s)) x))
  | FlatInsertRv t x => on t (with_ext [x] (flat_emplace (cid t) (sel t s) (elems m (cid t) (sel t s)) x (mv (Ext 0))))
  | FlatInsertCr t x => on t (with_ext [x] (flat_emplace (cid t) (sel t s) (elems m (cid t) (sel t s)) x (Copy (Ext 0))))
  | FlatEmplace t x => on t (flat_emplace (cid t) (sel t s) (elems m (cid t) (sel t s)) x (Value x))
  | FlatEraseKey t x => on t (with_ext [x] (flat_erase_key (cid t) (sel t s) (elems m (cid t) (sel t s)) x))
  | FlatExtract t =>
      (* auto container = move(_container); clear(); return container;  then the caller's object dies *)
      do k <- move_construct 2 (cid t) (sel t s) ;
      do n <- clear (cid t) (sel t s) ;
      exe emit (destructor 2 k) ;
      ret (upd t s n)
  | FlatReplace t xs =>
      (* the caller builds the container; replace: _container = move(container) *)
      do k <- emplace_all 2 0 (map Value xs) ;
      do n <- move_assign (cid t) (sel t s) 2 k ;
      exe emit (destructor 2 k) ;
      ret (upd t s n)
  | CtorN k =>
      (* static_vector(n): TETL_PRECONDITION(n <= capacity()); emplace_n(n); then the destructor *)
      do _ <- (exe require (k <=? cap) ; do n <- emplace_n 2 0 k ; exe emit (destructor 2 n) ; ret 0) ; ret s
  | CtorNVal k x =>
      (* static_vector(n, value): TETL_PRECONDITION(n <= capacity()); insert(begin(), n, value) *)
      do _ <- with_ext [x] (exe require (k <=? cap) ; do n <- insert_n 2 0 0 k (Ext 0) ; exe emit (destructor 2 n) ; ret 0) ;
      ret s
  | CtorRange xs =>
      (* static_vector(first, last): TETL_PRECONDITION(last - first <= capacity()); insert(begin(), first, last) *)
      do _ <- with_ext xs (exe require (length xs <=? cap) ;
                           do n <- insert_range 2 0 0 (exts (length xs)) ; exe emit (destructor 2 n) ; ret 0) ;
      ret s
  | InsertRangeFwd t pos xs => on t (with_ext xs (insert_range_fwd (cid t) (sel t s) pos (exts (length xs))))
  | MoveInsertRangeFwd t pos xs => on t (with_ext xs (move_insert_fwd (cid t) (sel t s) pos (exts (length xs))))
  | AssignRangeFwd t xs => on t (with_ext xs (assign_range_fwd (cid t) (sel t s) (exts (length xs))))
  | CtorRangeFwd xs =>
      (* static_vector(first, last), not random access: insert(begin(), first, last) *)
      do _ <- with_ext xs (do n <- insert_range_fwd 2 0 0 (exts (length xs)) ; exe emit (destructor 2 n) ; ret 0) ;
      ret s
  | CtorMoveArr xs =>
      (* static_vector(c_array<T, Size>&&): move_insert(begin(), begin(source), end(source)) *)
      do _ <- with_ext xs (do n <- move_insert 2 0 0 (exts (length xs)) ; exe emit (destructor 2 n) ; ret 0) ;
      ret s
  | _ => ret s                           (* not a static_vector operation: never generated *)
  end.

Definition step_iv (s : nat * nat) (m : vmem) (o : op) : G (nat * nat) :=
  let on (t : bool) (g : G nat) : G (nat * nat) := do n <- g ; ret (upd t s n) in
  match o with
  | IvTryPushCr t x => on t (with_ext [x] (iv_try_push (cid t) (sel t s) (Copy (Ext 0))))
  | IvTryPushRv t x => on t (with_ext [x] (iv_try_push (cid t) (sel t s) (mv (Ext 0))))
  | IvTryEmplace t x => on t (iv_try_push (cid t) (sel t s) (Value x))
  | IvUncheckedPushCr t x => on t (with_ext [x] (iv_unchecked_push (cid t) (sel t s) (Copy (Ext 0))))
  | IvUncheckedPushRv t x => on t (with_ext [x] (iv_unchecked_push (cid t) (sel t s) (mv (Ext 0))))
  | IvUncheckedEmplace t x => on t (iv_unchecked_push (cid t) (sel t s) (Value x))
  | PopBack t => on t (iv_pop_back (cid t) (sel t s))
  | Clear t => on t (iv_clear (cid t) (sel t s))
  | IvCopyConstruct t => do k <- iv_copy_construct 2 (cid t) (sel t s) ; exe emit (iv_destructor 2 k) ; ret s
  | IvMoveConstruct t =>
      do r <- iv_move_construct 2 (cid t) (sel t s) ; exe emit (iv_destructor 2 (fst r)) ; ret (upd t s (snd r))
  | IvCopyAssign t => on t (iv_copy_assign (cid t) (sel t s) (cid (negb t)) (sel (negb t) s))
  | IvMoveAssign t =>
      do r <- iv_move_assign (cid t) (sel t s) (cid (negb t)) (sel (negb t) s) ;
      ret (upd (negb t) (upd t s (fst r)) (snd r))
  | _ => ret s                           (* incl. the self assignments: this == &other *)
  end.

Definition step (s : nat * nat) (m : vmem) (o : op) : G (nat * nat) :=
  if iv then step_iv s m o else step_sv s m o.

(* the destructors at the end of a history: object 0, then object 1 *)
Definition final_events (s : nat * nat) : list event :=
  destructor 0 (fst s) ++ destructor 1 (snd s).

(* per step: its events and how it ended; the history stops at the first Stop / Fuel *)
Definition run : nat * nat -> vmem -> list op -> list (list event * oc (nat * nat)) * (nat * nat) * vmem :=
  grun step.

(* every event of a history, the destructors of the two objects included *)
Definition trace (ops : list op) : list event := gtrace step final_events (0, 0) [] ops.

Definition history_completed (ops : list op) : bool := ghistory_completed step (0, 0) [] ops.

End Vec.

(** * what the correspondence prints for the vector families *)
Definition obs_vec (m : vmem) (s : nat * nat) : list Z * list Z := (elems m 0 (fst s), elems m 1 (snd s)).

Definition reports (fl : bool) (cap : nat) (iv : bool) := greports (step fl cap iv) obs_vec.

Definition run_case (fl : bool) (cap : nat) (iv : bool) (ops : list op) : list report * report * (bool * nat) :=
  grun_case (step fl cap iv) final_events obs_vec (0, 0) [] ops.

(* self-operations: is the value after the step the value before it (per self-op of the history) *)
Definition is_self_op (o : op) : option bool :=
  match o with
  | SelfCopyAssign t | SelfMoveAssign t | SelfSwap t | IvSelfCopyAssign t | IvSelfMoveAssign t => Some t
  | _ => None
  end.

Definition self_checks (fl : bool) (cap : nat) (iv : bool) (s : nat * nat) (m : vmem) (ops : list op) : list bool :=
  gself_checks (step fl cap iv) obs_vec is_self_op s m ops.
