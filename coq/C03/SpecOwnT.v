(* C03 specification for histories that also use the by-type members of a variant (C03.ModelOwnT.xoop): the abstract
   state is which alternative each object holds (std::variant::index()); emplace<T> makes it the index of T, whatever
   was held before; the expected verdict is the constant of C03.Spec: every event legal, nothing alive after the
   destructors, every self-operation an identity, the storage of an object never holds two objects. *)
From Tetl Require Import Lib.Base C03.Trace C03.Model C03.ModelOwn C03.Spec C03.ModelOwnT.
From Coq Require Import Arith.
Local Open Scope nat_scope.

Definition own_spec_step_x (s : nat * nat) (o : xoop) : option (nat * nat) :=
  match o with
  | XBase o => own_spec_step s o
  | XEmplaceType t j _ | XAssignTmpType t j _ => Some (upd t s j)
  | XScopedType _ _ => Some s
  end.

Fixpoint own_spec_run_x (s : nat * nat) (ops : list xoop) : option (nat * nat) :=
  match ops with
  | [] => Some s
  | o :: rest => match own_spec_step_x s o with Some s' => own_spec_run_x s' rest | None => None end
  end.

Definition own_count_self_x (ops : list xoop) : nat :=
  length (filter (fun o => match own_self_x o with Some _ => true | None => false end) ops).

Definition own_spec_verdict_x (ops : list xoop) : option (bool * nat * list bool * bool) :=
  match own_spec_run_x (0, 0) ops with
  | Some _ => Some (true, 0, repeat true (own_count_self_x ops), true)
  | None => None
  end.
