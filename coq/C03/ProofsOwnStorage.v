(* C03: the storage view of variant / optional / expected / inplace_function histories.
   With the alternatives of an object collapsed into one location (C03.Trace.collapse) the trace is
   still well formed: no alternative is constructed while another alternative of the same object
   is alive.  Invariant: the storage of object 0 holds an object iff its live alternative is an
   instrumented type, same for object 1, nothing else is alive. *)
From Tetl Require Import Lib.Base C03.Trace C03.Model C03.ModelOwn C03.ProofsTrace C03.ProofsGen C03.ProofsVec C03.ProofsRun C03.ProofsOwn.
From Coq Require Import Arith.
Local Open Scope nat_scope.

Notation cev := (map collapse_event).

Section Storage.
Variable fl : bool.
Variable trk : nat -> bool.
Variable fn : bool.

Notation eff := (eff trk fn).

Definition shapeC (s : nat * nat) : aliveness :=
  fun l => match l with
           | Slot c i => (i =? 0) && (((c =? 0) && eff (fst s)) || ((c =? 1) && eff (snd s)))
           | _ => false
           end.
Definition invC (s : nat * nat) (a : aliveness) : Prop := same a (shapeC s).

Lemma legal_dst_c a c i : a (Slot c 0) = eff i -> legal a (cev (dst trk fn c i)) (setl a (Slot c 0) false).
Proof.
  intros H. unfold dst, when. destruct (eff i) eqn:E; cbn [map collapse_event collapse].
  - eapply legal_post; [apply legal_destroy; exact H|]. intros x. unfold fupd, setl. destruct (loc_eqb (Slot c 0) x); reflexivity.
  - eapply legal_post; [apply legal_nil|]. intros x. unfold setl. destruct (loc_eqb_spec (Slot c 0) x) as [<-|]; cbn; [exact H|reflexivity].
Qed.

Lemma legal_con_c a c i h : a (Slot c 0) = false -> (eff i = true -> bsrc_ok a (collapse_how h) = true) ->
  legal a (cev (con trk fn c i h)) (setl a (Slot c 0) (eff i)).
Proof.
  intros H Hs. unfold con, when. destruct (eff i) eqn:E; cbn [map collapse_event collapse].
  - eapply legal_post; [apply legal_construct; [exact H|apply Hs; reflexivity]|]. intros x. unfold fupd, setl. destruct (loc_eqb (Slot c 0) x); reflexivity.
  - eapply legal_post; [apply legal_nil|]. intros x. unfold setl. destruct (loc_eqb_spec (Slot c 0) x) as [<-|]; cbn; [exact H|reflexivity].
Qed.

Lemma legal_asg_c a c i h : a (Slot c 0) = eff i -> (eff i = true -> bsrc_ok a (collapse_how h) = true) ->
  legal a (cev (asg trk fn c i h)) a.
Proof.
  intros H Hs. unfold asg, when. destruct (eff i) eqn:E; cbn [map collapse_event collapse]; [|apply legal_nil].
  apply legal_assign; [exact H|apply Hs; reflexivity].
Qed.

Lemma legal_use_c a c i : a (Slot c 0) = eff i -> legal a (cev (when trk fn i [Use (Slot c i)])) a.
Proof.
  intros H. unfold when. destruct (eff i) eqn:E; cbn [map collapse_event collapse]; [|apply legal_nil].
  unfold legal. cbn [brun bstep fst snd]. rewrite H. split; [reflexivity|apply same_refl].
Qed.

Lemma legal_ext_con_c a j x : a (Ext 0) = false ->
  legal a (cev (when trk fn j [Construct (Ext 0) (Value x)])) (setl a (Ext 0) (eff j)).
Proof.
  intros H. unfold when. destruct (eff j) eqn:E; cbn [map collapse_event collapse collapse_how].
  - eapply legal_post; [apply legal_construct; [exact H|reflexivity]|]. intros y. unfold fupd, setl. destruct (loc_eqb (Ext 0) y); reflexivity.
  - eapply legal_post; [apply legal_nil|]. intros y. unfold setl. destruct (loc_eqb_spec (Ext 0) y) as [<-|]; cbn; [exact H|reflexivity].
Qed.
Lemma legal_ext_dst_c a j : a (Ext 0) = eff j ->
  legal a (cev (when trk fn j [Destroy (Ext 0)])) (setl a (Ext 0) false).
Proof.
  intros H. unfold when. destruct (eff j) eqn:E; cbn [map collapse_event collapse].
  - eapply legal_post; [apply legal_destroy; exact H|]. intros y. unfold fupd, setl. destruct (loc_eqb (Ext 0) y); reflexivity.
  - eapply legal_post; [apply legal_nil|]. intros y. unfold setl. destruct (loc_eqb_spec (Ext 0) y) as [<-|]; cbn; [exact H|reflexivity].
Qed.

(* the collapsed generator *)
Definition cgen {A} (g : G A) : G A := (cev (fst g), snd g).

Lemma triple_done_c a evs a1 s' :
  legal a (cev evs) a1 -> same a1 (shapeC s') -> triple a (cgen (exe emit evs ; ret s')) invC.
Proof.
  intros [H1 H2] HS. unfold cgen, bind, emit, ret. cbn [fst snd]. rewrite app_nil_r.
  split; [exact H1|]. unfold invC. eapply same_trans; eassumption.
Qed.

Lemma mv_collapse s : collapse_how (mv fl s) = mv fl (collapse s).
Proof. unfold mv. destruct fl; reflexivity. Qed.

Ltac norm_eqb :=
  repeat match goal with
         | |- context [Nat.eqb ?x ?x] => rewrite (Nat.eqb_refl x)
         | |- context [Nat.eqb ?x ?y] =>
             destruct (Nat.eqb_spec x y); [try first [subst x|subst y]|]; try congruence
         end.
Ltac bs :=
  cbn [loc_eqb bsrc_ok src_of fst snd];
  norm_eqb; cbn [andb orb negb];
  repeat match goal with H : eff _ = _ |- _ => rewrite H end;
  cbn [andb orb negb];
  repeat match goal with |- context [eff ?i] => destruct (eff i) end;
  cbn [andb orb negb]; first [reflexivity | congruence].
Ltac un :=
  unfold setl, shapeC; cbn [fst snd];
  repeat match goal with H : same ?a _ |- context [?a _] => rewrite !H end;
  unfold shapeC; cbn [fst snd].
Ltac side := intros; rewrite ?mv_collapse; cbn [collapse_how collapse]; rewrite ?bsrc_ok_mv; cbn [bsrc_ok src_of]; first [reflexivity | un; bs].
Ltac leg :=
  first [ apply legal_nil
        | apply legal_dst_c; side
        | apply legal_con_c; side
        | apply legal_asg_c; side
        | apply legal_use_c; side
        | apply legal_ext_con_c; side
        | apply legal_ext_dst_c; side ].
Ltac legs := repeat (first [leg | eapply legal_app; [leg|]]).
Ltac fin := let l := fresh "l" in intros l; destruct l as [?c ?i|?k|?k]; un; bs.

Ltac prep :=
  cbn [cid sel upd negb fst snd]; unfold v_assign, ext_for, relocate;
  repeat match goal with
         | |- context [if Nat.eqb ?x ?y then _ else _] => destruct (Nat.eqb_spec x y); [try first [subst x|subst y]|]
         end;
  rewrite <- ?app_assoc.
Ltac solve_op Ha :=
  first [ split; [reflexivity|exact Ha]
        | split; [reflexivity|exact I]
        | eapply triple_done_c; [rewrite ?map_app; legs|fin] ].

Lemma cstep_var_inv s m o a : invC s a -> triple a (cgen (step_var fl trk fn s m o)) invC.
Proof.
  unfold invC. intros Ha. destruct s as [i0 i1].
  destruct o as [t j x|t j x|t j x|t j x|t j x|t|t|t|t|t|t| |t|t k x|t|t|t|t|t|t|t| |t|t|t j x|t j x|j x|t j|t j|t k x|t j x];
    unfold step_var; cbv zeta; try (split; [reflexivity|exact Ha]);
    try destruct t; prep; timeout 60 (solve_op Ha).
Qed.

Lemma cstep_fun_inv s m o a : fn = true -> invC s a -> triple a (cgen (step_fun fl trk fn s m o)) invC.
Proof.
  unfold invC. intros Hfn Ha. pose proof (eff0 trk fn Hfn) as E0. destruct s as [i0 i1].
  destruct o as [t j x|t j x|t j x|t j x|t j x|t|t|t|t|t|t| |t|t k x|t|t|t|t|t|t|t| |t|t|t j x|t j x|j x|t j|t j|t k x|t j x];
    unfold step_fun; cbv zeta; try (split; [reflexivity|exact Ha]);
    try destruct t; prep; timeout 60 (solve_op Ha).
Qed.

Definition cstep (s : nat * nat) (m : vmem) (o : oop) : G (nat * nat) := cgen (step_own fl trk fn s m o).

Lemma cstep_inv s m o a : invC s a -> triple a (cstep s m o) invC.
Proof.
  intros Ha. unfold cstep, step_own.
  pose proof (cstep_fun_inv s m o a) as HF. pose proof (cstep_var_inv s m o a Ha) as HV.
  set (F := step_fun fl trk fn s m o) in *. set (V := step_var fl trk fn s m o) in *.
  destruct (bool_cases fn) as [Hfn|Hfn]; rewrite Hfn; [apply HF; assumption|exact HV].
Qed.

Lemma cinit_legal : legal nothing (cev (own_init trk fn)) (shapeC (0, 0)).
Proof.
  assert (Ha : same nothing nothing) by apply same_refl.
  unfold own_init. rewrite map_app. eapply legal_post; [eapply legal_app; [apply legal_con_c; side|apply legal_con_c; side]|].
  fin.
Qed.

Lemma cfinal_legal s a : invC s a -> legal a (cev (own_final trk fn s)) nothing.
Proof.
  unfold invC. intros Ha. destruct s as [i0 i1]. unfold own_final. cbn [fst snd]. rewrite map_app.
  eapply legal_post; [eapply legal_app; [apply legal_dst_c; side|apply legal_dst_c; side]|].
  fin.
Qed.

(** the collapsed run is the collapse of the run (the step function does not look at the values) *)
Lemma step_own_mem s m m' o : step_own fl trk fn s m o = step_own fl trk fn s m' o.
Proof. unfold step_own, step_fun, step_var. destruct fn, o; reflexivity. Qed.

Definition csteps (steps : list (list event * oc (nat * nat))) := map (fun st => (cev (fst st), snd st)) steps.

Lemma grun_collapse ops : forall s m m',
  fst (fst (grun cstep s m' ops)) = csteps (fst (fst (grun (step_own fl trk fn) s m ops))) /\
  snd (fst (grun cstep s m' ops)) = snd (fst (grun (step_own fl trk fn) s m ops)).
Proof.
  induction ops as [|o rest IH]; intros s m m'; cbn [grun]; [split; reflexivity|].
  assert (E : cstep s m' o = cgen (step_own fl trk fn s m o)).
  { unfold cstep. rewrite (step_own_mem s m' m o). reflexivity. }
  rewrite E. clear E.
  destruct (step_own fl trk fn s m o) as [evs [s'| |]]; unfold cgen; cbn [fst snd csteps map]; try (split; reflexivity).
  destruct (IH s' (exec_all m evs) (exec_all m' (cev evs))) as [I1 I2]. rewrite I1, I2. split; reflexivity.
Qed.

Lemma events_of_csteps steps : events_of (csteps steps) = cev (events_of steps).
Proof.
  unfold events_of, csteps. induction steps as [|st t IH]; cbn [map concat]; [reflexivity|].
  rewrite map_app, IH. reflexivity.
Qed.

Lemma completed_csteps steps : completed (csteps steps) = completed steps.
Proof. unfold completed, csteps. induction steps as [|st t IH]; cbn [map forallb fst snd]; [reflexivity|]. rewrite IH. reflexivity. Qed.

Lemma own_completed_storage_wf ops : own_completed fl trk fn ops = true ->
  storage_wf (own_trace fl trk fn ops) = true.
Proof.
  intros Hc. unfold storage_wf, own_trace, gtrace. rewrite !map_app.
  fold (events_of (fst (fst (grun (step_own fl trk fn) (0, 0) (exec_all [] (own_init trk fn)) ops)))).
  destruct (grun_collapse ops (0, 0) (exec_all [] (own_init trk fn)) (exec_all [] (cev (own_init trk fn)))) as [G1 G2].
  assert (Hc' : ghistory_completed cstep (0, 0) (cev (own_init trk fn)) ops = true).
  { unfold ghistory_completed. rewrite G1, completed_csteps. exact Hc. }
  assert (Hini : fst (brun nothing (cev (own_init trk fn))) = true) by apply cinit_legal.
  assert (Hinv : invC (0, 0) (snd (brun nothing (cev (own_init trk fn))))) by apply cinit_legal.
  destruct (gcompleted_lifecycle cstep (fun s => cev (own_final trk fn s)) invC (0, 0) (cev (own_init trk fn))
              Hini Hinv cstep_inv cfinal_legal ops Hc') as [W _].
  unfold gtrace in W. fold (events_of (fst (fst (grun cstep (0, 0) (exec_all [] (cev (own_init trk fn))) ops)))) in W.
  rewrite G1, G2, events_of_csteps in W. exact W.
Qed.

End Storage.
