(* C03: self copy/move assignment and self swap of a static_vector / inplace_vector leave the
   element values unchanged.  Self assignment returns early (no event); self swap moves every
   element into the temporary vector and back, which is followed here on the value memory. *)
From Tetl Require Import Lib.Base C06a.Instances C03.Trace C03.Model C03.Spec C03.ProofsOwnSelf.
From Coq Require Import Arith Lia.
Local Open Scope nat_scope.

Section VecSelf.
Variable fl : bool.
Variable cap : nat.

(** * what a completed generator emitted *)
Lemma bind_done {A B} (g : G A) (f : A -> G B) evs b : bind g f = (evs, Done b) ->
  exists e1 a e2, g = (e1, Done a) /\ f a = (e2, Done b) /\ evs = e1 ++ e2.
Proof.
  unfold bind. destruct g as [e1 [a| |]]; cbn [fst snd]; try discriminate.
  destruct (f a) as [e2 o] eqn:E. cbn [fst snd]. intros [= <- ->]. exists e1, a, e2. auto.
Qed.

Lemma require_done b evs u : require b = (evs, Done u) -> b = true /\ evs = [].
Proof. destruct b; cbn; [intros [= <- _]; auto|discriminate]. Qed.

Lemma emplace_back_done c n h evs n' : emplace_back cap c n h = (evs, Done n') ->
  evs = [Construct (Slot c n) h] /\ n' = S n.
Proof.
  unfold emplace_back. intros H.
  apply bind_done in H. destruct H as [e1 [[] [e2 [H1 [H2 ->]]]]]. apply require_done in H1. destruct H1 as [_ ->].
  apply bind_done in H2. destruct H2 as [e3 [[] [e4 [H3 [H4 ->]]]]]. unfold emit in H3. injection H3 as <-.
  unfold ret in H4. injection H4 as <- <-. split; reflexivity.
Qed.

Lemma emplace_all_done c hs : forall n evs n', emplace_all cap c n hs = (evs, Done n') ->
  evs = constructs c n hs /\ n' = n + length hs.
Proof.
  induction hs as [|h t IH]; intros n evs n' H; cbn [emplace_all constructs length] in *.
  - unfold ret in H. injection H as <- <-. split; [reflexivity|lia].
  - apply bind_done in H. destruct H as [e1 [n1 [e2 [H1 [H2 ->]]]]].
    apply emplace_back_done in H1. destruct H1 as [-> ->].
    apply IH in H2. destruct H2 as [-> ->]. split; [reflexivity|lia].
Qed.

Lemma move_insert_front_done c srcs evs n' : move_insert fl cap c 0 0 srcs = (evs, Done n') ->
  evs = constructs c 0 (map (mv fl) srcs) /\ n' = length srcs.
Proof.
  unfold move_insert. intros H.
  apply bind_done in H. destruct H as [e1 [[] [e2 [H1 [H2 ->]]]]]. apply require_done in H1. destruct H1 as [_ ->].
  apply bind_done in H2. destruct H2 as [e3 [[] [e4 [H3 [H4 ->]]]]]. apply require_done in H3. destruct H3 as [_ ->].
  apply bind_done in H4. destruct H4 as [e5 [n1 [e6 [H5 [H6 ->]]]]].
  apply emplace_all_done in H5. destruct H5 as [-> ->]. rewrite map_length in *.
  apply bind_done in H6. destruct H6 as [e7 [[] [e8 [H7 [H8 ->]]]]].
  unfold rotate_g in H7. cbn [rot_m Nat.eqb] in H7. unfold emit in H7. cbn [flat_map] in H7. injection H7 as <-.
  unfold ret in H8. injection H8 as <- <-. cbn [app]. rewrite !app_nil_r. split; reflexivity.
Qed.

(** * values *)
Lemma exec_all_app m e1 e2 : exec_all m (e1 ++ e2) = exec_all (exec_all m e1) e2.
Proof. unfold exec_all. apply fold_left_app. Qed.

Lemma exec_destroys c k : forall lo m, exec_all m (destroys c lo k) = m.
Proof. induction k as [|k IH]; intros lo m; cbn [destroys]; [reflexivity|]. unfold exec_all in *. cbn [fold_left exec]. apply IH. Qed.

Ltac bdec :=
  repeat match goal with
         | |- context [Nat.eqb ?a ?b] => destruct (Nat.eqb_spec a b); [try first [subst a|subst b]|]; cbn [andb orb]
         | |- context [Nat.leb ?a ?b] => destruct (Nat.leb_spec a b); cbn [andb orb]
         | |- context [Nat.ltb ?a ?b] => destruct (Nat.ltb_spec a b); cbn [andb orb]
         end;
  rewrite ?vget_vset; cbn [loc_eqb];
  repeat match goal with
         | |- context [Nat.eqb ?a ?b] => destruct (Nat.eqb_spec a b); [try first [subst a|subst b]|]; cbn [andb orb]
         end;
  rewrite ?andb_false_r, ?andb_true_r; cbn [andb orb];
  first [reflexivity | lia | congruence | (destruct fl; cbn [andb orb]; first [reflexivity | lia | congruence])].

(* moving the first elements of container c into the (fresh) slots of container d, d <> c *)
Lemma exec_moves d c n : d <> c -> forall k m x,
  vget (exec_all m (constructs d k (map (mv fl) (map (Slot c) (seq k n))))) x =
  match x with
  | Slot e i =>
      if (e =? d) && (k <=? i) && (i <? k + n) then vget m (Slot c i)
      else if fl && (e =? c) && (k <=? i) && (i <? k + n) then moved_marker
      else vget m x
  | _ => vget m x
  end.
Proof.
  intros Hdc. induction n as [|n IH]; intros k m x; cbn [seq map constructs].
  - unfold exec_all. cbn [fold_left]. destruct x as [e i| |]; try reflexivity. bdec.
  - unfold exec_all in *. cbn [fold_left]. rewrite IH. clear IH.
    unfold mv. destruct fl; cbn [exec exec_how fst snd andb];
      destruct x as [e i| |]; rewrite ?vget_vset; cbn [loc_eqb]; try reflexivity; bdec.
Qed.

Lemma elems_ext m m' c n : (forall i, i < n -> vget m' (Slot c i) = vget m (Slot c i)) -> elems m' c n = elems m c n.
Proof.
  intros H. unfold elems. apply map_ext_in. intros i Hi. apply in_seq in Hi. apply H. lia.
Qed.

Lemma slots_len o k : length (slots o k) = k.
Proof. unfold slots. rewrite map_length, seq_length. reflexivity. Qed.

(* x.swap(x) *)
Lemma self_swap_values c n m evs r : c < 2 ->
  swap_vec fl cap c n c n = (evs, Done r) ->
  r = (n, n) /\ elems (exec_all m evs) c n = elems m c n.
Proof.
  intros Hc H. unfold swap_vec in H. rewrite Nat.eqb_refl in H.
  apply bind_done in H. destruct H as [e1 [nt [e2 [H1 [H2 ->]]]]].
  unfold move_construct in H1. apply move_insert_front_done in H1. destruct H1 as [-> ->].
  rewrite ?slots_len in *.
  apply bind_done in H2. destruct H2 as [e3 [nb [e4 [H3 [H4 ->]]]]]. unfold ret in H3. injection H3 as <- <-.
  apply bind_done in H4. destruct H4 as [e5 [na [e6 [H5 [H6 ->]]]]].
  unfold move_assign in H5. apply bind_done in H5. destruct H5 as [e7 [n0 [e8 [H7 [H8 ->]]]]].
  unfold clear in H7. apply bind_done in H7. destruct H7 as [e9 [[] [e10 [H9 [H10 ->]]]]].
  unfold emit in H9. injection H9 as <-. unfold ret in H10. injection H10 as <- <-.
  apply move_insert_front_done in H8. destruct H8 as [-> ->]. rewrite ?slots_len in *.
  apply bind_done in H6. destruct H6 as [e11 [[] [e12 [H11 [H12 ->]]]]].
  unfold emit in H11. injection H11 as <-. unfold ret in H12. injection H12 as <- <-.
  split; [reflexivity|].
  apply elems_ext. intros i Hi.
  rewrite ?app_nil_r, !exec_all_app. unfold destructor, slots. rewrite !exec_destroys.
  assert (H2c : 2 <> c) by lia. assert (Hc2 : c <> 2) by lia.
  rewrite (exec_moves c 2 n Hc2 0). cbn [Nat.add]. rewrite Nat.eqb_refl. cbn [andb Nat.leb].
  destruct (Nat.ltb_spec i n); [|lia].
  change (exec_all ?x []) with x. rewrite (exec_moves 2 c n H2c 0). rewrite Nat.eqb_refl. cbn [andb Nat.leb Nat.add].
  destruct (Nat.ltb_spec i n); [reflexivity|lia].
Qed.

Variable iv : bool.

Lemma step_self s m o t evs s' : is_self_op o = Some t ->
  step fl cap iv s m o = (evs, Done s') ->
  pick t (obs_vec m s) = pick t (obs_vec (exec_all m evs) s').
Proof.
  intros Ho H. unfold step in H.
  destruct (if_cases _ _ _ _ H) as [[_ H1]|[_ H1]]; clear H.
  - (* inplace_vector: self assignment returns early, the rest is not one of its operations *)
    destruct o; cbn [is_self_op] in Ho; try discriminate; injection Ho as <-; cbn [step_iv] in H1;
      unfold ret in H1; injection H1 as <- <-; reflexivity.
  - destruct o; cbn [is_self_op] in Ho; try discriminate; injection Ho as <-; unfold step_sv in H1; cbv zeta in H1;
      try (unfold ret in H1; injection H1 as <- <-; reflexivity).
    apply bind_done in H1. destruct H1 as [e1 [r [e2 [H1 [H2 ->]]]]]. unfold ret in H2. injection H2 as <- <-.
    rewrite app_nil_r.
    assert (Hc : cid t0 < 2) by (destruct t0; cbn; lia).
    destruct (self_swap_values (cid t0) (sel t0 s) m e1 r Hc H1) as [-> Hv]. cbn [fst].
    destruct s as [n0 n1]. destruct t0; cbn [cid sel upd pick obs_vec fst snd] in *; exact (eq_sym Hv).
Qed.

Lemma vec_self_all ops : forall s m,
  completed (fst (fst (grun (step fl cap iv) s m ops))) = true ->
  gself_checks (step fl cap iv) obs_vec is_self_op s m ops = repeat true (count_self ops).
Proof.
  induction ops as [|o rest IH]; intros s m Hc; cbn [gself_checks grun] in *; [reflexivity|].
  destruct (step fl cap iv s m o) as [evs [s'| |]] eqn:E; cbn [fst snd] in *;
    try (unfold completed in Hc; cbn in Hc; discriminate).
  assert (Hc' : completed (fst (fst (grun (step fl cap iv) s' (exec_all m evs) rest))) = true).
  { unfold completed in *. cbn [forallb fst snd] in Hc. exact Hc. }
  specialize (IH s' (exec_all m evs) Hc'). rewrite IH.
  unfold count_self. cbn [filter].
  destruct (is_self_op o) as [t|] eqn:Eo; [|reflexivity].
  pose proof (step_self s m o t evs s' Eo E) as Hp. unfold pick in Hp.
  cbn [length repeat]. f_equal.
  destruct (list_eq_dec Z.eq_dec (if t then snd (obs_vec m s) else fst (obs_vec m s))
                       (if t then snd (obs_vec (exec_all m evs) s') else fst (obs_vec (exec_all m evs) s'))) as [_|N];
    [reflexivity|exfalso; apply N; exact Hp].
Qed.

Lemma vec_self_identity ops : history_completed fl cap iv ops = true ->
  self_checks fl cap iv (0, 0) [] ops = repeat true (count_self ops).
Proof. intros Hc. unfold self_checks. apply vec_self_all. exact Hc. Qed.

End VecSelf.
