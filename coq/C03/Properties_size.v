(* C03: the stored element count of static_vector / inplace_vector (and the adapters over a static_vector) as a value of
   size_type = etl::smallest_size_t<Capacity> (ModelSize.v): no count in 0..Capacity is lost by the conversion, so for
   every capacity a size_t can hold and every history size() is the number of element objects in the storage. *)
From Tetl Require Import Lib.Base C03.ModelSize C03.ProofsSize C03.ProofsSizeIdeal.
Local Open Scope Z_scope.

(* smallest_size_t<Capacity> holds every count 0..Capacity (static_cast<size_type> is the reduction modulo 2^bits) *)
Theorem C03_size_type_holds_every_count : forall cap n,
  0 <= cap < 2 ^ 64 -> 0 <= n <= cap ->
  size_cast cap n = wrapu (size_bits cap) n /\ wrapu (size_bits cap) n = n.
Proof.
  intros cap n Hc Hn. split; [apply size_cast_wrapu|]. rewrite <- size_cast_wrapu. apply size_cast_id; assumption.
Qed.
Print Assumptions C03_size_type_holds_every_count.

(* every state of every history (any family, flavour, capacity): for both objects the stored count size() equals the number
   of element objects that exist in the storage and is at most Capacity; every special member call so far was legal *)
Theorem C03_size_count_never_wraps : forall cap fl kd triv ops,
  0 <= cap < 2 ^ 64 ->
  Forall (fun r => match r with
                   | Some s => c_size (s_a s) = Z.of_nat (length (c_mem (s_a s))) /\ c_size (s_a s) <= cap /\
                               c_size (s_b s) = Z.of_nat (length (c_mem (s_b s))) /\ c_size (s_b s) <= cap /\
                               c_live (s_a s) = c_size (s_a s) /\ c_live (s_b s) = c_size (s_b s) /\
                               w_ok (s_w s) = true
                   | None => True
                   end) (crun_code cap fl kd triv ops).
Proof.
  intros cap fl kd triv ops Hc. unfold crun_code.
  assert (Hcast : forall n, 0 <= n <= cap -> size_cast cap n = n) by (intros n Hn; apply size_cast_id; assumption).
  pose proof (crun_good (size_cast cap) cap fl kd triv (proj1 Hc) Hcast ops cst0 (goods0 (size_cast cap) cap (proj1 Hc) Hcast)) as F.
  eapply Forall_impl; [|exact F]. intros [s|] H; [|exact I].
  destruct H as ((A1 & A2 & A3) & (B1 & B2 & B3) & W). unfold okw in W. repeat split; try assumption; lia.
Qed.
Print Assumptions C03_size_count_never_wraps.

(* a completed history: the two destructors run on exactly the objects that exist; nothing is left alive *)
Theorem C03_size_nothing_left_alive : forall cap fl kd triv ops s,
  0 <= cap < 2 ^ 64 ->
  clast_code cap fl kd triv ops = Some s ->
  w_ok (s_w (cfinal s)) = true /\ alive_of (cfinal s) = 0.
Proof.
  intros cap fl kd triv ops s Hc H. unfold clast_code in H.
  assert (Hcast : forall n, 0 <= n <= cap -> size_cast cap n = n) by (intros n Hn; apply size_cast_id; assumption).
  pose proof (clast_good (size_cast cap) cap fl kd triv (proj1 Hc) Hcast ops cst0 s (goods0 (size_cast cap) cap (proj1 Hc) Hcast) H) as G.
  exact (cfinal_good cap s G).
Qed.
Print Assumptions C03_size_nothing_left_alive.

(* model = specification: the model of the code (every update of the count converted to smallest_size_t<Capacity>) is, state by
   state, counter by counter and outcome by outcome, the model over a count that is never converted (the spec leg of `bmon`) *)
Theorem C03_size_code_is_unconverted_count : forall cap fl kd triv ops,
  0 <= cap < 2 ^ 64 -> crun_code cap fl kd triv ops = crun_ideal cap fl kd triv ops.
Proof.
  intros cap fl kd triv ops Hc. unfold crun_code, crun_ideal.
  assert (Hcast : forall n, 0 <= n <= cap -> size_cast cap n = n) by (intros n Hn; apply size_cast_id; assumption).
  apply (crun_eq (size_cast cap) cap fl kd triv (proj1 Hc) Hcast ops cst0). exact (goods0 (size_cast cap) cap (proj1 Hc) Hcast).
Qed.
Print Assumptions C03_size_code_is_unconverted_count.

(* the width is what the statements above rest on: the same members over an 8 bit count at capacity 300 (a 16 bit count at
   capacity 70000) report size() == 0 with 256 (65536) elements alive, and the destructor leaves all of them alive *)
Definition narrow_run (w cap : Z) (kd : kind) (n : Z) : bool :=
  match clast (wrapu w) cap true kd false cst0 [CFill false n 1] with
  | Some s => (c_size (s_a s) =? 0) && (c_live (s_a s) =? n) && (alive_of (cfinal s) =? n) && w_ok (s_w s)
  | None => false
  end.
Theorem C03_size_narrower_type_refuted :
  narrow_run 8 300 KSv 256 = true /\ narrow_run 16 70000 KIv 65536 = true /\
  (* ... and with one element more the next constructor runs on slot 0, which holds an object *)
  (match clast (wrapu 8) 300 true KSv false cst0 [CFill false 257 1] with Some s => w_ok (s_w s) | None => true end) = false.
Proof.
  split; [vm_cast_no_check (eq_refl true)|split; [vm_cast_no_check (eq_refl true)|vm_cast_no_check (eq_refl false)]].
Qed.
Print Assumptions C03_size_narrower_type_refuted.

(* histories that cross the limits complete, for every family *)
Example C03_size_nonvacuous :
  clast_code 300 true KSv false [CFill false 257 1; CPop false 2; CCopyCtor false; CMoveAssign true; CSwap; CResize false 300] <> None /\
  clast_code 70000 false KIv false [CFill false 65537 1; CPop false 2; CMoveCtor false] <> None /\
  clast_code 300 true KSet false [CFill false 257 1; CErase false 3 9; CCopyAssign true] <> None /\
  clast_code 300 true KFlat false [CFill false 257 1; CErase false 3 9; CMoveCtor false] <> None /\
  clast_code 300 true KStack false [CFill false 257 1; CPop false 2; CCopyCtor false] <> None.
Proof. repeat split; vm_compute; discriminate. Qed.
