From Tetl Require Import Lib.Base C06a.Instances C03.Trace C03.Model C03.Spec.
Require Extraction.
Require Import ExtrOcamlBasic.
Extraction Language OCaml.
Extraction "C03_model.ml" wire_anchor wf_trace all_dead monitor run_case self_checks trace spec_verdict.
