From Tetl Require Import Lib.Base C06a.Instances C03.Trace C03.Model C03.ModelOwn C03.ModelAgg C03.ModelMem C03.Spec C03.ModelOwnT C03.SpecOwnT C03.ModelSize.
Require Extraction.
Require Import ExtrOcamlBasic.
Extraction Language OCaml.
Extraction "C03_model.ml" wire_anchor wf_trace all_dead monitor run_case self_checks trace spec_verdict
  own_run_case own_self_checks own_trace own_spec_verdict storage_wf trk_of
  own_run_case_x own_self_checks_x own_trace_x own_spec_verdict_x
  agg_run_case agg_self_checks agg_count_self
  uninit arun alive
  size_bits size_cast crun_code crun_ideal cfinal cobs alive_of cst0.
