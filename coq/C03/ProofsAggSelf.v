(* C03: self assignment and self swap of a pair / tuple leave the member values unchanged. *)
From Tetl Require Import Lib.Base C03.Trace C03.Model C03.ModelAgg C03.ProofsOwnSelf C03.ProofsVecSelf.
From Coq Require Import Arith Lia.
Local Open Scope nat_scope.

Section AggSelf.
Variable fl : bool.
Variable k : nat.

Lemma exec_self_assign_copy m l x : vget (exec m (Assign l (Copy l))) x = vget m x.
Proof. cbn [exec exec_how fst snd]. rewrite vget_vset. destruct (loc_eqb_spec l x) as [->|]; reflexivity. Qed.

Lemma exec_self_assign_mv m l x : vget (exec m (Assign l (mv fl l))) x = vget m x.
Proof.
  unfold mv. destruct fl; cbn [exec exec_how fst snd]; rewrite !vget_vset;
    destruct (loc_eqb_spec l x) as [->|]; reflexivity.
Qed.

Lemma exec_self_assigns (hk : loc -> how) c js :
  (forall m l x, vget (exec m (Assign l (hk l))) x = vget m x) ->
  forall m x, vget (exec_all m (map (fun j => Assign (Slot c j) (hk (Slot c j))) js)) x = vget m x.
Proof.
  intros H. induction js as [|j t IH]; intros m x; unfold exec_all in *; cbn [map fold_left]; [reflexivity|].
  rewrite IH. apply H.
Qed.

Lemma exec_self_swap m l x : l <> Temp 0 -> x <> Temp 0 -> vget (exec_all m (swap_ev fl l l)) x = vget m x.
Proof.
  intros Hl Hx. unfold swap_ev, exec_all, mv.
  assert (E1 : loc_eqb (Temp 0) x = false) by (destruct (loc_eqb_spec (Temp 0) x); congruence).
  assert (E2 : loc_eqb l (Temp 0) = false) by (destruct (loc_eqb_spec l (Temp 0)); congruence).
  assert (E3 : loc_eqb (Temp 0) l = false) by (destruct (loc_eqb_spec (Temp 0) l); congruence).
  destruct fl; cbn [fold_left exec exec_how fst snd]; rewrite ?vget_vset, ?loc_eqb_refl, ?E1, ?E2, ?E3;
    destruct (loc_eqb_spec l x) as [->|]; rewrite ?vget_vset, ?loc_eqb_refl, ?E1, ?E2, ?E3; try reflexivity.
Qed.

Lemma exec_self_swaps c js : forall m x, x <> Temp 0 ->
  vget (exec_all m (flat_map (fun j => swap_ev fl (Slot c j) (Slot c j)) js)) x = vget m x.
Proof.
  induction js as [|j t IH]; intros m x Hx; cbn [flat_map]; [reflexivity|].
  rewrite exec_all_app, IH by exact Hx. apply exec_self_swap; [discriminate|exact Hx].
Qed.

Lemma step_agg_self s m o t evs s' : agg_self o = Some t ->
  step_agg fl k s m o = (evs, Done s') ->
  pick t (obs_vec m s) = pick t (obs_vec (exec_all m evs) s').
Proof.
  destruct o; cbn [agg_self]; try discriminate; intros [= <-]; unfold step_agg; cbv zeta;
    unfold bind, emit, ret; cbn [fst snd]; intros [= <- <-]; rewrite app_nil_r;
    destruct s as [n0 n1]; destruct t0; cbn [pick obs_vec fst snd cid]; symmetry; apply elems_ext; intros i Hi.
  all: try (unfold agg_assign; apply exec_self_assigns; intros; first [apply exec_self_assign_copy|apply exec_self_assign_mv]).
  all: unfold agg_swap; apply exec_self_swaps; discriminate.
Qed.

Lemma agg_self_all ops : forall s m,
  gself_checks (step_agg fl k) obs_vec agg_self s m ops = repeat true (agg_count_self ops).
Proof.
  induction ops as [|o rest IH]; intros s m; cbn [gself_checks]; [reflexivity|].
  assert (E : exists evs, step_agg fl k s m o = (evs, Done s)).
  { destruct o; unfold step_agg; cbv zeta; unfold bind, emit, ret; cbn [fst snd]; eexists; reflexivity. }
  destruct E as [evs E]. rewrite E. cbn [fst snd]. rewrite IH.
  unfold agg_count_self. cbn [filter].
  destruct (agg_self o) as [t|] eqn:Eo; [|reflexivity].
  pose proof (step_agg_self s m o t evs s Eo E) as Hp. unfold pick in Hp.
  cbn [length repeat]. f_equal.
  destruct (list_eq_dec Z.eq_dec (if t then snd (obs_vec m s) else fst (obs_vec m s))
                       (if t then snd (obs_vec (exec_all m evs) s) else fst (obs_vec (exec_all m evs) s))) as [_|N];
    [reflexivity|exfalso; apply N; exact Hp].
Qed.

Lemma agg_self_identity ops : agg_self_checks fl k ops = repeat true (agg_count_self ops).
Proof. unfold agg_self_checks. apply agg_self_all. Qed.

End AggSelf.
