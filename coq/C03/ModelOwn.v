(* C03 model, part 2: owners of ONE contained object at a time.

   etl::variant<Ts...> (include/etl/_variant/variant.hpp, variadic_union.hpp), and on top of it
   etl::optional<T> = variant<nullopt_t, T> (_optional/optional.hpp: emplace = emplace<1>,
   reset = emplace<0>(nullopt), copy/move construction and assignment are the variant's, swap =
   etl::swap) and etl::expected<T, E> = variant<T, E> (_expected/expected.hpp: emplace =
   emplace<0>, everything else is the variant's); etl::inplace_function
   (_functional/inplace_function.hpp: _vtable + _storage).

   The state of an object is the index of the alternative it holds (variant: _index;
   inplace_function: which callable type the vtable belongs to, 0 = the empty vtable).  The
   location of alternative i of object c is [Slot c i]: the alternatives of one object are
   different locations although they share their storage, so that destroying or assigning an
   alternative that is not the live one is a use of dead storage; that no alternative is
   constructed while another one of the same object is alive is the extra statement
   [storage_wf] (C03.Trace: the trace stays well formed when the alternatives of an object are
   collapsed into one location).  Alternatives that are not instrumented class types (int,
   nullopt_t, the empty vtable) have no special members to observe: no events ([eff]).

   Same conventions as C03.Model: events in program order, values by executing the events,
   [mv]: a request to move is served by the copy operations when the type has no move operations. *)
From Tetl Require Import Lib.Base C03.Trace C03.Model.
From Coq Require Import Arith.
Local Open Scope nat_scope.

Inductive oop :=
(* variant / optional / expected *)
| VEmplace (t : bool) (j : nat) (x : Z)        (* v.emplace<j>(x)   (optional: emplace(x) / reset()) *)
| VAssignRv (t : bool) (j : nat) (x : Z)       (* v = Tj(x) *)
| VAssignCr (t : bool) (j : nat) (x : Z)       (* Tj c(x); v = c *)
| VAssignConv (t : bool) (j : nat) (x : Z)     (* v = Tj(x) through the converting constructor: v = V(Tj(x)) (optional) *)
| VAssignTmp (t : bool) (j : nat) (x : Z)      (* { V tmp(in_place_index<j>, x); v = move(tmp); } *)
| VCopyAssign (t : bool)                       (* vt = vother *)
| VMoveAssign (t : bool)                       (* vt = move(vother) *)
| VSelfCopyAssign (t : bool) | VSelfMoveAssign (t : bool)
| VCopyConstruct (t : bool)                    (* { V c(vt); } *)
| VMoveConstruct (t : bool)                    (* { V c(move(vt)); } *)
| VSwap                                        (* etl::swap(v0, v1) (optional: v0.swap(v1)) *)
| VSelfSwap (t : bool)
(* inplace_function *)
| FAssign (t : bool) (k : nat) (x : Z)         (* f = Ck(x) *)
| FAssignNull (t : bool)                       (* f = nullptr *)
| FCopyAssign (t : bool) | FMoveAssign (t : bool)
| FSelfCopyAssign (t : bool) | FSelfMoveAssign (t : bool)
| FCopyConstruct (t : bool)                    (* { F c(ft); } *)
| FMoveConstruct (t : bool)                    (* { F c(move(ft)); }  ft is empty afterwards *)
| FSwap | FSelfSwap (t : bool)
| FInvoke (t : bool)                           (* ft() *)
(* optional / expected: value_or *)
| VValueOrC (t : bool) (j : nat) (x : Z)       (* Tj d(x); { Tj r = v.value_or(d); }            j = the value alternative *)
| VValueOrM (t : bool) (j : nat) (x : Z)       (* Tj d(x); { Tj r = move(v).value_or(move(d)); } *)
(* a scoped object built from a value: { V c(in_place_index<j>, x); }  (optional(U&&), optional(optional<U>),
   expected(in_place, x), expected(unexpect, x)) *)
| VScopedValue (j : nat) (x : Z)
(* a copy / a moved copy of alternative j of vt is made and destroyed iff it is the live one:
   expected::and_then (j = error alternative) and or_else (j = value alternative) in the const& / && forms *)
| VCopyIf (t : bool) (j : nat)
| VMoveIf (t : bool) (j : nat)
(* inplace_function from an lvalue callable: Ck c(x); f = c *)
| FAssignCr (t : bool) (k : nat) (x : Z)
(* optional = optional<U> (copy / move form, /repo ba039d7): other empty (j = 0) -> reset(); both engaged ->
   **this = *other, ONE call of T::operator=(U) on the contained value (as [optional.assign] says); else emplace( *other) *)
| VAssignFromU (t : bool) (j : nat) (x : Z).

Section Own.
Variable fl : bool.            (* the instrumented types have move operations *)
Variable trk : nat -> bool.    (* alternative i is an instrumented class type *)
Variable fn : bool.            (* the objects are inplace_functions: index 0 is the empty state *)

Definition eff (i : nat) : bool := if fn then negb (i =? 0) && trk i else trk i.
Definition when (i : nat) (evs : list event) : list event := if eff i then evs else [].
Definition con (c i : nat) (h : how) : list event := when i [Construct (Slot c i) h].
Definition asg (c i : nat) (h : how) : list event := when i [Assign (Slot c i) h].
Definition dst (c i : nat) : list event := when i [Destroy (Slot c i)].

(* variant::assign(other): same index -> assign through, else destroy(); replace(index, value) *)
Definition v_assign (c i o j : nat) (hk : loc -> how) : list event :=
  if i =? j then asg c i (hk (Slot o j)) else dst c i ++ con c j (hk (Slot o j)).
(* the caller-side object Tj(x) around a call *)
Definition ext_for (j : nat) (x : Z) (body : list event) : list event :=
  when j [Construct (Ext 0) (Value x)] ++ body ++ when j [Destroy (Ext 0)].
(* relocate_ptr(dst, src): ::new (dst) C{move(src[0])}; src->~C() *)
Definition relocate (c k o : nat) : list event := con c k (mv fl (Slot o k)) ++ dst o k.

Definition step_var (s : nat * nat) (m : vmem) (o : oop) : G (nat * nat) :=
  let done (evs : list event) (s' : nat * nat) : G (nat * nat) := exe emit evs ; ret s' in
  match o with
  | VEmplace t j x =>
      (* destroy(); replace(index_v<j>, x) *)
      done (dst (cid t) (sel t s) ++ con (cid t) j (Value x)) (upd t s j)
  | VAssignRv t j x =>
      (* operator=(T&&): index() == j -> this->operator[](j) = forward(t), else emplace<Tj>(forward(t)) *)
      done (ext_for j x (v_assign (cid t) (sel t s) 3 j (fun _ => mv fl (Ext 0)))) (upd t s j)
  | VAssignCr t j x =>
      done (ext_for j x (v_assign (cid t) (sel t s) 3 j (fun _ => Copy (Ext 0)))) (upd t s j)
  | VAssignConv t j x =>
      done (ext_for j x (con 2 j (mv fl (Ext 0)) ++ v_assign (cid t) (sel t s) 2 j (mv fl) ++ dst 2 j)) (upd t s j)
  | VAssignTmp t j x =>
      done (con 2 j (Value x) ++ v_assign (cid t) (sel t s) 2 j (mv fl) ++ dst 2 j) (upd t s j)
  | VCopyAssign t =>
      done (v_assign (cid t) (sel t s) (cid (negb t)) (sel (negb t) s) Copy) (upd t s (sel (negb t) s))
  | VMoveAssign t =>
      done (v_assign (cid t) (sel t s) (cid (negb t)) (sel (negb t) s) (mv fl)) (upd t s (sel (negb t) s))
  | VSelfCopyAssign t => done (asg (cid t) (sel t s) (Copy (Slot (cid t) (sel t s)))) s
  | VSelfMoveAssign t => done (asg (cid t) (sel t s) (mv fl (Slot (cid t) (sel t s)))) s
  | VCopyConstruct t =>
      (* variant(other, copy_move_tag): replace(index, value); then the destructor of the copy *)
      done (con 2 (sel t s) (Copy (Slot (cid t) (sel t s))) ++ dst 2 (sel t s)) s
  | VMoveConstruct t =>
      done (con 2 (sel t s) (mv fl (Slot (cid t) (sel t s))) ++ dst 2 (sel t s)) s
  | VSwap =>
      (* etl::swap: T temp(move(a)); a = move(b); b = move(temp); *)
      done (con 2 (fst s) (mv fl (Slot 0 (fst s))) ++
            v_assign 0 (fst s) 1 (snd s) (mv fl) ++
            v_assign 1 (snd s) 2 (fst s) (mv fl) ++
            dst 2 (fst s)) (snd s, fst s)
  | VSelfSwap t =>
      done (con 2 (sel t s) (mv fl (Slot (cid t) (sel t s))) ++
            asg (cid t) (sel t s) (mv fl (Slot (cid t) (sel t s))) ++
            asg (cid t) (sel t s) (mv fl (Slot 2 (sel t s))) ++
            dst 2 (sel t s)) s
  | VValueOrC t j x =>
      (* has_value() ? **this : static_cast<T>(forward<U>(default)); the result dies in the caller *)
      done (ext_for j x (con 2 j (Copy (if sel t s =? j then Slot (cid t) j else Ext 0)) ++ dst 2 j)) s
  | VValueOrM t j x =>
      done (ext_for j x (con 2 j (mv fl (if sel t s =? j then Slot (cid t) j else Ext 0)) ++ dst 2 j)) s
  | VScopedValue j x => done (con 2 j (Value x) ++ dst 2 j) s
  | VAssignFromU t j x =>
      done (if sel t s =? j then asg (cid t) j (Value x) else dst (cid t) (sel t s) ++ con (cid t) j (Value x)) (upd t s j)
  | VCopyIf t j =>
      (* has_value() ? invoke(f, **this) : U(unexpect, error())   --   the copy lives in the result *)
      done (if sel t s =? j then con 2 j (Copy (Slot (cid t) j)) ++ dst 2 j else []) s
  | VMoveIf t j =>
      done (if sel t s =? j then con 2 j (mv fl (Slot (cid t) j)) ++ dst 2 j else []) s
  | _ => ret s
  end.

(* inplace_function operations (only meaningful when index 0 is the empty state) *)
Definition step_fun (s : nat * nat) (m : vmem) (o : oop) : G (nat * nat) :=
  let done (evs : list event) (s' : nat * nat) : G (nat * nat) := exe emit evs ; ret s' in
  match o with
  | FAssign t k x =>
      (* operator=(inplace_function other): other is built from the callable; destructor_ptr(own);
         vtable = exchange(other.vtable, empty); relocate_ptr(own, other); ~other is empty *)
      done (ext_for k x (con 2 k (mv fl (Ext 0)) ++ dst (cid t) (sel t s) ++ relocate (cid t) k 2)) (upd t s k)
  | FAssignCr t k x =>
      (* the parameter [other] is built by inplace_function(T&&) with T = Ck&: ::new (storage) Ck{closure} copies *)
      done (ext_for k x (con 2 k (Copy (Ext 0)) ++ dst (cid t) (sel t s) ++ relocate (cid t) k 2)) (upd t s k)
  | FAssignNull t => done (dst (cid t) (sel t s)) (upd t s 0)
  | FCopyAssign t =>
      done (con 2 (sel (negb t) s) (Copy (Slot (cid (negb t)) (sel (negb t) s))) ++
            dst (cid t) (sel t s) ++ relocate (cid t) (sel (negb t) s) 2) (upd t s (sel (negb t) s))
  | FMoveAssign t =>
      done (relocate 2 (sel (negb t) s) (cid (negb t)) ++
            dst (cid t) (sel t s) ++ relocate (cid t) (sel (negb t) s) 2) (upd t (upd (negb t) s 0) (sel (negb t) s))
  | FSelfCopyAssign t =>
      done (con 2 (sel t s) (Copy (Slot (cid t) (sel t s))) ++
            dst (cid t) (sel t s) ++ relocate (cid t) (sel t s) 2) s
  | FSelfMoveAssign t =>
      done (relocate 2 (sel t s) (cid t) ++ relocate (cid t) (sel t s) 2) s
  | FCopyConstruct t => done (con 2 (sel t s) (Copy (Slot (cid t) (sel t s))) ++ dst 2 (sel t s)) s
  | FMoveConstruct t => done (relocate 2 (sel t s) (cid t) ++ dst 2 (sel t s)) (upd t s 0)
  | FSwap =>
      (* storage tmp; relocate(tmp, this); other.relocate(this, other); relocate(other, tmp); swap(vtables) *)
      done (relocate 2 (fst s) 0 ++ relocate 0 (snd s) 1 ++ relocate 1 (fst s) 2) (snd s, fst s)
  | FSelfSwap t => ret s      (* if (this == addressof(other)) return; *)
  | FInvoke t =>
      (* the empty vtable raises bad_function_call *)
      if sel t s =? 0 then stop else done (when (sel t s) [Use (Slot (cid t) (sel t s))]) s
  | _ => ret s
  end.

Definition step_own (s : nat * nat) (m : vmem) (o : oop) : G (nat * nat) :=
  if fn then step_fun s m o else step_var s m o.

(* both objects are default-constructed (variant: alternative 0, value-initialised) ... *)
Definition own_init : list event := con 0 0 (Value 0%Z) ++ con 1 0 (Value 0%Z).
(* ... and destroyed at the end *)
Definition own_final (s : nat * nat) : list event := dst 0 (fst s) ++ dst 1 (snd s).

(* observation: per object the index and the value of the live alternative (0 when not instrumented) *)
Definition obs_own (m : vmem) (s : nat * nat) : list Z * list Z :=
  let one (c i : nat) := [Z.of_nat i; if eff i then vget m (Slot c i) else 0%Z] in
  (one 0 (fst s), one 1 (snd s)).

Definition own_self (o : oop) : option bool :=
  match o with
  | VSelfCopyAssign t | VSelfMoveAssign t | VSelfSwap t
  | FSelfCopyAssign t | FSelfMoveAssign t | FSelfSwap t => Some t
  | _ => None
  end.

Definition own_trace (ops : list oop) : list event := gtrace step_own own_final (0, 0) own_init ops.
Definition own_completed (ops : list oop) : bool := ghistory_completed step_own (0, 0) own_init ops.

End Own.

Definition own_run_case (fl : bool) (trk : nat -> bool) (fn : bool) (ops : list oop) : list report * report * (bool * nat) :=
  grun_case (step_own fl trk fn) (own_final trk fn) (obs_own trk fn) (0, 0) (own_init trk fn) ops.

Definition own_self_checks (fl : bool) (trk : nat -> bool) (fn : bool) (ops : list oop) : list bool :=
  gself_checks (step_own fl trk fn) (obs_own trk fn) own_self (0, 0) (exec_all [] (own_init trk fn)) ops.

(* [trk] given as the list of the instrumented alternatives (for the extracted driver) *)
Definition trk_of (l : list nat) (i : nat) : bool := existsb (Nat.eqb i) l.
