(* C03: uninitialized_copy / uninitialized_move / uninitialized_fill incl. the exception path: every event is
   legal; when the exception leaves the function no destination slot holds an object (what was built is destroyed
   exactly once), otherwise exactly the destination slots hold one. *)
From Tetl Require Import Lib.Base C03.Trace C03.Model C03.ModelMem C03.ProofsTrace C03.ProofsGen C03.ProofsVec.
From Coq Require Import Arith ZifyBool.
Local Open Scope nat_scope.

Lemma firstn_in {A} k (l : list A) x : In x (firstn k l) -> In x l.
Proof. revert l. induction k as [|k IH]; intros [|y t] H; cbn [firstn] in H; try contradiction. destruct H as [->|H]; [left; reflexivity|right; apply IH; exact H]. Qed.

Lemma uninit_legal a c hs throw_at :
  (forall i, a (Slot c i) = false) ->
  (forall h, In h hs -> bsrc_ok a h = true) ->
  legal a (fst (uninit c hs throw_at))
        (fun l => a l || (negb (snd (uninit c hs throw_at)) && in_range c 0 (length hs) l)).
Proof.
  intros Hd Hs.
  assert (Hall : legal a (constructs c 0 hs) (fun l => a l || in_range c 0 (0 + length hs) l)).
  { apply legal_constructs; [intros i _; apply Hd|exact Hs]. }
  unfold uninit. destruct throw_at as [k|]; [destruct (Nat.ltb_spec k (length hs)) as [Hk|Hk]|]; cbn [fst snd negb andb].
  - (* the (k+1)-th construction throws *)
    assert (Hlen : length (firstn k hs) = k) by (rewrite firstn_length; lia).
    eapply legal_post.
    + eapply legal_app.
      * apply legal_constructs; [intros i _; apply Hd|]. intros h Hh. apply Hs. eapply firstn_in. exact Hh.
      * apply legal_destroys. intros i Hi. rewrite Hlen. cbn [in_range]. rewrite Nat.eqb_refl. cbn [Nat.add] in *.
        destruct (Nat.leb_spec 0 i), (Nat.ltb_spec i k); cbn [andb]; try lia; try apply orb_true_r.
    + rewrite Hlen. intros l. cbn [Nat.add]. rewrite orb_false_r.
      destruct l as [c' i|j|j]; cbn [in_range]; rewrite ?orb_false_r, ?andb_true_r; try reflexivity.
      destruct (Nat.eqb_spec c' c) as [->|]; cbn [andb]; [|rewrite orb_false_r, andb_true_r; reflexivity].
      rewrite Hd. cbn [orb]. destruct (Nat.ltb_spec i k); cbn; reflexivity.
  - eapply legal_post; [exact Hall|]. intros l. reflexivity.
  - eapply legal_post; [exact Hall|]. intros l. reflexivity.
Qed.

(* on the automaton itself, from ANY state in which the destination holds no object and the sources are alive *)
Lemma uninit_exception_safe m c hs throw_at :
  (forall i, alive m (Slot c i) = false) ->
  (forall h, In h hs -> src_ok m h = true) ->
  let r := uninit c hs throw_at in
  fst (arun m (fst r)) = true /\
  (forall i, alive (snd (arun m (fst r))) (Slot c i) = negb (snd r) && (i <? length hs)) /\
  (forall l, (forall i, l <> Slot c i) -> alive (snd (arun m (fst r))) l = alive m l).
Proof.
  intros Hd Hs r.
  assert (HL : legal (alive m) (fst r) (fun l => alive m l || (negb (snd r) && in_range c 0 (length hs) l))).
  { apply uninit_legal; [exact Hd|]. intros h Hh. specialize (Hs h Hh). unfold src_ok in Hs. unfold bsrc_ok. exact Hs. }
  destruct HL as [H1 H2].
  destruct (arun_brun (fst r) m (alive m) (same_refl _) H1) as [H3 H4].
  split; [exact H3|]. split.
  - intros i. rewrite H4, H2, Hd. cbn [orb in_range]. rewrite Nat.eqb_refl. cbn [andb Nat.leb]. reflexivity.
  - intros l Hl. rewrite H4, H2. destruct l as [c' i|j|j]; cbn [in_range]; rewrite ?andb_false_r, ?orb_false_r; try reflexivity.
    destruct (Nat.eqb_spec c' c) as [->|]; [exfalso; apply (Hl i); reflexivity|]. cbn [andb]. rewrite andb_false_r, orb_false_r. reflexivity.
Qed.

