(* C03: the forms of static_vector's range members for sources that are not random-access iterators
   (no capacity precondition up front) against the random-access forms:
   - when the elements fit, both forms emit exactly the same events and end in the same state;
   - when they do not fit, the random-access form stops BEFORE the first event, the other form
     constructs the elements that fit (slots size() .. capacity() - 1, in order, from the first
     sources) and is then stopped by emplace_back's own precondition: the elements built so far
     stay in the vector (they are alive, the prefix is legal: C03_vec_prefix_wf). *)
From Tetl Require Import Lib.Base C03.Trace C03.Model.
From Coq Require Import Arith Lia.
Local Open Scope nat_scope.

Section Fwd.
Variable fl : bool.
Variable cap : nat.

Lemma bind_ret_tt {B} (f : unit -> G B) : bind (ret tt) f = f tt.
Proof. unfold bind, ret. cbn [fst snd app]. destruct (f tt); reflexivity. Qed.

Lemma require_true b : b = true -> require b = ret tt.
Proof. intros ->. reflexivity. Qed.

Lemma insert_range_fwd_fits c n pos srcs : n + length srcs <= cap ->
  insert_range_fwd fl cap c n pos srcs = insert_range fl cap c n pos srcs.
Proof.
  intros H. unfold insert_range_fwd, insert_range.
  destruct (pos <=? n) eqn:E; cbn [require]; [|reflexivity].
  rewrite !bind_ret_tt. rewrite (require_true (n + length srcs <=? cap)) by (apply Nat.leb_le; exact H).
  rewrite bind_ret_tt. reflexivity.
Qed.

Lemma move_insert_fwd_fits c n pos srcs : n + length srcs <= cap ->
  move_insert_fwd fl cap c n pos srcs = move_insert fl cap c n pos srcs.
Proof.
  intros H. unfold move_insert_fwd, move_insert.
  destruct (pos <=? n) eqn:E; cbn [require]; [|reflexivity].
  rewrite !bind_ret_tt. rewrite (require_true (n + length srcs <=? cap)) by (apply Nat.leb_le; exact H).
  rewrite bind_ret_tt. reflexivity.
Qed.

Lemma bind_ext_done {A B} (g : G A) (f1 f2 : A -> G B) a :
  snd g = Done a -> f1 a = f2 a -> bind g f1 = bind g f2.
Proof. intros Hg Hf. unfold bind. rewrite Hg, Hf. reflexivity. Qed.

Lemma assign_range_fwd_fits c n srcs : length srcs <= cap ->
  assign_range_fwd fl cap c n srcs = assign_range fl cap c n srcs.
Proof.
  intros H. unfold assign_range_fwd, assign_range.
  rewrite (require_true (length srcs <=? cap)) by (apply Nat.leb_le; exact H). rewrite bind_ret_tt.
  apply bind_ext_done with (a := 0); [reflexivity|].
  apply insert_range_fwd_fits. cbn. lia.
Qed.

(* the loop of emplace_back calls, stopped when the vector is full *)
Lemma emplace_back_room c n h : n <> cap -> emplace_back cap c n h = ([Construct (Slot c n) h], Done (S n)).
Proof.
  intros Ne. unfold emplace_back. rewrite (require_true (negb (n =? cap))) by (destruct (Nat.eqb_spec n cap); [contradiction|reflexivity]).
  rewrite bind_ret_tt. reflexivity.
Qed.

Lemma emplace_back_full c h : emplace_back cap c cap h = ([], Stop).
Proof. unfold emplace_back. rewrite Nat.eqb_refl. reflexivity. Qed.

Lemma bind_done {A B} evs (a : A) (f : A -> G B) : bind (evs, Done a) f = (evs ++ fst (f a), snd (f a)).
Proof. reflexivity. Qed.

Lemma emplace_all_overflow c hs : forall n, n <= cap -> cap < n + length hs ->
  emplace_all cap c n hs = (constructs c n (firstn (cap - n) hs), Stop).
Proof.
  induction hs as [|h t IH]; intros n Hn Hov; cbn [length] in Hov; [lia|].
  cbn [emplace_all].
  destruct (Nat.eq_dec n cap) as [->|Ne].
  - rewrite emplace_back_full, Nat.sub_diag. reflexivity.
  - rewrite emplace_back_room by exact Ne. rewrite bind_done, (IH (S n)) by lia. cbn [fst snd app].
    replace (cap - n) with (S (cap - S n)) by lia. reflexivity.
Qed.

Lemma insert_range_fwd_overflow c n pos srcs : pos <= n -> n <= cap -> cap < n + length srcs ->
  insert_range_fwd fl cap c n pos srcs = (constructs c n (firstn (cap - n) (map Copy srcs)), Stop) /\
  insert_range fl cap c n pos srcs = ([], Stop).
Proof.
  intros Hp Hn Hov. split.
  - unfold insert_range_fwd. rewrite (require_true (pos <=? n)) by (apply Nat.leb_le; exact Hp). rewrite bind_ret_tt.
    unfold bind. rewrite emplace_all_overflow by (rewrite ?map_length; lia). reflexivity.
  - unfold insert_range. rewrite (require_true (pos <=? n)) by (apply Nat.leb_le; exact Hp). rewrite bind_ret_tt.
    assert (E : (n + length srcs <=? cap) = false) by (apply Nat.leb_gt; lia). rewrite E. reflexivity.
Qed.

Lemma move_insert_fwd_overflow c n pos srcs : pos <= n -> n <= cap -> cap < n + length srcs ->
  move_insert_fwd fl cap c n pos srcs = (constructs c n (firstn (cap - n) (map (mv fl) srcs)), Stop) /\
  move_insert fl cap c n pos srcs = ([], Stop).
Proof.
  intros Hp Hn Hov. split.
  - unfold move_insert_fwd. rewrite (require_true (pos <=? n)) by (apply Nat.leb_le; exact Hp). rewrite bind_ret_tt.
    unfold bind. rewrite emplace_all_overflow by (rewrite ?map_length; lia). reflexivity.
  - unfold move_insert. rewrite (require_true (pos <=? n)) by (apply Nat.leb_le; exact Hp). rewrite bind_ret_tt.
    assert (E : (n + length srcs <=? cap) = false) by (apply Nat.leb_gt; lia). rewrite E. reflexivity.
Qed.

End Fwd.

Lemma forward_iterator_forms : forall (fl : bool) (cap c n pos : nat) (srcs : list loc),
  (n + length srcs <= cap ->
     insert_range_fwd fl cap c n pos srcs = insert_range fl cap c n pos srcs /\
     move_insert_fwd fl cap c n pos srcs = move_insert fl cap c n pos srcs) /\
  (length srcs <= cap -> assign_range_fwd fl cap c n srcs = assign_range fl cap c n srcs) /\
  (pos <= n -> n <= cap -> cap < n + length srcs ->
     insert_range_fwd fl cap c n pos srcs = (constructs c n (firstn (cap - n) (map Copy srcs)), Stop) /\
     insert_range fl cap c n pos srcs = ([], Stop) /\
     move_insert_fwd fl cap c n pos srcs = (constructs c n (firstn (cap - n) (map (mv fl) srcs)), Stop) /\
     move_insert fl cap c n pos srcs = ([], Stop)).
Proof.
  intros fl cap c n pos srcs. split; [|split].
  - intros H. split; [apply insert_range_fwd_fits|apply move_insert_fwd_fits]; exact H.
  - apply assign_range_fwd_fits.
  - intros Hp Hn Hov.
    destruct (insert_range_fwd_overflow fl cap c n pos srcs Hp Hn Hov) as [H1 H2].
    destruct (move_insert_fwd_overflow fl cap c n pos srcs Hp Hn Hov) as [H3 H4].
    repeat split; assumption.
Qed.
