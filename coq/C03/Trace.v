(* C03 shared kit: element-lifetime events and the lifetime automaton.

   A location is a place where an object of the tracked element type can live:
     Slot c i   element slot i of the storage of container c (c = 0, 1: the two objects of a
                history; c >= 2: a container that only exists inside one step, e.g. the
                temporary vector of static_vector::swap)
     Temp k     a temporary created by the library inside a call (etl::swap's temp, emplace's a)
     Ext k      an object of the caller (the argument of push_back, the source range of insert)
   An event is one run of a special member function of the element type:
     Construct l h   a constructor runs on the storage l  (h: from a value / copy of s / move of s)
     Assign l h      an assignment operator runs on the object at l
     Destroy l       the destructor runs on the object at l
     Use l           another member function runs on the object at l
   Per location the automaton is  Dead -> Live -> (MovedFrom <-> Live) -> Dead.
   [astep] applies an event and says whether it was legal:
     Construct needs a Dead target (no constructor over a live object) and a non-Dead source,
     Assign / Destroy / Use need a non-Dead target (and a non-Dead source),
   [wf_trace] = every event legal, starting with everything Dead; [all_dead] = nothing alive.
   The automaton is total (an illegal event is still applied), so the same function also
   monitors a real event log to the end.  No theorems about models here, only the kit. *)
From Coq Require Import List Arith Bool ZArith Lia.
Import ListNotations.

Inductive loc := Slot (c i : nat) | Temp (k : nat) | Ext (k : nat).

Definition loc_eqb (a b : loc) : bool :=
  match a, b with
  | Slot c i, Slot d j => (c =? d) && (i =? j)
  | Temp k, Temp j => k =? j
  | Ext k, Ext j => k =? j
  | _, _ => false
  end.

Lemma loc_eqb_spec a b : reflect (a = b) (loc_eqb a b).
Proof.
  destruct a as [c i|k|k], b as [d j|j|j]; cbn [loc_eqb]; try (constructor; discriminate).
  - destruct (Nat.eqb_spec c d) as [->|Hc]; cbn [andb].
    + destruct (Nat.eqb_spec i j) as [->|Hi]; constructor; [reflexivity|congruence].
    + constructor; congruence.
  - destruct (Nat.eqb_spec k j) as [->|H]; constructor; [reflexivity|congruence].
  - destruct (Nat.eqb_spec k j) as [->|H]; constructor; [reflexivity|congruence].
Qed.

Lemma loc_eqb_refl a : loc_eqb a a = true.
Proof. destruct (loc_eqb_spec a a); [reflexivity|congruence]. Qed.

Inductive how := Value (x : Z) | Copy (s : loc) | Move (s : loc).
Inductive event := Construct (l : loc) (h : how) | Assign (l : loc) (h : how) | Destroy (l : loc) | Use (l : loc).

Definition src_of (h : how) : option loc :=
  match h with Value _ => None | Copy s => Some s | Move s => Some s end.

Inductive lstate := Dead | Live | MovedFrom.
Definition is_dead (s : lstate) : bool := match s with Dead => true | _ => false end.

(** * the automaton state: a finite map, absent = Dead *)
Definition amap := list (loc * lstate).

Fixpoint lookup (m : amap) (l : loc) : lstate :=
  match m with
  | [] => Dead
  | (k, s) :: t => if loc_eqb k l then s else lookup t l
  end.

Fixpoint update (m : amap) (l : loc) (s : lstate) : amap :=
  match m with
  | [] => [(l, s)]
  | (k, s0) :: t => if loc_eqb k l then (k, s) :: t else (k, s0) :: update t l s
  end.

Lemma lookup_update m l s x : lookup (update m l s) x = if loc_eqb l x then s else lookup m x.
Proof.
  induction m as [|[k s0] t IH]; cbn [update lookup].
  - reflexivity.
  - destruct (loc_eqb_spec k l) as [->|Hkl]; cbn [lookup].
    + destruct (loc_eqb l x); reflexivity.
    + rewrite IH. destruct (loc_eqb_spec k x) as [->|Hkx]; [|reflexivity].
      destruct (loc_eqb_spec l x) as [->|]; [congruence|reflexivity].
Qed.

Definition alive (m : amap) (l : loc) : bool := negb (is_dead (lookup m l)).

Definition src_ok (m : amap) (h : how) : bool :=
  match src_of h with None => true | Some s => alive m s end.

(* a move leaves its (live) source in the moved-from state *)
Definition after_src (m : amap) (h : how) : amap :=
  match h with
  | Move s => if alive m s then update m s MovedFrom else m
  | _ => m
  end.

Definition astep (m : amap) (e : event) : bool * amap :=
  match e with
  | Construct l h => (negb (alive m l) && src_ok m h, update (after_src m h) l Live)
  | Assign l h => (alive m l && src_ok m h, update (after_src m h) l Live)
  | Destroy l => (alive m l, update m l Dead)
  | Use l => (alive m l, m)
  end.

Fixpoint arun (m : amap) (evs : list event) : bool * amap :=
  match evs with
  | [] => (true, m)
  | e :: t => let r := astep m e in let r2 := arun (snd r) t in (fst r && fst r2, snd r2)
  end.

Definition wf_trace (evs : list event) : bool := fst (arun [] evs).
Definition final_state (evs : list event) : amap := snd (arun [] evs).

(* locations that are not Dead *)
Definition alive_locs (m : amap) : list loc := map fst (filter (fun p => alive m (fst p)) m).
Definition alive_count (m : amap) : nat := length (alive_locs m).
Definition all_dead_map (m : amap) : bool := forallb (fun p => negb (alive m (fst p))) m.
Definition all_dead (evs : list event) : bool := all_dead_map (final_state evs).

(** * the per-location lifecycle projection (what the tie compares)
   Every event contributes a transition to its target location, annotated with the lifecycle
   state of its source at that moment, and a "moved-from" transition to the source of a move. *)
Inductive hkind := KValue | KCopy | KMove.
Inductive ptok :=
| PConstruct (k : hkind) (src : option lstate)
| PAssign (k : hkind) (src : option lstate)
| PMovedFrom
| PDestroy
| PUse.

Definition kind_of (h : how) : hkind := match h with Value _ => KValue | Copy _ => KCopy | Move _ => KMove end.
Definition src_state (m : amap) (h : how) : option lstate :=
  match src_of h with None => None | Some s => Some (lookup m s) end.
Definition moved_tok (h : how) : list (loc * ptok) :=
  match h with Move s => [(s, PMovedFrom)] | _ => [] end.

Definition ptoks_of (m : amap) (e : event) : list (loc * ptok) :=
  match e with
  | Construct l h => moved_tok h ++ [(l, PConstruct (kind_of h) (src_state m h))]
  | Assign l h => moved_tok h ++ [(l, PAssign (kind_of h) (src_state m h))]
  | Destroy l => [(l, PDestroy)]
  | Use l => [(l, PUse)]
  end.

(* the monitor: from a state, over a chunk of events (one step of a history): legality of the
   chunk, the state after it, the projection of the chunk *)
Fixpoint monitor (m : amap) (evs : list event) : bool * amap * list (loc * ptok) :=
  match evs with
  | [] => (true, m, [])
  | e :: t =>
      let r := astep m e in
      let '(ok, m', toks) := monitor (snd r) t in
      (fst r && ok, m', ptoks_of m e ++ toks)
  end.

Lemma monitor_arun m evs : fst (fst (monitor m evs)) = fst (arun m evs) /\ snd (fst (monitor m evs)) = snd (arun m evs).
Proof.
  revert m. induction evs as [|e t IH]; intros m; cbn [monitor arun]; [split; reflexivity|].
  specialize (IH (snd (astep m e))). destruct (monitor (snd (astep m e)) t) as [[ok m'] toks].
  cbn [fst snd] in *. destruct IH as [-> ->]. split; reflexivity.
Qed.

(** * basic facts about runs *)
Lemma arun_app m e1 e2 :
  arun m (e1 ++ e2) = (fst (arun m e1) && fst (arun (snd (arun m e1)) e2), snd (arun (snd (arun m e1)) e2)).
Proof.
  revert m. induction e1 as [|e t IH]; intros m; cbn [app arun fst snd].
  - destruct (arun m e2); reflexivity.
  - rewrite IH. cbn [fst snd]. rewrite andb_assoc. reflexivity.
Qed.

Lemma all_dead_map_spec m : all_dead_map m = true <-> forall l, alive m l = false.
Proof.
  unfold all_dead_map. rewrite forallb_forall. split.
  - intros H l. destruct (alive m l) eqn:E; [|reflexivity]. exfalso.
    assert (Hin : exists s, In (l, s) m).
    { unfold alive in E. clear H. induction m as [|[k s] t IH]; cbn [lookup] in E; [discriminate|].
      destruct (loc_eqb_spec k l) as [->|Hkl].
      - exists s. left. reflexivity.
      - destruct (IH E) as [s' Hs']. exists s'. right. exact Hs'. }
    destruct Hin as [s Hs]. specialize (H _ Hs). cbn [fst] in H. rewrite E in H. discriminate.
  - intros H [l s] _. cbn [fst]. rewrite H. reflexivity.
Qed.

Lemma alive_count_zero m : all_dead_map m = true -> alive_count m = 0.
Proof.
  intros H. unfold alive_count, alive_locs. rewrite map_length.
  rewrite all_dead_map_spec in H.
  induction m as [|[k s] t IH] using rev_ind; [reflexivity|].
  assert (E : filter (fun p : loc * lstate => alive (t ++ [(k, s)]) (fst p)) (t ++ [(k, s)]) = []).
  { clear IH. generalize (t ++ [(k, s)]) at 2. intros l. induction l as [|[k' s'] l IHl]; [reflexivity|].
    cbn [filter fst]. rewrite H. exact IHl. }
  rewrite E. reflexivity.
Qed.

(** * the history of ONE location over a whole trace
   Every event contributes, to the location it targets, a token saying what happened to the object
   there, and to the location it reads from (the source of a copy or a move) a "read" token.
   [lrun] is the two-state acceptor of the language  ( C (A | U | R)* D )*  : a constructor only on
   dead storage, every other member function only on a constructed object; it returns whether the
   location holds an object at the end.  [once_each l evs]: the history of l is in that language and
   ends dead, i.e. every object ever constructed at l is destroyed exactly once, before the next
   one is constructed there, and nothing touches l in between. *)
Inductive ltok := LC | LA | LD | LU | LR.

Definition src_tok (l : loc) (h : how) : list ltok :=
  match src_of h with
  | Some s => if loc_eqb s l then [LR] else []
  | None => []
  end.
Definition ltoks_of (l : loc) (e : event) : list ltok :=
  match e with
  | Construct t h => src_tok l h ++ (if loc_eqb t l then [LC] else [])
  | Assign t h => src_tok l h ++ (if loc_eqb t l then [LA] else [])
  | Destroy t => if loc_eqb t l then [LD] else []
  | Use t => if loc_eqb t l then [LU] else []
  end.
Definition lproj (l : loc) (evs : list event) : list ltok := flat_map (ltoks_of l) evs.

Fixpoint lrun (alive : bool) (ts : list ltok) : option bool :=
  match ts with
  | [] => Some alive
  | t :: r =>
      match t with
      | LC => if alive then None else lrun true r
      | LD => if alive then lrun false r else None
      | LA | LU | LR => if alive then lrun true r else None
      end
  end.

Definition once_each (l : loc) (evs : list event) : Prop := lrun false (lproj l evs) = Some false.

Definition is_LC (t : ltok) : bool := match t with LC => true | _ => false end.
Definition is_LD (t : ltok) : bool := match t with LD => true | _ => false end.
Definition constructions (l : loc) (evs : list event) : nat := length (filter is_LC (lproj l evs)).
Definition destructions (l : loc) (evs : list event) : nat := length (filter is_LD (lproj l evs)).

(** * storage view: the alternatives of one object share their storage
   For owners that keep ONE object of several possible types in the same storage (variant,
   inplace_function) the location [Slot c i] is "alternative i of object c".  Collapsing the
   alternatives of an object into one location gives the view of the storage itself:
   [storage_wf evs] = no alternative is constructed while any alternative of the same object is
   alive, and nothing is assigned / destroyed / read while the storage holds no object. *)
Definition collapse (l : loc) : loc := match l with Slot c _ => Slot c 0 | _ => l end.
Definition collapse_how (h : how) : how :=
  match h with Value x => Value x | Copy s => Copy (collapse s) | Move s => Move (collapse s) end.
Definition collapse_event (e : event) : event :=
  match e with
  | Construct l h => Construct (collapse l) (collapse_how h)
  | Assign l h => Assign (collapse l) (collapse_how h)
  | Destroy l => Destroy (collapse l)
  | Use l => Use (collapse l)
  end.
Definition storage_wf (evs : list event) : bool := wf_trace (map collapse_event evs).
