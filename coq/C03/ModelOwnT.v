(* C03 model, part 2b: the members of etl::variant that name the alternative BY TYPE
   (include/etl/_variant/variant.hpp).  They are overloads with a body of their own:

     template <typename T, typename... Args> emplace(Args&&...)      destroy(); replace(index_v<index_of_v<T, list<Ts...>>>, args...)
     template <size_t I, typename... Args>   emplace(Args&&...)      destroy(); replace(index_v<I>, args...)      (ModelOwn.VEmplace)
     variant(in_place_type_t<T>, Args&&...)                          : variant(in_place_index<index_of_v<T, ...>>, args...)

   and the converting assignment operator=(T&&) (ModelOwn.VAssignRv / VAssignCr) replaces a DIFFERENT held alternative
   through emplace<alternative_t>(forward<T>(t)), i.e. through the by-type overload.  [destroy()] visits the alternative
   that is HELD: whether it runs a destructor depends on the held alternative ([eff (sel t s)]), never on the new one.

   [xoop] = the operations of ModelOwn plus the by-type members; j is the index that index_of_v resolves the type to
   (the type occurs exactly once in Ts..., a constraint of the overloads).  The step function is written down
   independently of ModelOwn.step_var and proved equal to it on the by-index counterparts (C03.ProofsOwnT), so that
   every theorem about ModelOwn histories holds for histories that use either overload. *)
From Tetl Require Import Lib.Base C03.Trace C03.Model C03.ModelOwn.
From Coq Require Import Arith.
Local Open Scope nat_scope.

Inductive xoop :=
| XBase (o : oop)
| XEmplaceType (t : bool) (j : nat) (x : Z)      (* v.emplace<Tj>(x) *)
| XAssignTmpType (t : bool) (j : nat) (x : Z)    (* { V tmp(in_place_type<Tj>, x); v = move(tmp); } *)
| XScopedType (j : nat) (x : Z).                 (* { V c(in_place_type<Tj>, x); } *)

(* the by-index operation with the same effect *)
Definition lower (o : xoop) : oop :=
  match o with
  | XBase o => o
  | XEmplaceType t j x => VEmplace t j x
  | XAssignTmpType t j x => VAssignTmp t j x
  | XScopedType j x => VScopedValue j x
  end.

Section OwnT.
Variable fl : bool.
Variable trk : nat -> bool.
Variable fn : bool.

Definition step_var_x (s : nat * nat) (m : vmem) (o : xoop) : G (nat * nat) :=
  let done (evs : list event) (s' : nat * nat) : G (nat * nat) := exe emit evs ; ret s' in
  match o with
  | XBase o => step_var fl trk fn s m o
  | XEmplaceType t j x =>
      (* destroy(): the destructor of the HELD alternative; replace(): the constructor of alternative j *)
      done (dst trk fn (cid t) (sel t s) ++ con trk fn (cid t) j (Value x)) (upd t s j)
  | XAssignTmpType t j x =>
      (* tmp holds alternative j; assign(move(tmp)): same index -> move-assign through, else destroy(); replace(j, move(tmp[j])) *)
      done (con trk fn 2 j (Value x) ++ v_assign trk fn (cid t) (sel t s) 2 j (mv fl) ++ dst trk fn 2 j) (upd t s j)
  | XScopedType j x => done (con trk fn 2 j (Value x) ++ dst trk fn 2 j) s
  end.

(* an inplace_function has no such members *)
Definition step_fun_x (s : nat * nat) (m : vmem) (o : xoop) : G (nat * nat) :=
  match o with
  | XBase o => step_fun fl trk fn s m o
  | _ => ret s
  end.

Definition step_own_x (s : nat * nat) (m : vmem) (o : xoop) : G (nat * nat) :=
  if fn then step_fun_x s m o else step_var_x s m o.

Definition own_self_x (o : xoop) : option bool := match o with XBase o => own_self o | _ => None end.

Definition own_trace_x (ops : list xoop) : list event := gtrace step_own_x (own_final trk fn) (0, 0) (own_init trk fn) ops.
Definition own_completed_x (ops : list xoop) : bool := ghistory_completed step_own_x (0, 0) (own_init trk fn) ops.
End OwnT.

Definition own_run_case_x (fl : bool) (trk : nat -> bool) (fn : bool) (ops : list xoop) : list report * report * (bool * nat) :=
  grun_case (step_own_x fl trk fn) (own_final trk fn) (obs_own trk fn) (0, 0) (own_init trk fn) ops.

Definition own_self_checks_x (fl : bool) (trk : nat -> bool) (fn : bool) (ops : list xoop) : list bool :=
  gself_checks (step_own_x fl trk fn) (obs_own trk fn) own_self_x (0, 0) (exec_all [] (own_init trk fn)) ops.
