(* C03: self-assignment and self-swap of a variant / optional / expected / inplace_function leave
   the observable state of the object (live index and value) unchanged. *)
From Tetl Require Import Lib.Base C03.Trace C03.Model C03.ModelOwn C03.Spec.
From Coq Require Import Arith.
Local Open Scope nat_scope.

Lemma vget_vset m l v x : vget (vset m l v) x = if loc_eqb l x then v else vget m x.
Proof.
  induction m as [|[k v0] t IH]; cbn [vset vget].
  - reflexivity.
  - destruct (loc_eqb_spec k l) as [->|Hkl]; cbn [vget].
    + destruct (loc_eqb l x); reflexivity.
    + rewrite IH. destruct (loc_eqb_spec k x) as [->|Hkx]; [|reflexivity].
      destruct (loc_eqb_spec l x) as [->|]; [congruence|reflexivity].
Qed.

Lemma if_cases {A} (b : bool) (x y z : A) :
  (if b then x else y) = z -> (b = true /\ x = z) \/ (b = false /\ y = z).
Proof. destruct b; intros H; [left|right]; split; auto. Qed.

Section OwnSelf.
Variable fl : bool.
Variable trk : nat -> bool.
Variable fn : bool.

Definition pick (t : bool) (p : list Z * list Z) : list Z := if t then snd p else fst p.

Ltac ev :=
  unfold exec_all; cbn [fold_left exec exec_how mv fst snd app];
  rewrite ?vget_vset; cbn [loc_eqb Nat.eqb andb]; rewrite ?Nat.eqb_refl; cbn [andb];
  rewrite ?vget_vset; cbn [loc_eqb Nat.eqb andb]; rewrite ?Nat.eqb_refl; cbn [andb];
  try reflexivity.

Lemma step_var_self s m o t evs s' : own_self o = Some t ->
  step_var fl trk fn s m o = (evs, Done s') ->
  pick t (obs_own trk fn m s) = pick t (obs_own trk fn (exec_all m evs) s').
Proof.
  destruct s as [i0 i1].
  destruct o; cbn [own_self]; try discriminate; intros [= <-]; unfold step_var; cbv zeta;
    unfold bind, emit, ret; cbn [fst snd]; intros [= <- <-];
    destruct t0; cbn [cid sel pick obs_own fst snd]; unfold con, asg, dst, when;
    match goal with |- context [eff trk fn ?i] => destruct (eff trk fn i) eqn:E end;
    cbn [app]; try reflexivity; f_equal; f_equal; destruct fl; ev.
Qed.

Lemma step_fun_self s m o t evs s' : own_self o = Some t ->
  step_fun fl trk fn s m o = (evs, Done s') ->
  pick t (obs_own trk fn m s) = pick t (obs_own trk fn (exec_all m evs) s').
Proof.
  destruct s as [i0 i1].
  destruct o; cbn [own_self]; try discriminate; intros [= <-]; unfold step_fun; cbv zeta;
    unfold bind, emit, ret; cbn [fst snd]; intros [= <- <-];
    destruct t0; cbn [cid sel pick obs_own fst snd]; unfold relocate, con, asg, dst, when;
    try reflexivity;
    match goal with |- context [eff trk fn ?i] => destruct (eff trk fn i) eqn:E end;
    cbn [app]; try reflexivity; f_equal; f_equal; destruct fl; ev.
Qed.

Lemma step_own_self s m o t evs s' : own_self o = Some t ->
  step_own fl trk fn s m o = (evs, Done s') ->
  pick t (obs_own trk fn m s) = pick t (obs_own trk fn (exec_all m evs) s').
Proof.
  unfold step_own. intros Ho H.
  destruct (if_cases _ _ _ _ H) as [[_ H1]|[_ H1]]; [eapply step_fun_self|eapply step_var_self]; eassumption.
Qed.

Lemma own_self_all ops : forall s m,
  completed (fst (fst (grun (step_own fl trk fn) s m ops))) = true ->
  gself_checks (step_own fl trk fn) (obs_own trk fn) own_self s m ops = repeat true (own_count_self ops).
Proof.
  induction ops as [|o rest IH]; intros s m Hc; cbn [gself_checks grun] in *; [reflexivity|].
  destruct (step_own fl trk fn s m o) as [evs [s'| |]] eqn:E; cbn [fst snd] in *;
    try (unfold completed in Hc; cbn in Hc; discriminate).
  assert (Hc' : completed (fst (fst (grun (step_own fl trk fn) s' (exec_all m evs) rest))) = true).
  { unfold completed in *. cbn [forallb fst snd] in Hc. exact Hc. }
  specialize (IH s' (exec_all m evs) Hc'). rewrite IH.
  unfold own_count_self. cbn [filter].
  destruct (own_self o) as [t|] eqn:Eo; [|reflexivity].
  pose proof (step_own_self s m o t evs s' Eo E) as Hp. unfold pick in Hp.
  cbn [length repeat]. f_equal.
  destruct (list_eq_dec Z.eq_dec (if t then snd (obs_own trk fn m s) else fst (obs_own trk fn m s))
                       (if t then snd (obs_own trk fn (exec_all m evs) s') else fst (obs_own trk fn (exec_all m evs) s'))) as [_|N];
    [reflexivity|exfalso; apply N; exact Hp].
Qed.

Lemma own_self_identity ops : own_completed fl trk fn ops = true ->
  own_self_checks fl trk fn ops = repeat true (own_count_self ops).
Proof. intros Hc. unfold own_self_checks. apply own_self_all. exact Hc. Qed.

End OwnSelf.
