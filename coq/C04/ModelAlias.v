(* C04 model, part 3: what the code does when a pointer / iterator argument points INTO the string itself.
   append(const_pointer str, count) copies with etl::copy(str, str + safeCount, end()): one character at a time, each read
   sees the array as the earlier writes left it ([copy_within]); insert_impl is that append + rotate; append(first, last)
   reads *first before every push_back ([push_back_self_loop]).  assign / operator= / replace build a temporary string
   from the source before they touch *this, so for them [ctor_ptr .. (self_src s off) ..] (Model.v) IS the code path.
   AliasProofs.v proves that for a source range inside the contents (off + n <= size()) these in-place loops give exactly
   what the ordinary operations give on a snapshot of the array, which is how the driver runs the self-referential cases. *)
From Tetl Require Import Lib.Base Lib.Arr C08.Model C04.Model.
Local Open Scope Z_scope.

Fixpoint copy_within (b : list Z) (src dst : Z) (n : nat) : res (list Z) :=
  match n with
  | O => Ok b
  | S k => match nth_error b (Z.to_nat src) with
           | Some v => do b' <- wr b dst v; copy_within b' (src + 1) (dst + 1) k
           | None => UB OutOfBounds
           end
  end.

Definition append_self_m (s : istr) (off count : Z) : res istr :=
  let size := get_size s in
  let safe := min_sz count (sz (cap s - size)) in
  do b <- copy_within (buf s) off size (Z.to_nat safe);
  unsafe_set_size (with_buf s b) (sz (size + safe)).

Definition insert_self_m (s : istr) (pos off count : Z) : res istr :=
  let currentEnd := get_size s in
  if pos >? currentEnd then Contract else
  do s1 <- append_self_m s off count;
  do b <- rotate_buf (buf s1) pos currentEnd (get_size s1);
  Ok (with_buf s1 b).

(* append(first, last) with iterators into the string itself: "push_back( *first)" reads the array as the earlier
   push_backs left it *)
Fixpoint push_back_self_loop (s : istr) (i : Z) (n : nat) : res istr :=
  match n with
  | O => Ok s
  | S k => match nth_error (buf s) (Z.to_nat i) with
           | Some v => do s' <- push_back_m s v; push_back_self_loop s' (i + 1) k
           | None => UB OutOfBounds
           end
  end.
