(* C04: the documented precondition of every mutator as a decidable test on the state and the arguments — a copy of
   [Total.pre_ok] in a file without proofs, so that it can be extracted together with the models (the spec leg of the
   correspondence run prints "contract" where std::basic_string has no result that fits AND the documented precondition
   is false; where it is true the library clamps and there is no independent answer: "na").  Properties.v proves
   [pre_doc = Total.pre_ok], the test of [C04_step_outcome]. *)
From Tetl Require Import Lib.Base Lib.Arr C08.Model C04.Model C04.Spec.
Local Open Scope Z_scope.

Definition sub_len_d (src : list Z) (pos count : Z) : Z := Z.min count (zlen src - pos).
Definition cstr_len_d (a : list Z) : Z := match s_cstr a with Some l => zlen l | None => 0 end.

Definition pre_doc (s : istr) (o : op) : bool :=
  let size := get_size s in
  match o with
  | OClear | OAppendFill _ _ | OAppendPtr _ _ | OResize _ _ | OSubstr _ _ | OAppendCstr _
  | OFreeErase _ | OFreeEraseIf _ => true
  | OPushBack _ => size <? cap s
  | OPopBack => negb (size =? 0)
  | OAppendRange src => size + zlen src <=? cap s
  | OInsertPtr index _ _ | OInsertFill index _ _ | OInsertCstr index _ => index <=? size
  | OErase index _ => index <=? size
  | OEraseRange start distance => (start <=? size) && (distance <=? size - start)
  | OAssignPtr _ count | OAssignFill count _ => count <=? cap s
  | OSwapWith src => zlen src <=? cap s
  | OAppendStr src => (zlen src <=? cap s) && (size + zlen src <=? cap s)
  | OAppendStrSub src pos count =>
      (zlen src <=? cap s) && ((pos >? zlen src) || (size + sub_len_d src pos count <=? cap s))
  | OAppendViewSub src pos _ => pos <=? zlen src
  | OAssignCstr a => cstr_len_d a <=? cap s
  | OAssignStrSub src _ _ => zlen src <=? cap s
  | OAssignViewSub src pos count => (pos <=? zlen src) && (sub_len_d src pos count <=? cap s)
  | OInsertStrSub index src indexStr _ => (index <=? size) && (indexStr <=? zlen src)
  | OErasePos pos => pos <? size
  | OAppendRangeIn src => size + zlen src <=? cap s
  end.
