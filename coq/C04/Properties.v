(* C04 — inplace_string matches std::string and is always null-terminated.
   Property theorems only ([exact] of lemmas from Inv*.v / Refine.v / Refuted.v) + Print Assumptions.

   [istr] (Model.v) is the object at buffer level: capacity, character type, the Capacity+1
   characters, the size field; both layouts.  [run (default_str c ck) ops] executes a history from
   the empty string.  [cap_ok c]: 0 <= c < 2^62.  [op_wf]: the numeric arguments are size_t values. *)
From Tetl Require Import Lib.Base C08.Model C08.Spec C08.Core C04.Model C04.Spec C04.Inv C04.InvOps C04.Refuted
  C04.CstrFacts C04.RefineBase C04.RefineOps1 C04.Refine C04.Total C04.PreDoc C04.ReplaceSpec C04.ModelAlias C04.AliasProofs.
Local Open Scope Z_scope.

(** * Refinement: the model is std::basic_string wherever the std result fits into the capacity.
      [Spec.spec_step l o] is std::basic_string's operation on the character list l ([None]: std throws
      out_of_range or the call violates a precondition of the standard); [sop_of] maps a model operation to
      the std operation with the same arguments; [spec_run_fits c] runs a history and requires every
      intermediate std result to have at most c characters; [contents s] = the first size() characters.
      [op_wf]: numeric arguments are size_t values, a Char const* argument points into an array (< 2^63
      characters) that holds a null character.  [arg_ok c]: a basic_inplace_string argument of the same type
      has at most c characters; the array behind a string_view argument has fewer than 2^63 characters. *)

(* EVERY history from the empty string, for EVERY capacity (both layouts) and character type: if std defines
   every step and every intermediate result fits, the model returns (no precondition failure, no access
   outside the array), and contents, size() and the terminator are those of the std string.
   (A prefix of such a history is such a history, so this holds after every step.) *)
Theorem C04_history_refines_std : forall c ck ops l', cap_ok c -> Forall op_wf ops -> Forall (arg_ok c) ops ->
  spec_run_fits c [] (map sop_of ops) = Some l' ->
  exists s', run (default_str c ck) ops = Ok s' /\ contents s' = l' /\ get_size s' = slen l' /\
             terminator s' = 0 /\ cap s' = c /\ ckind s' = ck /\ zlen (buf s') = c + 1.
Proof. exact history_refines. Qed.
Print Assumptions C04_history_refines_std.

(* ... and after EVERY step on the way: every prefix ops1 of such a history is such a history *)
Theorem C04_history_refines_std_every_step : forall c ck ops1 ops2 l', cap_ok c -> Forall op_wf (ops1 ++ ops2) ->
  Forall (arg_ok c) (ops1 ++ ops2) -> spec_run_fits c [] (map sop_of (ops1 ++ ops2)) = Some l' ->
  exists l1 s1, spec_run_fits c [] (map sop_of ops1) = Some l1 /\ run (default_str c ck) ops1 = Ok s1 /\
                contents s1 = l1 /\ get_size s1 = slen l1 /\ terminator s1 = 0.
Proof. exact history_refines_every_step. Qed.
Print Assumptions C04_history_refines_std_every_step.

(* one operation from ANY state satisfying the invariant *)
Theorem C04_step_refines_std : forall s o l', inv s -> op_wf o -> arg_ok (cap s) o ->
  spec_step (contents s) (sop_of o) = Some l' -> slen l' <= cap s ->
  exists s', step s o = Ok s' /\ (inv s' /\ cap s' = cap s /\ ckind s' = ckind s) /\ contents s' = l'.
Proof. exact step_refines. Qed.
Print Assumptions C04_step_refines_std.

(* a pointer argument that points into the string itself (s.data() + off, n characters, off + n <= size()) denotes the
   n characters of the contents from off on: with C04_step_refines_std, s.append(s.data() + off, n), s.insert(i, s.data()
   + off, n), s.assign(s.data() + off, n) give what std::string gives for the same self-referential call *)
Theorem C04_self_pointer : forall s off n, inv s -> 0 <= off -> 0 <= n -> off + n <= get_size s ->
  s_prefix (self_src s off) n = Some (take n (drop off (contents s))).
Proof. exact self_src_prefix. Qed.
Print Assumptions C04_self_pointer.

(* what the code DOES with a source inside the string itself (ModelAlias.v: append(ptr, count) copies character by
   character from the array it is writing to; insert_impl = that append + rotate; append(first, last) reads *first before
   every push_back) is, for every source range inside the contents, the ordinary operation on a snapshot of the array *)
Theorem C04_self_loops_are_snapshot :
  (forall s off count, inv s -> 0 <= off -> 0 <= count -> off + count <= get_size s ->
     append_self_m s off count = append_ptr_m s (self_src s off) count) /\
  (forall s pos off count, inv s -> 0 <= off -> 0 <= count -> off + count <= get_size s ->
     insert_self_m s pos off count = insert_impl_m s pos (self_src s off) count) /\
  (forall n s i, inv s -> 0 <= i -> i + Z.of_nat n <= get_size s ->
     push_back_self_loop s i n = push_back_loop_m s (firstn n (skipn (Z.to_nat i) (contents s)))).
Proof. exact (conj append_self_snapshot (conj insert_self_snapshot push_back_self_loop_snapshot)). Qed.
Print Assumptions C04_self_loops_are_snapshot.

(* append(first, last) with forward / input iterators (no up-front check) and with random access iterators (checked up
   front, fix commit 2a00b17) has the same outcome from every state *)
Theorem C04_append_range_categories : forall s l, inv s ->
  append_range_cat_m false s l = append_range_cat_m true s l.
Proof. exact append_range_cat_same. Qed.
Print Assumptions C04_append_range_categories.

(* swap: BOTH objects exchange their contents and keep the invariant (in the tiny layout the size byte of a full
   string is one of the swapped characters) *)
Theorem C04_swap_both : forall a b, inv a -> inv b -> cap b = cap a ->
  exists a' b', swap_m a b = Ok (a', b') /\ inv a' /\ inv b' /\ contents a' = contents b /\ contents b' = contents a /\
                cap a' = cap a /\ cap b' = cap b.
Proof. exact swap_both. Qed.
Print Assumptions C04_swap_both.

(* the iterator returned by erase(first, last) / erase(position): begin() + start, as std *)
Theorem C04_returned_iterator : forall o, returned_pos o = spec_returned_pos (sop_of o).
Proof. exact returned_pos_refines. Qed.
Print Assumptions C04_returned_iterator.

(* the executable [spec_step_fits] used by the spec leg of the correspondence run is exactly
   "std defines the result and it has at most c characters" *)
Theorem C04_spec_step_fits_iff : forall c l o l', sop_nonneg o ->
  spec_step_fits c l o = Some l' <-> spec_step l o = Some l' /\ slen l' <= c.
Proof. exact spec_step_fits_iff. Qed.
Print Assumptions C04_spec_step_fits_iff.

(** * The representation invariant, also for the histories that do NOT fit (clamping appends etc.) *)
(* After EVERY history that returns (including the appending operations that clamp to capacity),
   for EVERY capacity (tiny layout < 16 <= normal layout) and character type: the array still has
   Capacity+1 characters, size() <= capacity() and the character at index size() is the null character. *)
Theorem C04_invariant_all_histories : forall c ck ops s', cap_ok c -> Forall op_wf ops ->
  run (default_str c ck) ops = Ok s' ->
  cap s' = c /\ zlen (buf s') = c + 1 /\ 0 <= get_size s' <= c /\ terminator s' = 0.
Proof. exact invariant_all_histories. Qed.
Print Assumptions C04_invariant_all_histories.

(* the same, one operation at a time, from any state satisfying the invariant *)
Theorem C04_step_preserves_invariant : forall s o s', inv s -> op_wf o -> step s o = Ok s' ->
  inv s' /\ cap s' = cap s /\ ckind s' = ckind s.
Proof. exact step_keeps. Qed.
Print Assumptions C04_step_preserves_invariant.

(* unsafe_set_size: the size read back is the size written, in both layouts (in the tiny layout the
   size byte IS the terminator when the string is full), and the characters below it are untouched *)
Theorem C04_size_roundtrip : forall s n, cap_ok (cap s) -> zlen (buf s) = cap s + 1 -> 0 <= n <= cap s ->
  exists s', unsafe_set_size s n = Ok s' /\ cap s' = cap s /\ ckind s' = ckind s /\
    zlen (buf s') = cap s + 1 /\ get_size s' = n /\ znth (buf s') n = 0 /\
    firstn (Z.to_nat n) (buf s') = firstn (Z.to_nat n) (buf s).
Proof. exact unsafe_set_size_ok. Qed.
Print Assumptions C04_size_roundtrip.

(* the count returned by etl::erase(s, value) / etl::erase_if(s, pred): the number of erased characters, as std *)
Theorem C04_returned_count : forall s o, inv s ->
  match o with OFreeErase _ | OFreeEraseIf _ => True | _ => False end ->
  returned_count s o = Ok (spec_returned_count (contents s) (sop_of o)).
Proof. exact returned_count_refines. Qed.
Print Assumptions C04_returned_count.

(* replace — whose in-place overwrite is the recorded known finding below — still keeps the invariant, in all
   four index-based and the iterator-based overloads (as the code is after fix commits 5f6ea98 / 30e894f / cb22248; before them a
   count of npos wrapped the range computation and the terminator was overwritten) *)
Theorem C04_replace_keeps_invariant :
  (forall s pos count src s', inv s -> 0 <= pos -> replace_m s pos count src = Ok s' ->
     inv s' /\ cap s' = cap s /\ ckind s' = ckind s) /\
  (forall s pos count src count2 s', inv s -> 0 <= pos -> replace_ptr_m s pos count src count2 = Ok s' ->
     inv s' /\ cap s' = cap s /\ ckind s' = ckind s) /\
  (forall s pos count a s', inv s -> 0 <= pos -> replace_cstr_m s pos count a = Ok s' ->
     inv s' /\ cap s' = cap s /\ ckind s' = ckind s) /\
  (forall s pos count src pos2 count2 s', inv s -> 0 <= pos -> replace5_m s pos count src pos2 count2 = Ok s' ->
     inv s' /\ cap s' = cap s /\ ckind s' = ckind s) /\
  ((* iterator-based: replace(first, last, str | s, count2 | s) *)
   forall s first last src s', inv s -> replace_it_m s first last src = Ok s' ->
     inv s' /\ cap s' = cap s /\ ckind s' = ckind s) /\
  ((* replace(first, last, count2, ch) *)
   forall s first last count2 ch s', inv s -> 0 <= count2 -> replace_it_fill_m s first last count2 ch = Ok s' ->
     inv s' /\ cap s' = cap s /\ ckind s' = ckind s).
Proof. exact (conj replace_keeps (conj replace_ptr_keeps (conj replace_cstr_keeps (conj replace5_keeps (conj replace_it_keeps replace_it_fill_keeps))))). Qed.
Print Assumptions C04_replace_keeps_invariant.

(* what replace DOES (ReplaceSpec.s_replace_inplace: overwrite n = min(count, size() - pos, |replacement|) characters at pos,
   length unchanged), for the four index-based overloads and every argument: the call returns exactly when pos <= size()
   (and pos2 <= str.size()), otherwise it stops at the precondition — where std throws out_of_range *)
Theorem C04_replace_is_inplace :
  (forall s pos count src, inv s -> 0 <= pos -> 0 <= count < 18446744073709551616 ->
     match s_replace_inplace (contents s) pos count src with
     | Some r => exists s', replace_m s pos count src = Ok s' /\ (inv s' /\ cap s' = cap s /\ ckind s' = ckind s) /\ contents s' = r
     | None => replace_m s pos count src = Contract
     end) /\
  (forall s pos count src count2, inv s -> 0 <= pos -> 0 <= count < 18446744073709551616 -> 0 <= count2 <= zlen src ->
     match s_replace_inplace (contents s) pos count (take count2 src) with
     | Some r => exists s', replace_ptr_m s pos count src count2 = Ok s' /\ (inv s' /\ cap s' = cap s /\ ckind s' = ckind s) /\ contents s' = r
     | None => replace_ptr_m s pos count src count2 = Contract
     end) /\
  (forall s pos count a x, inv s -> 0 <= pos -> 0 <= count < 18446744073709551616 -> cstr_arg_ok a -> s_cstr a = Some x ->
     match s_replace_inplace (contents s) pos count x with
     | Some r => exists s', replace_cstr_m s pos count a = Ok s' /\ (inv s' /\ cap s' = cap s /\ ckind s' = ckind s) /\ contents s' = r
     | None => replace_cstr_m s pos count a = Contract
     end) /\
  (forall s pos count src pos2 count2, inv s -> 0 <= pos -> 0 <= count < 18446744073709551616 ->
     0 <= pos2 -> 0 <= count2 < 18446744073709551616 -> zlen src < 18446744073709551616 ->
     match s_substr src pos2 count2 with
     | Some x =>
         match s_replace_inplace (contents s) pos count x with
         | Some r => exists s', replace5_m s pos count src pos2 count2 = Ok s' /\ (inv s' /\ cap s' = cap s /\ ckind s' = ckind s) /\ contents s' = r
         | None => replace5_m s pos count src pos2 count2 = Contract
         end
     | None => replace5_m s pos count src pos2 count2 = Contract
     end).
Proof. exact (conj replace_is_inplace (conj replace_ptr_is_inplace (conj replace_cstr_is_inplace replace5_is_inplace))). Qed.
Print Assumptions C04_replace_is_inplace.

(* the iterator-based overloads (iterators as ptrdiff_t offsets from begin()): on a range [first, last) of the string
   (0 <= first <= last <= size()) the in-place replace of last - first characters at first; for EVERY other pair the call
   stops at the precondition (fix commit 377d1df) *)
Theorem C04_replace_iterators_inplace :
  (forall s first last src, inv s -> 0 <= first <= last -> last <= get_size s ->
     exists s', replace_it_m s first last src = Ok s' /\ (inv s' /\ cap s' = cap s /\ ckind s' = ckind s) /\
       Some (contents s') = s_replace_inplace (contents s) first (last - first) src) /\
  (forall s first last count2 ch, inv s -> 0 <= first <= last -> last <= get_size s -> 0 <= count2 ->
     exists s', replace_it_fill_m s first last count2 ch = Ok s' /\ (inv s' /\ cap s' = cap s /\ ckind s' = ckind s) /\
       Some (contents s') = s_replace_inplace (contents s) first (last - first) (rep count2 ch)).
Proof. exact (conj replace_it_is_inplace replace_it_fill_is_inplace). Qed.
Print Assumptions C04_replace_iterators_inplace.

Theorem C04_replace_iterators_contract : forall s first last, inv s ->
  -9223372036854775808 <= first < 9223372036854775808 -> -9223372036854775808 <= last < 9223372036854775808 ->
  ~ (0 <= first <= last /\ last <= get_size s) ->
  (forall src, replace_it_m s first last src = Contract) /\
  (forall count2 ch, replace_it_fill_m s first last count2 ch = Contract).
Proof. exact replace_it_contract. Qed.
Print Assumptions C04_replace_iterators_contract.

(* the in-place replace IS std::basic_string::replace exactly when the replacement is as long as the replaced range
   min(count, size() - pos) — the complement is the defect region of KF-C04-replace-inplace *)
Theorem C04_replace_std_iff_same_length : forall l pos count x, 0 <= pos <= slen l -> 0 <= count ->
  (s_replace_inplace l pos count x = s_replace l pos count x <-> slen x = Z.min count (slen l - pos)).
Proof.
  intros l pos count x Hp Hc. split.
  - intros E. destruct (Z.eq_dec (slen x) (Z.min count (slen l - pos))) as [H|H]; [exact H|].
    exfalso. exact (s_replace_inplace_differs l pos count x Hp Hc H E).
  - intros H. apply s_replace_inplace_std; [lia|exact Hc|exact H].
Qed.
Print Assumptions C04_replace_std_iff_same_length.

(** * Outcome of EVERY call (also outside the domain of the refinement theorem): a mutator either returns a state
      satisfying the invariant or stops at a TETL_PRECONDITION — exactly when the documented precondition
      [pre_ok s o] (Total.v: e.g. size() < capacity() for push_back, index <= size() for insert and erase,
      count <= capacity() for assign, the other string fits and nothing overflows for append(str)) is false.
      It never accesses the array out of bounds ([UB]) and no loop runs out of fuel.
      [ptr_ok]: a (pointer, count) argument stays inside the array the pointer points into. *)
Theorem C04_step_outcome : forall s o, inv s -> op_wf o -> ptr_ok o ->
  if pre_ok s o then exists s', step s o = Ok s' /\ (inv s' /\ cap s' = cap s /\ ckind s' = ckind s)
  else step s o = Contract.
Proof. exact step_outcome. Qed.
Print Assumptions C04_step_outcome.

(* the executable test the spec leg of the correspondence run uses (PreDoc.v, no proofs) is the test of C04_step_outcome *)
Theorem C04_pre_doc_is_pre_ok : forall s o, pre_doc s o = pre_ok s o.
Proof. intros s o. destruct o; reflexivity. Qed.
Print Assumptions C04_pre_doc_is_pre_ok.

Theorem C04_history_never_ub : forall ops s, inv s -> Forall op_wf ops -> Forall ptr_ok ops ->
  (exists s', run s ops = Ok s' /\ (inv s' /\ cap s' = cap s /\ ckind s' = ckind s)) \/ run s ops = Contract.
Proof. exact run_never_ub. Qed.
Print Assumptions C04_history_never_ub.

(* recorded known findings (behaviour pinned by tests/string): the faithful model differs from std *)
Theorem C04_replace_refuted :
  exists s pos count src s', inv s /\ replace_m s pos count src = Ok s' /\
    Some (contents s') <> s_replace (contents s) pos count src.
Proof. exact replace_refuted. Qed.
Print Assumptions C04_replace_refuted.

Theorem C04_rfind_default_refuted :
  exists s n, inv s /\ view_ok n /\
    str_rfind_default_m s n <> Ok (rfind_s (contents s) (vchars n) npos).
Proof. exact rfind_default_refuted. Qed.
Print Assumptions C04_rfind_default_refuted.

Example C04_nonvacuous :
  cap_ok 15 /\ cap_ok 16 /\ Forall op_wf [OAppendFill 15 97; OSwapWith [98]; OResize 3 99] /\
  (exists s', run (default_str 15 CChar) [OAppendFill 15 97; OSwapWith [98]; OResize 3 99] = Ok s' /\
              contents s' = [98; 99; 99]) /\
  spec_run_fits 15 [] (map sop_of [OAppendFill 15 97; OSwapWith [98]; OResize 3 99]) = Some [98; 99; 99] /\
  spec_run_fits 16 [] (map sop_of [OAppendFill 16 97; OInsertPtr 3 [98; 99] 0; OErase 1 18446744073709551615]) = Some [97] /\
  (let h := [OAppendCstr [97; 98; 0; 99]; OInsertStrSub 1 [120; 121; 122] 1 18446744073709551615; OAppendStrSub [100; 101] 1 5;
             OErasePos 0; OAssignViewSub [97; 98; 99] 1 1; OAppendStr [97]] in
   Forall op_wf h /\ Forall (arg_ok 7) h /\ spec_run_fits 7 [] (map sop_of h) = Some [98; 97]).
Proof.
  unfold cap_ok, szt. repeat split; try lia.
  - repeat constructor; cbn; unfold szt; lia.
  - eexists. split; [vm_compute; reflexivity|]. vm_compute. reflexivity.
  - repeat constructor; cbn; unfold szt, cstr_arg_ok, zlen; cbn; try lia; try discriminate.
  - repeat constructor; cbn; unfold zlen; cbn; lia.
Qed.

(* replace: "abcdef".replace(1, 3, "xyz") (same length: the std result "axyzef") and .replace(1, 2, "xyz") (in place:
   "axydef"; std: "axyzdef") on the model, capacity 8 *)
Example C04_replace_nonvacuous :
  exists s, ctor_ptr 8 CChar [97; 98; 99; 100; 101; 102] 6 = Ok s /\ inv s /\
    s_replace_inplace (contents s) 1 3 [120; 121; 122] = s_replace (contents s) 1 3 [120; 121; 122] /\
    (exists s', replace_m s 1 3 [120; 121; 122] = Ok s' /\ contents s' = [97; 120; 121; 122; 101; 102]) /\
    s_replace_inplace (contents s) 1 2 [120; 121; 122] = Some [97; 120; 121; 100; 101; 102] /\
    s_replace (contents s) 1 2 [120; 121; 122] = Some [97; 120; 121; 122; 100; 101; 102].
Proof.
  eexists. split; [vm_compute; reflexivity|]. split.
  - unfold inv, cap_ok. vm_compute. repeat split; discriminate.
  - split; [vm_compute; reflexivity|]. split; [eexists; split; [vm_compute; reflexivity|vm_compute; reflexivity]|].
    split; [vm_compute; reflexivity|vm_compute; reflexivity].
Qed.
