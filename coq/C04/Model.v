(* C04 model: executable mirror of include/etl/_string/basic_inplace_string.hpp at BUFFER level,
   as the code is after the fix commits 6f38c79 (resize), 344c6e6 (swap), 6e307d9 (erase),
   3ef7b5f (compare 5-arg), 3d7526b (find_last_* defaults), 66e4be4 (rfind(s,pos,count)).

   An object is (Capacity, character type, the Capacity+1 characters of the array, the size
   field).  Layout as in the header: Capacity < 16 -> tiny_layout, the size is kept as
   Char(Capacity - size) in the LAST character (which doubles as the terminator when the string
   is full) and the size field is unused; otherwise normal_layout with a separate size field of
   type smallest_size_t<Capacity>.  unsafe_set_size writes the size, then the terminator.
   Every write into the array goes through the checked [wr] (UB OutOfBounds outside the array),
   reads of the source arguments through [take_chk]; TETL_PRECONDITIONs are [Contract].
   size_t arithmetic wraps ([sz]).  insert/erase use the model of etl::rotate from C06a
   (forward-iterator swap cycle), search/compare members delegate to the C08 view model. *)
From Tetl Require Import Lib.Base Lib.Arr C08.Model.
Require Tetl.C06a.Model.
Local Open Scope Z_scope.

Record istr := mkstr { cap : Z; ckind : charkind; buf : list Z; szf : Z }.

Definition with_buf (s : istr) (b : list Z) : istr := mkstr (cap s) (ckind s) b (szf s).
Definition with_szf (s : istr) (n : Z) : istr := mkstr (cap s) (ckind s) (buf s) n.

Definition zlen (l : list Z) : Z := Z.of_nat (length l).
Definition znth (l : list Z) (i : Z) : Z := nth (Z.to_nat i) l 0.

(* conversion of an integer to the character type / to smallest_size_t<Capacity> *)
Definition to_char (ck : charkind) (x : Z) : Z :=
  match ck with
  | CChar => wraps 8 x
  | CWchar => wraps 32 x
  | CChar8 => wrapu 8 x
  | CChar16 => wrapu 16 x
  | CChar32 => wrapu 32 x
  end.
(* smallest_size_t<N>: uint8 for N < 255, uint16 for N < 65535, uint32 for N < 2^32-1, else uint64 *)
Definition size_bits (c : Z) : Z :=
  if c <? 255 then 8 else if c <? 65535 then 16 else if c <? 4294967295 then 32 else 64.

Definition tiny (s : istr) : bool := cap s <? 16.

(* layout::get_size / set_size *)
Definition get_size (s : istr) : Z :=
  if tiny s then sz (cap s - sz (znth (buf s) (cap s))) else szf s.

(* checked write into the character array *)
Definition wr (b : list Z) (i v : Z) : res (list Z) :=
  if (0 <=? i) && (i <? zlen b) then
    match set b (Z.to_nat i) v with Some b' => Ok b' | None => UB OutOfBounds end
  else UB OutOfBounds.

Definition set_size (s : istr) (n : Z) : res istr :=
  if tiny s then do b <- wr (buf s) (cap s) (to_char (ckind s) (cap s - n)); Ok (with_buf s b)
  else Ok (with_szf s (wrapu (size_bits (cap s)) n)).

(* unsafe_set_size: precondition, size, then unsafe_at(newSize) = Char(0) whose own precondition
   index < size() + 1 is evaluated on the NEW size *)
Definition unsafe_set_size (s : istr) (n : Z) : res istr :=
  if n <=? cap s then
    do s1 <- set_size s n;
    if n <? sz (get_size s1 + 1) then do b <- wr (buf s1) n 0; Ok (with_buf s1 b) else Contract
  else Contract.

(* a run of writes buf[i], buf[i+1], ... (etl::fill, etl::copy, Traits::copy into the array) *)
Fixpoint write_range (b : list Z) (i : Z) (l : list Z) : res (list Z) :=
  match l with
  | [] => Ok b
  | x :: r => do b' <- wr b i x; write_range b' (i + 1) r
  end.

(* reading the first n characters of a source argument that has exactly |src| characters *)
Definition take_chk (src : list Z) (n : Z) : res (list Z) :=
  if n <=? zlen src then Ok (firstn (Z.to_nat n) src) else UB OutOfBounds.

(* value-initialised storage *)
Definition default_str (c : Z) (ck : charkind) : istr :=
  let zeros := repeat 0 (Z.to_nat (c + 1)) in
  if c <? 16 then
    (* tiny_layout(): _buffer{} then _buffer[Capacity] = Capacity *)
    mkstr c ck (firstn (Z.to_nat c) zeros ++ [to_char ck c]) 0
  else mkstr c ck zeros 0.

(* basic_inplace_string(const_pointer str, size_type len) *)
Definition ctor_ptr (c : Z) (ck : charkind) (src : list Z) (len : Z) : res istr :=
  if len <=? c then
    do s1 <- unsafe_set_size (default_str c ck) len;
    do l <- take_chk src len;
    do b <- write_range (buf s1) 0 l;
    Ok (with_buf s1 b)
  else Contract.

(* basic_inplace_string(size_type count, Char ch) *)
Definition ctor_fill (c : Z) (ck : charkind) (count ch : Z) : res istr :=
  if count <=? c then
    let s0 := default_str c ck in
    do b <- write_range (buf s0) 0 (repeat ch (Z.to_nat count));
    unsafe_set_size (with_buf s0 b) count
  else Contract.

Definition contents (s : istr) : list Z := firstn (Z.to_nat (get_size s)) (buf s).
(* the character at index size(): what c_str() relies on *)
Definition terminator (s : istr) : Z := znth (buf s) (get_size s).

(* clear: *begin() = Char(0); unsafe_set_size(0) *)
Definition clear_m (s : istr) : res istr :=
  do b <- wr (buf s) 0 0; unsafe_set_size (with_buf s b) 0.

(* append(count, ch) *)
Definition append_fill_m (s : istr) (count ch : Z) : res istr :=
  let size := get_size s in
  let safe := min_sz count (sz (cap s - size)) in
  let newSize := sz (size + safe) in
  do b <- write_range (buf s) size (repeat ch (Z.to_nat safe));
  unsafe_set_size (with_buf s b) newSize.

(* append(const_pointer str, count) *)
Definition append_ptr_m (s : istr) (src : list Z) (count : Z) : res istr :=
  let size := get_size s in
  let safe := min_sz count (sz (cap s - size)) in
  do l <- take_chk src safe;
  do b <- write_range (buf s) size l;
  unsafe_set_size (with_buf s b) (sz (size + safe)).

Definition push_back_m (s : istr) (ch : Z) : res istr :=
  if get_size s <? cap s then append_fill_m s 1 ch else Contract.

Definition pop_back_m (s : istr) : res istr :=
  if negb (get_size s =? 0) then unsafe_set_size s (sz (get_size s - 1)) else Contract.

(* append(InputIt first, InputIt last): "for (; first != last; ++first) push_back(*first);" — l = the characters
   the iterator range yields, in the order it yields them *)
Fixpoint push_back_loop_m (s : istr) (l : list Z) : res istr :=
  match l with
  | [] => Ok s
  | x :: r => do s' <- push_back_m s x; push_back_loop_m s' r
  end.
(* ... preceded, "if constexpr (RandomAccessIterator<InputIt>)" (pointers, reverse_iterator<pointer>), by
   TETL_PRECONDITION(last - first >= 0) — true for every valid range — and
   TETL_PRECONDITION(size_type(last - first) <= capacity() - size()) (fix commit 2a00b17: a sized range that does not
   fit is reported before the first character is appended).  ra = false: forward / input iterators, no such check *)
Definition append_range_cat_m (ra : bool) (s : istr) (l : list Z) : res istr :=
  if ra then
    if zlen l <=? sz (cap s - get_size s) then push_back_loop_m s l else Contract
  else push_back_loop_m s l.
(* pointers: what append(str), append(str, pos, count), operator+=(str), operator+ pass *)
Definition append_range_m (s : istr) (l : list Z) : res istr := append_range_cat_m true s l.

(* etl::rotate on the character array; iterators are offsets from data() *)
Definition rotate_buf (b : list Z) (first mid last : Z) : res (list Z) :=
  do r <- C06a.Model.rotate b (Z.to_nat first) (Z.to_nat mid) (Z.to_nat last); Ok (fst r).

(* insert_impl(pos, text, count): append at the end, then rotate into place.
   Every index-based insert overload starts with TETL_PRECONDITION(index <= size()) (fix commit: before it an
   index beyond size() made [pos, currentEnd) an invalid range and rotate wrote out of bounds) *)
Definition insert_impl_m (s : istr) (pos : Z) (src : list Z) (count : Z) : res istr :=
  let currentEnd := get_size s in
  if pos >? currentEnd then Contract else
  do s1 <- append_ptr_m s src count;
  do b <- rotate_buf (buf s1) pos currentEnd (get_size s1);
  Ok (with_buf s1 b).

(* insert(index, count, ch): count single-character insert_impl calls *)
Fixpoint insert_fill_loop (n : nat) (s : istr) (index ch : Z) : res istr :=
  match n with
  | O => Ok s
  | S k => do s' <- insert_impl_m s index [ch] 1; insert_fill_loop k s' index ch
  end.
Definition insert_fill_m (s : istr) (index count ch : Z) : res istr :=
  if index >? get_size s then Contract else insert_fill_loop (Z.to_nat count) s index ch.

(* erase(const_iterator first, const_iterator last), iterators given as start and distance *)
Definition erase_range_m (s : istr) (start distance : Z) : res istr :=
  let size := get_size s in
  if start <=? size then
    if distance <=? sz (size - start) then
      do b <- rotate_buf (buf s) start (sz (start + distance)) size;
      unsafe_set_size (with_buf s b) (sz (size - distance))
    else Contract
  else Contract.

(* erase(index, count): TETL_PRECONDITION(index <= size()) first (fix commit 05e379f: before it the check was left to
   the iterator overload, after begin() + index had been formed), then erase(begin() + index, ... + safeCount) *)
Definition erase_m (s : istr) (index count : Z) : res istr :=
  if index <=? get_size s then
    let safe := min_sz count (sz (get_size s - index)) in
    erase_range_m s index safe
  else Contract.

(* resize(count, ch) *)
Definition resize_m (s : istr) (count ch : Z) : res istr :=
  do s1 <- (if get_size s >? count then unsafe_set_size s count else Ok s);
  if get_size s1 <? count then append_fill_m s1 (sz (count - get_size s1)) ch else Ok s1.

(* swap(other): both sizes, swap_ranges over max+1 characters, then the two sizes *)
Definition swap_m (a b : istr) : res (istr * istr) :=
  let thisSize := get_size a in
  let otherSize := get_size b in
  let maxSize := if thisSize <? otherSize then otherSize else thisSize in
  let k := Z.to_nat (maxSize + 1) in
  if (maxSize + 1 <=? zlen (buf a)) && (maxSize + 1 <=? zlen (buf b)) then
    let ba := firstn k (buf b) ++ skipn k (buf a) in
    let bb := firstn k (buf a) ++ skipn k (buf b) in
    do a' <- unsafe_set_size (with_buf a ba) otherSize;
    do b' <- unsafe_set_size (with_buf b bb) thisSize;
    Ok (a', b')
  else UB OutOfBounds.

(* substr(pos, count): pos > size() gives an empty string (no exception in this library) *)
Definition substr_m (s : istr) (pos count : Z) : res istr :=
  if pos >? get_size s then Ok (default_str (cap s) (ckind s))
  else ctor_ptr (cap s) (ckind s) (skipn (Z.to_nat pos) (contents s)) (min_sz count (sz (get_size s - pos))).

(* copy(dest, count, pos): the characters written and the returned count *)
Definition copy_m (s : istr) (count pos : Z) : Z * list Z :=
  if pos >? get_size s then (0, [])
  else
    let n := min_sz count (sz (get_size s - pos)) in
    (n, firstn (Z.to_nat n) (skipn (Z.to_nat pos) (contents s))).

(* the view a string converts to: basic_string_view(data(), size()) *)
Definition view_of (s : istr) : view := mkview (buf s) 0 (get_size s).

(* search members: strings::find adds its own argument checks in front of the view's find *)
Definition str_find_m (s : istr) (n : view) (pos : Z) : res Z :=
  let h := view_of s in
  if (vlen n =? 0) && (pos <=? vlen h) then Ok pos
  else if pos <=? sz (vlen h - vlen n) then find_m h n pos
  else Ok npos.
Definition str_rfind_m (s : istr) (n : view) (pos : Z) : res Z := rfind_m (view_of s) n pos.
Definition str_find_first_of_m (s : istr) (n : view) (pos : Z) : res Z :=
  if pos <? get_size s then find_first_of_m (view_of s) n pos else Ok npos.
Definition str_find_first_not_of_m (s : istr) (n : view) (pos : Z) : res Z :=
  find_first_not_of_m (view_of s) n pos.
Definition str_find_last_of_m (s : istr) (n : view) (pos : Z) : res Z := find_last_of_m (view_of s) n pos.
Definition str_find_last_not_of_m (s : istr) (n : view) (pos : Z) : res Z :=
  find_last_not_of_m (view_of s) n pos.

(* compare(str) and compare(pos1, count1, str, pos2, count2) as written in the header *)
Definition str_compare_m (a b : istr) : res Z := compare_m (ckind a) (view_of a) (view_of b).
Definition str_compare5_m (a : istr) (pos1 count1 : Z) (b : istr) (pos2 count2 : Z) : res Z :=
  let sz1 := if count1 >? sz (get_size a - pos1) then get_size a else count1 in
  do sub1 <- C08.Model.substr_m (view_of a) pos1 sz1;
  let sz2 := if count2 >? sz (get_size b - pos2) then get_size b else count2 in
  do sub2 <- C08.Model.substr_m (view_of b) pos2 sz2;
  compare_m (ckind a) sub1 sub2.

(** * the remaining overloads: argument plumbing as written in the header *)
(* a second string object of the same type holding src (the harness builds it with the (ptr, len) constructor) *)
Definition other_str (s : istr) (src : list Z) : res istr := ctor_ptr (cap s) (ckind s) src (zlen src).
(* an array as a view of all of its characters; the characters a view spans *)
Definition arr_view (a : list Z) : view := mkview a 0 (zlen a).
Definition view_chars_m (v : view) : list Z := firstn (Z.to_nat (vlen v)) (skipn (Z.to_nat (voff v)) (vbuf v)).

(* append(const_pointer s) / operator+=(s): Traits::length(s), then append(s, len) *)
Definition append_cstr_m (s : istr) (a : list Z) : res istr :=
  do len <- strlen_m (arr_view a); append_ptr_m s a len.
(* append(str) / operator+=(str) / operator+(lhs, str): append(str.begin(), str.end()), one push_back each *)
Definition append_str_m (s : istr) (src : list Z) : res istr :=
  do o <- other_str s src; append_range_m s (contents o).
(* append(str, pos, count) = append(str.substr(pos, count)) — str.substr gives "" for pos > str.size() *)
Definition append_str_sub_m (s : istr) (src : list Z) (pos count : Z) : res istr :=
  do o <- other_str s src; do sub <- substr_m o pos count; append_range_m s (contents sub).
(* append(view, pos, count): sv.substr(pos, count) (precondition pos <= sv.size()), then append(sub.data(), sub.size()) *)
Definition append_view_sub_m (s : istr) (src : list Z) (pos count : Z) : res istr :=
  do sub <- C08.Model.substr_m (arr_view src) pos count; append_ptr_m s (view_chars_m sub) (vlen sub).
(* assign(s) / operator=(s): basic_inplace_string{s, Traits::length(s)} *)
Definition assign_cstr_m (s : istr) (a : list Z) : res istr :=
  do len <- strlen_m (arr_view a); ctor_ptr (cap s) (ckind s) a len.
(* assign(str, pos, count): *this = str.substr(pos, count) *)
Definition assign_str_sub_m (s : istr) (src : list Z) (pos count : Z) : res istr :=
  do o <- other_str s src; substr_m o pos count.
(* basic_inplace_string(InputIt first, InputIt last): value-initialised storage, then append(first, last)
   (fix commit 0c6dc7f: before it the iterator was handed to the (pointer, length) constructor, which only compiled
   for pointers) *)
Definition ctor_range_m (ra : bool) (c : Z) (ck : charkind) (l : list Z) : res istr :=
  append_range_cat_m ra (default_str c ck) l.
(* assign(view, pos, count): basic_inplace_string{view.substr(pos, count)} -> assign(sv.begin(), sv.end()) ->
   *this = basic_inplace_string{first, last} with pointers *)
Definition assign_view_sub_m (s : istr) (src : list Z) (pos count : Z) : res istr :=
  do sub <- C08.Model.substr_m (arr_view src) pos count; ctor_range_m true (cap s) (ckind s) (view_chars_m sub).
(* insert(index, s): insert_impl(begin() + index, s, Traits::length(s)) *)
Definition insert_cstr_m (s : istr) (index : Z) (a : list Z) : res istr :=
  if index >? get_size s then Contract else
  do len <- strlen_m (arr_view a); insert_impl_m s index a len.
(* insert(index, str, indexStr, count) and insert(index, view, indexStr, count): TETL_PRECONDITION(index <= size());
   view(str).substr(indexStr, count) (precondition indexStr <= str.size()), then insert_impl(sub.data(), sub.size()) *)
Definition insert_str_sub_m (s : istr) (index : Z) (src : list Z) (indexStr count : Z) : res istr :=
  if index >? get_size s then Contract else
  do sub <- C08.Model.substr_m (arr_view src) indexStr count; insert_impl_m s index (view_chars_m sub) (vlen sub).
(* erase(const_iterator position) = erase(position, position + 1) *)
Definition erase_pos_m (s : istr) (pos : Z) : res istr := erase_range_m s pos 1.

(** * free functions etl::erase(c, value) / etl::erase_if(c, pred):
      it = etl::remove(_if)(begin(c), end(c), ...); r = distance(it, end(c)); c.erase(it, end(c)); return r.
      etl::remove_if is the C06a model, run on the character range [begin, end) and spliced back into the array *)
(* the predicates of the correspondence run, by id *)
Definition pred_of (k : Z) : Z -> bool :=
  if k =? 0 then (fun x => (x =? 97) || (x =? 0)) else Z.even.
Definition free_erase_if_m (p : Z -> bool) (s : istr) : res (istr * Z) :=
  let size := get_size s in
  do r <- C06a.Model.remove_if p (contents s);
  let b := fst r ++ skipn (Z.to_nat size) (buf s) in
  let it := Z.of_nat (snd r) in
  let rcount := sz (size - it) in
  do s' <- erase_range_m (with_buf s b) it rcount;
  Ok (s', rcount).

(** * a pointer argument that points INTO the string itself (s.append(s.data() + off, n), s = s.c_str() + off,
      s.replace(pos, n, s.data() + off, n2), ...): the array behind it is the object's own character array from off on.
      assign / operator= / replace copy the source into a temporary string before they touch *this; append / insert
      copy [data() + off, data() + off + n) to end(), which lies behind the source whenever off + n <= size(). The model
      therefore runs these calls as the ordinary operation on a snapshot of the array; that the code really reads its
      source before it overwrites it is what the self-aliasing cases of the correspondence run test. *)
Definition self_src (s : istr) (off : Z) : list Z := skipn (Z.to_nat off) (buf s).

(** * Histories *)
Inductive op :=
| OClear
| OPushBack (ch : Z)
| OPopBack
| OAppendFill (count ch : Z)
| OAppendPtr (src : list Z) (count : Z)
| OAppendRange (src : list Z)
| OInsertPtr (index : Z) (src : list Z) (count : Z)
| OInsertFill (index count ch : Z)
| OErase (index count : Z)
| OEraseRange (start distance : Z)
| OResize (count ch : Z)
| OAssignPtr (src : list Z) (count : Z)
| OAssignFill (count ch : Z)
| OSubstr (pos count : Z)       (* s = s.substr(pos, count) *)
| OSwapWith (src : list Z)      (* swap with a string built from src; keeps the other's value *)
| OAppendCstr (a : list Z)
| OAppendStr (src : list Z)
| OAppendStrSub (src : list Z) (pos count : Z)
| OAppendViewSub (src : list Z) (pos count : Z)
| OAssignCstr (a : list Z)
| OAssignStrSub (src : list Z) (pos count : Z)
| OAssignViewSub (src : list Z) (pos count : Z)
| OInsertCstr (index : Z) (a : list Z)
| OInsertStrSub (index : Z) (src : list Z) (indexStr count : Z)
| OErasePos (pos : Z)
| OFreeErase (value : Z)          (* etl::erase(s, value) *)
| OFreeEraseIf (k : Z)            (* etl::erase_if(s, pred_of k) *)
| OAppendRangeIn (src : list Z).  (* append(first, last) with iterators that are NOT random access (forward-only /
                                     input iterators): no up-front check, one push_back per character *)

Definition step (s : istr) (o : op) : res istr :=
  match o with
  | OClear => clear_m s
  | OPushBack ch => push_back_m s ch
  | OPopBack => pop_back_m s
  | OAppendFill count ch => append_fill_m s count ch
  | OAppendPtr src count => append_ptr_m s src count
  | OAppendRange src => append_range_m s src
  | OInsertPtr index src count => insert_impl_m s index src count
  | OInsertFill index count ch => insert_fill_m s index count ch
  | OErase index count => erase_m s index count
  | OEraseRange start distance => erase_range_m s start distance
  | OResize count ch => resize_m s count ch
  | OAssignPtr src count => ctor_ptr (cap s) (ckind s) src count
  | OAssignFill count ch => ctor_fill (cap s) (ckind s) count ch
  | OSubstr pos count => substr_m s pos count
  | OSwapWith src =>
      do o <- ctor_ptr (cap s) (ckind s) src (zlen src);
      do r <- swap_m s o; Ok (fst r)
  | OAppendCstr a => append_cstr_m s a
  | OAppendStr src => append_str_m s src
  | OAppendStrSub src pos count => append_str_sub_m s src pos count
  | OAppendViewSub src pos count => append_view_sub_m s src pos count
  | OAssignCstr a => assign_cstr_m s a
  | OAssignStrSub src pos count => assign_str_sub_m s src pos count
  | OAssignViewSub src pos count => assign_view_sub_m s src pos count
  | OInsertCstr index a => insert_cstr_m s index a
  | OInsertStrSub index src indexStr count => insert_str_sub_m s index src indexStr count
  | OErasePos pos => erase_pos_m s pos
  | OFreeErase value => do r <- free_erase_if_m (fun x => x =? value) s; Ok (fst r)
  | OFreeEraseIf k => do r <- free_erase_if_m (pred_of k) s; Ok (fst r)
  | OAppendRangeIn src => append_range_cat_m false s src
  end.

(* the count returned by the free erase functions *)
Definition returned_count (s : istr) (o : op) : res (option Z) :=
  match o with
  | OFreeErase value => do r <- free_erase_if_m (fun x => x =? value) s; Ok (Some (snd r))
  | OFreeEraseIf k => do r <- free_erase_if_m (pred_of k) s; Ok (Some (snd r))
  | _ => Ok None
  end.

(* the iterator a mutator returns, as an offset from begin(): erase(first, last) and erase(position)
   return begin() + start *)
Definition returned_pos (o : op) : option Z :=
  match o with
  | OEraseRange start _ => Some start
  | OErasePos pos => Some pos
  | _ => None
  end.

Fixpoint run (s : istr) (ops : list op) : res istr :=
  match ops with
  | [] => Ok s
  | o :: r => do s' <- step s o; run s' r
  end.

(** * replace: every index-based overload overwrites in place through detail::str_replace
      ("for (; f != l && sf != sl; ++f, ++sf) *f = *sf;") — the length never changes (recorded known finding
      KF-C04-replace-inplace; the behaviour is pinned by tests/string).  Preconditions and clamps as the code is
      after the fix commits: TETL_PRECONDITION(pos <= size()); [f, l) = [pos, pos + min(count, size() - pos)). *)
Definition rep_n (s : istr) (pos count avail : Z) : Z :=
  let n1 := min_sz count (sz (get_size s - pos)) in if avail <? n1 then avail else n1.
(* replace(pos, count, str) *)
Definition replace_m (s : istr) (pos count : Z) (src : list Z) : res istr :=
  if pos <=? get_size s then
    do b <- write_range (buf s) pos (firstn (Z.to_nat (rep_n s pos count (zlen src))) src);
    Ok (with_buf s b)
  else Contract.
(* replace(pos, count, Char const* str, count2): the same with [str, str + count2) *)
Definition replace_ptr_m (s : istr) (pos count : Z) (src : list Z) (count2 : Z) : res istr :=
  if pos <=? get_size s then
    do l <- take_chk src (rep_n s pos count count2);
    do b <- write_range (buf s) pos l;
    Ok (with_buf s b)
  else Contract.
(* replace(pos, count, Char const* str): count2 = Traits::length(str), evaluated after the precondition *)
Definition replace_cstr_m (s : istr) (pos count : Z) (a : list Z) : res istr :=
  if pos <=? get_size s then
    do len <- strlen_m (arr_view a);
    do l <- take_chk a (rep_n s pos count len);
    do b <- write_range (buf s) pos l;
    Ok (with_buf s b)
  else Contract.
(* replace(pos, count, str, pos2, count2 = npos): TETL_PRECONDITION(pos <= size()); TETL_PRECONDITION(pos2 <= str.size());
   [sf, sl) = [pos2, pos2 + min(count2, str.size() - pos2)) *)
Definition replace5_m (s : istr) (pos count : Z) (src : list Z) (pos2 count2 : Z) : res istr :=
  if pos <=? get_size s then
    if pos2 <=? zlen src then
      let n2 := min_sz count2 (sz (zlen src - pos2)) in
      do b <- write_range (buf s) pos (firstn (Z.to_nat (rep_n s pos count n2)) (skipn (Z.to_nat pos2) src));
      Ok (with_buf s b)
    else Contract
  else Contract.

(* the iterator-based overloads, iterators given as offsets from begin() (ptrdiff_t values).  They start with
   assert_range_in_string(first, last) (fix commit 377d1df; before it nothing was checked and a pair outside the string
   wrote outside the object): start = size_type(first - cbegin()), distance = size_type(last - first),
   TETL_PRECONDITION(start <= size()), TETL_PRECONDITION(distance <= size() - start) — as erase(first, last).
   replace(first, last, str) / (first, last, s, count2) / (first, last, s): str_replace(f, l, sf, sl) *)
Definition replace_it_m (s : istr) (first last : Z) (src : list Z) : res istr :=
  let start := sz first in
  let distance := sz (last - first) in
  if start <=? get_size s then
    if distance <=? sz (get_size s - start) then
      let n := if zlen src <? distance then zlen src else distance in
      do b <- write_range (buf s) start (firstn (Z.to_nat n) src);
      Ok (with_buf s b)
    else Contract
  else Contract.
(* replace(first, last, count2, ch): l = f + min(count2, last - first); str_replace(f, l, ch) fills [f, l) *)
Definition replace_it_fill_m (s : istr) (first last count2 ch : Z) : res istr :=
  let start := sz first in
  let distance := sz (last - first) in
  if start <=? get_size s then
    if distance <=? sz (get_size s - start) then
      let n := min_sz distance count2 in
      do b <- write_range (buf s) start (repeat ch (Z.to_nat n));
      Ok (with_buf s b)
    else Contract
  else Contract.

(** * members called WITHOUT a position: the default argument as written in the header.
      find / find_first_of / find_first_not_of: 0; find_last_of / find_last_not_of: npos (fixed);
      rfind: 0 (std: npos — recorded known finding KF-C04-rfind-default, pinned by tests/string) *)
Definition str_rfind_default_m (s : istr) (n : view) : res Z := str_rfind_m s n 0.
Definition str_find_last_of_default_m (s : istr) (n : view) : res Z := str_find_last_of_m s n npos.
Definition str_find_last_not_of_default_m (s : istr) (n : view) : res Z := str_find_last_not_of_m s n npos.
