(* C04 specification, part 2: what std::basic_string answers for each overload of the const members,
   on character lists (the C08 list-level definitions of [string.view.find] / [string.ops], which
   std::basic_string shares with std::basic_string_view).  [needle_chars] etc. say which characters an
   argument denotes; nothing here mentions how the library forwards its arguments. *)
From Tetl Require Import Lib.Base C08.Model C08.Spec C04.Model C04.ModelQ.
Local Open Scope Z_scope.

(* the characters a view spans (the same definition as C08.Core.vchars, repeated here so that the
   specification does not depend on a proof file) *)
Definition view_chars (v : view) : list Z :=
  firstn (Z.to_nat (vlen v)) (skipn (Z.to_nat (voff v)) (vbuf v)).

Definition needle_chars (n : needle) : list Z :=
  match n with
  | NStr v => view_chars v
  | NPtrCount a count => sub (view_chars a) 0 count
  | NCstr a => cstr_s (view_chars a)
  | NChar c => [c]
  end.

(* the argument is usable: views lie inside their arrays, (s, count) stays inside the array s points
   into, a C string pointer points into an array that holds a null character *)

Definition search_s (f : fam) (h n : list Z) (pos : Z) : Z :=
  match f with
  | FFind => find_s h n pos
  | FRfind => rfind_s h n pos
  | FFirstOf => find_first_of_s h n pos
  | FFirstNotOf => find_first_not_of_s h n pos
  | FLastOf => find_last_of_s h n pos
  | FLastNotOf => find_last_not_of_s h n pos
  end.

(* the standard's default position *)
Definition std_default_pos (f : fam) : Z :=
  match f with FRfind | FLastOf | FLastNotOf => s_npos | _ => 0 end.

Definition compare_call_s (t : chartype) (l : list Z) (c : cmp_call) : option Z :=
  match c with
  | CmpStr b => Some (compare_s t l (view_chars b))
  | CmpPosStr pos count b => compare3_s t l pos count (view_chars b)
  | CmpPos5Str pos1 count1 b pos2 count2 => compare5_s t l pos1 count1 (view_chars b) pos2 count2
  | CmpCstr a => Some (compare_s t l (cstr_s (view_chars a)))
  | CmpPosCstr pos count a => compare3_s t l pos count (cstr_s (view_chars a))
  | CmpPosPtrCount pos1 count1 a count2 => compare3_s t l pos1 count1 (sub (view_chars a) 0 count2)
  | CmpPosView pos1 count1 v => compare3_s t l pos1 count1 (view_chars v)
  | CmpPos5View pos1 count1 v pos2 count2 => compare5_s t l pos1 count1 (view_chars v) pos2 count2
  end.


Definition pfx_chars (p : pfx_arg) : list Z :=
  match p with PView v => view_chars v | PChar c => [c] | PCstr a => cstr_s (view_chars a) end.
