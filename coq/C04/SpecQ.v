(* C04 specification, part 2: what std::basic_string answers for each overload of the const members,
   on character lists (the C08 list-level definitions of [string.view.find] / [string.ops], which
   std::basic_string shares with std::basic_string_view).  [needle_chars] etc. say which characters an
   argument denotes; nothing here mentions how the library forwards its arguments. *)
From Tetl Require Import Lib.Base C08.Model C08.Spec C08.Core C08.ProofsCmp C08.ProofsFind C08.ProofsPtr C04.Model C04.ModelQ.
Local Open Scope Z_scope.

Definition needle_chars (n : needle) : list Z :=
  match n with
  | NStr v => vchars v
  | NPtrCount a count => sub (vchars a) 0 count
  | NCstr a => cstr_s (vchars a)
  | NChar c => [c]
  end.

(* the argument is usable: views lie inside their arrays, (s, count) stays inside the array s points
   into, a C string pointer points into an array that holds a null character *)
Definition needle_ok (n : needle) : Prop :=
  match n with
  | NStr v => view_ok v
  | NPtrCount a count => view_ok a /\ 0 <= count <= vlen a
  | NCstr a => cstr_ok a
  | NChar _ => True
  end.

Definition search_s (f : fam) (h n : list Z) (pos : Z) : Z :=
  match f with
  | FFind => find_s h n pos
  | FRfind => rfind_s h n pos
  | FFirstOf => find_first_of_s h n pos
  | FFirstNotOf => find_first_not_of_s h n pos
  | FLastOf => find_last_of_s h n pos
  | FLastNotOf => find_last_not_of_s h n pos
  end.

(* the standard's default position *)
Definition std_default_pos (f : fam) : Z :=
  match f with FRfind | FLastOf | FLastNotOf => s_npos | _ => 0 end.

Definition compare_call_s (t : chartype) (l : list Z) (c : cmp_call) : option Z :=
  match c with
  | CmpStr b => Some (compare_s t l (vchars b))
  | CmpPosStr pos count b => compare3_s t l pos count (vchars b)
  | CmpPos5Str pos1 count1 b pos2 count2 => compare5_s t l pos1 count1 (vchars b) pos2 count2
  | CmpCstr a => Some (compare_s t l (cstr_s (vchars a)))
  | CmpPosCstr pos count a => compare3_s t l pos count (cstr_s (vchars a))
  | CmpPosPtrCount pos1 count1 a count2 => compare3_s t l pos1 count1 (sub (vchars a) 0 count2)
  | CmpPosView pos1 count1 v => compare3_s t l pos1 count1 (vchars v)
  | CmpPos5View pos1 count1 v pos2 count2 => compare5_s t l pos1 count1 (vchars v) pos2 count2
  end.

Definition cmp_call_ok (c : cmp_call) : Prop :=
  match c with
  | CmpStr b => view_ok b
  | CmpPosStr pos count b => view_ok b /\ pos_ok pos /\ pos_ok count
  | CmpPos5Str pos1 count1 b pos2 count2 => view_ok b /\ pos_ok pos1 /\ pos_ok count1 /\ pos_ok pos2 /\ pos_ok count2
  | CmpCstr a => cstr_ok a
  | CmpPosCstr pos count a => cstr_ok a /\ pos_ok pos /\ pos_ok count
  | CmpPosPtrCount pos1 count1 a count2 => view_ok a /\ pos_ok pos1 /\ pos_ok count1 /\ 0 <= count2 <= vlen a
  | CmpPosView pos1 count1 v => view_ok v /\ pos_ok pos1 /\ pos_ok count1
  | CmpPos5View pos1 count1 v pos2 count2 => view_ok v /\ pos_ok pos1 /\ pos_ok count1 /\ pos_ok pos2 /\ pos_ok count2
  end.

Definition pfx_chars (p : pfx_arg) : list Z :=
  match p with PView v => vchars v | PChar c => [c] | PCstr a => cstr_s (vchars a) end.
(* for starts_with / ends_with the characters must be values of the character type *)
Definition pfx_ok (t : chartype) (p : pfx_arg) : Prop :=
  match p with
  | PView v => view_ok v /\ chars_ok t (vchars v)
  | PChar _ => True
  | PCstr a => cstr_ok a /\ chars_ok t (vchars a)
  end.
Definition pfx_ok' (p : pfx_arg) : Prop :=
  match p with PView v => view_ok v | PChar _ => True | PCstr a => cstr_ok a end.
