(* C04: the in-place loops of ModelAlias.v = the ordinary operations on a snapshot of the array, for every source range
   that lies inside the contents. *)
From Tetl Require Import Lib.Base Lib.Arr C08.Model C04.Model C04.ModelAlias C04.Spec C04.Inv C04.InvOps C04.RefineBase C04.RefineOps1.
From Coq Require Import ZifyBool.
Local Open Scope Z_scope.
Ltac Zify.zify_post_hook ::= Z.to_euclidean_division_equations.

Lemma prefix_window (p t1 t2 : list Z) a k : (a + k <= length p)%nat ->
  firstn k (skipn a (p ++ t1)) = firstn k (skipn a (p ++ t2)).
Proof.
  intros H. rewrite !skipn_app. replace (a - length p)%nat with O by lia. cbn [skipn].
  rewrite !firstn_app. rewrite skipn_length. replace (k - (length p - a))%nat with O by lia. reflexivity.
Qed.

Lemma copy_within_disjoint : forall n b src dst, 0 <= src -> src + Z.of_nat n <= dst -> dst + Z.of_nat n <= zlen b ->
  copy_within b src dst n = write_range b dst (firstn n (skipn (Z.to_nat src) b)).
Proof.
  induction n as [|k IH]; intros b src dst Hs Hd Hl; [reflexivity|].
  cbn [copy_within].
  assert (Hlt : (Z.to_nat src < length b)%nat) by (unfold zlen in Hl; lia).
  destruct (nth_error b (Z.to_nat src)) as [v|] eqn:En; [|apply nth_error_None in En; lia].
  assert (Esk : skipn (Z.to_nat src) b = v :: skipn (S (Z.to_nat src)) b).
  { clear - En. revert b En. generalize (Z.to_nat src) as i. induction i as [|i IHi]; intros [|x b] En; cbn in *; try discriminate.
    - inversion En. reflexivity.
    - apply IHi. exact En. }
  rewrite Esk. cbn [firstn write_range].
  destruct (wr b dst v) as [b'| | |] eqn:Ew; cbn [rbind]; try reflexivity.
  apply wr_inv in Ew as (Hdst & Eb').
  rewrite IH; [|lia|lia|].
  2:{ subst b'. unfold zlen in *. rewrite app_length, firstn_length. cbn [length]. rewrite skipn_length. lia. }
  f_equal. replace (Z.to_nat (src + 1)) with (S (Z.to_nat src)) by lia.
  subst b'. transitivity (firstn k (skipn (S (Z.to_nat src)) (firstn (Z.to_nat dst) b ++ skipn (Z.to_nat dst) b))).
  - apply prefix_window. rewrite firstn_length. unfold zlen in *. lia.
  - rewrite firstn_skipn. reflexivity.
Qed.

Theorem append_self_snapshot s off count : inv s -> 0 <= off -> 0 <= count -> off + count <= get_size s ->
  append_self_m s off count = append_ptr_m s (self_src s off) count.
Proof.
  intros I Ho Hc Hfit. pose proof I as (Hcap & Hl & Hs & _). unfold cap_ok in Hcap.
  unfold append_self_m, append_ptr_m. rewrite (sz_id (cap s - get_size s)) by lia. rewrite min_sz_min.
  set (safe := Z.min count (cap s - get_size s)).
  unfold take_chk, self_src.
  assert (Hlen : zlen (skipn (Z.to_nat off) (buf s)) = cap s + 1 - off) by (rewrite zlen_skipn; lia).
  rewrite Hlen. replace (safe <=? cap s + 1 - off) with true by (unfold safe; lia). cbn [rbind].
  rewrite copy_within_disjoint; [reflexivity|lia| |]; unfold safe; lia.
Qed.

Theorem insert_self_snapshot s pos off count : inv s -> 0 <= off -> 0 <= count -> off + count <= get_size s ->
  insert_self_m s pos off count = insert_impl_m s pos (self_src s off) count.
Proof.
  intros I Ho Hc Hfit. unfold insert_self_m, insert_impl_m. destruct (pos >? get_size s); [reflexivity|].
  rewrite append_self_snapshot by assumption. reflexivity.
Qed.

Lemma skipn_cons_nth (l : list Z) i v : nth_error l i = Some v -> skipn i l = v :: skipn (S i) l.
Proof.
  revert l. induction i as [|i IHi]; intros [|x l] En; cbn in *; try discriminate.
  - inversion En. reflexivity.
  - apply IHi. exact En.
Qed.

Theorem push_back_self_loop_snapshot : forall n s i, inv s -> 0 <= i -> i + Z.of_nat n <= get_size s ->
  push_back_self_loop s i n = push_back_loop_m s (firstn n (skipn (Z.to_nat i) (contents s))).
Proof.
  induction n as [|k IH]; intros s i I Hi Hfit; [reflexivity|].
  pose proof I as (Hcap & Hl & Hs & _). pose proof (contents_len s I) as L.
  cbn [push_back_self_loop].
  assert (Hlt : (Z.to_nat i < length (contents s))%nat) by (unfold zlen in L; lia).
  destruct (nth_error (contents s) (Z.to_nat i)) as [v|] eqn:En; [|apply nth_error_None in En; lia].
  assert (Eb : nth_error (buf s) (Z.to_nat i) = Some v).
  { rewrite (buf_split s). rewrite nth_error_app1 by exact Hlt. exact En. }
  rewrite Eb. rewrite (skipn_cons_nth _ _ _ En). cbn [firstn push_back_loop_m].
  destruct (get_size s <? cap s) eqn:Eroom.
  - destruct (push_back_ref s v I ltac:(lia)) as (s' & E' & K' & C').
    rewrite E'. cbn [rbind].
    assert (G' : get_size s' = get_size s + 1).
    { rewrite <- (contents_len s' (keeps_inv _ _ K')), C', zlen_app, L. reflexivity. }
    rewrite (IH s' (i + 1) (keeps_inv _ _ K') ltac:(lia) ltac:(lia)). f_equal.
    replace (Z.to_nat (i + 1)) with (S (Z.to_nat i)) by lia. rewrite C'.
    rewrite <- (app_nil_r (contents s)) at 2. apply prefix_window. unfold zlen in L. lia.
  - unfold push_back_m. rewrite Eroom. reflexivity.
Qed.
