(* C04 refinement, part 0: list facts, the abstraction [contents], and the two workhorses
   - every operation that ends in unsafe_set_size n on array b has contents (firstn n b);
   - a run of checked writes inside the array is a splice. *)
From Tetl Require Import Lib.Base Lib.Arr C08.Model C04.Model C04.Spec C04.Inv C04.InvOps.
Require Tetl.C06a.Model Tetl.C06a.RotateProof.
From Coq Require Import ZifyBool.
Local Open Scope Z_scope.
Ltac Zify.zify_post_hook ::= Z.to_euclidean_division_equations.

(* the std::string operation a model operation stands for (same arguments) *)
Definition sop_of (o : op) : sop :=
  match o with
  | OClear => SClear
  | OPushBack ch => SPushBack ch
  | OPopBack => SPopBack
  | OAppendFill count ch => SAppendFill count ch
  | OAppendPtr src count => SAppendPtr src count
  | OAppendRange src => SAppendRange src
  | OInsertPtr index src count => SInsertPtr index src count
  | OInsertFill index count ch => SInsertFill index count ch
  | OErase index count => SErase index count
  | OEraseRange start distance => SEraseRange start distance
  | OResize count ch => SResize count ch
  | OAssignPtr src count => SAssignPtr src count
  | OAssignFill count ch => SAssignFill count ch
  | OSubstr pos count => SSubstr pos count
  | OSwapWith src => SSwapWith src
  | OAppendCstr a => SAppendCstr a
  | OAppendStr src => SAppendStr src
  | OAppendStrSub src pos count => SAppendStrSub src pos count
  | OAppendViewSub src pos count => SAppendViewSub src pos count
  | OAssignCstr a => SAssignCstr a
  | OAssignStrSub src pos count => SAssignStrSub src pos count
  | OAssignViewSub src pos count => SAssignViewSub src pos count
  | OInsertCstr index a => SInsertCstr index a
  | OInsertStrSub index src indexStr count => SInsertStrSub index src indexStr count
  | OErasePos pos => SErasePos pos
  | OFreeErase value => SFreeErase value
  | OFreeEraseIf k => SFreeEraseIf (pred_of k)
  | OAppendRangeIn src => SAppendRange src
  end.

(* the arguments exist: a basic_inplace_string argument of the same type holds at most Capacity characters;
   the array behind a string_view argument is shorter than 2^63 *)
Definition arg_ok (c : Z) (o : op) : Prop :=
  match o with
  | OAppendStr src | OAppendStrSub src _ _ | OAssignStrSub src _ _ => zlen src <= c
  | OAppendViewSub src _ _ | OAssignViewSub src _ _ | OInsertStrSub _ src _ _ => zlen src < 9223372036854775808
  | _ => True
  end.

(** * lists *)
Lemma firstn_len_app (p r : list Z) : firstn (length p) (p ++ r) = p.
Proof. induction p as [|x p IH]; cbn [length firstn app]; [destruct r; reflexivity|f_equal; exact IH]. Qed.

Lemma skipn_len_app (p r : list Z) : skipn (length p) (p ++ r) = r.
Proof. induction p as [|x p IH]; cbn [length skipn app]; [reflexivity|exact IH]. Qed.

Lemma firstn_n_app (p r : list Z) n : n = length p -> firstn n (p ++ r) = p.
Proof. intros ->. apply firstn_len_app. Qed.

Lemma skipn_n_app (p r : list Z) n : n = length p -> skipn n (p ++ r) = r.
Proof. intros ->. apply skipn_len_app. Qed.

Lemma firstn_le_app (p r : list Z) n : (n <= length p)%nat -> firstn n (p ++ r) = firstn n p.
Proof. intros H. rewrite firstn_app. replace (n - length p)%nat with O by lia. cbn [firstn]. apply app_nil_r. Qed.

Lemma skipn_le_app (p r : list Z) n : (n <= length p)%nat -> skipn n (p ++ r) = skipn n p ++ r.
Proof. intros H. rewrite skipn_app. replace (n - length p)%nat with O by lia. reflexivity. Qed.

Lemma zlen_app (a b : list Z) : zlen (a ++ b) = zlen a + zlen b.
Proof. unfold zlen. rewrite app_length. lia. Qed.

Lemma zlen_nonneg (a : list Z) : 0 <= zlen a.
Proof. unfold zlen. lia. Qed.

Lemma zlen_repeat (x : Z) n : zlen (repeat x n) = Z.of_nat n.
Proof. unfold zlen. rewrite repeat_length. reflexivity. Qed.

Lemma zlen_firstn (l : list Z) n : 0 <= n <= zlen l -> zlen (firstn (Z.to_nat n) l) = n.
Proof. unfold zlen. intros H. rewrite firstn_length. lia. Qed.

Lemma zlen_skipn (l : list Z) n : 0 <= n <= zlen l -> zlen (skipn (Z.to_nat n) l) = zlen l - n.
Proof. unfold zlen. intros H. rewrite skipn_length. lia. Qed.

Lemma slen_zlen l : slen l = zlen l.
Proof. reflexivity. Qed.

(* a list with at least k elements starts with a block of k elements *)
Lemma split_block (t : list Z) k : 0 <= k <= zlen t -> exists m t', t = m ++ t' /\ zlen m = k.
Proof.
  intros H. exists (firstn (Z.to_nat k) t), (skipn (Z.to_nat k) t). split.
  - symmetry. apply firstn_skipn.
  - apply zlen_firstn. exact H.
Qed.

(** * checked writes as splices *)
Lemma wr_mid (p : list Z) y r v : wr (p ++ y :: r) (zlen p) v = Ok (p ++ v :: r).
Proof.
  unfold wr, zlen. rewrite app_length. cbn [length].
  destruct ((0 <=? Z.of_nat (length p)) && (Z.of_nat (length p) <? Z.of_nat (length p + S (length r)))) eqn:E; [|lia].
  rewrite Nat2Z.id. rewrite set_mid. reflexivity.
Qed.

Lemma write_range_app : forall (l m p t : list Z), length m = length l ->
  write_range (p ++ m ++ t) (zlen p) l = Ok (p ++ l ++ t).
Proof.
  induction l as [|x l IH]; intros m p t Hm.
  - destruct m; [|discriminate]. reflexivity.
  - destruct m as [|y m]; [discriminate|]. cbn [write_range app].
    rewrite wr_mid. cbn [rbind].
    replace (p ++ x :: m ++ t) with ((p ++ [x]) ++ m ++ t) by (rewrite <- app_assoc; reflexivity).
    replace (zlen p + 1) with (zlen (p ++ [x])) by (rewrite zlen_app; reflexivity).
    rewrite IH by (cbn [length] in Hm; lia). rewrite <- app_assoc. reflexivity.
Qed.

(** * the abstraction *)
Lemma contents_len s : inv s -> zlen (contents s) = get_size s.
Proof. intros (_ & Hl & Hs & _). unfold contents. apply zlen_firstn. lia. Qed.

Lemma buf_split s : buf s = contents s ++ skipn (Z.to_nat (get_size s)) (buf s).
Proof. unfold contents. symmetry. apply firstn_skipn. Qed.

(* the array as contents ++ (a block of k free characters) ++ rest *)
Lemma buf_split3 s k : inv s -> 0 <= k -> get_size s + k <= cap s + 1 ->
  exists m t, buf s = contents s ++ m ++ t /\ zlen m = k.
Proof.
  intros I Hk Hfit. pose proof I as (_ & Hl & Hs & _).
  destruct (split_block (skipn (Z.to_nat (get_size s)) (buf s)) k) as (m & t & E & Hm).
  - rewrite zlen_skipn by lia. lia.
  - exists m, t. split; [|exact Hm]. rewrite <- E. apply buf_split.
Qed.

Lemma contents_with_buf s b : znth b (cap s) = znth (buf s) (cap s) ->
  contents (with_buf s b) = firstn (Z.to_nat (get_size s)) b.
Proof. intros H. unfold contents. rewrite (get_size_with_buf s b H). reflexivity. Qed.

(* every mutator ends in unsafe_set_size n on an array b of the right length: the result always
   exists, satisfies the invariant and has the first n characters of b as contents *)
Lemma finish_ok s b n : inv s -> zlen b = cap s + 1 -> 0 <= n <= cap s ->
  exists s', unsafe_set_size (with_buf s b) n = Ok s' /\ keeps s s' /\ get_size s' = n /\
             contents s' = firstn (Z.to_nat n) b.
Proof.
  intros I Hb Hn. pose proof I as (Hc & Hl & _).
  destruct (unsafe_set_size_ok (with_buf s b) n) as (s' & E & C & K & L & G & T & F);
    cbn [with_buf cap buf]; try assumption.
  exists s'. split; [exact E|].
  destruct (finish s b n s' I ltac:(lia) ltac:(lia) E) as (Kp & _).
  split; [exact Kp|]. split; [exact G|]. unfold contents. rewrite G. exact F.
Qed.

Lemma keeps_inv s s' : keeps s s' -> inv s'.
Proof. unfold keeps. tauto. Qed.
Lemma keeps_cap s s' : keeps s s' -> cap s' = cap s.
Proof. unfold keeps. tauto. Qed.
Lemma keeps_ckind s s' : keeps s s' -> ckind s' = ckind s.
Proof. unfold keeps. tauto. Qed.

Lemma take_chk_ok src n : 0 <= n <= zlen src -> take_chk src n = Ok (firstn (Z.to_nat n) src).
Proof. intros H. unfold take_chk. replace (n <=? zlen src) with true by lia. reflexivity. Qed.

Lemma min_sz_min a b : min_sz a b = Z.min a b.
Proof. unfold min_sz. destruct (b <? a) eqn:E; lia. Qed.

(** * rotate on a decomposed array *)
Lemma rotate_buf_app (p a b t : list Z) :
  rotate_buf (p ++ a ++ b ++ t) (zlen p) (zlen p + zlen a) (zlen p + zlen a + zlen b) = Ok (p ++ b ++ a ++ t).
Proof.
  unfold rotate_buf, zlen.
  replace (Z.to_nat (Z.of_nat (length p))) with (length p) by lia.
  replace (Z.to_nat (Z.of_nat (length p) + Z.of_nat (length a))) with (length p + length a)%nat by lia.
  replace (Z.to_nat (Z.of_nat (length p) + Z.of_nat (length a) + Z.of_nat (length b)))
    with (length p + length a + length b)%nat by lia.
  rewrite C06a.RotateProof.rotate_correct; try lia.
  2:{ rewrite !app_length. lia. }
  cbn [rbind fst]. f_equal.
  rewrite firstn_len_app. f_equal.
  assert (E1 : sub (p ++ a ++ b ++ t) (length p + length a) (length p + length a + length b) = b).
  { replace (p ++ a ++ b ++ t) with ((p ++ a) ++ b ++ t) by (rewrite <- app_assoc; reflexivity).
    rewrite <- (app_length p a). apply sub_app3. }
  assert (E2 : sub (p ++ a ++ b ++ t) (length p) (length p + length a) = a) by apply sub_app3.
  assert (E3 : skipn (length p + length a + length b) (p ++ a ++ b ++ t) = t).
  { replace (p ++ a ++ b ++ t) with ((p ++ a ++ b) ++ t) by (rewrite <- !app_assoc; reflexivity).
    apply skipn_n_app. rewrite !app_length. lia. }
  rewrite E1, E2, E3. reflexivity.
Qed.
