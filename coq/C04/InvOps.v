(* C04: every operation of the model preserves the representation invariant whenever it returns;
   by induction, so does every history. *)
From Tetl Require Import Lib.Base Lib.Arr C08.Model C04.Model C04.Spec C04.Inv C04.CstrFacts.
Require Tetl.C06a.Model Tetl.C06a.Spec Tetl.C06a.RotateProof Tetl.C06a.P1_RemoveIf.
From Coq Require Import ZifyBool.
Local Open Scope Z_scope.
Ltac Zify.zify_post_hook ::= Z.to_euclidean_division_equations.

(* a size_t value *)
Definition szt (x : Z) : Prop := 0 <= x < 18446744073709551616.

(* "same object, invariant holds" *)
Definition keeps (s s' : istr) : Prop := inv s' /\ cap s' = cap s /\ ckind s' = ckind s.

Lemma sz_nonneg x : 0 <= sz x.
Proof. unfold sz. lia. Qed.

Lemma with_buf_proj s b : cap (with_buf s b) = cap s /\ ckind (with_buf s b) = ckind s /\ buf (with_buf s b) = b.
Proof. repeat split. Qed.

(* every operation ends in unsafe_set_size on an array of unchanged length *)
Lemma finish s b n s' : inv s -> zlen b = zlen (buf s) -> 0 <= n ->
  unsafe_set_size (with_buf s b) n = Ok s' -> keeps s s' /\ get_size s' = n.
Proof.
  intros (Hc & Hl & _) Hb Hn H.
  destruct (unsafe_set_size_inv (with_buf s b) n s') as (I & C & K & G); try assumption.
  - cbn [with_buf cap buf]. lia.
  - unfold keeps. cbn [with_buf cap ckind] in C, K. tauto.
Qed.

(* replacing the characters without touching the size byte / terminator keeps size and invariant *)
Lemma get_size_with_buf s b : znth b (cap s) = znth (buf s) (cap s) -> get_size (with_buf s b) = get_size s.
Proof. intros H. unfold get_size, tiny, with_buf. cbn [cap buf szf]. rewrite H. reflexivity. Qed.

Lemma inv_with_buf s b : inv s -> zlen b = zlen (buf s) ->
  znth b (cap s) = znth (buf s) (cap s) -> znth b (get_size s) = 0 ->
  keeps s (with_buf s b) /\ get_size (with_buf s b) = get_size s.
Proof.
  intros (Hc & Hl & Hs & Ht) Hb Hcap Hterm. pose proof (get_size_with_buf s b Hcap) as G.
  split; [|exact G]. unfold keeps, inv. rewrite G. cbn [with_buf cap ckind buf]. unfold cap_ok in *. repeat split; try lia; assumption.
Qed.

(** * clear, append, push_back, pop_back *)
Lemma clear_keeps s s' : inv s -> clear_m s = Ok s' -> keeps s s'.
Proof.
  intros I H. unfold clear_m in H.
  destruct (wr (buf s) 0 0) as [b| | |] eqn:E; cbn [rbind] in H; try discriminate.
  apply wr_inv in E as (Hi & ->). apply (finish s _ 0 s' I) in H; [tauto| |lia].
  apply zlen_upd. exact Hi.
Qed.

Lemma append_fill_keeps s count ch s' : inv s -> append_fill_m s count ch = Ok s' -> keeps s s'.
Proof.
  intros I H. unfold append_fill_m in H.
  destruct (write_range _ _ _) as [b| | |] eqn:E; cbn [rbind] in H; try discriminate.
  apply write_range_len in E. apply (finish s b _ s' I E (sz_nonneg _)) in H. tauto.
Qed.

Lemma take_chk_inv src n l : take_chk src n = Ok l -> n <= zlen src /\ l = firstn (Z.to_nat n) src.
Proof. unfold take_chk. destruct (n <=? zlen src) eqn:E; intros H; inversion H. split; [lia|reflexivity]. Qed.

(* append(ptr, count) with the exact new size (needed by insert) *)
Lemma append_ptr_keeps s src count s' : inv s -> szt count -> append_ptr_m s src count = Ok s' ->
  keeps s s' /\ get_size s <= get_size s' /\
  firstn (Z.to_nat (get_size s)) (buf s') = firstn (Z.to_nat (get_size s)) (buf s).
Proof.
  intros I Hcnt H. pose proof I as (Hc & Hl & Hs & Ht). unfold cap_ok in Hc. unfold szt in Hcnt.
  unfold append_ptr_m in H.
  destruct (take_chk _ _) as [l| | |] eqn:E1; cbn [rbind] in H; try discriminate.
  destruct (write_range _ _ _) as [b| | |] eqn:E2; cbn [rbind] in H; try discriminate.
  pose proof (write_range_len _ _ _ _ E2) as Hb.
  pose proof (firstn_write_range _ _ _ _ (Z.to_nat (get_size s)) E2 ltac:(lia) ltac:(lia)) as Hpre.
  set (safe := min_sz count (sz (cap s - get_size s))) in *.
  assert (Hsafe : 0 <= safe <= cap s - get_size s).
  { unfold safe, min_sz. rewrite sz_id by lia. destruct (cap s - get_size s <? count) eqn:E; lia. }
  rewrite sz_id in H by lia.
  assert (Hfin := H). apply (finish s b (get_size s + safe) s' I Hb ltac:(lia)) in Hfin as (K & G).
  split; [exact K|]. split; [lia|].
  (* the characters below the old size: untouched by the terminator write of unsafe_set_size *)
  destruct (unsafe_set_size_ok (with_buf s b) (get_size s + safe)) as (s2 & E3 & _ & _ & _ & _ & _ & Hf);
    cbn [with_buf cap buf]; try (unfold cap_ok; lia).
  rewrite E3 in H. inversion H; subst s2. cbn [with_buf buf] in Hf.
  rewrite <- Hpre.
  replace (Z.to_nat (get_size s)) with (Nat.min (Z.to_nat (get_size s)) (Z.to_nat (get_size s + safe))) by lia.
  rewrite <- !firstn_firstn. rewrite Hf. reflexivity.
Qed.

Lemma push_back_keeps s ch s' : inv s -> push_back_m s ch = Ok s' -> keeps s s'.
Proof.
  intros I H. unfold push_back_m in H. destruct (get_size s <? cap s); [|discriminate].
  eapply append_fill_keeps; eassumption.
Qed.

Lemma pop_back_keeps s s' : inv s -> pop_back_m s = Ok s' -> keeps s s'.
Proof.
  intros I H. unfold pop_back_m in H. destruct (negb (get_size s =? 0)); [|discriminate].
  replace s with (with_buf s (buf s)) in H at 1 by (destruct s; reflexivity).
  apply (finish s (buf s) _ s' I eq_refl (sz_nonneg _)) in H. tauto.
Qed.

Lemma keeps_trans s1 s2 s3 : keeps s1 s2 -> keeps s2 s3 -> keeps s1 s3.
Proof. unfold keeps. intros (I2 & C2 & K2) (I3 & C3 & K3). split; [exact I3|split; congruence]. Qed.

Lemma keeps_refl s : inv s -> keeps s s.
Proof. unfold keeps. tauto. Qed.

Lemma push_back_loop_keeps : forall l s s', inv s -> push_back_loop_m s l = Ok s' -> keeps s s'.
Proof.
  induction l as [|x l IH]; intros s s' I H; cbn [push_back_loop_m] in H.
  - inversion H; subst. apply keeps_refl. exact I.
  - destruct (push_back_m s x) as [s1| | |] eqn:E; cbn [rbind] in H; try discriminate.
    pose proof (push_back_keeps _ _ _ I E) as K1. eapply keeps_trans; [exact K1|].
    apply IH; [apply K1|exact H].
Qed.

Lemma append_range_cat_keeps ra l s s' : inv s -> append_range_cat_m ra s l = Ok s' -> keeps s s'.
Proof.
  intros I H. unfold append_range_cat_m in H. destruct ra.
  - destruct (zlen l <=? sz (cap s - get_size s)); [|discriminate]. eapply push_back_loop_keeps; eassumption.
  - eapply push_back_loop_keeps; eassumption.
Qed.

Lemma append_range_keeps l s s' : inv s -> append_range_m s l = Ok s' -> keeps s s'.
Proof. apply append_range_cat_keeps. Qed.

(** * rotate on the character array *)
Lemma rotate_buf_spec b first mid last b' : 0 <= first <= mid -> mid <= last <= zlen b ->
  rotate_buf b first mid last = Ok b' ->
  zlen b' = zlen b /\ skipn (Z.to_nat last) b' = skipn (Z.to_nat last) b.
Proof.
  intros H1 H2 H. unfold rotate_buf in H. unfold zlen in *.
  rewrite C06a.RotateProof.rotate_correct in H by lia. cbn [rbind fst] in H. inversion H; subst b'; clear H.
  set (f := Z.to_nat first) in *. set (m := Z.to_nat mid) in *. set (l := Z.to_nat last) in *.
  assert (Hf : (f <= m)%nat) by lia. assert (Hm : (m <= l)%nat) by lia. assert (Hl : (l <= length b)%nat) by lia.
  assert (Hlen : length (firstn f b ++ sub b m l ++ sub b f m) = l).
  { rewrite !app_length, firstn_length. unfold sub. rewrite !firstn_length, !skipn_length. lia. }
  split.
  - rewrite !app_length, firstn_length. unfold sub. rewrite !firstn_length, !skipn_length. lia.
  - replace (firstn f b ++ sub b m l ++ sub b f m ++ skipn l b)
      with ((firstn f b ++ sub b m l ++ sub b f m) ++ skipn l b) by (rewrite <- !app_assoc; reflexivity).
    rewrite skipn_app, Hlen, Nat.sub_diag. rewrite skipn_all2 by lia. reflexivity.
Qed.

Lemma znth_of_skipn (b b' : list Z) n j : skipn n b' = skipn n b -> (n <= Z.to_nat j)%nat -> znth b' j = znth b j.
Proof.
  intros H Hj. unfold znth.
  replace (Z.to_nat j) with (n + (Z.to_nat j - n))%nat by lia.
  rewrite <- !nth_skipn_add. rewrite H. reflexivity.
Qed.

(** * insert *)
Lemma insert_impl_keeps s pos src count s' : inv s -> szt pos -> szt count ->
  insert_impl_m s pos src count = Ok s' -> keeps s s'.
Proof.
  intros I Hp Hcnt H. unfold insert_impl_m in H. unfold szt in Hp.
  destruct (pos >? get_size s) eqn:Ep; [discriminate|].
  destruct (append_ptr_m s src count) as [s1| | |] eqn:E1; cbn [rbind] in H; try discriminate.
  destruct (append_ptr_keeps _ _ _ _ I Hcnt E1) as (K1 & Hgrow & _).
  destruct (rotate_buf _ _ _ _) as [b| | |] eqn:E2; cbn [rbind] in H; try discriminate.
  inversion H; subst s'; clear H.
  pose proof K1 as (I1 & C1 & _). pose proof I1 as (Hc1 & Hl1 & Hs1 & Ht1).
  destruct (rotate_buf_spec (buf s1) pos (get_size s) (get_size s1) b ltac:(lia) ltac:(lia) E2) as (Hlen & Htail).
  destruct (inv_with_buf s1 b I1 Hlen) as (K2 & _).
  - apply (znth_of_skipn _ _ _ _ Htail). lia.
  - rewrite (znth_of_skipn _ _ _ _ Htail) by lia. exact Ht1.
  - eapply keeps_trans; eassumption.
Qed.

Lemma insert_fill_loop_keeps : forall n s index ch s', inv s -> szt index ->
  insert_fill_loop n s index ch = Ok s' -> keeps s s'.
Proof.
  induction n as [|n IH]; intros s index ch s' I Hi H; cbn [insert_fill_loop] in H.
  - inversion H; subst. apply keeps_refl. exact I.
  - destruct (insert_impl_m s index [ch] 1) as [s1| | |] eqn:E; cbn [rbind] in H; try discriminate.
    pose proof (insert_impl_keeps s index [ch] 1 s1 I Hi ltac:(unfold szt; lia) E) as K1.
    eapply keeps_trans; [exact K1|]. eapply IH; [apply K1|exact Hi|exact H].
Qed.

(** * erase, resize *)
Lemma erase_range_keeps s start distance s' : inv s -> szt start -> szt distance ->
  erase_range_m s start distance = Ok s' -> keeps s s'.
Proof.
  intros I Hs Hd H. pose proof I as (Hc & Hl & Hsz & Ht). unfold cap_ok in Hc. unfold szt in *.
  unfold erase_range_m in H.
  destruct (start <=? get_size s) eqn:E1; [|discriminate].
  rewrite (sz_id (get_size s - start)) in H by lia.
  destruct (distance <=? get_size s - start) eqn:E2; [|discriminate].
  rewrite (sz_id (start + distance)) in H by lia.
  destruct (rotate_buf _ _ _ _) as [b| | |] eqn:E3; cbn [rbind] in H; try discriminate.
  destruct (rotate_buf_spec (buf s) start (start + distance) (get_size s) b ltac:(lia) ltac:(lia) E3) as (Hlen & _).
  apply (finish s b _ s' I Hlen (sz_nonneg _)) in H. tauto.
Qed.

Lemma min_sz_szt a b : szt a -> szt b -> szt (min_sz a b).
Proof. unfold szt, min_sz. intros. destruct (b <? a); lia. Qed.

Lemma sz_szt x : szt (sz x).
Proof. unfold szt, sz. lia. Qed.

Lemma erase_keeps s index count s' : inv s -> szt index -> szt count ->
  erase_m s index count = Ok s' -> keeps s s'.
Proof.
  intros I Hi Hc H. unfold erase_m in H. destruct (index <=? get_size s); [|discriminate].
  apply (erase_range_keeps s index (min_sz count (sz (get_size s - index))) s' I Hi); [|exact H].
  apply min_sz_szt; [exact Hc|apply sz_szt].
Qed.

Lemma resize_keeps s count ch s' : inv s -> szt count -> resize_m s count ch = Ok s' -> keeps s s'.
Proof.
  intros I Hc H. unfold resize_m in H.
  destruct (get_size s >? count) eqn:E.
  - destruct (unsafe_set_size s count) as [s1| | |] eqn:E1; cbn [rbind] in H; try discriminate.
    replace s with (with_buf s (buf s)) in E1 at 1 by (destruct s; reflexivity).
    unfold szt in Hc. apply (finish s (buf s) count s1 I eq_refl ltac:(lia)) in E1 as (K1 & _).
    destruct (get_size s1 <? count).
    + eapply keeps_trans; [exact K1|]. eapply append_fill_keeps; [apply K1|exact H].
    + inversion H; subst. exact K1.
  - cbn [rbind] in H. destruct (get_size s <? count).
    + eapply append_fill_keeps; eassumption.
    + inversion H; subst. apply keeps_refl. exact I.
Qed.

(** * constructors, assign, substr *)
Lemma ctor_ptr_inv c ck src len s' : cap_ok c -> ctor_ptr c ck src len = Ok s' ->
  inv s' /\ cap s' = c /\ ckind s' = ck.
Proof.
  intros Hc H. unfold ctor_ptr in H. destruct (len <=? c) eqn:E; [|discriminate].
  destruct (inv_default c ck Hc) as (I0 & _).
  destruct (Z_lt_le_dec len 0) as [Hneg|Hpos].
  { (* a negative length is not a size_t; unsafe_set_size still only returns well-formed states *)
    destruct (unsafe_set_size _ len) as [s1| | |] eqn:E1; cbn [rbind] in H; try discriminate.
    unfold unsafe_set_size in E1. destruct (len <=? cap (default_str c ck)); [|discriminate].
    destruct (set_size _ len) as [s2| | |]; cbn [rbind] in E1; try discriminate.
    destruct (len <? sz (get_size s2 + 1)); [|discriminate].
    destruct (wr (buf s2) len 0) as [b| | |] eqn:E2; cbn [rbind] in E1; try discriminate.
    apply wr_inv in E2. lia. }
  destruct (unsafe_set_size _ len) as [s1| | |] eqn:E1; cbn [rbind] in H; try discriminate.
  replace (default_str c ck) with (with_buf (default_str c ck) (buf (default_str c ck))) in E1
    by (destruct (default_str c ck); reflexivity).
  apply (finish _ _ _ s1 I0 eq_refl Hpos) in E1 as ((I1 & C1 & K1) & G1).
  assert (Hcap0 : cap (default_str c ck) = c) by (unfold default_str; destruct (c <? 16); reflexivity).
  assert (Hck0 : ckind (default_str c ck) = ck) by (unfold default_str; destruct (c <? 16); reflexivity).
  destruct (take_chk src len) as [l| | |] eqn:E2; cbn [rbind] in H; try discriminate.
  apply take_chk_inv in E2 as (Hsrc & ->).
  destruct (write_range _ _ _) as [b| | |] eqn:E3; cbn [rbind] in H; try discriminate.
  inversion H; subst s'; clear H.
  pose proof I1 as (Hc1 & Hl1 & Hs1 & Ht1).
  assert (Hll : zlen (firstn (Z.to_nat len) src) = len).
  { unfold zlen in *. rewrite firstn_length. lia. }
  destruct (inv_with_buf s1 b I1 (write_range_len _ _ _ _ E3)) as ((I2 & C2 & K2) & _).
  - apply (write_range_other _ _ _ _ _ E3); lia.
  - rewrite (write_range_other _ _ _ _ _ E3) by lia. exact Ht1.
  - split; [exact I2|]. split; congruence.
Qed.

Lemma ctor_fill_inv c ck count ch s' : cap_ok c -> szt count -> ctor_fill c ck count ch = Ok s' ->
  inv s' /\ cap s' = c /\ ckind s' = ck.
Proof.
  intros Hc Hcnt H. unfold ctor_fill in H. destruct (count <=? c) eqn:E; [|discriminate].
  destruct (inv_default c ck Hc) as (I0 & _).
  assert (Hcap0 : cap (default_str c ck) = c) by (unfold default_str; destruct (c <? 16); reflexivity).
  assert (Hck0 : ckind (default_str c ck) = ck) by (unfold default_str; destruct (c <? 16); reflexivity).
  destruct (write_range _ _ _) as [b| | |] eqn:E1; cbn [rbind] in H; try discriminate.
  unfold szt in Hcnt.
  apply (finish _ b count s' I0 (write_range_len _ _ _ _ E1) ltac:(lia)) in H as ((I1 & C1 & K1) & _).
  split; [exact I1|]. split; congruence.
Qed.

Lemma substr_keeps s pos count s' : inv s -> substr_m s pos count = Ok s' -> keeps s s'.
Proof.
  intros I H. pose proof I as (Hc & _). unfold substr_m in H. destruct (pos >? get_size s).
  - inversion H; subst. destruct (inv_default (cap s) (ckind s) Hc) as (I0 & _).
    unfold keeps. split; [exact I0|]. unfold default_str. destruct (cap s <? 16); split; reflexivity.
  - apply ctor_ptr_inv in H; [|exact Hc]. unfold keeps. tauto.
Qed.

(** * swap *)
Lemma swap_keeps a b a' b' : inv a -> inv b -> cap b = cap a -> swap_m a b = Ok (a', b') -> keeps a a'.
Proof.
  intros Ia Ib Hcap H. pose proof Ia as (Hc & Hla & Hsa & _). pose proof Ib as (_ & Hlb & Hsb & _).
  unfold swap_m in H.
  set (m := if get_size a <? get_size b then get_size b else get_size a) in *.
  assert (Hm : 0 <= m <= cap a) by (unfold m; destruct (get_size a <? get_size b); lia).
  destruct ((m + 1 <=? zlen (buf a)) && (m + 1 <=? zlen (buf b))) eqn:E; [|discriminate].
  destruct (unsafe_set_size (with_buf a _) (get_size b)) as [a1| | |] eqn:E1; cbn [rbind] in H; try discriminate.
  destruct (unsafe_set_size (with_buf b _) (get_size a)) as [b1| | |] eqn:E2; cbn [rbind] in H; try discriminate.
  inversion H; subst a' b'; clear H.
  apply (finish a _ _ a1 Ia) in E1; [tauto| |lia].
  unfold zlen in *. rewrite app_length, firstn_length, skipn_length. lia.
Qed.

(** * the remaining overloads: compositions of the operations above *)
Lemma other_str_inv s src o : inv s -> other_str s src = Ok o -> inv o /\ cap o = cap s /\ ckind o = ckind s.
Proof. intros (Hc & _) H. unfold other_str in H. apply ctor_ptr_inv in H; [exact H|exact Hc]. Qed.

Lemma c08_substr_inv v pos count sub : C08.Model.substr_m v pos count = Ok sub ->
  pos <= vlen v /\ sub = mkview (vbuf v) (voff v + pos) (min_sz count (sz (vlen v - pos))).
Proof.
  unfold C08.Model.substr_m. destruct (pos <=? vlen v) eqn:E; intros H; inversion H. split; [lia|reflexivity].
Qed.

Lemma strlen_szt a : cstr_arg_ok a -> exists l, s_cstr a = Some l /\ strlen_m (arr_view a) = Ok (zlen l) /\ szt (zlen l).
Proof.
  intros Ha. pose proof Ha as (Hn & Hb). destruct (s_cstr a) as [l|] eqn:E; [|contradiction].
  destruct (strlen_ok a l Ha E) as (E1 & _ & Hr). exists l. split; [reflexivity|]. split; [exact E1|]. unfold szt. lia.
Qed.

Lemma append_cstr_keeps s a s' : inv s -> cstr_arg_ok a -> append_cstr_m s a = Ok s' -> keeps s s'.
Proof.
  intros I Ha H. destruct (strlen_szt a Ha) as (l & _ & E & Hl). unfold append_cstr_m in H. rewrite E in H. cbn [rbind] in H.
  eapply append_ptr_keeps; eassumption.
Qed.

Lemma append_str_keeps s src s' : inv s -> append_str_m s src = Ok s' -> keeps s s'.
Proof.
  intros I H. unfold append_str_m in H. destruct (other_str s src) as [o| | |]; cbn [rbind] in H; try discriminate.
  eapply append_range_keeps; eassumption.
Qed.

Lemma append_str_sub_keeps s src pos count s' : inv s -> append_str_sub_m s src pos count = Ok s' -> keeps s s'.
Proof.
  intros I H. unfold append_str_sub_m in H. destruct (other_str s src) as [o| | |]; cbn [rbind] in H; try discriminate.
  destruct (substr_m o pos count) as [sub| | |]; cbn [rbind] in H; try discriminate.
  eapply append_range_keeps; eassumption.
Qed.

Lemma append_view_sub_keeps s src pos count s' : inv s -> szt count ->
  append_view_sub_m s src pos count = Ok s' -> keeps s s'.
Proof.
  intros I Hc H. unfold append_view_sub_m in H.
  destruct (C08.Model.substr_m (arr_view src) pos count) as [sub| | |] eqn:E; cbn [rbind] in H; try discriminate.
  apply c08_substr_inv in E as (_ & ->). cbn [vlen] in H.
  apply append_ptr_keeps in H; [tauto|exact I|]. apply min_sz_szt; [exact Hc|apply sz_szt].
Qed.

Lemma assign_cstr_keeps s a s' : inv s -> assign_cstr_m s a = Ok s' -> keeps s s'.
Proof.
  intros I H. pose proof I as (Hc & _). unfold assign_cstr_m in H.
  destruct (strlen_m (arr_view a)) as [len| | |]; cbn [rbind] in H; try discriminate.
  apply ctor_ptr_inv in H; [|exact Hc]. unfold keeps. tauto.
Qed.

Lemma assign_str_sub_keeps s src pos count s' : inv s -> assign_str_sub_m s src pos count = Ok s' -> keeps s s'.
Proof.
  intros I H. unfold assign_str_sub_m in H. destruct (other_str s src) as [o| | |] eqn:E; cbn [rbind] in H; try discriminate.
  destruct (other_str_inv s src o I E) as (Io & Co & Ko).
  destruct (substr_keeps o pos count s' Io H) as (I' & C' & K'). unfold keeps. split; [exact I'|]. split; congruence.
Qed.

Lemma assign_view_sub_keeps s src pos count s' : inv s -> assign_view_sub_m s src pos count = Ok s' -> keeps s s'.
Proof.
  intros I H. pose proof I as (Hc & _). unfold assign_view_sub_m in H.
  destruct (C08.Model.substr_m (arr_view src) pos count) as [sub| | |]; cbn [rbind] in H; try discriminate.
  unfold ctor_range_m in H. destruct (inv_default (cap s) (ckind s) Hc) as (I0 & _).
  apply (append_range_cat_keeps _ _ _ _ I0) in H. destruct H as (I' & C' & K'). unfold keeps.
  assert (D : cap (default_str (cap s) (ckind s)) = cap s /\ ckind (default_str (cap s) (ckind s)) = ckind s)
    by (unfold default_str; destruct (cap s <? 16); split; reflexivity).
  destruct D as (D1 & D2). split; [exact I'|split; congruence].
Qed.

Lemma insert_cstr_keeps s index a s' : inv s -> szt index -> cstr_arg_ok a -> insert_cstr_m s index a = Ok s' -> keeps s s'.
Proof.
  intros I Hi Ha H. destruct (strlen_szt a Ha) as (l & _ & E & Hl). unfold insert_cstr_m in H.
  destruct (index >? get_size s); [discriminate|]. rewrite E in H. cbn [rbind] in H.
  exact (insert_impl_keeps _ _ _ _ _ I Hi Hl H).
Qed.

Lemma insert_str_sub_keeps s index src indexStr count s' : inv s -> szt index -> szt count ->
  insert_str_sub_m s index src indexStr count = Ok s' -> keeps s s'.
Proof.
  intros I Hi Hc H. unfold insert_str_sub_m in H. destruct (index >? get_size s); [discriminate|].
  destruct (C08.Model.substr_m (arr_view src) indexStr count) as [sub| | |] eqn:E; cbn [rbind] in H; try discriminate.
  apply c08_substr_inv in E as (_ & ->). cbn [vlen] in H.
  eapply insert_impl_keeps; [exact I|exact Hi| |exact H]. apply min_sz_szt; [exact Hc|apply sz_szt].
Qed.

(** * free erase / erase_if: remove_if on the character range, then erase(it, end()) *)
Lemma znth_app_tail (p t : list Z) i : zlen p <= i -> znth (p ++ t) i = znth t (i - zlen p).
Proof. unfold znth, zlen. intros H. rewrite app_nth2 by lia. f_equal. lia. Qed.

(* replacing the characters [0, size) by an equally long list keeps size, terminator and invariant *)
Lemma inv_replace_contents s l' : inv s -> length l' = length (contents s) ->
  let b := l' ++ skipn (Z.to_nat (get_size s)) (buf s) in
  keeps s (with_buf s b) /\ get_size (with_buf s b) = get_size s /\ contents (with_buf s b) = l'.
Proof.
  intros I Hlen b. pose proof I as (Hc & Hl & Hs & Ht).
  assert (Hcl : zlen (contents s) = get_size s).
  { unfold contents, zlen in *. rewrite firstn_length. lia. }
  assert (Hl' : zlen l' = get_size s) by (unfold zlen in *; lia).
  assert (Hbuf : buf s = contents s ++ skipn (Z.to_nat (get_size s)) (buf s)).
  { unfold contents. symmetry. apply firstn_skipn. }
  assert (Htail : forall j, get_size s <= j -> znth b j = znth (buf s) j).
  { intros j Hj. unfold b. rewrite Hbuf at 2. rewrite !znth_app_tail by lia. rewrite Hl', Hcl. reflexivity. }
  destruct (inv_with_buf s b I) as (K & G).
  - unfold b. unfold zlen in *. rewrite app_length, skipn_length. lia.
  - apply Htail. lia.
  - rewrite Htail by lia. exact Ht.
  - split; [exact K|]. split; [exact G|]. unfold contents. rewrite G. cbn [with_buf buf]. unfold b.
    rewrite firstn_app. replace (Z.to_nat (get_size s) - length l')%nat with O by (unfold zlen in *; lia).
    cbn [firstn]. rewrite app_nil_r. apply firstn_all2. unfold zlen in *. lia.
Qed.

Lemma filter_len_le (f : Z -> bool) (l : list Z) : (length (filter f l) <= length l)%nat.
Proof. induction l as [|x l IH]; cbn [filter length]; [lia|]. destruct (f x); cbn [length]; lia. Qed.

Lemma free_erase_if_keeps p s s' n : inv s -> free_erase_if_m p s = Ok (s', n) -> keeps s s'.
Proof.
  intros I H. unfold free_erase_if_m in H.
  destruct (C06a.P1_RemoveIf.remove_if_correct p (contents s)) as (l' & E & _ & Hlen).
  rewrite E in H. cbn [rbind fst snd] in H.
  destruct (inv_replace_contents s l' I Hlen) as (K & G & _).
  destruct (erase_range_m _ _ _) as [s1| | |] eqn:E1; cbn [rbind] in H; try discriminate.
  inversion H; subst s1 n; clear H.
  eapply keeps_trans; [exact K|].
  pose proof (filter_len_le (fun x => negb (p x)) (contents s)) as Hf.
  pose proof I as (Hc & Hl & Hs & _). unfold cap_ok in Hc.
  assert (Hcl : length (contents s) = Z.to_nat (get_size s)).
  { unfold contents, zlen in *. rewrite firstn_length. lia. }
  eapply erase_range_keeps; [apply K| | |exact E1]; unfold szt.
  - unfold C06a.Spec.remove_if_spec. lia.
  - apply sz_szt.
Qed.

(* replace — the recorded in-place overwrite — keeps the invariant: a run of at most
   min(count, size() - pos) characters written at pos stays below size() *)
Lemma rep_n_bound s pos count avail : inv s -> 0 <= pos <= get_size s -> rep_n s pos count avail <= get_size s - pos.
Proof.
  intros (Hc & _ & Hs & _) Hp. unfold cap_ok in Hc. unfold rep_n, min_sz. rewrite sz_id by lia.
  destruct (get_size s - pos <? count) eqn:E1; destruct (avail <? _) eqn:E2; lia.
Qed.

Lemma overwrite_keeps s pos x b : inv s -> 0 <= pos -> pos + zlen x <= get_size s ->
  write_range (buf s) pos x = Ok b -> keeps s (with_buf s b).
Proof.
  intros I Hp Hend E. pose proof I as (Hc & Hl & Hs & Ht).
  destruct (inv_with_buf s b I (write_range_len _ _ _ _ E)) as (K & _).
  - apply (write_range_other _ _ _ _ _ E); lia.
  - rewrite (write_range_other _ _ _ _ _ E) by lia. exact Ht.
  - exact K.
Qed.

Lemma zlen_firstn_le (l : list Z) n : zlen (firstn (Z.to_nat n) l) <= Z.max 0 n.
Proof. unfold zlen. rewrite firstn_length. lia. Qed.

Lemma replace_keeps s pos count src s' : inv s -> 0 <= pos -> replace_m s pos count src = Ok s' -> keeps s s'.
Proof.
  intros I Hp H. pose proof I as (_ & _ & Hs & _). unfold replace_m in H.
  destruct (pos <=? get_size s) eqn:E1; [|discriminate].
  destruct (write_range _ _ _) as [b| | |] eqn:E3; cbn [rbind] in H; try discriminate.
  inversion H; subst s'; clear H. eapply overwrite_keeps; [exact I|exact Hp| |exact E3].
  pose proof (rep_n_bound s pos count (zlen src) I ltac:(lia)). pose proof (zlen_firstn_le src (rep_n s pos count (zlen src))). lia.
Qed.

Lemma replace_ptr_keeps s pos count src count2 s' : inv s -> 0 <= pos ->
  replace_ptr_m s pos count src count2 = Ok s' -> keeps s s'.
Proof.
  intros I Hp H. pose proof I as (_ & _ & Hs & _). unfold replace_ptr_m in H.
  destruct (pos <=? get_size s) eqn:E1; [|discriminate].
  destruct (take_chk _ _) as [l| | |] eqn:E2; cbn [rbind] in H; try discriminate.
  apply take_chk_inv in E2 as (_ & ->).
  destruct (write_range _ _ _) as [b| | |] eqn:E3; cbn [rbind] in H; try discriminate.
  inversion H; subst s'; clear H. eapply overwrite_keeps; [exact I|exact Hp| |exact E3].
  pose proof (rep_n_bound s pos count count2 I ltac:(lia)). pose proof (zlen_firstn_le src (rep_n s pos count count2)). lia.
Qed.

Lemma replace_cstr_keeps s pos count a s' : inv s -> 0 <= pos ->
  replace_cstr_m s pos count a = Ok s' -> keeps s s'.
Proof.
  intros I Hp H. pose proof I as (_ & _ & Hs & _). unfold replace_cstr_m in H.
  destruct (pos <=? get_size s) eqn:E1; [|discriminate].
  destruct (strlen_m _) as [len| | |]; cbn [rbind] in H; try discriminate.
  destruct (take_chk _ _) as [l| | |] eqn:E2; cbn [rbind] in H; try discriminate.
  apply take_chk_inv in E2 as (_ & ->).
  destruct (write_range _ _ _) as [b| | |] eqn:E3; cbn [rbind] in H; try discriminate.
  inversion H; subst s'; clear H. eapply overwrite_keeps; [exact I|exact Hp| |exact E3].
  pose proof (rep_n_bound s pos count len I ltac:(lia)). pose proof (zlen_firstn_le a (rep_n s pos count len)). lia.
Qed.

Lemma replace5_keeps s pos count src pos2 count2 s' : inv s -> 0 <= pos ->
  replace5_m s pos count src pos2 count2 = Ok s' -> keeps s s'.
Proof.
  intros I Hp H. pose proof I as (_ & _ & Hs & _). unfold replace5_m in H.
  destruct (pos <=? get_size s) eqn:E1; [|discriminate].
  destruct (pos2 <=? zlen src); [|discriminate].
  destruct (write_range _ _ _) as [b| | |] eqn:E3; cbn [rbind] in H; try discriminate.
  inversion H; subst s'; clear H. eapply overwrite_keeps; [exact I|exact Hp| |exact E3].
  set (n := rep_n s pos count _).
  pose proof (rep_n_bound s pos count (min_sz count2 (sz (zlen src - pos2))) I ltac:(lia)). fold n in H.
  pose proof (zlen_firstn_le (skipn (Z.to_nat pos2) src) n). lia.
Qed.

Lemma replace_it_keeps s first last src s' : inv s -> replace_it_m s first last src = Ok s' -> keeps s s'.
Proof.
  intros I H. pose proof I as (Hc & _ & Hs & _). unfold cap_ok in Hc. unfold replace_it_m in H.
  pose proof (sz_nonneg first) as Hst. pose proof (sz_nonneg (last - first)) as Hd.
  set (start := sz first) in *. set (distance := sz (last - first)) in *.
  destruct (start <=? get_size s) eqn:E; [|discriminate].
  rewrite (sz_id (get_size s - start)) in H by lia.
  destruct (distance <=? get_size s - start) eqn:E1; [|discriminate].
  destruct (write_range _ _ _) as [b| | |] eqn:E3; cbn [rbind] in H; try discriminate.
  inversion H; subst s'; clear H. eapply overwrite_keeps; [exact I| | |exact E3]; [lia|].
  set (n := if zlen src <? distance then zlen src else distance).
  pose proof (zlen_firstn_le src n). assert (n <= distance) by (unfold n; destruct (zlen src <? distance) eqn:E2; lia). lia.
Qed.

Lemma replace_it_fill_keeps s first last count2 ch s' : inv s -> 0 <= count2 ->
  replace_it_fill_m s first last count2 ch = Ok s' -> keeps s s'.
Proof.
  intros I Hc H. pose proof I as (Hcap & _ & Hs & _). unfold cap_ok in Hcap. unfold replace_it_fill_m in H.
  pose proof (sz_nonneg first) as Hst. pose proof (sz_nonneg (last - first)) as Hd.
  set (start := sz first) in *. set (distance := sz (last - first)) in *.
  destruct (start <=? get_size s) eqn:E; [|discriminate].
  rewrite (sz_id (get_size s - start)) in H by lia.
  destruct (distance <=? get_size s - start) eqn:E1; [|discriminate].
  destruct (write_range _ _ _) as [b| | |] eqn:E3; cbn [rbind] in H; try discriminate.
  inversion H; subst s'; clear H. eapply overwrite_keeps; [exact I| | |exact E3]; [lia|].
  unfold zlen. rewrite repeat_length. unfold min_sz. destruct (count2 <? distance) eqn:E2; lia.
Qed.

(** * every step, every history *)
Definition op_wf (o : op) : Prop :=
  match o with
  | OClear | OPopBack | OPushBack _ | OAppendRange _ | OSwapWith _ => True
  | OAppendFill count _ => szt count
  | OAppendPtr _ count => szt count
  | OInsertPtr index _ count => szt index /\ szt count
  | OInsertFill index count _ => szt index /\ szt count
  | OErase index count => szt index /\ szt count
  | OEraseRange start distance => szt start /\ szt distance
  | OResize count _ => szt count
  | OAssignPtr _ count => szt count
  | OAssignFill count _ => szt count
  | OSubstr pos count => szt pos /\ szt count
  | OAppendCstr a | OAssignCstr a => cstr_arg_ok a
  | OAppendStr _ => True
  | OAppendStrSub _ pos count | OAppendViewSub _ pos count
  | OAssignStrSub _ pos count | OAssignViewSub _ pos count => szt pos /\ szt count
  | OInsertCstr index a => szt index /\ cstr_arg_ok a
  | OInsertStrSub index _ indexStr count => szt index /\ szt indexStr /\ szt count
  | OErasePos pos => szt pos
  | OFreeErase _ | OFreeEraseIf _ | OAppendRangeIn _ => True
  end.

Lemma step_keeps s o s' : inv s -> op_wf o -> step s o = Ok s' -> keeps s s'.
Proof.
  intros I W H. pose proof I as (Hc & _). destruct o; cbn [step op_wf] in *.
  - eapply clear_keeps; eassumption.
  - eapply push_back_keeps; eassumption.
  - eapply pop_back_keeps; eassumption.
  - eapply append_fill_keeps; eassumption.
  - eapply append_ptr_keeps; eassumption.
  - eapply append_range_keeps; eassumption.
  - destruct W as (W1 & W2). exact (insert_impl_keeps _ _ _ _ _ I W1 W2 H).
  - destruct W as (W1 & W2). unfold insert_fill_m in H. destruct (index >? get_size s); [discriminate|].
    exact (insert_fill_loop_keeps _ _ _ _ _ I W1 H).
  - destruct W as (W1 & W2). exact (erase_keeps _ _ _ _ I W1 W2 H).
  - destruct W as (W1 & W2). exact (erase_range_keeps _ _ _ _ I W1 W2 H).
  - eapply resize_keeps; eassumption.
  - apply ctor_ptr_inv in H; [|exact Hc]. unfold keeps. tauto.
  - apply ctor_fill_inv in H; [|exact Hc|exact W]. unfold keeps. tauto.
  - eapply substr_keeps; eassumption.
  - destruct (ctor_ptr (cap s) (ckind s) src (zlen src)) as [o| | |] eqn:E; cbn [rbind] in H; try discriminate.
    apply ctor_ptr_inv in E as (Io & Co & _); [|exact Hc].
    destruct (swap_m s o) as [[a' b']| | |] eqn:E2; cbn [rbind fst] in H; try discriminate.
    inversion H; subst. eapply swap_keeps; eassumption.
  - eapply append_cstr_keeps; eassumption.
  - eapply append_str_keeps; eassumption.
  - eapply append_str_sub_keeps; eassumption.
  - destruct W as (W1 & W2). eapply append_view_sub_keeps; eassumption.
  - eapply assign_cstr_keeps; eassumption.
  - eapply assign_str_sub_keeps; eassumption.
  - eapply assign_view_sub_keeps; eassumption.
  - destruct W as (W1 & W2). exact (insert_cstr_keeps _ _ _ _ I W1 W2 H).
  - destruct W as (W1 & W2 & W3). exact (insert_str_sub_keeps _ _ _ _ _ _ I W1 W3 H).
  - unfold erase_pos_m in H. eapply erase_range_keeps; [exact I|exact W| |exact H]. unfold szt. lia.
  - destruct (free_erase_if_m _ s) as [[s1 n]| | |] eqn:E; cbn [rbind fst] in H; try discriminate.
    inversion H; subst. eapply free_erase_if_keeps; eassumption.
  - destruct (free_erase_if_m _ s) as [[s1 n]| | |] eqn:E; cbn [rbind fst] in H; try discriminate.
    inversion H; subst. eapply free_erase_if_keeps; eassumption.
  - eapply append_range_cat_keeps; eassumption.
Qed.

Theorem run_keeps : forall ops s s', inv s -> Forall op_wf ops -> run s ops = Ok s' -> keeps s s'.
Proof.
  induction ops as [|o ops IH]; intros s s' I W H; cbn [run] in H.
  - inversion H; subst. apply keeps_refl. exact I.
  - inversion W as [|? ? Wo Wr]; subst.
    destruct (step s o) as [s1| | |] eqn:E; cbn [rbind] in H; try discriminate.
    pose proof (step_keeps _ _ _ I Wo E) as K1.
    eapply keeps_trans; [exact K1|]. apply IH; [apply K1|exact Wr|exact H].
Qed.

(* the invariant after EVERY history from the empty string, for every capacity and character type *)
Theorem invariant_all_histories c ck ops s' : cap_ok c -> Forall op_wf ops ->
  run (default_str c ck) ops = Ok s' ->
  cap s' = c /\ zlen (buf s') = c + 1 /\ 0 <= get_size s' <= c /\ terminator s' = 0.
Proof.
  intros Hc W H. destruct (inv_default c ck Hc) as (I0 & _).
  destruct (run_keeps _ _ _ I0 W H) as ((_ & Hl & Hs & Ht) & C & _).
  assert (cap (default_str c ck) = c) as C0 by (unfold default_str; destruct (c <? 16); reflexivity).
  rewrite C, C0 in *. unfold terminator. tauto.
Qed.
