(* C04 refinement, part 1: the operations without rotate.  For each: whenever std::string defines the
   result and it fits into the capacity, the model returns (no contract failure, no out-of-bounds
   access), keeps the invariant and its contents are exactly the std result. *)
From Tetl Require Import Lib.Base Lib.Arr C08.Model C04.Model C04.Spec C04.Inv C04.InvOps C04.RefineBase.
From Coq Require Import ZifyBool.
Local Open Scope Z_scope.
Ltac Zify.zify_post_hook ::= Z.to_euclidean_division_equations.

Definition refines (s : istr) (r : res istr) (l' : list Z) : Prop :=
  exists s', r = Ok s' /\ keeps s s' /\ contents s' = l'.

Lemma znth_app_r (p t : list Z) i : zlen p <= i -> znth (p ++ t) i = znth t (i - zlen p).
Proof.
  unfold znth, zlen. intros H. rewrite app_nth2 by lia. f_equal. lia.
Qed.

(** * clear *)
Lemma clear_ref s : inv s -> refines s (clear_m s) [].
Proof.
  intros I. pose proof I as (Hc & Hl & Hs & _). unfold cap_ok in Hc. unfold clear_m.
  rewrite wr_ok by lia. cbn [rbind].
  destruct (finish_ok s (firstn (Z.to_nat 0) (buf s) ++ 0 :: skipn (S (Z.to_nat 0)) (buf s)) 0 I) as (s' & E & K & _ & C).
  - rewrite zlen_upd; lia.
  - lia.
  - exists s'. split; [exact E|]. split; [exact K|]. rewrite C. reflexivity.
Qed.

(** * appending a block of characters that fits *)
Lemma append_block s x : inv s -> get_size s + zlen x <= cap s ->
  exists b, write_range (buf s) (get_size s) x = Ok b /\ zlen b = cap s + 1 /\
            firstn (Z.to_nat (get_size s + zlen x)) b = contents s ++ x.
Proof.
  intros I Hfit. pose proof I as (_ & Hl & Hs & _).
  destruct (buf_split3 s (zlen x) I (zlen_nonneg x) ltac:(lia)) as (m & t & E & Hm).
  exists (contents s ++ x ++ t). rewrite E at 1. rewrite <- (contents_len s I).
  rewrite write_range_app by (unfold zlen in Hm; lia). split; [reflexivity|]. split.
  - rewrite <- Hl, E. rewrite !zlen_app. lia.
  - rewrite app_assoc. apply firstn_n_app. rewrite app_length. unfold zlen. lia.
Qed.

Lemma append_fill_ref s count ch : inv s -> 0 <= count -> get_size s + count <= cap s ->
  refines s (append_fill_m s count ch) (contents s ++ rep count ch).
Proof.
  intros I Hcnt Hfit. pose proof I as (Hc & Hl & Hs & _). unfold cap_ok in Hc. unfold append_fill_m.
  rewrite (sz_id (cap s - get_size s)) by lia. rewrite min_sz_min, Z.min_l by lia.
  rewrite (sz_id (get_size s + count)) by lia.
  destruct (append_block s (repeat ch (Z.to_nat count)) I) as (b & E & Hb & F).
  { rewrite zlen_repeat. lia. }
  rewrite E. cbn [rbind]. rewrite zlen_repeat, Z2Nat.id in F by lia.
  destruct (finish_ok s b (get_size s + count) I Hb ltac:(lia)) as (s' & E' & K & _ & C).
  exists s'. split; [exact E'|]. split; [exact K|]. rewrite C. exact F.
Qed.

Lemma append_ptr_ref s src count : inv s -> 0 <= count <= zlen src -> get_size s + count <= cap s ->
  refines s (append_ptr_m s src count) (contents s ++ take count src).
Proof.
  intros I Hcnt Hfit. pose proof I as (Hc & Hl & Hs & _). unfold cap_ok in Hc. unfold append_ptr_m.
  rewrite (sz_id (cap s - get_size s)) by lia. rewrite min_sz_min, Z.min_l by lia.
  rewrite (sz_id (get_size s + count)) by lia.
  rewrite take_chk_ok by lia. cbn [rbind].
  destruct (append_block s (firstn (Z.to_nat count) src) I) as (b & E & Hb & F).
  { rewrite zlen_firstn; lia. }
  rewrite E. cbn [rbind]. rewrite zlen_firstn in F by lia.
  destruct (finish_ok s b (get_size s + count) I Hb ltac:(lia)) as (s' & E' & K & _ & C).
  exists s'. split; [exact E'|]. split; [exact K|]. rewrite C. exact F.
Qed.

(** * push_back, pop_back, append(first, last) *)
Lemma push_back_ref s ch : inv s -> get_size s + 1 <= cap s ->
  refines s (push_back_m s ch) (contents s ++ [ch]).
Proof.
  intros I Hfit. unfold push_back_m. replace (get_size s <? cap s) with true by lia.
  exact (append_fill_ref s 1 ch I ltac:(lia) Hfit).
Qed.

Lemma pop_back_ref s : inv s -> contents s <> [] -> refines s (pop_back_m s) (removelast (contents s)).
Proof.
  intros I Hne. pose proof I as (Hc & Hl & Hs & _). unfold cap_ok in Hc.
  assert (Hpos : 0 < get_size s).
  { pose proof (contents_len s I) as L. destruct (contents s); [contradiction|].
    unfold zlen in L. cbn [length] in L. lia. }
  unfold pop_back_m. replace (negb (get_size s =? 0)) with true by lia.
  rewrite (sz_id (get_size s - 1)) by lia.
  replace s with (with_buf s (buf s)) at 1 by (destruct s; reflexivity).
  destruct (finish_ok s (buf s) (get_size s - 1) I Hl ltac:(lia)) as (s' & E & K & _ & C).
  exists s'. split; [exact E|]. split; [exact K|]. rewrite C. unfold contents.
  replace (Z.to_nat (get_size s)) with (S (Z.to_nat (get_size s - 1))) by lia.
  symmetry. apply removelast_firstn. unfold zlen in Hl. lia.
Qed.

Lemma refines_trans s s1 r l1 l' : keeps s s1 -> contents s1 = l1 -> refines s1 r l' -> refines s r l'.
Proof.
  intros K1 _ (s' & E & K & C). exists s'. split; [exact E|]. split; [|exact C].
  eapply keeps_trans; eassumption.
Qed.

Lemma push_back_loop_ref : forall l s, inv s -> get_size s + zlen l <= cap s ->
  refines s (push_back_loop_m s l) (contents s ++ l).
Proof.
  induction l as [|x l IH]; intros s I Hfit; cbn [push_back_loop_m].
  - exists s. split; [reflexivity|]. split; [apply keeps_refl; exact I|]. symmetry. apply app_nil_r.
  - assert (Hl : zlen (x :: l) = zlen l + 1) by (unfold zlen; cbn [length]; lia).
    pose proof (zlen_nonneg l) as Hnn.
    destruct (push_back_ref s x I ltac:(lia)) as (s1 & E1 & K1 & C1).
    rewrite E1. cbn [rbind].
    assert (G1 : get_size s1 = get_size s + 1).
    { rewrite <- (contents_len s1 (keeps_inv _ _ K1)), C1, zlen_app, (contents_len s I). reflexivity. }
    destruct (IH s1 (keeps_inv _ _ K1)) as (s' & E & K & C).
    { rewrite G1, (keeps_cap _ _ K1). lia. }
    exists s'. split; [exact E|]. split; [eapply keeps_trans; eassumption|].
    rewrite C, C1, <- app_assoc. reflexivity.
Qed.

(* both iterator categories: the up-front check of the random access path passes whenever the range fits *)
Lemma append_range_cat_ref ra l s : inv s -> get_size s + zlen l <= cap s ->
  refines s (append_range_cat_m ra s l) (contents s ++ l).
Proof.
  intros I Hfit. pose proof I as (Hc & _ & Hs & _). unfold cap_ok in Hc. unfold append_range_cat_m. destruct ra.
  - rewrite (sz_id (cap s - get_size s)) by lia. replace (zlen l <=? cap s - get_size s) with true by lia.
    apply push_back_loop_ref; assumption.
  - apply push_back_loop_ref; assumption.
Qed.

Lemma append_range_ref l s : inv s -> get_size s + zlen l <= cap s ->
  refines s (append_range_m s l) (contents s ++ l).
Proof. apply append_range_cat_ref. Qed.

(** * resize *)
Lemma resize_ref s count ch : inv s -> 0 <= count <= cap s ->
  refines s (resize_m s count ch) (s_resize (contents s) count ch).
Proof.
  intros I Hcnt. pose proof I as (Hc & Hl & Hs & _). unfold cap_ok in Hc.
  unfold resize_m, s_resize. rewrite slen_zlen, (contents_len s I).
  destruct (get_size s >? count) eqn:E.
  - (* shrink *)
    assert (Es : unsafe_set_size s count = unsafe_set_size (with_buf s (buf s)) count) by (destruct s; reflexivity).
    rewrite Es.
    destruct (finish_ok s (buf s) count I Hl ltac:(lia)) as (s1 & E1 & K1 & G1 & C1).
    rewrite E1. cbn [rbind]. rewrite G1. replace (count <? count) with false by lia.
    replace (count <=? get_size s) with true by lia.
    exists s1. split; [reflexivity|]. split; [exact K1|]. rewrite C1. unfold contents, take.
    rewrite firstn_firstn. f_equal. lia.
  - cbn [rbind]. destruct (get_size s <? count) eqn:E2.
    + (* grow *)
      replace (count <=? get_size s) with false by lia.
      rewrite (sz_id (count - get_size s)) by lia.
      apply append_fill_ref; [exact I|lia|lia].
    + replace (count <=? get_size s) with true by lia.
      exists s. split; [reflexivity|]. split; [apply keeps_refl; exact I|].
      unfold contents, take. rewrite firstn_firstn. f_equal. lia.
Qed.

(** * constructors = assign *)
Lemma default_cap c ck : cap (default_str c ck) = c /\ ckind (default_str c ck) = ck.
Proof. unfold default_str. destruct (c <? 16); split; reflexivity. Qed.

Lemma ctor_ptr_ref c ck src len : cap_ok c -> 0 <= len <= zlen src -> len <= c ->
  exists s', ctor_ptr c ck src len = Ok s' /\ inv s' /\ cap s' = c /\ ckind s' = ck /\ contents s' = take len src.
Proof.
  intros Hc Hlen Hfit. destruct (inv_default c ck Hc) as (I0 & _).
  destruct (default_cap c ck) as (C0 & K0).
  unfold ctor_ptr. replace (len <=? c) with true by lia.
  set (d := default_str c ck) in *.
  assert (Es : unsafe_set_size d len = unsafe_set_size (with_buf d (buf d)) len) by (destruct d; reflexivity).
  rewrite Es.
  pose proof I0 as (_ & Hl0 & _).
  destruct (finish_ok d (buf d) len I0 Hl0 ltac:(lia)) as (s1 & E1 & K1 & G1 & _).
  rewrite E1. cbn [rbind]. rewrite take_chk_ok by lia. cbn [rbind].
  pose proof (keeps_inv _ _ K1) as I1. pose proof I1 as (Hc1 & Hl1 & Hs1 & Ht1).
  pose proof (keeps_cap _ _ K1) as C1. rewrite C0 in C1.
  destruct (split_block (buf s1) len ltac:(lia)) as (m & t & Eb & Hm).
  set (l := firstn (Z.to_nat len) src).
  assert (Hll : zlen l = len) by (apply zlen_firstn; lia).
  rewrite Eb. change (m ++ t) with ([] ++ m ++ t). change 0 with (zlen []).
  rewrite write_range_app by (unfold zlen in *; lia). cbn [rbind app].
  destruct (inv_with_buf s1 (l ++ t) I1) as (K2 & G2).
  - rewrite Eb, !zlen_app. lia.
  - rewrite Eb. rewrite !znth_app_r by lia. f_equal. lia.
  - rewrite G1. rewrite znth_app_r by lia. rewrite <- Ht1, G1, Eb. rewrite znth_app_r by lia. f_equal. lia.
  - eexists. split; [reflexivity|]. split; [apply K2|]. split; [rewrite (keeps_cap _ _ K2); exact C1|].
    split; [rewrite (keeps_ckind _ _ K2), (keeps_ckind _ _ K1); exact K0|].
    unfold contents. rewrite G2, G1. cbn [with_buf buf]. change (take len src) with l. apply firstn_n_app. unfold zlen in Hll. lia.
Qed.

(* the range constructor: value-initialised storage + append(first, last) *)
Lemma contents_default c ck : cap_ok c -> contents (default_str c ck) = [].
Proof.
  intros Hc. destruct (inv_default c ck Hc) as (I0 & G0). pose proof (contents_len _ I0) as L. rewrite G0 in L.
  destruct (contents (default_str c ck)); [reflexivity|]. unfold zlen in L. cbn [length] in L. lia.
Qed.

Lemma ctor_range_ref ra c ck l : cap_ok c -> zlen l <= c ->
  exists s', ctor_range_m ra c ck l = Ok s' /\ inv s' /\ cap s' = c /\ ckind s' = ck /\ contents s' = l.
Proof.
  intros Hc Hfit. destruct (inv_default c ck Hc) as (I0 & G0). destruct (default_cap c ck) as (C0 & K0).
  destruct (append_range_cat_ref ra l (default_str c ck) I0) as (s' & E & (I' & C' & K') & Cn).
  { rewrite G0, C0. lia. }
  exists s'. unfold ctor_range_m. rewrite contents_default in Cn by exact Hc. cbn [app] in Cn.
  split; [exact E|]. split; [exact I'|]. split; [congruence|]. split; [congruence|exact Cn].
Qed.

Lemma ctor_range_contract c ck l : cap_ok c -> c < zlen l -> ctor_range_m true c ck l = Contract.
Proof.
  intros Hc Hbig. destruct (inv_default c ck Hc) as (I0 & G0). destruct (default_cap c ck) as (C0 & K0).
  unfold cap_ok in Hc. unfold ctor_range_m, append_range_cat_m. rewrite G0, C0. rewrite sz_id by lia.
  replace (zlen l <=? c - 0) with false by lia. reflexivity.
Qed.

Lemma ctor_fill_ref c ck count ch : cap_ok c -> 0 <= count <= c ->
  exists s', ctor_fill c ck count ch = Ok s' /\ inv s' /\ cap s' = c /\ ckind s' = ck /\ contents s' = rep count ch.
Proof.
  intros Hc Hcnt. destruct (inv_default c ck Hc) as (I0 & G0).
  destruct (default_cap c ck) as (C0 & K0).
  unfold ctor_fill. replace (count <=? c) with true by lia.
  set (d := default_str c ck) in *.
  destruct (append_block d (repeat ch (Z.to_nat count)) I0) as (b & E & Hb & F).
  { rewrite zlen_repeat, G0, C0. lia. }
  rewrite G0 in E. rewrite E. cbn [rbind].
  rewrite C0 in Hb. rewrite zlen_repeat, G0, Z2Nat.id in F by lia.
  destruct (finish_ok d b count I0 ltac:(lia) ltac:(lia)) as (s' & E' & K & _ & C).
  exists s'. split; [exact E'|]. split; [apply K|]. split; [rewrite (keeps_cap _ _ K); exact C0|].
  split; [rewrite (keeps_ckind _ _ K); exact K0|].
  rewrite C. replace (0 + count) with count in F by lia. rewrite F.
  assert (contents d = []) as ->.
  { pose proof (contents_len d I0) as L. rewrite G0 in L. destruct (contents d); [reflexivity|].
    unfold zlen in L. cbn [length] in L. lia. }
  reflexivity.
Qed.

(** * s = s.substr(pos, count) *)
Lemma substr_ref s pos count : inv s -> 0 <= pos <= get_size s -> 0 <= count ->
  refines s (substr_m s pos count) (take (Z.min count (get_size s - pos)) (drop pos (contents s))).
Proof.
  intros I Hpos Hcnt. pose proof I as (Hc & Hl & Hs & _). pose proof Hc as Hc'. unfold cap_ok in Hc'.
  unfold substr_m. replace (pos >? get_size s) with false by lia.
  rewrite (sz_id (get_size s - pos)) by lia. rewrite min_sz_min.
  destruct (ctor_ptr_ref (cap s) (ckind s) (skipn (Z.to_nat pos) (contents s)) (Z.min count (get_size s - pos)) Hc)
    as (s' & E & I' & C' & K' & Cn).
  - rewrite zlen_skipn by (rewrite contents_len; [lia|exact I]). rewrite (contents_len s I). lia.
  - lia.
  - exists s'. split; [exact E|]. split; [unfold keeps; tauto|]. exact Cn.
Qed.

(** * swap *)
Lemma swap_ref a b : inv a -> inv b -> cap b = cap a ->
  exists a' b', swap_m a b = Ok (a', b') /\ keeps a a' /\ contents a' = contents b /\
                keeps b b' /\ contents b' = contents a.
Proof.
  intros Ia Ib Hcap. pose proof Ia as (Hc & Hla & Hsa & _). pose proof Ib as (_ & Hlb & Hsb & _).
  unfold swap_m.
  set (m := if get_size a <? get_size b then get_size b else get_size a).
  assert (Hm : 0 <= m <= cap a /\ get_size b <= m /\ get_size a <= m)
    by (unfold m; destruct (get_size a <? get_size b) eqn:E; lia).
  replace ((m + 1 <=? zlen (buf a)) && (m + 1 <=? zlen (buf b))) with true by lia.
  set (k := Z.to_nat (m + 1)).
  destruct (finish_ok a (firstn k (buf b) ++ skipn k (buf a)) (get_size b) Ia) as (a' & Ea & Ka & _ & Ca).
  { unfold zlen in *. rewrite app_length, firstn_length, skipn_length. lia. }
  { lia. }
  destruct (finish_ok b (firstn k (buf a) ++ skipn k (buf b)) (get_size a) Ib) as (b' & Eb & Kb & _ & Cb).
  { unfold zlen in *. rewrite app_length, firstn_length, skipn_length. lia. }
  { lia. }
  rewrite Ea. cbn [rbind]. rewrite Eb. cbn [rbind].
  exists a', b'. split; [reflexivity|]. split; [exact Ka|]. split; [|split; [exact Kb|]].
  - rewrite Ca. rewrite firstn_le_app by (rewrite firstn_length; unfold zlen in *; lia).
    rewrite firstn_firstn. unfold contents. f_equal. lia.
  - rewrite Cb. rewrite firstn_le_app by (rewrite firstn_length; unfold zlen in *; lia).
    rewrite firstn_firstn. unfold contents. f_equal. lia.
Qed.
