(* C04 specification: std::basic_string per [string.modifiers] / [string.capacity] / [string.ops]
   on plain lists of character values.  No capacity, no layout, no terminator: a std::string
   is the list of its characters.  [None] = the call has no defined result for std::string
   (out_of_range is thrown or a precondition of the standard is violated). *)
From Coq Require Import ZArith List Bool.
Import ListNotations.
Local Open Scope Z_scope.

Definition slen (l : list Z) : Z := Z.of_nat (length l).
Definition take (n : Z) (l : list Z) : list Z := firstn (Z.to_nat n) l.
Definition drop (n : Z) (l : list Z) : list Z := skipn (Z.to_nat n) l.
Definition rep (n : Z) (c : Z) : list Z := repeat c (Z.to_nat n).

(* insert(pos, x): requires pos <= size() *)
Definition s_insert (l : list Z) (pos : Z) (x : list Z) : option (list Z) :=
  if pos <=? slen l then Some (take pos l ++ x ++ drop pos l) else None.
(* erase(pos, n): requires pos <= size(); removes min(n, size() - pos) characters *)
Definition s_erase (l : list Z) (pos n : Z) : option (list Z) :=
  if pos <=? slen l then Some (take pos l ++ drop (pos + Z.min n (slen l - pos)) l) else None.
(* erase(first, last) with first = begin()+start, last = first+distance: a valid range of the string *)
Definition s_erase_range (l : list Z) (start distance : Z) : option (list Z) :=
  if start + distance <=? slen l then Some (take start l ++ drop (start + distance) l) else None.
(* resize(n, c) *)
Definition s_resize (l : list Z) (n c : Z) : list Z :=
  if n <=? slen l then take n l else l ++ rep (n - slen l) c.
(* substr(pos, n): requires pos <= size() *)
Definition s_substr (l : list Z) (pos n : Z) : option (list Z) :=
  if pos <=? slen l then Some (take (Z.min n (slen l - pos)) (drop pos l)) else None.
(* replace(pos, n, x): requires pos <= size(); replaces min(n, size() - pos) characters by x *)
Definition s_replace (l : list Z) (pos count : Z) (x : list Z) : option (list Z) :=
  if pos <=? slen l then Some (take pos l ++ x ++ drop (pos + Z.min count (slen l - pos)) l) else None.
(* first n characters of a character array of |src| characters: requires n <= |src| *)
Definition s_prefix (src : list Z) (n : Z) : option (list Z) :=
  if n <=? slen src then Some (take n src) else None.

(* the operations of a history, by the same names as the model's [op] (arguments are the same) *)
Inductive sop :=
| SClear
| SPushBack (ch : Z)
| SPopBack
| SAppendFill (count ch : Z)
| SAppendPtr (src : list Z) (count : Z)
| SAppendRange (src : list Z)
| SInsertPtr (index : Z) (src : list Z) (count : Z)
| SInsertFill (index count ch : Z)
| SErase (index count : Z)
| SEraseRange (start distance : Z)
| SResize (count ch : Z)
| SAssignPtr (src : list Z) (count : Z)
| SAssignFill (count ch : Z)
| SSubstr (pos count : Z)
| SSwapWith (src : list Z)
| SAppendCstr (a : list Z)
| SAppendStr (src : list Z)
| SAppendStrSub (src : list Z) (pos count : Z)
| SAppendViewSub (src : list Z) (pos count : Z)
| SAssignCstr (a : list Z)
| SAssignStrSub (src : list Z) (pos count : Z)
| SAssignViewSub (src : list Z) (pos count : Z)
| SInsertCstr (index : Z) (a : list Z)
| SInsertStrSub (index : Z) (src : list Z) (indexStr count : Z)
| SErasePos (pos : Z)
| SFreeErase (value : Z)
| SFreeEraseIf (p : Z -> bool).

(* the C string held by a null-terminated array: the characters before the first null character;
   [None] when the array holds no null character (the pointer is not a C string) *)
Fixpoint s_cstr (a : list Z) : option (list Z) :=
  match a with
  | [] => None
  | x :: r => if x =? 0 then Some [] else match s_cstr r with Some l => Some (x :: l) | None => None end
  end.

Definition omap {A B} (f : A -> B) (o : option A) : option B :=
  match o with Some a => Some (f a) | None => None end.
Definition obind2 {A B} (o : option A) (f : A -> option B) : option B :=
  match o with Some a => f a | None => None end.

Definition spec_step (l : list Z) (o : sop) : option (list Z) :=
  match o with
  | SClear => Some []
  | SPushBack ch => Some (l ++ [ch])
  | SPopBack => match l with [] => None | _ => Some (removelast l) end
  | SAppendFill count ch => Some (l ++ rep count ch)
  | SAppendPtr src count => omap (fun x => l ++ x) (s_prefix src count)
  | SAppendRange src => Some (l ++ src)
  | SInsertPtr index src count => obind2 (s_prefix src count) (s_insert l index)
  | SInsertFill index count ch => s_insert l index (rep count ch)
  | SErase index count => s_erase l index count
  | SEraseRange start distance => s_erase_range l start distance
  | SResize count ch => Some (s_resize l count ch)
  | SAssignPtr src count => s_prefix src count
  | SAssignFill count ch => Some (rep count ch)
  | SSubstr pos count => s_substr l pos count
  | SSwapWith src => Some src
  | SAppendCstr a => omap (fun x => l ++ x) (s_cstr a)
  | SAppendStr src => Some (l ++ src)
  | SAppendStrSub src pos count => omap (fun x => l ++ x) (s_substr src pos count)
  | SAppendViewSub src pos count => omap (fun x => l ++ x) (s_substr src pos count)
  | SAssignCstr a => s_cstr a
  | SAssignStrSub src pos count => s_substr src pos count
  | SAssignViewSub src pos count => s_substr src pos count
  | SInsertCstr index a => obind2 (s_cstr a) (s_insert l index)
  | SInsertStrSub index src indexStr count => obind2 (s_substr src indexStr count) (s_insert l index)
  | SErasePos pos => if pos <? slen l then s_erase_range l pos 1 else None
  | SFreeErase value => Some (filter (fun x => negb (x =? value)) l)        (* std::erase(c, value) *)
  | SFreeEraseIf p => Some (filter (fun x => negb (p x)) l)                  (* std::erase_if(c, pred) *)
  end.

(* std::erase / std::erase_if return the number of erased characters *)
Definition spec_returned_count (l : list Z) (o : sop) : option Z :=
  match o with
  | SFreeErase value => Some (slen l - slen (filter (fun x => negb (x =? value)) l))
  | SFreeEraseIf p => Some (slen l - slen (filter (fun x => negb (p x)) l))
  | _ => None
  end.

(* the iterator returned by erase(first, last) / erase(position), as an offset from begin():
   it points to the character that followed the erased ones *)
Definition spec_returned_pos (o : sop) : option Z :=
  match o with
  | SEraseRange start _ => Some start
  | SErasePos pos => Some pos
  | _ => None
  end.

Fixpoint spec_run (l : list Z) (ops : list sop) : option (list Z) :=
  match ops with
  | [] => Some l
  | o :: r => obind2 (spec_step l o) (fun l' => spec_run l' r)
  end.

(* the same step for a string type of bounded capacity c: defined only when the std result has at most c
   characters.  [pre_len] is a lower bound of the result length that is known before the result is built
   (it only keeps the executable spec from materialising a string of 2^64 characters); SpecFacts.v proves
   spec_step_fits c l o = Some l' <-> spec_step l o = Some l' /\ slen l' <= c. *)
Definition pre_len (l : list Z) (o : sop) : Z :=
  match o with
  | SAppendFill count _ => slen l + count
  | SInsertFill _ count _ => slen l + count
  | SResize count _ => count
  | SAssignFill count _ => count
  | _ => 0
  end.

Definition spec_step_fits (c : Z) (l : list Z) (o : sop) : option (list Z) :=
  if pre_len l o <=? c then
    match spec_step l o with
    | Some l' => if slen l' <=? c then Some l' else None
    | None => None
    end
  else None.

(* a history on a string type of capacity c: every intermediate result must fit *)
Fixpoint spec_run_fits (c : Z) (l : list Z) (ops : list sop) : option (list Z) :=
  match ops with
  | [] => Some l
  | o :: r => obind2 (spec_step_fits c l o) (fun l' => spec_run_fits c l' r)
  end.
