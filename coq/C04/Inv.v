(* C04: the representation invariant — size() <= capacity(), the character at index size() is
   the null character, the array has Capacity+1 characters — holds after EVERY operation that
   returns, for all capacities (both layouts), character types, arguments and histories. *)
From Tetl Require Import Lib.Base Lib.Arr C08.Model C04.Model.
Require Tetl.C06a.Model Tetl.C06a.RotateProof.
From Coq Require Import ZifyBool.
Local Open Scope Z_scope.
Ltac Zify.zify_post_hook ::= Z.to_euclidean_division_equations.

Definition cap_ok (c : Z) : Prop := 0 <= c < 4611686018427387904.

Definition inv (s : istr) : Prop :=
  cap_ok (cap s) /\ zlen (buf s) = cap s + 1 /\
  0 <= get_size s <= cap s /\ znth (buf s) (get_size s) = 0.

(** * the checked write *)
Lemma list_split_at (b : list Z) (n : nat) : (n < length b)%nat ->
  b = firstn n b ++ nth n b 0 :: skipn (S n) b.
Proof.
  revert b. induction n as [|n IH]; intros [|x b] H; cbn [length] in H; try lia.
  - reflexivity.
  - cbn [firstn nth skipn app]. f_equal. apply IH. lia.
Qed.

Lemma set_at (b : list Z) (n : nat) v : (n < length b)%nat ->
  set b n v = Some (firstn n b ++ v :: skipn (S n) b).
Proof.
  revert b. induction n as [|n IH]; intros [|x b] H; cbn [length] in H; try lia.
  - reflexivity.
  - cbn [set firstn skipn app]. rewrite IH by lia. reflexivity.
Qed.

Lemma wr_ok b i v : 0 <= i < zlen b ->
  wr b i v = Ok (firstn (Z.to_nat i) b ++ v :: skipn (S (Z.to_nat i)) b).
Proof.
  intros H. unfold wr, zlen in *. destruct ((0 <=? i) && (i <? Z.of_nat (length b))) eqn:E; [|lia].
  rewrite set_at by lia. reflexivity.
Qed.

Lemma wr_inv b i v b' : wr b i v = Ok b' ->
  0 <= i < zlen b /\ b' = firstn (Z.to_nat i) b ++ v :: skipn (S (Z.to_nat i)) b.
Proof.
  intros H. destruct (Z_lt_le_dec i 0) as [Hn|Hn].
  - unfold wr in H. destruct ((0 <=? i) && (i <? zlen b)) eqn:E; [lia|discriminate].
  - destruct (Z_lt_le_dec i (zlen b)) as [Hl|Hl].
    + rewrite wr_ok in H by lia. inversion H. split; [lia|reflexivity].
    + unfold wr in H. destruct ((0 <=? i) && (i <? zlen b)) eqn:E; [lia|discriminate].
Qed.

Lemma zlen_upd b i v : 0 <= i < zlen b ->
  zlen (firstn (Z.to_nat i) b ++ v :: skipn (S (Z.to_nat i)) b) = zlen b.
Proof.
  intros H. unfold zlen in *. rewrite app_length, firstn_length. cbn [length]. rewrite skipn_length. lia.
Qed.

Lemma znth_upd_same b i v : 0 <= i < zlen b ->
  znth (firstn (Z.to_nat i) b ++ v :: skipn (S (Z.to_nat i)) b) i = v.
Proof.
  intros H. unfold znth, zlen in *. rewrite app_nth2 by (rewrite firstn_length; lia).
  rewrite firstn_length. replace (Z.to_nat i - Nat.min (Z.to_nat i) (length b))%nat with O by lia. reflexivity.
Qed.

Lemma nth_firstn_lt (l : list Z) : forall n i d, (i < n)%nat -> nth i (firstn n l) d = nth i l d.
Proof.
  induction l as [|x l IH]; intros n i d H; [rewrite firstn_nil; reflexivity|].
  destruct n as [|n]; [lia|]. destruct i as [|i]; [reflexivity|]. cbn [firstn nth]. apply IH. lia.
Qed.

Lemma nth_skipn_add (l : list Z) : forall n i d, nth i (skipn n l) d = nth (n + i) l d.
Proof.
  induction l as [|x l IH]; intros n i d.
  - rewrite skipn_nil. destruct i, n; reflexivity.
  - destruct n as [|n]; [reflexivity|]. cbn [skipn Nat.add nth]. apply IH.
Qed.

Lemma znth_upd_other b i v j : 0 <= i < zlen b -> 0 <= j -> j <> i ->
  znth (firstn (Z.to_nat i) b ++ v :: skipn (S (Z.to_nat i)) b) j = znth b j.
Proof.
  intros H Hj Hne. unfold znth, zlen in *.
  destruct (Z_lt_le_dec j i) as [Hlt|Hge].
  - rewrite app_nth1 by (rewrite firstn_length; lia). apply nth_firstn_lt. lia.
  - rewrite app_nth2 by (rewrite firstn_length; lia). rewrite firstn_length.
    replace (Z.to_nat j - Nat.min (Z.to_nat i) (length b))%nat with (S (Z.to_nat j - S (Z.to_nat i))) by lia.
    cbn [nth]. rewrite nth_skipn_add. f_equal. lia.
Qed.

Lemma firstn_upd_ge b i v n : 0 <= i < zlen b -> (n <= Z.to_nat i)%nat ->
  firstn n (firstn (Z.to_nat i) b ++ v :: skipn (S (Z.to_nat i)) b) = firstn n b.
Proof.
  intros H Hn. unfold zlen in H. rewrite firstn_app, firstn_firstn, firstn_length.
  replace (n - Nat.min (Z.to_nat i) (length b))%nat with O by lia.
  cbn [firstn]. rewrite app_nil_r. f_equal. lia.
Qed.

(** * write_range: any run of checked writes keeps the length; a run inside the array is a splice *)
Lemma write_range_len : forall l b i b', write_range b i l = Ok b' -> zlen b' = zlen b.
Proof.
  induction l as [|x l IH]; intros b i b' H; cbn [write_range] in H.
  - inversion H. reflexivity.
  - destruct (wr b i x) as [b1| | |] eqn:E; cbn [rbind] in H; try discriminate.
    apply wr_inv in E as (Hi & ->). rewrite (IH _ _ _ H). apply zlen_upd. exact Hi.
Qed.

(* positions outside the written run are untouched *)
Lemma write_range_other : forall l b i b' j, write_range b i l = Ok b' -> 0 <= i ->
  0 <= j -> (j < i \/ i + zlen l <= j) -> znth b' j = znth b j.
Proof.
  induction l as [|x l IH]; intros b i b' j H Hi Hj Hout; cbn [write_range] in H.
  - inversion H. reflexivity.
  - destruct (wr b i x) as [b1| | |] eqn:E; cbn [rbind] in H; try discriminate.
    apply wr_inv in E as (Hib & ->).
    assert (zlen (x :: l) = zlen l + 1) as Hl by (unfold zlen; cbn [length]; lia). rewrite Hl in Hout.
    assert (0 <= zlen l) by (unfold zlen; lia).
    rewrite (IH _ _ _ j H) by lia. apply znth_upd_other; lia.
Qed.

Lemma write_range_bounds : forall l b i b', write_range b i l = Ok b' -> l <> [] ->
  0 <= i /\ i + zlen l <= zlen b.
Proof.
  induction l as [|x l IH]; intros b i b' H Hne; [contradiction|].
  cbn [write_range] in H. destruct (wr b i x) as [b1| | |] eqn:E; cbn [rbind] in H; try discriminate.
  apply wr_inv in E as (Hib & ->).
  assert (zlen (x :: l) = zlen l + 1) as Hl by (unfold zlen; cbn [length]; lia). rewrite Hl.
  destruct l as [|y l'].
  - change (zlen []) with 0. lia.
  - apply IH in H; [|discriminate]. rewrite zlen_upd in H by lia. lia.
Qed.

Lemma firstn_write_range : forall l b i b' n, write_range b i l = Ok b' -> 0 <= i -> (n <= Z.to_nat i)%nat ->
  firstn n b' = firstn n b.
Proof.
  induction l as [|x l IH]; intros b i b' n H Hi Hn; cbn [write_range] in H.
  - inversion H. reflexivity.
  - destruct (wr b i x) as [b1| | |] eqn:E; cbn [rbind] in H; try discriminate.
    apply wr_inv in E as (Hib & ->).
    rewrite (IH _ _ _ n H) by lia. apply firstn_upd_ge; assumption.
Qed.

(** * sizes *)
Lemma to_char_small ck x : 0 <= x < 128 -> to_char ck x = x.
Proof.
  intros H. destruct ck; cbn [to_char]; unfold wraps, wrapu.
  - change (2 ^ 8) with 256. change (2 ^ (8 - 1)) with 128. destruct (x mod 256 <? 128) eqn:E; lia.
  - change (2 ^ 32) with 4294967296. change (2 ^ (32 - 1)) with 2147483648.
    destruct (x mod 4294967296 <? 2147483648) eqn:E; lia.
  - change (2 ^ 8) with 256. lia.
  - change (2 ^ 16) with 65536. lia.
  - change (2 ^ 32) with 4294967296. lia.
Qed.

Lemma size_field_fits c n : cap_ok c -> 0 <= n <= c -> 16 <= c -> wrapu (size_bits c) n = n.
Proof.
  unfold cap_ok. intros Hc Hn _. unfold wrapu, size_bits.
  destruct (c <? 255) eqn:E1; [change (2 ^ 8) with 256; lia|].
  destruct (c <? 65535) eqn:E2; [change (2 ^ 16) with 65536; lia|].
  destruct (c <? 4294967295) eqn:E3; [change (2 ^ 32) with 4294967296; lia|].
  change (2 ^ 64) with 18446744073709551616. lia.
Qed.

Lemma sz_id x : 0 <= x < 18446744073709551616 -> sz x = x.
Proof. intros H. unfold sz. apply Z.mod_small. exact H. Qed.

(* unsafe_set_size on a well-formed array: size n, terminator at n, nothing below n touched *)
Lemma unsafe_set_size_ok s n : cap_ok (cap s) -> zlen (buf s) = cap s + 1 -> 0 <= n <= cap s ->
  exists s', unsafe_set_size s n = Ok s' /\ cap s' = cap s /\ ckind s' = ckind s /\
    zlen (buf s') = cap s + 1 /\ get_size s' = n /\ znth (buf s') n = 0 /\
    firstn (Z.to_nat n) (buf s') = firstn (Z.to_nat n) (buf s).
Proof.
  unfold cap_ok. intros Hc Hlen Hn. unfold unsafe_set_size, set_size.
  replace (n <=? cap s) with true by lia.
  destruct (tiny s) eqn:Et; unfold tiny in Et.
  - (* tiny layout *)
    rewrite wr_ok by lia. cbn [rbind]. rewrite to_char_small by lia.
    set (b1 := firstn (Z.to_nat (cap s)) (buf s) ++ (cap s - n) :: skipn (S (Z.to_nat (cap s))) (buf s)).
    assert (Hb1 : zlen b1 = cap s + 1) by (unfold b1; rewrite zlen_upd; lia).
    assert (Hg1 : get_size (with_buf s b1) = n).
    { unfold get_size, tiny, with_buf. cbn [cap buf]. rewrite Et. unfold b1.
      rewrite znth_upd_same by lia. rewrite (sz_id (cap s - n)) by lia. rewrite sz_id; lia. }
    rewrite Hg1. replace (n <? sz (n + 1)) with true by (rewrite sz_id; lia).
    cbn [with_buf buf]. rewrite wr_ok by lia. cbn [rbind].
    eexists. split; [reflexivity|]. unfold with_buf. cbn [cap ckind buf szf].
    repeat split.
    + rewrite zlen_upd; lia.
    + unfold get_size, tiny. cbn [cap buf]. rewrite Et.
      destruct (Z.eq_dec n (cap s)) as [->|Hne].
      * rewrite znth_upd_same by lia. change (sz 0) with 0. rewrite Z.sub_0_r. apply sz_id. lia.
      * rewrite znth_upd_other by lia. unfold b1. rewrite znth_upd_same by lia.
        rewrite (sz_id (cap s - n)) by lia. rewrite sz_id; lia.
    + apply znth_upd_same. lia.
    + rewrite firstn_upd_ge by lia. unfold b1. apply firstn_upd_ge; lia.
  - (* normal layout *)
    cbn [rbind]. rewrite size_field_fits by (unfold cap_ok; lia).
    unfold get_size, tiny, with_szf. cbn [cap buf szf]. rewrite Et.
    replace (n <? sz (n + 1)) with true by (rewrite sz_id; lia).
    rewrite wr_ok by lia. cbn [rbind]. eexists. split; [reflexivity|].
    unfold with_buf. cbn [cap ckind buf szf]. rewrite Et. repeat split.
    + rewrite zlen_upd; lia.
    + apply znth_upd_same. lia.
    + apply firstn_upd_ge; lia.
Qed.

(* whenever unsafe_set_size returns on a well-formed array, the invariant holds afterwards *)
Lemma unsafe_set_size_inv s n s' : cap_ok (cap s) -> zlen (buf s) = cap s + 1 -> 0 <= n ->
  unsafe_set_size s n = Ok s' -> inv s' /\ cap s' = cap s /\ ckind s' = ckind s /\ get_size s' = n.
Proof.
  intros Hc Hlen Hn H.
  destruct (Z_le_gt_dec n (cap s)) as [Hle|Hgt].
  - destruct (unsafe_set_size_ok s n Hc Hlen ltac:(lia)) as (s1 & E & H1 & H2 & H3 & H4 & H5 & _).
    rewrite E in H. inversion H; subst s1. unfold inv. rewrite H1, H4. unfold cap_ok in *. repeat split; try lia; try assumption; reflexivity.
  - unfold unsafe_set_size in H. replace (n <=? cap s) with false in H by lia. discriminate.
Qed.

(** * the default string *)
Lemma repeat_firstn (x : Z) n m : (n <= m)%nat -> firstn n (repeat x m) = repeat x n.
Proof.
  revert m. induction n as [|n IH]; intros m H; [reflexivity|].
  destruct m as [|m]; [lia|]. cbn [repeat firstn]. f_equal. apply IH. lia.
Qed.

Lemma inv_default c ck : cap_ok c -> inv (default_str c ck) /\ get_size (default_str c ck) = 0.
Proof.
  unfold cap_ok. intros Hc. unfold default_str. destruct (c <? 16) eqn:E.
  - rewrite repeat_firstn by lia. rewrite to_char_small by lia.
    assert (Hlen : zlen (repeat 0 (Z.to_nat c) ++ [c]) = c + 1).
    { unfold zlen. rewrite app_length, repeat_length. cbn [length]. lia. }
    assert (Hlast : znth (repeat 0 (Z.to_nat c) ++ [c]) c = c).
    { unfold znth. rewrite app_nth2 by (rewrite repeat_length; lia). rewrite repeat_length.
      replace (Z.to_nat c - Z.to_nat c)%nat with O by lia. reflexivity. }
    assert (Hsz : get_size (mkstr c ck (repeat 0 (Z.to_nat c) ++ [c]) 0) = 0).
    { unfold get_size, tiny. cbn [cap buf]. rewrite E, Hlast. rewrite (sz_id c) by lia. rewrite Z.sub_diag. reflexivity. }
    split; [|exact Hsz]. unfold inv. rewrite Hsz. cbn [cap buf]. repeat split; try lia; try assumption.
    destruct (Z.eq_dec c 0) as [->|Hne]; [reflexivity|].
    unfold znth. rewrite app_nth1 by (rewrite repeat_length; lia). apply nth_repeat.
  - assert (Hsz : get_size (mkstr c ck (repeat 0 (Z.to_nat (c + 1))) 0) = 0).
    { unfold get_size, tiny. cbn [cap szf]. rewrite E. reflexivity. }
    split; [|exact Hsz]. unfold inv. rewrite Hsz. cbn [cap buf]. repeat split; try lia.
    + unfold zlen. rewrite repeat_length. lia.
    + unfold znth. apply nth_repeat.
Qed.
