(* C04: the hypotheses of the query theorems — when an argument of a const member is usable. *)
From Tetl Require Import Lib.Base C08.Model C08.Spec C08.Core C08.ProofsCmp C08.ProofsFind C08.ProofsPtr C04.Model C04.ModelQ.
Local Open Scope Z_scope.

Definition needle_ok (n : needle) : Prop :=
  match n with
  | NStr v => view_ok v
  | NPtrCount a count => view_ok a /\ 0 <= count <= vlen a
  | NCstr a => cstr_ok a
  | NChar _ => True
  end.

Definition cmp_call_ok (c : cmp_call) : Prop :=
  match c with
  | CmpStr b => view_ok b
  | CmpPosStr pos count b => view_ok b /\ pos_ok pos /\ pos_ok count
  | CmpPos5Str pos1 count1 b pos2 count2 => view_ok b /\ pos_ok pos1 /\ pos_ok count1 /\ pos_ok pos2 /\ pos_ok count2
  | CmpCstr a => cstr_ok a
  | CmpPosCstr pos count a => cstr_ok a /\ pos_ok pos /\ pos_ok count
  | CmpPosPtrCount pos1 count1 a count2 => view_ok a /\ pos_ok pos1 /\ pos_ok count1 /\ 0 <= count2 <= vlen a
  | CmpPosView pos1 count1 v => view_ok v /\ pos_ok pos1 /\ pos_ok count1
  | CmpPos5View pos1 count1 v pos2 count2 => view_ok v /\ pos_ok pos1 /\ pos_ok count1 /\ pos_ok pos2 /\ pos_ok count2
  end.

(* for starts_with / ends_with the characters must be values of the character type *)
Definition pfx_ok (t : chartype) (p : pfx_arg) : Prop :=
  match p with
  | PView v => view_ok v /\ chars_ok t (vchars v)
  | PChar _ => True
  | PCstr a => cstr_ok a /\ chars_ok t (vchars a)
  end.

Definition pfx_ok' (p : pfx_arg) : Prop :=
  match p with PView v => view_ok v | PChar _ => True | PCstr a => cstr_ok a end.
