(* C04: what replace DOES — every index-based overload overwrites n = min(count, size() - pos, |replacement|)
   characters in place and keeps the length (the recorded finding KF-C04-replace-inplace) — as a list-level
   statement, and the region where that IS std::basic_string::replace: exactly when the replacement is as long as
   the replaced range. *)
From Tetl Require Import Lib.Base Lib.Arr C08.Model C04.Model C04.Spec C04.Inv C04.CstrFacts C04.InvOps
  C04.RefineBase C04.RefineOps1 C04.RefineOps2.
From Coq Require Import ZifyBool.
Local Open Scope Z_scope.
Ltac Zify.zify_post_hook ::= Z.to_euclidean_division_equations.

(* the in-place replace on character lists *)
Definition s_replace_inplace (l : list Z) (pos count : Z) (x : list Z) : option (list Z) :=
  if pos <=? slen l then
    let n := Z.min (Z.min count (slen l - pos)) (slen x) in
    Some (take pos l ++ take n x ++ drop (pos + n) l)
  else None.

(* it is std's replace exactly when the replaced range and the replacement have the same length *)
Lemma s_replace_inplace_std l pos count x : 0 <= pos -> 0 <= count ->
  slen x = Z.min count (slen l - pos) -> s_replace_inplace l pos count x = s_replace l pos count x.
Proof.
  intros Hp Hc Hx. unfold s_replace_inplace, s_replace. destruct (pos <=? slen l) eqn:E; [|reflexivity].
  rewrite <- Hx, Z.min_id. f_equal. f_equal. f_equal. unfold take, slen. rewrite Nat2Z.id. apply firstn_all.
Qed.

Lemma s_replace_inplace_len l pos count x r : 0 <= pos -> 0 <= count ->
  s_replace_inplace l pos count x = Some r -> slen r = slen l.
Proof.
  intros Hp Hc. unfold s_replace_inplace. destruct (pos <=? slen l) eqn:E; [|discriminate]. intros H; inversion H; subst r.
  pose proof (zlen_nonneg x) as Hx. change slen with zlen in *.
  rewrite !zlen_app, zlen_take, zlen_take, zlen_drop by lia. lia.
Qed.

(* overwriting x at pos inside the contents: the write succeeds and changes exactly those characters *)
Lemma overwrite_contents s pos x : inv s -> 0 <= pos -> pos + zlen x <= get_size s ->
  exists b, write_range (buf s) pos x = Ok b /\
    contents (with_buf s b) = take pos (contents s) ++ x ++ drop (pos + zlen x) (contents s).
Proof.
  intros I Hp Hend. pose proof I as (Hc & Hl & Hs & Ht). unfold cap_ok in Hc. pose proof (zlen_nonneg x) as Hx.
  set (p := firstn (Z.to_nat pos) (buf s)).
  set (m := firstn (Z.to_nat (zlen x)) (skipn (Z.to_nat pos) (buf s))).
  set (t := skipn (Z.to_nat (zlen x)) (skipn (Z.to_nat pos) (buf s))).
  assert (Eb : buf s = p ++ m ++ t).
  { unfold p, m, t. rewrite firstn_skipn. symmetry. apply firstn_skipn. }
  assert (Lp : zlen p = pos) by (unfold p; apply zlen_firstn; lia).
  assert (Lm : length m = length x).
  { unfold m. rewrite firstn_length, skipn_length. unfold zlen in *. lia. }
  pose proof (write_range_app x m p t Lm) as W. rewrite Lp, <- Eb in W.
  exists (p ++ x ++ t). split; [exact W|].
  rewrite contents_with_buf.
  2:{ apply (write_range_other _ _ _ _ _ W); lia. }
  unfold contents, take, drop.
  rewrite firstn_firstn. replace (Init.Nat.min (Z.to_nat pos) (Z.to_nat (get_size s))) with (Z.to_nat pos) by lia.
  fold p. rewrite skipn_firstn_comm.
  assert (Et : skipn (Z.to_nat (pos + zlen x)) (buf s) = t).
  { unfold t. rewrite skipn_skipn. f_equal. lia. }
  rewrite Et.
  rewrite firstn_app. replace (firstn (Z.to_nat (get_size s)) p) with p.
  2:{ symmetry. apply firstn_all2. unfold zlen in Lp. lia. }
  f_equal. rewrite firstn_app. replace (firstn (Z.to_nat (get_size s) - length p) x) with x.
  2:{ symmetry. apply firstn_all2. unfold zlen in *. lia. }
  f_equal. f_equal. unfold zlen in *. lia.
Qed.

Lemma rep_n_val s pos count avail : inv s -> 0 <= pos <= get_size s -> 0 <= count < 18446744073709551616 ->
  rep_n s pos count avail = Z.min (Z.min count (get_size s - pos)) avail.
Proof.
  intros (Hc & _ & Hs & _) Hp Hcn. unfold cap_ok in Hc. unfold rep_n. rewrite sz_id by lia. rewrite min_sz_min.
  destruct (avail <? Z.min count (get_size s - pos)) eqn:E; lia.
Qed.

(* replace(pos, count, str): returns exactly when pos <= size(), and then it is the in-place replace *)
Theorem replace_is_inplace s pos count src : inv s -> 0 <= pos -> 0 <= count < 18446744073709551616 ->
  match s_replace_inplace (contents s) pos count src with
  | Some r => exists s', replace_m s pos count src = Ok s' /\ keeps s s' /\ contents s' = r
  | None => replace_m s pos count src = Contract
  end.
Proof.
  intros I Hp Hc. pose proof (contents_len s I) as L. pose proof I as (_ & _ & Hs & _).
  unfold s_replace_inplace, replace_m. change slen with zlen. rewrite L.
  destruct (pos <=? get_size s) eqn:E; [|reflexivity].
  rewrite (rep_n_val s pos count (zlen src) I ltac:(lia) Hc).
  set (n := Z.min (Z.min count (get_size s - pos)) (zlen src)).
  pose proof (zlen_nonneg src) as Hsrc.
  assert (Ln : zlen (firstn (Z.to_nat n) src) = n) by (apply zlen_firstn; lia).
  destruct (overwrite_contents s pos (firstn (Z.to_nat n) src) I Hp ltac:(lia)) as (b & W & C).
  rewrite W. cbn [rbind]. exists (with_buf s b). split; [reflexivity|]. split.
  - eapply overwrite_keeps; [exact I|exact Hp| |exact W]. lia.
  - rewrite C, Ln. reflexivity.
Qed.

(* replace(pos, count, Char const* str, count2) with count2 <= the array behind str *)
Theorem replace_ptr_is_inplace s pos count src count2 : inv s -> 0 <= pos -> 0 <= count < 18446744073709551616 ->
  0 <= count2 <= zlen src ->
  match s_replace_inplace (contents s) pos count (take count2 src) with
  | Some r => exists s', replace_ptr_m s pos count src count2 = Ok s' /\ keeps s s' /\ contents s' = r
  | None => replace_ptr_m s pos count src count2 = Contract
  end.
Proof.
  intros I Hp Hc H2. pose proof (contents_len s I) as L. pose proof I as (_ & _ & Hs & _).
  unfold s_replace_inplace, replace_ptr_m. change slen with zlen. rewrite L.
  destruct (pos <=? get_size s) eqn:E; [|reflexivity].
  rewrite (rep_n_val s pos count count2 I ltac:(lia) Hc). rewrite (zlen_take src count2) by lia.
  set (n := Z.min (Z.min count (get_size s - pos)) count2).
  unfold take_chk. replace (n <=? zlen src) with true by lia. cbn [rbind].
  assert (Ln : zlen (firstn (Z.to_nat n) src) = n) by (apply zlen_firstn; lia).
  destruct (overwrite_contents s pos (firstn (Z.to_nat n) src) I Hp ltac:(lia)) as (b & W & C).
  rewrite W. cbn [rbind]. exists (with_buf s b). split; [reflexivity|]. split.
  - eapply overwrite_keeps; [exact I|exact Hp| |exact W]. lia.
  - rewrite C, Ln. unfold take. rewrite firstn_firstn. replace (Init.Nat.min (Z.to_nat n) (Z.to_nat count2)) with (Z.to_nat n) by lia.
    reflexivity.
Qed.

(* replace(pos, count, str, pos2, count2): additionally pos2 <= str.size() *)
Theorem replace5_is_inplace s pos count src pos2 count2 : inv s -> 0 <= pos -> 0 <= count < 18446744073709551616 ->
  0 <= pos2 -> 0 <= count2 < 18446744073709551616 -> zlen src < 18446744073709551616 ->
  match s_substr src pos2 count2 with
  | Some x =>
      match s_replace_inplace (contents s) pos count x with
      | Some r => exists s', replace5_m s pos count src pos2 count2 = Ok s' /\ keeps s s' /\ contents s' = r
      | None => replace5_m s pos count src pos2 count2 = Contract
      end
  | None => replace5_m s pos count src pos2 count2 = Contract
  end.
Proof.
  intros I Hp Hc Hp2 Hc2 Hsrc. pose proof (contents_len s I) as L. pose proof I as (_ & _ & Hs & _).
  unfold s_substr, s_replace_inplace, replace5_m. change slen with zlen. rewrite L.
  destruct (pos2 <=? zlen src) eqn:E2.
  - destruct (pos <=? get_size s) eqn:E; [|reflexivity].
    rewrite (sz_id (zlen src - pos2)) by lia. rewrite min_sz_min.
    set (x := take (Z.min count2 (zlen src - pos2)) (drop pos2 src)).
    assert (Lx : zlen x = Z.min count2 (zlen src - pos2)).
    { unfold x. apply zlen_take. rewrite zlen_drop by lia. lia. }
    rewrite (rep_n_val s pos count _ I ltac:(lia) Hc). rewrite Lx.
    set (n := Z.min (Z.min count (get_size s - pos)) (Z.min count2 (zlen src - pos2))).
    assert (Ex : firstn (Z.to_nat n) (skipn (Z.to_nat pos2) src) = take n x).
    { unfold x, take, drop. rewrite firstn_firstn. f_equal. lia. }
    rewrite Ex.
    assert (Ln : zlen (take n x) = n) by (apply zlen_take; lia).
    destruct (overwrite_contents s pos (take n x) I Hp ltac:(lia)) as (b & W & C).
    rewrite W. cbn [rbind]. exists (with_buf s b). split; [reflexivity|]. split.
    + eapply overwrite_keeps; [exact I|exact Hp| |exact W]. lia.
    + rewrite C, Ln. reflexivity.
  - destruct (pos <=? get_size s); reflexivity.
Qed.

(* replace(pos, count, Char const* str) with a null-terminated str *)
Theorem replace_cstr_is_inplace s pos count a x : inv s -> 0 <= pos -> 0 <= count < 18446744073709551616 ->
  cstr_arg_ok a -> s_cstr a = Some x ->
  match s_replace_inplace (contents s) pos count x with
  | Some r => exists s', replace_cstr_m s pos count a = Ok s' /\ keeps s s' /\ contents s' = r
  | None => replace_cstr_m s pos count a = Contract
  end.
Proof.
  intros I Hp Hc Ha Hx. destruct (strlen_ok a x Ha Hx) as (El & Ex & Hr).
  pose proof (replace_ptr_is_inplace s pos count a (zlen x) I Hp Hc ltac:(lia)) as H.
  assert (Et : take (zlen x) a = x) by (unfold take; symmetry; exact Ex).
  rewrite Et in H.
  assert (Em : replace_cstr_m s pos count a = replace_ptr_m s pos count a (zlen x)).
  { unfold replace_cstr_m, replace_ptr_m. destruct (pos <=? get_size s); [|reflexivity]. rewrite El. reflexivity. }
  rewrite Em. exact H.
Qed.

(* ... and ONLY then: otherwise std's result has another length *)
Lemma s_replace_inplace_differs l pos count x : 0 <= pos <= slen l -> 0 <= count ->
  slen x <> Z.min count (slen l - pos) -> s_replace_inplace l pos count x <> s_replace l pos count x.
Proof.
  intros Hp Hc Hx E. destruct (s_replace_inplace l pos count x) as [r|] eqn:E1.
  - pose proof (s_replace_inplace_len l pos count x r ltac:(lia) Hc E1) as L1.
    symmetry in E. unfold s_replace in E. replace (pos <=? slen l) with true in E by lia. inversion E as [E2].
    pose proof (zlen_nonneg x) as Hnx. change slen with zlen in *.
    rewrite <- E2 in L1. rewrite !zlen_app, zlen_take, zlen_drop in L1 by lia. lia.
  - unfold s_replace_inplace in E1. replace (pos <=? slen l) with true in E1 by lia. discriminate.
Qed.

(* the iterator-based overloads on a valid range [first, last) of the string (anything else is undefined behaviour):
   replace(first, last, str | s, count2 | s) is the in-place replace of last - first characters at first *)
Theorem replace_it_is_inplace s first last src : inv s -> 0 <= first <= last -> last <= get_size s ->
  exists s', replace_it_m s first last src = Ok s' /\ keeps s s' /\
    Some (contents s') = s_replace_inplace (contents s) first (last - first) src.
Proof.
  intros I Hf Hl. pose proof (contents_len s I) as L. pose proof (zlen_nonneg src) as Hsrc.
  pose proof I as (Hcap & _ & Hsz & _). unfold cap_ok in Hcap.
  unfold replace_it_m, s_replace_inplace. change slen with zlen. rewrite L.
  rewrite (sz_id first), (sz_id (last - first)) by lia. rewrite (sz_id (get_size s - first)) by lia.
  replace (last - first <=? get_size s - first) with true by lia.
  replace (first <=? get_size s) with true by lia.
  set (n := if zlen src <? last - first then zlen src else last - first).
  assert (En : Z.min (Z.min (last - first) (get_size s - first)) (zlen src) = n) by (unfold n; destruct (zlen src <? last - first) eqn:E; lia).
  rewrite En.
  assert (Ln : zlen (firstn (Z.to_nat n) src) = n) by (apply zlen_firstn; unfold n; destruct (zlen src <? last - first) eqn:E; lia).
  destruct (overwrite_contents s first (firstn (Z.to_nat n) src) I ltac:(lia)) as (b & W & C).
  { rewrite Ln. unfold n. destruct (zlen src <? last - first) eqn:E; lia. }
  rewrite W. cbn [rbind]. exists (with_buf s b). split; [reflexivity|]. split.
  - apply (overwrite_keeps s first (firstn (Z.to_nat n) src) b I); [lia| |exact W].
    rewrite Ln. unfold n. destruct (zlen src <? last - first) eqn:E; lia.
  - rewrite C, Ln. reflexivity.
Qed.

(* replace(first, last, count2, ch): min(count2, last - first) copies of ch at first *)
Theorem replace_it_fill_is_inplace s first last count2 ch : inv s -> 0 <= first <= last -> last <= get_size s -> 0 <= count2 ->
  exists s', replace_it_fill_m s first last count2 ch = Ok s' /\ keeps s s' /\
    Some (contents s') = s_replace_inplace (contents s) first (last - first) (rep count2 ch).
Proof.
  intros I Hf Hl Hc. pose proof (contents_len s I) as L.
  pose proof I as (Hcap & _ & Hsz & _). unfold cap_ok in Hcap.
  unfold replace_it_fill_m, s_replace_inplace. change slen with zlen. rewrite L.
  rewrite (sz_id first), (sz_id (last - first)) by lia. rewrite (sz_id (get_size s - first)) by lia.
  replace (last - first <=? get_size s - first) with true by lia.
  replace (first <=? get_size s) with true by lia. rewrite min_sz_min.
  assert (Lr : zlen (rep count2 ch) = count2) by (unfold rep; rewrite zlen_repeat; lia).
  rewrite Lr.
  set (n := Z.min (last - first) count2).
  replace (Z.min (Z.min (last - first) (get_size s - first)) count2) with n by (unfold n; lia).
  assert (Et : take n (rep count2 ch) = repeat ch (Z.to_nat n)).
  { unfold take, rep. apply repeat_firstn. unfold n. lia. }
  rewrite Et.
  assert (Ln : zlen (repeat ch (Z.to_nat n)) = n) by (rewrite zlen_repeat; unfold n; lia).
  destruct (overwrite_contents s first (repeat ch (Z.to_nat n)) I ltac:(lia)) as (b & W & C).
  { rewrite Ln. unfold n. lia. }
  rewrite W. cbn [rbind]. exists (with_buf s b). split; [reflexivity|]. split.
  - apply (overwrite_keeps s first (repeat ch (Z.to_nat n)) b I); [lia| |exact W]. rewrite Ln. unfold n. lia.
  - rewrite C, Ln. reflexivity.
Qed.

(* ... and every iterator pair that is NOT a range of the string stops at the precondition (fix commit 377d1df);
   iterators are ptrdiff_t offsets from begin() *)
Theorem replace_it_contract s first last : inv s ->
  -9223372036854775808 <= first < 9223372036854775808 -> -9223372036854775808 <= last < 9223372036854775808 ->
  ~ (0 <= first <= last /\ last <= get_size s) ->
  (forall src, replace_it_m s first last src = Contract) /\
  (forall count2 ch, replace_it_fill_m s first last count2 ch = Contract).
Proof.
  intros (Hcap & _ & Hsz & _) Hf Hl Hbad. unfold cap_ok in Hcap.
  assert (G : (sz first <=? get_size s) && (sz (last - first) <=? sz (get_size s - sz first)) = false).
  { destruct (sz first <=? get_size s) eqn:E1; [|reflexivity]. cbn [andb].
    assert (Hfirst : 0 <= first <= get_size s) by (unfold sz in E1; lia).
    rewrite (sz_id first) by lia. rewrite (sz_id (get_size s - first)) by lia.
    unfold sz. apply Z.leb_gt. lia. }
  split; intros; [unfold replace_it_m|unfold replace_it_fill_m];
    destruct (sz first <=? get_size s); cbn [andb] in G; [rewrite G| |rewrite G|]; reflexivity.
Qed.
