(* C04 — the const members of inplace_string answer like std::basic_string on the contents.
   Property theorems only ([exact] of lemmas from RefineQuery.v) + Print Assumptions.

   [ModelQ.v] mirrors every overload of the six search families, compare, starts_with / ends_with /
   contains, copy, operator[] / front / back / empty / full and the free relational operators with the
   argument plumbing of the header; all of them work on basic_string_view(data(), size()) and delegate
   to the C08 view model.  [SpecQ.v] says which characters an argument denotes ([needle_chars], [pfx_chars])
   and dispatches to the list-level std definitions of C08.Spec.  [inv s]: the representation invariant
   (it holds after every history: C04_invariant_all_histories).  [pos_ok]: any size_t value, incl. npos and
   positions beyond size().  Hypotheses on arguments ([needle_ok], [cmp_call_ok], [pfx_ok]): a view lies in
   its array, (s, count) stays inside the array s points into, a Char const* points into an array holding a
   null character. *)
From Tetl Require Import Lib.Base C08.Model C08.Spec C08.Core C08.ProofsFind C08.ProofsCmp C08.ProofsPtr
  C04.Model C04.ModelQ C04.Spec C04.SpecQ C04.QueryOk C04.Inv C04.RefineQuery.
Local Open Scope Z_scope.

(* find / rfind / find_first_of / find_first_not_of / find_last_of / find_last_not_of, every overload
   (string or string_view, (s, pos, count), (s, pos), (ch, pos)), every position: the std position *)
Theorem C04_search_all_overloads : forall f s n pos, inv s -> needle_ok n -> pos_ok pos ->
  search_m f s n pos = Ok (search_s f (contents s) (needle_chars n) pos).
Proof. exact search_correct. Qed.
Print Assumptions C04_search_all_overloads.

(* the members called without a position use the standard's default, except rfind (known finding, see
   C04_rfind_default_refuted in Properties.v) *)
Theorem C04_default_positions : forall f, f <> FRfind -> default_pos f = std_default_pos f.
Proof. intros f H. destruct f; try reflexivity. contradiction. Qed.
Print Assumptions C04_default_positions.

(* compare, all eight overloads: the sign std::basic_string::compare returns; a precondition failure
   exactly where std throws out_of_range (pos > size()) *)
Theorem C04_compare_all_overloads : forall s c, inv s -> cmp_call_ok c ->
  res_opt (compare_call_m s c) (compare_call_s (ct_of (ckind s)) (contents s) c).
Proof. exact compare_call_correct. Qed.
Print Assumptions C04_compare_all_overloads.

(* ==, !=, <, <=, >, >= : string/string, string/C string, C string/string *)
Theorem C04_relational_operators :
  (forall a b, inv a -> inv b -> rel_str_str_m a b = Ok (rel_s (ct_of (ckind a)) (contents a) (contents b))) /\
  (forall a r, inv a -> cstr_ok r -> rel_str_cstr_m a r = Ok (rel_s (ct_of (ckind a)) (contents a) (cstr_s (vchars r)))) /\
  (forall l b, cstr_ok l -> inv b -> rel_cstr_str_m l b = Ok (rel_s (ct_of (ckind b)) (cstr_s (vchars l)) (contents b))).
Proof. exact (conj rel_str_str_correct (conj rel_str_cstr_correct rel_cstr_str_correct)). Qed.
Print Assumptions C04_relational_operators.

(* starts_with / ends_with / contains with a view, a character, a C string.
   [chars_ok]: the characters are values of the character type (for char: -128..127) *)
Theorem C04_starts_ends_contains :
  (forall s p, inv s -> chars_ok (ct_of (ckind s)) (contents s) -> pfx_ok (ct_of (ckind s)) p ->
     starts_with_call_m s p = Ok (starts_with_s (contents s) (pfx_chars p))) /\
  (forall s p, inv s -> chars_ok (ct_of (ckind s)) (contents s) -> pfx_ok (ct_of (ckind s)) p ->
     ends_with_call_m s p = Ok (ends_with_s (contents s) (pfx_chars p))) /\
  (forall s p, inv s -> pfx_ok' p -> contains_call_m s p = Ok (contains_s (contents s) (pfx_chars p))).
Proof. exact (conj starts_with_call_correct (conj ends_with_call_correct contains_call_correct)). Qed.
Print Assumptions C04_starts_ends_contains.

(* copy(dest, count, pos) with pos <= size(): min(count, size() - pos) characters from pos *)
Theorem C04_copy : forall s count pos, inv s -> pos_ok count -> pos_ok pos -> pos <= get_size s ->
  C04.Model.copy_m s count pos = (Z.min count (get_size s - pos), sub (contents s) pos (Z.min count (get_size s - pos))).
Proof. exact copy_correct. Qed.
Print Assumptions C04_copy.

(* operator[] (the terminator at index size() is addressable and null; beyond it the precondition fires),
   front / back (precondition: not empty), empty / full *)
Theorem C04_accessors : forall s, inv s ->
  (forall i, pos_ok i ->
     (i < get_size s -> index_m s i = Ok (zth (contents s) i)) /\
     (i = get_size s -> index_m s i = Ok 0) /\
     (i > get_size s -> index_m s i = Contract)) /\
  (contents s <> [] -> front_m s = Ok (zth (contents s) 0) /\ back_m s = Ok (zth (contents s) (get_size s - 1))) /\
  (contents s = [] -> front_m s = Contract /\ back_m s = Contract) /\
  empty_m s = (slen (contents s) =? 0) /\ full_m s = (slen (contents s) =? cap s).
Proof.
  intros s I. split; [intros i Hi; exact (index_correct s i I Hi)|].
  destruct (front_back_correct s I) as (F1 & F2). split; [exact F1|]. split; [exact F2|]. exact (empty_full_correct s I).
Qed.
Print Assumptions C04_accessors.

(* data() / c_str() is ALWAYS a valid C string: the scan for the null character (Traits::length; the model is
   UB as soon as it leaves the Capacity+1 characters of the object) returns, stops at or before size(), yields
   the contents up to their first null character, and exactly size() when the contents hold no null character *)
Theorem C04_c_str_valid : forall s, inv s ->
  exists n, strlen_m (arr_view (buf s)) = Ok n /\ 0 <= n <= get_size s /\
            firstn (Z.to_nat n) (buf s) = cstr_s (contents s ++ [0]) /\
            (Forall (fun c => c <> 0) (contents s) -> n = get_size s).
Proof. exact c_str_valid. Qed.
Print Assumptions C04_c_str_valid.

Example C04_query_nonvacuous :
  exists s, ctor_ptr 16 CChar [97; 98; -128; 97; 98] 5 = Ok s /\ inv s /\
    search_m FRfind s (NCstr (mkview [97; 98; 0; 7] 0 4)) npos = Ok 3 /\
    needle_ok (NCstr (mkview [97; 98; 0; 7] 0 4)) /\
    compare_call_m s (CmpPos5Str 2 9 (mkview [97; -128; 98] 0 3) 1 npos) = Ok (-1) /\
    cmp_call_ok (CmpPos5Str 2 9 (mkview [97; -128; 98] 0 3) 1 npos).
Proof.
  eexists. split; [vm_compute; reflexivity|]. split; [|split; [vm_compute; reflexivity|split; [|split; [vm_compute; reflexivity|]]]].
  - unfold inv, cap_ok. vm_compute. repeat split; discriminate.
  - cbn [needle_ok]. unfold cstr_ok, view_ok, len. cbn. split; [lia|]. exists 2. split; [lia|reflexivity].
  - cbn [cmp_call_ok]. unfold view_ok, pos_ok, len, npos. cbn. lia.
Qed.
