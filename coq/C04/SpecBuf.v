(* C04 specification, part 3: std::basic_string::copy(s, n, pos) [string.copy] on the caller's array.

   "Let rlen be the smaller of n and size() - pos.  Throws out_of_range if pos > size().
    Preconditions: [s, s + rlen) is a valid range.  Effects: equivalent to traits_type::copy(s, data() + pos, rlen).
    [Note: this does not terminate s with a null object.]  Returns rlen."

   The destination is the list [d] of ALL characters of the caller's array: the first rlen become the
   characters [pos, pos + rlen) of the string, every other character of the array is what it was.
   [None]: out_of_range, or the array is shorter than rlen (no defined result). *)
From Coq Require Import ZArith List Bool.
From Tetl Require Import C04.Spec.
Import ListNotations.
Local Open Scope Z_scope.

Definition s_copy_into (l d : list Z) (n pos : Z) : option (Z * list Z) :=
  match s_substr l pos n with
  | None => None
  | Some x => if slen x <=? slen d then Some (slen x, x ++ drop (slen x) d) else None
  end.
