(* C04 refinement, part 2b: the remaining overloads (C-string pointer, other string, substring of another
   string or view, erase(position)) — compositions of the operations of parts 1 and 2. *)
From Tetl Require Import Lib.Base Lib.Arr C08.Model C04.Model C04.Spec C04.Inv C04.CstrFacts C04.InvOps
  C04.RefineBase C04.RefineOps1 C04.RefineOps2.
Require Tetl.C06a.Model Tetl.C06a.Spec Tetl.C06a.P1_RemoveIf.
From Coq Require Import ZifyBool.
Local Open Scope Z_scope.
Ltac Zify.zify_post_hook ::= Z.to_euclidean_division_equations.

Lemma take_all (l : list Z) : take (zlen l) l = l.
Proof. unfold take, zlen. rewrite Nat2Z.id. apply firstn_all. Qed.

Lemma other_str_ref s src : inv s -> zlen src <= cap s ->
  exists o, other_str s src = Ok o /\ inv o /\ cap o = cap s /\ ckind o = ckind s /\ contents o = src.
Proof.
  intros (Hc & _) Hfit. unfold other_str.
  destruct (ctor_ptr_ref (cap s) (ckind s) src (zlen src) Hc ltac:(pose proof (zlen_nonneg src); lia) Hfit)
    as (o & E & Io & Co & Ko & Cn).
  exists o. rewrite take_all in Cn. tauto.
Qed.

Lemma s_substr_inv src pos count x : s_substr src pos count = Some x ->
  pos <= slen src /\ x = take (Z.min count (slen src - pos)) (drop pos src).
Proof. unfold s_substr. destruct (pos <=? slen src) eqn:E; intros H; inversion H. split; [lia|reflexivity]. Qed.

(* view.substr(pos, count) of the view of a whole array *)
Lemma arr_substr_ok src pos count : zlen src < 9223372036854775808 -> 0 <= pos <= zlen src -> 0 <= count ->
  exists sub, C08.Model.substr_m (arr_view src) pos count = Ok sub /\
    vlen sub = Z.min count (zlen src - pos) /\
    view_chars_m sub = take (Z.min count (zlen src - pos)) (drop pos src) /\
    zlen (view_chars_m sub) = vlen sub.
Proof.
  intros Hb Hp Hc. unfold C08.Model.substr_m, arr_view. cbn [vlen vbuf voff].
  replace (pos <=? zlen src) with true by lia. rewrite sz_id by lia. rewrite min_sz_min.
  eexists. split; [reflexivity|]. cbn [vlen]. split; [reflexivity|].
  unfold view_chars_m. cbn [vlen vbuf voff]. split; [reflexivity|].
  rewrite zlen_firstn; [reflexivity|]. rewrite zlen_skipn by lia. lia.
Qed.

Lemma take_take_all (l : list Z) n : 0 <= n -> take n (take n l) = take n l.
Proof. intros H. unfold take. rewrite firstn_firstn. f_equal. lia. Qed.

(** * append *)
Lemma append_cstr_ref s a x : inv s -> cstr_arg_ok a -> s_cstr a = Some x -> get_size s + zlen x <= cap s ->
  refines s (append_cstr_m s a) (contents s ++ x).
Proof.
  intros I Ha Hx Hfit. destruct (strlen_ok a x Ha Hx) as (E & Ex & Hr).
  unfold append_cstr_m. rewrite E. cbn [rbind].
  replace x with (take (zlen x) a) at 2 by (symmetry; exact Ex).
  apply append_ptr_ref; [exact I|lia|exact Hfit].
Qed.

Lemma append_str_ref s src : inv s -> get_size s + zlen src <= cap s ->
  refines s (append_str_m s src) (contents s ++ src).
Proof.
  intros I Hfit. pose proof I as (_ & _ & Hs & _).
  destruct (other_str_ref s src I ltac:(lia)) as (o & E & Io & Co & Ko & Cn).
  unfold append_str_m. rewrite E. cbn [rbind]. rewrite Cn. apply append_range_ref; assumption.
Qed.

Lemma append_str_sub_ref s src pos count x : inv s -> zlen src <= cap s -> 0 <= pos -> 0 <= count ->
  s_substr src pos count = Some x -> get_size s + zlen x <= cap s ->
  refines s (append_str_sub_m s src pos count) (contents s ++ x).
Proof.
  intros I Hsrc Hp Hc Hx Hfit. apply s_substr_inv in Hx as (Hle & ->). change slen with zlen in *.
  destruct (other_str_ref s src I Hsrc) as (o & E & Io & Co & Ko & Cn).
  unfold append_str_sub_m. rewrite E. cbn [rbind].
  pose proof (contents_len o Io) as Lo. rewrite Cn in Lo.
  destruct (substr_ref o pos count Io ltac:(lia) Hc) as (sub & Es & _ & Cs).
  rewrite Es. cbn [rbind]. rewrite Cs, Cn, <- Lo. apply append_range_ref; assumption.
Qed.

Lemma append_view_sub_ref s src pos count x : inv s -> zlen src < 9223372036854775808 -> 0 <= pos -> 0 <= count ->
  s_substr src pos count = Some x -> get_size s + zlen x <= cap s ->
  refines s (append_view_sub_m s src pos count) (contents s ++ x).
Proof.
  intros I Hb Hp Hc Hx Hfit. apply s_substr_inv in Hx as (Hle & ->). change slen with zlen in *.
  destruct (arr_substr_ok src pos count Hb ltac:(lia) Hc) as (sub & E & Hl & Hch & Hz).
  unfold append_view_sub_m. rewrite E. cbn [rbind].
  rewrite <- Hch in *. rewrite <- (take_all (view_chars_m sub)) at 2. rewrite Hz.
  apply append_ptr_ref; [exact I|pose proof (zlen_nonneg (view_chars_m sub)); lia|lia].
Qed.

(** * assign *)
Lemma to_refines s s' l' : inv s' -> cap s' = cap s -> ckind s' = ckind s -> contents s' = l' ->
  forall r, r = Ok s' -> refines s r l'.
Proof. intros I C K Cn r ->. exists s'. split; [reflexivity|]. split; [unfold keeps; tauto|exact Cn]. Qed.

Lemma assign_cstr_ref s a x : inv s -> cstr_arg_ok a -> s_cstr a = Some x -> zlen x <= cap s ->
  refines s (assign_cstr_m s a) x.
Proof.
  intros I Ha Hx Hfit. pose proof I as (Hcap & _). destruct (strlen_ok a x Ha Hx) as (E & Ex & Hr).
  unfold assign_cstr_m. rewrite E. cbn [rbind].
  destruct (ctor_ptr_ref (cap s) (ckind s) a (zlen x) Hcap ltac:(lia) Hfit) as (s' & E' & I' & C' & K' & Cn).
  apply (to_refines s s'); try assumption. unfold take in Cn. rewrite <- Ex in Cn. exact Cn.
Qed.

Lemma assign_str_sub_ref s src pos count x : inv s -> zlen src <= cap s -> 0 <= pos -> 0 <= count ->
  s_substr src pos count = Some x -> refines s (assign_str_sub_m s src pos count) x.
Proof.
  intros I Hsrc Hp Hc Hx. apply s_substr_inv in Hx as (Hle & ->). change slen with zlen in *.
  destruct (other_str_ref s src I Hsrc) as (o & E & Io & Co & Ko & Cn).
  unfold assign_str_sub_m. rewrite E. cbn [rbind].
  pose proof (contents_len o Io) as Lo. rewrite Cn in Lo.
  destruct (substr_ref o pos count Io ltac:(lia) Hc) as (s' & Es & (I' & C' & K') & Cs).
  apply (to_refines s s'); try assumption; congruence.
Qed.

Lemma assign_view_sub_ref s src pos count x : inv s -> zlen src < 9223372036854775808 -> 0 <= pos -> 0 <= count ->
  s_substr src pos count = Some x -> zlen x <= cap s -> refines s (assign_view_sub_m s src pos count) x.
Proof.
  intros I Hb Hp Hc Hx Hfit. pose proof I as (Hcap & _). apply s_substr_inv in Hx as (Hle & ->). change slen with zlen in *.
  destruct (arr_substr_ok src pos count Hb ltac:(lia) Hc) as (sub & E & Hl & Hch & Hz).
  unfold assign_view_sub_m. rewrite E. cbn [rbind]. rewrite <- Hch in *.
  destruct (ctor_range_ref true (cap s) (ckind s) (view_chars_m sub) Hcap) as (s' & E' & I' & C' & K' & Cn).
  { lia. }
  apply (to_refines s s'); assumption.
Qed.

(** * insert, erase(position) *)
Lemma insert_cstr_ref s index a x : inv s -> 0 <= index <= get_size s -> cstr_arg_ok a -> s_cstr a = Some x ->
  get_size s + zlen x <= cap s ->
  refines s (insert_cstr_m s index a) (take index (contents s) ++ x ++ drop index (contents s)).
Proof.
  intros I Hi Ha Hx Hfit. destruct (strlen_ok a x Ha Hx) as (E & Ex & Hr).
  unfold insert_cstr_m. replace (index >? get_size s) with false by lia. rewrite E. cbn [rbind].
  replace x with (take (zlen x) a) at 2 by (symmetry; exact Ex).
  apply insert_impl_ref; [exact I|exact Hi|lia|exact Hfit].
Qed.

Lemma insert_str_sub_ref s index src indexStr count x : inv s -> 0 <= index <= get_size s ->
  zlen src < 9223372036854775808 -> 0 <= indexStr -> 0 <= count ->
  s_substr src indexStr count = Some x -> get_size s + zlen x <= cap s ->
  refines s (insert_str_sub_m s index src indexStr count) (take index (contents s) ++ x ++ drop index (contents s)).
Proof.
  intros I Hi Hb Hp Hc Hx Hfit. apply s_substr_inv in Hx as (Hle & ->). change slen with zlen in *.
  destruct (arr_substr_ok src indexStr count Hb ltac:(lia) Hc) as (sub & E & Hl & Hch & Hz).
  unfold insert_str_sub_m. replace (index >? get_size s) with false by lia. rewrite E. cbn [rbind].
  rewrite <- Hch in *. rewrite <- (take_all (view_chars_m sub)) at 2. rewrite Hz.
  apply insert_impl_ref; [exact I|exact Hi|pose proof (zlen_nonneg (view_chars_m sub)); lia|lia].
Qed.

Lemma erase_pos_ref s pos : inv s -> 0 <= pos < get_size s ->
  refines s (erase_pos_m s pos) (take pos (contents s) ++ drop (pos + 1) (contents s)).
Proof. intros I Hp. unfold erase_pos_m. apply erase_range_ref; [exact I|lia|lia|lia]. Qed.

(** * free erase / erase_if *)
Lemma free_erase_if_ref p s : inv s ->
  exists s' n, free_erase_if_m p s = Ok (s', n) /\ keeps s s' /\
    contents s' = filter (fun x => negb (p x)) (contents s) /\
    n = slen (contents s) - slen (filter (fun x => negb (p x)) (contents s)).
Proof.
  intros I. pose proof I as (Hc & Hl & Hs & _). unfold cap_ok in Hc. pose proof (contents_len s I) as L.
  unfold free_erase_if_m.
  destruct (C06a.P1_RemoveIf.remove_if_correct p (contents s)) as (l' & E & Hf & Hlen).
  rewrite E. cbn [rbind fst snd]. unfold C06a.Spec.remove_if_spec in *.
  set (fl := filter (fun x => negb (p x)) (contents s)) in *.
  pose proof (filter_len_le (fun x => negb (p x)) (contents s)) as Hle. fold fl in Hle.
  destruct (inv_replace_contents s l' I Hlen) as (K & G & C).
  set (s0 := with_buf s (l' ++ skipn (Z.to_nat (get_size s)) (buf s))) in *.
  assert (Hit : 0 <= Z.of_nat (length fl) <= get_size s) by (unfold zlen in L; lia).
  rewrite (sz_id (get_size s - Z.of_nat (length fl))) by lia.
  destruct (erase_range_ref s0 (Z.of_nat (length fl)) (get_size s - Z.of_nat (length fl)) (keeps_inv _ _ K))
    as (s' & E' & K' & C'); try lia.
  rewrite E'. cbn [rbind]. exists s', (get_size s - Z.of_nat (length fl)).
  split; [reflexivity|]. split; [exact (keeps_trans _ _ _ K K')|]. split.
  - rewrite C', C. unfold take, drop. rewrite Nat2Z.id, Hf.
    replace (Z.of_nat (length fl) + (get_size s - Z.of_nat (length fl))) with (get_size s) by lia.
    rewrite skipn_all2 by (unfold zlen in L; lia). apply app_nil_r.
  - change slen with zlen. rewrite L. reflexivity.
Qed.
