From Tetl Require Import Lib.Base C08.Model C08.Spec C04.Model C04.Spec.
Require Extraction.
Require Import ExtrOcamlBasic.
Extraction Language OCaml.
Extraction "C04_model.ml" wire_anchor
  mkstr mkview default_str ctor_ptr ctor_fill get_size contents terminator step run replace_m
  view_of str_find_m str_rfind_m str_find_first_of_m str_find_first_not_of_m str_find_last_of_m
  str_find_last_not_of_m str_rfind_default_m str_find_last_of_default_m str_find_last_not_of_default_m
  str_compare_m str_compare5_m copy_m
  spec_step spec_step_fits spec_run s_substr
  find_s rfind_s find_first_of_s find_first_not_of_s find_last_of_s find_last_not_of_s compare_s compare5_s.
