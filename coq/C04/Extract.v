From Tetl Require Import Lib.Base C08.Model C08.Spec C04.Model C04.ModelQ C04.Spec C04.SpecQ C04.PreDoc C04.ModelAlias C04.ModelBuf C04.SpecBuf.
Require Extraction.
Require Import ExtrOcamlBasic.
Extraction Language OCaml.
Extraction "C04_model.ml" wire_anchor
  mkstr mkview default_str ctor_ptr ctor_fill get_size contents terminator step run swap_m other_str replace_m replace_ptr_m replace_cstr_m replace5_m replace_it_m replace_it_fill_m returned_pos returned_count pred_of self_src append_range_cat_m ctor_range_m pre_doc append_self_m insert_self_m push_back_self_loop
  view_of str_find_m str_rfind_m str_find_first_of_m str_find_first_not_of_m str_find_last_of_m
  str_find_last_not_of_m str_rfind_default_m str_find_last_of_default_m str_find_last_not_of_default_m
  str_compare_m str_compare5_m istr_copy_m copy_into_m view_copy_into_m s_copy_into
  search_m default_pos compare_call_m starts_with_call_m ends_with_call_m contains_call_m
  rel_str_str_m rel_str_cstr_m rel_cstr_str_m index_m front_m back_m empty_m full_m arr_view
  spec_step spec_step_fits spec_run spec_run_fits s_substr s_cstr s_replace spec_returned_pos spec_returned_count
  find_s rfind_s find_first_of_s find_first_not_of_s find_last_of_s find_last_not_of_s compare_s compare5_s
  needle_chars search_s std_default_pos compare_call_s pfx_chars starts_with_s ends_with_s contains_s rel_s zth cstr_s.
