(* C04 refinement, part 2: insert (= append at the end + etl::rotate) and erase (= etl::rotate + shrink).
   The forward-iterator swap-cycle rotate of the library is the C06a model; its theorem rotate_correct
   turns it into a block exchange on the decomposed array. *)
From Tetl Require Import Lib.Base Lib.Arr C08.Model C04.Model C04.Spec C04.Inv C04.InvOps C04.RefineBase C04.RefineOps1.
From Coq Require Import ZifyBool.
Local Open Scope Z_scope.
Ltac Zify.zify_post_hook ::= Z.to_euclidean_division_equations.

Lemma take_drop (l : list Z) n : take n l ++ drop n l = l.
Proof. unfold take, drop. apply firstn_skipn. Qed.

Lemma zlen_take (l : list Z) n : 0 <= n <= zlen l -> zlen (take n l) = n.
Proof. apply zlen_firstn. Qed.

Lemma zlen_drop (l : list Z) n : 0 <= n <= zlen l -> zlen (drop n l) = zlen l - n.
Proof. apply zlen_skipn. Qed.

(* positions behind two equally long prefixes *)
Lemma znth_same_tail (q q' t : list Z) j : zlen q = zlen q' -> zlen q <= j -> znth (q ++ t) j = znth (q' ++ t) j.
Proof. intros H Hj. rewrite !znth_app_r by lia. rewrite H. reflexivity. Qed.

(** * insert_impl *)
Lemma insert_impl_ref s pos src count : inv s -> 0 <= pos <= get_size s -> 0 <= count <= zlen src ->
  get_size s + count <= cap s ->
  refines s (insert_impl_m s pos src count) (take pos (contents s) ++ take count src ++ drop pos (contents s)).
Proof.
  intros I Hpos Hcnt Hfit. unfold insert_impl_m. replace (pos >? get_size s) with false by lia.
  destruct (append_ptr_ref s src count I Hcnt Hfit) as (s1 & E1 & K1 & C1).
  rewrite E1. cbn [rbind].
  pose proof (keeps_inv _ _ K1) as I1. pose proof I1 as (Hc1 & Hl1 & Hs1 & Ht1).
  pose proof (contents_len s I) as L. pose proof (contents_len s1 I1) as L1.
  set (l := contents s) in *. set (x := take count src) in *.
  assert (Hx : zlen x = count) by (apply zlen_take; lia).
  rewrite C1, zlen_app, Hx, L in L1.
  set (p := take pos l). set (a := drop pos l).
  assert (Hp : zlen p = pos) by (apply zlen_take; lia).
  assert (Ha : zlen a = get_size s - pos) by (unfold a; rewrite zlen_drop; lia).
  set (t := skipn (Z.to_nat (get_size s1)) (buf s1)).
  assert (Eb : buf s1 = p ++ a ++ x ++ t).
  { rewrite (buf_split s1), C1. fold t. rewrite <- (take_drop l pos). fold p a. rewrite <- !app_assoc. reflexivity. }
  rewrite Eb.
  replace pos with (zlen p) at 1 by exact Hp.
  replace (get_size s) with (zlen p + zlen a) at 1 by lia.
  replace (get_size s1) with (zlen p + zlen a + zlen x) by lia.
  rewrite rotate_buf_app. cbn [rbind].
  assert (Hq : zlen (p ++ x ++ a) = zlen (p ++ a ++ x)) by (rewrite !zlen_app; lia).
  assert (Hq1 : zlen (p ++ a ++ x) = get_size s1) by (rewrite !zlen_app; lia).
  destruct (inv_with_buf s1 (p ++ x ++ a ++ t) I1) as (K2 & G2).
  - rewrite Eb. rewrite !zlen_app. lia.
  - rewrite Eb.
    replace (p ++ x ++ a ++ t) with ((p ++ x ++ a) ++ t) by (rewrite <- !app_assoc; reflexivity).
    replace (p ++ a ++ x ++ t) with ((p ++ a ++ x) ++ t) by (rewrite <- !app_assoc; reflexivity).
    apply znth_same_tail; lia.
  - rewrite <- Ht1, Eb.
    replace (p ++ x ++ a ++ t) with ((p ++ x ++ a) ++ t) by (rewrite <- !app_assoc; reflexivity).
    replace (p ++ a ++ x ++ t) with ((p ++ a ++ x) ++ t) by (rewrite <- !app_assoc; reflexivity).
    apply znth_same_tail; lia.
  - eexists. split; [reflexivity|]. split; [eapply keeps_trans; eassumption|].
    unfold contents. rewrite G2. cbn [with_buf buf].
    replace (p ++ x ++ a ++ t) with ((p ++ x ++ a) ++ t) by (rewrite <- !app_assoc; reflexivity).
    apply firstn_n_app. unfold zlen in *. lia.
Qed.

(** * insert(index, count, ch): count single-character inserts at the same index *)
Lemma repeat_shift (ch : Z) n (a : list Z) : repeat ch n ++ ch :: a = ch :: repeat ch n ++ a.
Proof. induction n as [|n IH]; cbn [repeat app]; [reflexivity|rewrite IH; reflexivity]. Qed.

Lemma insert_fill_loop_ref : forall n s index ch, inv s -> 0 <= index <= get_size s ->
  get_size s + Z.of_nat n <= cap s ->
  refines s (insert_fill_loop n s index ch) (take index (contents s) ++ repeat ch n ++ drop index (contents s)).
Proof.
  induction n as [|n IH]; intros s index ch I Hi Hfit; cbn [insert_fill_loop].
  - exists s. split; [reflexivity|]. split; [apply keeps_refl; exact I|]. cbn [repeat app]. symmetry. apply take_drop.
  - destruct (insert_impl_ref s index [ch] 1 I Hi) as (s1 & E1 & K1 & C1).
    { unfold zlen. cbn [length]. lia. }
    { lia. }
    rewrite E1. cbn [rbind].
    pose proof (keeps_inv _ _ K1) as I1. pose proof (contents_len s I) as L. pose proof (contents_len s1 I1) as L1.
    set (l := contents s) in *.
    change (take 1 [ch]) with [ch] in C1.
    assert (Hp : zlen (take index l) = index) by (apply zlen_take; lia).
    assert (Ha : zlen (drop index l) = get_size s - index) by (rewrite zlen_drop; lia).
    rewrite C1, !zlen_app, Hp, Ha in L1. change (zlen [ch]) with 1 in L1.
    destruct (IH s1 index ch I1) as (s' & E & K & C).
    { lia. }
    { rewrite (keeps_cap _ _ K1). lia. }
    exists s'. split; [exact E|]. split; [eapply keeps_trans; eassumption|].
    rewrite C, C1.
    assert (T : take index (take index l ++ [ch] ++ drop index l) = take index l).
    { unfold take at 1. apply firstn_n_app. unfold zlen in Hp. lia. }
    assert (D : drop index (take index l ++ [ch] ++ drop index l) = [ch] ++ drop index l).
    { unfold drop at 1. apply skipn_n_app. unfold zlen in Hp. lia. }
    rewrite T, D. cbn [repeat app]. rewrite repeat_shift. reflexivity.
Qed.

Lemma insert_fill_ref s index count ch : inv s -> 0 <= index <= get_size s -> 0 <= count ->
  get_size s + count <= cap s ->
  refines s (insert_fill_m s index count ch) (take index (contents s) ++ rep count ch ++ drop index (contents s)).
Proof.
  intros I Hi Hc Hfit. unfold insert_fill_m, rep. replace (index >? get_size s) with false by lia.
  apply insert_fill_loop_ref; [exact I|exact Hi|lia].
Qed.

(** * erase *)
Lemma erase_range_ref s start d : inv s -> 0 <= start -> 0 <= d -> start + d <= get_size s ->
  refines s (erase_range_m s start d) (take start (contents s) ++ drop (start + d) (contents s)).
Proof.
  intros I Hs Hd Hfit. pose proof I as (Hc & Hl & Hsz & _). unfold cap_ok in Hc.
  pose proof (contents_len s I) as L.
  unfold erase_range_m. replace (start <=? get_size s) with true by lia.
  rewrite (sz_id (get_size s - start)) by lia. replace (d <=? get_size s - start) with true by lia.
  rewrite (sz_id (start + d)) by lia. rewrite (sz_id (get_size s - d)) by lia.
  set (l := contents s) in *.
  set (p := take start l). set (a := take d (drop start l)). set (b := drop (start + d) l).
  set (t := skipn (Z.to_nat (get_size s)) (buf s)).
  assert (Hp : zlen p = start) by (apply zlen_take; lia).
  assert (Ha : zlen a = d) by (unfold a; rewrite zlen_take; [lia|rewrite zlen_drop; lia]).
  assert (Hb : zlen b = get_size s - start - d) by (unfold b; rewrite zlen_drop; lia).
  assert (El : l = p ++ a ++ b).
  { rewrite <- (take_drop l start) at 1. fold p. f_equal.
    rewrite <- (take_drop (drop start l) d) at 1. fold a. f_equal.
    unfold b, drop. rewrite skipn_skipn. f_equal. lia. }
  assert (Eb : buf s = p ++ a ++ b ++ t).
  { rewrite (buf_split s). fold l t. rewrite El at 1. rewrite <- !app_assoc. reflexivity. }
  rewrite Eb at 1.
  replace start with (zlen p) at 1 by exact Hp.
  replace (start + d) with (zlen p + zlen a) at 1 by lia.
  replace (get_size s) with (zlen p + zlen a + zlen b) at 1 by lia.
  rewrite rotate_buf_app. cbn [rbind].
  destruct (finish_ok s (p ++ b ++ a ++ t) (get_size s - d) I) as (s' & E & K & _ & C).
  { rewrite <- Hl, Eb, !zlen_app. lia. }
  { lia. }
  exists s'. split; [exact E|]. split; [exact K|]. rewrite C.
  replace (p ++ b ++ a ++ t) with ((p ++ b) ++ a ++ t) by (rewrite <- !app_assoc; reflexivity).
  apply firstn_n_app. rewrite app_length. unfold zlen in *. lia.
Qed.

Lemma erase_ref s index count : inv s -> 0 <= index <= get_size s -> 0 <= count ->
  refines s (erase_m s index count)
    (take index (contents s) ++ drop (index + Z.min count (get_size s - index)) (contents s)).
Proof.
  intros I Hi Hc. pose proof I as (Hcap & _ & Hsz & _). unfold cap_ok in Hcap.
  unfold erase_m. replace (index <=? get_size s) with true by lia.
  rewrite (sz_id (get_size s - index)) by lia. rewrite min_sz_min.
  apply erase_range_ref; [exact I|lia|lia|lia].
Qed.
