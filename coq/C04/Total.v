(* C04: outcome of EVERY call — for every state satisfying the invariant and every argument, a mutator either
   returns a state satisfying the invariant (possibly after clamping to the capacity) or stops at a
   TETL_PRECONDITION, and it does the latter exactly when the documented precondition [pre_ok] is false.
   It never performs an out-of-bounds access ([UB]) and no loop runs out of fuel. *)
From Tetl Require Import Lib.Base Lib.Arr C08.Model C04.Model C04.Spec C04.Inv C04.CstrFacts C04.InvOps
  C04.RefineBase C04.RefineOps1 C04.RefineOps2 C04.RefineOps3.
From Coq Require Import ZifyBool.
Local Open Scope Z_scope.
Ltac Zify.zify_post_hook ::= Z.to_euclidean_division_equations.

Definition returns (s : istr) (r : res istr) : Prop := exists s', r = Ok s' /\ keeps s s'.

Lemma refines_returns s r l : refines s r l -> returns s r.
Proof. intros (s' & E & K & _). exists s'. tauto. Qed.

(** * the appending operations clamp to the room that is left *)
Lemma append_fill_clamp s count ch : inv s -> 0 <= count < 18446744073709551616 ->
  append_fill_m s count ch = append_fill_m s (Z.min count (cap s - get_size s)) ch.
Proof.
  intros (Hc & _ & Hs & _) Hcnt. unfold cap_ok in Hc. unfold append_fill_m.
  rewrite (sz_id (cap s - get_size s)) by lia. rewrite !min_sz_min. rewrite Z.min_l with (n := Z.min _ _) by lia.
  reflexivity.
Qed.

Lemma append_fill_total s count ch : inv s -> 0 <= count < 18446744073709551616 ->
  refines s (append_fill_m s count ch) (contents s ++ rep (Z.min count (cap s - get_size s)) ch).
Proof.
  intros I Hcnt. pose proof I as (_ & _ & Hs & _). rewrite append_fill_clamp by assumption.
  apply append_fill_ref; [exact I|lia|lia].
Qed.

Lemma append_ptr_clamp s src count : inv s -> 0 <= count < 18446744073709551616 ->
  append_ptr_m s src count = append_ptr_m s src (Z.min count (cap s - get_size s)).
Proof.
  intros (Hc & _ & Hs & _) Hcnt. unfold cap_ok in Hc. unfold append_ptr_m.
  rewrite (sz_id (cap s - get_size s)) by lia. rewrite !min_sz_min. rewrite Z.min_l with (n := Z.min _ _) by lia.
  reflexivity.
Qed.

Lemma append_ptr_total s src count : inv s -> 0 <= count < 18446744073709551616 -> count <= zlen src ->
  refines s (append_ptr_m s src count) (contents s ++ take (Z.min count (cap s - get_size s)) src).
Proof.
  intros I Hcnt Hsrc. pose proof I as (_ & _ & Hs & _). rewrite append_ptr_clamp by assumption.
  apply append_ptr_ref; [exact I|lia|lia].
Qed.

Lemma size_of_refines s r l : inv s -> refines s r l -> exists s', r = Ok s' /\ keeps s s' /\ get_size s' = zlen l.
Proof.
  intros I (s' & E & K & C). exists s'. split; [exact E|]. split; [exact K|].
  rewrite <- C. symmetry. apply contents_len. apply (keeps_inv _ _ K).
Qed.

(** * append(first, last): one push_back each; the first one without room stops at its precondition *)
Lemma push_back_loop_outcome : forall l s, inv s ->
  if get_size s + zlen l <=? cap s then returns s (push_back_loop_m s l) else push_back_loop_m s l = Contract.
Proof.
  induction l as [|x l IH]; intros s I; pose proof I as (_ & _ & Hs & _).
  - change (zlen []) with 0. replace (get_size s + 0 <=? cap s) with true by lia.
    exists s. split; [reflexivity|apply keeps_refl; exact I].
  - assert (Hl : zlen (x :: l) = zlen l + 1) by (unfold zlen; cbn [length]; lia).
    pose proof (zlen_nonneg l) as Hnn. cbn [push_back_loop_m].
    destruct (Z_lt_le_dec (get_size s) (cap s)) as [Hroom|Hfull].
    + destruct (size_of_refines s _ _ I (push_back_ref s x I ltac:(lia))) as (s1 & E1 & K1 & G1).
      rewrite E1. cbn [rbind]. rewrite zlen_app, (contents_len s I) in G1. change (zlen [x]) with 1 in G1.
      specialize (IH s1 (keeps_inv _ _ K1)). rewrite G1, (keeps_cap _ _ K1) in IH.
      replace (get_size s + zlen (x :: l) <=? cap s) with (get_size s + 1 + zlen l <=? cap s) by (rewrite Hl; f_equal; lia).
      destruct (get_size s + 1 + zlen l <=? cap s).
      * destruct IH as (s' & E & K). exists s'. split; [exact E|eapply keeps_trans; eassumption].
      * exact IH.
    + replace (get_size s + zlen (x :: l) <=? cap s) with false by lia.
      unfold push_back_m. replace (get_size s <? cap s) with false by lia. reflexivity.
Qed.

(* random access iterators: the range that does not fit is reported up front; other iterators: by the first push_back
   without room — the outcome is the same *)
Lemma append_range_cat_outcome ra l s : inv s ->
  if get_size s + zlen l <=? cap s then returns s (append_range_cat_m ra s l) else append_range_cat_m ra s l = Contract.
Proof.
  intros I. pose proof I as (Hc & _ & Hs & _). unfold cap_ok in Hc. pose proof (push_back_loop_outcome l s I) as H.
  unfold append_range_cat_m. destruct ra; [|exact H]. rewrite (sz_id (cap s - get_size s)) by lia.
  destruct (get_size s + zlen l <=? cap s) eqn:E.
  - replace (zlen l <=? cap s - get_size s) with true by lia. exact H.
  - replace (zlen l <=? cap s - get_size s) with false by lia. reflexivity.
Qed.

Lemma append_range_cat_same s l : inv s -> append_range_cat_m false s l = append_range_cat_m true s l.
Proof.
  intros I. pose proof (append_range_cat_outcome false l s I) as H1. pose proof (append_range_cat_outcome true l s I) as H2.
  pose proof I as (Hc & _ & Hs & _). unfold cap_ok in Hc.
  destruct (get_size s + zlen l <=? cap s) eqn:E.
  - unfold append_range_cat_m. rewrite (sz_id (cap s - get_size s)) by lia.
    replace (zlen l <=? cap s - get_size s) with true by lia. reflexivity.
  - rewrite H1, H2. reflexivity.
Qed.

Lemma append_range_outcome l s : inv s ->
  if get_size s + zlen l <=? cap s then returns s (append_range_m s l) else append_range_m s l = Contract.
Proof. apply append_range_cat_outcome. Qed.

(** * insert: the guard, then append (clamped) and rotate *)
Lemma insert_impl_clamp s pos src count : inv s -> 0 <= count < 18446744073709551616 ->
  insert_impl_m s pos src count = insert_impl_m s pos src (Z.min count (cap s - get_size s)).
Proof. intros I Hcnt. unfold insert_impl_m. rewrite (append_ptr_clamp s src count I Hcnt). reflexivity. Qed.

Lemma insert_impl_total s pos src count : inv s -> 0 <= pos <= get_size s -> 0 <= count < 18446744073709551616 ->
  count <= zlen src -> returns s (insert_impl_m s pos src count).
Proof.
  intros I Hp Hcnt Hsrc. pose proof I as (_ & _ & Hs & _). rewrite insert_impl_clamp by assumption.
  eapply refines_returns. apply insert_impl_ref; [exact I|exact Hp|lia|lia].
Qed.

Lemma insert_impl_guard s pos src count : pos > get_size s -> insert_impl_m s pos src count = Contract.
Proof. intros H. unfold insert_impl_m. replace (pos >? get_size s) with true by lia. reflexivity. Qed.

Lemma get_size_mono_insert s pos src count s' : inv s -> 0 <= pos <= get_size s -> 0 <= count < 18446744073709551616 ->
  count <= zlen src -> insert_impl_m s pos src count = Ok s' -> get_size s <= get_size s'.
Proof.
  intros I Hp Hcnt Hsrc H. pose proof I as (_ & _ & Hs & _). rewrite insert_impl_clamp in H by assumption.
  destruct (insert_impl_ref s pos src (Z.min count (cap s - get_size s)) I Hp ltac:(lia) ltac:(lia)) as (s1 & E & K & C).
  rewrite E in H. inversion H; subst s1.
  rewrite <- (contents_len s' (keeps_inv _ _ K)), C, !zlen_app.
  pose proof (contents_len s I) as L. rewrite zlen_take, zlen_take, zlen_drop by lia. lia.
Qed.

Lemma insert_fill_loop_total : forall n s index ch, inv s -> 0 <= index <= get_size s ->
  returns s (insert_fill_loop n s index ch).
Proof.
  induction n as [|n IH]; intros s index ch I Hi; cbn [insert_fill_loop].
  - exists s. split; [reflexivity|apply keeps_refl; exact I].
  - assert (H1 : 1 <= zlen [ch]) by (unfold zlen; cbn [length]; lia).
    destruct (insert_impl_total s index [ch] 1 I Hi ltac:(lia) H1) as (s1 & E1 & K1).
    rewrite E1. cbn [rbind].
    pose proof (get_size_mono_insert s index [ch] 1 s1 I Hi ltac:(lia) H1 E1) as Hm.
    destruct (IH s1 index ch (keeps_inv _ _ K1) ltac:(lia)) as (s' & E & K).
    exists s'. split; [exact E|eapply keeps_trans; eassumption].
Qed.

(** * constructors *)
Lemma ctor_ptr_outcome c ck src len : cap_ok c -> 0 <= len <= zlen src ->
  if len <=? c then exists s', ctor_ptr c ck src len = Ok s' /\ inv s' /\ cap s' = c /\ ckind s' = ck /\ contents s' = take len src
  else ctor_ptr c ck src len = Contract.
Proof.
  intros Hc Hlen. destruct (len <=? c) eqn:E.
  - apply ctor_ptr_ref; [exact Hc|exact Hlen|lia].
  - unfold ctor_ptr. rewrite E. reflexivity.
Qed.

Lemma ctor_fill_outcome c ck count ch : cap_ok c -> 0 <= count ->
  if count <=? c then exists s', ctor_fill c ck count ch = Ok s' /\ inv s' /\ cap s' = c /\ ckind s' = ck
  else ctor_fill c ck count ch = Contract.
Proof.
  intros Hc Hcnt. destruct (count <=? c) eqn:E.
  - destruct (ctor_fill_ref c ck count ch Hc ltac:(lia)) as (s' & E' & I' & C' & K' & _). exists s'. tauto.
  - unfold ctor_fill. rewrite E. reflexivity.
Qed.

Lemma returns_of_ctor s r s' : r = Ok s' -> inv s' -> cap s' = cap s -> ckind s' = ckind s -> returns s r.
Proof. intros -> I C K. exists s'. split; [reflexivity|unfold keeps; tauto]. Qed.

(** * the documented precondition of each operation, as a decidable test on the state and the arguments *)
Definition sub_len (src : list Z) (pos count : Z) : Z := Z.min count (zlen src - pos).
Definition cstr_len (a : list Z) : Z := match s_cstr a with Some l => zlen l | None => 0 end.

Definition pre_ok (s : istr) (o : op) : bool :=
  let size := get_size s in
  match o with
  | OClear | OAppendFill _ _ | OAppendPtr _ _ | OResize _ _ | OSubstr _ _ | OAppendCstr _
  | OFreeErase _ | OFreeEraseIf _ => true
  | OPushBack _ => size <? cap s
  | OPopBack => negb (size =? 0)
  | OAppendRange src => size + zlen src <=? cap s
  | OInsertPtr index _ _ | OInsertFill index _ _ | OInsertCstr index _ => index <=? size
  | OErase index _ => index <=? size
  | OEraseRange start distance => (start <=? size) && (distance <=? size - start)
  | OAssignPtr _ count | OAssignFill count _ => count <=? cap s
  | OSwapWith src => zlen src <=? cap s
  | OAppendStr src => (zlen src <=? cap s) && (size + zlen src <=? cap s)
  | OAppendStrSub src pos count =>
      (zlen src <=? cap s) && ((pos >? zlen src) || (size + sub_len src pos count <=? cap s))
  | OAppendViewSub src pos _ => pos <=? zlen src
  | OAssignCstr a => cstr_len a <=? cap s
  | OAssignStrSub src _ _ => zlen src <=? cap s
  | OAssignViewSub src pos count => (pos <=? zlen src) && (sub_len src pos count <=? cap s)
  | OInsertStrSub index src indexStr _ => (index <=? size) && (indexStr <=? zlen src)
  | OErasePos pos => pos <? size
  | OAppendRangeIn src => size + zlen src <=? cap s
  end.

(* pointer arguments are readable: (s, count) stays inside the array s points into *)
Definition ptr_ok (o : op) : Prop :=
  match o with
  | OAppendPtr src count | OInsertPtr _ src count | OAssignPtr src count => count <= zlen src
  | OAppendViewSub src _ _ | OAssignViewSub src _ _ | OInsertStrSub _ src _ _ => zlen src < 9223372036854775808
  | _ => True
  end.

Lemma substr_total s pos count : inv s -> 0 <= pos -> 0 <= count ->
  exists s', substr_m s pos count = Ok s' /\ keeps s s' /\
    zlen (contents s') = if pos >? get_size s then 0 else Z.min count (get_size s - pos).
Proof.
  intros I Hp Hc. pose proof I as (Hcap & _ & Hs & _). pose proof (contents_len s I) as L.
  destruct (pos >? get_size s) eqn:E.
  - unfold substr_m. rewrite E. destruct (inv_default (cap s) (ckind s) Hcap) as (I0 & G0).
    destruct (default_cap (cap s) (ckind s)) as (C0 & K0).
    exists (default_str (cap s) (ckind s)). split; [reflexivity|]. split; [unfold keeps; tauto|].
    rewrite (contents_len _ I0). exact G0.
  - destruct (substr_ref s pos count I ltac:(lia) Hc) as (s' & E' & K & C).
    exists s'. split; [exact E'|]. split; [exact K|]. rewrite C.
    rewrite zlen_take; [reflexivity|]. rewrite zlen_drop by lia. lia.
Qed.

Lemma contents_nonempty s : inv s -> 0 < get_size s -> contents s <> [].
Proof.
  intros I H E. pose proof (contents_len s I) as L. rewrite E in L. change (zlen []) with 0 in L. lia.
Qed.

Theorem step_outcome s o : inv s -> op_wf o -> ptr_ok o ->
  if pre_ok s o then returns s (step s o) else step s o = Contract.
Proof.
  intros I W P. pose proof I as (Hcap & Hbl & Hs & _). pose proof Hcap as Hcap'. unfold cap_ok in Hcap'.
  pose proof (contents_len s I) as L.
  destruct o; cbn [step pre_ok op_wf ptr_ok] in *; unfold szt in W.
  - (* clear *) eapply refines_returns. apply clear_ref. exact I.
  - (* push_back *) destruct (get_size s <? cap s) eqn:E.
    + eapply refines_returns. apply push_back_ref; [exact I|lia].
    + unfold push_back_m. rewrite E. reflexivity.
  - (* pop_back *) destruct (get_size s =? 0) eqn:E; cbn [negb].
    + unfold pop_back_m. rewrite E. reflexivity.
    + eapply refines_returns. apply pop_back_ref; [exact I|]. apply contents_nonempty; [exact I|lia].
  - (* append(count, ch) *) eapply refines_returns. apply append_fill_total; [exact I|lia].
  - (* append(ptr, count) *) eapply refines_returns. apply append_ptr_total; [exact I|lia|exact P].
  - (* append(first, last) *) apply append_range_outcome. exact I.
  - (* insert(index, ptr, count) *) destruct W as (W1 & W2). destruct (index <=? get_size s) eqn:E.
    + apply insert_impl_total; [exact I|lia|lia|exact P].
    + apply insert_impl_guard. lia.
  - (* insert(index, count, ch) *) destruct W as (W1 & W2). unfold insert_fill_m. destruct (index <=? get_size s) eqn:E.
    + replace (index >? get_size s) with false by lia. apply insert_fill_loop_total; [exact I|lia].
    + replace (index >? get_size s) with true by lia. reflexivity.
  - (* erase(index, count) *) destruct W as (W1 & W2). destruct (index <=? get_size s) eqn:E.
    + eapply refines_returns. apply erase_ref; [exact I|lia|lia].
    + unfold erase_m. rewrite E. reflexivity.
  - (* erase(first, last) *) destruct W as (W1 & W2).
    destruct (start <=? get_size s) eqn:E1; cbn [andb].
    + destruct (distance <=? get_size s - start) eqn:E2.
      * eapply refines_returns. apply erase_range_ref; [exact I|lia|lia|lia].
      * unfold erase_range_m. rewrite E1. rewrite (sz_id (get_size s - start)) by lia. rewrite E2. reflexivity.
    + unfold erase_range_m. rewrite E1. reflexivity.
  - (* resize *) destruct (Z_le_gt_dec count (cap s)) as [Hle|Hgt].
    + eapply refines_returns. apply resize_ref; [exact I|lia].
    + unfold resize_m. replace (get_size s >? count) with false by lia. cbn [rbind].
      replace (get_size s <? count) with true by lia.
      eapply refines_returns. apply append_fill_total; [exact I|]. unfold sz. lia.
  - (* assign(ptr, count) *)
    pose proof (ctor_ptr_outcome (cap s) (ckind s) src count Hcap ltac:(lia)) as H. destruct (count <=? cap s).
    + destruct H as (s' & E & I' & C' & K' & _). exact (returns_of_ctor s _ s' E I' C' K').
    + exact H.
  - (* assign(count, ch) *)
    pose proof (ctor_fill_outcome (cap s) (ckind s) count ch Hcap ltac:(lia)) as H. destruct (count <=? cap s).
    + destruct H as (s' & E & I' & C' & K'). exact (returns_of_ctor s _ s' E I' C' K').
    + exact H.
  - (* substr *) destruct W as (W1 & W2). destruct (substr_total s pos count I ltac:(lia) ltac:(lia)) as (s' & E & K & _).
    exists s'. tauto.
  - (* swap *)
    pose proof (ctor_ptr_outcome (cap s) (ckind s) src (zlen src) Hcap ltac:(pose proof (zlen_nonneg src); lia)) as H.
    destruct (zlen src <=? cap s).
    + destruct H as (o & E & Io & Co & Ko & _). rewrite E. cbn [rbind].
      destruct (swap_ref s o I Io Co) as (a' & b' & Es & Ka & _ & _ & _). rewrite Es. cbn [rbind fst]. exists a'. tauto.
    + rewrite H. reflexivity.
  - (* append(s) *)
    destruct (strlen_szt a W) as (l & El & E & Hl). pose proof W as (_ & Hb).
    destruct (strlen_ok a l W El) as (_ & _ & Hr). unfold append_cstr_m. rewrite E. cbn [rbind].
    eapply refines_returns. apply append_ptr_total; [exact I|unfold szt in Hl; lia|lia].
  - (* append(str) *)
    unfold append_str_m. destruct (zlen src <=? cap s) eqn:E; cbn [andb].
    + destruct (other_str_ref s src I ltac:(lia)) as (o & Eo & Io & Co & Ko & Cn). rewrite Eo. cbn [rbind]. rewrite Cn.
      apply append_range_outcome. exact I.
    + unfold other_str, ctor_ptr. rewrite E. reflexivity.
  - (* append(str, pos, count) *)
    destruct W as (W1 & W2). unfold append_str_sub_m. destruct (zlen src <=? cap s) eqn:E; cbn [andb].
    + destruct (other_str_ref s src I ltac:(lia)) as (o & Eo & Io & Co & Ko & Cn). rewrite Eo. cbn [rbind].
      pose proof (contents_len o Io) as Lo. rewrite Cn in Lo.
      destruct (substr_total o pos count Io ltac:(lia) ltac:(lia)) as (sub & Es & _ & Hz). rewrite Es. cbn [rbind].
      rewrite <- Lo in Hz. pose proof (append_range_outcome (contents sub) s I) as H. rewrite Hz in H.
      unfold sub_len. destruct (pos >? zlen src); cbn [orb].
      * replace (get_size s + 0 <=? cap s) with true in H by lia. exact H.
      * exact H.
    + unfold other_str, ctor_ptr. rewrite E. reflexivity.
  - (* append(view, pos, count) *)
    destruct W as (W1 & W2). unfold append_view_sub_m. destruct (pos <=? zlen src) eqn:E.
    + destruct (arr_substr_ok src pos count P ltac:(lia) ltac:(lia)) as (sub & Es & Hv & _ & Hz). rewrite Es. cbn [rbind].
      eapply refines_returns. apply append_ptr_total; [exact I| |lia].
      rewrite Hv. pose proof (zlen_nonneg src). lia.
    + unfold C08.Model.substr_m, arr_view. cbn [vlen]. rewrite E. reflexivity.
  - (* assign(s) *)
    destruct (strlen_szt a W) as (l & El & E & Hl). destruct (strlen_ok a l W El) as (_ & _ & Hr).
    unfold assign_cstr_m, cstr_len. rewrite E, El. cbn [rbind].
    pose proof (ctor_ptr_outcome (cap s) (ckind s) a (zlen l) Hcap ltac:(lia)) as H. destruct (zlen l <=? cap s).
    + destruct H as (s' & E' & I' & C' & K' & _). exact (returns_of_ctor s _ s' E' I' C' K').
    + exact H.
  - (* assign(str, pos, count) *)
    destruct W as (W1 & W2). unfold assign_str_sub_m. destruct (zlen src <=? cap s) eqn:E.
    + destruct (other_str_ref s src I ltac:(lia)) as (o & Eo & Io & Co & Ko & Cn). rewrite Eo. cbn [rbind].
      destruct (substr_total o pos count Io ltac:(lia) ltac:(lia)) as (s' & Es & (I' & C' & K') & _).
      apply (returns_of_ctor s _ s' Es I'); congruence.
    + unfold other_str, ctor_ptr. rewrite E. reflexivity.
  - (* assign(view, pos, count) *)
    destruct W as (W1 & W2). unfold assign_view_sub_m. destruct (pos <=? zlen src) eqn:E; cbn [andb].
    + destruct (arr_substr_ok src pos count P ltac:(lia) ltac:(lia)) as (sub & Es & Hv & _ & Hz). rewrite Es. cbn [rbind].
      unfold sub_len. rewrite <- Hv. destruct (vlen sub <=? cap s) eqn:E2.
      * destruct (ctor_range_ref true (cap s) (ckind s) (view_chars_m sub) Hcap ltac:(lia)) as (s' & E' & I' & C' & K' & _).
        exact (returns_of_ctor s _ s' E' I' C' K').
      * apply ctor_range_contract; [exact Hcap|lia].
    + unfold C08.Model.substr_m, arr_view. cbn [vlen]. rewrite E. reflexivity.
  - (* insert(index, s) *)
    destruct W as (W1 & W2). unfold insert_cstr_m. destruct (index <=? get_size s) eqn:E.
    + replace (index >? get_size s) with false by lia.
      destruct (strlen_szt a W2) as (l & El & Es & Hl). destruct (strlen_ok a l W2 El) as (_ & _ & Hr).
      rewrite Es. cbn [rbind]. apply insert_impl_total; [exact I|lia|unfold szt in Hl; lia|lia].
    + replace (index >? get_size s) with true by lia. reflexivity.
  - (* insert(index, str/view, indexStr, count) *)
    destruct W as (W1 & W2 & W3). unfold insert_str_sub_m. destruct (index <=? get_size s) eqn:E; cbn [andb].
    + replace (index >? get_size s) with false by lia. destruct (indexStr <=? zlen src) eqn:E2.
      * destruct (arr_substr_ok src indexStr count P ltac:(lia) ltac:(lia)) as (sub & Es & Hv & _ & Hz). rewrite Es. cbn [rbind].
        apply insert_impl_total; [exact I|lia| |lia]. rewrite Hv. pose proof (zlen_nonneg src). lia.
      * unfold C08.Model.substr_m, arr_view. cbn [vlen]. rewrite E2. reflexivity.
    + replace (index >? get_size s) with true by lia. reflexivity.
  - (* erase(position) *)
    unfold erase_pos_m. destruct (pos <? get_size s) eqn:E.
    + eapply refines_returns. apply erase_pos_ref; [exact I|lia].
    + unfold erase_range_m. destruct (pos <=? get_size s) eqn:E1; [|reflexivity].
      rewrite (sz_id (get_size s - pos)) by lia. replace (1 <=? get_size s - pos) with false by lia. reflexivity.
  - (* etl::erase *)
    destruct (free_erase_if_ref (fun x => x =? value) s I) as (s' & n & E & K & _). rewrite E. cbn [rbind fst]. exists s'. tauto.
  - (* etl::erase_if *)
    destruct (free_erase_if_ref (pred_of k) s I) as (s' & n & E & K & _). rewrite E. cbn [rbind fst]. exists s'. tauto.
  - (* append(first, last), iterators that are not random access *) apply append_range_cat_outcome. exact I.
Qed.

(* in particular: no operation ever performs an out-of-bounds access or runs out of fuel *)
Corollary step_never_ub s o : inv s -> op_wf o -> ptr_ok o ->
  (exists s', step s o = Ok s' /\ keeps s s') \/ step s o = Contract.
Proof.
  intros I W P. pose proof (step_outcome s o I W P) as H. destruct (pre_ok s o); [left|right]; exact H.
Qed.

Theorem run_never_ub : forall ops s, inv s -> Forall op_wf ops -> Forall ptr_ok ops ->
  (exists s', run s ops = Ok s' /\ keeps s s') \/ run s ops = Contract.
Proof.
  induction ops as [|o ops IH]; intros s I W P; cbn [run].
  - left. exists s. split; [reflexivity|apply keeps_refl; exact I].
  - inversion W as [|? ? Wo Wr]; subst. inversion P as [|? ? Po Pr]; subst.
    destruct (step_never_ub s o I Wo Po) as [(s1 & E & K)|E]; rewrite E; cbn [rbind]; [|right; reflexivity].
    destruct (IH s1 (keeps_inv _ _ K) Wr Pr) as [(s' & E' & K')|E']; [left|right; exact E'].
    exists s'. split; [exact E'|eapply keeps_trans; eassumption].
Qed.
