(* C04: the two recorded known findings, as theorems about the faithful model (witnesses by computation).
   Both behaviours are pinned by tests/string, so they are recorded instead of repaired. *)
From Tetl Require Import Lib.Base C08.Model C08.Spec C08.Core C04.Model C04.Spec C04.Inv.
Local Open Scope Z_scope.


(* KF-C04-replace-inplace: "abcdef".replace(1, 2, "xyz") overwrites two characters in place ("axydef");
   std::string gives "axyzdef" *)
Definition w_abcdef : istr := mkstr 8 CChar [97; 98; 99; 100; 101; 102; 0; 0; 2] 0.   (* "abcdef", capacity 8 *)
Definition w_axydef : istr := mkstr 8 CChar [97; 120; 121; 100; 101; 102; 0; 0; 2] 0.
Definition w_abab : istr := mkstr 8 CChar [97; 98; 97; 98; 0; 0; 0; 0; 4] 0.             (* "abab", capacity 8 *)

Lemma witnesses_reachable :
  ctor_ptr 8 CChar [97; 98; 99; 100; 101; 102] 6 = Ok w_abcdef /\ ctor_ptr 8 CChar [97; 98; 97; 98] 4 = Ok w_abab.
Proof. split; vm_compute; reflexivity. Qed.

Lemma replace_refuted :
  exists s pos count src s', inv s /\ replace_m s pos count src = Ok s' /\
    Some (contents s') <> s_replace (contents s) pos count src.
Proof.
  exists w_abcdef, 1, 2, [120; 121; 122], w_axydef. split; [|split].
  - unfold inv, cap_ok. vm_compute. repeat split; discriminate.
  - vm_compute. reflexivity.
  - vm_compute. discriminate.
Qed.

(* KF-C04-rfind-default: rfind(str) without a position uses pos = 0 (the header's default);
   std::basic_string::rfind defaults to npos: "abab".rfind("ab") = 0 instead of 2 *)
Lemma rfind_default_refuted :
  exists s n, inv s /\ view_ok n /\
    str_rfind_default_m s n <> Ok (rfind_s (contents s) (vchars n) npos).
Proof.
  exists w_abab, (mkview [97; 98] 0 2). split; [|split].
  - unfold inv, cap_ok. vm_compute. repeat split; discriminate.
  - unfold view_ok, len. cbn. lia.
  - vm_compute. discriminate.
Qed.
