(* C04 refinement, part 3: every overload of the const members answers like std::basic_string on the
   contents.  The members work on basic_string_view(data(), size()); the invariant makes that a valid view
   whose characters are the contents, and the C08 theorems about the view model do the rest.  What is
   specific to inplace_string — the extra argument checks of strings::find and find_first_of, the
   "count > size() - pos ? size() : count" clamps of compare, the forwarding of each overload — is proved here. *)
From Tetl Require Import Lib.Base Lib.Arr C08.Model C08.Spec C08.Core C08.ProofsFind C08.ProofsCmp
  C08.ProofsRfind C08.ProofsPtr C04.Model C04.ModelQ C04.Spec C04.SpecQ C04.QueryOk C04.Inv C04.InvOps C04.RefineBase.
From Coq Require Import ZifyBool.
Local Open Scope Z_scope.
Ltac Zify.zify_post_hook ::= Z.to_euclidean_division_equations.

Lemma view_chars_eq v : view_chars v = vchars v.
Proof. reflexivity. Qed.

(** * the view of a string *)
Lemma view_of_ok s : inv s -> view_ok (view_of s) /\ vchars (view_of s) = contents s.
Proof.
  intros (Hc & Hl & Hs & _). unfold cap_ok in Hc. split.
  - unfold view_ok, view_of, len. cbn [voff vlen vbuf]. unfold zlen in Hl. lia.
  - reflexivity.
Qed.

Lemma view_of_len s : vlen (view_of s) = get_size s.
Proof. reflexivity. Qed.

(** * the six search families, view-like needle *)
Lemma str_find_correct s n pos : inv s -> view_ok n -> pos_ok pos ->
  str_find_m s n pos = Ok (find_s (contents s) (vchars n) pos).
Proof.
  intros I Hn Hp. destruct (view_of_ok s I) as (Hh & Hch). rewrite <- Hch.
  rewrite <- (find_correct (view_of s) n pos Hh Hn Hp).
  pose proof Hh as (_ & H1 & _). pose proof Hn as (_ & N1 & _). unfold pos_ok in Hp.
  unfold str_find_m, find_m. set (h := view_of s) in *.
  destruct (vlen n =? 0) eqn:E0.
  - destruct (pos <=? vlen h) eqn:E1; cbn [andb]; [reflexivity|].
    replace (vlen n) with 0 by lia. rewrite Z.sub_0_r. rewrite sz_small by lia. rewrite E1. reflexivity.
  - cbn [andb]. destruct (pos <=? sz (vlen h - vlen n)) eqn:E1; [reflexivity|].
    replace ((pos >? vlen h) || (vlen n >? sz (vlen h - pos))) with true; [reflexivity|].
    symmetry. apply orb_true_iff. destruct (Z_le_gt_dec pos (vlen h)) as [Hle|Hgt]; [right|left; lia].
    rewrite (sz_small (vlen h - pos)) by lia.
    destruct (Z_le_gt_dec (vlen n) (vlen h)) as [Hn'|Hn'].
    + rewrite sz_small in E1 by lia. lia.
    + lia.
Qed.

Lemma for_up_stop {A} fuel (cond : Z -> bool) (body : Z -> res (option A)) i :
  cond i = false -> for_up (S fuel) cond body i = Ok None.
Proof. intros H. cbn [for_up]. rewrite H. reflexivity. Qed.

Lemma str_find_first_of_correct s n pos : inv s -> view_ok n -> pos_ok pos ->
  str_find_first_of_m s n pos = Ok (find_first_of_s (contents s) (vchars n) pos).
Proof.
  intros I Hn Hp. destruct (view_of_ok s I) as (Hh & Hch). rewrite <- Hch.
  rewrite <- (find_first_of_correct (view_of s) n pos Hh Hn Hp).
  unfold str_find_first_of_m. destruct (pos <? get_size s) eqn:E; [reflexivity|].
  unfold find_first_of_m, fuel_of. rewrite for_up_stop by (rewrite view_of_len; exact E). reflexivity.
Qed.

Lemma search_view_correct f s n pos : inv s -> view_ok n -> pos_ok pos ->
  search_view_m f s n pos = Ok (search_s f (contents s) (vchars n) pos).
Proof.
  intros I Hn Hp. destruct (view_of_ok s I) as (Hh & Hch).
  destruct f; cbn [search_view_m search_s].
  - apply str_find_correct; assumption.
  - unfold str_rfind_m. rewrite <- Hch. apply rfind_correct; assumption.
  - apply str_find_first_of_correct; assumption.
  - unfold str_find_first_not_of_m. rewrite <- Hch. apply find_first_not_of_correct; assumption.
  - unfold str_find_last_of_m. rewrite <- Hch. apply find_last_of_correct; assumption.
  - unfold str_find_last_not_of_m. rewrite <- Hch. apply find_last_not_of_correct; assumption.
Qed.

(* every overload of every family *)
Theorem search_correct f s n pos : inv s -> needle_ok n -> pos_ok pos ->
  search_m f s n pos = Ok (search_s f (contents s) (needle_chars n) pos).
Proof.
  intros I Hn Hp. destruct (view_of_ok s I) as (Hh & Hch).
  destruct n as [v|a count|a|c]; cbn [search_m needle_chars needle_ok] in *; rewrite ?view_chars_eq.
  - apply search_view_correct; assumption.
  - destruct Hn as (Ha & Hc). destruct (ptr_view_spec a count Ha Hc) as (Hok & Hpv).
    rewrite <- Hpv. apply search_view_correct; assumption.
  - destruct (with_cstr_spec a (fun v => search_view_m f s v pos) Hn) as (v & E & Hok & Hcv).
    rewrite E, <- Hcv. apply search_view_correct; assumption.
  - destruct f; cbn [search_s];
      try (rewrite <- (char_view_chars c); apply search_view_correct; [assumption|apply char_view_ok|assumption]).
    + rewrite <- Hch. apply rfind_c_correct; assumption.
    + rewrite <- Hch. apply find_first_not_of_c_correct; assumption.
Qed.

(** * compare *)
Lemma clamped_sub_eq v pos count : view_ok v -> pos_ok pos -> pos_ok count ->
  clamped_sub v pos count = C08.Model.substr_m v pos count.
Proof.
  intros (_ & V1 & _) Hp Hc. unfold pos_ok in *. unfold clamped_sub, C08.Model.substr_m.
  destruct (pos <=? vlen v) eqn:E; [|reflexivity].
  rewrite (sz_small (vlen v - pos)) by lia.
  destruct (count >? vlen v - pos) eqn:E2; [|reflexivity].
  do 2 f_equal. unfold min_sz. destruct (vlen v - pos <? vlen v) eqn:E3, (vlen v - pos <? count) eqn:E4; lia.
Qed.

Theorem compare_call_correct s c : inv s -> cmp_call_ok c ->
  res_opt (compare_call_m s c) (compare_call_s (ct_of (ckind s)) (contents s) c).
Proof.
  intros I Hc. destruct (view_of_ok s I) as (Hh & Hch). rewrite <- Hch.
  destruct c; cbn [compare_call_m compare_call_s cmp_call_ok] in *; rewrite ?view_chars_eq.
  - rewrite compare_correct by assumption. reflexivity.
  - destruct Hc as (Hb & Hp & Hn). rewrite clamped_sub_eq by assumption.
    apply (compare3_correct (ckind s) (view_of s) pos count b); assumption.
  - destruct Hc as (Hb & Hp1 & Hn1 & Hp2 & Hn2). rewrite !clamped_sub_eq by assumption.
    apply (compare5_correct (ckind s) (view_of s) pos1 count1 b pos2 count2); assumption.
  - pose proof (compare_p_correct (ckind s) (view_of s) a Hh Hc) as E. unfold compare_p_m in E. rewrite E. reflexivity.
  - destruct Hc as (Ha & Hp & Hn). rewrite clamped_sub_eq by assumption.
    apply (compare3_p_correct (ckind s) (view_of s) pos count a); assumption.
  - destruct Hc as (Ha & Hp & Hn & Hc2). rewrite clamped_sub_eq by assumption.
    apply (compare4_p_correct (ckind s) (view_of s) pos1 count1 a count2); assumption.
  - destruct Hc as (Hv & Hp & Hn). apply compare3_correct; assumption.
  - destruct Hc as (Hv & Hp1 & Hn1 & Hp2 & Hn2). apply compare5_correct; assumption.
Qed.

(** * starts_with / ends_with / contains *)
Theorem starts_with_call_correct s p : inv s -> chars_ok (ct_of (ckind s)) (contents s) -> pfx_ok (ct_of (ckind s)) p ->
  starts_with_call_m s p = Ok (starts_with_s (contents s) (pfx_chars p)).
Proof.
  intros I Cs Hp. destruct (view_of_ok s I) as (Hh & Hch). rewrite <- Hch in *.
  destruct p; cbn [starts_with_call_m pfx_chars pfx_ok] in *; rewrite ?view_chars_eq.
  - destruct Hp. apply starts_with_correct; assumption.
  - apply starts_with_c_correct; assumption.
  - destruct Hp. apply starts_with_p_correct; assumption.
Qed.

Theorem ends_with_call_correct s p : inv s -> chars_ok (ct_of (ckind s)) (contents s) -> pfx_ok (ct_of (ckind s)) p ->
  ends_with_call_m s p = Ok (ends_with_s (contents s) (pfx_chars p)).
Proof.
  intros I Cs Hp. destruct (view_of_ok s I) as (Hh & Hch). rewrite <- Hch in *.
  destruct p; cbn [ends_with_call_m pfx_chars pfx_ok] in *; rewrite ?view_chars_eq.
  - destruct Hp. apply ends_with_correct; assumption.
  - apply ends_with_c_correct; assumption.
  - destruct Hp. apply ends_with_p_correct; assumption.
Qed.

Theorem contains_call_correct s p : inv s -> pfx_ok' p ->
  contains_call_m s p = Ok (contains_s (contents s) (pfx_chars p)).
Proof.
  intros I Hp. destruct (view_of_ok s I) as (Hh & Hch). rewrite <- Hch.
  destruct p; cbn [contains_call_m pfx_chars pfx_ok'] in *; rewrite ?view_chars_eq.
  - apply contains_correct; assumption.
  - apply contains_c_correct; assumption.
  - apply contains_p_correct; assumption.
Qed.

(** * relational operators *)
Lemma char_lt_asym t x y : char_lt t x y = true -> char_lt t y x = false.
Proof. destruct t; cbn [char_lt]; lia. Qed.

Lemma compare_s_swap t : forall a b, compare_s t b a = - compare_s t a b.
Proof.
  induction a as [|x a IH]; intros [|y b]; cbn [compare_s]; try reflexivity.
  destruct (char_lt t x y) eqn:E1.
  - rewrite (char_lt_asym _ _ _ E1). reflexivity.
  - destruct (char_lt t y x); [reflexivity|]. apply IH.
Qed.

Lemma rel_rev c : rel_of_compare_rev c = rel_of_compare (- c).
Proof.
  unfold rel_of_compare_rev, rel_of_compare.
  replace (- c =? 0) with (c =? 0) by lia. replace (- c <? 0) with (c >? 0) by lia.
  replace (- c <=? 0) with (c >=? 0) by lia. replace (- c >? 0) with (c <? 0) by lia.
  replace (- c >=? 0) with (c <=? 0) by lia. reflexivity.
Qed.

Theorem rel_str_str_correct a b : inv a -> inv b ->
  rel_str_str_m a b = Ok (rel_s (ct_of (ckind a)) (contents a) (contents b)).
Proof.
  intros Ia Ib. destruct (view_of_ok a Ia) as (Ha & Ca). destruct (view_of_ok b Ib) as (Hb & Cb).
  unfold rel_str_str_m. rewrite compare_correct by assumption. cbn [rbind]. rewrite Ca, Cb. reflexivity.
Qed.

Theorem rel_str_cstr_correct a r : inv a -> cstr_ok r ->
  rel_str_cstr_m a r = Ok (rel_s (ct_of (ckind a)) (contents a) (cstr_s (vchars r))).
Proof.
  intros Ia Hr. destruct (view_of_ok a Ia) as (Ha & Ca).
  unfold rel_str_cstr_m. cbn [compare_call_m].
  pose proof (compare_p_correct (ckind a) (view_of a) r Ha Hr) as E. unfold compare_p_m in E. rewrite E. cbn [rbind]. rewrite Ca. reflexivity.
Qed.

Theorem rel_cstr_str_correct l b : cstr_ok l -> inv b ->
  rel_cstr_str_m l b = Ok (rel_s (ct_of (ckind b)) (cstr_s (vchars l)) (contents b)).
Proof.
  intros Hl Ib. destruct (view_of_ok b Ib) as (Hb & Cb).
  unfold rel_cstr_str_m. cbn [compare_call_m].
  pose proof (compare_p_correct (ckind b) (view_of b) l Hb Hl) as E. unfold compare_p_m in E. rewrite E. cbn [rbind].
  rewrite rel_rev, Cb. unfold rel_s. rewrite (compare_s_swap _ (cstr_s (vchars l)) (contents b)), Z.opp_involutive. reflexivity.
Qed.

(** * copy, accessors *)
Theorem copy_correct s count pos : inv s -> pos_ok count -> pos_ok pos -> pos <= get_size s ->
  C04.Model.copy_m s count pos = (Z.min count (get_size s - pos), sub (contents s) pos (Z.min count (get_size s - pos))).
Proof.
  intros I Hc Hp Hle. pose proof I as (Hcap & _ & Hs & _). unfold cap_ok in Hcap. unfold pos_ok in *.
  unfold C04.Model.copy_m. replace (pos >? get_size s) with false by lia.
  rewrite sz_id by lia. rewrite min_sz_min. reflexivity.
Qed.

Lemma nth_error_contents s i : inv s -> 0 <= i < get_size s ->
  nth_error (buf s) (Z.to_nat i) = Some (zth (contents s) i).
Proof.
  intros (_ & Hl & Hs & _) Hi. unfold zlen in Hl.
  rewrite nth_error_zth by lia. rewrite Z2Nat.id by lia. unfold contents. rewrite zth_firstn by lia. reflexivity.
Qed.

Theorem index_correct s i : inv s -> pos_ok i ->
  (i < get_size s -> index_m s i = Ok (zth (contents s) i)) /\
  (i = get_size s -> index_m s i = Ok 0) /\
  (i > get_size s -> index_m s i = Contract).
Proof.
  intros I Hi. pose proof I as (Hcap & Hl & Hs & Ht). unfold cap_ok in Hcap. unfold pos_ok in Hi.
  unfold index_m. rewrite sz_id by lia. repeat split; intros H.
  - replace (i <? get_size s + 1) with true by lia. rewrite nth_error_contents by (assumption || lia). reflexivity.
  - replace (i <? get_size s + 1) with true by lia. subst i. unfold zlen in Hl.
    rewrite nth_error_zth by lia. rewrite Z2Nat.id by lia. f_equal. exact Ht.
  - replace (i <? get_size s + 1) with false by lia. reflexivity.
Qed.

Theorem front_back_correct s : inv s ->
  (contents s <> [] -> front_m s = Ok (zth (contents s) 0) /\ back_m s = Ok (zth (contents s) (get_size s - 1))) /\
  (contents s = [] -> front_m s = Contract /\ back_m s = Contract).
Proof.
  intros I. pose proof (contents_len s I) as L. pose proof I as (_ & _ & Hs & _). split; intros H.
  - assert (0 < get_size s).
    { destruct (contents s); [contradiction|]. unfold zlen in L. cbn [length] in L. lia. }
    unfold front_m, back_m. replace (negb (get_size s =? 0)) with true by lia.
    change 0%nat with (Z.to_nat 0). rewrite !nth_error_contents by (assumption || lia). split; reflexivity.
  - rewrite H in L. change (zlen []) with 0 in L.
    unfold front_m, back_m. replace (negb (get_size s =? 0)) with false by lia. split; reflexivity.
Qed.

Theorem empty_full_correct s : inv s ->
  empty_m s = (slen (contents s) =? 0) /\ full_m s = (slen (contents s) =? cap s).
Proof.
  intros I. pose proof (contents_len s I) as L. change zlen with slen in L. unfold empty_m, full_m. rewrite L. split; reflexivity.
Qed.

(** * c_str() / data() is a valid C string: Traits::length (the C08 strlen model: a scan for the null
      character that is UB as soon as it leaves the array) run on the Capacity+1 characters of the object
      returns, stops at or before size(), and yields exactly the contents up to their first null character *)
Theorem c_str_valid s : inv s ->
  exists n, strlen_m (arr_view (buf s)) = Ok n /\ 0 <= n <= get_size s /\
            firstn (Z.to_nat n) (buf s) = cstr_s (contents s ++ [0]) /\
            (Forall (fun c => c <> 0) (contents s) -> n = get_size s).
Proof.
  intros I. pose proof I as (Hc & Hl & Hs & Ht). unfold cap_ok in Hc.
  assert (Hb : zlen (buf s) < 9223372036854775808) by lia.
  destruct (C04.CstrFacts.arr_view_ok (buf s) Hb) as (Hv & Hch).
  assert (Hz : cstr_ok (arr_view (buf s))).
  { split; [exact Hv|]. exists (get_size s). rewrite Hch. cbn [arr_view vlen]. split; [lia|exact Ht]. }
  destruct (cstr_view_spec (arr_view (buf s)) Hz) as (v & Ev & Hvok & Hvch). rewrite Hch in Hvch.
  unfold cstr_view in Ev. destruct (strlen_m (arr_view (buf s))) as [n| | |]; cbn [rbind] in Ev; try discriminate.
  inversion Ev; subst v; clear Ev. pose proof Hvok as (_ & Hn1 & Hn2). cbn [voff vlen vbuf arr_view] in *.
  unfold vchars in Hvch. cbn [voff vlen vbuf skipn Z.to_nat] in Hvch.
  (* the C string of the array is the C string of contents ++ [0] *)
  assert (Hsplit : buf s = (contents s ++ [0]) ++ skipn (S (Z.to_nat (get_size s))) (buf s)).
  { rewrite (list_split_at (buf s) (Z.to_nat (get_size s))) at 1 by (unfold zlen in Hl; lia).
    unfold znth in Ht. rewrite Ht. unfold contents. rewrite <- app_assoc. reflexivity. }
  assert (Hcs : forall (a t : list Z), cstr_s ((a ++ [0]) ++ t) = cstr_s (a ++ [0])).
  { induction a as [|x a IH]; intros t; cbn [app cstr_s]; [reflexivity|]. destruct (x =? 0); [reflexivity|]. rewrite IH. reflexivity. }
  assert (Hcstr : cstr_s (buf s) = cstr_s (contents s ++ [0])) by (rewrite Hsplit at 1; apply Hcs).
  assert (Hlen : forall a : list Z, zlen (cstr_s (a ++ [0])) <= zlen a /\ (Forall (fun c => c <> 0) a -> cstr_s (a ++ [0]) = a)).
  { induction a as [|x a IH]; cbn [app cstr_s].
    - split; [unfold zlen; cbn; lia|reflexivity].
    - destruct IH as (IH1 & IH2). destruct (x =? 0) eqn:E.
      + split; [unfold zlen; cbn [length]; lia|]. intros F. inversion F; subst. lia.
      + split; [unfold zlen in *; cbn [length]; lia|]. intros F. inversion F; subst. rewrite IH2 by assumption. reflexivity. }
  pose proof (contents_len s I) as L. destruct (Hlen (contents s)) as (Hle & Hall).
  assert (Hn : n = zlen (cstr_s (contents s ++ [0]))).
  { rewrite <- Hcstr, <- Hvch. unfold zlen. rewrite firstn_length. unfold len in Hn2. lia. }
  exists n. split; [reflexivity|]. split; [lia|]. split.
  - rewrite Hvch. exact Hcstr.
  - intros F. rewrite Hn, (Hall F). exact L.
Qed.
