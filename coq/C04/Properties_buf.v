(* C04 — copy(destination, count, pos) writes into the caller's array exactly what std::basic_string::copy writes.
   Property theorems only ([exact] of lemmas from ProofsBuf.v) + Print Assumptions.

   [ModelBuf.copy_into_m s d count pos]: the call on a destination array whose characters are ALL in the model
   ([d], any length, any prior contents); result = returned count and the whole array after the call; a store beyond
   the array is UB.  [SpecBuf.s_copy_into]: [string.copy] on the same array.  [inv s]: the representation invariant
   (holds after every history: C04_invariant_all_histories); [pos_ok]: any size_t value, incl. npos. *)
From Tetl Require Import Lib.Base C08.Model C08.Spec C08.ProofsFind
  C04.Model C04.ModelQ C04.Spec C04.Inv C04.ModelBuf C04.SpecBuf C04.ProofsBuf.
Local Open Scope Z_scope.

(* wherever std::basic_string::copy has a result (pos <= size(), the array holds rlen characters) the call returns,
   and returned count AND every character of the destination array are those of std *)
Theorem C04_copy_into_refines_std : forall s d count pos r, inv s -> pos_ok count -> pos_ok pos ->
  s_copy_into (contents s) d count pos = Some r -> copy_into_m s d count pos = Ok r.
Proof. exact copy_into_refines_std. Qed.
Print Assumptions C04_copy_into_refines_std.

Theorem C04_copy_into_std_domain : forall s d count pos, inv s -> pos_ok count -> pos_ok pos ->
  (s_copy_into (contents s) d count pos <> None <-> pos <= get_size s /\ Z.min count (get_size s - pos) <= zlen d).
Proof. exact s_copy_into_defined. Qed.
Print Assumptions C04_copy_into_std_domain.

(* FRAME: for every call that returns - also pos > size(), where the header documents "nothing will be copied" -
   the array keeps its length, the returned count is min(count, size() - pos) (0 for pos > size()), every character at an
   index >= the returned count is UNCHANGED (no terminator, no padding), the characters below are the substring *)
Theorem C04_copy_into_frame : forall s d count pos n d', inv s -> pos_ok count -> pos_ok pos ->
  copy_into_m s d count pos = Ok (n, d') ->
  zlen d' = zlen d /\
  n = (if pos >? get_size s then 0 else Z.min count (get_size s - pos)) /\
  (forall j, n <= j -> znth d' j = znth d j) /\
  (forall j, 0 <= j < n -> znth d' j = znth (contents s) (pos + j)).
Proof. exact copy_into_frame. Qed.
Print Assumptions C04_copy_into_frame.

(* pos > size(): the header documents "nothing will be copied" - returns 0, the destination is untouched
   (std::basic_string::copy throws out_of_range there) *)
Theorem C04_copy_into_past_end : forall s d count pos, get_size s < pos -> copy_into_m s d count pos = Ok (0, d).
Proof. exact copy_into_past_end. Qed.
Print Assumptions C04_copy_into_past_end.

(* the destination has to hold min(count, size() - pos) characters, not one more: exactly that many fit ... *)
Theorem C04_copy_into_exact_fit : forall s d count pos, inv s -> pos_ok count -> pos_ok pos -> pos <= get_size s ->
  zlen d = Z.min count (get_size s - pos) ->
  copy_into_m s d count pos = Ok (zlen d, sub (contents s) pos (zlen d)).
Proof.
  intros s d count pos I Hc Hp Hle Hd.
  rewrite (copy_into_correct s d count pos I Hc Hp Hle) by (unfold rlen_of; lia).
  unfold rlen_of. rewrite <- Hd. unfold zlen at 3. rewrite Nat2Z.id, skipn_all, app_nil_r. reflexivity.
Qed.
Print Assumptions C04_copy_into_exact_fit.

(* ... and a shorter one is undefined behaviour (as for std: [s, s + rlen) must be a valid range) *)
Theorem C04_copy_into_too_short : forall s d count pos, inv s -> pos_ok count -> pos_ok pos -> pos <= get_size s ->
  zlen d < Z.min count (get_size s - pos) -> forall r, copy_into_m s d count pos <> Ok r.
Proof. exact copy_into_too_short. Qed.
Print Assumptions C04_copy_into_too_short.

(* basic_string_view(s).copy(dest, count, pos): the same array result, the view's precondition for pos > size() *)
Theorem C04_view_copy_into : forall s d count pos, inv s -> pos_ok count -> pos_ok pos ->
  view_copy_into_m s d count pos = if pos <=? get_size s then copy_into_m s d count pos else Contract.
Proof. exact view_copy_into_correct. Qed.
Print Assumptions C04_view_copy_into.

Example C04_buf_nonvacuous :
  exists s, ctor_ptr 15 CChar [97; 98; 99; 100; 101; 102] 6 = Ok s /\ inv s /\
    copy_into_m s [35; 36; 37; 38; 39; 40] 9 2 = Ok (4, [99; 100; 101; 102; 39; 40]) /\
    s_copy_into (contents s) [35; 36; 37; 38; 39; 40] 9 2 = Some (4, [99; 100; 101; 102; 39; 40]) /\
    copy_into_m s [35; 36; 37; 38] 18446744073709551615 2 = Ok (4, [99; 100; 101; 102]) /\
    copy_into_m s [35; 36; 37] 9 2 = UB OutOfBounds /\
    copy_into_m s [35; 36] 1 7 = Ok (0, [35; 36]).
Proof.
  eexists. split; [vm_compute; reflexivity|]. split; [|repeat split; vm_compute; reflexivity].
  unfold inv, cap_ok. vm_compute. repeat split; discriminate.
Qed.
