(* C04 model, part 2: the const members — every overload of the six search families, compare,
   starts_with / ends_with / contains, copy, the accessors and the free relational operators — with the
   argument plumbing as written in basic_inplace_string.hpp (after the fix commits).  All of them work
   on basic_string_view(data(), size()) = [view_of s] and delegate to the C08 view model. *)
From Tetl Require Import Lib.Base Lib.Arr C08.Model C04.Model.
Local Open Scope Z_scope.

(* how the needle of a search member is passed *)
Inductive needle :=
| NStr (v : view)                    (* basic_inplace_string const& / string_view: its (data(), size()) *)
| NPtrCount (a : view) (count : Z)   (* (const_pointer s, pos, count): the array s points into *)
| NCstr (a : view)                   (* const_pointer s: a null-terminated array, Traits::length(s) is computed *)
| NChar (c : Z).                     (* Char ch *)

Inductive fam := FFind | FRfind | FFirstOf | FFirstNotOf | FLastOf | FLastNotOf.

(* the member taking a view-like needle *)
Definition search_view_m (f : fam) (s : istr) (n : view) (pos : Z) : res Z :=
  match f with
  | FFind => str_find_m s n pos
  | FRfind => str_rfind_m s n pos
  | FFirstOf => str_find_first_of_m s n pos
  | FFirstNotOf => str_find_first_not_of_m s n pos
  | FLastOf => str_find_last_of_m s n pos
  | FLastNotOf => str_find_last_not_of_m s n pos
  end.

Definition search_m (f : fam) (s : istr) (n : needle) (pos : Z) : res Z :=
  match n with
  | NStr v => search_view_m f s v pos
  | NPtrCount a count => search_view_m f s (ptr_view a count) pos
  | NCstr a => with_cstr a (fun v => search_view_m f s v pos)
  | NChar c =>
      match f with
      | FRfind => rfind_c_m (view_of s) c pos                       (* strings::rfind(view, Char, pos) *)
      | FFirstNotOf => find_first_not_of_c_m (view_of s) c pos      (* view.find_first_not_of(Char, pos) *)
      | _ => search_view_m f s (char_view c) pos                    (* view{&ch, 1} *)
      end
  end.

(* the position used when the member is called without one: 0, except npos for find_last_of /
   find_last_not_of; rfind's default is 0 in this library (std: npos) — known finding *)
Definition default_pos (f : fam) : Z :=
  match f with FLastOf | FLastNotOf => npos | _ => 0 end.

(** * compare overloads *)
Inductive cmp_call :=
| CmpStr (b : view)                                              (* compare(str) / compare(view) *)
| CmpPosStr (pos count : Z) (b : view)                           (* compare(pos, count, str) *)
| CmpPos5Str (pos1 count1 : Z) (b : view) (pos2 count2 : Z)      (* compare(pos1, count1, str, pos2, count2) *)
| CmpCstr (a : view)                                             (* compare(s) *)
| CmpPosCstr (pos count : Z) (a : view)                          (* compare(pos, count, s) *)
| CmpPosPtrCount (pos1 count1 : Z) (a : view) (count2 : Z)       (* compare(pos1, count1, s, count2) *)
| CmpPosView (pos1 count1 : Z) (v : view)                        (* compare(pos1, count1, view) *)
| CmpPos5View (pos1 count1 : Z) (v : view) (pos2 count2 : Z).    (* compare(pos1, count1, view, pos2, count2) *)

(* "auto const sz = count > size() - pos ? size() : count; view(*this).substr(pos, sz)" *)
Definition clamped_sub (v : view) (pos count : Z) : res view :=
  let sz' := if count >? sz (vlen v - pos) then vlen v else count in
  C08.Model.substr_m v pos sz'.

Definition compare_call_m (s : istr) (c : cmp_call) : res Z :=
  let h := view_of s in
  let ck := ckind s in
  match c with
  | CmpStr b => compare_m ck h b
  | CmpPosStr pos count b => do sub <- clamped_sub h pos count; compare_m ck sub b
  | CmpPos5Str pos1 count1 b pos2 count2 =>
      do sub1 <- clamped_sub h pos1 count1; do sub2 <- clamped_sub b pos2 count2; compare_m ck sub1 sub2
  | CmpCstr a => with_cstr a (fun n => compare_m ck h n)
  | CmpPosCstr pos count a => do sub <- clamped_sub h pos count; with_cstr a (fun n => compare_m ck sub n)
  | CmpPosPtrCount pos1 count1 a count2 => do sub <- clamped_sub h pos1 count1; compare_m ck sub (ptr_view a count2)
  | CmpPosView pos1 count1 v => compare3_m ck h pos1 count1 v
  | CmpPos5View pos1 count1 v pos2 count2 => compare5_m ck h pos1 count1 v pos2 count2
  end.

(** * starts_with / ends_with / contains *)
Inductive pfx_arg := PView (v : view) | PChar (c : Z) | PCstr (a : view).

Definition starts_with_call_m (s : istr) (p : pfx_arg) : res bool :=
  match p with
  | PView v => starts_with_m (ckind s) (view_of s) v
  | PChar c => starts_with_c_m (view_of s) c
  | PCstr a => starts_with_p_m (ckind s) (view_of s) a
  end.
Definition ends_with_call_m (s : istr) (p : pfx_arg) : res bool :=
  match p with
  | PView v => ends_with_m (ckind s) (view_of s) v
  | PChar c => ends_with_c_m (view_of s) c
  | PCstr a => ends_with_p_m (ckind s) (view_of s) a
  end.
Definition contains_call_m (s : istr) (p : pfx_arg) : res bool :=
  match p with
  | PView v => contains_m (view_of s) v
  | PChar c => contains_c_m (view_of s) c
  | PCstr a => contains_p_m (view_of s) a
  end.

(** * free relational operators: ==, !=, <, <=, >, >= in this order *)
(* string OP string, string OP Char const*: lhs.compare(rhs) OP 0 *)
Definition rel_of_compare (c : Z) : list bool := [c =? 0; negb (c =? 0); c <? 0; c <=? 0; c >? 0; c >=? 0].
(* Char const* OP string: rhs.compare(lhs) with the mirrored relation *)
Definition rel_of_compare_rev (c : Z) : list bool := [c =? 0; negb (c =? 0); c >? 0; c >=? 0; c <? 0; c <=? 0].

Definition rel_str_str_m (a b : istr) : res (list bool) := do c <- compare_m (ckind a) (view_of a) (view_of b); Ok (rel_of_compare c).
Definition rel_str_cstr_m (a : istr) (r : view) : res (list bool) := do c <- compare_call_m a (CmpCstr r); Ok (rel_of_compare c).
Definition rel_cstr_str_m (l : view) (b : istr) : res (list bool) := do c <- compare_call_m b (CmpCstr l); Ok (rel_of_compare_rev c).

(** * accessors *)
(* operator[] / unsafe_at: TETL_PRECONDITION(index < size() + 1) — the terminator is addressable *)
Definition index_m (s : istr) (i : Z) : res Z :=
  if i <? sz (get_size s + 1) then
    match nth_error (buf s) (Z.to_nat i) with Some c => Ok c | None => UB OutOfBounds end
  else Contract.
Definition front_m (s : istr) : res Z :=
  if negb (get_size s =? 0) then
    match nth_error (buf s) 0 with Some c => Ok c | None => UB OutOfBounds end
  else Contract.
(* *etl::prev(end()) *)
Definition back_m (s : istr) : res Z :=
  if negb (get_size s =? 0) then
    match nth_error (buf s) (Z.to_nat (get_size s - 1)) with Some c => Ok c | None => UB OutOfBounds end
  else Contract.
Definition empty_m (s : istr) : bool := get_size s =? 0.
Definition full_m (s : istr) : bool := get_size s =? cap s.
