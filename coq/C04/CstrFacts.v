(* C04: C-string pointer arguments.  [s_cstr a = Some l]: the array a holds a null character and l is the
   C string in front of it; then Traits::length (the C08 strlen model) returns |l| without leaving the array. *)
From Tetl Require Import Lib.Base Lib.Arr C08.Model C08.Spec C08.Core C08.ProofsPtr C04.Model C04.Spec.
From Coq Require Import ZifyBool.
Local Open Scope Z_scope.
Ltac Zify.zify_post_hook ::= Z.to_euclidean_division_equations.

(* a usable Char const* argument: points into an array (shorter than 2^63) that holds a null character *)
Definition cstr_arg_ok (a : list Z) : Prop := s_cstr a <> None /\ zlen a < 9223372036854775808.

Lemma s_cstr_spec : forall a l, s_cstr a = Some l ->
  l = cstr_s a /\ exists z, 0 <= z < len a /\ zth a z = 0.
Proof.
  induction a as [|x a IH]; intros l H; cbn [s_cstr] in H; [discriminate|].
  cbn [cstr_s]. destruct (x =? 0) eqn:E.
  - inversion H; subst. split; [reflexivity|]. exists 0. unfold len, zth. cbn [length nth Z.to_nat]. split; lia.
  - destruct (s_cstr a) as [l0|] eqn:E0; [|discriminate]. inversion H; subst.
    destruct (IH l0 eq_refl) as (-> & z & Hz & Hzz). split; [reflexivity|].
    exists (z + 1). unfold len, zth in *. cbn [length]. split; [lia|].
    replace (Z.to_nat (z + 1)) with (S (Z.to_nat z)) by lia. exact Hzz.
Qed.

Lemma arr_view_ok a : zlen a < 9223372036854775808 -> view_ok (arr_view a) /\ vchars (arr_view a) = a.
Proof.
  intros H. unfold view_ok, arr_view, vchars, len, zlen in *. cbn [voff vlen vbuf skipn Z.to_nat].
  split; [lia|]. rewrite Nat2Z.id. apply firstn_all.
Qed.

Lemma strlen_ok a l : cstr_arg_ok a -> s_cstr a = Some l ->
  strlen_m (arr_view a) = Ok (zlen l) /\ l = firstn (Z.to_nat (zlen l)) a /\ 0 <= zlen l < zlen a.
Proof.
  intros (_ & Hb) H. destruct (s_cstr_spec a l H) as (-> & z & Hz & Hzz).
  destruct (arr_view_ok a Hb) as (Hv & Hch).
  assert (Hc : cstr_ok (arr_view a)).
  { split; [exact Hv|]. exists z. rewrite Hch. split; [exact Hz|exact Hzz]. }
  destruct (cstr_view_spec (arr_view a) Hc) as (n & En & Hn & Hcn). rewrite Hch in Hcn.
  unfold cstr_view in En. destruct (strlen_m (arr_view a)) as [k| | |] eqn:Ek; cbn [rbind] in En; try discriminate.
  inversion En; subst n; clear En.
  pose proof Hn as (_ & Hk1 & Hk2). cbn [voff vlen vbuf arr_view] in *.
  assert (Hlen : zlen (cstr_s a) = k).
  { rewrite <- Hcn. unfold vchars, zlen. cbn [voff vlen vbuf skipn Z.to_nat]. rewrite firstn_length. unfold len in Hk2. lia. }
  rewrite Hlen. split; [reflexivity|]. split.
  - rewrite <- Hcn. reflexivity.
  - (* the null character itself is not part of the C string *)
    split; [lia|]. unfold len, zlen in *.
    destruct (Z_lt_le_dec k (Z.of_nat (length a))) as [Hlt|Hge]; [exact Hlt|].
    exfalso. assert (Hall : cstr_s a = a).
    { rewrite <- Hcn. unfold vchars. cbn [voff vlen vbuf skipn Z.to_nat]. apply firstn_all2. lia. }
    clear - Hall Hz Hzz. revert z Hz Hzz. induction a as [|x a IH]; intros z Hz Hzz.
    + cbn [length] in Hz. lia.
    + cbn [cstr_s] in Hall. destruct (x =? 0) eqn:E; [discriminate|]. inversion Hall as [Ha].
      destruct (Z.eq_dec z 0) as [->|Hne].
      * unfold zth in Hzz. cbn [Z.to_nat nth] in Hzz. lia.
      * apply (IH Ha (z - 1)).
        -- cbn [length] in Hz. lia.
        -- unfold zth in *. replace (Z.to_nat z) with (S (Z.to_nat (z - 1))) in Hzz by lia. exact Hzz.
Qed.
