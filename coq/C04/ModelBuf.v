(* C04 model, part 4: the members that write into a CALLER's buffer.

   basic_inplace_string::copy(destination, count, pos) is the only member of inplace_string that writes
   outside the object: etl::copy(data() + pos, data() + pos + min(count, size() - pos), destination).
   [Model.copy_m] says which characters are written and what is returned; here the DESTINATION is part of
   the model: an array [d] of the caller (all of its characters, also those the call is not supposed to
   touch), every store goes through the checked write [wr] (UB OutOfBounds beyond the array), and the
   result is the whole array after the call.  So "copy stores nothing but the copied characters"
   (no terminator, no padding - std::basic_string::copy never writes one) is a statement about this model
   (frame condition, ProofsBuf.v) and the harness compares the whole destination, guard characters included.

   [view_copy_into_m]: the same through basic_string_view(s).copy(dest, count, pos) (the anchored
   string_view member: TETL_PRECONDITION(pos <= size()), Traits::copy). *)
From Tetl Require Import Lib.Base Lib.Arr C08.Model C04.Model.
Local Open Scope Z_scope.

(* [Model.copy_m] under a name that no other extracted definition has (C08.Model.copy_m, reached through
   [view_copy_into_m], shares the short name; the driver must not depend on how extraction renames the clash) *)
Definition istr_copy_m (s : istr) (count pos : Z) : Z * list Z := C04.Model.copy_m s count pos.

(* s.copy(d, count, pos): the returned count and the destination array after the call *)
Definition copy_into_m (s : istr) (d : list Z) (count pos : Z) : res (Z * list Z) :=
  let nl := C04.Model.copy_m s count pos in
  do d' <- write_range d 0 (snd nl);
  Ok (fst nl, d').

(* etl::basic_string_view<Char>(s).copy(d, count, pos) *)
Definition view_copy_into_m (s : istr) (d : list Z) (count pos : Z) : res (Z * list Z) :=
  do nl <- C08.Model.copy_m (view_of s) count pos;
  do d' <- write_range d 0 (snd nl);
  Ok (fst nl, d').
